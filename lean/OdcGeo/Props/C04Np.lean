/-
C04 — numpy integer scalars as tile / pixel index (model: `Model/C04Np.lean`): on the repaired code
every indexing entry point answers exactly like the same call with Python ints, or raises.
-/
import OdcGeo.Model.C04Np
import OdcGeo.Props.C04
import Mathlib.Tactic.Linarith
namespace OdcGeo.C04
open OdcGeo OdcGeo.C17 OdcGeo.NpArray

/-- same value, Python spelling -/
def IntArg.toPy (i : IntArg) : IntArg := .py i.val

/-- **`tile_shape`: any integer type, the Python-int answer** (as repaired) -/
theorem tileShapeI_eq_py (t : Tiling) (i : IntArg) : tileShapeI t i = tileShapeI t i.toPy := rfl

/-- **`locate`: the Python-int answer or a refusal** – a numpy pixel coordinate whose type cannot hold
the tile size is refused with `OverflowError`, nothing else differs -/
theorem locateI_py_or_error (t : Tiling) (y : IntArg) :
    locateI t y = locateI t y.toPy ∨ locateI t y = .error .overflow := by
  cases y with
  | py v => left; rfl
  | np ty v =>
    cases t with
    | var ch => left; rfl
    | reg N n =>
      simp only [locateI, IntArg.toPy, IntArg.val, Tiling.locate, C04.locate]
      by_cases hr : v < 0 ∨ v ≥ N
      · left; simp [hr, liftN]
      · simp only [if_neg hr]
        cases hs : C04.tileShape N n 0 with
        | error e => left; simp [liftN, bind, Except.bind]
        | ok ny =>
          simp only [liftN, bind, Except.bind, npFloorDiv, pure, Except.pure]
          by_cases hf : ty.fits ny = true
          · left; simp [hf]
          · right; simp [hf]

/-- **`[]`, `crop`, `pix_bbox`: a numpy scalar is refused**, never answered with another region -/
theorem getItemI_np_refused (t : Tiling) (ty : NpT) (v : Int) : getItemI t (.np ty v) = .error .attribute := rfl

theorem getItemI_py (t : Tiling) (v : Int) : getItemI t (.py v) = liftN (t.getItem (.idx v)) := rfl

/-- the three together: on the repaired code no indexing entry point returns anything but the
Python-int answer for a numpy index -/
theorem np_index_py_or_error (t : Tiling) (i : IntArg) :
    (tileShapeI t i = tileShapeI t i.toPy) ∧
    (locateI t i = locateI t i.toPy ∨ ∃ e, locateI t i = .error e) ∧
    (getItemI t i = getItemI t i.toPy ∨ ∃ e, getItemI t i = .error e) := by
  refine ⟨rfl, ?_, ?_⟩
  · rcases locateI_py_or_error t i with h | h
    · exact Or.inl h
    · exact Or.inr ⟨_, h⟩
  · cases i with
    | py v => left; rfl
    | np ty v => right; exact ⟨_, rfl⟩

/-- **as found** (F61): `np.uint8(255)` on a column of 300 one-pixel tiles – `i + 1` wrapped to 0 and the
tile's height came out as `offsets[0] - offsets[255] = -255`; the Python-int answer is 1 -/
theorem vtile_shape_uint8_as_found_cex :
    vtileShapeAsFound (List.replicate 300 1) (.np ⟨false, 8⟩ 255) = .ok (-255) ∧
    tileShapeI (.var (List.replicate 300 1)) (.np ⟨false, 8⟩ 255) = .ok 1 := by
  decide +kernel

/-- as found, `np.int8(127)` with 128+ tiles: `i + 1 = -128` indexes the offsets from the end -/
theorem vtile_shape_int8_as_found_cex :
    vtileShapeAsFound (List.replicate 140 3) (.np ⟨true, 8⟩ 127) = .ok (-342) ∧
    tileShapeI (.var (List.replicate 140 3)) (.np ⟨true, 8⟩ 127) = .ok 3 := by
  decide +kernel

end OdcGeo.C04
