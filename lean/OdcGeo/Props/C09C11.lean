/-
C09 × C11 — `xr_reproject(src, <CRS>, **options)` from its arguments to the GeoBox recovered from its result.

`xrReprojectDa` / `xrReprojectDs` (Model/C09Reproject.lean) compose the C09 model (`recover`, `assemble`) with the
C11 model (`computeOutputCp`, Model/C11.lean + C11Glue.lean).  No hypothesis sits between the two: the destination
grid is computed by the C11 model from the GeoBox the C09 model recovers from the source array, with the options
as they travel through the keyword dictionary.
-/
import OdcGeo.Model.C09Reproject
import OdcGeo.Props.C09
import OdcGeo.Props.C11
import OdcGeo.Props.C11Glue
import Mathlib.Tactic.Linarith
import Mathlib.Tactic.NormNum
import Mathlib.Algebra.Order.Field.Rat
import Mathlib.Algebra.Order.AbsoluteValue.Basic

namespace OdcGeo.C09
open OdcGeo

/-- the options as `compute_output_geobox` receives them: every parameter explicitly bound -/
def effectiveArgs (a : C11.GridArgs) : C11.GridArgs :=
  ⟨some (a.resolution.getD (.str "auto")), some (a.shape.getD .none), some (a.tight.getD false),
   some (a.anchor.getD .dflt), some (a.tol.getD C11.tolDefault), some (a.rnd.getD .none)⟩

theorem filter_gbox_extra (extra : List (String × KwVal)) (h : ∀ kv ∈ extra, kv.1 ∉ gboxKeys) :
    extra.filter (fun kv => gboxKeys.contains kv.1) = [] ∧
    extra.filter (fun kv => !gboxKeys.contains kv.1) = extra := by
  constructor
  · rw [List.filter_eq_nil_iff]
    intro kv hkv
    simpa using h kv hkv
  · rw [List.filter_eq_self]
    intro kv hkv
    simpa using h kv hkv

/-- **grid_options_travel_unchanged** — whatever grid options the caller passes to `xr_reproject` (or leaves at
their defaults), and whatever other keywords accompany them, `_extract_output_geobox_params` hands
`compute_output_geobox` exactly those values — falsy ones (`tol=0`, `tight=False`, `shape=None`,
`round_resolution=None/False`) included — and leaves exactly the other keywords for the warp. -/
theorem grid_options_travel_unchanged (a : C11.GridArgs) (extra : List (String × KwVal))
    (hextra : ∀ kv ∈ extra, kv.1 ∉ gboxKeys) :
    bindGridArgs (extractOutputGeoboxParams (xrReprojectKw a extra)).1 = some (effectiveArgs a) ∧
    (extractOutputGeoboxParams (xrReprojectKw a extra)).2 = extra := by
  obtain ⟨h1, h2⟩ := filter_gbox_extra extra hextra
  constructor
  · simp only [extractOutputGeoboxParams, xrReprojectKw, List.filter_append, h1, List.append_nil]
    cases hs : a.shape <;> cases hr : a.rnd <;>
      simp [bindGridArgs, gboxKeys, List.filter, List.lookup, effectiveArgs, hs, hr]
  · simp only [extractOutputGeoboxParams, xrReprojectKw, List.filter_append, h2]
    simp [gboxKeys, List.filter]

/-- `effectiveArgs` does not change what is computed -/
theorem outputGeoboxOf_effective (r : Recovered) (sc c : Crs) (p : Proj) (a : C11.GridArgs) :
    outputGeoboxOf r sc c p (effectiveArgs a) = outputGeoboxOf r sc c p a := by
  simp [outputGeoboxOf, effectiveArgs]

/-! ### the destination grid is a well-formed GeoBox -/

theorem snapEdgePos_n_pos (x0 x1 res tol tx : Rat) (n : Int) (h : C11.snapEdgePos x0 x1 res tol = .ok (tx, n)) :
    1 ≤ n := by
  unfold C11.snapEdgePos at h
  split at h
  · cases h
  · split at h
    · cases h
    · simp only [Except.ok.injEq, Prod.mk.injEq] at h
      obtain ⟨_, h2⟩ := h
      rw [← h2]
      exact le_max_left _ _

/-- `snap_grid` never returns fewer than one pixel (any tolerance, any sign of the pixel size) -/
theorem snapGrid_n_pos (x0 x1 res : Rat) (off : Option Rat) (tol tx : Rat) (n : Int)
    (h : C11.snapGrid x0 x1 res off tol = .ok (tx, n)) : 1 ≤ n := by
  unfold C11.snapGrid at h
  cases off with
  | none =>
    simp only at h
    split at h
    · cases h
    · split at h <;> simp only [Except.ok.injEq, Prod.mk.injEq] at h <;> obtain ⟨_, h2⟩ := h <;> rw [← h2]
      · exact le_max_left _ _
      · exact le_max_right _ _
  | some o =>
    simp only at h
    split at h
    · cases h
    · split at h
      · cases h
      · rename_i tx' n' hs
        simp only [Except.ok.injEq, Prod.mk.injEq] at h
        obtain ⟨_, h2⟩ := h
        subst h2
        unfold C11.snapEdge at hs
        split at hs
        · cases hs
        · split at hs
          · exact snapEdgePos_n_pos _ _ _ _ _ _ hs
          · split at hs
            · cases hs
            · rename_i tx'' n'' hp
              simp only [Except.ok.injEq, Prod.mk.injEq] at hs
              obtain ⟨_, h3⟩ := hs
              subst h3
              exact snapEdgePos_n_pos _ _ _ _ _ _ hp

theorem fromBbox_ok_aligned (b : C11.BBox) (shape : C11.ShapeReq) (res : Option (Rat × Rat)) (anchor : C11.Anchor)
    (tight : Bool) (tol : Rat) (gr : C11.Grid) (h : C11.fromBbox b shape res anchor tight tol = .ok gr) :
    gr.A.b = 0 ∧ gr.A.d = 0 ∧
      ((1 ≤ gr.ny ∧ 1 ≤ gr.nx) ∨ ∃ ny nx, shape = .exact ny nx ∧ gr.ny = ny ∧ gr.nx = nx ∧ ny ≠ 0 ∧ nx ≠ 0) := by
  have hres : ∀ rx ry snap, C11.fromBboxRes b rx ry snap tol = .ok gr →
      gr.A.b = 0 ∧ gr.A.d = 0 ∧ 1 ≤ gr.ny ∧ 1 ≤ gr.nx := by
    intro rx ry snap hf
    obtain ⟨offx, nx, offy, ny, hx, hy, hg⟩ := C11.fromBboxRes_ok _ _ _ _ _ _ hf
    subst hg
    refine ⟨?_, ?_, snapGrid_n_pos _ _ _ _ _ _ _ hy, snapGrid_n_pos _ _ _ _ _ _ _ hx⟩ <;>
      simp [Aff.mul_def, Aff.mul, Aff.translation, Aff.scale]
  unfold C11.fromBbox at h
  cases shape with
  | none =>
    simp only at h
    cases res with
    | none => simp at h
    | some r =>
      obtain ⟨rx, ry⟩ := r
      obtain ⟨h1, h2, h3, h4⟩ := hres rx ry _ h
      exact ⟨h1, h2, Or.inl ⟨h3, h4⟩⟩
  | side n =>
    simp only at h
    split at h
    · cases h
    · obtain ⟨h1, h2, h3, h4⟩ := hres _ _ _ h
      exact ⟨h1, h2, Or.inl ⟨h3, h4⟩⟩
    · exfalso
      split_ifs at h
  | exact ny nx =>
    simp only at h
    cases res with
    | some r =>
      obtain ⟨rx, ry⟩ := r
      obtain ⟨h1, h2, h3, h4⟩ := hres rx ry _ h
      exact ⟨h1, h2, Or.inl ⟨h3, h4⟩⟩
    | none =>
      simp only at h
      split at h
      · cases h
      · rename_i hz
        have hz' : ny ≠ 0 ∧ nx ≠ 0 := ⟨fun h0 => hz (Or.inr h0), fun h0 => hz (Or.inl h0)⟩
        split at h
        · simp only [Except.ok.injEq] at h
          subst h
          refine ⟨?_, ?_, Or.inr ⟨ny, nx, rfl, rfl, rfl, hz'.1, hz'.2⟩⟩ <;>
            simp [Aff.mul_def, Aff.mul, Aff.translation, Aff.scale]
        · split at h
          · simp only [Except.ok.injEq] at h
            subst h
            refine ⟨?_, ?_, Or.inr ⟨ny, nx, rfl, rfl, rfl, hz'.1, hz'.2⟩⟩ <;>
              simp [Aff.mul_def, Aff.mul, Aff.translation, Aff.scale]
          · cases h
          · cases h

/-- what `compute_output_geobox` can return, for either kind of source -/
theorem computeOutputCp_cases (g : Bool) (cc : C11.CapturedCp) (mode : C11.ResMode) (shape : C11.ShapeReq) (tight : Bool)
    (anchor : C11.Anchor) (tol : Rat) (rnd : C11.Rounding) (o : C11.Out)
    (h : C11.computeOutputCp g cc mode shape tight anchor tol rnd = .ok o) :
    (o = .source ∧ g = true ∧ cc.sameCrs = true ∧ (mode = .auto ∨ mode = .same) ∧ shape = .none ∧ anchor = .dflt) ∨
    (∃ gr res, o = .grid gr ∧ C11.fromBbox cc.bbox shape res anchor tight tol = .ok gr) := by
  have hany : ∀ c' : C11.Captured, c'.bbox = cc.bbox → c'.sameCrs = cc.sameCrs →
      C11.computeOutputAny g c' mode shape tight anchor tol rnd = .ok o →
      ¬ (g = true ∧ cc.sameCrs = true ∧ (mode = .auto ∨ mode = .same) ∧ shape = .none ∧ anchor = .dflt) →
      ∃ gr res, o = .grid gr ∧ C11.fromBbox cc.bbox shape res anchor tight tol = .ok gr := by
    intro c' hb hsc hco hnf
    have hgen : (match C11.chooseRes c' mode shape rnd with
        | .error e => (.error e : Res C11.Out)
        | .ok res => (C11.fromBbox c'.bbox shape res anchor tight tol).map C11.Out.grid) = .ok o := by
      cases g with
      | false =>
        simp only [C11.computeOutputAny, Bool.false_eq_true, if_false] at hco
        exact hco
      | true =>
        simp only [C11.computeOutputAny, if_true] at hco
        unfold C11.computeOutput at hco
        split at hco
        · rename_i hh
          exact absurd ⟨rfl, hsc ▸ hh.1, hh.2.1, hh.2.2.1, hh.2.2.2⟩ hnf
        · exact hco
    split at hgen
    · cases hgen
    · rename_i res _
      rw [hb] at hgen
      cases hf : C11.fromBbox cc.bbox shape res anchor tight tol with
      | error e => simp [hf, Except.map] at hgen
      | ok gr =>
        simp only [hf, Except.map, Except.ok.injEq] at hgen
        exact ⟨gr, res, hgen.symm, hf⟩
  unfold C11.computeOutputCp at h
  split at h
  · rename_i hh
    simp only [Except.ok.injEq] at h
    exact Or.inl ⟨h.symm, hh.1, hh.2.1, hh.2.2.1, hh.2.2.2.1, hh.2.2.2.2⟩
  · rename_i hnf
    right
    split at h
    · split at h
      · cases h
      · exact hany _ rfl rfl h hnf
    · exact hany _ rfl rfl h hnf

/-- **output_geobox_wellformed** — `.odc.output_geobox(crs, **kw)` / the destination of `xr_reproject(src, crs, **kw)`
for a linear source with CRS `sc`: either the source GeoBox itself (only for the source's own CRS with
`resolution` auto/same, no shape, the literal default anchor), or an axis-aligned grid in the requested CRS with at
least one pixel per axis. -/
theorem output_geobox_wellformed (g : GeoBox) (sc c : Crs) (p : Proj) (a : C11.GridArgs) (dst : GeoBox)
    (h : outputGeoboxOf (.lin g) sc c p a = .ok dst) :
    (dst = g ∧ c = sc ∧ (a.shape = none ∨ a.shape = some .none) ∧ (a.anchor = none ∨ a.anchor = some .dflt)) ∨
    (dst.crs = some c ∧ 1 ≤ dst.ny ∧ 1 ≤ dst.nx ∧ dst.A.b = 0 ∧ dst.A.d = 0) := by
  unfold outputGeoboxOf at h
  simp only at h
  split at h
  · cases h
  · rename_i hco
    simp only [Except.ok.injEq] at h
    rcases computeOutputCp_cases _ _ _ _ _ _ _ _ _ hco with ⟨_, _, hsc, _, hshape, hanchor⟩ | ⟨gr, res, ho, _⟩
    · left
      refine ⟨h.symm, by simpa using hsc, ?_, ?_⟩
      · cases hs : a.shape with
        | none => exact Or.inl rfl
        | some s => right; simp [hs] at hshape; rw [hshape]
      · cases ha : a.anchor with
        | none => exact Or.inl rfl
        | some s => right; simp [ha] at hanchor; rw [hanchor]
    · cases ho
  · rename_i gr hco
    right
    rcases computeOutputCp_cases _ _ _ _ _ _ _ _ _ hco with ⟨ho, _⟩ | ⟨gr', res, ho, hf⟩
    · cases ho
    · cases ho
      obtain ⟨hb, hd, hn⟩ := fromBbox_ok_aligned _ _ _ _ _ _ _ hf
      unfold gridToGeoBox at h
      split at h
      · cases h
      · rename_i hneg
        simp only [Except.ok.injEq] at h
        subst h
        have hny0 : 0 ≤ gr.ny := by omega
        have hnx0 : 0 ≤ gr.nx := by omega
        refine ⟨rfl, ?_, ?_, hb, hd⟩
        · rcases hn with ⟨h1, _⟩ | ⟨ny, nx, _, h1, _, h3, _⟩
          · simp only; omega
          · simp only; omega
        · rcases hn with ⟨_, h1⟩ | ⟨ny, nx, _, _, h2, _, h4⟩
          · simp only; omega
          · simp only; omega

/-! ### from the arguments of `xr_reproject` to the GeoBox recovered from its result -/

/-- a successful `xr_reproject(src: DataArray, <CRS>, **options)` decomposed: the source has a geobox `r` with a
CRS, the destination is what `compute_output_geobox` gives for `r` with the caller's options, and the result is
the assembly of the source's non-spatial parts with that destination. -/
theorem xrReprojectDa_ok (src : XArr) (c : Crs) (p : Proj) (a : C11.GridArgs) (extra : List (String × KwVal))
    (nd : Bool) (out : XArr) (hextra : ∀ kv ∈ extra, kv.1 ∉ gboxKeys)
    (h : xrReprojectDa src (.crs c p) a extra nd = .ok out) :
    ∃ r sc dst, recover src = .ok r ∧ r.crs = some sc ∧ outputGeoboxOf r sc c p a = .ok dst ∧
      assemble src dst (nd || hasSrcNodata extra) = .ok out := by
  obtain ⟨hb, hrest⟩ := grid_options_travel_unchanged a extra hextra
  unfold xrReprojectDa at h
  simp only at h
  split at h
  · cases h
  · rename_i r hr
    split at h
    · cases h
    · rename_i sc hsc
      split at h
      · cases h
      · rename_i dst hd
        simp only [dstGeobox, hb, outputGeoboxOf_effective] at hd
        rw [hrest] at h
        exact ⟨r, sc, dst, hr, hsc, hd, h⟩

/-- **xr_reproject_crs_geobox** — `xr_reproject(src, <CRS>, **options)` / `src.odc.reproject(<CRS>, **options)` on a
DataArray, from the arguments to the result: for every source array with dims `(time?) y x (band?)` whose
recovered GeoBox is `g`, every destination CRS `c`, every combination of grid options (passed or left at their
defaults) and other keywords, whenever the call succeeds the GeoBox recovered from the **output** is exactly the
grid `compute_output_geobox(g, c, **options)` describes (C11 model), in CRS `c`; the output carries no
`SPATIAL_ATTRIBUTES` key and `grid_mapping = spatial_ref`.  `hg` is needed on the identity path only (destination =
the source's own CRS with default grid options, where the destination *is* `g`). -/
theorem xr_reproject_crs_geobox (src : XArr) (sc0 : Option Crs) (pre post : List String) (g : GeoBox) (c : Crs)
    (p : Proj) (a : C11.GridArgs) (extra : List (String × KwVal)) (nd : Bool) (out : XArr)
    (hshape : DimsShape src sc0 pre post) (hrec : recover src = .ok (.lin g))
    (hextra : ∀ kv ∈ extra, kv.1 ∉ gboxKeys)
    (hg : g.crs = some c → 1 ≤ g.ny ∧ 1 ≤ g.nx ∧ (isAffineST g.A = true → g.A.b = 0 ∧ g.A.d = 0))
    (h : xrReprojectDa src (.crs c p) a extra nd = .ok out) :
    ∃ sc dst, g.crs = some sc ∧ outputGeoboxOf (.lin g) sc c p a = .ok dst ∧ recover out = .ok (.lin dst) ∧
      dst.crs = some c ∧ (∀ k ∈ out.attrs, k ∉ spatialAttributes) ∧ out.gridMapping = some "spatial_ref" := by
  obtain ⟨r, sc, dst, hr, hsc, hd, hasm⟩ := xrReprojectDa_ok src c p a extra nd out hextra h
  rw [hrec] at hr
  simp only [Except.ok.injEq] at hr
  subst hr
  have hsc' : g.crs = some sc := hsc
  obtain ⟨hp1, hp2⟩ := reproject_prunes src dst _ out hasm
  rcases output_geobox_wellformed g sc c p a dst hd with ⟨hdg, hcs, _, _⟩ | ⟨hc, hny, hnx, hb, hdd⟩
  · subst hdg
    subst hcs
    obtain ⟨h1, h2, h3⟩ := hg hsc'
    exact ⟨c, dst, hsc', hd, reproject_geobox src sc0 pre post dst c _ out hshape hsc' h1 h2 h3 hasm, hsc', hp1, hp2⟩
  · exact ⟨sc, dst, hsc', hd,
      reproject_geobox src sc0 pre post dst c _ out hshape hc hny hnx (fun _ => ⟨hb, hdd⟩) hasm, hc, hp1, hp2⟩

/-- **xr_reproject_crs_history** — the same for the property's quantifier: wrap any axis-aligned GeoBox `g0` (any
signs, shape, rank, CRS-coordinate name), apply any finite history of admissible operations, call
`xr_reproject(…, <CRS>, **options)`: no hypothesis about the intermediate array is left. -/
theorem xr_reproject_crs_history (g0 : GeoBox) (nt nb : Option Nat) (cn : String) (attrs : List String)
    (ops : List Op) (a0 arr : XArr) (c : Crs) (p : Proj) (a : C11.GridArgs) (extra : List (String × KwVal))
    (nd : Bool) (out : XArr) (hcn : NameOk cn) (hb : g0.A.b = 0) (hd : g0.A.d = 0)
    (hw : wrap (.lin g0) nt nb cn attrs = .ok a0) (hadm : ∀ op ∈ ops, op.admissible)
    (hops : applyOps a0 ops = .ok arr) (hextra : ∀ kv ∈ extra, kv.1 ∉ gboxKeys)
    (h : xrReprojectDa arr (.crs c p) a extra nd = .ok out) :
    ∃ g sc dst, recover arr = .ok (.lin g) ∧ g.crs = some sc ∧ outputGeoboxOf (.lin g) sc c p a = .ok dst ∧
      recover out = .ok (.lin dst) ∧ dst.crs = some c ∧ (∀ k ∈ out.attrs, k ∉ spatialAttributes) := by
  obtain ⟨r, sc, dst, hr, hsc, _, _⟩ := xrReprojectDa_ok arr c p a extra nd out hextra h
  have hst : isAffineST g0.A = true := by
    have : (0 : Rat) < tolST := by norm_num [tolST]
    simp [isAffineST, hb, hd, rabs, this]
  have hI0 := inv_wrap g0 nt nb cn attrs a0 hcn hw
  have hI := inv_ops g0 cn hcn ops (AxMap.ident g0.ny, AxMap.ident g0.nx) a0 arr hI0 hadm hops
  -- the dims keep their shape along the history
  obtain ⟨pre0, post0, hs0⟩ := dimsShape_wrap g0 nt nb cn attrs a0 hw
  have key : ∀ (ops : List Op) (a0 a : XArr) (pre post : List String), DimsShape a0 g0.crs pre post →
      (∀ op ∈ ops, op.admissible) → applyOps a0 ops = .ok a → ∃ pre' post', DimsShape a g0.crs pre' post' := by
    intro ops
    induction ops with
    | nil =>
      intro a0 a pre post hs _ h
      simp only [applyOps, Except.ok.injEq] at h
      subst h
      exact ⟨pre, post, hs⟩
    | cons op rest ih =>
      intro a0 a pre post hs hadm h
      simp only [applyOps] at h
      split at h
      · cases h
      · rename_i a1 h1
        obtain ⟨p1, q1, hs1⟩ := dimsShape_step a0 a1 g0.crs pre post op hs (hadm op List.mem_cons_self) h1
        exact ih a1 a p1 q1 hs1 (fun o ho => hadm o (List.mem_cons_of_mem _ ho)) h
  obtain ⟨pre, post, hs⟩ := key ops a0 arr pre0 post0 hs0 hadm hops
  -- what is recovered from the source array: an axis-aligned box (labels), or nothing / an error
  set m := track (dimsOf g0.crs).1 (dimsOf g0.crs).2 (AxMap.ident g0.ny, AxMap.ident g0.nx) ops with hm
  have hrec_form : ∀ g, recover arr = .ok (.lin g) → g.A.b = 0 ∧ g.A.d = 0 ∧ (1 ≤ g.ny ∧ 1 ≤ g.nx) := by
    intro g hg
    have hloc := inv_locate g0 cn m.1 m.2 arr hI
    unfold recover at hg
    rw [spatialDims_of_guess _ _ hI.sd] at hg
    simp only [hI.ylk, hI.xlk, hloc] at hg
    have hxf : xfOf g0 = none := by simp [xfOf, hst]
    have hgcp : (((ccOf g0).toList.head?).bind (·.gcps)) = none := by
      cases hcrs : g0.crs <;> simp [ccOf, hcrs]
    simp only [hgcp, hxf, Option.isSome_none] at hg
    split at hg
    · cases hg
    · rename_i t ht
      cases t with
      | none => cases hg
      | some t =>
        simp only [Except.ok.injEq, Recovered.lin.injEq] at hg
        subst hg
        simp only [labelsFor, ap, List.length_map, List.length_range]
        -- `t` is `translation * scale` (no `_transform`): axis-aligned; lengths ≥ 1 or the axis code fails
        unfold extractTransform at ht
        simp only [Bool.false_eq_true, if_false, composeP2W] at ht
        have haff : ∀ xs ys fb t', affineFromAxis xs ys fb = .ok t' → t'.b = 0 ∧ t'.d = 0 ∧ 1 ≤ ys.length ∧ 1 ≤ xs.length := by
          intro xs ys fb t' h'
          unfold affineFromAxis at h'
          simp only [bind, Except.bind, pure, Except.pure] at h'
          split at h'
          · cases h'
          · rename_i px hpx
            split at h'
            · cases h'
            · rename_i py hpy
              simp only [Except.ok.injEq] at h'
              subst h'
              have lx : 1 ≤ xs.length := by
                cases xs with
                | nil => simp [dataResOff] at hpx
                | cons _ _ => simp
              have ly : 1 ≤ ys.length := by
                cases ys with
                | nil => simp [dataResOff] at hpy
                | cons _ _ => simp
              refine ⟨?_, ?_, ly, lx⟩ <;> simp [Aff.mul_def, Aff.mul, Aff.translation, Aff.scale]
        split at ht
        · rename_i t' h'
          simp only [Except.ok.injEq, Option.some.injEq] at ht
          subst ht
          obtain ⟨q1, q2, q3, q4⟩ := haff _ _ _ _ h'
          simp only [labelsFor, ap, List.length_map, List.length_range] at q3 q4
          exact ⟨q1, q2, q3, q4⟩
        · split at ht
          · cases ht
          · cases ht
          · split at ht
            · rename_i t' h'
              simp only [Except.ok.injEq, Option.some.injEq] at ht
              subst ht
              obtain ⟨q1, q2, q3, q4⟩ := haff _ _ _ _ h'
              simp only [labelsFor, ap, List.length_map, List.length_range] at q3 q4
              exact ⟨q1, q2, q3, q4⟩
            · cases ht
  cases r with
  | nothing => simp [Recovered.crs] at hsc
  | gcp gg =>
    -- a linear source never comes back as a GCP box
    exfalso
    have hloc := inv_locate g0 cn m.1 m.2 arr hI
    unfold recover at hr
    rw [spatialDims_of_guess _ _ hI.sd] at hr
    simp only [hI.ylk, hI.xlk, hloc] at hr
    have hgcp : (((ccOf g0).toList.head?).bind (·.gcps)) = none := by
      cases hcrs : g0.crs <;> simp [ccOf, hcrs]
    simp only [hgcp] at hr
    split at hr
    · cases hr
    · split at hr <;> cases hr
  | lin g =>
    obtain ⟨q1, q2, q3, q4⟩ := hrec_form g hr
    obtain ⟨sc', dst', e1, e2, e3, e4, e5, _⟩ := xr_reproject_crs_geobox arr g0.crs pre post g c p a extra nd out hs hr hextra
      (fun _ => ⟨q3, q4, fun _ => ⟨q1, q2⟩⟩) h
    exact ⟨g, sc', dst', hr, e1, e2, e3, e4, e5⟩

/-! ### rotated / sheared sources: no side condition left -/

theorem rabs_eq_abs (x : Rat) : rabs x = |x| := by
  unfold rabs
  split
  · rw [abs_of_neg (by assumption)]
  · rw [abs_of_nonneg (by linarith)]

/-- multiplying by a non-zero integer never brings a number closer to zero -/
theorem rabs_le_mul_int (x : Rat) (k : Int) (hk : k ≠ 0) : rabs x ≤ rabs (x * (k : Rat)) := by
  rw [rabs_eq_abs, rabs_eq_abs, abs_mul]
  have h1 : (1 : Rat) ≤ |(k : Rat)| := by
    rw [← Int.cast_abs]
    exact_mod_cast Int.one_le_abs hk
  nlinarith [abs_nonneg x]

/-- a successful slice never has step 0, so the stride of an index map never becomes 0 -/
theorem stride_step (yd xd : String) (m : AxMap × AxMap) (a a' : XArr) (op : Op) (h : applyOp a op = .ok a')
    (h1 : m.1.stride ≠ 0) (h2 : m.2.stride ≠ 0) :
    (trackOp yd xd m op).1.stride ≠ 0 ∧ (trackOp yd xd m op).2.stride ≠ 0 := by
  cases op with
  | arith => exact ⟨h1, h2⟩
  | astype => exact ⟨h1, h2⟩
  | pickle => exact ⟨h1, h2⟩
  | isel d ix =>
    cases ix with
    | int i => exact ⟨h1, h2⟩
    | slc s e st =>
      have hst : st.getD 1 ≠ 0 := by
        intro h0
        simp only [applyOp] at h
        split at h
        · cases h
        · split at h
          · cases h
          · simp at h
      simp only [trackOp]
      split
      · exact ⟨by simp only [AxMap.slice]; exact Int.mul_ne_zero h1 hst, h2⟩
      · split
        · exact ⟨h1, by simp only [AxMap.slice]; exact Int.mul_ne_zero h2 hst⟩
        · exact ⟨h1, h2⟩

theorem stride_ops (yd xd : String) (ops : List Op) :
    ∀ (m : AxMap × AxMap) (a a' : XArr), applyOps a ops = .ok a' → m.1.stride ≠ 0 → m.2.stride ≠ 0 →
      (track yd xd m ops).1.stride ≠ 0 ∧ (track yd xd m ops).2.stride ≠ 0 := by
  induction ops with
  | nil => intro m a a' _ h1 h2; exact ⟨h1, h2⟩
  | cons op rest ih =>
    intro m a a' h h1 h2
    simp only [applyOps] at h
    split at h
    · cases h
    · rename_i a1 hop
      obtain ⟨s1, s2⟩ := stride_step yd xd m a a1 op hop h1 h2
      simp only [track, List.foldl_cons]
      exact ih _ a1 a' h s1 s2

theorem dataResOff_err (d : List Rat) (f : Option Rat) (e : ErrKind) (h : dataResOff d f = .error e) : e = .valueError := by
  unfold dataResOff at h
  split at h
  · cases h; rfl
  · split at h
    · cases h; rfl
    · cases h
  · cases h

theorem affineFromAxis_empty (xs ys : List Rat) (fb : Option (Rat × Rat)) (h : xs = [] ∨ ys = []) :
    affineFromAxis xs ys fb = .error .valueError := by
  unfold affineFromAxis
  simp only [bind, Except.bind]
  cases hx : dataResOff xs (fb.map (·.1)) with
  | error e => rw [dataResOff_err _ _ _ hx]
  | ok px =>
    simp only
    cases hy : dataResOff ys (fb.map (·.2)) with
    | error e => rw [dataResOff_err _ _ _ hy]
    | ok py =>
      exfalso
      rcases h with rfl | rfl
      · simp [dataResOff] at hx
      · simp [dataResOff] at hy

/-- pixel-space labels with an empty axis: no transform -/
theorem extractTransform_empty (xs ys : List Rat) (A : Aff) (cc : Option CrsCoord) (h : xs = [] ∨ ys = []) :
    extractTransform xs ys (some A) cc false = .ok none := by
  simp [extractTransform, affineFromAxis_empty xs ys _ h, fallbackRes]

/-- the box recovered after any history from a rotated / sheared source is itself not axis-aligned: its
off-diagonal terms are those of the original times non-zero integers (strides) -/
theorem recovered_rotated_not_st (g0 : GeoBox) (my mx : AxMap) (hrot : isAffineST g0.A = false)
    (hsy : my.stride ≠ 0) (hsx : mx.stride ≠ 0) :
    isAffineST (composeP2W (xfOf g0) (labelAff g0 my mx)) = false := by
  have hx : xfOf g0 = some g0.A := by simp [xfOf, hrot]
  have hbx : baseX g0 = (1 / 2, 1) := by simp [baseX, hrot]
  have hby : baseY g0 = (1 / 2, 1) := by simp [baseY, hrot]
  -- the two resolutions read from the labels are non-zero integers
  have hrx : ∃ k : Int, k ≠ 0 ∧ resOf mx.len ((mx.stride : Rat) * 1) 1 = (k : Rat) := by
    unfold resOf
    split
    · exact ⟨mx.stride, hsx, by simp⟩
    · exact ⟨1, by decide, by simp⟩
  have hry : ∃ k : Int, k ≠ 0 ∧ resOf my.len ((my.stride : Rat) * 1) 1 = (k : Rat) := by
    unfold resOf
    split
    · exact ⟨my.stride, hsy, by simp⟩
    · exact ⟨1, by decide, by simp⟩
  obtain ⟨kx, hkx, ekx⟩ := hrx
  obtain ⟨ky, hky, eky⟩ := hry
  simp only [hx, composeP2W, labelAff, hbx, hby, ekx, eky, Aff.mul_def, Aff.mul, Aff.translation, Aff.scale]
  simp only [isAffineST, mul_zero, zero_mul, add_zero, zero_add, one_mul] at hrot ⊢
  have h1 := rabs_le_mul_int g0.A.b ky hky
  have h2 := rabs_le_mul_int g0.A.d kx hkx
  by_contra hc
  simp only [Bool.not_eq_false, Bool.and_eq_true, decide_eq_true_eq] at hc
  have : (decide (rabs g0.A.b < tolST) && decide (rabs g0.A.d < tolST)) = true := by
    simp only [Bool.and_eq_true, decide_eq_true_eq]
    exact ⟨lt_of_le_of_lt h1 hc.1, lt_of_le_of_lt h2 hc.2⟩
  rw [this] at hrot
  cases hrot

/-- **xr_reproject_crs_history_any** — `xr_reproject_crs_history` for **every** linear source: axis-aligned (any signs)
or rotated / sheared (outside the 1e-10 tolerance band of `is_affine_st`, the same condition as `survives`), any
shape, rank, CRS-coordinate name and finite history of admissible operations.  No hypothesis about the
intermediate array or the recovered source box is left: the GeoBox recovered from the output of
`xr_reproject(arr, <CRS>, **options)` is the grid `compute_output_geobox` gives for the GeoBox recovered from `arr`. -/
theorem xr_reproject_crs_history_any (g0 : GeoBox) (nt nb : Option Nat) (cn : String) (attrs : List String)
    (ops : List Op) (a0 arr : XArr) (c : Crs) (p : Proj) (a : C11.GridArgs) (extra : List (String × KwVal))
    (nd : Bool) (out : XArr) (hcn : NameOk cn) (halign : isAffineST g0.A = true → g0.A.b = 0 ∧ g0.A.d = 0)
    (hw : wrap (.lin g0) nt nb cn attrs = .ok a0) (hadm : ∀ op ∈ ops, op.admissible)
    (hops : applyOps a0 ops = .ok arr) (hextra : ∀ kv ∈ extra, kv.1 ∉ gboxKeys)
    (h : xrReprojectDa arr (.crs c p) a extra nd = .ok out) :
    ∃ g sc dst, recover arr = .ok (.lin g) ∧ g.crs = some sc ∧ outputGeoboxOf (.lin g) sc c p a = .ok dst ∧
      recover out = .ok (.lin dst) ∧ dst.crs = some c ∧ (∀ k ∈ out.attrs, k ∉ spatialAttributes) := by
  by_cases hst : isAffineST g0.A = true
  · obtain ⟨hb, hd⟩ := halign hst
    exact xr_reproject_crs_history g0 nt nb cn attrs ops a0 arr c p a extra nd out hcn hb hd hw hadm hops hextra h
  · have hrot : isAffineST g0.A = false := by simpa using hst
    obtain ⟨r, sc, dst, hr, hsc, _, _⟩ := xrReprojectDa_ok arr c p a extra nd out hextra h
    have hI0 := inv_wrap g0 nt nb cn attrs a0 hcn hw
    have hI := inv_ops g0 cn hcn ops (AxMap.ident g0.ny, AxMap.ident g0.nx) a0 arr hI0 hadm hops
    obtain ⟨pre0, post0, hs0⟩ := dimsShape_wrap g0 nt nb cn attrs a0 hw
    have key : ∀ (ops : List Op) (a0 a : XArr) (pre post : List String), DimsShape a0 g0.crs pre post →
        (∀ op ∈ ops, op.admissible) → applyOps a0 ops = .ok a → ∃ pre' post', DimsShape a g0.crs pre' post' := by
      intro ops
      induction ops with
      | nil =>
        intro a0 a pre post hs _ h
        simp only [applyOps, Except.ok.injEq] at h
        subst h
        exact ⟨pre, post, hs⟩
      | cons op rest ih =>
        intro a0 a pre post hs hadm h
        simp only [applyOps] at h
        split at h
        · cases h
        · rename_i a1 h1
          obtain ⟨p1, q1, hs1⟩ := dimsShape_step a0 a1 g0.crs pre post op hs (hadm op List.mem_cons_self) h1
          exact ih a1 a p1 q1 hs1 (fun o ho => hadm o (List.mem_cons_of_mem _ ho)) h
    obtain ⟨pre, post, hs⟩ := key ops a0 arr pre0 post0 hs0 hadm hops
    set m := track (dimsOf g0.crs).1 (dimsOf g0.crs).2 (AxMap.ident g0.ny, AxMap.ident g0.nx) ops with hm
    obtain ⟨hsy, hsx⟩ := stride_ops (dimsOf g0.crs).1 (dimsOf g0.crs).2 ops (AxMap.ident g0.ny, AxMap.ident g0.nx) a0 arr hops
      (by simp [AxMap.ident]) (by simp [AxMap.ident])
    by_cases hlen : 1 ≤ m.1.len ∧ 1 ≤ m.2.len
    · have hrec := inv_recover g0 cn m.1 m.2 arr hI hlen.1 hlen.2 (Or.inr (Or.inr hrot))
      have hnst := recovered_rotated_not_st g0 m.1 m.2 hrot hsy hsx
      obtain ⟨sc', dst', e1, e2, e3, e4, e5, _⟩ := xr_reproject_crs_geobox arr g0.crs pre post _ c p a extra nd out hs hrec hextra
        (fun _ => ⟨hlen.1, hlen.2, fun hh => by simp only at hh; rw [hnst] at hh; cases hh⟩) h
      exact ⟨_, sc', dst', hrec, e1, e2, e3, e4, e5⟩
    · -- an empty axis: nothing is recovered, so the call cannot have succeeded
      exfalso
      have hloc := inv_locate g0 cn m.1 m.2 arr hI
      have hx : xfOf g0 = some g0.A := by simp [xfOf, hrot]
      have hgcp : (((ccOf g0).toList.head?).bind (·.gcps)) = none := by
        cases hcrs : g0.crs <;> simp [ccOf, hcrs]
      have h0 : m.1.len = 0 ∨ m.2.len = 0 := by omega
      unfold recover at hr
      rw [spatialDims_of_guess _ _ hI.sd] at hr
      simp only [hI.ylk, hI.xlk, hloc, hgcp, hx, Option.isSome_none] at hr
      have hempty : labelsFor (baseX g0).1 (baseX g0).2 m.2 = [] ∨ labelsFor (baseY g0).1 (baseY g0).2 m.1 = [] := by
        rcases h0 with h0 | h0
        · right; simp [labelsFor, ap, h0]
        · left; simp [labelsFor, ap, h0]
      rw [extractTransform_empty _ _ _ _ hempty] at hr
      simp only [Except.ok.injEq] at hr
      subst hr
      simp [Recovered.crs] at hsc

/-! ### a C11 theorem carried through to the reprojected object -/

theorem outputGeoboxOf_cases (g : GeoBox) (sc c : Crs) (p : Proj) (a : C11.GridArgs) (dst : GeoBox)
    (h : outputGeoboxOf (.lin g) sc c p a = .ok dst) :
    dst = g ∨ ∃ gr res, C11.fromBbox p.bbox (a.shape.getD .none) res (a.anchor.getD .dflt) (a.tight.getD false)
        (a.tol.getD C11.tolDefault) = .ok gr ∧ 0 ≤ gr.ny ∧ 0 ≤ gr.nx ∧ dst = ⟨gr.ny.toNat, gr.nx.toNat, gr.A, some c⟩ := by
  unfold outputGeoboxOf at h
  simp only at h
  split at h
  · cases h
  · simp only [Except.ok.injEq] at h
    exact Or.inl h.symm
  · rename_i gr hco
    right
    rcases computeOutputCp_cases _ _ _ _ _ _ _ _ _ hco with ⟨ho, _⟩ | ⟨gr', res, ho, hf⟩
    · cases ho
    · cases ho
      unfold gridToGeoBox at h
      split at h
      · cases h
      · rename_i hneg
        simp only [Except.ok.injEq] at h
        exact ⟨gr, res, hf, by omega, by omega, h.symm⟩

/-- **xr_reproject_crs_covers_footprint** — C11's cover theorem at the level of the reprojected xarray object: for a
resolution-driven request (no `shape=`) with `tol ≥ 0`, the GeoBox recovered from the output of
`xr_reproject(src, <CRS>, **options)` is either the source GeoBox itself (identity path) or a grid whose extent
contains the bounding box of the projected, buffered footprint of the **recovered source GeoBox** up to `tol` of an
output pixel on every side — for every mode, anchor, `tight`, rounding and sign of the pixel size. -/
theorem xr_reproject_crs_covers_footprint (src : XArr) (sc0 : Option Crs) (pre post : List String) (g : GeoBox) (c : Crs)
    (p : Proj) (a : C11.GridArgs) (extra : List (String × KwVal)) (nd : Bool) (out : XArr)
    (hshape : DimsShape src sc0 pre post) (hrec : recover src = .ok (.lin g))
    (hextra : ∀ kv ∈ extra, kv.1 ∉ gboxKeys)
    (hg : g.crs = some c → 1 ≤ g.ny ∧ 1 ≤ g.nx ∧ (isAffineST g.A = true → g.A.b = 0 ∧ g.A.d = 0))
    (hs : a.shape = none ∨ a.shape = some .none) (ht : 0 ≤ a.tol.getD C11.tolDefault)
    (hbx : p.bbox.left ≤ p.bbox.right) (hby : p.bbox.bottom ≤ p.bbox.top)
    (h : xrReprojectDa src (.crs c p) a extra nd = .ok out) :
    ∃ dst, recover out = .ok (.lin dst) ∧
      (dst = g ∨
        (C11.gridLo dst.A.c dst.A.a dst.nx ≤ p.bbox.left + a.tol.getD C11.tolDefault * C11.rabs dst.A.a ∧
         p.bbox.right - a.tol.getD C11.tolDefault * C11.rabs dst.A.a ≤ C11.gridHi dst.A.c dst.A.a dst.nx ∧
         C11.gridLo dst.A.f dst.A.e dst.ny ≤ p.bbox.bottom + a.tol.getD C11.tolDefault * C11.rabs dst.A.e ∧
         p.bbox.top - a.tol.getD C11.tolDefault * C11.rabs dst.A.e ≤ C11.gridHi dst.A.f dst.A.e dst.ny)) := by
  obtain ⟨sc, dst, _, hd, hr, _⟩ := xr_reproject_crs_geobox src sc0 pre post g c p a extra nd out hshape hrec hextra hg h
  refine ⟨dst, hr, ?_⟩
  rcases outputGeoboxOf_cases g sc c p a dst hd with hdg | ⟨gr, res, hf, hny, hnx, hdst⟩
  · exact Or.inl hdg
  · right
    have hshape' : a.shape.getD .none = .none := by rcases hs with h' | h' <;> simp [h']
    rw [hshape'] at hf
    cases res with
    | none => simp [C11.fromBbox] at hf
    | some r =>
      obtain ⟨rx, ry⟩ := r
      rw [C11.fromBbox_none_some] at hf
      obtain ⟨offx, nx, offy, ny, hx, hy, hgr⟩ := C11.fromBboxRes_ok _ _ _ _ _ _ hf
      subst hgr
      obtain ⟨x1, x2, _, _⟩ := C11.snapGrid_spec _ _ _ _ _ _ _ ht hbx hx
      obtain ⟨y1, y2, _, _⟩ := C11.snapGrid_spec _ _ _ _ _ _ _ ht hby hy
      subst hdst
      simp only at hny hnx
      simp only [Int.toNat_of_nonneg hny, Int.toNat_of_nonneg hnx, Aff.mul_def, Aff.mul, Aff.translation, Aff.scale,
        one_mul, zero_mul, mul_zero, add_zero, zero_add]
      exact ⟨x1, x2, y1, y2⟩

/-! ### the Dataset variant -/

/-- **xr_reproject_ds_crs** — `xr_reproject(ds: Dataset, <CRS>, **options)`: the destination is computed once, from the
GeoBox `g` recovered from the Dataset as a whole, with the caller's options; the Dataset attrs carry no
`SPATIAL_ATTRIBUTES` key; every output variable comes from the source variable of that name: a variable without
geobox passes through (dims and attrs untouched), every other one (dims `(time?) y x (band?)`) gives back **exactly
that destination** through `.odc.geobox`, has no `SPATIAL_ATTRIBUTES` key and `grid_mapping = spatial_ref`. -/
theorem xr_reproject_ds_crs (attrs : List String) (gm : Option String) (vars : List (String × XArr)) (g : GeoBox)
    (c : Crs) (p : Proj) (a : C11.GridArgs) (extra : List (String × KwVal)) (attrs' : List String)
    (out : List (String × XArr)) (hrec : recover (dsSrcView attrs gm vars) = .ok (.lin g))
    (hextra : ∀ kv ∈ extra, kv.1 ∉ gboxKeys)
    (hg : g.crs = some c → 1 ≤ g.ny ∧ 1 ≤ g.nx ∧ (isAffineST g.A = true → g.A.b = 0 ∧ g.A.d = 0))
    (h : xrReprojectDs attrs gm vars (.crs c p) a extra = .ok (attrs', out)) :
    ∃ sc dst, g.crs = some sc ∧ outputGeoboxOf (.lin g) sc c p a = .ok dst ∧ dst.crs = some c ∧
      (∀ k ∈ attrs', k ∉ spatialAttributes) ∧
      ∀ nm o, (nm, o) ∈ out → ∃ v, (nm, v) ∈ vars ∧
        ((recover v = .ok .nothing ∧ o.dims = v.dims ∧ o.attrs = v.attrs) ∨
         ((∀ k ∈ o.attrs, k ∉ spatialAttributes) ∧ o.gridMapping = some "spatial_ref" ∧
           (∀ sc0 pre post, DimsShape v sc0 pre post → recover o = .ok (.lin dst)))) := by
  obtain ⟨hb, hrest⟩ := grid_options_travel_unchanged a extra hextra
  unfold xrReprojectDs at h
  simp only [hrec] at h
  cases hcrs : g.crs with
  | none => simp [Recovered.crs, hcrs] at h
  | some sc =>
    simp only [Recovered.crs, hcrs, dstGeobox, hb, outputGeoboxOf_effective] at h
    split at h
    · cases h
    · rename_i dst hd
      -- the destination is a well-formed GeoBox in CRS `c`
      have hwf : dst.crs = some c ∧ 1 ≤ dst.ny ∧ 1 ≤ dst.nx ∧ (isAffineST dst.A = true → dst.A.b = 0 ∧ dst.A.d = 0) := by
        rcases output_geobox_wellformed g sc c p a dst hd with ⟨hdg, hcs, _, _⟩ | ⟨hc, hny, hnx, hb', hdd⟩
        · subst hdg; subst hcs
          obtain ⟨h1, h2, h3⟩ := hg hcrs
          exact ⟨hcrs, h1, h2, h3⟩
        · exact ⟨hc, hny, hnx, fun _ => ⟨hb', hdd⟩⟩
      obtain ⟨hc, hny, hnx, halign⟩ := hwf
      unfold assembleDsC at h
      simp only [bind, Except.bind, pure, Except.pure] at h
      split at h
      · cases h
      · rename_i outs hm
        simp only [Except.ok.injEq, Prod.mk.injEq] at h
        obtain ⟨ha, ho⟩ := h
        subst ha; subst ho
        refine ⟨sc, dst, rfl, hd, hc, ?_, ?_⟩
        · intro k hk
          simpa using (List.mem_filter.mp hk).2
        · intro nm o hmem
          obtain ⟨⟨nm', v⟩, hx, hfx⟩ := mapM_ok_mem _ _ _ hm (nm, o) hmem
          unfold reprojectVarC at hfx
          simp only at hfx
          split at hfx
          · cases hfx
          · rename_i hrv
            unfold reprojectVar at hfx
            simp only [hrv, Except.ok.injEq, Prod.mk.injEq] at hfx
            obtain ⟨h1, h2⟩ := hfx
            subst h1
            refine ⟨v, hx, Or.inl ⟨hrv, ?_, ?_⟩⟩ <;> rw [← h2]
          · rename_i r hnot hrv
            split at hfx
            · cases hfx
            · cases has : assemble v dst (hasSrcNodata (extractOutputGeoboxParams (xrReprojectKw a extra)).2) with
              | error e => simp [has, Except.map] at hfx
              | ok o' =>
                simp only [has, Except.map, Except.ok.injEq, Prod.mk.injEq] at hfx
                obtain ⟨h1, h2⟩ := hfx
                subst h1; subst h2
                obtain ⟨hp1, hp2⟩ := reproject_prunes v dst _ o' has
                refine ⟨v, hx, Or.inr ⟨hp1, hp2, ?_⟩⟩
                intro sc0 pre post hs
                exact reproject_geobox v sc0 pre post dst c _ o' hs hc hny hnx halign has

/-! ### the Dataset seen as one object: discharging the Dataset-level recovery hypothesis -/

/-- the merge step of `dsView` -/
def mergeStep (acc : List (String × Coord)) (kc : String × Coord) : List (String × Coord) :=
  if (acc.map (·.1)).contains kc.1 then acc else acc ++ [kc]

theorem dsView_coords_eq (attrs : List String) (vars : List (String × XArr)) :
    (dsView attrs vars).coords = (vars.flatMap (·.2.coords)).foldl mergeStep [] := rfl

/-- coordinates whose names are already present are skipped -/
theorem merge_known (l acc : List (String × Coord)) (h : ∀ kc ∈ l, kc.1 ∈ acc.map (·.1)) :
    l.foldl mergeStep acc = acc := by
  induction l generalizing acc with
  | nil => rfl
  | cons x xs ih =>
    have hx : x.1 ∈ acc.map (·.1) := h x List.mem_cons_self
    have : mergeStep acc x = acc := by
      unfold mergeStep
      simp only [List.contains_iff_mem, hx, if_true]
    rw [List.foldl_cons, this]
    exact ih acc (fun kc hkc => h kc (List.mem_cons_of_mem _ hkc))

/-- coordinates with fresh, pairwise different names are appended in order -/
theorem merge_fresh (l acc : List (String × Coord)) (h : (acc.map (·.1) ++ l.map (·.1)).Nodup) :
    l.foldl mergeStep acc = acc ++ l := by
  induction l generalizing acc with
  | nil => simp
  | cons x xs ih =>
    have hx : x.1 ∉ acc.map (·.1) := by
      intro hm
      have := List.nodup_append.mp h
      exact this.2.2 _ hm _ (by simp) rfl
    have hstep : mergeStep acc x = acc ++ [x] := by
      unfold mergeStep
      simp only [List.contains_iff_mem, hx, if_false]
    rw [List.foldl_cons, hstep, ih (acc ++ [x]) (by simpa [List.append_assoc] using h)]
    simp

/-- a Dataset whose variables all carry the coordinates of one array has exactly those coordinates -/
theorem dsView_coords_shared (attrs : List String) (a : XArr) (vars : List (String × XArr)) (hne : vars ≠ [])
    (hall : ∀ v ∈ vars, v.2.dims = a.dims ∧ v.2.coords = a.coords) (hnd : (a.coords.map (·.1)).Nodup) :
    (dsView attrs vars).coords = a.coords := by
  rw [dsView_coords_eq]
  cases vars with
  | nil => exact absurd rfl hne
  | cons v vs =>
    have hv := (hall v List.mem_cons_self).2
    simp only [List.flatMap_cons, List.foldl_append, hv]
    rw [merge_fresh a.coords [] (by simpa using hnd)]
    simp only [List.nil_append]
    apply merge_known
    intro kc hkc
    simp only [List.mem_flatMap] at hkc
    obtain ⟨w, hw, hkw⟩ := hkc
    rw [(hall w (List.mem_cons_of_mem _ hw)).2] at hkw
    exact List.mem_map_of_mem hkw

theorem guessDims_congr (l l' : List String) (h : ∀ x, x ∈ l ↔ x ∈ l') : guessDims l = guessDims l' := by
  have hc : ∀ x, l.contains x = l'.contains x := by
    intro x
    by_cases hx : x ∈ l
    · simp [hx, (h x).mp hx]
    · have : x ∉ l' := fun h' => hx ((h x).mpr h')
      simp [hx, this]
  simp only [guessDims, hc]

/-- **ds_view_recover** — the geobox of a Dataset as a whole (`ds.odc.geobox`, from which `xr_reproject(ds, <CRS>)`
computes the destination) is the geobox of its variables: when every data variable carries the dims and
coordinates of one array `a` (as in `Dataset({"a": arr, "b": arr * 2})`; `a` has named spatial dims and distinct
coordinate names), `_locate_geo_info(ds)` recovers exactly what it recovers from `a` under the Dataset's own
`grid_mapping` (encoding / attrs, if any). -/
theorem ds_view_recover (attrs : List String) (gm : Option String) (a : XArr) (vars : List (String × XArr))
    (p : String × String) (hne : vars ≠ []) (hall : ∀ v ∈ vars, v.2.dims = a.dims ∧ v.2.coords = a.coords)
    (hnd : (a.coords.map (·.1)).Nodup) (hg : guessDims a.dims = some p) :
    recover (dsSrcView attrs gm vars) = recover { a with gridMapping := gm } := by
  have hc : (dsSrcView attrs gm vars).coords = a.coords := dsView_coords_shared attrs a vars hne hall hnd
  have hmem : ∀ x, x ∈ (dsSrcView attrs gm vars).dims ↔ x ∈ a.dims := by
    intro x
    show x ∈ (vars.flatMap (·.2.dims)).eraseDups ↔ x ∈ a.dims
    rw [List.mem_eraseDups, List.mem_flatMap]
    constructor
    · rintro ⟨v, hv, hx⟩
      rw [(hall v hv).1] at hx
      exact hx
    · intro hx
      cases vars with
      | nil => exact absurd rfl hne
      | cons v vs => exact ⟨v, List.mem_cons_self, by rw [(hall v List.mem_cons_self).1]; exact hx⟩
  have hgd : guessDims (dsSrcView attrs gm vars).dims = some p := by
    rw [guessDims_congr _ _ hmem]; exact hg
  have hgm : (dsSrcView attrs gm vars).gridMapping = gm := rfl
  unfold recover locateCrsCoords
  rw [spatialDims_of_guess _ _ hgd, spatialDims_of_guess _ _ hg, hc, hgm]

/-- **xr_reproject_ds_crs_shared** — `xr_reproject_ds_crs` without the Dataset-level hypothesis: for a Dataset whose
variables share the dims and coordinates of an array `a`, the destination is computed from the GeoBox recovered
from `a` itself. -/
theorem xr_reproject_ds_crs_shared (attrs : List String) (gm : Option String) (a0 : XArr) (vars : List (String × XArr))
    (pd : String × String) (g : GeoBox) (c : Crs) (p : Proj) (a : C11.GridArgs) (extra : List (String × KwVal))
    (attrs' : List String) (out : List (String × XArr)) (hne : vars ≠ [])
    (hall : ∀ v ∈ vars, v.2.dims = a0.dims ∧ v.2.coords = a0.coords) (hnd : (a0.coords.map (·.1)).Nodup)
    (hgd : guessDims a0.dims = some pd) (hrec : recover { a0 with gridMapping := gm } = .ok (.lin g))
    (hextra : ∀ kv ∈ extra, kv.1 ∉ gboxKeys)
    (hg : g.crs = some c → 1 ≤ g.ny ∧ 1 ≤ g.nx ∧ (isAffineST g.A = true → g.A.b = 0 ∧ g.A.d = 0))
    (h : xrReprojectDs attrs gm vars (.crs c p) a extra = .ok (attrs', out)) :
    ∃ sc dst, g.crs = some sc ∧ outputGeoboxOf (.lin g) sc c p a = .ok dst ∧ dst.crs = some c ∧
      (∀ k ∈ attrs', k ∉ spatialAttributes) ∧
      ∀ nm o, (nm, o) ∈ out → ∃ v, (nm, v) ∈ vars ∧
        ((recover v = .ok .nothing ∧ o.dims = v.dims ∧ o.attrs = v.attrs) ∨
         ((∀ k ∈ o.attrs, k ∉ spatialAttributes) ∧ o.gridMapping = some "spatial_ref" ∧
           (∀ sc0 pre post, DimsShape v sc0 pre post → recover o = .ok (.lin dst)))) :=
  xr_reproject_ds_crs attrs gm vars g c p a extra attrs' out
    (by rw [ds_view_recover attrs gm a0 vars pd hne hall hnd hgd]; exact hrec) hextra hg h

/-- non-vacuity of `ds_view_recover` / `xr_reproject_ds_crs_shared`: `Dataset({"a": arr, "b": arr * 2})` of a rotated,
sliced array — the Dataset-level geobox is the array's, on both location paths of the CRS coordinate -/
example :
    let arr := (wrap (.lin ⟨4, 6, ⟨3, 4, 100, 4, -3, 200⟩, some ⟨3857, false⟩⟩) (some 2) none "foo" ["keep"]).bind
      (fun a => applyOps a [.isel "y" (.slc (some 1) none none)])
    arr.bind (fun a => recover (dsSrcView ["title"] none [("a", a), ("b", { a with gridMapping := none })])) = arr.bind recover ∧
    arr.bind (fun a => recover (dsSrcView [] (some "foo") [("a", a), ("b", { a with gridMapping := none })])) = arr.bind recover ∧
    arr.bind (fun a => .ok (decide ((a.coords.map (·.1)).Nodup) && (guessDims a.dims).isSome)) = .ok true := by
  decide +kernel

/-! ### the nodata range check -/

/-- **nodata_range_check** — `xr_reproject` with the range check of `_check_nodata_range`: the call succeeds exactly when
the unchecked pipeline succeeds **and** both the effective `src_nodata` (keyword, else the `nodata` / `_FillValue`
attribute) and the effective `dst_nodata` (argument, else `src_nodata`) lie in the value range of the pixel type;
then the result is the same object, so every theorem about `xrReprojectDa` applies; otherwise `ValueError`, for
numpy- and dask-backed sources alike (the check sits before the dispatch). -/
theorem nodata_range_check (src : XArr) (how : How) (a : C11.GridArgs) (extra : List (String × KwVal)) (n : NodataVals)
    (out : XArr) :
    (xrReprojectDaChecked src how a extra n = .ok out ↔
      (xrReprojectDa src how a extra n.dstKw.isSome = .ok out ∧ nodataOk n = true)) ∧
    (nodataOk n = false → ∀ o, xrReprojectDa src how a extra n.dstKw.isSome = .ok o →
      xrReprojectDaChecked src how a extra n = .error .valueError) := by
  constructor
  · unfold xrReprojectDaChecked
    cases h : xrReprojectDa src how a extra n.dstKw.isSome with
    | error e => simp
    | ok o =>
      by_cases hn : nodataOk n = true
      · simp [hn]
      · simp [hn]
  · intro hn o ho
    simp [xrReprojectDaChecked, ho, hn]

/-- the defaults of the two values: a `dst_nodata` argument wins, else `src_nodata=`, else the attribute -/
theorem nodata_defaults (s d t : Rat) (r : Option (Rat × Rat)) :
    (NodataVals.mk (some s) (some d) (some t) r).dst = some d ∧ (NodataVals.mk (some s) none (some t) r).dst = some s ∧
    (NodataVals.mk none none (some t) r).dst = some t ∧ (NodataVals.mk none none none r).dst = none ∧
    (NodataVals.mk none (some d) (some t) r).src = some t := ⟨rfl, rfl, rfl, rfl, rfl⟩

/-- an out-of-range value that only enters through the attribute is refused as well (uint8, `nodata=-9999`) -/
example : nodataOk ⟨none, none, some (-9999), some (0, 255)⟩ = false ∧ nodataOk ⟨none, some 7, some 0, some (0, 255)⟩ = true ∧
    nodataOk ⟨some 300, some 7, none, some (0, 255)⟩ = false ∧ nodataOk ⟨some 300, none, none, none⟩ = true := by
  decide +kernel

/-- non-vacuity of `xr_reproject_crs_history_any` on a rotated source: a strided, reversed slice of a 3-4-5 rotated box,
own CRS with default options (identity path: the recovered rotated box itself is the destination and comes back) and
with `tight=True` + centre anchor (grid recomputed) -/
example :
    let src := (wrap (.lin ⟨4, 6, ⟨3, 4, 100, 4, -3, 200⟩, some ⟨3857, false⟩⟩) none (some 2) "foo" []).bind
      (fun a => applyOps a [.isel "x" (.slc none none (some (-2))), .pickle])
    let p : Proj := ⟨true, (10, -10), ⟨90, 180, 140, 230⟩, ⟨0, 0, 1, 1⟩, (1, 1)⟩
    src.bind (fun a => (xrReprojectDa a (.crs ⟨3857, false⟩ p) {} [] false).bind recover)
      = src.bind recover ∧
    src.bind (fun a => (xrReprojectDa a (.crs ⟨3857, false⟩ p) { tight := some true, anchor := some .center } [] false).bind recover)
      = .ok (.lin ⟨5, 5, ⟨10, 0, 90, 0, -10, 230⟩, some ⟨3857, false⟩⟩) := by
  decide +kernel

/-- the source of the examples below: a mirrored, strided slice of a geographic `(time, latitude, longitude)` array
with a custom CRS-coordinate name, after arithmetic -/
def exampleSrc : Res XArr :=
  (wrap (.lin ⟨4, 5, ⟨1 / 4, 0, 14, 0, -1 / 4, 50⟩, some ⟨4326, true⟩⟩) (some 2) none "crs" ["crs", "keep"]).bind
    (fun a => applyOps a [.isel "longitude" (.slc none none (some (-2))), .arith])

/-- non-vacuity of `xr_reproject_crs_geobox` / `_history`: another CRS, `fit` through the centre-pixel box, centre
anchor, `tol=0`, a `src_nodata` keyword: the call succeeds and the recovered GeoBox is the computed grid. -/
example :
    exampleSrc.bind (fun a => (xrReprojectDa a (.crs ⟨3857, false⟩ ⟨false, (1, -1), ⟨1000, 2000, 1900, 2700⟩, ⟨0, 0, 32, 16⟩, (2, 1)⟩)
        { tol := some 0, anchor := some .center } [("src_nodata", .num 0)] false).bind recover)
      = .ok (.lin ⟨45, 57, ⟨16, 0, 1000, 0, -16, 2712⟩, some ⟨3857, false⟩⟩) := by
  decide +kernel

/-- the identity corner and its neighbour: the source's own CRS with `tight=True` alone gives back the source grid
(the fast path does not look at `tight`); with an explicit anchor as well the grid is recomputed around the
buffered footprint — the two requests must not be confused by any argument "normalisation" on the way. -/
example :
    exampleSrc.bind (fun a => (xrReprojectDa a (.crs ⟨4326, true⟩ ⟨true, (1, -1), ⟨13, 48, 16, 51⟩, ⟨0, 0, 1, 1⟩, (1, 1)⟩)
        { tight := some true } [] false).bind recover)
      = .ok (.lin ⟨4, 3, ⟨-1 / 2, 0, 123 / 8, 0, -1 / 4, 50⟩, some ⟨4326, true⟩⟩) ∧
    exampleSrc.bind (fun a => (xrReprojectDa a (.crs ⟨4326, true⟩ ⟨true, (1, -1), ⟨13, 48, 16, 51⟩, ⟨0, 0, 1, 1⟩, (1, 1)⟩)
        { tight := some true, anchor := some .center } [] false).bind recover)
      = .ok (.lin ⟨12, 6, ⟨-1 / 2, 0, 16, 0, -1 / 4, 51⟩, some ⟨4326, true⟩⟩) := by
  constructor <;> decide +kernel

end OdcGeo.C09
