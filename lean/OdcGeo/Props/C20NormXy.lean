/-
C20 — the executable `norm_xy` model of `Model/C20NormXy.lean` in exact arithmetic is the field-generic model of
`Lemmas/C20e.lean`, so `norm_xy_affine_maps`, `norm_xy_mean_zero`, `norm_xy_mean_dist_sqrt2`, `norm_xy_degenerate` of
`Props/C20.lean` are statements about the function the driver runs against the real code.
-/
import OdcGeo.Model.C20NormXy
import OdcGeo.Props.C20

namespace OdcGeo.C20

theorem foldl_add_eq (xs : List Rat) (a : Rat) : xs.foldl (fun acc x => id (acc + x)) a = a + xs.sum := by
  induction xs generalizing a with
  | nil => simp
  | cons x xs ih =>
    rw [List.foldl_cons, List.sum_cons]
    show List.foldl (fun acc x => id (acc + x)) (a + x) xs = a + (x + xs.sum)
    rw [ih]; ring

theorem meanF_id (xs : List Rat) : meanF id xs = meanK xs := by
  unfold meanF seqSum meanK
  rw [foldl_add_eq]; simp

/-- **In exact arithmetic the executable `norm_xy` is the field-generic `normXYK`** (over `Rat`). -/
theorem norm_xy_exec_is_generic (pts : List (Rat × Rat)) (ds : List Rat) (r : Rat) :
    (normXyF id pts ds r).pts = (normXYK pts ds r).pts ∧ (normXyF id pts ds r).s = (normXYK pts ds r).s ∧
    (normXyF id pts ds r).tx = (normXYK pts ds r).tx ∧ (normXyF id pts ds r).ty = (normXYK pts ds r).ty := by
  simp [normXyF, normXYK, meanF_id, id]

/-- Consequently the returned affine maps every input point to its normalised point, exactly. -/
theorem norm_xy_exec_affine_maps (pts : List (Rat × Rat)) (ds : List Rat) (r : Rat) :
    let N := normXyF id pts ds r
    N.pts = pts.map fun p => (N.s * p.1 + N.tx, N.s * p.2 + N.ty) := by
  simp only [normXyF, id]
  apply List.map_congr_left
  intro p _
  simp only [Prod.mk.injEq]
  constructor <;> ring

end OdcGeo.C20
