/-
C20 — the executable `norm_xy` model of `Model/C20NormXy.lean` in exact arithmetic is the field-generic model of
`Lemmas/C20e.lean`, so `norm_xy_affine_maps`, `norm_xy_mean_zero`, `norm_xy_mean_dist_sqrt2`, `norm_xy_degenerate` of
`Props/C20.lean` are statements about the function the driver runs against the real code.
-/
import OdcGeo.Model.C20NormXy
import OdcGeo.Props.C20

namespace OdcGeo.C20

theorem foldl_add_eq (xs : List Rat) (a : Rat) : xs.foldl (fun acc x => id (acc + x)) a = a + xs.sum := by
  induction xs generalizing a with
  | nil => simp
  | cons x xs ih =>
    rw [List.foldl_cons, List.sum_cons]
    show List.foldl (fun acc x => id (acc + x)) (a + x) xs = a + (x + xs.sum)
    rw [ih]; ring

theorem meanF_id (xs : List Rat) : meanF id xs = meanK xs := by
  unfold meanF seqSum meanK
  rw [foldl_add_eq]; simp

/-- **In exact arithmetic the executable `norm_xy` is the field-generic `normXYK`** (over `Rat`). -/
theorem norm_xy_exec_is_generic (pts : List (Rat × Rat)) (ds : List Rat) (r : Rat) :
    (normXyF id pts ds r).pts = (normXYK pts ds r).pts ∧ (normXyF id pts ds r).s = (normXYK pts ds r).s ∧
    (normXyF id pts ds r).tx = (normXYK pts ds r).tx ∧ (normXyF id pts ds r).ty = (normXYK pts ds r).ty := by
  simp [normXyF, normXYK, meanF_id, id]

/-- Consequently the returned affine maps every input point to its normalised point, exactly. -/
theorem norm_xy_exec_affine_maps (pts : List (Rat × Rat)) (ds : List Rat) (r : Rat) :
    let N := normXyF id pts ds r
    N.pts = pts.map fun p => (N.s * p.1 + N.tx, N.s * p.2 + N.ty) := by
  simp only [normXyF, id]
  apply List.map_congr_left
  intro p _
  simp only [Prod.mk.injEq]
  constructor <;> ring

/-! ## pairwise summation (8 ≤ n ≤ 128 points) -/

theorem sum_zipWith_add : ∀ (r c : List Rat), r.length = c.length →
    (List.zipWith (fun a b => id (a + b)) r c).sum = r.sum + c.sum
  | [], [], _ => by simp
  | a :: r, b :: c, h => by
    have h' : r.length = c.length := by simpa using h
    have ih := sum_zipWith_add r c h'
    simp only [id] at ih
    simp only [List.zipWith_cons_cons, List.sum_cons, id, ih]
    ring
  | [], _ :: _, h => by simp at h
  | _ :: _, [], h => by simp at h

theorem accsK_sum (k : Nat) : ∀ (r rest : List Rat), r.length = 8 → 8 * k ≤ rest.length →
    (accsK id k r rest).1.sum + (accsK id k r rest).2.sum = r.sum + rest.sum ∧ (accsK id k r rest).1.length = 8 := by
  induction k with
  | zero => intro r rest hr _; exact ⟨rfl, hr⟩
  | succ k ih =>
    intro r rest hr hlen
    have htake : (rest.take 8).length = 8 := by rw [List.length_take]; omega
    have hz : (List.zipWith (fun a b => id (a + b)) r (rest.take 8)).length = 8 := by
      rw [List.length_zipWith, hr, htake]; rfl
    have hdrop : 8 * k ≤ (rest.drop 8).length := by rw [List.length_drop]; omega
    obtain ⟨h1, h2⟩ := ih _ (rest.drop 8) hz hdrop
    refine ⟨?_, h2⟩
    show (accsK id k _ (rest.drop 8)).1.sum + (accsK id k _ (rest.drop 8)).2.sum = _
    rw [h1, sum_zipWith_add r (rest.take 8) (by rw [hr, htake])]
    have := List.sum_take_add_sum_drop rest 8
    linarith

theorem sum_eight (r : List Rat) (h : r.length = 8) :
    r.sum = ((r.getD 0 0 + r.getD 1 0) + (r.getD 2 0 + r.getD 3 0)) + ((r.getD 4 0 + r.getD 5 0) + (r.getD 6 0 + r.getD 7 0)) := by
  match r, h with
  | [a, b, c, d, e, f, g, i], _ => simp; ring

/-- **In exact arithmetic numpy's pairwise scheme is the plain sum** (any length). -/
theorem pairSum_id (xs : List Rat) : pairSum id xs = xs.sum := by
  unfold pairSum
  split
  · unfold seqSum; rw [foldl_add_eq]; simp
  · rename_i hlen
    have hl : 8 ≤ xs.length := by omega
    have htake : (xs.take 8).length = 8 := by rw [List.length_take]; omega
    have hdrop : 8 * (xs.length / 8 - 1) ≤ (xs.drop 8).length := by rw [List.length_drop]; omega
    obtain ⟨h1, h2⟩ := accsK_sum (xs.length / 8 - 1) (xs.take 8) (xs.drop 8) htake hdrop
    simp only [id]
    have hf : ∀ (l : List Rat) (a : Rat), l.foldl (fun acc x => acc + x) a = a + l.sum := by
      intro l a; have := foldl_add_eq l a; simpa [id] using this
    rw [hf, ← sum_eight _ h2, h1, List.sum_take_add_sum_drop]

/-- Hence the many-point model in exact arithmetic is the field-generic `normXYK` too. -/
theorem norm_xy_pairwise_is_generic (pts : List (Rat × Rat)) (ds : List Rat) (r : Rat) :
    normXyP id pts ds r = normXyF id pts ds r := by
  unfold normXyP normXyF meanP meanF
  rw [pairSum_id]
  have : seqSum id ds = ds.sum := by unfold seqSum; rw [foldl_add_eq]; simp
  rw [this]

example : pairSum id [1, 2, 3, 4, 5, 6, 7, 8, 9, 10, 11] = 66 := by decide +kernel

end OdcGeo.C20
