/-
C13 — extra axes: the N-d chunked result is, plane by plane, the 2-d chunked result; hence equal to
the in-memory result for ANY position of the spatial axes (`ydim`), any number of non-spatial axes,
and any chunk table along them (non-uniform, 1-long chunks, …).
-/
import OdcGeo.Model.C13Nd
import OdcGeo.Props.C13

namespace OdcGeo.C13

variable {E EB EL : Type}

theorem mapOpt_srcBlockNd (ax : ExtraAxes E EB EL) (src : E → Img) (sy sx : List Span) (eb : EB)
    (l : EL) (e : E) (hg : ax.glob eb l = some e) : ∀ (sel : List TIdx),
    (mapOpt (srcBlockNd ax src sy sx eb) sel).map (fun bs => bs.map (· l)) =
      mapOpt (srcBlock (src e) sy sx) sel
  | [] => rfl
  | idx :: r => by
    have ih := mapOpt_srcBlockNd ax src sy sx eb l e hg r
    simp only [mapOpt]
    cases hy : sy[idx.1]? with
    | none => simp [srcBlockNd, srcBlock, hy]
    | some ys =>
      cases hx : sx[idx.2]? with
      | none => simp [srcBlockNd, srcBlock, hy, hx]
      | some xs =>
        simp only [srcBlockNd, srcBlock, hy, hx, Option.bind_eq_bind, Option.bind_some, Option.pure_def]
        cases h1 : mapOpt (srcBlockNd ax src sy sx eb) r with
        | none =>
          rw [h1] at ih
          simp only [Option.map_none] at ih
          simp [← ih]
        | some bs =>
          rw [h1] at ih
          simp only [Option.map_some] at ih
          simp [← ih, hg]

/-- **Plane by plane.**  For any lawful chunking of the non-spatial index space: element `(e, d)`
of the N-d dask result is pixel `d` of the 2-d dask result of plane `e` of the source. -/
theorem nd_eq_plane (ax : ExtraAxes E EB EL) (hax : ax.Lawful) (c : Cfg) (G : Gdal) (src : E → Img)
    (e : E) (d : Int × Int) (eb : EB) (l : EL) (hloc : ax.locate e = some (eb, l)) :
    daskResultNd ax c G src e d = daskResult c G (src e) d := by
  have hg := hax e eb l hloc
  unfold daskResultNd daskResult
  simp only [hloc, Option.bind_eq_bind, Option.bind_some]
  cases locate c.dy d.1 with
  | none => rfl
  | some iy =>
    cases locate c.dx d.2 with
    | none => rfl
    | some ix =>
      simp only [Option.bind_some]
      cases c.dy[iy]? with
      | none => rfl
      | some ty =>
        cases c.dx[ix]? with
        | none => rfl
        | some tx =>
          simp only [Option.bind_some, dstBlockNd, dstBlock, Option.bind_eq_bind]
          have hm := mapOpt_srcBlockNd ax src c.sy c.sx eb l e hg (lookupDeps c.deps (iy, ix))
          cases h1 : mapOpt (srcBlockNd ax src c.sy c.sx eb) (lookupDeps c.deps (iy, ix)) with
          | none =>
            rw [h1] at hm
            simp only [Option.map_none] at hm
            simp [← hm]
          | some bs =>
            rw [h1] at hm
            simp only [Option.map_some] at hm
            simp only [← hm, Option.bind_some, dstTaskNd, dstTask]
            by_cases he : (lookupDeps c.deps (iy, ix)).isEmpty
            · simp only [he, if_true]
              cases constBlock c (iy, ix) with
              | none => rfl
              | some b => simp [hg]
            · simp [he, hg]

/-- **Chunked equals whole for N-d arrays**: any lawful chunking of the non-spatial axes, every
non-spatial index `e` that lies in the array, every pixel: the dask result equals what
`rio_reproject` writes plane by plane.  Hypotheses on the 2-d part as in `chunked_eq_whole_nn`. -/
theorem chunked_eq_whole_nd (ax : ExtraAxes E EB EL) (hax : ax.Lawful) (c : Cfg) (G : Gdal)
    (src buf : E → Img) (e : E) (eb : EB) (l : EL) (hloc : ax.locate e = some (eb, l))
    (hV : c.variant = Variant.repaired)
    (hbuf : WF (buf e) c.dstH c.dstW)
    (hsy : Chain 0 c.sy c.srcH) (hsx : Chain 0 c.sx c.srcW)
    (hdy : Chain 0 c.dy c.dstH) (hdx : Chain 0 c.dx c.dstW)
    (hS : c.S.det ≠ 0)
    (hvalid : DepsValid c) (hcomplete : deps_complete c)
    (hnd : c.dstNd = none → c.srcNd = none)
    (hnd1 : NodataOk c.kind c.dstNd) (hnd2 : NodataOk c.kind c.srcNd)
    (d : Int × Int) (hd : 0 ≤ d.1 ∧ d.1 < c.dstH ∧ 0 ≤ d.2 ∧ d.2 < c.dstW) :
    daskResultNd ax c G src e d = wholeResultNd c G src buf e d := by
  rw [nd_eq_plane ax hax c G src e d eb l hloc]
  exact chunked_eq_whole_nn c G (src e) (buf e) hV hbuf hsy hsx hdy hdx hS hvalid hcomplete hnd hnd1 hnd2 d hd

/-! ## the chunk tables of the code are lawful, for any number of axes -/

theorem listAxes_lawful : ∀ (tables : List (List Span)), (listAxes tables).Lawful
  | [], e, b, l, h => by
    cases e with
    | nil => simp [listAxes, locAxes] at h; obtain ⟨rfl, rfl⟩ := h; simp [listAxes, globAxes]
    | cons v vs => simp [listAxes, locAxes] at h
  | t :: ts, e, b, l, h => by
    cases e with
    | nil => simp [listAxes, locAxes] at h
    | cons v vs =>
      simp only [listAxes, locAxes, Option.bind_eq_bind, Option.pure_def] at h
      cases hi : locate t v with
      | none => simp [hi] at h
      | some i =>
        obtain ⟨s, hs, s1, s2⟩ := locate_spec hi
        cases hr : locAxes ts vs with
        | none => simp [hi, hr] at h
        | some r =>
          simp only [hi, hs, hr, Option.bind_some, Option.some.injEq, Prod.mk.injEq] at h
          obtain ⟨rfl, rfl⟩ := h
          have ih := listAxes_lawful ts vs r.1 r.2 (by simp [listAxes, hr])
          simp only [listAxes] at ih
          simp only [listAxes, globAxes, hs, Option.bind_eq_bind, Option.bind_some, Option.pure_def]
          rw [if_pos (by omega), ih]
          simp

/-! ## any position of the spatial axes -/

theorem splitYX_withYX (ydim : Nat) (e : List Int) (y x : Int) (h : ydim ≤ e.length) :
    splitYX ydim (withYX ydim e y x) = some (e, y, x) := by
  have hl : (e.take ydim).length = ydim := by simp [h]
  have g1 : (withYX ydim e y x)[ydim]? = some y := by
    simp only [withYX, List.append_assoc]
    rw [List.getElem?_append_right (by omega)]
    simp [hl]
  have g2 : (withYX ydim e y x)[ydim + 1]? = some x := by
    simp only [withYX, List.append_assoc]
    rw [List.getElem?_append_right (by omega)]
    simp [hl]
  have t1 : (withYX ydim e y x).take ydim = e.take ydim := by
    simp only [withYX, List.append_assoc]
    rw [List.take_append_of_le_length (by omega)]
    simp [hl]
  have t2 : (withYX ydim e y x).drop (ydim + 2) = e.drop ydim := by
    simp only [withYX, List.append_assoc]
    rw [List.drop_append, List.drop_eq_nil_of_le (by omega), hl]
    simp
  simp only [splitYX, g1, g2, t1, t2, Option.bind_eq_bind, Option.bind_some, Option.pure_def,
    List.take_append_drop]

/-- **Any `ydim`, any chunk tables**: element `(*e[:ydim], y, x, *e[ydim:])` of the computed dask
array is pixel `(y, x)` of the 2-d dask result of the plane at non-spatial index `e` — wherever the
two spatial axes sit (leading time axis: `ydim = 1`; band-last: `ydim = 0`; both), whatever the
chunk tables of the other axes. -/
theorem nd_any_ydim (ydim : Nat) (tables : List (List Span)) (c : Cfg) (G : Gdal)
    (arr : List Int → Option Val) (e : List Int) (y x : Int) (hy : ydim ≤ e.length)
    (b : List Nat) (l : List Int) (hloc : locAxes tables e = some (b, l)) :
    daskResultFull ydim tables c G arr (withYX ydim e y x) =
      daskResult c G (planeOf ydim arr e) (y, x) := by
  unfold daskResultFull
  rw [splitYX_withYX ydim e y x hy]
  simp only [Option.bind_eq_bind, Option.bind_some]
  exact nd_eq_plane (listAxes tables) (listAxes_lawful tables) c G (planeOf ydim arr) e (y, x) b l hloc

/-- non-vacuity: a time axis of 5 steps chunked (2, 2, 1): step 4 is local index 0 of chunk 2 -/
example : locAxes [chunksTiling [2, 2, 1]] [4] = some ([2], [0]) := by decide

end OdcGeo.C13
