/-
C05 ∘ C06 ∘ C18 — the S3 variant of `Props/C06Cog.lean::cog_file_end_to_end`:
`save_cog_with_dask(..., dst="s3://…")` = `MultiPartUpload.upload(tiles_write_order, mk_header=_patch_hdr, …)` from the tile
stream to the object the service assembles.  C18's upload model (`Model/C18Up.lean`, read-only) plays the service.
-/
import OdcGeo.Props.C06Cog

set_option linter.unusedVariables false
set_option linter.unusedSimpArgs false

namespace OdcGeo.C06
open OdcGeo

/-- **The header table addresses the tiles inside the assembled parts**, for ANY writer limits: the part common to the
file-sink and the S3 variant.  `mpu_write` over any cutting of the `writeOrder` stream into bags / partitions (graph shape
derived in the model) succeeds, `_patch_hdr` succeeds on the observed stream, the parts handed to `finalise` concatenate to
header ++ tiles, and every tile with data sits at the `(off, size)` its patched header entry names. -/
theorem cog_header_addresses_assembled_parts (W : Writer) (spill wpc : Nat) (bags : List (List (List (List Nat × Int))))
    (mkHdr : Option (List (Nat × Int) → List Nat))
    (hb : bags ≠ []) (hp : ∀ b ∈ bags, b ≠ []) (hc : ∀ b ∈ bags, ∀ p ∈ b, p ≠ [])
    (hcap : W.minPart + 1 + bags.flatten.length * wpc ≤ W.maxPart + 1)
    (hdrSz : Nat) (hH : (optBytes (mkHdr.map (fun f => f (bagsObs bags)))).length = hdrSz)
    (m0 : C05.Meta) (rest : List C05.Meta) (hpl : ∀ m ∈ rest, m.planes = m0.planes)
    (hcount : (bagsChunks bags).length = (C05.writeOrder (m0 :: rest)).length) :
    let ms := m0 :: rest
    let tiles := List.zipWith C05.obsOf (C05.writeOrder ms) ((bagsChunks bags).map List.length)
    ∃ t wsF fp wsAll info,
      mpuWriteTree mpuWriteSplitEvery bags = some t ∧ t.NonEmpty ∧ t.leaves = bags.flatten.length ∧
      t.obs = bagsObs bags ∧ t.bytes = bagsBytes bags ∧
      run ⟨some W, spill, wpc, true⟩ t mkHdr none = .ok (.written wsF fp, wsAll, bagsObs bags) ∧
      C05.patchHdr ms tiles hdrSz = .ok info ∧
      partsBytes fp = optBytes (mkHdr.map (fun f => f (bagsObs bags))) ++ bagsBytes bags ∧
      ∀ i (hi : i < tiles.length) (hci : i < (bagsChunks bags).length), tiles[i].sz ≠ 0 →
        ∃ l f off, C05.obsKey ms tiles[i] = .ok (l, f) ∧ C05.look info l f = some (off, tiles[i].sz) ∧
          ((partsBytes fp).drop off).take tiles[i].sz = (bagsChunks bags)[i] := by
  intro ms tiles
  obtain ⟨t, ht, hleaf⟩ := mpuWriteTree_spec mpuWriteSplitEvery (by decide) bags hb hp
  have hbytes : t.bytes = bagsBytes bags := by rw [Tree.bytes_leafList, hleaf, bagsBytes]
  have hobs : t.obs = bagsObs bags := by rw [Tree.obs_leafList, hleaf, bagsObs]
  have hleaves : t.leaves = bags.flatten.length := by rw [Tree.leaves_leafList, hleaf]
  have hchunks : t.chunks = bagsChunks bags := by rw [Tree.chunks_leafList, hleaf, bagsChunks]
  have hne : t.NonEmpty := by
    rw [Tree.nonEmpty_leafList, hleaf]
    intro p hpm
    obtain ⟨b, hbm, hpb⟩ := List.mem_flatten.mp hpm
    exact hc b hbm p hpb
  have hcap' : W.minPart + 1 + t.leaves * wpc ≤ W.maxPart + 1 := by rw [hleaves]; exact hcap
  obtain ⟨wsF, fp, wsAll, hrun, hfile⟩ :=
    file_chunk_bytes W spill wpc t mkHdr hne hcap' hdrSz (by rw [hobs]; exact hH)
  obtain ⟨a, b, c, hr, hb', _⟩ := main W spill wpc t mkHdr none hne hcap'
  have hx : partsBytes fp = optBytes (mkHdr.map (fun f => f (bagsObs bags))) ++ bagsBytes bags := by
    have h2 : run ⟨some W, spill, wpc, true⟩ t mkHdr none = .ok (.written a b, c, t.obs) := by simpa using hr
    rw [hrun] at h2
    simp only [Except.ok.injEq, Prod.mk.injEq, Out.written.injEq] at h2
    rw [h2.1.2, hb', hobs, hbytes]; simp [optBytes]
  have hszs : tiles.map (·.sz) = (bagsChunks bags).map List.length :=
    zipWith_obsOf_sz _ _ (by simp only [List.length_map, hcount, ms])
  obtain ⟨info0, hinfo0, hlook0⟩ := C05.write_order_stream_exact m0 rest hpl ((bagsChunks bags).map List.length) 0
  cases hpatch : C05.patchHdr ms tiles hdrSz with
  | error e => simp [C05.patchHdr, ms, tiles, hinfo0, Except.map] at hpatch
  | ok info =>
    refine ⟨t, wsF, fp, wsAll, info, ht, hne, hleaves, hobs, hbytes, by rw [← hobs]; exact hrun, rfl, hx, ?_⟩
    intro i hi hci hnz
    obtain ⟨l, f, hkey, hlook⟩ := hlook0 i hi hnz
    have hlookP := C05.patch_hdr_exact ms tiles hdrSz info info0 hinfo0 hpatch l f _ _ hlook
    refine ⟨l, f, C05.streamOff 0 tiles i + hdrSz, hkey, hlookP, ?_⟩
    have htake : C05.sizes (tiles.take i) = ((bagsChunks bags).take i).flatten.length := by
      have h : (tiles.take i).map (·.sz) = ((bagsChunks bags).take i).map List.length := by
        rw [List.map_take, List.map_take, hszs]
      simp only [C05.sizes, h, List.length_flatten]
    have hoff : C05.streamOff 0 tiles i + hdrSz = hdrSz + ((bagsChunks bags).take i).flatten.length := by
      simp only [C05.streamOff, Nat.zero_add, htake]; omega
    have hlen : tiles[i].sz = ((bagsChunks bags)[i]).length := by
      have := congrArg (fun l => l[i]?) hszs
      simp only [List.getElem?_map, List.getElem?_eq_getElem hi, List.getElem?_eq_getElem hci,
        Option.map_some] at this
      exact Option.some.inj this
    rw [hoff, hlen]
    have := hfile i (by rw [hchunks]; exact hci)
    simpa only [hchunks] using this

/-- **A COG uploaded to S3 through `MultiPartUpload.upload`: every header entry addresses exactly its tile's bytes in the
OBJECT the service assembles.**  `spill_sz ≠ 0` (the upload has a writer: S3 limits 5 MiB / parts 1 … 10000), at most
9999 part numbers needed, any cutting of the `writeOrder` tile stream into bags and partitions: the run succeeds, `_patch_hdr`
succeeds, no `upload_part` / `complete` call fails against a service that demands 5 MiB of every part but the last,
ascending part order and known parts, exactly ONE multipart upload is initiated, and the completed object is
header ++ tiles with every patched `(off, size)` entry pointing at its tile. -/
theorem cog_s3_end_to_end (spill wpc : Nat) (bags : List (List (List (List Nat × Int))))
    (mkHdr : Option (List (Nat × Int) → List Nat)) (hs : spill ≠ 0)
    (hb : bags ≠ []) (hp : ∀ b ∈ bags, b ≠ []) (hc : ∀ b ∈ bags, ∀ p ∈ b, p ≠ [])
    (hcap : 1 + 1 + bags.flatten.length * wpc ≤ 10000 + 1)
    (hdrSz : Nat) (hH : (optBytes (mkHdr.map (fun f => f (bagsObs bags)))).length = hdrSz)
    (m0 : C05.Meta) (rest : List C05.Meta) (hpl : ∀ m ∈ rest, m.planes = m0.planes)
    (hcount : (bagsChunks bags).length = (C05.writeOrder (m0 :: rest)).length) :
    let ms := m0 :: rest
    let tiles := List.zipWith C05.obsOf (C05.writeOrder ms) ((bagsChunks bags).map List.length)
    ∃ wsF fp wsAll info,
      mpuWrite (C18.uploadWriter spill) spill wpc bags mkHdr none = some (.ok (.written wsF fp, wsAll, bagsObs bags)) ∧
      C05.patchHdr ms tiles hdrSz = .ok info ∧
      (C18.Up.runWrites {} (wsAll.map (fun p => (p.id, p.data)))).2 = none ∧
      (C18.Up.finalise (5 * 1024 * 1024) (C18.Up.runWrites {} (wsAll.map (fun p => (p.id, p.data)))).1 (fp.map (·.id))).2 = none ∧
      (C18.Up.finalise (5 * 1024 * 1024) (C18.Up.runWrites {} (wsAll.map (fun p => (p.id, p.data)))).1 (fp.map (·.id))).1.creates = 1 ∧
      (C18.Up.finalise (5 * 1024 * 1024) (C18.Up.runWrites {} (wsAll.map (fun p => (p.id, p.data)))).1 (fp.map (·.id))).1.object =
        some (optBytes (mkHdr.map (fun f => f (bagsObs bags))) ++ bagsBytes bags) ∧
      ∀ obj, (C18.Up.finalise (5 * 1024 * 1024) (C18.Up.runWrites {} (wsAll.map (fun p => (p.id, p.data)))).1
                (fp.map (·.id))).1.object = some obj →
        ∀ i (hi : i < tiles.length) (hci : i < (bagsChunks bags).length), tiles[i].sz ≠ 0 →
          ∃ l f off, C05.obsKey ms tiles[i] = .ok (l, f) ∧ C05.look info l f = some (off, tiles[i].sz) ∧
            (obj.drop off).take tiles[i].sz = (bagsChunks bags)[i] := by
  intro ms tiles
  have hW : C18.uploadWriter spill = some C18.s3Writer := by simp [C18.uploadWriter, hs]
  have hlim : C18.s3Writer.minPart = 1 ∧ C18.s3Writer.maxPart = 10000 := by decide
  obtain ⟨t, wsF, fp, wsAll, info, ht, hne, hleaves, hobs, hbytes, hrun, hpatch, hx, haddr⟩ :=
    cog_header_addresses_assembled_parts C18.s3Writer spill wpc bags mkHdr hb hp hc
      (by rw [hlim.1, hlim.2]; exact hcap) hdrSz hH m0 rest hpl hcount
  obtain ⟨wsF', fp', wsAll', hrun', _, hs1, hs2, hs3, hs4, _⟩ :=
    C18.mpu_upload_to_s3 spill wpc t mkHdr none hs hne (by rw [hleaves]; exact hcap)
  have hsame : fp' = fp ∧ wsAll' = wsAll := by
    rw [hW] at hrun'
    have h1 : run ⟨some C18.s3Writer, spill, wpc, true⟩ t mkHdr none = .ok (.written wsF' fp', wsAll', t.obs) := by
      simpa using hrun'
    rw [hrun] at h1
    simp only [Except.ok.injEq, Prod.mk.injEq, Out.written.injEq] at h1
    exact ⟨h1.1.2.symm, h1.2.1.symm⟩
  obtain ⟨rfl, rfl⟩ := hsame
  have hobj : (C18.Up.finalise (5 * 1024 * 1024) (C18.Up.runWrites {} (wsAll'.map (fun p => (p.id, p.data)))).1
      (fp'.map (·.id))).1.object = some (optBytes (mkHdr.map (fun f => f (bagsObs bags))) ++ bagsBytes bags) := by
    rw [hs3, hobs, hbytes]; simp [optBytes]
  refine ⟨wsF, fp', wsAll', info, ?_, hpatch, hs1, hs2, hs4, hobj, ?_⟩
  · have hbe : bags.isEmpty = false := by cases bags <;> simp_all
    simp only [mpuWrite, hbe, Bool.false_eq_true, if_false, ht, Option.map_some, Option.isNone_none, hW]
    exact congrArg some hrun
  · intro obj hobj' i hi hci hnz
    rw [hobj] at hobj'
    have : obj = partsBytes fp' := by rw [hx]; exact (Option.some.inj hobj').symm
    rw [this]
    exact haddr i hi hci hnz

/-- non-vacuity: the S3 limits leave room for 9 999 partitions × 1 write -/
example : (1 + 1 + 4 * 2 ≤ 10000 + 1) ∧ C18.uploadWriter 20 = some C18.s3Writer := by decide

end OdcGeo.C06
