/- C15 — property theorems only. -/
import OdcGeo.Model.C15
namespace OdcGeo.C15

end OdcGeo.C15
