/-
C15 — GeoTIFF/COG written through GDAL reads back identical.

Property theorems about the *decision core* only (`OdcGeo/Model/C15.lean`).  The Lean part of
C15 is deliberately small: that an independent reader decodes the same pixels / transform /
CRS / nodata is established by the GDAL round trip of the harness, with GDAL + rasterio
encode and decode trusted; no theorem here speaks about file bytes.
-/
import OdcGeo.Model.C15
import OdcGeo.Lemmas.C05
import Mathlib.Tactic.Linarith
import Mathlib.Tactic.Ring

namespace OdcGeo.C15
open OdcGeo.C05 (adjustBlocksize alignUp alignUp_dvd alignUp_ge alignUp_lt YX)

/-! ## block sizes -/

theorem alignUp16_mono (a b : Nat) (h : a ≤ b) : alignUp a 16 ≤ alignUp b 16 := by
  unfold alignUp OdcGeo.C05.alignDown; omega

/-- `blocksize_mult16_le`: both block sizes handed to GDAL are multiples of 16, never larger
than the requested block rounded up, and for an image side smaller than the block they shrink
to that side rounded up (by less than 16).  `None` means 512. -/
theorem blocksize_mult16_le (blocksize : Option Nat) (w h : Nat) (fl : Bool) :
    let o := cogOpts blocksize w h fl
    let b := blocksize.getD 512
    16 ∣ o.blockxsize ∧ 16 ∣ o.blockysize ∧
    o.blockxsize ≤ alignUp b 16 ∧ o.blockysize ≤ alignUp b 16 ∧
    (0 < w → w < b → w ≤ o.blockxsize ∧ o.blockxsize < w + 16) ∧
    (0 < h → h < b → h ≤ o.blockysize ∧ o.blockysize < h + 16) ∧
    (¬(0 < w ∧ w < b) → o.blockxsize = alignUp b 16) ∧
    (¬(0 < h ∧ h < b) → o.blockysize = alignUp b 16) := by
  intro o b
  have key : ∀ d, 16 ∣ adjustBlocksize b d ∧ adjustBlocksize b d ≤ alignUp b 16 ∧
      (0 < d → d < b → d ≤ adjustBlocksize b d ∧ adjustBlocksize b d < d + 16) ∧
      (¬(0 < d ∧ d < b) → adjustBlocksize b d = alignUp b 16) := by
    intro d
    unfold adjustBlocksize
    by_cases hd : 0 < d ∧ d < b
    · rw [if_pos hd]
      exact ⟨alignUp_dvd _ 16 (by decide), alignUp16_mono _ _ (by omega),
        fun _ _ => ⟨alignUp_ge _ 16 (by decide), alignUp_lt _ 16 (by decide)⟩, fun h => absurd hd h⟩
    · rw [if_neg hd]
      exact ⟨alignUp_dvd _ 16 (by decide), Nat.le_refl _, fun h1 h2 => absurd ⟨h1, h2⟩ hd, fun _ => rfl⟩
  obtain ⟨x1, x2, x3, x4⟩ := key w
  obtain ⟨y1, y2, y3, y4⟩ := key h
  exact ⟨x1, y1, x2, y2, x3, y3, x4, y4⟩

/-- the "will be adjusted" warning fires exactly for requested sizes that are not multiples of 16 -/
theorem blocksize_warning (blocksize : Option Nat) (w h : Nat) (fl : Bool) :
    (cogOpts blocksize w h fl).warns = true ↔ ¬ 16 ∣ blocksize.getD 512 := by
  simp [cogOpts, Nat.dvd_iff_mod_eq_zero]

/-- predictor 3 for floats, 2 otherwise -/
theorem predictor_choice (blocksize : Option Nat) (w h : Nat) (fl : Bool) :
    (cogOpts blocksize w h fl).predictor = if fl then 3 else 2 := rfl

/-! ## overview levels -/

/-- `default_levels`: no overviews by default exactly for images with a side under 512 pixels,
otherwise the five powers of two 2…32; an explicit list is used as given. -/
theorem default_levels (w h : Nat) :
    (levelsFor none w h = [] ↔ min w h < 512) ∧
    (512 ≤ min w h → levelsFor none w h = [2, 4, 8, 16, 32]) ∧
    ∀ l, levelsFor (some l) w h = l := by
  refine ⟨?_, ?_, fun _ => rfl⟩
  · simp only [levelsFor, defaultLevels]
    by_cases h : min w h < 512
    · simp [h]
    · simp [h, List.range_succ]
  · intro h
    simp only [levelsFor, defaultLevels]
    rw [if_neg (by omega)]
    decide

/-! ## band layout -/

/-- `layout_normalises_to_band_first`: whenever the layout is accepted the normalised height ×
width is the GeoBox shape, no element is lost, and output element `[k, y, x]` is input element
`[y, x, k]` for band-last input (band order preserved by the transpose) and `[k, y, x]` itself
for band-first / 2-D input. -/
theorem layout_normalises_to_band_first (shape : List Nat) (g : YX) (l : Layout)
    (h : normLayout shape g = .ok l) :
    g = ⟨l.h, l.w⟩ ∧ l.nbands * l.h * l.w = shape.foldl (· * ·) 1 ∧
    (∀ k y x, srcIndex l k y x = if l.transposed then (y, x, k) else (k, y, x)) ∧
    (l.transposed = true ↔ ∃ a b c, shape = [a, b, c] ∧ g = ⟨a, b⟩) := by
  unfold normLayout at h
  split at h
  · rename_i hh ww
    split at h
    · rename_i hg; cases h
      refine ⟨hg, by simp, fun _ _ _ => rfl, by simp⟩
    · cases h
  · rename_i a b c
    split at h
    · rename_i hg; cases h
      refine ⟨hg, by simp [Nat.mul_comm, Nat.mul_left_comm], fun _ _ _ => rfl, ?_⟩
      simp only [true_iff]
      exact ⟨a, b, c, rfl, hg⟩
    · rename_i hg
      split at h
      · cases h
      · rename_i hg2; cases h
        refine ⟨by simpa using hg2, by simp [Nat.mul_assoc], fun _ _ _ => rfl, ?_⟩
        simp only [Bool.false_eq_true, false_iff]
        rintro ⟨a', b', c', he, hg'⟩
        cases he
        exact hg hg'
  · cases h

/-- what is rejected: 3-D arrays matching the GeoBox on neither side (`ValueError`), 2-D arrays
of another shape (`AssertionError`), other ranks (`ValueError`) -/
theorem layout_rejects (a b c : Nat) (g : YX) (h1 : g ≠ ⟨a, b⟩) (h2 : g ≠ ⟨b, c⟩) :
    normLayout [a, b, c] g = .error .valueError ∧
    (g ≠ ⟨a, b⟩ → normLayout [a, b] g = .error .assertion) ∧
    normLayout [a] g = .error .valueError := by
  simp [normLayout, h1, h2]

/-- the ambiguous case: an `n×n×n` array over an `n×n` GeoBox is always read as band-last
(bands = last axis), whatever the caller meant -/
theorem layout_ambiguous_cube (n : Nat) :
    normLayout [n, n, n] ⟨n, n⟩ = .ok ⟨n, n, n, true⟩ ∧ ambiguous [n, n, n] ⟨n, n⟩ = true := by
  simp [normLayout, ambiguous]

/-! ## overwrite guard -/

/-- `overwrite_table`: an existing destination without `overwrite` raises and nothing is
unlinked or written; with `overwrite` it is unlinked, then written; a missing destination is
just written; memory destinations never touch the file system. -/
theorem overwrite_table :
    writePlan false true false = ([], true) ∧
    writePlan false true true = ([.unlink, .write], false) ∧
    (∀ o, writePlan false false o = ([.write], false)) ∧
    (∀ e o, writePlan true e o = ([], false)) := by
  refine ⟨rfl, rfl, ?_, ?_⟩
  · intro o; cases o <;> rfl
  · intro e o; cases e <;> cases o <;> rfl

/-- an unlink happens only when the destination exists and overwriting was requested, and an
error leaves no action behind -/
theorem unlink_only_on_overwrite (m e o : Bool) :
    (Act.unlink ∈ (writePlan m e o).1 ↔ (m = false ∧ e = true ∧ o = true)) ∧
    ((writePlan m e o).2 = true → (writePlan m e o).1 = []) := by
  cases m <;> cases e <;> cases o <;> simp [writePlan]

/-! ## compression option normalisation -/

theorem norm_compression_table (s : String) (kv : List (String × String)) :
    normCompressionOpts (.flag true) = [("compress", "deflate"), ("zlevel", "2")] ∧
    normCompressionOpts (.flag false) = [("compress", "None")] ∧
    normCompressionOpts (.name s) = [("compress", s)] ∧
    normCompressionOpts (.opts kv) = kv := by
  refine ⟨by decide, rfl, rfl, rfl⟩

/-- overview size reference: `⌈w/l⌉ × ⌈h/l⌉` covers the image and wastes less than one cell -/
theorem ovr_size_ceil (w h l : Nat) (hl : 0 < l) :
    w ≤ (ovrSize w h l).1 * l ∧ (ovrSize w h l).1 * l < w + l ∧
    h ≤ (ovrSize w h l).2 * l ∧ (ovrSize w h l).2 * l < h + l := by
  have key : ∀ N, N ≤ ((N + l - 1) / l) * l ∧ ((N + l - 1) / l) * l < N + l := by
    intro N
    have h1 := Nat.div_add_mod (N + l - 1) l
    have h2 := Nat.mod_lt (N + l - 1) hl
    rw [Nat.mul_comm] at h1
    constructor <;> omega
  exact ⟨(key w).1, (key w).2, (key h).1, (key h).2⟩

/-! ## the array as a whole: layout then levels -/

/-- `normalised_pixel`: element `[k, y, x]` of the band-first array handed to GDAL is `source[y, x, k]` for band-last
input (the permutation is `[2, 0, 1]`, band order kept) and `source[k, y, x]` itself otherwise -/
theorem normalised_pixel {α : Type} (l : Layout) (pix : Nat → Nat → Nat → α) (k y x : Nat) :
    normalise l pix k y x = if l.transposed then pix y x k else pix k y x := by
  unfold normalise srcIndex
  cases l.transposed <;> rfl

/-- `levels_independent_of_layout`: the overview levels depend on the SPATIAL shape only.  The same `h × w` image over
the same GeoBox, given as 2-D, band-first (`c` bands) or band-last, gets the same levels — also by default (none under
512 px, `[2,4,8,16,32]` otherwise): the rule never sees the band axis.  (`hne`: the layouts are not ambiguous.) -/
theorem levels_independent_of_layout (req : Option (List Nat)) (h w c : Nat)
    (hne : (⟨h, w⟩ : YX) ≠ ⟨c, h⟩) :
    levelsForArray req [h, w] ⟨h, w⟩ = .ok (levelsFor req w h) ∧
    levelsForArray req [c, h, w] ⟨h, w⟩ = .ok (levelsFor req w h) ∧
    levelsForArray req [h, w, c] ⟨h, w⟩ = .ok (levelsFor req w h) := by
  refine ⟨by simp [levelsForArray, normLayout], ?_, by simp [levelsForArray, normLayout]⟩
  simp [levelsForArray, normLayout, hne]

/-- the C15-11 class as a concrete non-vacuity witness: a 600 × 513 RGB image, band-last, gets the five default levels
(the smaller SPATIAL side is 513, not the band count 3) -/
example : levelsForArray none [600, 513, 3] ⟨600, 513⟩ = .ok [2, 4, 8, 16, 32] ∧
    levelsForArray none [3, 600, 513] ⟨600, 513⟩ = .ok [2, 4, 8, 16, 32] ∧
    levelsForArray none [511, 700, 4] ⟨511, 700⟩ = .ok [] := by decide

/-! ## nodata -/

/-- `nodata_resolution`: on every entry point an explicit keyword wins, otherwise the array's `attrs['nodata']`,
otherwise none -/
theorem nodata_resolution (e : Entry) (kw attrs : Option Num) :
    resolveNodata e kw attrs = (match kw with | some v => some v | none => attrs) ∧
    (kw = none → attrs = none → resolveNodata e kw attrs = none) ∧
    (∀ v, kw = some v → resolveNodata e kw attrs = some v) := by
  refine ⟨rfl, ?_, ?_⟩
  · rintro rfl rfl; rfl
  · rintro v rfl; rfl

/-- the entry point does not matter -/
theorem nodata_entry_irrelevant (e e' : Entry) (kw attrs : Option Num) :
    resolveNodata e kw attrs = resolveNodata e' kw attrs := rfl

/-- `nodata_spelling_irrelevant`: the value that reaches GDAL depends on the numbers, not on how they are spelled
(python int / float, numpy scalar of any dtype, 0-d array; any spelling of NaN) nor on which route each took -/
theorem nodata_spelling_irrelevant (e : Entry) (kw kw' attrs attrs' : Option Num)
    (hk : kw.map Num.value = kw'.map Num.value) (ha : attrs.map Num.value = attrs'.map Num.value) :
    (resolveNodata e kw attrs).map Num.value = (resolveNodata e kw' attrs').map Num.value := by
  cases kw <;> cases kw' <;> simp_all [resolveNodata]

example : (resolveNodata .writeCog none (some (.npScalar "int16" (-9999)))).map Num.value =
    (resolveNodata .toCog none (some (.pyInt (-9999)))).map Num.value := by decide

/-! ## `_norm_compression_opts` aliasing -/

/-- a `bool` / `str` argument yields a new dict; a dict argument comes back as the caller's own object — which is
harmless on HEAD because neither caller writes into the result -/
theorem norm_compression_aliasing (c : CompArg) :
    (normCompressionFresh c = false ↔ ∃ kv, c = .opts kv) ∧ ∀ u : NormUse, u.writesInto = false := by
  refine ⟨?_, fun u => by cases u <;> rfl⟩
  cases c <;> simp [normCompressionFresh]

/-! ## GeoTIFF transform tags (shared with C05; GDAL reference semantics, `Model/CogShared.lean`) -/

open OdcGeo.Cog in
/-- `tags_encode_affine`: for EVERY affine (north-up, south-up, mirrored, rotated, sheared) the tags GDAL writes decode
to exactly that affine: ModelPixelScale + ModelTiepoint when north-up, the ModelTransformation matrix otherwise -/
theorem tags_encode_affine (A : Aff) : decodeTransform (encodeTransform A) = some A := by
  obtain ⟨a, b, c, d, e, f⟩ := A
  unfold encodeTransform
  split
  · rename_i h
    obtain ⟨hb, hd, _⟩ := h
    simp only at hb hd
    subst hb; subst hd
    simp [decodeTransform]
  · simp [decodeTransform]

open OdcGeo.Cog in
/-- which encoding is used -/
theorem tags_kind (A : Aff) :
    (∃ s t, encodeTransform A = .scaleTie s t) ↔ (A.b = 0 ∧ A.d = 0 ∧ A.e < 0) := by
  unfold encodeTransform
  split <;> simp_all

open OdcGeo.Cog in
/-- the tags do not depend on the image shape (`geotiff_metadata` takes them from `geobox[:2, :2]`) -/
theorem tags_shape_independent (A : Aff) (s s' : Nat × Nat) :
    encodeTransform (cropKeepsAffine A s) = encodeTransform (cropKeepsAffine A s') := rfl

/-! ## C15 ∘ C05: the two writers share `_shared.py` -/

/-- `same_tile_rule`: for an image at least as large as the requested block both writers use the same tile size — the GDAL
writer's `blockxsize / blockysize` are the dask writer's `norm_blocksize(block)`; they differ only for images smaller than
the block, which the GDAL writer shrinks to the image (`adjust_blocksize(block, dim)`), the dask writer does not -/
theorem same_tile_rule (b w h : Nat) (fl : Bool) (hw : ¬(0 < w ∧ w < b)) (hh : ¬(0 < h ∧ h < b)) :
    (cogOpts (some b) w h fl).blockxsize = (OdcGeo.C05.normBlocksize (.one b)).x ∧
    (cogOpts (some b) w h fl).blockysize = (OdcGeo.C05.normBlocksize (.one b)).y := by
  simp only [cogOpts, Option.getD, OdcGeo.C05.normBlocksize, adjustBlocksize]
  rw [if_neg hw, if_neg hh]
  simp

/-- and the geo-registration tags of both are the encoding of the same affine (C05 copies the tags GDAL writes for the
GeoBox, C15 lets GDAL write them): they decode to the GeoBox's transform -/
theorem same_geo_tags (A : Aff) (shapeC05 shapeC15 : Nat × Nat) :
    OdcGeo.Cog.decodeTransform (OdcGeo.Cog.encodeTransform (OdcGeo.Cog.cropKeepsAffine A shapeC05)) = some A ∧
    OdcGeo.Cog.encodeTransform (OdcGeo.Cog.cropKeepsAffine A shapeC05) =
      OdcGeo.Cog.encodeTransform (OdcGeo.Cog.cropKeepsAffine A shapeC15) :=
  ⟨tags_encode_affine A, rfl⟩

end OdcGeo.C15
