/-
C17 — the glue of `odc/geo/roi.py` (`Model/C17Glue.lean`): slices with a step, dispatch on one / many, error branches,
`WindowFromSlice`, the argument normalisation of `roi_from_points`.  Where the code violates the statement at an
excluded point there is a `_cex` theorem (replayed on the real code by the harness).
-/
import OdcGeo.Model.C17Glue
import OdcGeo.Spec.PySlice
import OdcGeo.Spec.PySliceStep
import OdcGeo.Props.C17
import Mathlib.Tactic.Linarith

set_option linter.unusedVariables false
set_option linter.unusedSimpArgs false

namespace OdcGeo.C17
open OdcGeo.PySliceStep

/-! ### slices with a step -/

theorem adjust_wrapNeg_pos (n : Nat) (d v : Int) :
    adjust n 0 n d (some (wrapNeg n v)) = adjust n 0 n d (some v) := by
  unfold wrapNeg adjust
  by_cases h : v ≥ 0
  · simp [h]
  · have hv : v < 0 := by omega
    have h2 : ¬ (max 0 ((n : Int) + v) < 0) := by omega
    simp only [h, if_false, h2, hv, if_true]
    omega

/-- **A normalised slice with a POSITIVE step selects the same elements as the original** (numpy /
`slice.indices` semantics, `Spec/PySliceStep`), for every length, open / negative / out-of-range bounds. -/
theorem normalise_step_pos_same_elements (n : Nat) (a b : Option Int) (k : Int) (hk : 0 < k) :
    let r := normSliceS (.slc a b (some k)) n
    r.step = some k ∧ sel n (some r.start) (some r.stop) k = sel n a b k := by
  refine ⟨rfl, ?_⟩
  have hA : adjust n 0 n 0 (some (normSlice (.slc a b) n).start) = adjust n 0 n 0 a := by
    cases a with
    | none =>
      have : wrapNeg (n : Int) 0 = 0 := by simp [wrapNeg]
      simp only [normSlice, this, adjust]
      omega
    | some x => simp only [normSlice]; exact adjust_wrapNeg_pos n 0 x
  have hB : adjust n 0 n n (some (normSlice (.slc a b) n).stop) = adjust n 0 n n b := by
    cases b with
    | none =>
      have : wrapNeg (n : Int) n = n := by unfold wrapNeg; split <;> omega
      simp only [normSlice, this, adjust]
      omega
    | some x => simp only [normSlice]; exact adjust_wrapNeg_pos n n x
  simp only [sel, indices, hk, if_true, normSliceS, SIdx.toPIdx]
  simp only [hA, hB]

/-- … and with a NEGATIVE step as long as both bounds are given and not below `-n`. -/
theorem normalise_step_neg_same_when_bounds_in_range (n : Nat) (x y k : Int) (hk : k < 0)
    (hx : -(n : Int) ≤ x) (hy : -(n : Int) ≤ y) :
    let r := normSliceS (.slc (some x) (some y) (some k)) n
    sel n (some r.start) (some r.stop) k = sel n (some x) (some y) k := by
  have hnk : ¬ 0 < k := by omega
  have key : ∀ v : Int, -(n : Int) ≤ v →
      adjust n (-1) (n - 1) (n - 1) (some (wrapNeg n v)) = adjust n (-1) (n - 1) (n - 1) (some v) ∧
      adjust n (-1) (n - 1) (-1) (some (wrapNeg n v)) = adjust n (-1) (n - 1) (-1) (some v) := by
    intro v hv
    unfold wrapNeg adjust
    by_cases h : v ≥ 0
    · simp [h]
    · have hv0 : v < 0 := by omega
      have h1 : max 0 ((n : Int) + v) = v + n := by omega
      have h2 : ¬ (v + (n : Int) < 0) := by omega
      simp only [h, if_false, h1, h2, hv0, if_true]
      omega
  simp only [sel, indices, hnk, if_false, normSliceS, SIdx.toPIdx, normSlice]
  simp only [(key x hx).1, (key y hy).2]

/-- **false as found for a negative step with an open (or below `-n`) bound**: `roi_normalise(slice(None, None, -1), 5)`
is `slice(0, 5, -1)`, which selects nothing, while the original selects `4, 3, 2, 1, 0` (the defaults of an open bound
depend on the sign of the step; `_norm_slice` always fills in `0` / `n`).  Replayed on the real code. -/
theorem normalise_step_neg_cex :
    let r := normSliceS (.slc none none (some (-1))) 5
    r = ⟨0, 5, some (-1)⟩ ∧ sel 5 (some r.start) (some r.stop) (-1) = [] ∧ sel 5 none none (-1) = [4, 3, 2, 1, 0] := by
  decide

/-- `roi_shape` / `roi_is_empty` / `roi_is_full` do not look at the step: `roi_shape(slice(0, 10, 2))` is `(10,)` where
`X[0:10:2].shape` is `(5,)`, and `roi_is_full(slice(0, 10, 2), 10)` is `True` although half of the array is dropped.
Replayed on the real code. -/
theorem shape_ignores_step_cex :
    roiShapeArg (.one (.slc (some 0) (some 10) (some 2))) = .ok [10] ∧
    (sel 10 (some 0) (some 10) 2).length = 5 ∧
    roiIsFullArg (.one (.slc (some 0) (some 10) (some 2))) (.one 10) = true := by decide

/-- with step `None` / 1 the count is right (closed, in-range, ordered bounds) -/
theorem shape_step_one_counts (n : Nat) (s e : Int) (h : 0 ≤ s ∧ s ≤ e ∧ e ≤ n) :
    roiShapeArg (.one (.slc (some s) (some e) none)) = .ok [e - s] ∧
    ((sel n (some s) (some e) 1).length : Int) = e - s := by
  refine ⟨rfl, ?_⟩
  have hs : ¬ s < 0 := by omega
  have he : ¬ e < 0 := by omega
  simp only [sel, indices, adjust, hs, he, if_false, List.length_map, List.length_range, Int.zero_lt_one, if_true]
  have h1 : min s (n : Int) = s := by omega
  have h2 : min e (n : Int) = e := by omega
  rw [h1, h2]
  by_cases hlt : s < e
  · simp only [hlt, if_true, Int.ediv_one]
    omega
  · simp only [hlt, if_false]
    have : e = s := by omega
    simp [this]

/-- `roi_pad` answers without a step whatever the step of its argument -/
theorem pad_drops_step (s : SIdx) (pad n : Int) : (padSliceS s pad n).step = none := rfl

/-! ### one or many -/

/-- a single index with a one-element shape sequence is the same as with the bare length -/
theorem roi_normalise_one_vs_seq1 (s : SIdx) (n : Int) :
    roiNormaliseArg (.one s) (.many [n]) = roiNormaliseArg (.one s) (.one n) := rfl

/-- a single index with a shape sequence of any other length is rejected (`(shape,) = shape`) -/
theorem roi_normalise_one_bad_shape (s : SIdx) (ns : List Int) (h : ns.length ≠ 1) :
    roiNormaliseArg (.one s) (.many ns) = .error .valueError := by
  match ns, h with
  | [], _ => rfl
  | [_], h => simp at h
  | _ :: _ :: _, _ => rfl

/-- **N-D normalisation**: never fails; one result per (index, length) pair — extra indices or extra lengths are
silently dropped (`zip`) — and on every axis it is the 1-D normalisation, hence selects the same elements
(`normalise_same_elements`) whenever the step is `None`. -/
theorem roi_normalise_many_spec (ss : List SIdx) (ns : List Int) :
    ∃ rs, roiNormaliseArg (.many ss) (.many ns) = .ok (.many rs) ∧ rs.length = min ss.length ns.length ∧
      ∀ k (hk : k < rs.length) (hs : k < ss.length) (hn : k < ns.length),
        rs[k] = normSliceS ss[k] ns[k] ∧ (rs[k]).step = (ss[k]).step ∧
        (∀ a b i, 0 ≤ ns[k] → ss[k] = .slc a b none →
          (PySlice.Sel ns[k] (rs[k]).ns.toPIdx i ↔ PySlice.Sel ns[k] (.slc a b) i)) := by
  refine ⟨(ss.zip ns).map fun p => normSliceS p.1 p.2, rfl, by simp, ?_⟩
  intro k hk hs hn
  refine ⟨by simp, by simp [normSliceS], ?_⟩
  intro a b i h0 hsk
  simp only [List.getElem_map, List.getElem_zip]
  rw [hsk]
  exact normalise_same_elements ns[k] h0 a b i

/-- a bare length with a sequence of indices: only the first index is used -/
theorem roi_normalise_many_vs_one (ss : List SIdx) (n : Int) :
    roiNormaliseArg (.many ss) (.one n) = roiNormaliseArg (.many ss) (.many [n]) := rfl

theorem roi_pad_one_vs_seq1 (s : SIdx) (pad n : Int) :
    roiPadArg (.one s) pad (.many [n]) = roiPadArg (.one s) pad (.one n) := rfl

/-- N-D padding is the 1-D padding per axis; every result lies within `[0, n]` -/
theorem roi_pad_many_spec (ss : List SIdx) (pad : Int) (ns : List Int) :
    ∃ rs, roiPadArg (.many ss) pad (.many ns) = .ok (.many rs) ∧ rs.length = min ss.length ns.length ∧
      ∀ k (hk : k < rs.length) (hs : k < ss.length) (hn : k < ns.length),
        rs[k] = padSliceS ss[k] pad ns[k] ∧ (0 ≤ ns[k] → 0 ≤ (rs[k]).start ∧ (rs[k]).stop ≤ ns[k]) := by
  refine ⟨(ss.zip ns).map fun p => padSliceS p.1 pad p.2, rfl, by simp, ?_⟩
  intro k hk hs hn
  refine ⟨by simp, ?_⟩
  simp only [List.getElem_map, List.getElem_zip]
  intro h0
  have := pad_within ns[k] h0 (ss[k]).toPIdx pad
  simpa [padSliceS] using this

/-- `roi_intersect` of two single indices, however the second one is wrapped -/
theorem roi_intersect_one_vs_seq1 (a b : SIdx) :
    roiIntersectArg (.one a) (.many [b]) = roiIntersectArg (.one a) (.one b) := rfl

theorem roi_intersect_one_bad_seq (a : SIdx) (bs : List SIdx) (h : bs.length ≠ 1) :
    roiIntersectArg (.one a) (.many bs) = .error .valueError := by
  match bs, h with
  | [], _ => rfl
  | [_], h => simp at h
  | _ :: _ :: _, _ => rfl

/-- **N-D intersection of closed non-negative regions**: never fails, one slice per axis pair (`zip`), each the 1-D
intersection, which is exactly the common index set (`intersect_eq_set`). -/
theorem roi_intersect_many_closed (as bs : List (Int × Int))
    (ha : ∀ p ∈ as, 0 ≤ p.1 ∧ 0 ≤ p.2) (hb : ∀ p ∈ bs, 0 ≤ p.1 ∧ 0 ≤ p.2) :
    roiIntersectArg (.many (as.map fun p => .slc (some p.1) (some p.2) none))
        (.many (bs.map fun p => .slc (some p.1) (some p.2) none))
      = .ok (.many ((as.zip bs).map fun q => intersectN ⟨q.1.1, q.1.2⟩ ⟨q.2.1, q.2.2⟩)) := by
  simp only [roiIntersectArg]
  have key : ∀ (as bs : List (Int × Int)), (∀ p ∈ as, 0 ≤ p.1 ∧ 0 ≤ p.2) → (∀ p ∈ bs, 0 ≤ p.1 ∧ 0 ≤ p.2) →
      (((as.map fun p => SIdx.slc (some p.1) (some p.2) none).zip
        (bs.map fun p => SIdx.slc (some p.1) (some p.2) none)).mapM
          fun p => sliceIntersect p.1.toPIdx p.2.toPIdx)
        = .ok ((as.zip bs).map fun q => intersectN ⟨q.1.1, q.1.2⟩ ⟨q.2.1, q.2.2⟩) := by
    intro as
    induction as with
    | nil => intro bs _ _; simp [pure, Except.pure]
    | cons a as ih =>
      intro bs ha hb
      cases bs with
      | nil => simp [pure, Except.pure]
      | cons b bs =>
        have h1 := ha a (by simp)
        have h2 := hb b (by simp)
        have e : sliceIntersect (SIdx.slc (some a.1) (some a.2) none).toPIdx (SIdx.slc (some b.1) (some b.2) none).toPIdx
            = .ok (intersectN ⟨a.1, a.2⟩ ⟨b.1, b.2⟩) := by
          have na : ¬ (a.2 < 0 ∨ a.1 < 0) := by omega
          have nb : ¬ (b.2 < 0 ∨ b.1 < 0) := by omega
          simp [sliceIntersect, SIdx.toPIdx, normSliceOrError, na, nb, bind, Except.bind, pure, Except.pure]
        simp only [List.map_cons, List.zip_cons_cons, List.mapM_cons, e, bind, Except.bind]
        rw [ih bs (fun p hp => ha p (by simp [hp])) (fun p hp => hb p (by simp [hp]))]
        simp [pure, Except.pure]
  rw [key as bs ha hb]

/-- `roi_intersect3` needs as many indices on both sides … -/
theorem roi_intersect3_len_mismatch (a b : List SIdx) (h : a.length ≠ b.length) :
    roiIntersect3Arg a b = .error .assertion := by simp [roiIntersect3Arg, h]

/-- … at least one, … -/
theorem roi_intersect3_no_axis : roiIntersect3Arg [] [] = .error .valueError := rfl

/-- … and when it answers, the three tuples have one entry per axis and every axis is the 1-D three-way intersection
(to which `intersect3_left` / `intersect3_right` / `intersect3_common` apply). -/
theorem roi_intersect3_many_spec (a b : List SIdx) (aa bb cc : List NSlice)
    (h : roiIntersect3Arg a b = .ok (aa, bb, cc)) :
    aa.length = a.length ∧ bb.length = a.length ∧ cc.length = a.length ∧
    ∀ k (hk : k < a.length) (hkb : k < b.length) (h1 : k < aa.length) (h2 : k < bb.length) (h3 : k < cc.length),
      sliceIntersect3 (a[k]).toPIdx (b[k]).toPIdx = .ok (aa[k], bb[k], cc[k]) := by
  unfold roiIntersect3Arg at h
  by_cases hl : a.length ≠ b.length
  · simp [hl] at h
  · simp only [hl, if_false] at h
    have hl' : a.length = b.length := by omega
    cases hm : (a.zip b).mapM (fun p => sliceIntersect3 p.1.toPIdx p.2.toPIdx) with
    | error e => simp [hm] at h
    | ok rs =>
      -- mapM over a list: same length, pointwise results
      have gen : ∀ (ps : List (SIdx × SIdx)) (rs : List (NSlice × NSlice × NSlice)),
          ps.mapM (fun p => sliceIntersect3 p.1.toPIdx p.2.toPIdx) = .ok rs →
          rs.length = ps.length ∧ ∀ k (h1 : k < ps.length) (h2 : k < rs.length),
            sliceIntersect3 (ps[k]).1.toPIdx (ps[k]).2.toPIdx = .ok rs[k] := by
        intro ps
        induction ps with
        | nil => intro rs h; simp [pure, Except.pure] at h; subst h; simp
        | cons p ps ih =>
          intro rs h
          simp only [List.mapM_cons, bind, Except.bind] at h
          cases h1 : sliceIntersect3 p.1.toPIdx p.2.toPIdx with
          | error e => simp [h1] at h
          | ok r =>
            simp only [h1] at h
            cases h2 : ps.mapM (fun p => sliceIntersect3 p.1.toPIdx p.2.toPIdx) with
            | error e => simp [h2] at h
            | ok rs' =>
              simp only [h2, pure, Except.pure, Except.ok.injEq] at h
              subst h
              obtain ⟨l1, l2⟩ := ih rs' h2
              refine ⟨by simp [l1], ?_⟩
              intro k hk1 hk2
              cases k with
              | zero => simpa using h1
              | succ k => simpa using l2 k (by simpa using hk1) (by simpa using hk2)
      obtain ⟨g1, g2⟩ := gen _ rs hm
      have hz : (a.zip b).length = a.length := by simp [hl']
      cases rs with
      | nil => simp [hm] at h
      | cons r rs' =>
        simp only [hm, Except.ok.injEq, Prod.mk.injEq] at h
        obtain ⟨rfl, rfl, rfl⟩ := h
        refine ⟨by simp [← hz, ← g1], by simp [← hz, ← g1], by simp [← hz, ← g1], ?_⟩
        intro k hk hkb h1 h2 h3
        have := g2 k (by rw [hz]; exact hk) (by rw [g1, hz]; exact hk)
        simp only [List.getElem_zip] at this
        rw [this]
        cases k with
        | zero => simp
        | succ k => simp [List.getElem_map]

/-- `roi_is_full` wraps a single index / a single length; with fewer indices than axes the trailing axes are whole
(that is also numpy's meaning of `X[roi]`) -/
theorem roi_is_full_arg_forms (s : SIdx) (n : Int) (rest : List Int) :
    roiIsFullArg (.one s) (.one n) = sliceFull s.toPIdx n ∧
    roiIsFullArg (.one s) (.many (n :: rest)) = sliceFull s.toPIdx n ∧
    roiIsFullArg (.many [s]) (.one n) = sliceFull s.toPIdx n ∧
    roiIsFullArg (.many []) (.many (n :: rest)) = true := by
  simp [roiIsFullArg]

/-- `roi_shape` always answers with a tuple; `roi_center` answers in the form it was asked -/
theorem roi_shape_center_forms (s : SIdx) :
    roiShapeArg (.one s) = roiShapeArg (.many [s]) ∧
    (∀ c, sliceCenter s.toPIdx = .ok c → roiCenterArg (.one s) = .ok (.one c) ∧ roiCenterArg (.many [s]) = .ok (.many [c])) := by
  refine ⟨rfl, ?_⟩
  intro c hc
  simp [roiCenterArg, hc, List.mapM_cons, bind, Except.bind, pure, Except.pure]

/-! ### `WindowFromSlice` -/

/-- for a normalised 2-D roi the rasterio window is `((y0, y1), (x0, x1))`: offsets = starts, and
`stop - offset` = `roi_shape` on each axis -/
theorem window_of_normalised (y x : NSlice) :
    windowFromSlice (some [(some y.start, some y.stop), (some x.start, some x.stop)])
      = .ok (some ((y.start, some y.stop), (x.start, some x.stop))) ∧
    sliceDim y.toPIdx = .ok (y.stop - y.start) ∧ sliceDim x.toPIdx = .ok (x.stop - x.start) := ⟨rfl, rfl, rfl⟩

/-- an open start is offset 0 -/
theorem window_open_start (b d : Option Int) :
    windowFromSlice (some [(none, b), (none, d)]) = .ok (some ((0, b), (0, d))) := rfl

theorem window_none : windowFromSlice none = .ok none := rfl

theorem window_bad_arity (roi : List (Option Int × Option Int)) (h : roi.length ≠ 2) :
    windowFromSlice (some roi) = .error .valueError := by
  match roi, h with
  | [], _ => rfl
  | [_], _ => rfl
  | [_, _], h => simp at h
  | _ :: _ :: _ :: _, _ => rfl

/-! ### the head of `roi_from_points` -/

theorem alignDownPy_pos (x a : Int) (ha : 0 < a) : alignDownPy x a = .ok (alignDown x a) := by
  have : a ≠ 0 := by omega
  simp [alignDownPy, this, alignDown, Int.fmod_eq_emod_of_nonneg x (Int.le_of_lt ha)]

theorem alignUpPy_pos (x a : Int) (ha : 0 < a) : alignUpPy x a = .ok (alignUp x a) := by
  simp [alignUpPy, alignUp, alignDownPy_pos _ a ha]

/-- `int()` truncates towards zero -/
theorem pyInt_trunc (x : Rat) : (0 ≤ x → (pyInt x : Rat) ≤ x ∧ x < pyInt x + 1) ∧
    (x < 0 → x ≤ (pyInt x : Rat) ∧ (pyInt x : Rat) < x + 1) := by
  constructor
  · intro h
    simp only [pyInt, h, if_true]
    have := Rat.lt_floor_add_one x
    push_cast at this
    exact ⟨Rat.floor_le x, this⟩
  · intro h
    have : ¬ (0 ≤ x) := not_le.mpr h
    simp only [pyInt, this, if_false]
    exact ⟨Rat.le_ceil, Rat.ceil_lt⟩

theorem pyInt_int (k : Int) : pyInt (k : Rat) = k := by
  unfold pyInt
  split <;> simp [Rat.floor_intCast, Rat.ceil_intCast]

/-- **`roi_from_points` from its public arguments is the modelled core** whenever the call is well formed: the shape in
any accepted spelling, any real `padding` (truncated by `int`), `align` absent or truncating to a positive integer, an
`(N, 2)` point array.  Every theorem about `fromPoints` (`from_points_contains`, `…_within_image`, `…_ignores_nonfinite`,
`from_points_axis_aligned`) therefore speaks about the public call. -/
theorem from_points_public_eq (pts : List (Coord × Coord)) (shape : ShapeSpelling) (ny nx : Int)
    (padding : Rat) (align : Option Rat) (hs : shapeOf shape = .ok (ny, nx))
    (ha : ∀ a, align = some a → 0 < pyInt a) :
    fromPointsPublic pts true shape padding align
      = .ok (fromPoints pts ny nx (pyInt padding) (align.map pyInt)) := by
  simp only [fromPointsPublic, hs, fromPoints, Bool.not_true, Bool.false_eq_true, if_false]
  cases hp : finitePts pts with
  | nil => rfl
  | cons p ps =>
    have hax : ∀ (lo hi : Rat) (n : Int), fromPointsAxisPy lo hi n (pyInt padding) (align.map pyInt)
        = .ok (fromPointsAxis lo hi n (pyInt padding) (align.map pyInt)) := by
      intro lo hi n
      cases align with
      | none => rfl
      | some a =>
        have := ha a rfl
        simp only [fromPointsAxisPy, fromPointsAxis, Option.map_some, alignDownPy_pos _ _ this, alignUpPy_pos _ _ this]
    simp only [hax]

/-- corollary: the public call keeps every finite point that lies inside the image -/
theorem from_points_public_contains (pts : List (Coord × Coord)) (shape : ShapeSpelling) (ny nx : Int)
    (padding : Rat) (align : Option Rat) (hs : shapeOf shape = .ok (ny, nx))
    (ha : ∀ a, align = some a → 0 < pyInt a) (hp : 0 ≤ pyInt padding) (x y : Rat)
    (hmem : (Coord.fin x, Coord.fin y) ∈ pts) (hx : 0 ≤ x ∧ x ≤ nx) (hy : 0 ≤ y ∧ y ≤ ny) :
    ∃ ys xs, fromPointsPublic pts true shape padding align = .ok (ys, xs) ∧
      ((xs.start : Rat) ≤ max 0 (x - pyInt padding) ∧ min (nx : Rat) (x + pyInt padding) ≤ xs.stop) ∧
      ((ys.start : Rat) ≤ max 0 (y - pyInt padding) ∧ min (ny : Rat) (y + pyInt padding) ≤ ys.stop) := by
  refine ⟨_, _, from_points_public_eq pts shape ny nx padding align hs ha, ?_⟩
  have hal : ∀ a, align.map pyInt = some a → 0 < a := by
    intro a h
    cases align with
    | none => simp at h
    | some q => simp only [Option.map_some, Option.some.injEq] at h; rw [← h]; exact ha q rfl
  exact from_points_contains pts ny nx (pyInt padding) (align.map pyInt) x y hmem hx hy hp hal

/-- `align` that truncates to 0 (`0`, `0.5`, `-0.3`) is rejected with `ZeroDivisionError` as soon as there is a finite
point; without finite points the early return wins -/
theorem from_points_public_align_zero (pts : List (Coord × Coord)) (shape : ShapeSpelling) (ny nx : Int)
    (padding a : Rat) (hs : shapeOf shape = .ok (ny, nx)) (ha : pyInt a = 0) :
    fromPointsPublic pts true shape padding (some a)
      = (if finitePts pts = [] then .ok (⟨0, 0⟩, ⟨0, 0⟩) else .error .zeroDiv) := by
  simp only [fromPointsPublic, hs, Bool.not_true, Bool.false_eq_true, if_false, Option.map_some, ha]
  cases hp : finitePts pts with
  | nil => simp
  | cons p ps => simp [fromPointsAxisPy, alignDownPy]

/-- **a negative `align` is accepted and turns the envelope inside out** (Python's `%` takes the sign of the divisor, so
`align_down` rounds up): `roi_from_points([[5,5],[9,7]], (20,20), align=-4)` answers `(8:4, 8:4)`, which contains neither
point.  The containment theorems need `0 < align`; replayed on the real code. -/
theorem from_points_negative_align_cex :
    fromPointsPublic [(.fin 5, .fin 5), (.fin 9, .fin 7)] true (.seq [20, 20]) 0 (some (-4))
      = .ok (⟨8, 4⟩, ⟨8, 4⟩) := by decide

/-- a shape sequence must have exactly two entries; a bare number is not a shape -/
theorem from_points_public_bad_shape (pts : List (Coord × Coord)) (vals : List Rat) (padding : Rat)
    (align : Option Rat) (ok : Bool) (h : vals.length ≠ 2) :
    fromPointsPublic pts ok (.seq vals) padding align = .error .valueError ∧
    fromPointsPublic pts ok .other padding align = .error .valueError := by
  refine ⟨?_, rfl⟩
  match vals, h with
  | [], _ => rfl
  | [_], _ => rfl
  | [_, _], h => simp at h
  | _ :: _ :: _ :: _, _ => rfl

/-! ### non-vacuity -/

example : shapeOf (.seq [20, 30]) = .ok (20, 30) ∧ (∀ a, (some (4 : Rat)) = some a → 0 < pyInt a) := by
  refine ⟨by decide, ?_⟩
  intro a h; cases h; decide

example : roiIntersect3Arg [.slc (some 2) (some 9) none, .idx 3] [.slc (some 5) (some 12) (some 2), .slc none (some 4) none]
    = .ok ([⟨3, 7⟩, ⟨0, 1⟩], [⟨0, 4⟩, ⟨3, 4⟩], [⟨5, 9⟩, ⟨3, 4⟩]) := by decide

end OdcGeo.C17

namespace OdcGeo.C17

/-! ### `norm_slice_2d` -/

/-- an `Index2d(y, x)` / `XY` index and the tuple `(y, x)` mean the same -/
theorem norm_slice_2d_index_eq_tuple (y x : Int) (shape : List Int) :
    normSlice2d (.index2d y x) shape = normSlice2d (.tuple [.idx y, .idx x]) shape := rfl

/-- **an in-range 2-D integer index (negative = from the end) normalises to the 1×1 region holding exactly that
element** on each axis -/
theorem norm_slice_2d_selects_the_element (y x ny nx : Int) (hy : -ny ≤ y ∧ y < ny) (hx : -nx ≤ x ∧ x < nx) (i : Int) :
    ∃ ry rx, normSlice2d (.index2d y x) [ny, nx] = .ok [ry, rx] ∧
      ry.stop = ry.start + 1 ∧ rx.stop = rx.start + 1 ∧
      (PySlice.Sel ny ry.ns.toPIdx i ↔ PySlice.Sel ny (.idx y) i) ∧
      (PySlice.Sel nx rx.ns.toPIdx i ↔ PySlice.Sel nx (.idx x) i) := by
  refine ⟨normSliceS (.idx y) ny, normSliceS (.idx x) nx, rfl, ?_, ?_, ?_, ?_⟩
  · simp [normSliceS, SIdx.toPIdx, normSlice]
  · simp [normSliceS, SIdx.toPIdx, normSlice]
  · exact normalise_int_index ny y hy i
  · exact normalise_int_index nx x hx i

theorem norm_slice_2d_other (shape : List Int) : normSlice2d .other shape = .error .valueError := rfl

example : normSlice2d (.index2d (-1) 2) [4, 5] = .ok [⟨3, 4, none⟩, ⟨2, 3, none⟩] := by decide

end OdcGeo.C17
