/-
C20 — non-finite floats (`nan`, `±inf`) through `snap_scale`, `snap_grid`, `snap_affine` and the resolution branch of
`from_bbox` (`Model/C20NonFinite.lean`): on finite arguments the extended model IS the finite model of `Model/C20.lean`
(so every theorem of `Props/C20.lean` / `Props/C08.lean` applies to it), a non-finite interval end is always rejected
(never a grid), a non-finite scale passes through `snap_scale` untouched, and what HEAD does with a `nan` rotation term.
-/
import OdcGeo.Model.C20NonFinite
import OdcGeo.Props.C20

namespace OdcGeo.C20
open NF

/-! ## helpers -/

theorem nf_lt_fin (a b : Rat) : NF.lt (.fin a) (.fin b) = decide (a < b) := rfl
theorem nf_le_fin (a b : Rat) : NF.le (.fin a) (.fin b) = decide (a ≤ b) := rfl
theorem nf_sub_fin (a b : Rat) : NF.sub (.fin a) (.fin b) = .fin (a - b) := by
  simp [NF.sub, NF.neg, NF.add, sub_eq_add_neg]
theorem nf_add_fin (a b : Rat) : NF.add (.fin a) (.fin b) = .fin (a + b) := rfl
theorem nf_mul_fin (a b : Rat) : NF.mul (.fin a) (.fin b) = .fin (a * b) := rfl
theorem nf_neg_fin (a : Rat) : NF.neg (.fin a) = .fin (-a) := rfl
theorem nf_abs_fin (a : Rat) : NF.abs (.fin a) = .fin (rabs a) := rfl
theorem nf_div_fin (a b : Rat) (hb : b ≠ 0) : NF.div (.fin a) (.fin b) = .ok (.fin (a / b)) := by
  simp [NF.div, hb]
theorem nf_div_zero (a : XF) : NF.div a (.fin 0) = .error .zeroDiv := by
  simp [NF.div]

/-- On finite arguments the extended `maybe_int` is the finite one. -/
theorem nf_maybeIntT_fin (q tol : Rat) : valOf (maybeIntT (.fin q) (.fin tol)) = .fin (maybeInt q tol) := by
  unfold maybeIntT maybeInt maybeInt?
  simp only [nf_lt_fin]
  by_cases h : rabs (splitFloat q).2 < tol
  · simp [h, valOf, ofInt]
  · simp [h, valOf]

/-! ## `snap_grid` -/

theorem nf_snapEdgePos_fin (x0 x1 res tol : Rat) :
    snapEdgePosX (.fin x0) (.fin x1) (.fin res) (.fin tol) =
      NF.liftRes ((snapEdgePos x0 x1 res tol).map fun r => (XF.fin r.1, r.2)) := by
  unfold snapEdgePosX snapEdgePos
  simp only [nf_lt_fin, nf_le_fin]
  by_cases hr : 0 < res
  · by_cases hx : x0 ≤ x1
    · have hr' : res ≠ 0 := ne_of_gt hr
      simp [hr, hx, nf_div_fin _ _ hr', nf_maybeIntT_fin, floorX, ceilX, bind, Except.bind, pure, Except.pure,
        NF.liftRes, Except.map, nf_mul_fin, ofInt]
    · simp [hr, hx, NF.liftRes, Except.map, ofErr]
  · simp [hr, NF.liftRes, Except.map, ofErr]

theorem nf_snapEdge_fin (x0 x1 res tol : Rat) :
    snapEdgeX (.fin x0) (.fin x1) (.fin res) (.fin tol) =
      NF.liftRes ((snapEdge x0 x1 res tol).map fun r => (XF.fin r.1, r.2)) := by
  unfold snapEdgeX snapEdge
  simp only [nf_lt_fin, nf_le_fin, nf_neg_fin, nf_snapEdgePos_fin]
  by_cases hx : x0 ≤ x1
  · by_cases hr : 0 < res
    · simp [hx, hr]
    · simp only [hx, hr, not_true_eq_false, decide_true, decide_false, if_false, Bool.false_eq_true]
      cases snapEdgePos x0 x1 (-res) tol with
      | error e => simp [NF.liftRes, Except.map, bind, Except.bind]
      | ok r =>
        simp [NF.liftRes, Except.map, bind, Except.bind, pure, Except.pure, nf_add_fin, nf_mul_fin, ofInt]
  · simp [hx, NF.liftRes, Except.map, ofErr]

/-- **On finite arguments the extended `snap_grid` is the finite model** (so `snap_grid_cover`, `_minimal`,
`_aligned`, … of `Props/C20.lean` hold for it verbatim). -/
theorem snap_grid_x_finite (x0 x1 res tol : Rat) (off : Option Rat) :
    snapGridX (.fin x0) (.fin x1) (.fin res) (off.map XF.fin) (.fin tol) =
      NF.liftRes ((snapGrid x0 x1 res off tol).map fun r => (XF.fin r.1, r.2)) := by
  cases off with
  | none =>
    unfold snapGridX snapGrid
    simp only [Option.map_none, nf_lt_fin, nf_sub_fin, nf_neg_fin]
    by_cases hr : 0 < res
    · have hr' : res ≠ 0 := ne_of_gt hr
      simp [hr, nf_div_fin _ _ hr', nf_maybeIntT_fin, ceilX, bind, Except.bind, pure, Except.pure, NF.liftRes, Except.map]
    · by_cases h0 : res = 0
      · subst h0
        simp [nf_div_zero, bind, Except.bind, NF.liftRes, Except.map, ofErr]
      · have hr' : -res ≠ 0 := neg_ne_zero.mpr h0
        simp [hr, h0, nf_div_fin _ _ hr', nf_maybeIntT_fin, ceilX, bind, Except.bind, pure, Except.pure, NF.liftRes,
          Except.map]
  | some op =>
    unfold snapGridX snapGrid
    simp only [Option.map_some, nf_lt_fin, nf_le_fin, nf_abs_fin, nf_mul_fin, nf_sub_fin, nf_snapEdge_fin]
    by_cases h : 0 ≤ op ∧ op < 1
    · simp only [h.1, h.2, decide_true, Bool.and_self, not_true_eq_false, if_false, and_self]
      cases snapEdge (x0 - op * rabs res) (x1 - op * rabs res) res tol with
      | error e => simp [NF.liftRes, Except.map, bind, Except.bind]
      | ok r => simp [NF.liftRes, Except.map, bind, Except.bind, pure, Except.pure, nf_add_fin]
    · have h' : ¬ ((decide (0 ≤ op) && decide (op < 1)) = true) := by simpa using h
      simp [h, h', NF.liftRes, Except.map, ofErr]

theorem nf_neg_nonfin {a : XF} (h : isFinite a = false) : isFinite (NF.neg a) = false := by
  cases a <;> simp_all [NF.neg, isFinite]
theorem nf_add_nonfin_left {a : XF} (b : XF) (h : isFinite a = false) : isFinite (NF.add a b) = false := by
  cases a <;> cases b <;> simp_all [NF.add, isFinite]
theorem nf_add_nonfin_right (a : XF) {b : XF} (h : isFinite b = false) : isFinite (NF.add a b) = false := by
  cases a <;> cases b <;> simp_all [NF.add, isFinite]
theorem nf_sub_nonfin_left {a : XF} (b : XF) (h : isFinite a = false) : isFinite (NF.sub a b) = false :=
  nf_add_nonfin_left _ h
theorem nf_sub_nonfin_right (a : XF) {b : XF} (h : isFinite b = false) : isFinite (NF.sub a b) = false :=
  nf_add_nonfin_right _ (nf_neg_nonfin h)

theorem nf_infSigned_nonfin {d : Rat} (hd : d ≠ 0) : isFinite (infSigned d) = false := by
  unfold infSigned
  rw [if_neg hd]
  split <;> rfl

/-- dividing a non-finite float: an exception or a non-finite quotient -/
theorem nf_div_nonfin {a : XF} (b : XF) (h : isFinite a = false) :
    (∃ e, NF.div a b = .error e) ∨ ∃ q, NF.div a b = .ok q ∧ isFinite q = false := by
  cases b with
  | nan => exact Or.inr ⟨.nan, rfl, rfl⟩
  | pinf =>
    cases a with
    | fin n => simp [isFinite] at h
    | _ => exact Or.inr ⟨.nan, rfl, rfl⟩
  | ninf =>
    cases a with
    | fin n => simp [isFinite] at h
    | _ => exact Or.inr ⟨.nan, rfl, rfl⟩
  | fin d =>
    by_cases hd : d = 0
    · exact Or.inl ⟨.zeroDiv, by simp [NF.div, hd]⟩
    · cases a with
      | fin n => simp [isFinite] at h
      | nan => exact Or.inr ⟨.nan, by simp [NF.div, hd], rfl⟩
      | pinf => exact Or.inr ⟨infSigned d, by simp [NF.div, hd], nf_infSigned_nonfin hd⟩
      | ninf => exact Or.inr ⟨infSigned (-d), by simp [NF.div, hd], nf_infSigned_nonfin (neg_ne_zero.mpr hd)⟩

theorem nf_ceil_nonfin {q : XF} (tol : XF) (h : isFinite q = false) : ∃ e, ceilX (valOf (maybeIntT q tol)) = .error e := by
  cases q with
  | fin n => simp [isFinite] at h
  | _ => exact ⟨_, rfl⟩
theorem nf_floor_nonfin {q : XF} (tol : XF) (h : isFinite q = false) : ∃ e, floorX (valOf (maybeIntT q tol)) = .error e := by
  cases q with
  | fin n => simp [isFinite] at h
  | _ => exact ⟨_, rfl⟩

/-- quotient step followed by `ceil`: raises for a non-finite numerator -/
theorem nf_div_ceil_nonfin {a : XF} (b tol : XF) (h : isFinite a = false) {α : Type} (k : Int → NRes α) :
    ∃ e, (NF.div a b >>= fun q => ceilX (valOf (maybeIntT q tol)) >>= k) = .error e := by
  rcases nf_div_nonfin b h with ⟨e, he⟩ | ⟨q, hq, hqf⟩
  · exact ⟨e, by rw [he]; rfl⟩
  · obtain ⟨e, he⟩ := nf_ceil_nonfin tol hqf
    exact ⟨e, by rw [hq]; simp only [bind, Except.bind]; rw [he]⟩

theorem nf_div_floor_nonfin {a : XF} (b tol : XF) (h : isFinite a = false) {α : Type} (k : Int → NRes α) :
    ∃ e, (NF.div a b >>= fun q => floorX (valOf (maybeIntT q tol)) >>= k) = .error e := by
  rcases nf_div_nonfin b h with ⟨e, he⟩ | ⟨q, hq, hqf⟩
  · exact ⟨e, by rw [he]; rfl⟩
  · obtain ⟨e, he⟩ := nf_floor_nonfin tol hqf
    exact ⟨e, by rw [hq]; simp only [bind, Except.bind]; rw [he]⟩

theorem nf_snapEdgePos_nonfin (a b res tol : XF) (h : isFinite a = false ∨ isFinite b = false) :
    ∃ e, snapEdgePosX a b res tol = .error e := by
  unfold snapEdgePosX
  split
  · exact ⟨_, rfl⟩
  · split
    · exact ⟨_, rfl⟩
    · by_cases ha : isFinite a = false
      · exact nf_div_floor_nonfin res tol ha _
      · -- `a` finite: the first two steps may succeed, the quotient of `b` cannot
        have hb : isFinite b = false := h.resolve_left ha
        cases h0 : NF.div a res with
        | error e => exact ⟨e, by simp [bind, Except.bind]⟩
        | ok q0 =>
          cases h1 : floorX (valOf (maybeIntT q0 tol)) with
          | error e => exact ⟨e, by simp [bind, Except.bind, h1]⟩
          | ok i0 =>
            obtain ⟨e, he⟩ := nf_div_ceil_nonfin res tol hb
              (fun i1 => (pure (NF.mul (ofInt i0) res, max 1 (i1 - i0)) : NRes (XF × Int)))
            exact ⟨e, by simpa [bind, Except.bind, h1] using he⟩

theorem nf_snapEdge_nonfin (a b res tol : XF) (h : isFinite a = false ∨ isFinite b = false) :
    ∃ e, snapEdgeX a b res tol = .error e := by
  unfold snapEdgeX
  split
  · exact ⟨_, rfl⟩
  · split
    · exact nf_snapEdgePos_nonfin a b res tol h
    · obtain ⟨e, he⟩ := nf_snapEdgePos_nonfin a b (NF.neg res) tol h
      exact ⟨e, by rw [he]; rfl⟩

/-- **A non-finite interval end is never turned into a grid**: whatever the resolution, anchor fraction and tolerance
(finite or not), `snap_grid` raises when `x0` or `x1` is `nan` or `±inf`. -/
theorem snap_grid_x_nonfinite_rejected (x0 x1 res : XF) (off : Option XF) (tol : XF)
    (h : isFinite x0 = false ∨ isFinite x1 = false) : ∃ e, snapGridX x0 x1 res off tol = .error e := by
  have hsub : isFinite (NF.sub x1 x0) = false := by
    rcases h with h | h
    · exact nf_sub_nonfin_right _ h
    · exact nf_sub_nonfin_left _ h
  cases off with
  | none =>
    unfold snapGridX
    simp only
    split
    · exact nf_div_ceil_nonfin res tol hsub _
    · exact nf_div_ceil_nonfin (NF.neg res) tol hsub _
  | some op =>
    unfold snapGridX
    simp only
    split
    · exact ⟨_, rfl⟩
    · have h' : isFinite (NF.sub x0 (NF.mul op (NF.abs res))) = false ∨
          isFinite (NF.sub x1 (NF.mul op (NF.abs res))) = false := by
        rcases h with h | h
        · exact Or.inl (nf_sub_nonfin_left _ h)
        · exact Or.inr (nf_sub_nonfin_left _ h)
      obtain ⟨e, he⟩ := nf_snapEdge_nonfin _ _ res tol h'
      exact ⟨e, by rw [he]; rfl⟩

/-- A `nan` / infinite anchor fraction fails the `0 <= off_pix < 1` assertion. -/
theorem snap_grid_x_nonfinite_anchor_rejected (x0 x1 res op tol : XF) (h : isFinite op = false) :
    snapGridX x0 x1 res (some op) tol = .error .assertion := by
  cases op with
  | fin q => simp [isFinite] at h
  | pinf => simp [snapGridX, NF.le, NF.lt]
  | ninf => simp [snapGridX, NF.le, NF.lt]
  | nan => simp [snapGridX, NF.le, NF.lt]

/-! ## `snap_scale`, `snap_affine` -/

/-- **A non-finite scale passes through `snap_scale` untouched**, whatever the tolerance (finite or not). -/
theorem snap_scale_x_nonfinite_passthrough (s tol : XF) (h : isFinite s = false) :
    snapScaleX s tol = .ok (.inr s) := by
  cases s with
  | fin q => simp [isFinite] at h
  | pinf =>
    cases tol <;>
      simp [snapScaleX, NF.sub, NF.neg, NF.add, NF.abs, NF.le, NF.lt, NF.div, maybeIntT, bind, Except.bind, pure,
        Except.pure]
  | ninf =>
    cases tol <;>
      simp [snapScaleX, NF.sub, NF.neg, NF.add, NF.abs, NF.le, NF.lt, NF.div, maybeIntT, bind, Except.bind, pure,
        Except.pure]
  | nan =>
    cases tol <;>
      simp [snapScaleX, NF.sub, NF.neg, NF.add, NF.abs, NF.le, NF.lt, NF.div, maybeIntT, bind, Except.bind, pure,
        Except.pure]

/-- **On finite arguments the extended `snap_scale` is the finite model.** -/
theorem snap_scale_x_finite (s tol : Rat) :
    (snapScaleX (.fin s) (.fin tol)).map valOf = NF.liftRes ((snapScale s tol).map XF.fin) := by
  unfold snapScaleX snapScale
  simp only [nf_sub_fin, nf_abs_fin, nf_le_fin, nf_lt_fin]
  by_cases h1 : 1 - tol ≤ rabs s
  · simp [h1, Except.map, NF.liftRes, nf_maybeIntT_fin]
  · by_cases h2 : rabs s < tol
    · simp [h1, h2, Except.map, NF.liftRes, valOf]
    · by_cases h0 : s = 0
      · subst h0
        simp [h1, h2, nf_div_zero, bind, Except.bind, Except.map, NF.liftRes, ofErr]
      · simp only [h1, h2, h0, ge_iff_le, decide_false, Bool.false_eq_true, if_false, nf_div_fin _ _ h0, bind,
          Except.bind]
        unfold maybeIntT maybeInt?
        simp only [nf_lt_fin, one_div]
        by_cases h3 : rabs (splitFloat s⁻¹).2 < tol
        · by_cases hk : trunc (splitFloat s⁻¹).1 = 0
          · simp [h3, hk, Except.map, NF.liftRes, ofErr]
          · simp [h3, hk, Except.map, NF.liftRes, valOf, pure, Except.pure]
        · simp [h3, Except.map, NF.liftRes, valOf, pure, Except.pure]

/-- **What HEAD does with a `nan` rotation / shear term: it is silently replaced by `0`** (`abs(nan) > tol` is false, so
the matrix counts as unrotated and is rebuilt with zero off-diagonal terms) — an observation about non-finite input,
outside the property's quantifier (finite floats); replayed by the correspondence. -/
theorem snap_affine_x_nan_rotation_dropped :
    snapAffineX ⟨.fin 1, .nan, .fin 1, .fin 0, .fin 1, .fin 1⟩ (.fin (1 / 1000)) (.fin (1 / 1000000)) (.fin (1 / 100000000)) =
      .ok ⟨.fin 1, .fin 0, .fin 1, .fin 0, .fin 1, .fin 1⟩ := by decide +kernel

/-- An infinite rotation / shear term, by contrast, counts as rotation: the matrix is returned unchanged. -/
theorem snap_affine_x_inf_rotation_untouched (A : AffX) (ttol stol : XF) (tol : Rat)
    (h : A.b = .pinf ∨ A.b = .ninf ∨ A.d = .pinf ∨ A.d = .ninf) : snapAffineX A ttol stol (.fin tol) = .ok A := by
  unfold snapAffineX
  rcases h with h | h | h | h <;> simp [h, NF.abs, NF.lt]

/-! ## non-vacuity -/

example : snapGridX (.fin 0) .pinf (.fin 1) (some (.fin 0)) (.fin (1 / 100)) = .error .overflow := by decide +kernel
example : snapGridX .nan (.fin 1) (.fin 1) none (.fin (1 / 100)) = .error .valueError := by decide +kernel
example : snapGridX (.fin 0) (.fin 1) .pinf none (.fin (1 / 100)) = .ok (.fin 0, 1) := by decide +kernel
example : snapScaleX (.fin (3 / 10)) .pinf = .ok (.inl 0) := by decide +kernel

end OdcGeo.C20
