/-
C19 — value objects: equality, hashing, pickling, dask tokens and caches are coherent.

Property theorems only.  Part (a): CRS caches over a heap with id reuse; part (b): the value
types.  The invariant proof behind `transformer_correct` lives in `Lemmas/C19a.lean`.
-/
import OdcGeo.Model.C19
import OdcGeo.Lemmas.C19a
import OdcGeo.Lemmas.C19b
import OdcGeo.Lemmas.C19c
import OdcGeo.Model.C04
import OdcGeo.Model.C14
import Mathlib.Tactic.Linarith
import Mathlib.Algebra.Order.Field.Rat

namespace OdcGeo.C19

/-! ## Part (a) — caches -/

/-- **Transformer cache.**  After *any* history of real operations — constructions through
every kind of spec, copies, pickles, `del`, garbage collections, earlier transformer
requests, and every possible reuse of freed object ids by the allocator (the `pick`
arguments) — the transformer returned for `(a, b)` converts from the system of `a` to the
system of `b`. -/
theorem transformer_correct (W : World) (h : List Op) (hreal : ∀ op ∈ h, op.real = true)
    (a b : Nat) (xy : Bool) (ca cb : CrsObj)
    (ha : assoc a (run W h).1.vars = some ca) (hb : assoc b (run W h).1.vars = some cb) :
    (step W (run W h).1 (.transformer a b xy)).2 = .tr ca.info.sys cb.info.sys :=
  transformer_correct_aux W h hreal a b xy ca cb ha hb

/-- The invariant that carries it: the pyproj object of every live `CRS` instance is alive
with the attributes the instance believes it has, and is pinned by an entry of
`_crs_cache` (so its id can never be handed out again while a transformer key mentions it). -/
theorem cache_pins_every_crs (W : World) (h : List Op) (hreal : ∀ op ∈ h, op.real = true)
    (v : Nat) (c : CrsObj) (hv : assoc v (run W h).1.vars = some c) :
    (c.obj, c.info) ∈ (run W h).1.heap ∧ ∃ ke ∈ (run W h).1.cache, ke.2.obj = c.obj :=
  vars_pinned W h hreal v c hv

/-- Two live instances holding the same object id describe the same pyproj object. -/
theorem same_id_same_object (W : World) (h : List Op) (hreal : ∀ op ∈ h, op.real = true)
    (a b : Nat) (ca cb : CrsObj)
    (ha : assoc a (run W h).1.vars = some ca) (hb : assoc b (run W h).1.vars = some cb)
    (hab : ca.obj = cb.obj) : ca.info = cb.info :=
  vars_same_obj W h hreal a b ca cb ha hb hab

/-- **Transformer cache invariant.**  After any history of real operations every entry of
the transformer cache is keyed on two pyproj objects that are still alive and holds a
transformer between exactly the systems of those two objects — this is what stays true
while the entries of `_crs_cache` are immortal (the C19-8 / C12-7 / C13-7 class of changes
breaks it; witness with eviction: `transformer_stale_if_evicting_cex`). -/
theorem tcache_sound (W : World) (h : List Op) (hreal : ∀ op ∈ h, op.real = true) :
    ∀ k r, (k, r) ∈ (run W h).1.tcache →
      ∃ p q, (k.1, p) ∈ (run W h).1.heap ∧ (k.2.1, q) ∈ (run W h).1.heap ∧
        p.sys = r.1 ∧ q.sys = r.2 :=
  tcache_sound_aux W h hreal

/-- **The system is never wrong**, whatever the history did to the cache — id reuse, and the
key collisions of finding F16/K5 included: if `CRS(spec)` succeeds, its pyproj object does
not denote a system other than the one pyproj assigns to the spec.  Only hypothesis: pyproj
gives one system to all spellings of one key (`EPSG:n` in any letter case, the integer). -/
theorem construct_sys_sound (W : World) (hW : KeySysCoherent W) (h : List Op)
    (hreal : ∀ op ∈ h, op.real = true) (spec : Spec) (pick : Nat) (c : CrsObj) :
    (construct W (run W h).1 spec pick).2 = .ok c →
      ∀ y, specSys W (run W h).1 spec = some y → y = c.info.sys :=
  construct_sys_sound_aux W hW h hreal spec pick c

/-- With acceptance coherence too (pyproj accepts all spellings of a key or none: without it
a spelling pyproj rejects can *succeed* by hitting an entry stored under another spelling,
since `_make_crs` does not ask pyproj on a hit) the result denotes exactly the system of
the spec. -/
theorem construct_sys_correct (W : World) (hW : KeySysCoherent W) (hA : KeyAcceptCoherent W)
    (h : List Op) (hreal : ∀ op ∈ h, op.real = true) (spec : Spec) (pick : Nat) (c : CrsObj) :
    (construct W (run W h).1 spec pick).2 = .ok c →
      specSys W (run W h).1 spec = some c.info.sys :=
  construct_sys_correct_aux W hW hA h hreal spec pick c

/-- why `construct_sys_correct` needs the acceptance hypothesis: in a world where pyproj
accepted `EPSG:1` but not `epsg:1`, `CRS("epsg:1")` succeeds after `CRS("EPSG:1")` (cache
hit, pyproj is not asked) although the spec denotes nothing.  (Real pyproj is coherent here;
the harness checks accept/reject of every spelling against the model on every run.) -/
theorem construct_accept_needed_cex :
    ∃ (W : World) (h : List Op) (spec : Spec) (c : CrsObj), KeySysCoherent W ∧
      (∀ op ∈ h, op.real = true) ∧ (construct W (run W h).1 spec 0).2 = .ok c ∧
      specSys W (run W h).1 spec = none :=
  accept_needed

/-- pyproj objects, dicts and `CRS` instances need no acceptance hypothesis -/
theorem construct_sys_correct_nontext (W : World) (hW : KeySysCoherent W) (h : List Op)
    (hreal : ∀ op ∈ h, op.real = true) (spec : Spec) (hs : spec.textual = false) (pick : Nat)
    (c : CrsObj) :
    (construct W (run W h).1 spec pick).2 = .ok c →
      specSys W (run W h).1 spec = some c.info.sys :=
  construct_sys_correct_nontext_aux W hW h hreal spec hs pick c

/-- `v = CRS(spec)`: when it prints `s`, `v` holds an instance with `str = s` whose pyproj
object denotes the system of the spec. -/
theorem mk_sys_correct (W : World) (hW : KeySysCoherent W) (hA : KeyAcceptCoherent W)
    (h : List Op) (hreal : ∀ op ∈ h, op.real = true) (v : Nat) (spec : Spec) (pick : Nat)
    (s : String) :
    (step W (run W h).1 (.mk v spec pick)).2 = .str s →
      ∃ c, assoc v (step W (run W h).1 (.mk v spec pick)).1.vars = some c ∧ c.str = s ∧
        specSys W (run W h).1 spec = some c.info.sys :=
  mk_sys_correct_aux W hW hA h hreal v spec pick s

/-- A three-system world used by the concrete witnesses below. -/
def demoWorld : World where
  fromText := fun t =>
    if t = "A" then some ⟨0, "A", "WA", none⟩
    else if t = "B" then some ⟨1, "B", "WB", none⟩
    else if t = "C" then some ⟨2, "C", "WC", none⟩
    else if t = "WA" then some ⟨0, "WA", "WA", none⟩
    else none
  fromEpsg := fun _ => none

/-- What breaks when `_crs_cache` stops pinning (bounded / LRU cache, the artificial `evict`
step): the entry for `A` is evicted, `A` is dropped and collected, its id is reused for `C`,
and the transformer cached under `(id A, id B)` is returned for `(C, B)`: it converts
system 0 → 1 where 2 → 1 was asked for. -/
theorem transformer_stale_if_evicting_cex :
    (run demoWorld [.mk 0 (.str "A") 0, .mk 1 (.str "B") 0, .transformer 0 1 true, .evict 0,
        .drop 0, .gc, .mk 2 (.str "C") 0, .transformer 2 1 true]).2.getLast? = some (.tr 0 1) := by
  decide +kernel

/-- **History freedom of the string form (hence hash and token), partial.**
Full statement: `str(CRS(spec))` is the same after every history.  It is *false* for the
code as it is (finding F16, witness below) because a pyproj object used as a cache key
collides with its own WKT text.  Proved part: for `int` / `str` specs, after every history
that puts no pyproj object into the cache (no `CRS(pyproj_obj)`, no `CRS(dict)`), the
result `(str, _epsg)` — or the error — is the one of a fresh interpreter, provided pyproj
is coherent on spellings that share a key (`EPSG:n` in any letter case, `n`).  The
hypothesis `ht` (`Op.textOnly`: no pyproj-object key ever enters `_crs_cache`) excludes
exactly the known finding (F16 / K5, witness `crs_str_history_dependent_cex`, harness key
`crs-str-history-dependent-pyproj-wkt-collision`).  What survives the collision is proved
at full strength in `construct_sys_correct`: the *system* of the result is never wrong. -/
theorem crs_str_history_free_partial (W : World) (hW : TextCoherent W) (h : List Op)
    (ht : ∀ op ∈ h, op.textOnly = true) (spec : Spec) (hs : spec.textual = true) (pick : Nat) :
    ((construct W (run W h).1 spec pick).2.map (fun c => (c.str, c.epsg))) = freshOut W spec :=
  crs_str_history_free_aux W hW h ht spec hs pick

/-- F16 witness: the same spec `CRS(wkt_text)` prints as the WKT in a fresh interpreter but
as `A` when `CRS(pyproj_object)` was constructed first (and the other way round). -/
theorem crs_str_history_dependent_cex :
    (run demoWorld [.mk 0 (.str "WA") 0]).2.getLast? = some (.str "WA") ∧
    (run demoWorld [.pnewText 0 "A" 0, .mk 1 (.pyproj 0) 0, .mk 0 (.str "WA") 0]).2.getLast?
      = some (.str "A") ∧
    (run demoWorld [.pnewText 0 "A" 0, .mk 1 (.pyproj 0) 0]).2.getLast? = some (.str "A") ∧
    (run demoWorld [.mk 0 (.str "WA") 0, .pnewText 0 "A" 0, .mk 1 (.pyproj 0) 0]).2.getLast?
      = some (.str "WA") := by
  decide +kernel


/-! ## CRS equality, hash, token, pickle -/

theorem crs_eq_refl (a : CrsObj) : crsEq a a = true := by simp [crsEq]

theorem crs_eq_symm (a b : CrsObj) : crsEq a b = crsEq b a := by
  have key : ∀ a b : CrsObj, crsEq a b = true → crsEq b a = true := by
    intro a b h
    rw [crsEq_iff] at h ⊢
    rcases h with h | ⟨h1, h2, h3⟩ | ⟨h1, h2, h3⟩
    · exact Or.inl h.symm
    · exact Or.inr (Or.inl ⟨fun e => h1 e.symm, ⟨h2.2, h2.1⟩, h3.symm⟩)
    · refine Or.inr (Or.inr ⟨fun e => h1 e.symm, fun e => h2 ⟨e.2, e.1⟩, ?_⟩)
      rcases h3 with h3 | h3
      · exact Or.inl h3.symm
      · exact Or.inr h3.symm
  cases hab : crsEq a b <;> cases hba : crsEq b a
  · rfl
  · have := key b a hba; simp_all
  · have := key a b hab; simp_all
  · rfl

/-- Under coherence (`Coherent`, defined in `Lemmas/C19b.lean`: same object ⇒ same system,
known EPSG codes agree exactly when the systems do, same string ⇒ same system) `==` is
"denotes the same coordinate system".  The EPSG clause is the one real CRSs can violate
(finding K4). -/
theorem crs_eq_iff_sys {D : CrsObj → Prop} (hD : Coherent D) (a b : CrsObj) (ha : D a) (hb : D b) :
    crsEq a b = true ↔ a.info.sys = b.info.sys := crs_eq_iff_sys_aux hD a b ha hb

/-- Transitivity under EPSG coherence (full statement without the hypothesis is false: K4). -/
theorem crs_eq_trans {D : CrsObj → Prop} (hD : Coherent D) (a b c : CrsObj)
    (ha : D a) (hb : D b) (hc : D c) (hab : crsEq a b = true) (hbc : crsEq b c = true) :
    crsEq a c = true := by
  rw [crs_eq_iff_sys hD _ _ ha hb] at hab
  rw [crs_eq_iff_sys hD _ _ hb hc] at hbc
  rw [crs_eq_iff_sys hD _ _ ha hc]
  exact hab.trans hbc

/-- K4 witness (replayed on the real code with `+proj=longlat +datum=WGS84 +no_defs`):
`y == x` by string, `x == c` because `x.epsg` was read and reports 4326, yet `y != c`;
and before `x.epsg` was read `x != c`. -/
theorem crs_eq_trans_cex :
    let p4 : PInfo := ⟨12, "P4", "W12", some 4326⟩
    let p0 : PInfo := ⟨0, "EPSG:4326", "W0", some 4326⟩
    let x : CrsObj := ⟨1, p4, "P4", some 4326⟩
    let x0 : CrsObj := ⟨1, p4, "P4", some 0⟩
    let y : CrsObj := ⟨2, p4, "P4", some 0⟩
    let c : CrsObj := ⟨0, p0, "EPSG:4326", some 4326⟩
    crsEq y x = true ∧ crsEq x c = true ∧ crsEq y c = false ∧ crsEq x0 c = false := by
  decide +kernel

/-- The same through the state machine: reading `.epsg` flips `x == c` (`E` stands for a
spelling of EPSG:4326 whose code is also found lazily). -/
def lossyWorld : World where
  fromText := fun t =>
    if t = "P4" then some ⟨12, "P4", "W12", some 4326⟩
    else if t = "E" then some ⟨0, "E", "W0", some 4326⟩ else none
  fromEpsg := fun _ => none

theorem crs_eq_depends_on_lazy_epsg_cex :
    (run lossyWorld [.mk 0 (.str "P4") 0, .mk 1 (.str "E") 0, .eq 0 1, .epsg 0, .epsg 1, .eq 0 1]).2
      = [.str "P4", .str "E", .bool false, .epsg (some 4326), .epsg (some 4326), .bool true] := by
  decide +kernel

/-- **Lossless equivalent specifications give equal objects**: two instances that denote the
same system compare equal, whatever spec each was built from (int, string in any letter
case, WKT2, PROJJSON, pyproj object, another CRS, pickled copy) and whatever the cache
held — provided the EPSG codes they know (if both know one) agree, which for the same
system is the determinism of `to_epsg`. -/
theorem crs_specs_equal (a b : CrsObj) (hsys : a.info.sys = b.info.sys)
    (hepsg : truthy a.epsg = true → truthy b.epsg = true → a.epsg = b.epsg) :
    crsEq a b = true := by
  rw [crsEq_iff]
  by_cases h1 : a.obj = b.obj
  · exact Or.inl h1
  · by_cases h2 : truthy a.epsg = true ∧ truthy b.epsg = true
    · exact Or.inr (Or.inl ⟨h1, h2, hepsg h2.1 h2.2⟩)
    · exact Or.inr (Or.inr ⟨h1, h2, Or.inr hsys⟩)

/-- **Code-less systems fall through to the text comparison.**  `_epsg` has three states —
`some 0` not looked up, `some n` a code, `none` looked up and there is none — and the
short-cut `if self._epsg and other._epsg` is about *truthiness*: when either side has no
code, looked up or not, the EPSG comparison is skipped and two distinct objects are equal
exactly when their strings are equal or pyproj says so.  In particular two different
code-less systems never become equal by reading `.epsg` on both (`none = none` is not an
agreement on a code). -/
theorem eq_codeless_falls_through_to_str (a b : CrsObj) (hobj : a.obj ≠ b.obj)
    (hc : a.epsg = none ∨ a.epsg = some 0 ∨ b.epsg = none ∨ b.epsg = some 0) :
    crsEq a b = (a.str == b.str || a.info.sys == b.info.sys) := by
  have ht : (truthy a.epsg && truthy b.epsg) = false := by
    rcases hc with h | h | h | h <;> simp [h, truthy]
  have ho : (a.obj == b.obj) = false := by simp [hobj]
  unfold crsEq
  rw [ho, ht]
  by_cases hs : a.str = b.str <;> simp [hs]

/-- the two looked-up-none instances of different systems and different strings stay unequal
(witness for the state the seeded change C19-12 gets wrong) -/
theorem eq_codeless_none_none_example :
    let a : CrsObj := ⟨0, ⟨20, "P1", "W1", none⟩, "P1", none⟩
    let b : CrsObj := ⟨1, ⟨21, "P2", "W2", none⟩, "P2", none⟩
    crsEq a b = false := by
  decide +kernel

/-- through the state machine: reading `.epsg` on both of two code-less systems changes
nothing about their equality -/
def codelessWorld : World where
  fromText := fun t =>
    if t = "P1" then some ⟨20, "P1", "W1", none⟩
    else if t = "P2" then some ⟨21, "P2", "W2", none⟩ else none
  fromEpsg := fun _ => none

theorem eq_codeless_stable_under_epsg_reads :
    (run codelessWorld [.mk 0 (.str "P1") 0, .mk 1 (.str "P2") 0, .eq 0 1, .epsg 0, .eq 0 1, .epsg 1,
        .eq 0 1, .eq 1 0]).2
      = [.str "P1", .str "P2", .bool false, .epsg none, .bool false, .epsg none, .bool false, .bool false] := by
  decide +kernel

/-- Equal spellings hash equally (for every string hash `H`).  Partial: the full statement
`crsEq a b = true → crsHash H a = crsHash H b` is false (K1, witness `crs_eq_hash_cex`,
replayed by the harness under key `crs-eq-hash-differs`); the hypothesis `a.str = b.str`
excludes exactly K1's input class — the same system spelled differently. -/
theorem crs_eq_hash_partial (H : String → Int) (a b : CrsObj) (hs : a.str = b.str) :
    crsHash H a = crsHash H b := by simp [crsHash, hs]

/-- K1 witness: `CRS("EPSG:4326") == CRS(wkt)` but the hashed strings differ, so any hash
that separates the two strings separates the two equal objects. -/
theorem crs_eq_hash_cex :
    let a : CrsObj := ⟨0, ⟨0, "EPSG:4326", "W0", some 4326⟩, "EPSG:4326", some 4326⟩
    let b : CrsObj := ⟨1, ⟨0, "W0", "W0", some 4326⟩, "W0", some 0⟩
    crsEq a b = true ∧ ∀ H : String → Int, H "EPSG:4326" ≠ H "W0" → crsHash H a ≠ crsHash H b := by
  refine ⟨by decide +kernel, ?_⟩
  intro H h
  simpa [crsHash] using h

/-- Unequal CRSs never share a dask token (under coherence). -/
theorem crs_neq_token {D : CrsObj → Prop} (hD : Coherent D) (a b : CrsObj) (ha : D a) (hb : D b)
    (hne : crsEq a b = false) : crsToken a ≠ crsToken b := by
  intro ht
  have hs : a.str = b.str := by simpa [crsToken] using ht
  have := (crs_eq_iff_sys hD a b ha hb).2 (hD.str_sys a b ha hb hs)
  simp [this] at hne

/-- A copy / pickled clone that kept the string form (`CRS(_str)`; that pyproj parses a
`_str` back to the same `_str` is checked by the correspondence, not proved) is equal to
the original and shares its hash and token. -/
theorem crs_pickle_eq {D : CrsObj → Prop} (hD : Coherent D) (H : String → Int) (c c' : CrsObj)
    (hc : D c) (hc' : D c') (hs : c'.str = c.str) :
    crsEq c c' = true ∧ crsToken c' = crsToken c ∧ crsHash H c' = crsHash H c := by
  refine ⟨?_, by simp [crsToken, hs], by simp [crsHash, hs]⟩
  exact (crs_eq_iff_sys hD c c' hc hc').2 (hD.str_sys c c' hc hc' hs.symm)

/-- `CRS(other_crs)` copies the three fields: identical in every respect. -/
theorem crs_copy_identical (W : World) (σ : State) (v pick : Nat) (c : CrsObj)
    (hv : assoc v σ.vars = some c) : (construct W σ (.crs v) pick).2 = .ok c := by
  simp [construct, hv]


/-! ## Part (b) — value types

Per type: `eq_equiv` (reflexive, symmetric, transitive), `eq_hash` where the type is
hashable, `neq_token` (unequal ⇒ different dask token), `clone` (copy / pickle round trip
keeps token and equality).  Types holding a CRS inherit the coherence hypothesis; numbers
are finite (`NaN` is outside the model). -/

/-! ### XY family -/

theorem XYv.eq_iff (a b : XYv) : a.eq b = true ↔ a.x.val = b.x.val ∧ a.y.val = b.y.val := by
  simp [XYv.eq, PyNum.eq_iff]

/-- equality ignores the class (`XY(1,2) == Index2d(1,2) == Shape2d(1,2)`) and is an equivalence -/
theorem XYv.eq_equiv :
    (∀ a : XYv, a.eq a = true) ∧ (∀ a b : XYv, a.eq b = true → b.eq a = true) ∧
    (∀ a b c : XYv, a.eq b = true → b.eq c = true → a.eq c = true) := by
  refine ⟨fun a => (XYv.eq_iff a a).2 ⟨rfl, rfl⟩, fun a b h => ?_, fun a b c h g => ?_⟩
  · have h := (XYv.eq_iff a b).1 h
    exact (XYv.eq_iff b a).2 ⟨h.1.symm, h.2.symm⟩
  · have h := (XYv.eq_iff a b).1 h
    have g := (XYv.eq_iff b c).1 g
    exact (XYv.eq_iff a c).2 ⟨h.1.trans g.1, h.2.trans g.2⟩

theorem XYv.eq_hash (a b : XYv) (ka kb : List HAtom) (h : a.eq b = true)
    (ha : a.hashKey = some ka) (hb : b.hashKey = some kb) : ka = kb := by
  rw [XYv.eq_iff] at h
  unfold XYv.hashKey at ha hb
  split at ha <;> split at hb <;> simp_all

theorem XYv.neq_token (a b : XYv) (h : a.eq b = false) : a.token ≠ b.token := by
  intro ht
  have : a.eq b = true := by
    rw [XYv.eq_iff]
    simp only [XYv.token, List.cons.injEq, Atom.num.injEq] at ht
    exact ⟨by rw [ht.2.1], by rw [ht.2.2.1]⟩
  simp [this] at h

theorem XYv.clone_coherent (a : XYv) :
    a.eq a.clone = true ∧ a.clone.token = a.token ∧ a.clone.hashKey = a.hashKey :=
  ⟨XYv.eq_equiv.1 a, rfl, rfl⟩

/-! ### BoundingBox -/

theorem BBox.eq_iff {D : CrsObj → Prop} (hD : Coherent D) (a b : BBox)
    (ha : OptD D a.crs) (hb : OptD D b.crs) :
    a.eq b = true ↔ a.crs.map (·.info.sys) = b.crs.map (·.info.sys) ∧
      a.l.val = b.l.val ∧ a.b.val = b.b.val ∧ a.r.val = b.r.val ∧ a.t.val = b.t.val := by
  simp [BBox.eq, PyNum.eq_iff, optCrsEq_iff hD a.crs b.crs ha hb, and_assoc]

theorem BBox.eq_equiv {D : CrsObj → Prop} (hD : Coherent D) :
    (∀ a : BBox, a.eq a = true) ∧
    (∀ a b : BBox, OptD D a.crs → OptD D b.crs → a.eq b = true → b.eq a = true) ∧
    (∀ a b c : BBox, OptD D a.crs → OptD D b.crs → OptD D c.crs →
      a.eq b = true → b.eq c = true → a.eq c = true) := by
  refine ⟨fun a => by simp [BBox.eq, PyNum.eq, optCrsEq_refl], ?_, ?_⟩
  · intro a b ha hb h
    rw [BBox.eq_iff hD _ _ ha hb] at h
    rw [BBox.eq_iff hD _ _ hb ha]
    exact ⟨h.1.symm, h.2.1.symm, h.2.2.1.symm, h.2.2.2.1.symm, h.2.2.2.2.symm⟩
  · intro a b c ha hb hc h g
    rw [BBox.eq_iff hD _ _ ha hb] at h
    rw [BBox.eq_iff hD _ _ hb hc] at g
    rw [BBox.eq_iff hD _ _ ha hc]
    exact ⟨h.1.trans g.1, h.2.1.trans g.2.1, h.2.2.1.trans g.2.2.1, h.2.2.2.1.trans g.2.2.2.1,
      h.2.2.2.2.trans g.2.2.2.2⟩

/-- Equal boxes hash equally **relative to** the hash coherence of their CRSs.  Partial: the
full statement is false only through K1 (witness `BBox.eq_hash_cex`); the hypothesis
`optCrsHash a.crs = optCrsHash b.crs` (same `_str`, or both `None`) excludes exactly that,
everything else that is hashed is covered. -/
theorem BBox.eq_hash_partial (a b : BBox) (h : a.eq b = true)
    (hH : optCrsHash a.crs = optCrsHash b.crs) : a.hashKey = b.hashKey := by
  simp only [BBox.eq, Bool.and_eq_true, PyNum.eq_iff] at h
  simp [BBox.hashKey, hH, h.2.1.1.1, h.2.1.1.2, h.2.1.2, h.2.2]

theorem BBox.neq_token {D : CrsObj → Prop} (hD : Coherent D) (a b : BBox)
    (ha : OptD D a.crs) (hb : OptD D b.crs) (h : a.eq b = false) : a.token ≠ b.token := by
  intro ht
  simp only [BBox.token, List.cons.injEq, Atom.num.injEq] at ht
  have hc := optCrsEq_of_pkl hD a.crs b.crs ha hb ht.2.1
  have : a.eq b = true := by
    simp [BBox.eq, PyNum.eq, hc, ht.2.2.1, ht.2.2.2.1, ht.2.2.2.2.1, ht.2.2.2.2.2.1]
  simp [this] at h

/-- pickle round trip: the clone's CRS is `CRS(_str)` with the same string form -/
theorem BBox.clone_coherent {D : CrsObj → Prop} (hD : Coherent D) (a : BBox) (c' : Option CrsObj)
    (ha : OptD D a.crs) (hc : OptD D c') (hs : optCrsPkl c' = optCrsPkl a.crs) :
    a.eq (a.clone c') = true ∧ (a.clone c').token = a.token := by
  refine ⟨?_, by simp [BBox.token, BBox.clone, hs]⟩
  simp [BBox.eq, BBox.clone, PyNum.eq, optCrsEq_of_pkl hD a.crs c' ha hc hs.symm]

/-! ### Geometry -/

theorem Geom.eq_iff {D : CrsObj → Prop} (hD : Coherent D) (a b : Geom)
    (ha : OptD D a.crs) (hb : OptD D b.crs) :
    a.eq b = true ↔ a.crs.map (·.info.sys) = b.crs.map (·.info.sys) ∧ a.gtype = b.gtype ∧
      a.layout = b.layout ∧ a.coords.map (·.val) = b.coords.map (·.val) := by
  simp [Geom.eq, numsEq_iff, optCrsEq_iff hD a.crs b.crs ha hb, and_assoc]

theorem Geom.eq_equiv {D : CrsObj → Prop} (hD : Coherent D) :
    (∀ a : Geom, a.eq a = true) ∧
    (∀ a b : Geom, OptD D a.crs → OptD D b.crs → a.eq b = true → b.eq a = true) ∧
    (∀ a b c : Geom, OptD D a.crs → OptD D b.crs → OptD D c.crs →
      a.eq b = true → b.eq c = true → a.eq c = true) := by
  refine ⟨fun a => by simp [Geom.eq, optCrsEq_refl, numsEq_iff], ?_, ?_⟩
  · intro a b ha hb h
    rw [Geom.eq_iff hD _ _ ha hb] at h
    rw [Geom.eq_iff hD _ _ hb ha]
    exact ⟨h.1.symm, h.2.1.symm, h.2.2.1.symm, h.2.2.2.symm⟩
  · intro a b c ha hb hc h g
    rw [Geom.eq_iff hD _ _ ha hb] at h
    rw [Geom.eq_iff hD _ _ hb hc] at g
    rw [Geom.eq_iff hD _ _ ha hc]
    exact ⟨h.1.trans g.1, h.2.1.trans g.2.1, h.2.2.1.trans g.2.2.1, h.2.2.2.trans g.2.2.2⟩

theorem Geom.neq_token {D : CrsObj → Prop} (hD : Coherent D) (a b : Geom)
    (ha : OptD D a.crs) (hb : OptD D b.crs) (h : a.eq b = false) : a.token ≠ b.token := by
  intro ht
  simp only [Geom.token, List.cons_append, List.nil_append, List.cons.injEq, Atom.txt.injEq,
    Atom.iarr.injEq] at ht
  have hc := optCrsEq_of_pkl hD a.crs b.crs ha hb ht.2.2.2.1
  have hco := map_num_inj _ _ ht.2.2.2.2
  have : a.eq b = true := by
    simp [Geom.eq, hc, ht.2.1, ht.2.2.1, hco, numsEq_iff]
  simp [this] at h

theorem Geom.clone_coherent {D : CrsObj → Prop} (hD : Coherent D) (a : Geom) (c' : Option CrsObj)
    (ha : OptD D a.crs) (hc : OptD D c') (hs : optCrsPkl c' = optCrsPkl a.crs) :
    a.eq (a.clone c') = true ∧ (a.clone c').token = a.token := by
  refine ⟨?_, by simp [Geom.token, Geom.clone, hs]⟩
  simp [Geom.eq, Geom.clone, numsEq_iff, optCrsEq_of_pkl hD a.crs c' ha hc hs.symm]

/-! ### GeoBox -/

theorem GBox.eq_iff {D : CrsObj → Prop} (hD : Coherent D) (a b : GBox)
    (ha : OptD D a.crs) (hb : OptD D b.crs) :
    a.eq b = true ↔ a.nx = b.nx ∧ a.ny = b.ny ∧ a.aff.map (·.val) = b.aff.map (·.val) ∧
      a.crs.map (·.info.sys) = b.crs.map (·.info.sys) := by
  simp [GBox.eq, numsEq_iff, optCrsEq_iff hD a.crs b.crs ha hb, and_assoc]

theorem GBox.eq_equiv {D : CrsObj → Prop} (hD : Coherent D) :
    (∀ a : GBox, a.eq a = true) ∧
    (∀ a b : GBox, OptD D a.crs → OptD D b.crs → a.eq b = true → b.eq a = true) ∧
    (∀ a b c : GBox, OptD D a.crs → OptD D b.crs → OptD D c.crs →
      a.eq b = true → b.eq c = true → a.eq c = true) := by
  refine ⟨fun a => by simp [GBox.eq, optCrsEq_refl, numsEq_iff], ?_, ?_⟩
  · intro a b ha hb h
    rw [GBox.eq_iff hD _ _ ha hb] at h
    rw [GBox.eq_iff hD _ _ hb ha]
    exact ⟨h.1.symm, h.2.1.symm, h.2.2.1.symm, h.2.2.2.symm⟩
  · intro a b c ha hb hc h g
    rw [GBox.eq_iff hD _ _ ha hb] at h
    rw [GBox.eq_iff hD _ _ hb hc] at g
    rw [GBox.eq_iff hD _ _ ha hc]
    exact ⟨h.1.trans g.1, h.2.1.trans g.2.1, h.2.2.1.trans g.2.2.1, h.2.2.2.trans g.2.2.2⟩

/-- relative to CRS hash coherence, as for BoundingBox.  Partial only through K1 (witness
`GBox.eq_hash_cex`), excluded by the hypothesis `optCrsHash a.crs = optCrsHash b.crs`. -/
theorem GBox.eq_hash_partial (a b : GBox) (h : a.eq b = true)
    (hH : optCrsHash a.crs = optCrsHash b.crs) : a.hashKey = b.hashKey := by
  simp only [GBox.eq, Bool.and_eq_true, numsEq_iff, beq_iff_eq] at h
  simp [GBox.hashKey, hH, h.1.1.1, h.1.1.2, map_hv_congr h.1.2]

theorem GBox.tokenTail_inj {D : CrsObj → Prop} (hD : Coherent D) (a b : GBox)
    (ha : OptD D a.crs) (hb : OptD D b.crs) (ht : a.tokenTail = b.tokenTail) : a.eq b = true := by
  simp only [GBox.tokenTail, List.cons_append, List.nil_append, List.cons.injEq, Atom.txt.injEq,
    Atom.int.injEq] at ht
  have hc := optCrsEq_of_str hD a.crs b.crs ha hb ht.1
  have hco := map_num_inj _ _ ht.2.2.2
  simp [GBox.eq, hc, ht.2.1, ht.2.2.1, hco, numsEq_iff]

theorem GBox.neq_token {D : CrsObj → Prop} (hD : Coherent D) (a b : GBox)
    (ha : OptD D a.crs) (hb : OptD D b.crs) (h : a.eq b = false) : a.token ≠ b.token := by
  intro ht
  have := GBox.tokenTail_inj hD a b ha hb (by simpa [GBox.token] using ht)
  simp [this] at h

theorem GBox.clone_coherent {D : CrsObj → Prop} (hD : Coherent D) (a : GBox) (c' : Option CrsObj)
    (ha : OptD D a.crs) (hc : OptD D c') (hs : optCrsStr c' = optCrsStr a.crs) :
    a.eq (a.clone c') = true ∧ (a.clone c').token = a.token ∧
      (optCrsHash c' = optCrsHash a.crs → (a.clone c').hashKey = a.hashKey) := by
  refine ⟨?_, by simp [GBox.token, GBox.tokenTail, GBox.clone, hs], ?_⟩
  · simp [GBox.eq, GBox.clone, numsEq_iff, optCrsEq_of_str hD a.crs c' ha hc hs.symm]
  · intro hh; simp [GBox.hashKey, GBox.clone, hh]

/-! ### GCPGeoBox -/

theorem GCPBox.eq_iff (a b : GCPBox) :
    a.eq b = true ↔ a.nx = b.nx ∧ a.ny = b.ny ∧ a.mapping.ident = b.mapping.ident ∧
      a.aff.map (·.val) = b.aff.map (·.val) := by
  simp [GCPBox.eq, numsEq_iff, and_assoc]

theorem GCPBox.eq_equiv :
    (∀ a : GCPBox, a.eq a = true) ∧ (∀ a b : GCPBox, a.eq b = true → b.eq a = true) ∧
    (∀ a b c : GCPBox, a.eq b = true → b.eq c = true → a.eq c = true) := by
  refine ⟨fun a => (GCPBox.eq_iff a a).2 ⟨rfl, rfl, rfl, rfl⟩, fun a b h => ?_, fun a b c h g => ?_⟩
  · have h := (GCPBox.eq_iff a b).1 h
    exact (GCPBox.eq_iff b a).2 ⟨h.1.symm, h.2.1.symm, h.2.2.1.symm, h.2.2.2.symm⟩
  · have h := (GCPBox.eq_iff a b).1 h
    have g := (GCPBox.eq_iff b c).1 g
    exact (GCPBox.eq_iff a c).2 ⟨h.1.trans g.1, h.2.1.trans g.2.1, h.2.2.1.trans g.2.2.1, h.2.2.2.trans g.2.2.2⟩

/-- equal ⇒ same mapping *object* ⇒ same hash (an identity names one object) -/
theorem GCPBox.eq_hash (a b : GCPBox) (h : a.eq b = true)
    (hwf : a.mapping.ident = b.mapping.ident → a.mapping = b.mapping) : a.hashKey = b.hashKey := by
  rw [GCPBox.eq_iff] at h
  simp [GCPBox.hashKey, hwf h.2.2.1, h.1, h.2.1, map_hv_congr h.2.2.2]

/-- K2 witness: the pickled clone gets a new mapping object, so it is **not** equal to the
original (`pickle_eq` fails) although it shares the dask token (`neq_token` fails too);
a shallow copy shares the mapping and is equal. -/
theorem GCPBox.pickle_eq_cex :
    let g : GCPBox := ⟨3, 4, [], ⟨0, none, [], []⟩⟩
    g.eq (g.clone 1 none) = false ∧ (g.clone 1 none).token = g.token ∧ g.eq g.copy = true := by
  decide +kernel

/-- what does hold for the clone: same token; equality exactly when the mapping identity
were kept -/
theorem GCPBox.clone_token (a : GCPBox) (fresh : Nat) (c' : Option CrsObj)
    (hs : optCrsStr c' = optCrsStr a.mapping.crs) :
    (a.clone fresh c').token = a.token ∧ (a.eq (a.clone fresh c') = true ↔ fresh = a.mapping.ident) := by
  refine ⟨by simp [GCPBox.token, GCPBox.tokenTail, GCPBox.clone, hs], ?_⟩
  rw [GCPBox.eq_iff]
  simp [GCPBox.clone, eq_comm]

/-- `neq_token` restricted to what K2 leaves true.  Partial: the full statement is false
(witness `GCPBox.neq_token_cex`: content-identical but distinct mappings); the hypothesis
`a.mapping.ident = b.mapping.ident` — both boxes sit on the same mapping object — excludes
exactly that. -/
theorem GCPBox.neq_token_partial (a b : GCPBox) (hm : a.mapping.ident = b.mapping.ident)
    (h : a.eq b = false) : a.token ≠ b.token := by
  intro ht
  simp only [GCPBox.token, GCPBox.tokenTail, List.cons_append, List.nil_append, List.cons.injEq,
    Atom.int.injEq] at ht
  have hco := map_num_inj _ _ ht.2.2.2.2.2.2
  have : a.eq b = true := by
    rw [GCPBox.eq_iff]; exact ⟨ht.2.2.2.2.2.1, ht.2.2.2.2.1, hm, by rw [hco]⟩
  simp [this] at h

/-! ### Tiles -/

theorem Tiles.eq_iff (a b : Tiles) :
    a.eq b = true ↔ a.baseX = b.baseX ∧ a.baseY = b.baseY ∧ a.tileX = b.tileX ∧ a.tileY = b.tileY := by
  simp [Tiles.eq, and_assoc]

theorem Tiles.eq_equiv :
    (∀ a : Tiles, a.eq a = true) ∧ (∀ a b : Tiles, a.eq b = true → b.eq a = true) ∧
    (∀ a b c : Tiles, a.eq b = true → b.eq c = true → a.eq c = true) := by
  refine ⟨fun a => (Tiles.eq_iff a a).2 ⟨rfl, rfl, rfl, rfl⟩, fun a b h => ?_, fun a b c h g => ?_⟩
  · have h := (Tiles.eq_iff a b).1 h
    exact (Tiles.eq_iff b a).2 ⟨h.1.symm, h.2.1.symm, h.2.2.1.symm, h.2.2.2.symm⟩
  · have h := (Tiles.eq_iff a b).1 h
    have g := (Tiles.eq_iff b c).1 g
    exact (Tiles.eq_iff a c).2 ⟨h.1.trans g.1, h.2.1.trans g.2.1, h.2.2.1.trans g.2.2.1, h.2.2.2.trans g.2.2.2⟩

theorem Tiles.tokenTail_inj (a b : Tiles) (ht : a.tokenTail = b.tokenTail) : a.eq b = true := by
  simp only [Tiles.tokenTail, List.cons.injEq, Atom.int.injEq] at ht
  rw [Tiles.eq_iff]; exact ⟨ht.2.2.2.2.2.1, ht.2.2.2.2.1, ht.2.2.2.1, ht.2.2.1⟩

/-- after `fix: Tiles dask token includes the base shape` -/
theorem Tiles.neq_token (a b : Tiles) (h : a.eq b = false) : a.token ≠ b.token := by
  intro ht
  have := Tiles.tokenTail_inj a b (by simpa [Tiles.token] using ht)
  simp [this] at h

/-- F6 witness for the token as it was: `Tiles((10,10),(5,5)) != Tiles((9,9),(5,5))`, same token -/
theorem Tiles.neq_token_legacy_cex :
    ∃ a b : Tiles, Tiles.mk' 10 10 5 5 = .ok a ∧ Tiles.mk' 9 9 5 5 = .ok b ∧
      a.eq b = false ∧ a.tokenLegacy = b.tokenLegacy := by
  have h1 : ceilDiv 10 5 = 2 := by decide +kernel
  have h2 : ceilDiv 9 5 = 2 := by decide +kernel
  exact ⟨⟨10, 10, 5, 5, 2, 2⟩, ⟨9, 9, 5, 5, 2, 2⟩, by simp [Tiles.mk', h1], by simp [Tiles.mk', h2],
    by decide +kernel, by decide +kernel⟩

theorem Tiles.clone_coherent (a : Tiles) : a.eq a.clone = true ∧ a.clone.token = a.token :=
  ⟨Tiles.eq_equiv.1 a, rfl⟩

/-! ### VariableSizedTiles -/

theorem VTiles.eq_iff (a b : VTiles) : a.eq b = true ↔ a = b := by
  cases a; cases b; simp [VTiles.eq]

theorem VTiles.eq_equiv :
    (∀ a : VTiles, a.eq a = true) ∧ (∀ a b : VTiles, a.eq b = true → b.eq a = true) ∧
    (∀ a b c : VTiles, a.eq b = true → b.eq c = true → a.eq c = true) := by
  refine ⟨fun a => (VTiles.eq_iff a a).2 rfl, fun a b h => ?_, fun a b c h g => ?_⟩
  · exact (VTiles.eq_iff b a).2 ((VTiles.eq_iff a b).1 h).symm
  · exact (VTiles.eq_iff a c).2 (((VTiles.eq_iff a b).1 h).trans ((VTiles.eq_iff b c).1 g))

theorem VTiles.tokenTail_inj (a b : VTiles) (ht : a.tokenTail = b.tokenTail) : a.eq b = true := by
  simp only [VTiles.tokenTail, List.cons.injEq, Atom.iarr.injEq] at ht
  rw [VTiles.eq_iff]; cases a; cases b; simp_all

theorem VTiles.neq_token (a b : VTiles) (h : a.eq b = false) : a.token ≠ b.token := by
  intro ht
  have := VTiles.tokenTail_inj a b (by simpa [VTiles.token] using ht)
  simp [this] at h

theorem VTiles.clone_coherent (a : VTiles) : a.eq a.clone = true ∧ a.clone.token = a.token :=
  ⟨VTiles.eq_equiv.1 a, rfl⟩

/-! ### Bin1D and GridSpec -/

theorem Bin1D.eq_iff (a b : Bin1D) :
    a.eq b = true ↔ a.sz.val = b.sz.val ∧ a.origin.val = b.origin.val ∧ a.dir = b.dir := by
  simp [Bin1D.eq, PyNum.eq_iff, and_assoc]

theorem Bin1D.eq_equiv :
    (∀ a : Bin1D, a.eq a = true) ∧ (∀ a b : Bin1D, a.eq b = true → b.eq a = true) ∧
    (∀ a b c : Bin1D, a.eq b = true → b.eq c = true → a.eq c = true) := by
  refine ⟨fun a => (Bin1D.eq_iff a a).2 ⟨rfl, rfl, rfl⟩, fun a b h => ?_, fun a b c h g => ?_⟩
  · have h := (Bin1D.eq_iff a b).1 h
    exact (Bin1D.eq_iff b a).2 ⟨h.1.symm, h.2.1.symm, h.2.2.symm⟩
  · have h := (Bin1D.eq_iff a b).1 h
    have g := (Bin1D.eq_iff b c).1 g
    exact (Bin1D.eq_iff a c).2 ⟨h.1.trans g.1, h.2.1.trans g.2.1, h.2.2.trans g.2.2⟩

theorem Bin1D.tokenTail_inj (a b : Bin1D) (ht : a.tokenTail = b.tokenTail) : a.eq b = true := by
  simp only [Bin1D.tokenTail, List.cons.injEq, Atom.num.injEq, Atom.int.injEq] at ht
  rw [Bin1D.eq_iff]; exact ⟨by rw [ht.1], by rw [ht.2.1], ht.2.2.1⟩

theorem Bin1D.neq_token (a b : Bin1D) (h : a.eq b = false) : a.token ≠ b.token := by
  intro ht
  have := Bin1D.tokenTail_inj a b (by simpa [Bin1D.token] using ht)
  simp [this] at h

theorem Bin1D.clone_coherent (a : Bin1D) : a.eq a.clone = true ∧ a.clone.token = a.token :=
  ⟨Bin1D.eq_equiv.1 a, rfl⟩

theorem GridSpec.eq_iff {D : CrsObj → Prop} (hD : Coherent D) (a b : GridSpec) (ha : D a.crs) (hb : D b.crs) :
    a.eq b = true ↔ a.tx = b.tx ∧ a.ty = b.ty ∧ a.ybin.eq b.ybin = true ∧ a.xbin.eq b.xbin = true ∧
      a.crs.info.sys = b.crs.info.sys := by
  simp [GridSpec.eq, crs_eq_iff_sys_aux hD a.crs b.crs ha hb, and_assoc]

theorem GridSpec.eq_equiv {D : CrsObj → Prop} (hD : Coherent D) :
    (∀ a : GridSpec, a.eq a = true) ∧
    (∀ a b : GridSpec, D a.crs → D b.crs → a.eq b = true → b.eq a = true) ∧
    (∀ a b c : GridSpec, D a.crs → D b.crs → D c.crs → a.eq b = true → b.eq c = true → a.eq c = true) := by
  refine ⟨fun a => by simp [GridSpec.eq, Bin1D.eq_equiv.1, crs_eq_refl], ?_, ?_⟩
  · intro a b ha hb h
    rw [GridSpec.eq_iff hD _ _ ha hb] at h
    rw [GridSpec.eq_iff hD _ _ hb ha]
    exact ⟨h.1.symm, h.2.1.symm, Bin1D.eq_equiv.2.1 _ _ h.2.2.1, Bin1D.eq_equiv.2.1 _ _ h.2.2.2.1, h.2.2.2.2.symm⟩
  · intro a b c ha hb hc h g
    rw [GridSpec.eq_iff hD _ _ ha hb] at h
    rw [GridSpec.eq_iff hD _ _ hb hc] at g
    rw [GridSpec.eq_iff hD _ _ ha hc]
    exact ⟨h.1.trans g.1, h.2.1.trans g.2.1, Bin1D.eq_equiv.2.2 _ _ _ h.2.2.1 g.2.2.1,
      Bin1D.eq_equiv.2.2 _ _ _ h.2.2.2.1 g.2.2.2.1, h.2.2.2.2.trans g.2.2.2.2⟩

theorem GridSpec.neq_token {D : CrsObj → Prop} (hD : Coherent D) (a b : GridSpec) (ha : D a.crs) (hb : D b.crs)
    (h : a.eq b = false) : a.token ≠ b.token := by
  intro ht
  simp only [GridSpec.token, Bin1D.tokenTail, List.cons_append, List.nil_append, List.cons.injEq,
    Atom.txt.injEq, Atom.int.injEq, Atom.num.injEq] at ht
  have hc := (crs_eq_iff_sys_aux hD a.crs b.crs ha hb).2 (hD.str_sys _ _ ha hb ht.2.1)
  have : a.eq b = true := by
    simp [GridSpec.eq, Bin1D.eq, PyNum.eq, hc, ht.2.2.1, ht.2.2.2.1, ht.2.2.2.2.2.2.2.2.1,
      ht.2.2.2.2.2.2.2.2.2.1, ht.2.2.2.2.2.2.2.2.2.2.1, ht.2.2.2.2.2.2.2.2.2.2.2.1,
      ht.2.2.2.2.2.2.2.2.2.2.2.2.1, ht.2.2.2.2.2.2.2.2.2.2.2.2.2.1]
  simp [this] at h

theorem GridSpec.clone_coherent {D : CrsObj → Prop} (hD : Coherent D) (a : GridSpec) (c' : CrsObj)
    (ha : D a.crs) (hc : D c') (hs : c'.str = a.crs.str) :
    a.eq (a.clone c') = true ∧ (a.clone c').token = a.token := by
  refine ⟨?_, by simp [GridSpec.token, GridSpec.clone, hs]⟩
  simp [GridSpec.eq, GridSpec.clone, Bin1D.eq_equiv.1,
    (crs_eq_iff_sys_aux hD a.crs c' ha hc).2 (hD.str_sys _ _ ha hc hs.symm)]

/-- `GridSpec.__eq__` does not look at the resolution itself: two grids with the same tile
*size* but flipped sign of the y resolution are equal (and have different tokens, which
the property allows). -/
theorem GridSpec.eq_ignores_resolution_sign (c : CrsObj) :
    let z : PyNum := ⟨.float, 0, false⟩
    let bin : Bin1D := ⟨⟨.float, 80, false⟩, z, 1⟩
    let a : GridSpec := ⟨c, 10, 10, ⟨.float, 8, false⟩, ⟨.float, -8, false⟩, z, z, bin, bin⟩
    let b : GridSpec := ⟨c, 10, 10, ⟨.float, 8, false⟩, ⟨.float, 8, false⟩, z, z, bin, bin⟩
    a.eq b = true ∧ a.token ≠ b.token := by
  refine ⟨?_, ?_⟩
  · simp [GridSpec.eq, Bin1D.eq, PyNum.eq, crs_eq_refl]
  · simp [GridSpec.token]
    decide +kernel

/-! ### GeoboxTiles -/

/-- `neq_token` for tilings of linear GeoBoxes: full statement, nothing excluded (the
general form over mixed bases, which has to exclude K2, is `GBTiles.neq_token_partial`) -/
theorem GBTiles.neq_token_linear {D : CrsObj → Prop} (hD : Coherent D) (ga gb : GBox) (ta tb : AnyTiles)
    (ha : OptD D ga.crs) (hb : OptD D gb.crs)
    (h : (GBTiles.mk (.lin ga) ta).eq (GBTiles.mk (.lin gb) tb) = false)
    (hl : ga.aff.length = gb.aff.length) :
    (GBTiles.mk (.lin ga) ta).token ≠ (GBTiles.mk (.lin gb) tb).token := by
  intro ht
  simp only [GBTiles.token, AnyBox.tokenTail, List.cons.injEq, true_and] at ht
  have hlen : ga.tokenTail.length = gb.tokenTail.length := by simp [GBox.tokenTail, hl]
  obtain ⟨h1, h2⟩ := List.append_inj ht hlen
  have hg := GBox.tokenTail_inj hD ga gb ha hb h1
  have htl : ta.eq tb = true := by
    cases ta with
    | reg x =>
      cases tb with
      | reg y => exact Tiles.tokenTail_inj x y h2
      | var y => simp [AnyTiles.tokenTail, Tiles.tokenTail, VTiles.tokenTail] at h2
    | var x =>
      cases tb with
      | reg y => simp [AnyTiles.tokenTail, Tiles.tokenTail, VTiles.tokenTail] at h2
      | var y => exact VTiles.tokenTail_inj x y h2
  simp [GBTiles.eq, AnyBox.eq, hg, htl] at h

/-- where the CRS of the base box (if it is a linear GeoBox) has to be coherent -/
def AnyBox.OkD (D : CrsObj → Prop) : AnyBox → Prop
  | .lin g => OptD D g.crs
  | .gcp _ => True

theorem AnyBox.eq_equiv {D : CrsObj → Prop} (hD : Coherent D) :
    (∀ a : AnyBox, a.eq a = true) ∧
    (∀ a b : AnyBox, a.OkD D → b.OkD D → a.eq b = true → b.eq a = true) ∧
    (∀ a b c : AnyBox, a.OkD D → b.OkD D → c.OkD D → a.eq b = true → b.eq c = true → a.eq c = true) := by
  refine ⟨?_, ?_, ?_⟩
  · intro a; cases a with
    | lin g => exact (GBox.eq_equiv hD).1 g
    | gcp g => exact GCPBox.eq_equiv.1 g
  · intro a b ha hb h
    match a, b, ha, hb, h with
    | .lin x, .lin y, ha, hb, h => exact (GBox.eq_equiv hD).2.1 x y ha hb h
    | .gcp x, .gcp y, _, _, h => exact GCPBox.eq_equiv.2.1 x y h
    | .lin _, .gcp _, _, _, h => simp [AnyBox.eq] at h
    | .gcp _, .lin _, _, _, h => simp [AnyBox.eq] at h
  · intro a b c ha hb hc h g
    match a, b, c, ha, hb, hc, h, g with
    | .lin x, .lin y, .lin z, ha, hb, hc, h, g => exact (GBox.eq_equiv hD).2.2 x y z ha hb hc h g
    | .gcp x, .gcp y, .gcp z, _, _, _, h, g => exact GCPBox.eq_equiv.2.2 x y z h g
    | .lin _, .gcp _, _, _, _, _, h, _ => simp [AnyBox.eq] at h
    | .gcp _, .lin _, _, _, _, _, h, _ => simp [AnyBox.eq] at h
    | .lin _, .lin _, .gcp _, _, _, _, _, g => simp [AnyBox.eq] at g
    | .gcp _, .gcp _, .lin _, _, _, _, _, g => simp [AnyBox.eq] at g

theorem AnyTiles.eq_equiv :
    (∀ a : AnyTiles, a.eq a = true) ∧ (∀ a b : AnyTiles, a.eq b = true → b.eq a = true) ∧
    (∀ a b c : AnyTiles, a.eq b = true → b.eq c = true → a.eq c = true) := by
  refine ⟨?_, ?_, ?_⟩
  · intro a; cases a with
    | reg t => exact Tiles.eq_equiv.1 t
    | var t => exact VTiles.eq_equiv.1 t
  · intro a b h
    match a, b, h with
    | .reg x, .reg y, h => exact Tiles.eq_equiv.2.1 x y h
    | .var x, .var y, h => exact VTiles.eq_equiv.2.1 x y h
    | .reg _, .var _, h => simp [AnyTiles.eq] at h
    | .var _, .reg _, h => simp [AnyTiles.eq] at h
  · intro a b c h g
    match a, b, c, h, g with
    | .reg x, .reg y, .reg z, h, g => exact Tiles.eq_equiv.2.2 x y z h g
    | .var x, .var y, .var z, h, g => exact VTiles.eq_equiv.2.2 x y z h g
    | .reg _, .var _, _, h, _ => simp [AnyTiles.eq] at h
    | .var _, .reg _, _, h, _ => simp [AnyTiles.eq] at h
    | .reg _, .reg _, .var _, _, g => simp [AnyTiles.eq] at g
    | .var _, .var _, .reg _, _, g => simp [AnyTiles.eq] at g

/-- GeoboxTiles equality is an equivalence (regular and variable tilings, linear and GCP
bases mixed) -/
theorem GBTiles.eq_equiv {D : CrsObj → Prop} (hD : Coherent D) :
    (∀ a : GBTiles, a.eq a = true) ∧
    (∀ a b : GBTiles, a.gbox.OkD D → b.gbox.OkD D → a.eq b = true → b.eq a = true) ∧
    (∀ a b c : GBTiles, a.gbox.OkD D → b.gbox.OkD D → c.gbox.OkD D →
      a.eq b = true → b.eq c = true → a.eq c = true) := by
  refine ⟨?_, ?_, ?_⟩
  · intro a; simp [GBTiles.eq, (AnyBox.eq_equiv hD).1, AnyTiles.eq_equiv.1]
  · intro a b ha hb h
    simp only [GBTiles.eq, Bool.and_eq_true] at h ⊢
    exact ⟨AnyTiles.eq_equiv.2.1 _ _ h.1, (AnyBox.eq_equiv hD).2.1 _ _ ha hb h.2⟩
  · intro a b c ha hb hc h g
    simp only [GBTiles.eq, Bool.and_eq_true] at h g ⊢
    exact ⟨AnyTiles.eq_equiv.2.2 _ _ _ h.1 g.1, (AnyBox.eq_equiv hD).2.2 _ _ _ ha hb hc h.2 g.2⟩


/-! ## Witnesses for what the `_partial` theorems exclude (K1 inherited by containers, K2) -/

/-- K1 through a BoundingBox: `BoundingBox(0,0,1,1,"EPSG:4326") == BoundingBox(0,0,1,1,wkt)`,
different hash inputs.  The hypothesis `optCrsHash a.crs = optCrsHash b.crs` of
`BBox.eq_hash_partial` is exactly what fails. -/
theorem BBox.eq_hash_cex :
    let ca : CrsObj := ⟨0, ⟨0, "EPSG:4326", "W0", some 4326⟩, "EPSG:4326", some 4326⟩
    let cb : CrsObj := ⟨1, ⟨0, "W0", "W0", some 4326⟩, "W0", some 0⟩
    let z : PyNum := ⟨.int, 0, false⟩
    let o : PyNum := ⟨.int, 1, false⟩
    (BBox.mk (some ca) z z o o).eq (BBox.mk (some cb) z z o o) = true ∧
      (BBox.mk (some ca) z z o o).hashKey ≠ (BBox.mk (some cb) z z o o).hashKey := by
  decide +kernel

/-- K1 through a GeoBox -/
theorem GBox.eq_hash_cex :
    let ca : CrsObj := ⟨0, ⟨0, "EPSG:4326", "W0", some 4326⟩, "EPSG:4326", some 4326⟩
    let cb : CrsObj := ⟨1, ⟨0, "W0", "W0", some 4326⟩, "W0", some 0⟩
    (GBox.mk (some ca) 3 4 []).eq (GBox.mk (some cb) 3 4 []) = true ∧
      (GBox.mk (some ca) 3 4 []).hashKey ≠ (GBox.mk (some cb) 3 4 []).hashKey := by
  decide +kernel

/-- K2 as a token collision: two GCPGeoBoxes over content-identical but distinct mappings
are unequal and share their token.  `GCPBox.neq_token_partial` excludes exactly this by
`a.mapping.ident = b.mapping.ident`. -/
theorem GCPBox.neq_token_cex :
    let a : GCPBox := ⟨3, 4, [], ⟨0, none, [], []⟩⟩
    let b : GCPBox := ⟨3, 4, [], ⟨1, none, [], []⟩⟩
    a.eq b = false ∧ a.token = b.token := by
  decide +kernel

/-- K2 inherited by GeoboxTiles over GCP bases -/
theorem GBTiles.neq_token_gcp_cex :
    let a : GBTiles := ⟨.gcp ⟨3, 4, [], ⟨0, none, [], []⟩⟩, .var ⟨[0, 3], [0, 4]⟩⟩
    let b : GBTiles := ⟨.gcp ⟨3, 4, [], ⟨1, none, [], []⟩⟩, .var ⟨[0, 3], [0, 4]⟩⟩
    a.eq b = false ∧ a.token = b.token := by
  decide +kernel

/-! ## Constructors and normalisers -/

/-- `Resolution(x)` is `Resolution(x, -x)`; both fields are floats with the values `x`, `-x` -/
theorem Resolution.default_y (x : PyNum) :
    Resolution.mk' x none = Resolution.mk' x (some x.neg) ∧
    (Resolution.mk' x none).x.kind = .float ∧ (Resolution.mk' x none).y.kind = .float ∧
    (Resolution.mk' x none).x.val = x.val ∧ (Resolution.mk' x none).y.val = -x.val := by
  refine ⟨rfl, rfl, rfl, rfl, ?_⟩
  simp only [Resolution.mk', PyNum.toFloat, PyNum.neg]
  cases x.kind <;> rfl

/-- `res_(x)` and `Resolution(x)` are equal values with equal hashes … -/
theorem resNorm_eq_ctor (x : PyNum) :
    (resNorm (.num x)).eq (Resolution.mk' x none) = true ∧
    (resNorm (.num x)).hashKey = (Resolution.mk' x none).hashKey := by
  have hy : (resNorm (.num x)).y.val = (Resolution.mk' x none).y.val := by
    simp only [resNorm, Resolution.mk', PyNum.toFloat, PyNum.neg]
    cases x.kind <;> rfl
  refine ⟨?_, ?_⟩
  · rw [XYv.eq_iff]; exact ⟨rfl, hy⟩
  · simp only [XYv.hashKey]
    have hc : (resNorm (.num x)).cls = (Resolution.mk' x none).cls := rfl
    have hx : (resNorm (.num x)).x.val = (Resolution.mk' x none).x.val := rfl
    rw [hc, hx, hy]

/-- … but not interchangeable for tokens: `res_(0)` is `(0.0, -0.0)`, `Resolution(0)` is
`(0.0, 0.0)` (the property allows equal values with different tokens; replayed on the code
by the constructor correspondence). -/
theorem resNorm_zero_token_cex :
    (resNorm (.num ⟨.int, 0, false⟩)).token ≠ (Resolution.mk' ⟨.int, 0, false⟩ none).token ∧
    (resNorm (.num ⟨.int, 0, false⟩)).y.negz = true := by
  decide +kernel

theorem resNorm_idem (i : ResIn) : resNorm (.res (resNorm i)) = resNorm i := rfl

theorem shapeNorm_idem (i : ShapeIn) (v : XYv) (_h : shapeNorm i = .ok v) :
    shapeNorm (.shape2d v) = .ok v := rfl

/-- what `shape_` builds from a sequence or an `XY` is a `Shape2d` of ints -/
theorem shapeNorm_ints (i : ShapeIn) (v : XYv) (hi : ∀ w, i ≠ .shape2d w) (h : shapeNorm i = .ok v) :
    v.cls = .shape2d ∧ v.x.isInt = true ∧ v.y.isInt = true := by
  cases i with
  | shape2d w => exact absurd rfl (hi w)
  | xy w => simp only [shapeNorm, Except.ok.injEq] at h; subst h; exact ⟨rfl, rfl, rfl⟩
  | seq xs =>
    match xs, h with
    | [a, b], h => simp only [shapeNorm, Except.ok.injEq] at h; subst h; exact ⟨rfl, rfl, rfl⟩

/-- `shape_((ny, nx)) == (ny, nx)` for integers: the sequence form is `(y, x)` ordered on
the way in (`shape_`) and on the way out (`Shape2d.__eq__(tuple)`) -/
theorem shapeNorm_seq_eq_tuple (ny nx : PyNum) (ky kx : Int) (hy : ny.val = ky) (hx : nx.val = kx)
    (v : XYv) (h : shapeNorm (.seq [ny, nx]) = .ok v) : Shape2d.eqTuple v [ny, nx] = .ok true := by
  simp only [shapeNorm, Except.ok.injEq] at h
  subst h
  have fl : ∀ k : Int, ((if (k : Rat) < 0 then -((-(k : Rat)).floor) else (k : Rat).floor : Int) : Rat) = k := by
    intro k
    have h2 : (k : Rat).floor = k := Rat.floor_intCast k
    have h1 : (-(k : Rat)).floor = -k := by
      have e : (-(k : Rat)) = ((-k : Int) : Rat) := by simp
      rw [e]; exact Rat.floor_intCast (-k)
    rw [h1, h2]
    split <;> simp
  simp only [Shape2d.eqTuple, PyNum.isInt, PyNum.toInt, PyNum.eq, hy, hx, fl]
  simp

/-- `GeoboxTiles(box, (ty, tx))`: the regular tiling is over the box's own shape -/
theorem GBTiles.ctor_regular_base (g : AnyBox) (ty tx : Int) (t : GBTiles)
    (h : GBTiles.mk' g (.shape ty tx) = .ok t) :
    t.gbox = g ∧ ∃ r, t.tiles = .reg r ∧ r.baseY = g.ny ∧ r.baseX = g.nx ∧ r.tileY = ty ∧ r.tileX = tx := by
  by_cases hz : ty = 0 ∨ tx = 0
  · simp [GBTiles.mk', roiTiles, Tiles.mk', hz, Except.map] at h
  · simp only [GBTiles.mk', roiTiles, Tiles.mk', hz, if_false, Except.map, AnyTiles.base, if_true,
      Except.ok.injEq] at h
    subst h
    exact ⟨rfl, _, rfl, rfl, rfl, rfl, rfl⟩

/-- `GeoboxTiles(box, (chunks_y, chunks_x))`: the tiling itself is made of the chunks alone
(`roi_tiles` does not look at the shape); since `fix: GeoboxTiles refuses chunk tuples that do
not add up to the GeoBox shape` the constructor then REFUSES chunks whose sums are not the
box's shape (`GBTiles.ctor_chunks_add_up`), so two boxes accepting the same chunks have the
same shape -/
theorem GBTiles.ctor_chunks_ignore_shape (g g' : AnyBox) (y x : List Int) (t t' : GBTiles)
    (h : GBTiles.mk' g (.chunks y x) = .ok t) (h' : GBTiles.mk' g' (.chunks y x) = .ok t') :
    t.tiles = t'.tiles := by
  simp only [GBTiles.mk', roiTiles] at h h'
  split at h <;> split at h' <;> simp only [Except.ok.injEq, reduceCtorEq] at h h'
  subst h; subst h'; rfl

/-- chunks are accepted exactly when they add up (in int32 arithmetic, as the code computes
them) to the box's shape -/
theorem GBTiles.ctor_chunks_add_up (g : AnyBox) (y x : List Int) :
    (∃ t, GBTiles.mk' g (.chunks y x) = .ok t) ↔
      (lastOff (VTiles.mk' y x).offY = g.ny ∧ lastOff (VTiles.mk' y x).offX = g.nx) := by
  simp only [GBTiles.mk', roiTiles, AnyTiles.base, Prod.mk.injEq]
  constructor
  · rintro ⟨t, h⟩
    split at h
    · assumption
    · cases h
  · intro h
    exact ⟨_, by rw [if_pos h]⟩

/-- F6 never reached GeoboxTiles built through the constructor: even with the Tiles token
*as it was* (no base shape), unequal regular GeoboxTiles over linear GeoBoxes had different
tokens, because the base shape is the box's shape and the box is in the token. -/
theorem GBTiles.ctor_neq_token_legacy {D : CrsObj → Prop} (hD : Coherent D) (ga gb : GBox)
    (ty tx ty' tx' : Int) (a b : GBTiles)
    (ha : OptD D ga.crs) (hb : OptD D gb.crs) (hl : ga.aff.length = gb.aff.length)
    (hca : GBTiles.mk' (.lin ga) (.shape ty tx) = .ok a) (hcb : GBTiles.mk' (.lin gb) (.shape ty' tx') = .ok b)
    (h : a.eq b = false) : a.tokenLegacy ≠ b.tokenLegacy := by
  obtain ⟨hga, ra, hta, h1, h2, h3, h4⟩ := GBTiles.ctor_regular_base _ _ _ _ hca
  obtain ⟨hgb, rb, htb, g1, g2, g3, g4⟩ := GBTiles.ctor_regular_base _ _ _ _ hcb
  intro ht
  simp only [GBTiles.tokenLegacy, hga, hgb, hta, htb, AnyBox.tokenTail, AnyTiles.tokenTailLegacy,
    Tiles.tokenLegacy, List.drop, List.cons.injEq, true_and] at ht
  have hlen : ga.tokenTail.length = gb.tokenTail.length := by simp [GBox.tokenTail, hl]
  obtain ⟨e1, e2⟩ := List.append_inj ht hlen
  have hg := GBox.tokenTail_inj hD ga gb ha hb e1
  have hshape := (GBox.eq_iff hD ga gb ha hb).1 hg
  simp only [List.cons.injEq, Atom.int.injEq] at e2
  have htl : ra.eq rb = true := by
    rw [Tiles.eq_iff]
    simp only [AnyBox.ny, AnyBox.nx] at h1 h2 g1 g2
    exact ⟨by rw [h2, g2]; exact hshape.1, by rw [h1, g1]; exact hshape.2.1, e2.2.2.2.1, e2.2.2.1⟩
  simp [GBTiles.eq, hga, hgb, hta, htb, AnyBox.eq, AnyTiles.eq, hg, htl] at h


/-! ## Composition with C04 (tilings as partitions) and C14 (GridSpec tiles)

A dask token stands for "the same computation".  Linking the value model with the models of
what the values *do*: tilings with the same token select the same pixels for every index,
grid specs with the same token produce the same tile GeoBoxes. -/

/-- `Tiles.__init__`'s tile count is the count of the C04 partition model (the two models
write `ceil(N/n)` differently: rational ceiling here, integer arithmetic there). -/
theorem ceilDiv_eq_C04 (N n : Int) (hn : 0 < n) : ceilDiv N n = C04.ceilDiv N n := by
  unfold ceilDiv C04.ceilDiv
  rw [if_pos hn]
  have hnq : (0 : Rat) < (n : Rat) := by exact_mod_cast hn
  apply Int.le_antisymm
  · rw [Rat.ceil_le_iff]
    rw [div_le_iff₀ hnq]
    have : N ≤ ((N + n - 1) / n) * n := by
      have h2 := Int.ediv_mul_add_emod (N + n - 1) n
      have h3 := Int.emod_lt_of_pos (N + n - 1) hn
      have h4 := Int.emod_nonneg (N + n - 1) (ne_of_gt hn)
      nlinarith
    exact_mod_cast this
  · have hlt : ((N + n - 1) / n - 1 : Int) < ((N : Rat) / (n : Rat)).ceil := by
      rw [Rat.lt_ceil_iff]
      rw [lt_div_iff₀ hnq]
      have : ((N + n - 1) / n - 1) * n < N := by
        have h2 := Int.ediv_mul_add_emod (N + n - 1) n
        have h4 := Int.emod_nonneg (N + n - 1) (ne_of_gt hn)
        nlinarith
      exact_mod_cast this
    omega


theorem Tiles.count_eq_C04 (baseY baseX tileY tileX : Int) (t : Tiles)
    (h : Tiles.mk' baseY baseX tileY tileX = .ok t) (hy : 0 < tileY) (hx : 0 < tileX) :
    t.ny = C04.count baseY tileY ∧ t.nx = C04.count baseX tileX := by
  simp only [Tiles.mk'] at h
  split at h
  · simp at h
  · simp only [Except.ok.injEq] at h
    subst h
    exact ⟨ceilDiv_eq_C04 _ _ hy, ceilDiv_eq_C04 _ _ hx⟩

/-- **token ⇒ same partition**: two regular tilings with the same dask token select the same
pixel range for every tile index / slice, on both axes (C04's `Tiles.__getitem__`). -/
theorem Tiles.token_sound_C04 (a b : Tiles) (ht : a.token = b.token) (idx : C17.PIdx) :
    C04.getItem a.baseY a.tileY idx = C04.getItem b.baseY b.tileY idx ∧
    C04.getItem a.baseX a.tileX idx = C04.getItem b.baseX b.tileX idx ∧
    C04.chunks a.baseY a.tileY = C04.chunks b.baseY b.tileY := by
  have h := (Tiles.eq_iff a b).1 (Tiles.tokenTail_inj a b (by simpa [Tiles.token] using ht))
  rw [h.1, h.2.1, h.2.2.1, h.2.2.2]
  exact ⟨rfl, rfl, rfl⟩

/-- F6 in terms of what the tilings do: `Tiles((10,10),(5,5))` and `Tiles((9,9),(5,5))` shared
the token as it was, yet tile 1 is `5:10` in one and `5:9` in the other. -/
theorem Tiles.legacy_token_unsound_cex :
    (Tiles.mk 10 10 5 5 2 2).tokenLegacy = (Tiles.mk 9 9 5 5 2 2).tokenLegacy ∧
    C04.getItem 10 5 (.idx 1) ≠ C04.getItem 9 5 (.idx 1) := by
  decide +kernel

theorem cumsum32_eq_C04 : ∀ (acc : Int) (l : List Int), cumsum32 acc l = C04.cumsum32 acc l
  | _, [] => rfl
  | acc, c :: cs => by
    have hw : wrap32 (acc + wrap32 c) = C04.wrap32 (acc + c) := by
      unfold wrap32 C04.wrap32; omega
    simp only [cumsum32, C04.cumsum32, hw]
    rw [cumsum32_eq_C04]

/-- the offsets a `VariableSizedTiles` stores are those of the C04 partition model -/
theorem VTiles.offsets_eq_C04 (y x : List Int) :
    (VTiles.mk' y x).offY = C04.offsets y ∧ (VTiles.mk' y x).offX = C04.offsets x := by
  simp [VTiles.mk', C04.offsets, cumsum32_eq_C04]

/-- **token ⇒ same partition** for variable tilings -/
theorem VTiles.token_sound_C04 (y x y' x' : List Int)
    (ht : (VTiles.mk' y x).token = (VTiles.mk' y' x').token) (idx : C17.PIdx) :
    C04.vgetItem y idx = C04.vgetItem y' idx ∧ C04.vgetItem x idx = C04.vgetItem x' idx := by
  have h := (VTiles.eq_iff _ _).1 (VTiles.tokenTail_inj _ _ (by simpa [VTiles.token] using ht))
  have hy : C04.offsets y = C04.offsets y' := by
    rw [← (VTiles.offsets_eq_C04 y x).1, ← (VTiles.offsets_eq_C04 y' x').1, h]
  have hx : C04.offsets x = C04.offsets x' := by
    rw [← (VTiles.offsets_eq_C04 y x).2, ← (VTiles.offsets_eq_C04 y' x').2, h]
  simp only [C04.vgetItem, C04.vcount, hy, hx]
  exact ⟨rfl, rfl⟩

/-- a C19 GridSpec value seen as the C14 grid it defines -/
def GridSpec.toC14 (a : GridSpec) : C14.GridSpec :=
  ⟨a.ty, a.tx, a.resx.val, a.resy.val, a.ox.val, a.oy.val,
   ⟨a.xbin.sz.val, a.xbin.origin.val, a.xbin.dir⟩, ⟨a.ybin.sz.val, a.ybin.origin.val, a.ybin.dir⟩⟩

/-- **token ⇒ same grid**: grid specs with the same dask token are the same C14 grid, hence
give the same tile GeoBox for every index and the same tile index for every point (any
rounding mode `fl`). -/
theorem GridSpec.token_sound_C14 (a b : GridSpec) (ht : a.token = b.token) :
    a.toC14 = b.toC14 ∧
    (∀ (fl : C14.Rnd) k, C14.GridSpec.tileGeobox fl a.toC14 k = C14.GridSpec.tileGeobox fl b.toC14 k) ∧
    (∀ (fl : C14.Rnd) x y, C14.GridSpec.pt2idx fl a.toC14 x y = C14.GridSpec.pt2idx fl b.toC14 x y) := by
  have h : a.toC14 = b.toC14 := by
    simp only [GridSpec.token, Bin1D.tokenTail, List.cons_append, List.nil_append, List.cons.injEq,
      Atom.int.injEq, Atom.num.injEq] at ht
    simp only [GridSpec.toC14]
    rw [ht.2.2.1, ht.2.2.2.1, ht.2.2.2.2.1, ht.2.2.2.2.2.1, ht.2.2.2.2.2.2.1, ht.2.2.2.2.2.2.2.1,
      ht.2.2.2.2.2.2.2.2.1, ht.2.2.2.2.2.2.2.2.2.1, ht.2.2.2.2.2.2.2.2.2.2.1,
      ht.2.2.2.2.2.2.2.2.2.2.2.1, ht.2.2.2.2.2.2.2.2.2.2.2.2.1, ht.2.2.2.2.2.2.2.2.2.2.2.2.2.1]
  exact ⟨h, fun fl k => by rw [h], fun fl x y => by rw [h]⟩

/-- `GridSpec.__init__` here and in the C14 model (exact mode, `fl = id`) build the same
grid and reject the same arguments -/
theorem GridSpec.mk'_eq_C14_new (crs : CrsObj) (ty tx : Int) (rx ry ox oy : PyNum) (fx fy : Bool) :
    (GridSpec.mk' crs ty tx rx ry ox oy fx fy).map GridSpec.toC14 =
      C14.GridSpec.new id ty tx rx.val ry.val ox.val oy.val fx fy := by
  have hd : ∀ f : Bool, (C14.dirOf f = -1 ∨ C14.dirOf f = 1) := by
    intro f; cases f <;> simp [C14.dirOf]
  have habs : ∀ p : PyNum, absNum p = C14.rabs p.val := fun p => rfl
  simp only [GridSpec.mk', C14.GridSpec.new, C14.Bin1D.new, habs, id, bind, Except.bind]
  by_cases hy : (ty : Rat) * C14.rabs ry.val ≤ 0
  · have : ¬ (0 < (ty : Rat) * C14.rabs ry.val) := not_lt.mpr hy
    simp [hy, this, hd, Except.map]
  · have hy' : 0 < (ty : Rat) * C14.rabs ry.val := not_le.mp hy
    by_cases hx : (tx : Rat) * C14.rabs rx.val ≤ 0
    · have : ¬ (0 < (tx : Rat) * C14.rabs rx.val) := not_lt.mpr hx
      simp [hy, hy', hx, this, hd, Except.map]
    · have hx' : 0 < (tx : Rat) * C14.rabs rx.val := not_le.mp hx
      simp [hy, hy', hx, hx', Except.map, GridSpec.toC14, C14.dirOf, pure, Except.pure]

/-- `==` is coarser than what a GridSpec does: the two grids of
`GridSpec.eq_ignores_resolution_sign` are equal, yet their tile (0, 0) has a different
affine (y resolution −8 vs 8; anchored at the top vs the bottom edge).  Not excluded by
the property (equal values may differ in token), recorded because `==` is the only thing
the library offers to compare grids. -/
theorem GridSpec.eq_coarser_than_tiles_cex (c : CrsObj) :
    let z : PyNum := ⟨.float, 0, false⟩
    let bin : Bin1D := ⟨⟨.float, 80, false⟩, z, 1⟩
    let a : GridSpec := ⟨c, 10, 10, ⟨.float, 8, false⟩, ⟨.float, -8, false⟩, z, z, bin, bin⟩
    let b : GridSpec := ⟨c, 10, 10, ⟨.float, 8, false⟩, ⟨.float, 8, false⟩, z, z, bin, bin⟩
    a.eq b = true ∧
      C14.GridSpec.tileGeobox id a.toC14 (0, 0) ≠ C14.GridSpec.tileGeobox id b.toC14 (0, 0) := by
  refine ⟨?_, ?_⟩
  · simp [GridSpec.eq, Bin1D.eq, PyNum.eq, crs_eq_refl]
  · simp only [GridSpec.toC14]
    decide +kernel


/-! ## GeoboxTiles over any mix of bases and tilings -/

theorem AnyTiles.tokenTail_inj (ta tb : AnyTiles) (h : ta.tokenTail = tb.tokenTail) : ta.eq tb = true := by
  cases ta with
  | reg x =>
    cases tb with
    | reg y => exact Tiles.tokenTail_inj x y h
    | var y => simp [AnyTiles.tokenTail, Tiles.tokenTail, VTiles.tokenTail] at h
  | var x =>
    cases tb with
    | reg y => simp [AnyTiles.tokenTail, Tiles.tokenTail, VTiles.tokenTail] at h
    | var y => exact VTiles.tokenTail_inj x y h

theorem AnyTiles.tokenTail_len (t : AnyTiles) : t.tokenTail.length = 6 ∨ t.tokenTail.length = 2 := by
  cases t <;> simp [AnyTiles.tokenTail, Tiles.tokenTail, VTiles.tokenTail]

def AnyBox.affLen : AnyBox → Nat
  | .lin g => g.aff.length
  | .gcp g => g.aff.length

/-- **Unequal GeoboxTiles never share a token** — over linear and GCP bases, regular and
variable tilings, in any mix (a GeoBox-based and a GCP-based one can never collide, nor a
regular and a variable tiling).  Partial: the full statement is false by K2
(`GBTiles.neq_token_gcp_cex`); the hypothesis `hK2` excludes exactly that — when *both*
bases are GCPGeoBoxes they sit on the same mapping object.  (`affLen = 6`: an
`affine.Affine` has six coefficients.) -/
theorem GBTiles.neq_token_partial {D : CrsObj → Prop} (hD : Coherent D) (a b : GBTiles)
    (ha : a.gbox.OkD D) (hb : b.gbox.OkD D) (hla : a.gbox.affLen = 6) (hlb : b.gbox.affLen = 6)
    (hK2 : ∀ x y, a.gbox = .gcp x → b.gbox = .gcp y → x.mapping.ident = y.mapping.ident)
    (h : a.eq b = false) : a.token ≠ b.token := by
  obtain ⟨ga, ta⟩ := a
  obtain ⟨gb, tb⟩ := b
  cases ga with
  | lin x =>
    cases gb with
    | lin y =>
      exact GBTiles.neq_token_linear hD x y ta tb ha hb h (by simp only [AnyBox.affLen] at hla hlb; omega)
    | gcp y =>
      intro ht
      have hl := congrArg List.length ht
      simp only [AnyBox.affLen] at hla hlb
      simp [GBTiles.token, AnyBox.tokenTail, GBox.tokenTail, GCPBox.tokenTail, hla, hlb] at hl
      rcases AnyTiles.tokenTail_len ta with h1 | h1 <;> rcases AnyTiles.tokenTail_len tb with h2 | h2 <;> omega
  | gcp x =>
    cases gb with
    | lin y =>
      intro ht
      have hl := congrArg List.length ht
      simp only [AnyBox.affLen] at hla hlb
      simp [GBTiles.token, AnyBox.tokenTail, GBox.tokenTail, GCPBox.tokenTail, hla, hlb] at hl
      rcases AnyTiles.tokenTail_len ta with h1 | h1 <;> rcases AnyTiles.tokenTail_len tb with h2 | h2 <;> omega
    | gcp y =>
      intro ht
      simp only [AnyBox.affLen] at hla hlb
      simp only [GBTiles.token, AnyBox.tokenTail, List.cons.injEq, true_and] at ht
      have hlen : x.tokenTail.length = y.tokenTail.length := by simp [GCPBox.tokenTail, hla, hlb]
      obtain ⟨h1, h2⟩ := List.append_inj ht hlen
      have hm := hK2 x y rfl rfl
      have hg : x.eq y = true := by
        cases hxy : x.eq y with
        | true => rfl
        | false => exact absurd (by simp [GCPBox.token, h1]) (GCPBox.neq_token_partial x y hm hxy)
      have htl := AnyTiles.tokenTail_inj ta tb h2
      simp [GBTiles.eq, AnyBox.eq, hg, htl] at h


/-! ## `crs == other` for a non-CRS `other` (crs.py:253-257) -/

theorem alloc_vars (σ : State) (pick : Nat) (p : PInfo) : (alloc σ pick p).1.vars = σ.vars := by
  unfold alloc; split <;> rfl

theorem construct_vars (W : World) (σ : State) (spec : Spec) (pick : Nat) :
    (construct W σ spec pick).1.vars = σ.vars := by
  have hobj : ∀ (σ : State) id p, (makeFromObj W σ id p).1.vars = σ.vars := by
    intro σ id p
    unfold makeFromObj
    simp only
    cases cacheFind W (Key.obj id p) σ.cache with
    | some e => rfl
    | none =>
      simp only
      cases entryOf id p 0 <;> rfl
  have htxt : ∀ key parsed e0, (makeFromText W σ key parsed e0 pick).1.vars = σ.vars := by
    intro key parsed e0
    unfold makeFromText
    simp only
    cases cacheFind W (Key.txt key) σ.cache with
    | some e => rfl
    | none =>
      simp only
      cases parsed with
      | none => rfl
      | some p =>
        simp only
        have ha := alloc_vars σ pick p
        cases hal : alloc σ pick p with
        | mk σ1 id =>
          rw [hal] at ha
          simp only at ha ⊢
          cases entryOf id p e0 <;> exact ha
  cases spec with
  | int n => exact htxt _ _ _
  | str s => exact htxt _ _ _
  | pyproj pv =>
    simp only [construct]
    split
    · rfl
    · exact hobj _ _ _
  | dict d =>
    simp only [construct]
    split
    · rfl
    · rename_i p _
      have ha := alloc_vars σ pick p
      cases hal : alloc σ pick p with
      | mk σ1 id =>
        rw [hal] at ha
        simp only
        rw [hobj]; exact ha
  | crs w =>
    simp only [construct]
    split <;> rfl

/-- `crs == spec` never raises: it answers `False` whenever `CRS(spec)` fails and otherwise
what `crs == CRS(spec)` answers (`tmp` is a variable name nothing uses). -/
theorem eqSpec_out (W : World) (σ : State) (v tmp : Nat) (spec : Spec) (pick : Nat) (c : CrsObj)
    (hv : assoc v σ.vars = some c) (htmp : assoc tmp σ.vars = none) :
    eqSpecOut (runFrom W σ (eqSpecOps v spec pick tmp)).2 =
      match (construct W σ spec pick).2 with
      | .ok c' => .bool (crsEq c c')
      | .error _ => .bool false := by
  have hvt : v ≠ tmp := by
    intro e; rw [e] at hv; rw [hv] at htmp; cases htmp
  have hfilter : ∀ l : List (Nat × CrsObj), assoc v (l.filter (fun e => e.1 != tmp)) = assoc v l := by
    intro l
    induction l with
    | nil => rfl
    | cons e t ih =>
      obtain ⟨k, w⟩ := e
      by_cases he : k = tmp
      · have hb : ((k, w).1 != tmp) = false := by simp [he]
        have hne : ¬ k = v := fun h => hvt (h.symm.trans he)
        rw [List.filter_cons, hb]
        simp only [assoc, if_neg hne]
        exact ih
      · have hb : ((k, w).1 != tmp) = true := by simp [he]
        rw [List.filter_cons, hb]
        simp only [assoc, if_true]
        rw [ih]
  have hcv := construct_vars W σ spec pick
  simp only [eqSpecOps, runFrom, step]
  cases hc : construct W σ spec pick with
  | mk σ1 r =>
    rw [hc] at hcv
    simp only at hcv
    cases r with
    | error e =>
      simp only
      rw [hcv, hv, htmp]
      simp [eqSpecOut]
    | ok c' =>
      simp only
      have h1 : assoc v (setVar tmp c' σ1.vars) = some c := by
        simp only [setVar, assoc]
        rw [if_neg (fun h => hvt h.symm), hfilter, hcv, hv]
      have h2 : assoc tmp (setVar tmp c' σ1.vars) = some c' := by simp [setVar, assoc]
      rw [h1, h2]
      simp [eqSpecOut]


/-! ## Non-vacuity of the hypotheses -/

/-- `Coherent` is satisfiable: any single CRS instance (with a sane string) is coherent -/
example (x : CrsObj) (hx : x.str ≠ "None") : Coherent (fun c => c = x) :=
  ⟨fun a b ha hb _ => by rw [ha, hb], fun a b ha hb _ _ => by rw [ha, hb]; simp,
   fun a b ha hb _ => by rw [ha, hb], fun a ha => by rw [ha]; exact hx⟩

/-- the hypotheses of `GBTiles.neq_token_partial` hold for a GeoBox-based and a GCP-based
tiling (which the theorem then separates) -/
example :
    let a : GBTiles := ⟨.lin ⟨none, 3, 4, List.replicate 6 ⟨.float, 0, false⟩⟩, .var ⟨[0, 3], [0, 4]⟩⟩
    let b : GBTiles := ⟨.gcp ⟨3, 4, List.replicate 6 ⟨.float, 0, false⟩, ⟨0, none, [], []⟩⟩, .var ⟨[0, 3], [0, 4]⟩⟩
    a.gbox.affLen = 6 ∧ b.gbox.affLen = 6 ∧ a.eq b = false ∧
      (∀ x y, a.gbox = .gcp x → b.gbox = .gcp y → x.mapping.ident = y.mapping.ident) := by
  refine ⟨rfl, rfl, by decide +kernel, ?_⟩
  intro x y hx; cases hx

/-- the witness histories are histories of real operations (except the eviction one) -/
example : ∀ op ∈ ([.pnewText 0 "A" 0, .mk 1 (.pyproj 0) 0, .mk 0 (.str "WA") 0] : List Op), op.real = true := by
  decide

end OdcGeo.C19
