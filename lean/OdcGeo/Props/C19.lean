/- C19 — property theorems only. -/
import OdcGeo.Model.C19
namespace OdcGeo.C19

end OdcGeo.C19
