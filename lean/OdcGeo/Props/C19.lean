/-
C19 — value objects: equality, hashing, pickling, dask tokens and caches are coherent.

Property theorems only.  Part (a): CRS caches over a heap with id reuse; part (b): the value
types.  The invariant proof behind `transformer_correct` lives in `Lemmas/C19a.lean`.
-/
import OdcGeo.Model.C19
import OdcGeo.Lemmas.C19a
import OdcGeo.Lemmas.C19b

namespace OdcGeo.C19

/-! ## Part (a) — caches -/

/-- **Transformer cache.**  After *any* history of real operations — constructions through
every kind of spec, copies, pickles, `del`, garbage collections, earlier transformer
requests, and every possible reuse of freed object ids by the allocator (the `pick`
arguments) — the transformer returned for `(a, b)` converts from the system of `a` to the
system of `b`. -/
theorem transformer_correct (W : World) (h : List Op) (hreal : ∀ op ∈ h, op.real = true)
    (a b : Nat) (xy : Bool) (ca cb : CrsObj)
    (ha : assoc a (run W h).1.vars = some ca) (hb : assoc b (run W h).1.vars = some cb) :
    (step W (run W h).1 (.transformer a b xy)).2 = .tr ca.info.sys cb.info.sys :=
  transformer_correct_aux W h hreal a b xy ca cb ha hb

/-- The invariant that carries it: the pyproj object of every live `CRS` instance is alive
with the attributes the instance believes it has, and is pinned by an entry of
`_crs_cache` (so its id can never be handed out again while a transformer key mentions it). -/
theorem cache_pins_every_crs (W : World) (h : List Op) (hreal : ∀ op ∈ h, op.real = true)
    (v : Nat) (c : CrsObj) (hv : assoc v (run W h).1.vars = some c) :
    (c.obj, c.info) ∈ (run W h).1.heap ∧ ∃ ke ∈ (run W h).1.cache, ke.2.obj = c.obj :=
  vars_pinned W h hreal v c hv

/-- Two live instances holding the same object id describe the same pyproj object. -/
theorem same_id_same_object (W : World) (h : List Op) (hreal : ∀ op ∈ h, op.real = true)
    (a b : Nat) (ca cb : CrsObj)
    (ha : assoc a (run W h).1.vars = some ca) (hb : assoc b (run W h).1.vars = some cb)
    (hab : ca.obj = cb.obj) : ca.info = cb.info :=
  vars_same_obj W h hreal a b ca cb ha hb hab

/-- A three-system world used by the concrete witnesses below. -/
def demoWorld : World where
  fromText := fun t =>
    if t = "A" then some ⟨0, "A", "WA", none⟩
    else if t = "B" then some ⟨1, "B", "WB", none⟩
    else if t = "C" then some ⟨2, "C", "WC", none⟩
    else if t = "WA" then some ⟨0, "WA", "WA", none⟩
    else none
  fromEpsg := fun _ => none

/-- What breaks when `_crs_cache` stops pinning (bounded / LRU cache, the artificial `evict`
step): the entry for `A` is evicted, `A` is dropped and collected, its id is reused for `C`,
and the transformer cached under `(id A, id B)` is returned for `(C, B)`: it converts
system 0 → 1 where 2 → 1 was asked for. -/
theorem transformer_stale_if_evicting_cex :
    (run demoWorld [.mk 0 (.str "A") 0, .mk 1 (.str "B") 0, .transformer 0 1 true, .evict 0,
        .drop 0, .gc, .mk 2 (.str "C") 0, .transformer 2 1 true]).2.getLast? = some (.tr 0 1) := by
  decide

/-- **History freedom of the string form (hence hash and token), partial.**
Full statement: `str(CRS(spec))` is the same after every history.  It is *false* for the
code as it is (finding F16, witness below) because a pyproj object used as a cache key
collides with its own WKT text.  Proved part: for `int` / `str` specs, after every history
that puts no pyproj object into the cache (no `CRS(pyproj_obj)`, no `CRS(dict)`), the
result `(str, _epsg)` — or the error — is the one of a fresh interpreter, provided pyproj
is coherent on spellings that share a key (`EPSG:n` in any letter case, `n`). -/
theorem crs_str_history_free_partial (W : World) (hW : TextCoherent W) (h : List Op)
    (ht : ∀ op ∈ h, op.textOnly = true) (spec : Spec) (hs : spec.textual = true) (pick : Nat) :
    ((construct W (run W h).1 spec pick).2.map (fun c => (c.str, c.epsg))) = freshOut W spec :=
  crs_str_history_free_aux W hW h ht spec hs pick

/-- F16 witness: the same spec `CRS(wkt_text)` prints as the WKT in a fresh interpreter but
as `A` when `CRS(pyproj_object)` was constructed first (and the other way round). -/
theorem crs_str_history_dependent_cex :
    (run demoWorld [.mk 0 (.str "WA") 0]).2.getLast? = some (.str "WA") ∧
    (run demoWorld [.pnewText 0 "A" 0, .mk 1 (.pyproj 0) 0, .mk 0 (.str "WA") 0]).2.getLast?
      = some (.str "A") ∧
    (run demoWorld [.pnewText 0 "A" 0, .mk 1 (.pyproj 0) 0]).2.getLast? = some (.str "A") ∧
    (run demoWorld [.mk 0 (.str "WA") 0, .pnewText 0 "A" 0, .mk 1 (.pyproj 0) 0]).2.getLast?
      = some (.str "WA") := by
  decide

end OdcGeo.C19
