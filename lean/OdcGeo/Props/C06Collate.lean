/-
C06 — `collate_substreams` / `_mpu_collate_op` for ANY number of sub-streams, and the writer's `max_write_sz`.

`_mpu_collate_op(substreams)` is one left fold over all the sub-stream roots (`Model/C06Dask.lean::foldl1`; no grouping, no
fan-in limit): no sub-stream can be dropped, whatever their number.
-/
import OdcGeo.Props.C06Dask

set_option linter.unusedVariables false
set_option linter.unusedSimpArgs false

namespace OdcGeo.C06
variable {α : Type}

/-- the merge tree of `collate_substreams([s₀, s₁, …])` over already built sub-stream trees -/
def collateTree (subs : List (Tree α)) : Option (Tree α) :=
  match subs with
  | [] => none                       -- `assert len(substreams) > 0`
  | t :: rest => some (foldl1 t rest)

/-- **the collate step keeps every sub-stream, in order, whatever their number**: partitions, bytes and observed entries of
the collated tree are those of the sub-streams, concatenated -/
theorem collate_keeps_every_substream (subs : List (Tree α)) (hne : subs ≠ []) :
    ∃ t, collateTree subs = some t ∧
      t.leaves = (subs.map Tree.leaves).sum ∧
      t.bytes = (subs.map Tree.bytes).flatten ∧
      t.obs = (subs.map Tree.obs).flatten ∧
      ((∀ s ∈ subs, s.NonEmpty) → t.NonEmpty) := by
  cases subs with
  | nil => exact absurd rfl hne
  | cons t0 rest =>
    have hl : (foldl1 t0 rest).leafList = leafListL (t0 :: rest) := by
      rw [foldl1_leafList, leafListL_cons]
    have gen : ∀ (ts : List (Tree α)),
        (leafListL ts).length = (ts.map Tree.leaves).sum ∧
        ((leafListL ts).map chunksBytes).flatten = (ts.map Tree.bytes).flatten ∧
        ((leafListL ts).map chunksObs).flatten = (ts.map Tree.obs).flatten := by
      intro ts
      induction ts with
      | nil => simp
      | cons x xs ih =>
        obtain ⟨i1, i2, i3⟩ := ih
        refine ⟨?_, ?_, ?_⟩
        · simp [i1, Tree.leaves_leafList x]
        · simp [i2, Tree.bytes_leafList x]
        · simp [i3, Tree.obs_leafList x]
    obtain ⟨g1, g2, g3⟩ := gen (t0 :: rest)
    refine ⟨foldl1 t0 rest, rfl, ?_, ?_, ?_, ?_⟩
    · rw [Tree.leaves_leafList, hl]; exact g1
    · rw [Tree.bytes_leafList, hl]; exact g2
    · rw [Tree.obs_leafList, hl]; exact g3
    · intro hs
      rw [Tree.nonEmpty_leafList, hl]
      intro p hp
      simp only [leafListL, List.mem_flatten, List.mem_map] at hp
      obtain ⟨l, ⟨x, hx, rfl⟩, hpl⟩ := hp
      exact (Tree.nonEmpty_leafList x).1 (hs x hx) p hpl

/-- **C06 stated on the collate step, for any number of sub-streams** (1, 5, 9, 1000 …): whatever merge tree each
sub-stream was folded with, the run over the collated tree does not fail, the callbacks see the observed entries of ALL
sub-streams, and the parts concatenate to header ++ the bytes of ALL sub-streams in order ++ footer. -/
theorem main_any_number_of_substreams (W : Writer) (spill wpc : Nat) (subs : List (Tree α))
    (mkHdr mkFtr : Option (List (Nat × Int) → List α))
    (hne : subs ≠ []) (hs : ∀ s ∈ subs, s.NonEmpty)
    (hcap : W.minPart + 1 + (subs.map Tree.leaves).sum * wpc ≤ W.maxPart + 1) :
    ∃ t wsF fp wsAll,
      collateTree subs = some t ∧
      run ⟨some W, spill, wpc, mkFtr.isNone⟩ t mkHdr mkFtr
        = .ok (.written wsF fp, wsAll, (subs.map Tree.obs).flatten) ∧
      partsBytes fp = optBytes (mkHdr.map (fun f => f (subs.map Tree.obs).flatten)) ++ (subs.map Tree.bytes).flatten ++
                      optBytes (mkFtr.map (fun f => f (subs.map Tree.obs).flatten)) ∧
      fp.Pairwise (fun a b => a.id < b.id) ∧
      (∀ p ∈ fp, W.minPart ≤ p.id ∧ p.id ≤ W.maxPart) ∧
      (∀ p ∈ fp.dropLast, W.minWrite ≤ p.data.length) ∧
      List.Perm wsAll fp := by
  obtain ⟨t, ht, hl, hb, ho, hn⟩ := collate_keeps_every_substream subs hne
  obtain ⟨wsF, fp, wsAll, hrun, h1, h2, h3, h4, h5⟩ :=
    main W spill wpc t mkHdr mkFtr (hn hs) (by rw [hl]; exact hcap)
  refine ⟨t, wsF, fp, wsAll, ht, by rw [← ho]; exact hrun, ?_, h2, h3, h4, h5⟩
  rw [h1, ho, hb]

/-- **no sub-stream is dropped**: the bytes of the `i`-th sub-stream sit in the finished object, as one block, right after
the header and the sub-streams before it — for every `i`, in particular for the tail beyond any group of four -/
theorem no_substream_dropped (W : Writer) (spill wpc : Nat) (subs : List (Tree α))
    (mkHdr mkFtr : Option (List (Nat × Int) → List α))
    (hne : subs ≠ []) (hs : ∀ s ∈ subs, s.NonEmpty)
    (hcap : W.minPart + 1 + (subs.map Tree.leaves).sum * wpc ≤ W.maxPart + 1)
    (i : Nat) (hi : i < subs.length) :
    ∃ t wsF fp wsAll,
      collateTree subs = some t ∧
      run ⟨some W, spill, wpc, mkFtr.isNone⟩ t mkHdr mkFtr
        = .ok (.written wsF fp, wsAll, (subs.map Tree.obs).flatten) ∧
      ((partsBytes fp).drop ((optBytes (mkHdr.map (fun f => f (subs.map Tree.obs).flatten))).length +
          ((subs.take i).map Tree.bytes).flatten.length)).take (subs[i].bytes.length) = subs[i].bytes := by
  obtain ⟨t, wsF, fp, wsAll, ht, hrun, hbytes, _⟩ :=
    main_any_number_of_substreams W spill wpc subs mkHdr mkFtr hne hs hcap
  refine ⟨t, wsF, fp, wsAll, ht, hrun, ?_⟩
  rw [hbytes, List.append_assoc]
  have hsl := slice_flatten (optBytes (mkHdr.map (fun f => f (subs.map Tree.obs).flatten)))
    (subs.map Tree.bytes) i (by simpa using hi)
  simp only [List.getElem_map, List.map_take] at hsl
  -- the footer behind does not matter: the block lies inside header ++ streams
  have hlen : (optBytes (mkHdr.map (fun f => f (subs.map Tree.obs).flatten))).length +
      ((subs.take i).map Tree.bytes).flatten.length + subs[i].bytes.length
      ≤ (optBytes (mkHdr.map (fun f => f (subs.map Tree.obs).flatten)) ++ (subs.map Tree.bytes).flatten).length := by
    have hL : i < (subs.map Tree.bytes).length := by simpa using hi
    have hsplit : (subs.map Tree.bytes).flatten =
        ((subs.take i).map Tree.bytes).flatten ++ (subs[i].bytes ++ ((subs.map Tree.bytes).drop (i + 1)).flatten) := by
      have h1 : (subs.map Tree.bytes).flatten
          = ((subs.map Tree.bytes).take i).flatten ++ ((subs.map Tree.bytes).drop i).flatten := by
        rw [← List.flatten_append, List.take_append_drop]
      rw [h1, List.drop_eq_getElem_cons hL, List.flatten_cons, List.getElem_map, List.map_take]
    rw [List.length_append, hsplit]
    simp only [List.length_append]
    omega
  rw [← List.append_assoc, List.drop_append_of_le_length (by omega), List.take_append_of_le_length]
  · simpa [List.map_take] using hsl
  · rw [List.length_drop]; omega

/-! ### `max_write_sz` -/

/-- all four limits a `PartsWriter` announces -/
structure WriterLimits where
  minWrite : Nat
  maxWrite : Nat
  minPart : Nat
  maxPart : Nat
  deriving Repr, DecidableEq

/-- what `_mpu.py` reads of them: `min_write_sz`, `min_part`, `max_part` — `max_write_sz` appears nowhere in the module -/
def WriterLimits.read (L : WriterLimits) : Writer := ⟨L.minWrite, L.minPart, L.maxPart⟩

/-- `mpu_write(...).compute()` for a writer with the full set of limits -/
def runL (L : WriterLimits) (spill wpc : Nat) (markFinal : Bool) (t : Tree α)
    (mkHdr mkFtr : Option (List (Nat × Int) → List α)) :=
  run ⟨some L.read, spill, wpc, markFinal⟩ t mkHdr mkFtr

/-- **`max_write_sz` never influences the result**: two writers that differ in `max_write_sz` only get exactly the same
writer calls, the same `finalise` list, the same failures — for every tree, spill size and callback (so the assembly neither
honours a small `max_write_sz` nor is disturbed by one; cf. `max_write_sz_not_enforced_cex`) -/
theorem run_independent_of_max_write_sz (L : WriterLimits) (m : Nat) (spill wpc : Nat) (markFinal : Bool) (t : Tree α)
    (mkHdr mkFtr : Option (List (Nat × Int) → List α)) :
    runL { L with maxWrite := m } spill wpc markFinal t mkHdr mkFtr = runL L spill wpc markFinal t mkHdr mkFtr := rfl

/-! ### non-vacuity -/

/-- six sub-streams (more than one group of four): the sixth is still there -/
example :
    let subs : List (Tree Nat) := (List.range 6).map fun i => .leaf [([i], (i : Int))]
    (collateTree subs).map Tree.bytes = some [0, 1, 2, 3, 4, 5] ∧ subs ≠ [] ∧ (∀ s ∈ subs, s.NonEmpty) ∧
      (1 + 1 + (subs.map Tree.leaves).sum * 1 ≤ 100 + 1) := by
  refine ⟨by decide, by decide, ?_, by decide⟩
  intro s hs
  simp only [List.mem_map, List.mem_range] at hs
  obtain ⟨i, _, rfl⟩ := hs
  simp [Tree.NonEmpty]

example : runL (α := Nat) ⟨2, 3, 1, 100⟩ 2 1 true (.leaf [([1, 2, 3, 4, 5, 6, 7, 8, 9], 0)]) none none
    = runL ⟨2, 1000, 1, 100⟩ 2 1 true (.leaf [([1, 2, 3, 4, 5, 6, 7, 8, 9], 0)]) none none := rfl

end OdcGeo.C06
