/-
C18, growth round 2 — the public entry points around the lazily initialised S3 writer: the in-process writer
with the bodies of its parts against the storage service's multipart rules, the glue of `upload` / `writer`,
a resumed upload, `_ensure_init(final_write=True)`, `cancel("all")` next to uploads of other keys, and
swallowed `Variable.get` timeouts (`_safe_get`) in the cluster protocol.  Property theorems only; helpers are in
`Lemmas/C18Up.lean`.
-/
import OdcGeo.Model.C18Up
import OdcGeo.Lemmas.C18Up
import OdcGeo.Props.C18

set_option linter.unusedVariables false
set_option linter.unusedSimpArgs false

namespace OdcGeo.C18

/-! ## The in-process S3 writer, with bodies -/

/-- **s3_writer_contract**: ANY sequence of `writer(part, data)` calls on a fresh in-process writer (any part
numbers, repeats allowed, any order), followed by `finalise` of an ascending non-empty list of parts that were
written (`f p` = the last body written under `p`) whose non-last bodies have the service's minimal size:
no call fails, exactly one upload is initiated - by the first call, whichever it is - every storage call
carries its id, the completion lists exactly `ps`, and the object the service assembles is the concatenation
of the listed bodies in that order. -/
theorem s3_writer_contract (m : Nat) (ws : List (Nat × Bytes)) (ps : List Nat) (f : Nat → Bytes)
    (hne : ps ≠ []) (hasc : ps.Pairwise (· < ·))
    (hw : ∀ p ∈ ps, (ws.foldl Up.put []).lookup p = some (f p))
    (hsz : ∀ b ∈ (ps.map f).dropLast, m ≤ b.length) :
    (Up.runWrites {} ws).2 = none ∧
      (Up.finalise m (Up.runWrites {} ws).1 ps).2 = none ∧
      (Up.finalise m (Up.runWrites {} ws).1 ps).1.object = some (ps.flatMap f) ∧
      (Up.finalise m (Up.runWrites {} ws).1 ps).1.creates = 1 ∧
      (∀ c ∈ (Up.finalise m (Up.runWrites {} ws).1 ps).1.calls, c.id = 1) ∧
      (Up.finalise m (Up.runWrites {} ws).1 ps).1.calls.countP Up.UCall.isCreate = 1 ∧
      (Up.finalise m (Up.runWrites {} ws).1 ps).1.calls.head? = some (.complete 1 ps) := by
  obtain ⟨h1, h2, _⟩ := Up.runWrites_fresh ws
  have he : ps.isEmpty = false := by cases ps <;> simp_all
  have hfe : Up.finalise m (Up.runWrites {} ws).1 ps = Up.finalise m (Up.ensureInit (Up.runWrites {} ws).1) ps := by
    simp only [Up.finalise, he, Up.ensureInit_started h2, Bool.false_eq_true, if_false]
  rw [hfe]
  obtain ⟨g1, g2, g3, g4, g5, g6, _⟩ := Up.finalise_started h2 m ps f hne hasc hw hsz
  exact ⟨h1, g1, g2, g3, g4, g5, g6⟩

/-- End to end for the caller of the S3 writer: parts with strictly increasing numbers, each written once (in
ANY order - `ws` is the order of the calls, `ps` the ascending order), all but the last of at least the minimal
size: the object is the concatenation of the data in part-number order. -/
theorem s3_write_then_finalise (m : Nat) (ws sorted : List (Nat × Bytes)) (hne : sorted ≠ [])
    (hperm : List.Perm ws sorted) (hasc : (sorted.map (·.1)).Pairwise (· < ·))
    (hsz : ∀ w ∈ sorted.dropLast, m ≤ w.2.length) :
    (Up.runWrites {} ws).2 = none ∧
      (Up.finalise m (Up.runWrites {} ws).1 (sorted.map (·.1))).2 = none ∧
      (Up.finalise m (Up.runWrites {} ws).1 (sorted.map (·.1))).1.object = some (sorted.flatMap (·.2)) ∧
      (Up.finalise m (Up.runWrites {} ws).1 (sorted.map (·.1))).1.creates = 1 := by
  have hnds : (sorted.map (·.1)).Nodup := hasc.imp (fun h => Nat.ne_of_lt h)
  have hnd : (ws.map (·.1)).Nodup := (hperm.map (·.1)).nodup_iff.2 hnds
  let f : Nat → Bytes := fun p => match sorted.lookup p with | some d => d | none => []
  have hlk : ∀ w ∈ sorted, sorted.lookup w.1 = some w.2 := Sink.assoc_lookup sorted hnds
  have hf : ∀ w ∈ sorted, f w.1 = w.2 := fun w hw => by simp only [f, hlk w hw]
  have hw : ∀ p ∈ sorted.map (·.1), (ws.foldl Up.put []).lookup p = some (f p) := by
    intro p hp
    obtain ⟨w, hwm, rfl⟩ := List.mem_map.1 hp
    rw [Up.lookup_foldl_put ws hnd w (hperm.mem_iff.2 hwm), hf w hwm]
  have hmap : (sorted.map (·.1)).map f = sorted.map (·.2) := by
    rw [List.map_map]; exact List.map_congr_left (fun w hw => hf w hw)
  have hsz' : ∀ b ∈ ((sorted.map (·.1)).map f).dropLast, m ≤ b.length := by
    rw [hmap]
    intro b hb
    obtain ⟨w, hwm, rfl⟩ := Up.mem_dropLast_map (·.2) sorted b hb
    exact hsz w hwm
  obtain ⟨h1, h2, h3, h4, _⟩ := s3_writer_contract m ws (sorted.map (·.1)) f (by simpa using hne) hasc hw hsz'
  refine ⟨h1, h2, ?_, h4⟩
  rw [h3, List.flatMap_map]
  exact congrArg some (Sink.flatMap_congr' _ _ _ (fun w hw => hf w hw))

/-- non-vacuity of the hypotheses of `s3_write_then_finalise` / `s3_writer_contract`: parts 3, 1, 2 written in
that order, minimal size 2 -/
example :
    let ws : List (Nat × Bytes) := [(3, [9]), (1, [1, 1]), (2, [2, 2])]
    let sorted : List (Nat × Bytes) := [(1, [1, 1]), (2, [2, 2]), (3, [9])]
    sorted ≠ [] ∧ List.Perm ws sorted ∧ (sorted.map (·.1)).Pairwise (· < ·) ∧
      (∀ w ∈ sorted.dropLast, 2 ≤ w.2.length) := by decide

/-- … and what the theorems then say about it -/
example : (Up.finalise 2 (Up.runWrites {} [(3, [9]), (1, [1, 1]), (2, [2, 2])]).1 [1, 2, 3]).1.object =
    some [1, 1, 2, 2, 9] := by decide

/-- what the service's rules reject (each replayed on the fake service through the real writer): a part below
the minimal size that is not the last, a list that is not ascending, an unknown part, an empty list -/
theorem s3_service_rejects :
    (Up.finalise 2 (Up.runWrites {} [(1, [1]), (2, [2, 2])]).1 [1, 2]).2 = some .entityTooSmall ∧
    (Up.finalise 1 (Up.runWrites {} [(1, [1]), (2, [2, 2])]).1 [2, 1]).2 = some .invalidPartOrder ∧
    (Up.finalise 1 (Up.runWrites {} [(1, [1]), (2, [2, 2])]).1 [1, 3]).2 = some .invalidPart ∧
    (Up.finalise 1 (Up.runWrites {} [(1, [1])]).1 []).2 = some .assertion ∧
    (Up.finalise 1 (Up.runWrites {} [(1, [1])]).1 []).1.calls.length = 2 := by decide

/-- after the completion the object keeps the completed id (the code as it is): a further write goes to the
dead upload and is rejected, nothing new is initiated -/
theorem s3_write_after_finalise_rejected :
    let s := (Up.finalise 1 (Up.runWrites {} [(1, [1])]).1 [1]).1
    (Up.write s (2, [2])).2 = some .noSuchUpload ∧ (Up.write s (2, [2])).1.creates = 1 := by decide

/-! ## The file sink over several rounds -/

/-- **sink_round_overwrites_destination**: a sink whose parts directory holds no part file - never used, or left
by a complete earlier round - whatever its destination holds already (an earlier export) and whether or not the
directory exists: parts written once each and finalised in the order written replace the destination by the
concatenation of the new data; nothing fails, the parts directory is removed. -/
theorem sink_round_overwrites_destination (s : Sink) (hs : s.parts = []) (ws : List (Nat × Bytes)) (hne : ws ≠ [])
    (hnd : (ws.map (·.1)).Nodup) :
    (Sink.finalise true (ws.foldl Sink.write s) (ws.map (·.1)) false).2 = none ∧
      (Sink.finalise true (ws.foldl Sink.write s) (ws.map (·.1)) false).1.dst = some (ws.flatMap (·.2)) ∧
      (Sink.finalise true (ws.foldl Sink.write s) (ws.map (·.1)) false).1.dirExists = false ∧
      (Sink.finalise true (ws.foldl Sink.write s) (ws.map (·.1)) false).1.parts = [] := by
  let f : Nat → Bytes := fun p => match ws.lookup p with | some d => d | none => []
  have hlk : ∀ w ∈ ws, ws.lookup w.1 = some w.2 := Sink.assoc_lookup ws hnd
  have hw : ∀ p ∈ ws.map (·.1), (ws.foldl Sink.write s).lookup p = some (f p) := by
    intro p hp
    obtain ⟨w, hwm, rfl⟩ := List.mem_map.1 hp
    rw [Sink.lookup_foldl_write ws hnd s w hwm]
    simp only [f, hlk w hwm]
  have hall : ∀ q ∈ (ws.foldl Sink.write s).parts, q.1 ∈ ws.map (·.1) := by
    intro q hq
    rcases Sink.keys_foldl_write ws s q hq with h | h
    · exact h
    · rw [hs] at h; simp at h
  have hne' : ws.map (·.1) ≠ [] := by simpa using hne
  have h1 := sink_finalise_concat _ _ false f hne' hnd hw
  have h2 := sink_finalise_cleanup _ _ f hne' hnd hw hall
  refine ⟨h2.1, ?_, h2.2.1, h2.2.2⟩
  rw [h1.1, List.flatMap_map]
  exact congrArg some (Sink.flatMap_congr' _ _ _ (fun w hwm => by simp only [f, hlk w hwm]))

/-- two rounds on one sink: the second export replaces the first -/
example :
    let r1 := (Sink.finalise true ([(1, [1]), (2, [2])].foldl Sink.write {}) [1, 2] false).1
    r1.parts = [] ∧ r1.dst = some [1, 2] ∧
      (Sink.finalise true ([(2, [7]), (1, [8, 8])].foldl Sink.write r1) [2, 1] false).1.dst = some [7, 8, 8] := by decide

/-! ## Glue of `upload` and `writer` -/

/-- `upload(..., spill_sz=0)` runs `mpu_write` without a writer; any other spill size hands it the lazily
initialised S3 writer, whose limits are those of the S3 multipart API -/
theorem upload_writer_spec (spill : Nat) :
    (spill = 0 → uploadWriter spill = none) ∧
      (spill ≠ 0 → uploadWriter spill = some ⟨5 * 1024 * 1024, 1, 10000⟩) := by
  refine ⟨fun h => by simp [uploadWriter, h], fun h => ?_⟩
  simp only [uploadWriter, h, ne_eq, not_false_eq_true, if_true, s3Writer]
  decide

/-- `writer(kw, client=c)`: an explicit client wins over the ambient one; the writer is left unprepared (no
shared variable is created or reset) exactly when neither exists -/
theorem writer_prep_spec (explicit ambient : Bool) :
    (writerPrep explicit ambient = none ↔ explicit = false ∧ ambient = false) ∧
      (explicit = true → writerPrep explicit ambient = some true) ∧
      (explicit = false → ambient = true → writerPrep explicit ambient = some false) := by
  cases explicit <;> cases ambient <;> simp [writerPrep]

/-! ## A resumed upload; `_ensure_init(final_write=True)` -/

/-- **resumed_never_initiates**: an object built with the id of an active upload (`uploadId=` argument)
never initiates: every write goes under the resumed id, nothing fails -/
theorem resumed_never_initiates (n : Nat) :
    (Seq.run Seq.resumed (List.replicate n .write)).1.creates = 1 ∧
      (Seq.run Seq.resumed (List.replicate n .write)).1.uploadId = 1 ∧
      (∀ c ∈ (Seq.run Seq.resumed (List.replicate n .write)).2.1, ∃ q, c = Seq.SCall.upload q 1) ∧
      (∀ b ∈ (Seq.run Seq.resumed (List.replicate n .write)).2.2, b = true) := by
  obtain ⟨h1, h2, _, h4, h5⟩ := Seq.writes_started 1 (by decide) n Seq.resumed rfl (by decide)
  exact ⟨h2, h1, h4, h5⟩

/-- **ensure_final_never_initiates**: `_ensure_init(final_write=True)` makes no storage call and leaves the
object as it was - started or not - so the next ordinary first write still initiates exactly once -/
theorem ensure_final_never_initiates (s : Seq.State) :
    Seq.step s .ensureFinal = (s, [], true) ∧
      (Seq.run {} [.ensureFinal, .write, .ensureFinal, .write]).2.1 =
        [.create 1, .upload 1 1, .upload 2 1] := by
  exact ⟨rfl, by decide⟩

/-! ## `cancel("all")` next to active uploads of other keys -/

/-- **cancel_all_ignores_other_keys** (the repaired `list_active`, which keeps only the entries of its own
key): whatever uploads of longer keys (`k.ovr`, `k.aux.xml`, …) are active, `cancel("all")` aborts exactly the
object's own active uploads, succeeds, resets the object and leaves the others alone. -/
theorem cancel_all_ignores_other_keys (s : SeqK.State) (hnd : s.own.active.Nodup) :
    (SeqK.step true s (.own .cancelAll)).2.2 = true ∧
      (SeqK.step true s (.own .cancelAll)).1.own.uploadId = 0 ∧
      (SeqK.step true s (.own .cancelAll)).1.own.active = [] ∧
      (SeqK.step true s (.own .cancelAll)).1.foreign = s.foreign ∧
      (SeqK.step true s (.own .cancelAll)).2.1 = .list :: s.own.active.map .abort := by
  obtain ⟨h1, h2, h3, _⟩ := SeqK.abortLoop_own s.own.active s.own hnd (fun _ h => h)
  simp only [SeqK.step, SeqK.listActive, if_true, h1, h2]
  refine ⟨trivial, trivial, ?_, trivial, trivial⟩
  show (SeqK.abortLoop s.own s.own.active).1.active = []
  rw [h3]
  apply List.filter_eq_nil_iff.2
  intro i hi
  simp [hi]

/-- non-vacuity: one own active upload next to two of longer keys -/
example : (({ own := { uploadId := 2, creates := 3, active := [2] }, foreign := [1, 3] } : SeqK.State).own.active).Nodup ∧
    (SeqK.step true { own := { uploadId := 2, creates := 3, active := [2] }, foreign := [1, 3] } (.own .cancelAll)).1.foreign
      = [1, 3] := by decide

/-- without such uploads the code as found and the repaired code agree -/
theorem cancel_all_no_foreign (s : SeqK.State) (h : s.foreign = []) (o : SeqK.Op) :
    SeqK.step false s o = SeqK.step true s o := by
  cases o with
  | own o => cases o <;> simp [SeqK.step, SeqK.listActive, h]
  | foreignStart => rfl
  | foreignDone => rfl

/-- **cancel_all_foreign_prefix_cex** (finding, the code as found): an upload for `k.ovr` is in progress;
this object (key `k`) writes a part, then `cancel("all")`: the listing by PREFIX returns the other key's upload
too, its abort under key `k` is rejected (NoSuchUpload), the exception skips `self.uploadId = ""` - the
object's own upload IS aborted but the object still carries its id, so the next write goes to the dead upload
and fails.  On the repaired code the same sequence initiates a fresh upload and succeeds. -/
theorem cancel_all_foreign_prefix_cex :
    let ops : List SeqK.Op := [.foreignStart, .own .write, .own .cancelAll, .own .write]
    (SeqK.run false {} ops).2.2 = [true, true, false, false] ∧
      (SeqK.run false {} ops).1.own.uploadId = 2 ∧ (SeqK.run false {} ops).1.own.active = [] ∧
      (SeqK.run true {} ops).2.2 = [true, true, true, true] ∧
      (SeqK.run true {} ops).1.own.uploadId = 3 ∧ (SeqK.run true {} ops).1.foreign = [1] := by decide

/-! ## Swallowed `Variable.get` timeouts in the cluster protocol (`_safe_get`) -/

/-- `dist_once` (Props/C18.lean) quantifies over every `Dist.Cfg`, hence over every assignment of swallowed
timeouts to FIRST reads (`spurGet1`): a thread whose unlocked read times out although the variable is set
simply takes the lock and reads again.  Example: worker 1's first read times out after worker 0 has published
the id - still one upload, both parts under it. -/
theorem dist_spurious_get1_example :
    let cfg : Dist.Cfg := { kind := fun t => .write (t + 1), worker := fun t => t, spurGet1 := fun t => t = 1 }
    let s := Dist.run cfg (List.replicate 16 0 ++ List.replicate 12 1)
    s.pc 0 = .done ∧ s.pc 1 = .done ∧ s.creates = 1 ∧ s.calls = [.upload 2 1, .upload 1 1, .create 1] ∧
      s.wid 1 = 1 := by decide

/-- the refinement used by the driver: without second-read timeouts `stepSpur2` is `step` -/
theorem stepSpur2_none (cfg : Dist.Cfg) (s : Dist.State) (t : Nat) :
    Dist.stepSpur2 (fun _ => false) cfg s t = Dist.step cfg s t := by
  unfold Dist.stepSpur2
  split <;> simp

/-- **dist_spurious_get2_cex**: the protocol does NOT survive a swallowed timeout of the SECOND read (under
the lock): worker 1 takes `None` for "nobody has initiated" and initiates a second upload; its part goes under
the other id.  (`_safe_get` cannot tell "unset" from "scheduler slow": known limitation, META.note.) -/
theorem dist_spurious_get2_cex :
    let cfg : Dist.Cfg := { kind := fun t => .write (t + 1), worker := fun t => t, spurGet1 := fun t => t = 1 }
    let s := Dist.runSpur2 (fun t => t = 1) cfg Dist.init (List.replicate 16 0 ++ List.replicate 16 1)
    s.creates = 2 ∧ s.calls = [.upload 2 2, .create 2, .upload 1 1, .create 1] ∧ s.var = some 2 := by decide

/-! ## Crash points -/

/-- **dist_once_with_crashes**: a worker may die with a thread at ANY program point outside the publication window
(the three steps between the service's answer to `create_multipart_upload` and `shared_state.set(id)`), any number
of times, anywhere in any schedule - inside the locked block the scheduler frees the lock when the dead worker's
lease expires: still at most one upload is initiated, nobody fails because of it, every storage call carries the
one id, the lock is held exactly by the live thread inside the block.  (A thread that is merely never scheduled
again - a crash without lease expiry - is already covered by `dist_once`, which holds for every schedule.) -/
theorem dist_once_with_crashes (cfg : Dist.Cfg) (evs : List Dist.Ev)
    (hc : Dist.crashesOutsideWindow cfg Dist.init evs = true)
    (hd : (Dist.runEv cfg Dist.init evs).deleted = false) : Dist.Once (Dist.runEv cfg Dist.init evs) := by
  have hI : Dist.Inv cfg (Dist.runEv cfg Dist.init evs) := Dist.runEv_inv cfg evs _ (Dist.inv_init cfg) hc hd
  exact ⟨⟨hI.ids.creates_le, hI.count⟩, fun t h => by have := hI.pcs t; rw [h] at this; exact this,
    hI.calls, ⟨hI.ids.wid_range, hI.ids.var_range⟩, fun t => (hI.mutex t).symm⟩

/-- non-vacuity: worker 0 dies inside the locked block before it has called the service (at the second read);
the lease expires, worker 1 initiates the one upload and writes its part -/
example :
    let cfg : Dist.Cfg := { kind := fun t => .write (t + 1), worker := fun t => t }
    let evs : List Dist.Ev := (List.replicate 4 (.step 0)) ++ [.crash 0] ++ List.replicate 16 (.step 1)
    Dist.crashesOutsideWindow cfg Dist.init evs = true ∧ (Dist.runEv cfg Dist.init evs).deleted = false ∧
      (Dist.runEv cfg Dist.init evs).pc 1 = .done ∧ (Dist.runEv cfg Dist.init evs).creates = 1 ∧
      (Dist.runEv cfg Dist.init evs).lock = none := by decide

/-- **dist_crash_in_window_cex**: the hypothesis is needed.  Worker 0 dies after the service created the upload and
before its id was published: the lease expires, worker 1 finds no id and initiates a SECOND upload.  Upload 1 stays
on the service as an orphan that holds no part (only `cancel("all")` / a lifecycle rule removes it); everything
after the crash goes under upload 2 - the object is still assembled correctly, the exactly-once claim is lost. -/
theorem dist_crash_in_window_cex :
    let cfg : Dist.Cfg := { kind := fun t => .write (t + 1), worker := fun t => t }
    let evs : List Dist.Ev := (List.replicate 7 (.step 0)) ++ [.crash 0] ++ List.replicate 16 (.step 1)
    Dist.crashesOutsideWindow cfg Dist.init evs = false ∧ (Dist.runEv cfg Dist.init evs).creates = 2 ∧
      (Dist.runEv cfg Dist.init evs).calls = [.upload 2 2, .create 2, .create 1] ∧
      (Dist.runEv cfg Dist.init evs).var = some 2 := by decide

/-- the same crash as the harness injects it (the storage call returns on the service, the worker dies before it
sees the answer: `stepFx`), followed by the re-run of the dead task and a finalise: three calls under upload 2,
the orphan 1 untouched -/
theorem dist_crash_before_publish_cex :
    let cfg : Dist.Cfg := { kind := fun t => if t = 3 then .fin else .write (if t = 2 then 1 else t + 1),
                            worker := fun t => t }
    let s := Dist.runFx (fun _ => false) (fun t => t = 0) cfg Dist.init
      (List.replicate 8 0 ++ List.replicate 16 1 ++ List.replicate 12 2 ++ List.replicate 12 3)
    s.creates = 2 ∧ s.pc 0 = .faulted ∧ s.pc 1 = .done ∧ s.pc 2 = .done ∧ s.pc 3 = .done ∧
      s.calls = [.complete 2, .upload 1 2, .upload 2 2, .create 2, .create 1] := by decide

/-- **dist_lost_result_retry**: a worker dies between `upload_part` and returning its record (`Cfg.crashCall`,
covered by `dist_once` like every other `Cfg`): dask re-runs the task elsewhere, the part is uploaded again under
the SAME upload id (the service keeps the later body), nothing else is initiated. -/
theorem dist_lost_result_retry :
    let cfg : Dist.Cfg := { kind := fun t => .write (if t = 2 then 1 else t + 1), worker := fun t => t,
                            crashCall := fun t => t = 0 }
    let s := Dist.run cfg (List.replicate 16 0 ++ List.replicate 12 1 ++ List.replicate 12 2)
    s.pc 0 = .faulted ∧ s.pc 1 = .done ∧ s.pc 2 = .done ∧ s.creates = 1 ∧
      s.calls = [.upload 1 1, .upload 2 1, .upload 1 1, .create 1] := by decide

/-- **local_crash_before_setid_cex**: in-process, a thread killed between the service's answer and
`self.uploadId = uploadId` (the exception leaves the `with` block, the lock is freed): the next thread initiates a
second upload; upload 1 is an orphan without parts. -/
theorem local_crash_before_setid_cex :
    let cfg : Local.Cfg := { kind := fun t => .write (t + 1) }
    let s := (List.replicate 8 0 ++ List.replicate 14 1).foldl (Local.stepCrashC (fun t => t = 0) cfg) Local.init
    s.creates = 2 ∧ s.pc 0 = .faulted ∧ s.pc 1 = .done ∧ s.held = none ∧
      s.calls = [.upload 2 2, .create 2, .create 1] := by decide

/-- … while a thread killed after its `upload_part` was carried out (`Local.Cfg.crashCall`, inside `local_once`)
changes nothing for the others -/
theorem local_lost_result_retry :
    let cfg : Local.Cfg := { kind := fun t => .write (if t = 2 then 1 else t + 1), crashCall := fun t => t = 0 }
    let s := Local.run cfg (List.replicate 14 0 ++ List.replicate 8 1 ++ List.replicate 8 2)
    s.pc 0 = .faulted ∧ s.pc 1 = .done ∧ s.pc 2 = .done ∧ s.creates = 1 ∧
      s.calls = [.upload 1 1, .upload 2 1, .upload 1 1, .create 1] := by decide

/-- **local_once_with_crashes**: the in-process counterpart of `dist_once_with_crashes`.  An exception may end a
thread at ANY program point except the single one between the service's answer to `create_multipart_upload` and
`self.uploadId = uploadId` (inside the `with` block the lock is released on the way out), any number of threads, anywhere
in any schedule: every guarantee of `local_once` stays. -/
theorem local_once_with_crashes (cfg : Local.Cfg) (hr : cfg.recheck = true) (ha : cfg.atomicLock = true)
    (evs : List Local.Ev) (hc : Local.crashesOutsideWindow cfg Local.init evs = true) :
    Local.Once (Local.runEv cfg Local.init evs) := by
  have hI : Local.Inv cfg (Local.runEv cfg Local.init evs) :=
    Local.runEv_inv cfg hr ha evs _ (Local.inv_init cfg) hc
  exact ⟨⟨hI.ids.2.2, hI.count⟩, fun t h => by have := hI.pcs t; rw [h] at this; exact this,
    hI.calls, hI.ids.1, fun t t' h h' => hI.lk.mutex h h',
    fun t h => ⟨hI.lk.sel t (Local.usesLock_of_inCS h), hI.lk.holds t h⟩, hI.lk.only⟩

/-- non-vacuity: thread 0 dies inside the block right before it would call the service; thread 1 initiates the upload -/
example :
    let cfg : Local.Cfg := { kind := fun t => .write (t + 1) }
    let evs : List Local.Ev := List.replicate 7 (.step 0) ++ [.crash 0] ++ List.replicate 14 (.step 1)
    Local.crashesOutsideWindow cfg Local.init evs = true ∧ (Local.runEv cfg Local.init evs).pc 1 = .done ∧
      (Local.runEv cfg Local.init evs).creates = 1 ∧ (Local.runEv cfg Local.init evs).held = none := by decide

/-- … and the excluded point is needed (one step later the same crash orphans upload 1) -/
theorem local_crash_in_window_cex :
    let cfg : Local.Cfg := { kind := fun t => .write (t + 1) }
    let evs : List Local.Ev := List.replicate 8 (.step 0) ++ [.crash 0] ++ List.replicate 14 (.step 1)
    Local.crashesOutsideWindow cfg Local.init evs = false ∧ (Local.runEv cfg Local.init evs).creates = 2 := by decide

/-- **sink_crash_keeps_all_bytes**: `MPUFileSink.finalise` interrupted after `k ≥ 1` of the listed parts (distinct,
all written): the destination holds exactly the concatenation of those `k` parts and every later part file is still
in the parts directory with its content - no byte is lost or duplicated: destination ++ remaining parts = the whole. -/
theorem sink_crash_keeps_all_bytes (s : Sink) (ps : List Nat) (k : Nat) (f : Nat → Bytes) (hk : 1 ≤ k)
    (hnd : ps.Nodup) (hne : ps ≠ []) (hw : ∀ p ∈ ps, s.lookup p = some (f p)) :
    (s.finaliseCrash ps k).dst = some ((ps.take k).flatMap f) ∧
      (∀ p ∈ ps.drop k, (s.finaliseCrash ps k).lookup p = some (f p)) ∧
      (ps.take k).flatMap f ++ (ps.drop k).flatMap f = ps.flatMap f := by
  have hsplit : ps.take k ++ ps.drop k = ps := List.take_append_drop k ps
  have hnd2 : (ps.take k ++ ps.drop k).Nodup := by rw [hsplit]; exact hnd
  have hdisj := (List.nodup_append.1 hnd2)
  cases htk : ps.take k with
  | nil =>
    exfalso
    cases ps with
    | nil => exact hne rfl
    | cons a l => cases k with
      | zero => omega
      | succ n => simp at htk
  | cons first rest =>
    have hmem : ∀ p ∈ first :: rest, p ∈ ps := fun p hp => List.mem_of_mem_take (htk ▸ hp)
    have hndt : (first :: rest).Nodup := htk ▸ hdisj.1
    have hnd' := List.nodup_cons.1 hndt
    have hf := hw first (hmem first List.mem_cons_self)
    obtain ⟨dir, parts, dst⟩ := s
    have hw1 : ∀ q ∈ rest,
        (Sink.mk dir (parts.filter (fun x => x.1 != first)) (some (f first))).lookup q = some (f q) := by
      intro q hq
      have hqp : q ≠ first := fun e => hnd'.1 (e ▸ hq)
      have := Sink.lookup_unlink ⟨dir, parts, dst⟩ q first
      simp only [Sink.unlink, Sink.lookup, hqp, if_false] at this ⊢
      rw [this]
      exact hw q (hmem q (List.mem_cons_of_mem _ hq))
    have h := Sink.appendParts_ok false f rest _ hnd'.2 hw1
    refine ⟨?_, ?_, ?_⟩
    · simp only [Sink.finaliseCrash, htk, hf, Sink.unlink, h]
      simp [List.flatMap_cons]
    · intro p hp
      have hpn : p ∉ first :: rest := fun hin => by
        have := hdisj.2.2 p (htk ▸ hin) p hp
        exact this rfl
      have hp1 : p ≠ first := fun e => hpn (e ▸ List.mem_cons_self)
      have hp2 : p ∉ rest := fun e => hpn (List.mem_cons_of_mem _ e)
      simp only [Sink.finaliseCrash, htk, hf, Sink.unlink, h, Bool.false_eq_true, if_false]
      simp only [Sink.lookup]
      rw [Sink.lookup_filter_notin _ rest p hp2]
      have := Sink.lookup_unlink ⟨dir, parts, dst⟩ p first
      simp only [Sink.unlink, Sink.lookup, hp1, if_false] at this
      rw [this]
      exact hw p (List.mem_of_mem_drop hp)
    · rw [← List.flatMap_append, ← htk, hsplit]

/-- **sink_finalise_retry_after_crash_cex**: what is NOT guaranteed: `finalise` is not restartable.  After a crash
past the rename a second `finalise` of the same list raises FileNotFoundError (the first part file is gone) and the
destination stays a strict prefix - visible under its final name; resuming needs a caller who appends the
remaining parts itself. -/
theorem sink_finalise_retry_after_crash_cex :
    let s := [(1, [97]), (2, [98, 98]), (3, [99])].foldl Sink.write {}
    let c := s.finaliseCrash [1, 2, 3] 2
    c.dst = some [97, 98, 98] ∧ c.lookup 3 = some [99] ∧ c.dirExists = true ∧
      (Sink.finalise true c [1, 2, 3] false).2 = some .fileNotFound ∧
      (Sink.finalise true c [1, 2, 3] false).1.dst = some [97, 98, 98] ∧
      (Sink.finalise true (s.finaliseCrash [1, 2, 3] 0) [1, 2, 3] false).1.dst = some [97, 98, 98, 99] := by decide

/-- **sink_crash_bytes_prefix**: the append of the next part cut after ANY number `j` of its bytes (after `k ≥ 1`
complete parts): the destination is the first `k` parts followed by the first `j` bytes of the next - always a PREFIX
of the final content - and every part from the interrupted one on is still on disk with its whole content. -/
theorem sink_crash_bytes_prefix (s : Sink) (ps : List Nat) (k j : Nat) (f : Nat → Bytes) (hk : 1 ≤ k)
    (hk2 : k < ps.length) (hnd : ps.Nodup) (hw : ∀ p ∈ ps, s.lookup p = some (f p)) :
    (∃ next tl, ps.drop k = next :: tl ∧
      (s.finaliseCrashBytes ps k j).dst = some ((ps.take k).flatMap f ++ (f next).take j)) ∧
      (∃ b, (s.finaliseCrashBytes ps k j).dst = some b ∧ b <+: ps.flatMap f) ∧
      (∀ p ∈ ps.drop k, (s.finaliseCrashBytes ps k j).lookup p = some (f p)) := by
  have hne : ps ≠ [] := fun e => by rw [e] at hk2; simp at hk2
  obtain ⟨h1, h2, h3⟩ := sink_crash_keeps_all_bytes s ps k f hk hnd hne hw
  cases hd : ps.drop k with
  | nil =>
    exfalso
    have := congrArg List.length hd
    simp at this; omega
  | cons next tl =>
    have hnext : (s.finaliseCrash ps k).lookup next = some (f next) := h2 next (hd ▸ List.mem_cons_self)
    have hdst : (s.finaliseCrashBytes ps k j).dst = some ((ps.take k).flatMap f ++ (f next).take j) := by
      simp only [Sink.finaliseCrashBytes, hd, List.head?_cons, hnext, h1, Option.map_some]
    have hlk : ∀ p, (s.finaliseCrashBytes ps k j).lookup p = (s.finaliseCrash ps k).lookup p := by
      intro p
      simp only [Sink.finaliseCrashBytes, hd, List.head?_cons, hnext]
      rfl
    refine ⟨⟨next, tl, rfl, hdst⟩, ⟨_, hdst, ?_⟩, fun p hp => by rw [hlk]; exact h2 p (hd ▸ hp)⟩
    rw [← h3, hd, List.flatMap_cons, ← List.append_assoc]
    exact (List.prefix_append_right_inj _).2 (List.take_prefix j (f next)) |>.trans (List.prefix_append _ _)

/-- non-vacuity: three parts, crash inside the append of the third -/
example :
    let s := [(1, [97]), (2, [98, 98]), (3, [99, 99, 99])].foldl Sink.write {}
    (s.finaliseCrashBytes [1, 2, 3] 2 1).dst = some [97, 98, 98, 99] ∧
      (s.finaliseCrashBytes [1, 2, 3] 2 1).lookup 3 = some [99, 99, 99] := by decide

/-- **sink_kill_keeps_all_bytes** (the repaired sink, which flushes before it unlinks): a KILL of the process after `k`
parts is the part-granular crash - destination = first `k` parts, the rest on disk, nothing lost -/
theorem sink_kill_keeps_all_bytes (s : Sink) (ps : List Nat) (k : Nat) (f : Nat → Bytes) (hk : 1 ≤ k)
    (hnd : ps.Nodup) (hne : ps ≠ []) (hw : ∀ p ∈ ps, s.lookup p = some (f p)) :
    (s.finaliseKill true ps k).dst = some ((ps.take k).flatMap f) ∧
      (∀ p ∈ ps.drop k, (s.finaliseKill true ps k).lookup p = some (f p)) := by
  have h := sink_crash_keeps_all_bytes s ps k f hk hnd hne hw
  simp only [Sink.finaliseKill, Bool.true_or, if_true]
  exact ⟨h.1, h.2.1⟩

/-- **sink_kill_loses_buffered_bytes_cex** (finding, the code as found): parts of 3 and 2 bytes after a first part; the
process is killed after part 2 was appended and unlinked: the destination holds the first part only, part 2's file is
gone - its bytes existed only in the process's write buffer.  (The same happens without any kill when the flush at
close fails, e.g. disk full: every part is already unlinked.)  With the flush before the unlink nothing is lost. -/
theorem sink_kill_loses_buffered_bytes_cex :
    let s := [(1, [65, 65, 65, 65]), (2, [98, 98, 98]), (3, [99, 99])].foldl Sink.write {}
    (s.finaliseKill false [1, 2, 3] 2).dst = some [65, 65, 65, 65] ∧
      (s.finaliseKill false [1, 2, 3] 2).lookup 2 = none ∧
      (s.finaliseKill false [1, 2, 3] 2).lookup 3 = some [99, 99] ∧
      (s.finaliseKill true [1, 2, 3] 2).dst = some [65, 65, 65, 65, 98, 98, 98] := by decide

/-! ## `cancel("all")` and the page size of the listing -/

/-- **cancel_all_pages**: `list_active` asks the service for one page.  With at most `page` active uploads of the
key, `cancel("all")` aborts them all; with more, one call leaves the rest active (`cancel_all_one_page_cex`) and
`⌈n / page⌉` calls are needed: after `m` calls exactly the uploads beyond the first `m·page` remain. -/
theorem cancel_all_pages (page : Nat) (s : Seq.State) (m : Nat) :
    (cancelAllPagedN page m s).active = s.active.drop (m * page) ∧
      (s.active.length ≤ m * page → (cancelAllPagedN page m s).active = []) := by
  refine ⟨cancelAllPagedN_active page m s, fun h => ?_⟩
  rw [cancelAllPagedN_active]
  exact List.drop_eq_nil_of_le h

/-- within one page the paged listing is the listing of `Seq.step`: the same uploads are aborted -/
theorem cancel_all_within_page (page : Nat) (s : Seq.State) (h : s.active.length ≤ page) :
    (cancelAllPaged page s).1.active = [] ∧ (cancelAllPaged page s).2 = (Seq.step s .cancelAll).2.1 ∧
      (cancelAllPaged page s).1.uploadId = 0 := by
  simp [cancelAllPaged, Seq.step, List.take_of_length_le h, List.drop_eq_nil_of_le h]

/-- **cancel_all_one_page_cex** (limit of the code as it is, not repaired): 5 orphaned uploads of the key, a service
that pages by 3: one `cancel("all")` aborts 3, reports nothing, resets the object - 2 uploads stay active -/
theorem cancel_all_one_page_cex :
    (cancelAllPaged 3 { creates := 5, active := [1, 2, 3, 4, 5] }).1.active = [4, 5] ∧
      (cancelAllPagedN 3 2 { creates := 5, active := [1, 2, 3, 4, 5] }).active = [] := by decide

/-! ## Several objects on one cluster -/

/-- **dist_objects_sharing_names_cex**: why the names must depend on the object.  Two objects, one writer copy
each (the model's "worker" is a writer copy): if both writers compute the SAME Variable / Lock names, the second
object's first write adopts the first object's upload id and never initiates its own upload; with names of their
own each object initiates exactly one (the correspondence drives the real `_build_name` for keys `k`, `k.ovr`
and a one-letter variation). -/
theorem dist_objects_sharing_names_cex :
    let shared : DistN.Cfg := { kind := fun _ => .write 1, worker := fun t => t, varName := fun _ => 0,
                                lockName := fun _ => 0 }
    let own : DistN.Cfg := { kind := fun _ => .write 1, worker := fun t => t, varName := fun w => w,
                             lockName := fun w => w }
    let sched := List.replicate 16 0 ++ List.replicate 16 1
    (DistN.run shared sched).creates = 1 ∧ (DistN.run shared sched).wid 1 = 1 ∧
      (DistN.run own sched).creates = 2 ∧ (DistN.run own sched).wid 0 = 1 ∧ (DistN.run own sched).wid 1 = 2 := by
  decide

end OdcGeo.C18
