/-
C19, final increment — theorems about the UNIFIED state (`Model/C19Unified.lean`): the cache
histories and the holders of CRS instances in one model; the key-coherence hypotheses reduced to
pyproj's behaviour on canonical `EPSG:<n>`; `CRS.units` / `dimensions`.
-/
import OdcGeo.Model.C19Unified
import OdcGeo.Model.C19Units
import OdcGeo.Props.C19
import OdcGeo.Props.C19Glue
import OdcGeo.Props.C19Alias

namespace OdcGeo.C19

/-! ## One state -/

theorem runFrom_append (W : World) : ∀ (a b : List Op) (σ : State),
    (runFrom W σ (a ++ b)).1 = (runFrom W (runFrom W σ a).1 b).1
  | [], _, _ => rfl
  | op :: a, b, σ => by
    simp only [List.cons_append, runFrom]
    exact runFrom_append W a b _

theorem run_snoc (W : World) (h : List Op) (op : Op) : (run W (h ++ [op])).1 = (step W (run W h).1 op).1 := by
  simp only [run, runFrom_append, runFrom]

/-- **Every state a unified history reaches is, on its core, a state of the history model**:
there is a history of real operations with exactly this heap, cache and transformer cache —
so every theorem of part (a) (`transformer_correct`, `cache_pins_every_crs`,
`construct_sys_correct`, `crs_str_history_free_partial` …) holds in the presence of holders. -/
theorem urunFrom_core (W : World) : ∀ (uh : List UOp) (σ : UState) (h : List Op),
    (∀ op ∈ uh, op.real = true) → (∀ op ∈ h, op.real = true) → σ.core = (run W h).1 →
    ∃ h', (∀ op ∈ h', op.real = true) ∧ (urunFrom W σ uh).1.core = (run W h').1
  | [], σ, h, _, hr, hc => ⟨h, hr, hc⟩
  | uop :: uh, σ, h, hu, hr, hc => by
    have hu' : ∀ op ∈ uh, op.real = true := fun op ho => hu op (List.mem_cons_of_mem _ ho)
    have keep : ∀ σ' : UState, σ'.core = σ.core →
        ∃ h', (∀ op ∈ h', op.real = true) ∧ (urunFrom W σ' uh).1.core = (run W h').1 :=
      fun σ' e => urunFrom_core W uh σ' h hu' hr (e.trans hc)
    have adv : ∀ (op : Op) (σ' : UState), op.real = true → σ'.core = (step W σ.core op).1 →
        ∃ h', (∀ op ∈ h', op.real = true) ∧ (urunFrom W σ' uh).1.core = (run W h').1 := by
      intro op σ' hop e
      refine urunFrom_core W uh σ' (h ++ [op]) hu' ?_ ?_
      · intro o ho
        rcases List.mem_append.1 ho with ho | ho
        · exact hr o ho
        · simp only [List.mem_singleton] at ho; subst ho; exact hop
      · rw [run_snoc, ← hc]; exact e
    simp only [urunFrom]
    cases uop with
    | core op =>
      have hop : op.real = true := hu (.core op) (List.mem_cons_self ..)
      simp only [ustep]
      split
      · exact keep _ rfl
      · exact adv op _ hop rfl
    | del v =>
      simp only [ustep]
      split
      · exact keep _ rfl
      · exact adv (.drop v) _ rfl rfl
    | hold hh v =>
      simp only [ustep]
      split
      · exact keep _ rfl
      · exact keep _ rfl
    | holdNone hh => exact keep _ rfl
    | rehold h2 hh =>
      simp only [ustep]
      split
      · exact keep _ rfl
      · exact keep _ rfl
    | heq a b =>
      simp only [ustep]
      split
      · exact keep _ rfl
      · exact keep _ rfl

/-- `CRS(spec)` (or `norm_crs(spec)`, a value type given `crs=spec`) after ANY unified history —
constructions, drops, collections, transformer requests, values created, copied and compared,
`.epsg` read through any of them — denotes the system pyproj assigns to the spec -/
theorem unified_construct_sys_correct (W : World) (hW : KeySysCoherent W) (hA : KeyAcceptCoherent W)
    (uh : List UOp) (hreal : ∀ op ∈ uh, op.real = true) (spec : Spec) (hs : ∀ v, spec ≠ .crs v) (hp : ∀ v, spec ≠ .pyproj v)
    (pick : Nat) (c : CrsObj)
    (hc : (construct W (urun W uh).1.core spec pick).2 = .ok c) :
    (match spec with
      | .int n => (W.fromEpsg n).map (·.sys)
      | .str s => (W.fromText s).map (·.sys)
      | .dict d => (W.fromText d).map (·.sys)
      | _ => none) = some c.info.sys := by
  obtain ⟨h', hr', e⟩ := urunFrom_core W uh {} [] hreal (by simp) rfl
  simp only [urun] at hc
  rw [e] at hc
  have := construct_sys_correct W hW hA h' hr' spec pick c hc
  cases spec with
  | int n => simpa [specSys] using this
  | str s => simpa [specSys] using this
  | dict d => simpa [specSys] using this
  | pyproj v => exact absurd rfl (hp v)
  | crs v => exact absurd rfl (hs v)

/-- values that hold one instance are `==` in their CRS field in every reachable state -/
theorem u_shared_holders_equal (W : World) (σ : UState) (h1 h2 v : Nat) (c : CrsObj)
    (e1 : assoc h1 σ.hold = some (some v)) (e2 : assoc h2 σ.hold = some (some v))
    (ev : assoc v σ.core.vars = some c) :
    ustep W σ (.heq h1 h2) = (σ, .bool true) := by
  simp [ustep, UState.crsOf, e1, e2, ev, optCrsEq, crs_eq_refl]

theorem ustep_core_of_free (W : World) (σ : UState) (op : Op) (hb : (op.binds.map σ.held).getD false = false) :
    ustep W σ (.core op) = ({ σ with core := (step W σ.core op).1 }, (step W σ.core op).2) := by
  simp [ustep, hb]

/-- `.epsg` read on the instance (the `.epsg` step of the HISTORY model) is seen by every value
that holds it -/
theorem u_read_seen_by_all_holders (W : World) (σ : UState) (h v : Nat) (c : CrsObj)
    (eh : assoc h σ.hold = some (some v)) (ev : assoc v σ.core.vars = some c) :
    (ustep W σ (.core (.epsg v))).1.crsOf h = some (some (fillEpsg c)) ∧
    (ustep W σ (.core (.epsg v))).2 = .epsg (fillEpsg c).epsg := by
  rw [ustep_core_of_free W σ (.epsg v) rfl]
  simp only [UState.crsOf, eh]
  by_cases h0 : (c.epsg == some 0) = true
  · have hs : step W σ.core (.epsg v) =
        ({ σ.core with vars := setVar v { c with epsg := c.info.epsg } σ.core.vars }, .epsg c.info.epsg) := by
      simp [step, ev, h0]
    rw [hs]; simp [assoc_setVar, fillEpsg, h0]
  · have hs : step W σ.core (.epsg v) = (σ.core, .epsg c.epsg) := by simp [step, ev, h0]
    rw [hs]; simp [ev, fillEpsg, h0]

/-- constructing, copying or unpickling ANOTHER instance: no holder sees a different record
afterwards (only `.epsg` on its own instance changes what a holder sees) -/
theorem u_mk_leaves_holders (W : World) (σ : UState) (h v w : Nat) (spec : Spec) (pick : Nat)
    (eh : assoc h σ.hold = some (some v)) (hw : w ≠ v) (hheld : σ.held w = false) :
    (ustep W σ (.core (.mk w spec pick))).1.crsOf h = σ.crsOf h := by
  rw [ustep_core_of_free W σ (.mk w spec pick) (by simp [Op.binds, hheld])]
  simp only [UState.crsOf, eh, step]
  have hv := construct_vars W σ.core spec pick
  revert hv
  generalize construct W σ.core spec pick = r
  intro hv
  rcases r with ⟨σ1, (e | c)⟩
  · simp only at hv; simp [hv]
  · simp only at hv; simp [hv, assoc_setVar_ne v w _ _ (Ne.symm hw)]

/-- a held instance survives `del` of its name and the garbage collector: it stays in the heap
of instances, so its pyproj object stays a root and the id-keyed transformer cache stays valid -/
theorem mem_of_assoc {β : Type} (v : Nat) (c : β) : ∀ l : List (Nat × β), assoc v l = some c → (v, c) ∈ l
  | [], h => by simp [assoc] at h
  | e :: t, h => by
    by_cases he : e.1 = v
    · simp only [assoc, he, if_true, Option.some.injEq] at h
      subst h; subst he; exact List.mem_cons_self ..
    · simp only [assoc, he, if_false] at h
      exact List.mem_cons_of_mem _ (mem_of_assoc v c t h)

theorem u_held_instance_survives (W : World) (σ : UState) (v : Nat) (c : CrsObj) (hheld : σ.held v = true)
    (ev : assoc v σ.core.vars = some c) :
    assoc v (ustep W σ (.del v)).1.core.vars = some c ∧
    assoc v (ustep W σ (.core .gc)).1.core.vars = some c ∧
    c.obj ∈ roots (ustep W σ (.core .gc)).1.core := by
  have hg : ustep W σ (.core .gc) = ({ σ with core := collect σ.core }, .unit) := by
    rw [ustep_core_of_free W σ .gc rfl]; rfl
  have hvars : (collect σ.core).vars = σ.core.vars := rfl
  refine ⟨?_, ?_, ?_⟩
  · simp only [ustep, hheld, if_true]; exact ev
  · rw [hg]; exact ev
  · rw [hg]
    have hm := mem_of_assoc v c _ ev
    simp only [roots, hvars, List.mem_append, List.mem_map]
    exact Or.inl (Or.inr ⟨(v, c), hm, rfl⟩)

/-- the K4 witness of `Props/C19Alias` in the unified state, through the real construction
cache: a lossy text of EPSG:4326 held by a box, its copy held by another, `EPSG:4326` by a third -/
def k4World : World where
  fromText := fun t =>
    if t = "X" then some ⟨0, "X", "WX", some 4326⟩
    else if t = "E" then some ⟨1, "E", "WE", some 4326⟩ else none
  fromEpsg := fun _ => none

theorem u_shared_read_changes_equality_cex :
    (urun k4World [.core (.mk 0 (.str "X") 0), .core (.mk 2 (.crs 0) 0), .core (.mk 1 (.str "E") 0),
             .core (.epsg 1), .hold 1 0, .hold 2 2, .hold 3 1, .heq 1 3, .heq 2 3, .heq 1 2,
             .core (.epsg 0), .heq 1 3, .heq 2 3, .heq 1 2, .del 0, .core .gc, .heq 1 3]).2.drop 7 =
      [.bool false, .bool false, .bool true, .epsg (some 4326), .bool true, .bool false, .bool true,
       .unit, .unit, .bool true] := by
  decide +kernel

/-! ## Key coherence reduced to pyproj on canonical `EPSG:<n>` -/

/-- the whole assumption about pyproj behind `construct_sys_correct`: an `EPSG:` spelling in any
letter case is read like its upper-cased (canonical) form, and the canonical text `EPSG:<n>`
like the integer `n` — nothing is assumed about any other text -/
def CanonKeyCoherent (W : World) : Prop :=
  (∀ s, isEpsgLike s = true → (W.fromText s).map (·.sys) = (W.fromText (keyOfStr s)).map (·.sys)) ∧
  (∀ n, (W.fromText (keyOfInt n)).map (·.sys) = (W.fromEpsg n).map (·.sys))

theorem sys_of_same_key (W : World) (h : CanonKeyCoherent W) (s s' : String) (hk : keyOfStr s = keyOfStr s') :
    (W.fromText s).map (·.sys) = (W.fromText s').map (·.sys) := by
  by_cases hs : isEpsgLike s = true <;> by_cases hs' : isEpsgLike s' = true
  · rw [h.1 s hs, h.1 s' hs', hk]
  · have e : keyOfStr s' = s' := by simp [keyOfStr, hs']
    rw [h.1 s hs, hk, e]
  · have e : keyOfStr s = s := by simp [keyOfStr, hs]
    rw [h.1 s' hs', ← hk, e]
  · rw [keyOfStr_injective_on_plain s s' (by simpa using hs) (by simpa using hs') hk]

theorem sys_of_int_key (W : World) (h : CanonKeyCoherent W) (s : String) (n : Nat) (hk : keyOfStr s = keyOfInt n) :
    (W.fromText s).map (·.sys) = (W.fromEpsg n).map (·.sys) := by
  by_cases hs : isEpsgLike s = true
  · rw [h.1 s hs, hk, h.2 n]
  · have e : keyOfStr s = s := by simp [keyOfStr, hs]
    rw [← h.2 n, ← hk, e]

/-- both hypotheses of `construct_sys_correct` follow -/
theorem keyCoherent_of_canon (W : World) (h : CanonKeyCoherent W) : KeySysCoherent W ∧ KeyAcceptCoherent W := by
  refine ⟨⟨?_, ?_⟩, ⟨?_, ?_⟩⟩
  · intro s s' p p' hk h1 h2
    have := sys_of_same_key W h s s' hk
    simpa [h1, h2] using this
  · intro s n p p' hk h1 h2
    have := sys_of_int_key W h s n hk
    simpa [h1, h2] using this
  · intro s s' hk
    have := congrArg Option.isSome (sys_of_same_key W h s s' hk)
    simpa using this
  · intro s n hk
    have := congrArg Option.isSome (sys_of_int_key W h s n hk)
    simpa using this

/-- `CRS(spec)` after any unified history, assuming only pyproj's behaviour on canonical EPSG spellings -/
theorem construct_sys_correct_canon (W : World) (hC : CanonKeyCoherent W)
    (h : List Op) (hreal : ∀ op ∈ h, op.real = true) (spec : Spec) (pick : Nat) (c : CrsObj) :
    (construct W (run W h).1 spec pick).2 = .ok c → specSys W (run W h).1 spec = some c.info.sys :=
  construct_sys_correct W (keyCoherent_of_canon W hC).1 (keyCoherent_of_canon W hC).2 h hreal spec pick c

/-- non-vacuity (the harness tabulates the two facts from pyproj on every run) -/
example : CanonKeyCoherent ⟨fun _ => none, fun _ => none⟩ := ⟨fun _ _ => rfl, fun _ => rfl⟩

/-! ## `CRS.dimensions` / `CRS.units` -/

theorem getLast_some (k v : String) : ∀ l : List (String × String), getLast k l = some v →
    ∃ i : Nat, l[i]? = some (k, v)
  | [], h => by simp [getLast] at h
  | (k', v') :: t, h => by
    simp only [getLast] at h
    cases ht : getLast k t with
    | some r =>
      rw [ht] at h
      simp only [Option.some.injEq] at h; subst h
      obtain ⟨i, hi⟩ := getLast_some k r t ht
      exact ⟨i + 1, by simpa using hi⟩
    | none =>
      rw [ht] at h
      by_cases hk : k' = k
      · simp only [hk, if_true, Option.some.injEq] at h
        subst h; subst hk; exact ⟨0, rfl⟩
      · simp [hk] at h

/-- `dimensions` and `units` of a geographic CRS are fixed; anything neither geographic nor
projected is a `ValueError` in both -/
theorem dims_units_spec (axes : List Axis) :
    dimensionsOf .geographic = .ok ("latitude", "longitude") ∧ dimensionsOf .projected = .ok ("y", "x") ∧
    unitsOf .geographic axes = .ok ("degrees_north", "degrees_east") ∧
    dimensionsOf .other = .error .valueError ∧ unitsOf .other axes = .error .valueError :=
  ⟨rfl, rfl, rfl, rfl, rfl⟩

/-- **after the fix for polar CRSs: a projected CRS with at least two axes always reports the
units of two DIFFERENT axes** as `(y, x)` — by direction when the directions tell x from y, else
by abbreviation, else by position; never `""` for a missing name -/
theorem unitsOf_two_distinct_axes (axes : List Axis) (hn : 2 ≤ axes.length) :
    ∃ (i j : Nat) (a b : Axis), i ≠ j ∧ axes[i]? = some a ∧ axes[j]? = some b ∧
      unitsOf .projected axes = .ok (a.uname, b.uname) := by
  match axes, hn with
  | a0 :: a1 :: rest, _ =>
    simp only [unitsOf, unitsDict]
    split
    · -- fall back: abbreviation, else position
      split
      · rename_i hab
        rcases hab with ⟨h0, h1⟩ | ⟨h0, h1⟩
        · exact ⟨1, 0, a1, a0, by decide, rfl, rfl, by simp [h0, h1, getLast]⟩
        · exact ⟨0, 1, a0, a1, by decide, rfl, rfl, by simp [h0, h1, getLast]⟩
      · exact ⟨1, 0, a1, a0, by decide, rfl, rfl, by simp [getLast]⟩
    · rename_i hc
      -- the directions name both x and y
      have hx : ∃ vx, getLast "x" ((a0 :: a1 :: rest).map (fun a => (dirName a.dir, a.uname))) = some vx := by
        cases hh : getLast "x" ((a0 :: a1 :: rest).map (fun a => (dirName a.dir, a.uname))) with
        | some v => exact ⟨v, rfl⟩
        | none => simp only [List.map_cons] at hh; simp [hh] at hc
      have hy : ∃ vy, getLast "y" ((a0 :: a1 :: rest).map (fun a => (dirName a.dir, a.uname))) = some vy := by
        cases hh : getLast "y" ((a0 :: a1 :: rest).map (fun a => (dirName a.dir, a.uname))) with
        | some v => exact ⟨v, rfl⟩
        | none => simp only [List.map_cons] at hh; simp [hh] at hc
      obtain ⟨vx, hx⟩ := hx
      obtain ⟨vy, hy⟩ := hy
      obtain ⟨j, hj⟩ := getLast_some _ _ _ hx
      obtain ⟨i, hi⟩ := getLast_some _ _ _ hy
      simp only [List.getElem?_map, Option.map_eq_some_iff, Prod.mk.injEq] at hi hj
      obtain ⟨a, ha, hda, hua⟩ := hi
      obtain ⟨b, hb, hdb, hub⟩ := hj
      have hx' := hx
      have hy' := hy
      simp only [List.map_cons] at hx' hy'
      refine ⟨i, j, a, b, ?_, ha, hb, by simp [hx', hy', hua, hub]⟩
      intro e; subst e
      rw [ha] at hb; cases hb
      rw [hda] at hdb; revert hdb; decide

example : unitsOf .projected [⟨"north", "N", "metre"⟩, ⟨"north", "E", "foot"⟩] = .ok ("metre", "foot") := by
  decide +kernel
example : unitsOf .projected [⟨"south", "?", "a"⟩, ⟨"south", "?", "b"⟩] = .ok ("b", "a") := by decide +kernel
example : unitsOf .projected [⟨"east", "E", "a"⟩, ⟨"north", "N", "b"⟩] = .ok ("b", "a") := by decide +kernel


end OdcGeo.C19
