/- C13 — property theorems only. -/
import OdcGeo.Model.C13
namespace OdcGeo.C13

/-- `resolve_fill_value`: destination nodata, else source nodata, else NaN for floating point, else 0. -/
theorem resolveFill_spec (d s : Option Val) (k : DKind) :
    resolveFill d s k =
      match d, s with
      | some v, _ => v
      | none, some v => v
      | none, none => if k = .float then .nan else .num 0 := by
  cases d <;> cases s <;> cases k <;> simp [resolveFill]

end OdcGeo.C13
