/-
C13 — chunked (dask) reprojection equals whole-array reprojection.  Property theorems only.

Setting of every theorem: grids of one CRS, nearest-neighbour resampling; `c : Cfg` holds the two
geoboxes (`S`, `D` pixel→world transforms), ANY source chunking `sy × sx` and ANY destination
chunking `dy × dx` (`Chain 0 t N`: the tiles cover `[0, N)` contiguously — 1-pixel, ragged, empty
tiles allowed), the dependency map `deps` and the nodata settings.  `G : Gdal` (GDAL's value
nudging) and the content of the uninitialised in-memory destination `buf` are arbitrary.
-/
import OdcGeo.Model.C13
import OdcGeo.Lemmas.C13

namespace OdcGeo.C13

/-! ## fill value -/

/-- `resolve_fill_value`: destination nodata, else source nodata, else NaN for floating point, else 0. -/
theorem resolveFill_spec (d s : Option Val) (k : DKind) :
    resolveFill d s k =
      match d, s with
      | some v, _ => v
      | none, some v => v
      | none, none => if k = .float then .nan else .num 0 := by
  cases d <;> cases s <;> cases k <;> simp [resolveFill]

/-- what `_xr_reproject_da` guarantees about the nodata pair it hands down:
a missing destination nodata implies a missing source nodata. -/
theorem xrNodata_guarantee (attr kw dst : Option Val) :
    (xrNodata attr kw dst).2 = none → (xrNodata attr kw dst).1 = none := by
  cases attr <;> cases kw <;> cases dst <;> simp [xrNodata]

/-! ## tilings -/

/-- every dask chunking `chunks` of an axis is a tiling of `[0, sum chunks)` -/
theorem chunksTiling_isTiling (chunks : List Nat) :
    Chain 0 (chunksTiling chunks) ((chunks.sum : Nat) : Int) := by
  have := chunksTilingFrom_chain chunks 0
  simpa [chunksTiling] using this

/-- the regular destination tiling `Tiles((N, ·), (n, ·))` is a tiling of `[0, N)` (ragged last tile) -/
theorem regularTiling_isTiling (N n : Nat) (hn : 0 < n) : Chain 0 (regularTiling N n) N := by
  have := regularTiling_chain_aux N n hn ((N + n - 1) / n) 0 (by omega)
  simpa [regularTiling, List.range_eq_range'] using this

/-! ## assemble = window of the mosaic -/

/-- `BlockAssembler.extract` over the blocks of the selected source tiles, in the clipped
window with offset `(oy, ox)`: every pixel covered by a selected tile is the pixel of the full
source (mosaic), every other pixel is the fill. -/
theorem assemble_eq_mosaic_window (src : Img) (sy sx cy cx : List Span) (y1 x1 : Nat) (oy ox : Int)
    (sel : List TIdx) (blocks : List Img) (h w : Int) (fill : Val)
    (hb : mapOpt (srcBlock src sy sx) sel = some blocks)
    (hclip : ∀ idx ∈ sel, y1 ≤ idx.1 ∧ x1 ≤ idx.2 ∧
        cy[idx.1 - y1]? = (sy[idx.1]?).map (fun s => (s.1 - oy, s.2 - oy)) ∧
        cx[idx.2 - x1]? = (sx[idx.2]?).map (fun s => (s.1 - ox, s.2 - ox))) :
    ∃ asm, assemble cy cx ((sel.map fun i => (i.1 - y1, i.2 - x1)).zip blocks) (full h w fill) = some asm ∧
      (∀ p : Int × Int, (∃ idx ∈ sel, InTile sy idx.1 (p.1 + oy) ∧ InTile sx idx.2 (p.2 + ox)) →
          asm p = src (p.1 + oy, p.2 + ox)) ∧
      (∀ p : Int × Int, (¬ ∃ idx ∈ sel, InTile sy idx.1 (p.1 + oy) ∧ InTile sx idx.2 (p.2 + ox)) →
          asm p = full h w fill p) :=
  assemble_spec src sy sx cy cx y1 x1 oy ox sel blocks (full h w fill) hb hclip

/-! ## chunked = whole -/

/-- **Chunked equals whole** (same CRS, nearest neighbour): for every source chunking, every
destination chunking, every *complete* dependency map (C12), every nodata pair that
`xr_reproject` can hand down, every dtype kind, every content of the uninitialised in-memory
buffer: each pixel of the computed dask array equals the pixel of the in-memory result. -/
theorem chunked_eq_whole_nn (c : Cfg) (G : Gdal) (src buf : Img)
    (hV : c.variant = Variant.repaired)
    (hbuf : WF buf c.dstH c.dstW)
    (hsy : Chain 0 c.sy c.srcH) (hsx : Chain 0 c.sx c.srcW)
    (hdy : Chain 0 c.dy c.dstH) (hdx : Chain 0 c.dx c.dstW)
    (hS : c.S.det ≠ 0)
    (hvalid : DepsValid c) (hcomplete : deps_complete c)
    (hnd : c.dstNd = none → c.srcNd = none)
    (hnd1 : NodataOk c.kind c.dstNd) (hnd2 : NodataOk c.kind c.srcNd)
    (d : Int × Int) (hd : 0 ≤ d.1 ∧ d.1 < c.dstH ∧ 0 ≤ d.2 ∧ d.2 < c.dstW) :
    daskResult c G src d = wholeResult c G src buf d := by
  have hw : wholeResult c G src buf d = outPix c.variant G c.kind c.srcNd
      (rioNodataDefault c.kind c.dstNd) src (samplePix (c.S.inv * c.D) c.srcH c.srcW d) := by
    unfold wholeResult rioReproject
    exact rioPlane_eq _ _ _ _ _ _ _ _ _ _ _ _ ((hbuf d).2 hd)
  obtain ⟨iy, ix, hiy, hix, hempty, htask⟩ := dask_pixel c G src hsy hsx hdy hdx hS hvalid d hd
  have hdn := chunkDstNodata_eq_rio c.kind c.srcNd c.dstNd hnd
  by_cases he : lookupDeps c.deps (iy, ix) = []
  · -- constant block: completeness says the pixel samples nothing
    rw [hempty he, hw]
    cases hs : samplePix (c.S.inv * c.D) c.srcH c.srcW d with
    | some s =>
      obtain ⟨i, hi, _⟩ := hcomplete iy ix d hiy hix s hs
      rw [he] at hi
      simp at hi
    | none =>
      have := chunk_fill_eq c.kind c.srcNd c.dstNd hnd1 hnd2
      rw [hdn] at this
      simp only [outPix, Option.map_some, hV, this]
  · rw [hw, htask he, hV, hdn]
    cases hs : samplePix (c.S.inv * c.D) c.srcH c.srcW d with
    | none => trivial
    | some s => exact hcomplete iy ix d hiy hix s hs

/-- the same at the level of `xr_reproject`: whatever `nodata` attribute, `src_nodata=` and
`dst_nodata=` arguments the caller gives, the pair handed down satisfies the nodata hypothesis,
so dask-backed and numpy-backed inputs give the same pixels. -/
theorem chunked_eq_whole_xr (c : Cfg) (G : Gdal) (src buf : Img) (attr kw dst : Option Val)
    (hsn : c.srcNd = (xrNodata attr kw dst).1) (hdn : c.dstNd = (xrNodata attr kw dst).2)
    (hV : c.variant = Variant.repaired)
    (hbuf : WF buf c.dstH c.dstW)
    (hsy : Chain 0 c.sy c.srcH) (hsx : Chain 0 c.sx c.srcW)
    (hdy : Chain 0 c.dy c.dstH) (hdx : Chain 0 c.dx c.dstW)
    (hS : c.S.det ≠ 0)
    (hvalid : DepsValid c) (hcomplete : deps_complete c)
    (hnd1 : NodataOk c.kind c.dstNd) (hnd2 : NodataOk c.kind c.srcNd)
    (d : Int × Int) (hd : 0 ≤ d.1 ∧ d.1 < c.dstH ∧ 0 ≤ d.2 ∧ d.2 < c.dstW) :
    daskResult c G src d = wholeResult c G src buf d :=
  chunked_eq_whole_nn c G src buf hV hbuf hsy hsx hdy hdx hS hvalid hcomplete
    (by rw [hsn, hdn]; exact xrNodata_guarantee attr kw dst) hnd1 hnd2 d hd

/-! ## fill -/

/-- **Uniform fill**: a destination pixel that no source pixel reaches holds
`resolve_fill_value(dst_nodata, src_nodata, dtype)` — in chunks computed by a task and in
constant chunks alike, for EVERY dependency map (complete or not), every nodata setting
(destination / source / none), every dtype kind. -/
theorem fill_uniform (c : Cfg) (G : Gdal) (src : Img)
    (hV : c.variant = Variant.repaired)
    (hsy : Chain 0 c.sy c.srcH) (hsx : Chain 0 c.sx c.srcW)
    (hdy : Chain 0 c.dy c.dstH) (hdx : Chain 0 c.dx c.dstW)
    (hS : c.S.det ≠ 0) (hvalid : DepsValid c)
    (hnd1 : NodataOk c.kind c.dstNd) (hnd2 : NodataOk c.kind c.srcNd)
    (d : Int × Int) (hd : 0 ≤ d.1 ∧ d.1 < c.dstH ∧ 0 ≤ d.2 ∧ d.2 < c.dstW)
    (hun : samplePix (c.S.inv * c.D) c.srcH c.srcW d = none) :
    daskResult c G src d = some (resolveFill c.dstNd c.srcNd c.kind) := by
  obtain ⟨iy, ix, _, _, hempty, htask⟩ := dask_pixel c G src hsy hsx hdy hdx hS hvalid d hd
  by_cases he : lookupDeps c.deps (iy, ix) = []
  · exact hempty he
  · rw [htask he (by rw [hun]; trivial), hun, hV]
    simp only [outPix, Option.map_some, chunk_fill_eq c.kind c.srcNd c.dstNd hnd1 hnd2]

/-- the in-memory path fills unreached pixels with the same value (nodata pair as handed down by
`xr_reproject`) -/
theorem fill_uniform_whole (c : Cfg) (G : Gdal) (src buf : Img)
    (hV : c.variant = Variant.repaired) (hbuf : WF buf c.dstH c.dstW)
    (hnd : c.dstNd = none → c.srcNd = none)
    (hnd1 : NodataOk c.kind c.dstNd) (hnd2 : NodataOk c.kind c.srcNd)
    (d : Int × Int) (hd : 0 ≤ d.1 ∧ d.1 < c.dstH ∧ 0 ≤ d.2 ∧ d.2 < c.dstW)
    (hun : samplePix (c.S.inv * c.D) c.srcH c.srcW d = none) :
    wholeResult c G src buf d = some (resolveFill c.dstNd c.srcNd c.kind) := by
  unfold wholeResult rioReproject
  rw [rioPlane_eq _ _ _ _ _ _ _ _ _ _ _ _ ((hbuf d).2 hd), hun, hV]
  have := chunk_fill_eq c.kind c.srcNd c.dstNd hnd1 hnd2
  rw [chunkDstNodata_eq_rio c.kind c.srcNd c.dstNd hnd] at this
  simp only [outPix, Option.map_some, this]

/-- **Disjoint rasters give an all-fill array, not an error**: if no destination pixel reaches
the source, the computed dask array is defined (`some`) and equal to the fill value on every
pixel — whatever the dependency map lists (e.g. the clamped edge tiles of F15). -/
theorem disjoint_all_fill (c : Cfg) (G : Gdal) (src : Img)
    (hV : c.variant = Variant.repaired)
    (hsy : Chain 0 c.sy c.srcH) (hsx : Chain 0 c.sx c.srcW)
    (hdy : Chain 0 c.dy c.dstH) (hdx : Chain 0 c.dx c.dstW)
    (hS : c.S.det ≠ 0) (hvalid : DepsValid c)
    (hnd1 : NodataOk c.kind c.dstNd) (hnd2 : NodataOk c.kind c.srcNd)
    (hdisj : ∀ d, samplePix (c.S.inv * c.D) c.srcH c.srcW d = none) :
    ∀ d : Int × Int, 0 ≤ d.1 ∧ d.1 < c.dstH ∧ 0 ≤ d.2 ∧ d.2 < c.dstW →
      daskResult c G src d = some (resolveFill c.dstNd c.srcNd c.kind) :=
  fun d hd => fill_uniform c G src hV hsy hsx hdy hdx hS hvalid hnd1 hnd2 d hd (hdisj d)

/-! ## execution order -/

/-- **Order independence**: whatever two schedules were run (any orders, any subsets of tasks,
repetitions included) — if both ran (each task found its dependencies in the store), a key they
both computed holds the same block, namely its schedule-free denotation: a source block, or
`dstBlock` — the block `daskResult` reads its pixels from — which is a function of the source
blocks only. -/
theorem order_independent (c : Cfg) (G : Gdal) (src : Img) (o1 o2 : List Key) (st1 st2 : Store)
    (h1 : runOrder (graph c G src) o1 [] = some st1)
    (h2 : runOrder (graph c G src) o2 [] = some st2)
    (k : Key) (v1 v2 : Img) (hk1 : st1.lookup k = some v1) (hk2 : st2.lookup k = some v2) :
    v1 = v2 ∧ denote c G src k = some v1 := by
  have e1 := runOrder_ok c G src o1 (st := []) (fun _ _ h => by simp at h) h1 k v1 (lookup_mem hk1)
  have e2 := runOrder_ok c G src o2 (st := []) (fun _ _ h => by simp at h) h2 k v2 (lookup_mem hk2)
  rw [e1] at e2
  exact ⟨by simpa using e2, e1⟩

/-- **Every topological order runs** and computes every scheduled key: a schedule in which each
task comes after the source blocks it depends on never fails, and the store ends up holding the
denotation of each scheduled key. -/
theorem topo_order_runs (c : Cfg) (G : Gdal) (src : Img)
    (hsy : Chain 0 c.sy c.srcH) (hsx : Chain 0 c.sx c.srcW) (hS : c.S.det ≠ 0)
    (hvalid : DepsValid c) (order : List Key) (hv : ValidOrder c [] order) :
    ∃ st, runOrder (graph c G src) order [] = some st ∧
      ∀ k ∈ order, ∃ v, st.lookup k = some v ∧ denote c G src k = some v := by
  obtain ⟨st, h1, h2⟩ := runOrder_valid c G src hsy hsx hS hvalid order [] []
    (fun _ _ h => by simp at h) (fun _ h => by simp at h) hv
  refine ⟨st, h1, fun k hk => ?_⟩
  obtain ⟨v, hv'⟩ := h2 k (Or.inr hk)
  exact ⟨v, hv', runOrder_ok c G src order (st := []) (fun _ _ h => by simp at h) h1 k v (lookup_mem hv')⟩

/-! ## the code as found violates the statements (witnesses replayed on the real code by the
harness: `WITNESSES` in `harness/c13.py`) -/

/-- 1×1 source, 1×2 destination on the same grid, one chunk each: pixel `(0, 1)` is unreached. -/
def cexCfg (V : Variant) (k : DKind) (sn dn : Option Val) : Cfg :=
  { variant := V, kind := k, srcH := 1, srcW := 1, S := Aff.id, dstH := 1, dstW := 2, D := Aff.id,
    sy := [(0, 1)], sx := [(0, 1)], dy := [(0, 1)], dx := [(0, 2)],
    deps := [((0, 0), [(0, 0)])], srcNd := sn, dstNd := dn }

def cexGdal : Gdal := ⟨fun _ v => v⟩

/-- **F10 as found**: float data without nodata — the unreached pixel of a partially covered
chunk holds 0, not `resolve_fill_value(None, None, float) = NaN` (`fill_uniform` fails) … -/
theorem fill_uniform_as_found_cex :
    daskResult (cexCfg Variant.asFound .float none none) cexGdal (full 1 1 (.num 5)) (0, 1)
      = some (.num 0) ∧
    resolveFill none none .float = .nan := by
  decide +kernel

/-- … and differs from the in-memory result (`chunked_eq_whole_nn` fails), while the repaired
code gives NaN in both. -/
theorem chunked_eq_whole_as_found_cex :
    daskResult (cexCfg Variant.asFound .float none none) cexGdal (full 1 1 (.num 5)) (0, 1)
      ≠ wholeResult (cexCfg Variant.asFound .float none none) cexGdal (full 1 1 (.num 5))
          (full 1 2 (.num 77)) (0, 1) ∧
    daskResult (cexCfg Variant.repaired .float none none) cexGdal (full 1 1 (.num 5)) (0, 1)
      = some .nan := by
  decide +kernel

/-- **Boolean nodata as found**: `nodata=True` — unreached pixels come out `False` in a task
chunk (and in memory) while `resolve_fill_value` (constant chunks) says `True`; repaired: `True`. -/
theorem bool_nodata_as_found_cex :
    daskResult (cexCfg Variant.asFound .bool (some (.num 1)) (some (.num 1))) cexGdal
        (full 1 1 (.num 0)) (0, 1) = some (.num 0) ∧
    resolveFill (some (.num 1)) (some (.num 1)) .bool = .num 1 ∧
    daskResult (cexCfg Variant.repaired .bool (some (.num 1)) (some (.num 1))) cexGdal
        (full 1 1 (.num 0)) (0, 1) = some (.num 1) := by
  decide +kernel

/-- The hypothesis `dstNd = none → srcNd = none` of `chunked_eq_whole_nn` is needed below
`xr_reproject`: calling `_dask_rio_reproject` / `rio_reproject` directly with float data,
`src_nodata=7`, `dst_nodata=None` fills with 7 (chunked, `resolve_fill_value`) versus NaN
(`rio_reproject`'s default).  `_xr_reproject_da` never produces this pair (`xrNodata_guarantee`). -/
theorem lowlevel_src_nodata_only_cex :
    daskResult (cexCfg Variant.repaired .float (some (.num 7)) none) cexGdal (full 1 1 (.num 5)) (0, 1)
      = some (.num 7) ∧
    wholeResult (cexCfg Variant.repaired .float (some (.num 7)) none) cexGdal (full 1 1 (.num 5))
      (full 1 2 (.num 77)) (0, 1) = some .nan := by
  decide +kernel

/-! ## the hypotheses are satisfiable -/

theorem cexCfg_deps_complete (V : Variant) (k : DKind) (sn dn : Option Val) :
    deps_complete (cexCfg V k sn dn) := by
  rintro iy ix ⟨y, x⟩ ⟨s1, e1, a1, a2⟩ ⟨s2, e2, a3, a4⟩ s hs
  have hiy : iy = 0 := by
    cases iy with
    | zero => rfl
    | succ n => simp [cexCfg] at e1
  have hix : ix = 0 := by
    cases ix with
    | zero => rfl
    | succ n => simp [cexCfg] at e2
  subst hiy; subst hix
  simp only [cexCfg, List.getElem?_cons_zero, Option.some.injEq] at e1 e2
  subst e1; subst e2
  simp only at a1 a2 a3 a4
  have hy : y = 0 := by omega
  have hx : x = 0 ∨ x = 1 := by omega
  subst hy
  have h0 : samplePix (Aff.id.inv * Aff.id) 1 1 (0, 0) = some (0, 0) := by decide +kernel
  have h1 : samplePix (Aff.id.inv * Aff.id) 1 1 (0, 1) = none := by decide +kernel
  simp only [cexCfg] at hs
  rcases hx with rfl | rfl
  · rw [h0] at hs
    simp only [Option.some.injEq] at hs
    subst hs
    exact ⟨(0, 0), by simp [cexCfg, lookupDeps],
      ⟨(0, 1), by simp [cexCfg], by decide, by decide⟩, ⟨(0, 1), by simp [cexCfg], by decide, by decide⟩⟩
  · rw [h1] at hs
    simp at hs

theorem cexCfg_deps_valid (V : Variant) (k : DKind) (sn dn : Option Val) :
    DepsValid (cexCfg V k sn dn) := by
  intro idx i hi
  have : lookupDeps (cexCfg V k sn dn).deps idx = [(0, 0)] ∨ lookupDeps (cexCfg V k sn dn).deps idx = [] := by
    simp only [lookupDeps, cexCfg, List.lookup]
    cases idx == ((0, 0) : TIdx) <;> simp
  rcases this with h | h <;> rw [h] at hi <;> simp at hi
  subst hi
  simp [cexCfg]

/-- all hypotheses of `chunked_eq_whole_nn` hold together on a concrete configuration -/
example : daskResult (cexCfg Variant.repaired .float none none) cexGdal (full 1 1 (.num 5)) (0, 1)
    = wholeResult (cexCfg Variant.repaired .float none none) cexGdal (full 1 1 (.num 5))
        (full 1 2 (.num 77)) (0, 1) :=
  chunked_eq_whole_nn _ _ _ _ rfl
    (by intro p; simp only [full, cexCfg]; split <;> simp_all)
    (by simp [cexCfg, Chain]) (by simp [cexCfg, Chain]) (by simp [cexCfg, Chain]) (by simp [cexCfg, Chain])
    (by decide +kernel)
    (cexCfg_deps_valid _ _ _ _)
    (cexCfg_deps_complete _ _ _ _) (fun _ => rfl) (by intro h; cases h) (by intro h; cases h)
    (0, 1) (by decide)

/-- a valid schedule exists: source block first, then the destination block -/
example : ValidOrder (cexCfg Variant.repaired .float none none) [] [Key.src (0, 0), Key.dst (0, 0)] := by
  refine ⟨by simp [Ready, cexCfg], ⟨by simp [cexCfg], by simp [cexCfg], ?_⟩, trivial⟩
  intro j hj
  simp only [lookupDeps, cexCfg, List.lookup] at hj
  simp at hj
  subst hj
  simp

end OdcGeo.C13
