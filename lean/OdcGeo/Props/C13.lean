/- C13 — property theorems only. -/
import OdcGeo.Model.C13
namespace OdcGeo.C13

end OdcGeo.C13
