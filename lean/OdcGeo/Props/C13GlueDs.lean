/-
C13 glue, final increment: (b) the error class of /repo HEAD for chunk tuples that do not add up, (c) float conversion over
the whole range, (d) `xr_reproject(Dataset)` = the DataArray reprojection variable by variable.
-/
import OdcGeo.Props.C13Glue
import Mathlib.Tactic.Linarith

namespace OdcGeo.C13
open OdcGeo

/-! ## (b) `GeoboxTiles` refuses chunk tuples that do not add up: `ValueError` -/

/-- HEAD accepts exactly the `chunks=` arguments the earlier model accepts, with the same tilings -/
theorem dstTilingsH_ok_iff (H W : Nat) (sy sx : List Nat) (a : ChunkArg) (t : List Span × List Span) :
    dstTilingsH H W sy sx a = .ok t ↔ dstTilings H W sy sx a = .ok t := by
  cases a with
  | default => rfl
  | pair cy cx => rfl
  | var ys xs =>
    simp only [dstTilingsH, dstTilings]
    by_cases he : ys = [] ∨ xs = []
    · rw [if_pos he, if_neg (by rcases he with h | h <;> simp [h])]
      simp
    · rw [if_neg he]
      have hne : ys ≠ [] ∧ xs ≠ [] := by
        constructor
        · intro h; exact he (Or.inl h)
        · intro h; exact he (Or.inr h)
      by_cases hs : ys.sum = H ∧ xs.sum = W
      · rw [if_pos hs, if_pos ⟨hs.1, hs.2, hne.1, hne.2⟩]
      · rw [if_neg hs, if_neg (by intro h; exact hs ⟨h.1, h.2.1⟩)]
        simp

/-- … and refuses every tuple-of-tuples that does not add up to the destination shape (or is empty) with `ValueError` —
the class is exact again (before 11b39c4 it was `ValueError` or `IndexError` depending on the path) -/
theorem dstTilingsH_rejects_var (H W : Nat) (sy sx ys xs : List Nat)
    (h : ys.sum ≠ H ∨ xs.sum ≠ W ∨ ys = [] ∨ xs = []) :
    dstTilingsH H W sy sx (.var ys xs) = .error .value := by
  simp only [dstTilingsH]
  rw [if_neg]
  rintro ⟨h1, h2, h3, h4⟩
  rcases h with h | h | h | h
  · exact h h1
  · exact h h2
  · exact h3 h
  · exact h4 h

/-- every tiling HEAD accepts covers the destination -/
theorem dstTilingsH_chain (H W : Nat) (sy sx : List Nat) (a : ChunkArg) (dy dx : List Span)
    (h : dstTilingsH H W sy sx a = .ok (dy, dx)) : Chain 0 dy H ∧ Chain 0 dx W :=
  dstTilings_chain H W sy sx a dy dx ((dstTilingsH_ok_iff H W sy sx a (dy, dx)).1 h)

example : dstTilingsH 5 7 [1, 3] [2, 4] (.var [2, 2] [7]) = .error .value := by decide +kernel
example : dstTilingsH 5 7 [1, 3] [2, 4] (.var [2, 0, 3] [7]) = .ok ([(0, 2), (2, 2), (2, 5)], [(0, 7)]) := by
  decide +kernel

/-! ## (c) float conversion: the normal range is `roundFloat`; subnormals and overflow are pinned -/

/-- in the normal range (no underflow, no overflow) the full conversion is the `roundFloat` of the earlier model -/
theorem roundIEEE_normal (p : Nat) (emin emax : Int) (q : Rat) (hq : 0 < q) (hlo : pow2 emin ≤ q)
    (hhi : roundPos p q < pow2 (emax + 1)) :
    roundIEEE p emin emax (.num q) = .fin (roundFloat p q) := by
  have h0 : q ≠ 0 := ne_of_gt hq
  simp only [roundIEEE, roundPosIEEE, roundFloat, if_neg h0, if_pos hq, if_neg (not_lt.2 hlo), if_neg (not_le.2 hhi)]

/-- the conversion is odd (finite results) and keeps NaN -/
theorem roundIEEE_nan (p : Nat) (emin emax : Int) : roundIEEE p emin emax .nan = .nan := rfl

/-! ## (d) `xr_reproject(Dataset)` -/

private theorem mapM_ok_get {α β : Type} (f : α → GRes β) :
    ∀ (l : List α) (g : List β), l.mapM f = .ok g →
      g.length = l.length ∧ ∀ (i : Nat) (x : α), l[i]? = some x → ∃ y, g[i]? = some y ∧ f x = .ok y
  | [], g, h => by
    simp only [List.mapM_nil, pure, Except.pure, Except.ok.injEq] at h
    subst h
    exact ⟨rfl, fun i x hx => by simp at hx⟩
  | a :: as, g, h => by
    rw [List.mapM_cons] at h
    cases hfa : f a with
    | error e => rw [hfa] at h; simp [bind, Except.bind] at h
    | ok b =>
      rw [hfa] at h
      cases hr : as.mapM f with
      | error e => rw [hr] at h; simp [bind, Except.bind] at h
      | ok g' =>
        rw [hr] at h
        simp only [bind, Except.bind, pure, Except.pure, Except.ok.injEq] at h
        subst h
        obtain ⟨hl, hget⟩ := mapM_ok_get f as g' hr
        refine ⟨by simp [hl], ?_⟩
        intro i x hx
        cases i with
        | zero =>
          simp only [List.getElem?_cons_zero, Option.some.injEq] at hx
          subst hx
          exact ⟨b, by simp, hfa⟩
        | succ j =>
          simp only [List.getElem?_cons_succ] at hx
          obtain ⟨y, hy, hfy⟩ := hget j x hx
          exact ⟨y, by simpa using hy, hfy⟩

/-- **Every variable of the reprojected Dataset is the result of its own DataArray call**, under its own name, at its
own position: variable `i` of `xr_reproject(ds, …)` is `_maybe_reproject` of variable `i` of `ds` — for a georegistered
variable exactly `xrDask` with the arguments `dsArgs` (its own dtype, nodata attribute and chunks; the shared grids and
keywords), for any other variable the variable itself -/
theorem ds_var_eq_da (sh : DsShared) (G : Gdal) (deps : List Nat → List Nat → List (TIdx × List TIdx))
    (ds : List (String × DsVar)) (out : List (String × Img)) (h : xrReprojectDs sh G deps ds = .ok out)
    (i : Nat) (n : String) (v : DsVar) (hi : ds[i]? = some (n, v)) :
    ∃ r, out[i]? = some (n, r) ∧ dsVarDask sh G deps v = .ok r := by
  obtain ⟨_, hget⟩ := mapM_ok_get _ ds out h
  obtain ⟨y, hy, hf⟩ := hget i (n, v) hi
  cases hv : dsVarDask sh G deps v with
  | error e => rw [hv] at hf; simp [Except.map] at hf
  | ok r =>
    rw [hv] at hf
    simp only [Except.map, Except.ok.injEq] at hf
    subst hf
    exact ⟨r, hy, rfl⟩

/-- names and order of the data variables are kept, none is added or dropped -/
theorem ds_names_kept (sh : DsShared) (G : Gdal) (deps : List Nat → List Nat → List (TIdx × List TIdx))
    (ds : List (String × DsVar)) (out : List (String × Img)) (h : xrReprojectDs sh G deps ds = .ok out) :
    out.map (·.1) = ds.map (·.1) := by
  obtain ⟨hl, hget⟩ := mapM_ok_get _ ds out h
  apply List.ext_getElem?
  intro i
  simp only [List.getElem?_map]
  cases hd : ds[i]? with
  | none =>
    have : out[i]? = none := by
      rw [List.getElem?_eq_none_iff] at hd ⊢
      omega
    simp [this]
  | some nv =>
    obtain ⟨y, hy, hf⟩ := hget i nv hd
    cases hv : dsVarDask sh G deps nv.2 with
    | error e => rw [hv] at hf; simp [Except.map] at hf
    | ok r =>
      rw [hv] at hf
      simp only [Except.map, Except.ok.injEq] at hf
      subst hf
      simp [hy]

/-- a variable without a geobox passes through untouched -/
theorem ds_plain_passthrough (sh : DsShared) (G : Gdal) (deps : List Nat → List Nat → List (TIdx × List TIdx))
    (ds : List (String × DsVar)) (out : List (String × Img)) (h : xrReprojectDs sh G deps ds = .ok out)
    (i : Nat) (n : String) (d : Img) (hi : ds[i]? = some (n, .plain d)) : out[i]? = some (n, d) := by
  obtain ⟨r, hr, hv⟩ := ds_var_eq_da sh G deps ds out h i n _ hi
  simp only [dsVarDask, Except.ok.injEq] at hv
  rw [← hv] at hr
  exact hr

/-- **Dataset, dask-backed = numpy-backed, variable by variable**: every pixel of every georegistered variable of the
reprojected dask-backed Dataset equals the pixel the numpy-backed DataArray call gives for that variable (own nodata
attribute, shared `src_nodata=` / `dst_nodata=` / `chunks=`); composition of `ds_var_eq_da` with
`xr_entry_chunked_eq_whole` -/
theorem ds_chunked_eq_whole (sh : DsShared) (G : Gdal) (deps : List Nat → List Nat → List (TIdx × List TIdx))
    (ds : List (String × DsVar)) (out : List (String × Img)) (h : xrReprojectDs sh G deps ds = .ok out)
    (i : Nat) (n : String) (k : DKind) (attr : Option Val) (sy sx : List Nat) (src buf : Img)
    (hi : ds[i]? = some (n, .geo k attr sy sx src)) (c : Cfg)
    (hc : xrCfg (dsArgs sh k attr sy sx) (deps sy sx) = .ok c)
    (hbuf : WF buf sh.dstH sh.dstW) (hsy : sy.sum = sh.srcH) (hsx : sx.sum = sh.srcW) (hS : sh.S.det ≠ 0)
    (hvalid : DepsValid c) (hcomplete : deps_complete c)
    (hnd1 : NodataOk k (xrNodata attr sh.kwSrcNd sh.dstNd).2) (hnd2 : NodataOk k (xrNodata attr sh.kwSrcNd sh.dstNd).1)
    (d : Int × Int) (hd : 0 ≤ d.1 ∧ d.1 < sh.dstH ∧ 0 ≤ d.2 ∧ d.2 < sh.dstW) :
    ∃ r, out[i]? = some (n, r) ∧ r d = xrNumpy (dsArgs sh k attr sy sx) G src buf d := by
  obtain ⟨r, hr, hv⟩ := ds_var_eq_da sh G deps ds out h i n _ hi
  exact ⟨r, hr, xr_entry_chunked_eq_whole (dsArgs sh k attr sy sx) G (deps sy sx) src buf r c hc hv hbuf hsy hsx hS hvalid
    hcomplete hnd1 hnd2 d hd⟩

example : dsPlan [("red", true), ("qa", true), ("meta", false)] = [("red", "reproject"), ("qa", "reproject"), ("meta", "pass")] := by
  decide

/-! ### the hypotheses are satisfiable: a Dataset with one georegistered and one plain variable -/

def cexSh : DsShared :=
  { srcH := 1, srcW := 1, S := Aff.id, dstH := 1, dstW := 2, D := Aff.id, kwSrcNd := none, dstNd := none, chunks := .pair 1 2 }

def cexDs : List (String × DsVar) := [("a", .geo .float none [1] [1] (full 1 1 (.num 5))), ("m", .plain (full 1 1 (.num 9)))]

example : ∃ out, xrReprojectDs cexSh cexGdal (fun _ _ => [((0, 0), [(0, 0)])]) cexDs = .ok out ∧
    out.map (·.1) = ["a", "m"] ∧ out[1]? = some ("m", full 1 1 (.num 9)) ∧
    ∃ r, out[0]? = some ("a", r) ∧
      r (0, 1) = xrNumpy (dsArgs cexSh .float none [1] [1]) cexGdal (full 1 1 (.num 5)) (full 1 2 (.num 77)) (0, 1) := by
  have h : ∃ out, xrReprojectDs cexSh cexGdal (fun _ _ => [((0, 0), [(0, 0)])]) cexDs = .ok out := ⟨_, rfl⟩
  obtain ⟨out, h⟩ := h
  refine ⟨out, h, ?_, ?_, ?_⟩
  · exact ds_names_kept _ _ _ _ _ h
  · exact ds_plain_passthrough _ _ _ _ _ h 1 "m" _ rfl
  · have hc : xrCfg (dsArgs cexSh .float none [1] [1]) [((0, 0), [(0, 0)])] = .ok (cexCfg Variant.repaired .float none none) := rfl
    exact ds_chunked_eq_whole _ _ _ _ _ h 0 "a" .float none [1] [1] _ (full 1 2 (.num 77)) rfl _ hc
      (by intro p; simp only [full, cexSh]; split <;> simp_all)
      rfl rfl (by decide +kernel) (cexCfg_deps_valid _ _ _ _) (cexCfg_deps_complete _ _ _ _)
      (by intro h; cases h) (by intro h; cases h) (0, 1) (by decide)

example : roundIEEE 11 (-14) 15 (.num 65520) = .inf false := by decide +kernel
example : roundIEEE 11 (-14) 15 (.num (1 / 1000000)) = .fin (17 / 16777216) := by decide +kernel

end OdcGeo.C13
