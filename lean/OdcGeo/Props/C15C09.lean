/-
C15 ∘ C09 — the georeference GDAL is handed is the GeoBox the array was built from.

`write_cog` / `to_cog` take `geo_im.odc.geobox` — the accessor of `_xr_interop.py`, which is property C09's model
(`Model/C09.lean`: `wrap` = `xr_coords` / `_mk_crs_coord` / `wrap_xr`, `assignCrs`, `recover` = `_locate_geo_info` incl.
`_extract_transform`, `recoverDropped` = the GeoTransform fall-back of `_extract_geo_transform`) — and pass its shape to the
layout test and its `transform` / `crs` on to GDAL.  In the C15 call-trace model these two are the pass-through tokens
`x:transform` / `x:crs`.  This file gives the tokens their meaning (`denote`) and composes: for every way of building the
array that C09 models (wrapped; wrapped then sliced / computed on; registered later with `assign_crs`; axis coordinates
dropped), the dataset `_write_cog` opens has the size of the recovered GeoBox and carries the ORIGINAL affine and CRS.
-/
import OdcGeo.Props.C15Glue
import OdcGeo.Props.C09Glue

set_option linter.unusedVariables false
set_option linter.unusedSimpArgs false

namespace OdcGeo.C15
open OdcGeo.C05 (YX adjustBlocksize)

/-- what the writers read off a DataArray: `geo_im.odc.geobox` as far as they use it -/
structure GeoRef where
  shape : YX
  A : Aff
  crs : Option C09.Crs

/-- `geo_im.odc.geobox` through C09's recovery (`none`: no GeoBox; GCP geoboxes are not what `write_cog` is documented for) -/
def georefOf : Res C09.Recovered → Option GeoRef
  | .ok (.lin g) => some ⟨⟨g.ny, g.nx⟩, g.A, g.crs⟩
  | _ => none

/-- the layer `write_cog` sees for an array whose accessor reports `gr` -/
def layerOfXr (gr : Option GeoRef) (shape : List Nat) (dtype : String) (isFloat : Bool) (nd : V) : Layer :=
  { shape := shape, g := gr.map (·.shape), dtype := dtype, isFloat := isFloat, attrsNodata := nd }

/-- meaning of the two pass-through tokens of the trace model in a call on an array with georeference `gr`:
`transform=geobox.transform`, `crs=str(geobox.crs)` -/
def denote (gr : GeoRef) : V → Option (Aff ⊕ Option C09.Crs)
  | .ext tok => if tok = "transform" then some (.inl gr.A) else if tok = "crs" then some (.inr gr.crs) else none
  | _ => none

/-! ## the dataset `_write_cog` opens -/

theorem get_memOpenKw (o : Dict) (k : String) (hk : k ≠ "driver") : Dict.get (memOpenKw o) k = Dict.get o k := by
  unfold memOpenKw; rw [Dict.get_cons]
  have : ¬ "driver" = k := fun e => hk e.symm
  simp [this]

theorem get_pathOpenKw (o : Dict) (k : String) (hk : k ≠ "driver") (hm : k ≠ "mode") : Dict.get (pathOpenKw o) k = Dict.get o k := by
  unfold pathOpenKw; rw [Dict.get_cons, Dict.get_cons]
  have h1 : ¬ "driver" = k := fun e => hk e.symm
  have h2 : ¬ "mode" = k := fun e => hm e.symm
  simp [h1, h2]

/-- the four keys that describe WHERE the image is -/
def georefKeys : List String := ["transform", "crs", "width", "height"]

/-- `open_opts_georef`: every dataset `_write_cog` opens (the final one, or the temporary first-pass image) gets for
`transform` / `crs` / `width` / `height` exactly odc-geo's own values — the pass-through tokens and the normalised image size —
unless the caller overrides them in the extra options or in the intermediate-compression dict -/
theorem open_opts_georef (a : WArgs) (l : Layout) (hl : layoutOf a.shape a.g = .ok l) (loc : Loc) (opts : Dict)
    (hev : Ev.openW loc opts ∈ (writeCog a).1) (k : String) (hk : k ∈ georefKeys)
    (hx : a.extra.lastGet k = none) (hic : a.icomp.norm.lastGet k = none) :
    Dict.get opts k = Dict.get (baseOpts l a.dtype a.isFloat (a.blocksize.getD 512)) k := by
  have hwe := mem_writeEvents l a.shape.length a.windowed
  have hkd : k ≠ "driver" ∧ k ≠ "mode" ∧ k ≠ "nodata" ∧ ¬(k = "compress" ∨ k = "predictor" ∨ k = "zlevel") := by
    simp only [georefKeys, List.mem_cons, List.not_mem_nil, or_false] at hk
    rcases hk with h | h | h | h <;> subst h <;> decide
  obtain ⟨hd1, hd2, hd3, hd4⟩ := hkd
  have hrio : Dict.get (rioOpts l a.dtype a.isFloat (a.blocksize.getD 512) a.nodata a.extra) k =
      Dict.get (baseOpts l a.dtype a.isFloat (a.blocksize.getD 512)) k := by
    rw [rio_opts_precedence, hx]; simp [hd3]
  have htmp : Dict.get (tmpOpts (rioOpts l a.dtype a.isFloat (a.blocksize.getD 512) a.nodata a.extra) a.icomp) k =
      Dict.get (baseOpts l a.dtype a.isFloat (a.blocksize.getD 512)) k := by
    rw [tmp_opts_spec, hic]; simp [hd4, hrio]
  unfold writeCog writeCogFrom at hev
  by_cases hlv : (levelsFor a.levels l.w l.h).length = 0 <;>
  by_cases hb : (a.blocksize.getD 512 % 16 != 0) = true <;>
  cases hr : resamplingS2rio (a.resampling.getD "nearest") <;>
  (cases hdst : a.dst with
    | mem =>
      simp [hl, hlv, hb, hr, hdst] at hev
      try (rcases hev with ⟨rfl, rfl⟩ | hev
           · first | (rw [get_memOpenKw _ _ hd1]; first | exact hrio | exact htmp)
           · obtain ⟨_, _, _, h⟩ := hwe _ _ hev; cases h)
    | path p ex =>
      cases ex <;> cases ho : a.overwrite <;> simp [hl, hlv, hb, hr, hdst, ho] at hev <;>
      try (rcases hev with ⟨rfl, rfl⟩ | hev
           · first | (rw [get_pathOpenKw _ _ hd1 hd2]; exact hrio) | (rw [get_memOpenKw _ _ hd1]; exact htmp)
           · obtain ⟨_, _, _, h⟩ := hwe _ _ hev; cases h))

/-- `write_cog_hands_gdal_the_geobox`: for an array whose accessor reports the georeference `gr`, written through the direct path
of `write_cog` / `to_cog` in any accepted layout with any options that do not themselves override the georeference: every
dataset opened (temporary or final) has the width × height of `gr` and its `transform` / `crs` options DENOTE `gr.A` / `gr.crs` -/
theorem write_cog_hands_gdal_the_geobox (gr : GeoRef) (shape : List Nat) (dtype : String) (fl : Bool) (nd : V) (a : CArgs)
    (him : a.im = layerOfXr (some gr) shape dtype fl nd) (hov : a.overviews = none) (l : Layout)
    (hl : normLayout shape gr.shape = .ok l)
    (hx : ∀ k ∈ georefKeys, a.extra.lastGet k = none) (hic : ∀ k ∈ georefKeys, a.icomp.norm.lastGet k = none)
    (loc : Loc) (opts : Dict) (hev : Ev.openW loc opts ∈ (writeCogEntry a).1) :
    (Dict.get opts "transform").bind (denote gr) = some (.inl gr.A) ∧
    (Dict.get opts "crs").bind (denote gr) = some (.inr gr.crs) ∧
    Dict.get opts "width" = some (.int gr.shape.x) ∧ Dict.get opts "height" = some (.int gr.shape.y) := by
  unfold writeCogEntry writeCogEntryWith at hev
  simp only [hov, him, layerOfXr, Option.map_some] at hev
  have hlw := (layout_normalises_to_band_first shape gr.shape l hl).1
  have hlo : ∀ wa : WArgs, wa.shape = shape → wa.g = some gr.shape → layoutOf wa.shape wa.g = .ok l := by
    intro wa h1 h2; rw [h1, h2]; simp [layoutOf, hl]
  have hwo : ∀ k ∈ georefKeys, (a.extra.without ["nodata"]).lastGet k = none := by
    intro k hk
    have hne : k ≠ "nodata" := by
      simp only [georefKeys, List.mem_cons, List.not_mem_nil, or_false] at hk
      rcases hk with h | h | h | h <;> subst h <;> decide
    have h0 : Dict.get a.extra.reverse k = none := hx k hk
    have hrev : (Dict.without a.extra ["nodata"]).reverse = Dict.without a.extra.reverse ["nodata"] := by
      unfold Dict.without
      exact (List.filter_reverse ..).symm
    unfold Dict.lastGet
    rw [hrev, Dict.get_without, h0]
    simp
  have key := fun k hk => open_opts_georef _ l (hlo _ rfl rfl) loc opts hev k hk (hwo k hk) (hic k hk)
  have e1 := key "transform" (by simp [georefKeys])
  have e2 := key "crs" (by simp [georefKeys])
  have e3 := key "width" (by simp [georefKeys])
  have e4 := key "height" (by simp [georefKeys])
  have hshape : gr.shape.x = l.w ∧ gr.shape.y = l.h := by rw [hlw]; exact ⟨rfl, rfl⟩
  refine ⟨?_, ?_, ?_, ?_⟩
  · rw [e1]; simp [baseOpts, Dict.get, denote]
  · rw [e2]; simp [baseOpts, Dict.get, denote]
  · rw [e3, hshape.1]; simp [baseOpts, Dict.get]
  · rw [e4, hshape.2]; simp [baseOpts, Dict.get]

/-! ## every provenance C09 models recovers the GeoBox the array was built from -/

open OdcGeo.C09 in
/-- built by `wrap_xr` (any rank, any CRS-coordinate name): axis-aligned boxes (with a CRS, or at least 2 × 2) and rotated /
sheared boxes of every shape -/
theorem georef_wrap (g : C09.GeoBox) (nt nb : Option Nat) (cn : String) (attrs : List String) (a0 : XArr) (hcn : NameOk cn)
    (hny : 1 ≤ g.ny) (hnx : 1 ≤ g.nx)
    (hkind : (g.A.b = 0 ∧ g.A.d = 0 ∧ (g.crs.isSome = true ∨ (2 ≤ g.ny ∧ 2 ≤ g.nx))) ∨ isAffineST g.A = false)
    (hw : wrap (.lin g) nt nb cn attrs = .ok a0) :
    georefOf (recover a0) = some ⟨⟨g.ny, g.nx⟩, g.A, g.crs⟩ := by
  rcases hkind with ⟨hb, hd, hc⟩ | hrot
  · rw [roundtrip_axis_aligned g nt nb cn attrs a0 hcn hb hd hny hnx hc hw]; rfl
  · rw [roundtrip_rotated g nt nb cn attrs a0 hcn hrot hny hnx hw]; rfl

open OdcGeo.C09 in
/-- wrapped without a CRS coordinate, registered later with `.odc.assign_crs` -/
theorem georef_assign_crs (g : C09.GeoBox) (c : Crs) (nt nb : Option Nat) (cn : String) (attrs : List String) (a0 : XArr)
    (hcn : NameOk cn) (hcrs : g.crs = some c) (halign : isAffineST g.A = true → g.A.b = 0 ∧ g.A.d = 0)
    (hshape : (isAffineST g.A = false ∧ 1 ≤ g.ny ∧ 1 ≤ g.nx) ∨ (2 ≤ g.ny ∧ 2 ≤ g.nx))
    (hw : wrapNoName (.lin g) nt nb attrs = .ok a0) :
    georefOf (recover (assignCrs a0 c cn)) = some ⟨⟨g.ny, g.nx⟩, g.A, g.crs⟩ := by
  rw [roundtrip_assign_crs g c nt nb cn attrs a0 hcn hcrs halign hshape hw]; rfl

open OdcGeo.C09 in
/-- axis coordinates dropped (rioxarray style): the GeoTransform of the CRS coordinate, rotated boxes included -/
theorem georef_dropped_coords (g : C09.GeoBox) (c : Crs) (nt nb : Option Nat) (cn : String) (attrs : List String) (a0 : XArr)
    (drop : List String) (hcn : NameOk cn) (hcrs : g.crs = some c) (hw : wrap (.lin g) nt nb cn attrs = .ok a0)
    (hdrop : (dimsOf g.crs).1 ∈ drop ∨ (dimsOf g.crs).2 ∈ drop) :
    georefOf (recoverDropped a0 drop) = some ⟨⟨g.ny, g.nx⟩, g.A, g.crs⟩ := by
  rw [dropped_coords_roundtrip g c nt nb cn attrs a0 drop hcn hcrs hw hdrop]; rfl

open OdcGeo.C09 in
/-- wrapped, then any history of slices (strided, reversed, down to one pixel), arithmetic, `astype`, pickling: the
georeference has the shape of the result, the CRS of the original and maps every remaining pixel centre to where the
original GeoBox puts the pixel it came from -/
theorem georef_after_history (g : C09.GeoBox) (nt nb : Option Nat) (cn : String) (attrs : List String) (ops : List Op)
    (a0 a : XArr) (hcn : NameOk cn) (halign : isAffineST g.A = true → g.A.b = 0 ∧ g.A.d = 0)
    (hw : wrap (.lin g) nt nb cn attrs = .ok a0) (hadm : ∀ op ∈ ops, op.admissible) (hops : applyOps a0 ops = .ok a) :
    let m := track (dimsOf g.crs).1 (dimsOf g.crs).2 (AxMap.ident g.ny, AxMap.ident g.nx) ops
    1 ≤ m.1.len → 1 ≤ m.2.len → HasFallback g m.1 m.2 →
      ∃ gr, georefOf (recover a) = some gr ∧ gr.shape = ⟨m.1.len, m.2.len⟩ ∧ gr.crs = g.crs ∧
        ∀ i j : Nat, i < m.1.len → j < m.2.len →
          gr.A.apply (centre i j) = g.A.apply (centre (m.1.orig i) (m.2.orig j)) := by
  intro m h1 h2 h3
  obtain ⟨r, hr, e1, e2, e3, e4⟩ := survives g nt nb cn attrs ops a0 a hcn halign hw hadm hops h1 h2 h3
  refine ⟨⟨⟨r.ny, r.nx⟩, r.A, r.crs⟩, by rw [hr]; rfl, by simp only [e1, e2]; rfl, e3, e4⟩

/-! ## composed: from the GeoBox the caller built the array with to the options of the GDAL dataset -/

open OdcGeo.C09 in
/-- `wrapped_array_written_with_its_geobox`: END TO END for `xx = wrap_xr(pix, g)` written by `to_cog` / `write_cog` (direct path, any
layout `pix` may have over `g`, default or any non-overriding options): every dataset GDAL is asked to create is `g.nx × g.ny`
with `transform = g.A` and `crs = g.crs` — no hypothesis about the accessor in between -/
theorem wrapped_array_written_with_its_geobox (g : C09.GeoBox) (nt nb : Option Nat) (cn : String) (attrs : List String) (a0 : XArr)
    (hcn : NameOk cn) (hny : 1 ≤ g.ny) (hnx : 1 ≤ g.nx)
    (hkind : (g.A.b = 0 ∧ g.A.d = 0 ∧ (g.crs.isSome = true ∨ (2 ≤ g.ny ∧ 2 ≤ g.nx))) ∨ isAffineST g.A = false)
    (hw : wrap (.lin g) nt nb cn attrs = .ok a0)
    (shape : List Nat) (dtype : String) (fl : Bool) (nd : V) (a : CArgs)
    (him : a.im = layerOfXr (georefOf (recover a0)) shape dtype fl nd) (hov : a.overviews = none) (l : Layout)
    (hl : normLayout shape ⟨g.ny, g.nx⟩ = .ok l)
    (hx : ∀ k ∈ georefKeys, a.extra.lastGet k = none) (hic : ∀ k ∈ georefKeys, a.icomp.norm.lastGet k = none)
    (loc : Loc) (opts : Dict) (hev : Ev.openW loc opts ∈ (writeCogEntry a).1) :
    (Dict.get opts "transform").bind (denote ⟨⟨g.ny, g.nx⟩, g.A, g.crs⟩) = some (.inl g.A) ∧
    (Dict.get opts "crs").bind (denote ⟨⟨g.ny, g.nx⟩, g.A, g.crs⟩) = some (.inr g.crs) ∧
    Dict.get opts "width" = some (.int g.nx) ∧ Dict.get opts "height" = some (.int g.ny) := by
  rw [georef_wrap g nt nb cn attrs a0 hcn hny hnx hkind hw] at him
  exact write_cog_hands_gdal_the_geobox ⟨⟨g.ny, g.nx⟩, g.A, g.crs⟩ shape dtype fl nd a him hov l hl hx hic loc opts hev

end OdcGeo.C15
