/-
C08 ∘ C02 — the result of `GeoBox.from_bbox` seen through the public accessors of `GeoBox` as modelled by
C02 (`Model/C02.lean`, imported read-only): `.boundingbox`, `.alignment`, `.resolution`.

`Props/C08.lean` states cover / minimal / aligned in its own vocabulary (`g.xmin … g.ymax`); here the same
guarantees are stated on what a user reads off the returned object, with no named hypothesis between the
arguments of `from_bbox` and the accessor's value:

* `.boundingbox` of the result covers the region up to `tol` of a pixel and exceeds it by at most a pixel (+`tol`);
* `.alignment` (`(tx % |rx|, ty % |ry|)`) **is exactly the anchor fraction times the pixel size** — `(0, 0)` for
  `anchor="edge"`, half a pixel for `"center"`, `align` itself for the deprecated `align=` of `from_geopolygon`;
* `.resolution` is exactly the requested resolution.
-/
import OdcGeo.Model.C02
import OdcGeo.Props.C08

namespace OdcGeo.C08
open OdcGeo.C20 (snapGrid gridLo gridHi)

/-- The C08 result as a C02 geobox (`crs` is carried along, it plays no role here). -/
def toC02 (g : GeoBox) (crs : Nat) : C02.GeoBox := ⟨g.ny, g.nx, g.affine, crs⟩

/-- For an axis-aligned affine the modelled `GeoBox.boundingbox` (hull of the four corner images) is the
extent `xmin … ymax` of C08's vocabulary. -/
theorem boundingbox_of_axis_aligned (g : GeoBox) (crs : Nat) (hb : g.affine.b = 0) (hd : g.affine.d = 0) :
    C02.boundingbox (toC02 g crs) = ⟨g.xmin, g.ymin, g.xmax, g.ymax⟩ := by
  simp only [C02.boundingbox, toC02, Aff.apply, hb, hd, C02.min4, C02.max4, GeoBox.xmin, GeoBox.xmax,
    GeoBox.ymin, GeoBox.ymax]
  simp only [mul_zero, zero_mul, zero_add, add_zero]
  have e1 : g.affine.a * (g.nx : Rat) + g.affine.c = g.affine.c + (g.nx : Rat) * g.affine.a := by ring
  have e2 : g.affine.e * (g.ny : Rat) + g.affine.f = g.affine.f + (g.ny : Rat) * g.affine.e := by ring
  rw [e1, e2]
  congr 1
  · rw [min_self, min_self]
  · rw [min_comm (g.affine.f + _) g.affine.f, min_comm g.affine.f (g.affine.f + _),
      min_comm (min _ _) (min _ _)]
    rw [min_comm (g.affine.f + _) g.affine.f, min_self]
  · rw [max_self, max_self]
  · rw [max_comm (g.affine.f + _) g.affine.f, max_self]

section res
variable {bb : BBox} {tight : Bool} {shape : ShapeArg} {res : ResArg} {anchor : AnchorArg}
  {tol rx ry : Rat} {g : GeoBox}

/-- **`from_bbox(region, resolution=…).boundingbox` covers the region** up to `tol` of a pixel per side and is
at most one pixel (+`tol`) larger per side. -/
theorem from_bbox_res_boundingbox (hs : ∀ n, shape ≠ .int n) (hres : res.xy? = some (rx, ry))
    (v : ValidRes bb rx ry tol (snapOf tight (normAnchor anchor)))
    (h : fromBbox bb tight shape res anchor tol = .ok g) (crs : Nat) :
    let B := C02.boundingbox (toC02 g crs)
    B.left ≤ bb.left + tol * |rx| ∧ bb.right - tol * |rx| ≤ B.right ∧
    B.bottom ≤ bb.bottom + tol * |ry| ∧ bb.top - tol * |ry| ≤ B.top ∧
    bb.left - B.left ≤ |rx| * (1 + tol) ∧ B.right - bb.right ≤ |rx| * (1 + tol) ∧
    bb.bottom - B.bottom ≤ |ry| * (1 + tol) ∧ B.top - bb.top ≤ |ry| * (1 + tol) := by
  obtain ⟨_, _, _, hb, hd⟩ := from_bbox_res_pixel_size hs hres h
  have hc := from_bbox_res_covers hs hres v h
  have hm := from_bbox_res_minimal_le hs hres v h
  simp only [boundingbox_of_axis_aligned g crs hb hd]
  exact ⟨hc.1, hc.2.1, hc.2.2.1, hc.2.2.2, hm.1, hm.2.1, hm.2.2.1, hm.2.2.2⟩

/-- `x % m` (Python float modulo, as modelled by C02) of a number sitting `s·m` above a multiple of `m`,
`0 ≤ s < 1`, is `s·m`. -/
theorem pyFMod_of_aligned (x m s : Rat) (k : Int) (hm : 0 < m) (hs : 0 ≤ s ∧ s < 1)
    (hk : (x - s * m) / m = k) : C02.pyFMod x m = .ok (s * m) := by
  have hx : x = (k + s) * m := by
    have := (div_eq_iff (ne_of_gt hm)).mp hk
    linarith
  unfold C02.pyFMod
  rw [if_neg (ne_of_gt hm)]
  have hq : x / m = (k : Rat) + s := by rw [hx]; field_simp
  have hfl : (x / m).floor = k := by
    rw [hq]
    apply le_antisymm
    · have : ((k : Rat) + s).floor < k + 1 := by
        rw [Rat.floor_lt_iff]; push_cast; linarith [hs.2]
      omega
    · rw [Rat.le_floor_iff]; linarith [hs.1]
  rw [hfl, hx]
  congr 1
  ring

/-- **`from_bbox(…, anchor=a).alignment` is exactly the anchor**: `(sx·|rx|, sy·|ry|)` for the anchor fractions
`(sx, sy)` — `(0, 0)` for `"edge"` / `"default"`, half a pixel for `"center"`, any fraction in `[0, 1)` per axis —
whatever the sign of either resolution component. -/
theorem from_bbox_res_alignment (hs : ∀ n, shape ≠ .int n) (hres : res.xy? = some (rx, ry))
    (v : ValidRes bb rx ry tol (snapOf tight (normAnchor anchor))) {sx sy : Rat}
    (hsn : snapOf tight (normAnchor anchor) = some (sx, sy))
    (h : fromBbox bb tight shape res anchor tol = .ok g) (crs : Nat) :
    C02.alignment (toC02 g crs) = .ok (sx * |rx|, sy * |ry|) := by
  obtain ⟨h1, h2, _⟩ := from_bbox_res_axes hs hres v h
  obtain ⟨_, ha, he, _, _⟩ := from_bbox_res_pixel_size hs hres h
  have hs' := v.hsnap (sx, sy) hsn
  rw [hsn] at h1 h2
  obtain ⟨i, hi1, hi2⟩ := C20.snap_grid_aligned v.hrx v.hx hs'.1 v.ht v.ht2 h1
  obtain ⟨j, hj1, hj2⟩ := C20.snap_grid_aligned v.hry v.hy hs'.2 v.ht v.ht2 h2
  have hrx : 0 < |rx| := abs_pos.mpr v.hrx
  have hry : 0 < |ry| := abs_pos.mpr v.hry
  -- the origin itself is the lower or the upper edge, both sit at the anchor fraction
  have hcx : ∃ k : Int, (g.affine.c - sx * |rx|) / |rx| = k := by
    simp only [gridLo] at hi1
    simp only [gridHi] at hi2
    by_cases hp : 0 < rx
    · rw [if_pos hp] at hi1; exact ⟨i, hi1⟩
    · rw [if_neg hp] at hi2; exact ⟨i + g.nx, hi2⟩
  have hcy : ∃ k : Int, (g.affine.f - sy * |ry|) / |ry| = k := by
    simp only [gridLo] at hj1
    simp only [gridHi] at hj2
    by_cases hp : 0 < ry
    · rw [if_pos hp] at hj1; exact ⟨j, hj1⟩
    · rw [if_neg hp] at hj2; exact ⟨j + g.ny, hj2⟩
  obtain ⟨kx, hkx⟩ := hcx
  obtain ⟨ky, hky⟩ := hcy
  have habs : ∀ x : Rat, C02.rabs x = |x| := by
    intro x; unfold C02.rabs
    split
    · rename_i hx; rw [abs_of_neg hx]
    · rename_i hx; rw [abs_of_nonneg (not_lt.mp hx)]
  unfold C02.alignment
  simp only [toC02, habs, ha, he]
  rw [pyFMod_of_aligned _ _ sx kx hrx hs'.1 hkx, pyFMod_of_aligned _ _ sy ky hry hs'.2 hky]
  rfl

/-- **`from_bbox(…, resolution=r).resolution == r`**, exactly (no decomposition is involved: the result is
axis aligned). -/
theorem from_bbox_res_resolution (hs : ∀ n, shape ≠ .int n) (hres : res.xy? = some (rx, ry))
    (h : fromBbox bb tight shape res anchor tol = .ok g) (crs : Nat) (n m : Rat) :
    C02.resolution (toC02 g crs) n m = .ok (rx, ry) := by
  obtain ⟨_, ha, he, hb, hd⟩ := from_bbox_res_pixel_size hs hres h
  have hst : C02.isAffineST g.affine = true := by
    unfold C02.isAffineST C02.rabs C02.tolST
    rw [hb, hd]
    decide +kernel
  unfold C02.resolution
  simp only [toC02, hst, if_true, ha, he]

end res

/-- **The deprecated `align=` of `from_geopolygon` is what `.alignment` reports**: for `0 ≤ ax < |rx|`,
`0 ≤ ay < |ry|` (not both zero — that case is `anchor="edge"`, alignment `(0, 0)`) the resulting geobox has
`.alignment == (ax, ay)` exactly. -/
theorem from_geopolygon_align_is_alignment (p : Rat × Rat) (ps : List (Rat × Rat)) (rx ry ax ay tol : Rat)
    (shape : ShapeArg) (anchor : AnchorArg) (hs : ∀ n, shape ≠ .int n) (hrx : rx ≠ 0) (hry : ry ≠ 0)
    (hax : 0 ≤ ax ∧ ax < |rx|) (hay : 0 ≤ ay ∧ ay < |ry|) (hnz : ¬ (ax = 0 ∧ ay = 0))
    (ht : 0 ≤ tol) (ht2 : tol < 1 / 2) {g : GeoBox}
    (h : fromGeopolygon p ps (.xy rx ry) (some (ax, ay)) shape false anchor tol = .ok g) (crs : Nat) :
    C02.alignment (toC02 g crs) = .ok (ax, ay) := by
  have habs : ∀ x : Rat, C20.rabs x = |x| := by
    intro x; unfold C20.rabs
    split
    · rename_i hx; rw [abs_of_neg hx]
    · rename_i hx; rw [abs_of_nonneg (not_lt.mp hx)]
  have hprx : 0 < |rx| := abs_pos.mpr hrx
  have hpry : 0 < |ry| := abs_pos.mpr hry
  unfold fromGeopolygon alignToAnchor at h
  simp only [if_neg hnz, ResArg.xy?, hrx, hry, or_self, if_false, bind, Except.bind, habs] at h
  have hsn : snapOf false (normAnchor (.val (.xy (ax / |rx|) (ay / |ry|)))) = some (ax / |rx|, ay / |ry|) := rfl
  have hbb := bbox_of_pts_contains p ps
  have v : ValidRes (bboxOfPts p ps) rx ry tol (snapOf false (normAnchor (.val (.xy (ax / |rx|) (ay / |ry|))))) := by
    refine ⟨?_, ?_, hrx, hry, ht, ht2, ?_⟩
    · have := hbb p (List.mem_cons_self ..); linarith [this.1, this.2.1]
    · have := hbb p (List.mem_cons_self ..); linarith [this.2.2.1, this.2.2.2]
    · intro s hs'
      rw [hsn] at hs'; cases hs'
      exact ⟨⟨div_nonneg hax.1 hprx.le, (div_lt_one hprx).mpr hax.2⟩,
        ⟨div_nonneg hay.1 hpry.le, (div_lt_one hpry).mpr hay.2⟩⟩
  have := from_bbox_res_alignment (res := .xy rx ry) hs rfl v hsn h crs
  rw [this, div_mul_cancel₀ _ (ne_of_gt hprx), div_mul_cancel₀ _ (ne_of_gt hpry)]

/-! ## round trips: `from_bbox` → `zoom_to(resolution=)`, `from_bbox` → `pad` -/

theorem snapCeil_intCast (n : Int) : C02.snapCeil (n : Rat) C02.tolSnap = n := by
  unfold C02.snapCeil
  have htol : (0 : Rat) < C02.tolSnap := by unfold C02.tolSnap; rw [Rat.mkRat_eq_div]; norm_num
  simp [Rat.floor_intCast, htol]

/-- **`zoom_to(resolution=own resolution)` is the identity** on every axis-aligned geobox with at least one pixel per
axis (either sign of either resolution component). -/
theorem zoom_to_own_resolution (g : GeoBox) (crs : Nat) (rx ry : Rat) (hrx : rx ≠ 0) (hry : ry ≠ 0)
    (ha : g.affine = ⟨rx, 0, g.affine.c, 0, ry, g.affine.f⟩) (hnx : 1 ≤ g.nx) (hny : 1 ≤ g.ny) :
    C02.zoomToRes (toC02 g crs) rx ry = .ok (toC02 g crs) := by
  have hb : g.affine.b = 0 := by rw [ha]
  have hd : g.affine.d = 0 := by rw [ha]
  have haa : g.affine.a = rx := by rw [ha]
  have hee : g.affine.e = ry := by rw [ha]
  have hnx' : (1 : Rat) ≤ g.nx := by exact_mod_cast hnx
  have hny' : (1 : Rat) ≤ g.ny := by exact_mod_cast hny
  -- one axis
  have axis : ∀ (c r : Rat) (n : Int), r ≠ 0 → 1 ≤ n →
      C02.snapGridTight (min c (c + (n : Rat) * r)) (max c (c + (n : Rat) * r)) r C02.tolSnap = .ok (c, n) := by
    intro c r n hr hn
    have hn' : (1 : Rat) ≤ n := by exact_mod_cast hn
    unfold C02.snapGridTight
    rcases lt_or_gt_of_ne hr with h | h
    · -- r < 0
      have hle : c + (n : Rat) * r ≤ c := by nlinarith
      rw [min_eq_right hle, max_eq_left hle, if_neg (not_lt.mpr h.le), if_neg hr]
      have : (c - (c + (n : Rat) * r)) / -r = (n : Rat) := by field_simp; ring
      rw [this, snapCeil_intCast, max_eq_left hn]
    · have hle : c ≤ c + (n : Rat) * r := by nlinarith
      rw [min_eq_left hle, max_eq_right hle, if_pos h]
      have : (c + (n : Rat) * r - c) / r = (n : Rat) := by field_simp; ring
      rw [this, snapCeil_intCast, max_eq_right hn]
  unfold C02.zoomToRes
  rw [boundingbox_of_axis_aligned g crs hb hd]
  simp only [GeoBox.xmin, GeoBox.xmax, GeoBox.ymin, GeoBox.ymax, haa, hee]
  rw [axis g.affine.c rx g.nx hrx hnx, axis g.affine.f ry g.ny hry hny]
  simp only [bind, Except.bind, pure, Except.pure, toC02, ts_eq]
  rw [← ha]

/-- **`GeoBox.from_bbox(region, resolution=r).zoom_to(resolution=r)` gives the same geobox back** (any anchor, tight
or not): the result of the resolution-driven construction is a fixed point of re-gridding at its own resolution. -/
theorem from_bbox_then_zoom_to_same_resolution {bb : BBox} {tight : Bool} {shape : ShapeArg} {res : ResArg}
    {anchor : AnchorArg} {tol rx ry : Rat} {g : GeoBox} (hs : ∀ n, shape ≠ .int n) (hres : res.xy? = some (rx, ry))
    (v : ValidRes bb rx ry tol (snapOf tight (normAnchor anchor)))
    (h : fromBbox bb tight shape res anchor tol = .ok g) (crs : Nat) :
    C02.zoomToRes (toC02 g crs) rx ry = .ok (toC02 g crs) := by
  obtain ⟨g', hg', hn1, hn2⟩ := from_bbox_res_total (shape := shape) (res := res) (anchor := anchor) (tight := tight) hs hres v
  rw [h] at hg'; cases hg'
  obtain ⟨_, ha, he, hb, hd⟩ := from_bbox_res_pixel_size hs hres h
  refine zoom_to_own_resolution g crs rx ry v.hrx v.hry ?_ hn1 hn2
  cases hA : g.affine
  simp only [hA] at ha he hb hd
  simp [ha, he, hb, hd]

/-- **`from_bbox(region, resolution=r).pad(px, py)` covers the region grown by `px`, `py` pixels** (up to `tol`):
padding moves each edge of the bounding box outwards by exactly that many pixels. -/
theorem from_bbox_then_pad_covers {bb : BBox} {tight : Bool} {shape : ShapeArg} {res : ResArg}
    {anchor : AnchorArg} {tol rx ry : Rat} {g : GeoBox} (hs : ∀ n, shape ≠ .int n) (hres : res.xy? = some (rx, ry))
    (v : ValidRes bb rx ry tol (snapOf tight (normAnchor anchor)))
    (h : fromBbox bb tight shape res anchor tol = .ok g) (crs : Nat) (px py : Int) (hpx : 0 ≤ px) (hpy : 0 ≤ py) :
    let B := C02.boundingbox (C02.pad (toC02 g crs) px (some py))
    B.left ≤ bb.left - (px : Rat) * |rx| + tol * |rx| ∧ bb.right + (px : Rat) * |rx| - tol * |rx| ≤ B.right ∧
    B.bottom ≤ bb.bottom - (py : Rat) * |ry| + tol * |ry| ∧ bb.top + (py : Rat) * |ry| - tol * |ry| ≤ B.top := by
  obtain ⟨g', hg', hn1, hn2⟩ := from_bbox_res_total (shape := shape) (res := res) (anchor := anchor) (tight := tight) hs hres v
  rw [h] at hg'; cases hg'
  obtain ⟨_, ha, he, hb, hd⟩ := from_bbox_res_pixel_size hs hres h
  have hc := from_bbox_res_covers hs hres v h
  -- the padded geobox, in C08's vocabulary
  let gp : GeoBox := ⟨g.ny + py * 2, g.nx + px * 2,
    ⟨rx, 0, g.affine.c - (px : Rat) * rx, 0, ry, g.affine.f - (py : Rat) * ry⟩⟩
  have hpad : C02.pad (toC02 g crs) px (some py) = toC02 gp crs := by
    simp only [C02.pad, toC02, gp, Aff.mul_def, Aff.mul, Aff.translation, ha, he, hb, hd]
    congr 1
    simp only [Aff.mk.injEq]
    refine ⟨by ring, by ring, by ring, by ring, by ring, by ring⟩
  have hnx : (1 : Rat) ≤ g.nx := by exact_mod_cast hn1
  have hny : (1 : Rat) ≤ g.ny := by exact_mod_cast hn2
  have hpx' : (0 : Rat) ≤ px := by exact_mod_cast hpx
  have hpy' : (0 : Rat) ≤ py := by exact_mod_cast hpy
  simp only [hpad, boundingbox_of_axis_aligned gp crs rfl rfl]
  simp only [GeoBox.xmin, GeoBox.xmax, GeoBox.ymin, GeoBox.ymax, ha, he] at hc
  simp only [GeoBox.xmin, GeoBox.xmax, GeoBox.ymin, GeoBox.ymax, gp]
  push_cast
  obtain ⟨c1, c2, c3, c4⟩ := hc
  refine ⟨?_, ?_, ?_, ?_⟩
  · rcases lt_or_gt_of_ne v.hrx with hr | hr
    · rw [abs_of_neg hr] at c1 ⊢
      have e1 : min g.affine.c (g.affine.c + (g.nx : Rat) * rx) = g.affine.c + (g.nx : Rat) * rx := min_eq_right (by nlinarith)
      rw [e1] at c1
      refine le_trans (min_le_right _ _) ?_
      nlinarith
    · rw [abs_of_pos hr] at c1 ⊢
      have e1 : min g.affine.c (g.affine.c + (g.nx : Rat) * rx) = g.affine.c := min_eq_left (by nlinarith)
      rw [e1] at c1
      refine le_trans (min_le_left _ _) ?_
      nlinarith
  · rcases lt_or_gt_of_ne v.hrx with hr | hr
    · rw [abs_of_neg hr] at c2 ⊢
      have e1 : max g.affine.c (g.affine.c + (g.nx : Rat) * rx) = g.affine.c := max_eq_left (by nlinarith)
      rw [e1] at c2
      refine le_trans ?_ (le_max_left _ _)
      nlinarith
    · rw [abs_of_pos hr] at c2 ⊢
      have e1 : max g.affine.c (g.affine.c + (g.nx : Rat) * rx) = g.affine.c + (g.nx : Rat) * rx := max_eq_right (by nlinarith)
      rw [e1] at c2
      refine le_trans ?_ (le_max_right _ _)
      nlinarith
  · rcases lt_or_gt_of_ne v.hry with hr | hr
    · rw [abs_of_neg hr] at c3 ⊢
      have e1 : min g.affine.f (g.affine.f + (g.ny : Rat) * ry) = g.affine.f + (g.ny : Rat) * ry := min_eq_right (by nlinarith)
      rw [e1] at c3
      refine le_trans (min_le_right _ _) ?_
      nlinarith
    · rw [abs_of_pos hr] at c3 ⊢
      have e1 : min g.affine.f (g.affine.f + (g.ny : Rat) * ry) = g.affine.f := min_eq_left (by nlinarith)
      rw [e1] at c3
      refine le_trans (min_le_left _ _) ?_
      nlinarith
  · rcases lt_or_gt_of_ne v.hry with hr | hr
    · rw [abs_of_neg hr] at c4 ⊢
      have e1 : max g.affine.f (g.affine.f + (g.ny : Rat) * ry) = g.affine.f := max_eq_left (by nlinarith)
      rw [e1] at c4
      refine le_trans ?_ (le_max_left _ _)
      nlinarith
    · rw [abs_of_pos hr] at c4 ⊢
      have e1 : max g.affine.f (g.affine.f + (g.ny : Rat) * ry) = g.affine.f + (g.ny : Rat) * ry := max_eq_right (by nlinarith)
      rw [e1] at c4
      refine le_trans ?_ (le_max_right _ _)
      nlinarith

/-! ## non-vacuity -/

example : C02.alignment (toC02 ⟨3, 3, ⟨3, 0, 3 / 2, 0, -3, 15 / 2⟩⟩ 0) = .ok (3 / 2, 3 / 2) := by decide +kernel
example : fromBbox ⟨2, 0, 10, 7⟩ false .none (.scalar 3) (.name .center) (1 / 100) =
    .ok ⟨3, 3, ⟨3, 0, 3 / 2, 0, -3, 15 / 2⟩⟩ := by decide +kernel
example : fromGeopolygon (2, 0) [(10, 7), (4, 1)] (.xy 3 (-3)) (some (1, 2)) .none false (.name .default) (1 / 100) =
    .ok ⟨3, 3, ⟨3, 0, 1, 0, -3, 8⟩⟩ ∧ C02.alignment (toC02 ⟨3, 3, ⟨3, 0, 1, 0, -3, 8⟩⟩ 0) = .ok (1, 2) := by
  decide +kernel

end OdcGeo.C08
