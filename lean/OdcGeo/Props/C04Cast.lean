/-
C04 — the `casting=` argument and an explicit `dtype=` of `BlockAssembler.extract`
(model: `extractFull` in `Model/C04Dtype.lean`).
-/
import OdcGeo.Props.C04Dtype
namespace OdcGeo.C04

theorem canCast_of_safe (a b : DT) (h : safeCast a b = true) :
    canCast .safe a b = true ∧ canCast .sameKind a b = true ∧ canCast .anyCast a b = true := by
  simp [canCast, h]

/-- **with the dtype left to `extract`, the default rule (`same_kind`) – and even `safe` – never
refuses a block**, whatever the fill: the only way to fail is numpy's refusal of an out-of-range
integer fill -/
theorem extract_auto_dtype_never_type_error (blocks : List DT) (hv : ∀ d ∈ blocks, d.Valid) (fill : FillArg)
    (hf : ∀ m, fillMinType fill = some m → m.Valid) (d : DT)
    (h : extractAlloc blocks none fill = .ok d) :
    extractFull blocks none fill .sameKind = .ok d ∧ extractFull blocks none fill .safe = .ok d := by
  have hd : d = extractDtype (assemblerDtype blocks) none (fillMinType fill) := by
    simp only [extractAlloc] at h
    split at h
    · cases h
    · cases h; rfl
  have hall : ∀ a ∈ blocks, safeCast a d = true := fun a ha => by
    rw [hd]; exact extract_dtype_holds_blocks blocks hv (fillMinType fill) hf a ha
  constructor
  · simp only [extractFull, h]
    rw [if_pos (List.all_eq_true.2 fun a ha => (canCast_of_safe a d (hall a ha)).2.1)]
  · simp only [extractFull, h]
    rw [if_pos (List.all_eq_true.2 fun a ha => (canCast_of_safe a d (hall a ha)).1)]

/-- the least restrictive rule never raises `TypeError` -/
theorem extract_any_cast_never_type_error (blocks : List DT) (dt : Option DT) (fill : FillArg) :
    extractFull blocks dt fill .anyCast ≠ .error .typeError := by
  simp only [extractFull]
  split
  · simp
  · next d _ =>
    have : (blocks.all fun a => canCast Casting.anyCast a d) = true := List.all_eq_true.2 fun a _ => rfl
    rw [if_pos this]; simp

/-- `casting="no"` / `"equiv"`: accepted exactly when every block already has the window's dtype -/
theorem extract_no_cast_iff (blocks : List DT) (dt : Option DT) (fill : FillArg) (d : DT)
    (h : extractAlloc blocks dt fill = .ok d) :
    (extractFull blocks dt fill .no = .ok d ↔ ∀ a ∈ blocks, a = d) ∧
    (extractFull blocks dt fill .equiv = extractFull blocks dt fill .no) := by
  constructor
  · simp only [extractFull, h]
    constructor
    · intro hx
      split at hx
      · next hall =>
        intro a ha
        have := List.all_eq_true.1 hall a ha
        simpa [canCast] using this
      · cases hx
    · intro hall
      rw [if_pos (List.all_eq_true.2 fun a ha => by simp [canCast, hall a ha])]
  · simp only [extractFull, canCast]; rfl

/-- **an explicit `dtype=` of a lower kind than some block is refused under the default rule** (float
tiles cannot be extracted into an integer window by accident); the block need not even meet the
requested window: numpy checks the rule before looking at the slices -/
theorem extract_lower_kind_dtype_refused (blocks : List DT) (d a : DT) (fill : FillArg) (ha : a ∈ blocks)
    (hk : d.kind.rank < a.kind.rank) (hs : safeCast a d = false)
    (hfull : fullRaises d fill = false) :
    extractFull blocks (some d) fill .sameKind = .error .typeError := by
  have hal : extractAlloc blocks (some d) fill = .ok d := by
    simp only [extractAlloc, extract_dtype_explicit, hfull]; rfl
  simp only [extractFull, hal]
  rw [if_neg]
  intro hall
  have := List.all_eq_true.1 hall a ha
  simp only [canCast, hs, Bool.false_or, decide_eq_true_eq] at this
  omega

/-- narrowing *within* a kind is let through by the default rule (`float64` tiles into a `float32`
window): pinned – values are rounded by numpy, nothing is refused -/
theorem extract_same_kind_narrowing_allowed_cex :
    extractFull [⟨.f, 64⟩] (some ⟨.f, 32⟩) .none .sameKind = .ok ⟨.f, 32⟩ ∧
    extractFull [⟨.f, 64⟩] (some ⟨.f, 32⟩) .none .safe = .error .typeError ∧
    extractFull [⟨.f, 32⟩, ⟨.u, 8⟩] (some ⟨.u, 8⟩) .none .sameKind = .error .typeError := by decide

example : extractAlloc [⟨.u, 8⟩, ⟨.i, 16⟩] none (.float .nonfinite) = .ok ⟨.f, 32⟩ := by decide
example : safeCast ⟨.f, 32⟩ ⟨.u, 8⟩ = false ∧ fullRaises ⟨.u, 8⟩ .none = false := by decide

end OdcGeo.C04
