/-
C19 — histories that rebind held names: every reachable state is, on its core, a state of the
history model (run-level version of `ustepR_core_reachable`).
-/
import OdcGeo.Props.C19Rebind

namespace OdcGeo.C19

/-- one step of the unified model (with or without rebinding) moves the core by real operations
of the history model -/
theorem ustepR_core_step (W : World) (σ : UState) (fresh : Nat) (uop : UOp) (hreal : uop.real = true) :
    ∃ ops : List Op, (∀ o ∈ ops, o.real = true) ∧
      (ustepR W σ fresh uop).1.core = (runFrom W σ.core ops).1 := by
  have nil : ∀ σ' : UState, σ'.core = σ.core → ∃ ops : List Op, (∀ o ∈ ops, o.real = true) ∧
      σ'.core = (runFrom W σ.core ops).1 := fun σ' e => ⟨[], by simp, by simp [runFrom, e]⟩
  have one : ∀ (op : Op) (σ' : UState), op.real = true → σ'.core = (step W σ.core op).1 →
      ∃ ops : List Op, (∀ o ∈ ops, o.real = true) ∧ σ'.core = (runFrom W σ.core ops).1 :=
    fun op σ' ho e => ⟨[op], by simpa using ho, by simp [runFrom, e]⟩
  have plain : ∃ ops : List Op, (∀ o ∈ ops, o.real = true) ∧ (ustep W σ uop).1.core = (runFrom W σ.core ops).1 := by
    cases uop with
    | core op =>
      simp only [ustep]
      split
      · exact nil _ rfl
      · exact one op _ hreal rfl
    | del v =>
      simp only [ustep]
      split
      · exact nil _ rfl
      · exact one (.drop v) _ rfl rfl
    | hold hh v => simp only [ustep]; split <;> exact nil _ rfl
    | holdNone hh => exact nil _ rfl
    | rehold h2 hh => simp only [ustep]; split <;> exact nil _ rfl
    | heq a b => simp only [ustep]; split <;> exact nil _ rfl
  cases uop with
  | core op =>
    cases hb : op.binds with
    | none => simpa [ustepR, hb] using plain
    | some v =>
      by_cases hh : σ.held v = true
      · exact ustepR_core_reachable W σ fresh op v hb hh hreal
      · simpa [ustepR, hb, hh] using plain
  | del v => simpa [ustepR] using plain
  | hold hh v => simpa [ustepR] using plain
  | holdNone hh => simpa [ustepR] using plain
  | rehold h2 hh => simpa [ustepR] using plain
  | heq a b => simpa [ustepR] using plain

/-- **every state reached by a unified history that may rebind held names is, on its core, a
state of the history model** — `transformer_correct`, `cache_pins_every_crs`,
`construct_sys_correct` … hold after such histories too -/
theorem urunRFrom_core (W : World) : ∀ (uh : List (Nat × UOp)) (σ : UState) (h : List Op),
    (∀ e ∈ uh, e.2.real = true) → (∀ op ∈ h, op.real = true) → σ.core = (run W h).1 →
    ∃ h', (∀ op ∈ h', op.real = true) ∧ (urunRFrom W σ uh).1.core = (run W h').1
  | [], σ, h, _, hr, hc => ⟨h, hr, hc⟩
  | (fresh, uop) :: uh, σ, h, hu, hr, hc => by
    have hu' : ∀ e ∈ uh, e.2.real = true := fun e he => hu e (List.mem_cons_of_mem _ he)
    obtain ⟨ops, hops, hcore⟩ := ustepR_core_step W σ fresh uop (hu (fresh, uop) (List.mem_cons_self ..))
    simp only [urunRFrom]
    refine urunRFrom_core W uh _ (h ++ ops) hu' ?_ ?_
    · intro o ho
      rcases List.mem_append.1 ho with ho | ho
      · exact hr o ho
      · exact hops o ho
    · rw [hcore, hc]
      simp only [run, runFrom_append]

/-- `CRS(spec)` after any unified history with rebinding denotes the system of the spec -/
theorem rebind_construct_sys_correct (W : World) (hC : CanonKeyCoherent W)
    (uh : List (Nat × UOp)) (hreal : ∀ e ∈ uh, e.2.real = true) (spec : Spec) (pick : Nat) (c : CrsObj)
    (hc : (construct W (urunRFrom W {} uh).1.core spec pick).2 = .ok c) :
    ∃ h', (∀ op ∈ h', op.real = true) ∧ (urunRFrom W {} uh).1.core = (run W h').1 ∧
      specSys W (run W h').1 spec = some c.info.sys := by
  obtain ⟨h', hr', e⟩ := urunRFrom_core W uh {} [] hreal (by simp) rfl
  refine ⟨h', hr', e, ?_⟩
  rw [e] at hc
  exact construct_sys_correct_canon W hC h' hr' spec pick c hc

/-- non-vacuity: a history that rebinds a held name -/
example : ∀ e ∈ ([(9, .core (.mk 0 (.str "X") 0)), (9, .hold 1 0), (7, .core (.mk 0 (.str "E") 0))] : List (Nat × UOp)),
    e.2.real = true := by decide

end OdcGeo.C19
