/-
C08 — `GeoBox.from_bbox` (resolution branch) on regions / resolutions / tolerances that may be `nan` or `±inf`
(`Model/C20NonFinite.lean`, `fromBboxResX`): a non-finite region coordinate is always rejected; on finite arguments the
extended model is C08's own resolution branch.
-/
import OdcGeo.Props.C20NonFinite
import OdcGeo.Model.C08NonFinite

namespace OdcGeo.C08
open OdcGeo.C20 OdcGeo.C20.NF

/-! ## resolution branch of `from_bbox` -/

/-- **`from_bbox` never builds a GeoBox from a region with a `nan` / infinite coordinate**: the resolution branch
raises, whatever resolution, anchor and tolerance. -/
theorem from_bbox_x_nonfinite_rejected (l b r t rx ry : XF) (snap : Option (Rat × Rat)) (tol : XF)
    (h : isFinite l = false ∨ isFinite b = false ∨ isFinite r = false ∨ isFinite t = false) :
    ∃ e, fromBboxResX l b r t rx ry snap tol = .error e := by
  unfold fromBboxResX
  by_cases hx : isFinite l = false ∨ isFinite r = false
  · obtain ⟨e, he⟩ := snap_grid_x_nonfinite_rejected l r rx (snap.map fun s => XF.fin s.1) tol hx
    exact ⟨e, by rw [he]; rfl⟩
  · have hy : isFinite b = false ∨ isFinite t = false := by
      rcases h with h | h | h | h
      · exact absurd (Or.inl h) hx
      · exact Or.inl h
      · exact absurd (Or.inr h) hx
      · exact Or.inr h
    obtain ⟨e, he⟩ := snap_grid_x_nonfinite_rejected b t ry (snap.map fun s => XF.fin s.2) tol hy
    cases hgx : snapGridX l r rx (snap.map fun s => XF.fin s.1) tol with
    | error e' => exact ⟨e', by simp [bind, Except.bind]⟩
    | ok p => exact ⟨e, by simp [bind, Except.bind, he]⟩

/-- On a finite region, resolution and tolerance it is the resolution branch of C08's `from_bbox` (two finite
`snap_grid` calls). -/
theorem from_bbox_res_x_finite (l b r t rx ry tol : Rat) (snap : Option (Rat × Rat)) :
    fromBboxResX (.fin l) (.fin b) (.fin r) (.fin t) (.fin rx) (.fin ry) snap (.fin tol) =
      NF.liftRes (snapGrid l r rx (snap.map (·.1)) tol >>= fun p =>
        snapGrid b t ry (snap.map (·.2)) tol >>= fun q => pure (q.2, p.2, XF.fin p.1, XF.fin q.1)) := by
  unfold fromBboxResX
  have e1 : (snap.map fun s => XF.fin s.1) = (snap.map (·.1)).map XF.fin := by cases snap <;> rfl
  have e2 : (snap.map fun s => XF.fin s.2) = (snap.map (·.2)).map XF.fin := by cases snap <;> rfl
  rw [e1, e2, snap_grid_x_finite, snap_grid_x_finite]
  cases snapGrid l r rx (snap.map (·.1)) tol with
  | error e => rfl
  | ok p =>
    cases snapGrid b t ry (snap.map (·.2)) tol with
    | error e => rfl
    | ok q => rfl

/-! ## shape-driven branches -/

open OdcGeo.C08.NF in
/-- **Shape-driven construction with snapping rejects a non-finite region** (any shape, anchor fractions, tolerance). -/
theorem from_bbox_shape_x_snapped_rejected (l b r t : XF) (ny nx : Int) (sx sy tol : XF)
    (h : isFinite l = false ∨ isFinite b = false ∨ isFinite r = false ∨ isFinite t = false) :
    ∃ e, fromBboxShapeX l b r t ny nx (some (sx, sy)) tol = .error e := by
  unfold fromBboxShapeX
  cases h1 : NF.div (NF.sub r l) (ofInt nx) with
  | error e => exact ⟨e, rfl⟩
  | ok rx =>
    cases h2 : NF.div (NF.neg (NF.sub t b)) (ofInt ny) with
    | error e => exact ⟨e, rfl⟩
    | ok ry =>
      simp only [bind, Except.bind]
      by_cases hx : isFinite l = false ∨ isFinite r = false
      · obtain ⟨e, he⟩ := snap_grid_x_nonfinite_rejected l r rx (some sx) tol hx
        exact ⟨e, by rw [he]⟩
      · have hy : isFinite b = false ∨ isFinite t = false := by
          rcases h with h | h | h | h
          · exact absurd (Or.inl h) hx
          · exact Or.inl h
          · exact absurd (Or.inr h) hx
          · exact Or.inr h
        obtain ⟨e, he⟩ := snap_grid_x_nonfinite_rejected b t ry (some sy) tol hy
        cases hgx : snapGridX l r rx (some sx) tol with
        | error e' => exact ⟨e', rfl⟩
        | ok p => exact ⟨e, by simp only [he]⟩

open OdcGeo.C08.NF in
/-- **As found: without snapping (`tight=True` / floating anchor) the shape-driven branch checks nothing** — a region
with a `nan` or infinite coordinate comes back as a GeoBox whose transform contains `nan` / `inf`.  (Observation outside the
property's quantifier — finite regions —, replayed by the correspondence.) -/
theorem from_bbox_shape_x_floating_accepts_nonfinite :
    fromBboxShapeX .nan (.fin 0) (.fin 4) (.fin 2) 2 4 none (.fin (1 / 100)) =
      .ok ⟨2, 4, .nan, .fin (-1), .nan, .fin 2⟩ ∧
    fromBboxShapeX (.fin 0) (.fin 0) .pinf (.fin 2) 2 4 none (.fin (1 / 100)) =
      .ok ⟨2, 4, .pinf, .fin (-1), .fin 0, .fin 2⟩ := by decide +kernel

open OdcGeo.C08.NF in
/-- **A single-number `shape` rejects a non-finite region** (it goes through the resolution branch). -/
theorem from_bbox_num_shape_x_rejected (l b r t q : XF) (snap : Option (XF × XF)) (tol : XF)
    (h : isFinite l = false ∨ isFinite b = false ∨ isFinite r = false ∨ isFinite t = false) :
    ∃ e, fromBboxNumShapeX l b r t q snap tol = .error e := by
  unfold fromBboxNumShapeX
  cases h1 : numShapeResX l b r t q with
  | error e => exact ⟨e, rfl⟩
  | ok res =>
    simp only [bind, Except.bind]
    by_cases hx : isFinite l = false ∨ isFinite r = false
    · obtain ⟨e, he⟩ := snap_grid_x_nonfinite_rejected l r res (snap.map (·.1)) tol hx
      exact ⟨e, by rw [he]⟩
    · have hy : isFinite b = false ∨ isFinite t = false := by
        rcases h with h | h | h | h
        · exact absurd (Or.inl h) hx
        · exact Or.inl h
        · exact absurd (Or.inr h) hx
        · exact Or.inr h
      obtain ⟨e, he⟩ := snap_grid_x_nonfinite_rejected b t (NF.neg res) (snap.map (·.2)) tol hy
      cases hgx : snapGridX l r res (snap.map (·.1)) tol with
      | error e' => exact ⟨e', rfl⟩
      | ok p => exact ⟨e, by simp only [he]⟩

/-! ## non-vacuity -/

example : fromBboxResX (.fin 0) (.fin 0) .pinf (.fin 2) (.fin 1) (.fin (-1)) (some (0, 0)) (.fin (1 / 100)) =
    .error .overflow := by decide +kernel
example : fromBboxResX (.fin 0) (.fin 0) (.fin 4) (.fin 2) .pinf .ninf none (.fin (1 / 100)) =
    .ok (1, 1, .fin 0, .fin 2) := by decide +kernel

end OdcGeo.C08
