/-
C14 — web tiles: ITERATED refinement zoom `z` → `z+k`.  Every tile `(i, j)` at zoom `z` splits into exactly its `(2^k)² = 4^k`
descendants `(2^k·i + a, 2^k·j + b)`, `0 ≤ a, b < 2^k`, at zoom `z+k`, and the half-open descendants partition the half-open tile.
-/
import OdcGeo.Props.C14Web

namespace OdcGeo.C14

section
variable {P : Rat} {npix : Int} {g g' : GridSpec}

theorem web_tiles_refinement_iterated (hP : 0 < P) (z k : Nat) (hn : 0 < npix)
    (hg : GridSpec.webTiles id P (z : Int) npix = .ok g)
    (hg' : GridSpec.webTiles id P ((z + k : Nat) : Int) npix = .ok g') (i j : Int) (p : Rat × Rat) :
    (g.footprint (i, j)).memHalfOpen p ↔
      ∃ a b : Int, (0 ≤ a ∧ a < 2 ^ k) ∧ (0 ≤ b ∧ b < 2 ^ k) ∧
        (g'.footprint (2 ^ k * i + a, 2 ^ k * j + b)).memHalfOpen p := by
  have hK : (0 : Rat) < 2 ^ k := by positivity
  have hT' : (0 : Rat) < 2 * P / 2 ^ (z + k) := by positivity
  have hTT : 2 * P / 2 ^ z = 2 ^ k * (2 * P / 2 ^ (z + k)) := by rw [pow_add]; field_simp
  obtain ⟨e1, _⟩ := web_tile_extent hP z hn hg i j
  have ext : ∀ a b : Int, g'.footprint (2 ^ k * i + a, 2 ^ k * j + b) =
      ⟨-P + ((2 ^ k * i + a : Int) : Rat) * (2 * P / 2 ^ (z + k)), P - (((2 ^ k * j + b : Int) : Rat) + 1) * (2 * P / 2 ^ (z + k)),
       -P + (((2 ^ k * i + a : Int) : Rat) + 1) * (2 * P / 2 ^ (z + k)), P - ((2 ^ k * j + b : Int) : Rat) * (2 * P / 2 ^ (z + k))⟩ :=
    fun a b => (web_tile_extent hP (z + k) hn hg' _ _).1
  rw [e1]
  simp only [ext, BBox.memHalfOpen]
  rw [hTT]
  generalize 2 * P / 2 ^ (z + k) = T at hT' ⊢
  constructor
  · rintro ⟨h1, h2, h3, h4⟩
    -- column: a = ⌊(x − L)/T⌋, row: b = ⌈(Top − y)/T⌉ − 1
    have ha0 : (0 : Rat) ≤ (p.1 - (-P + (i : Rat) * (2 ^ k * T))) / T := div_nonneg (by linarith) hT'.le
    have hb0 : (0 : Rat) < (P - (j : Rat) * (2 ^ k * T) - p.2) / T := div_pos (by linarith) hT'
    refine ⟨((p.1 - (-P + (i : Rat) * (2 ^ k * T))) / T).floor, ((P - (j : Rat) * (2 ^ k * T) - p.2) / T).ceil - 1, ⟨?_, ?_⟩, ⟨?_, ?_⟩, ?_, ?_, ?_, ?_⟩
    · exact Rat.le_floor_iff.mpr (by exact_mod_cast ha0)
    · apply Rat.floor_lt_iff.mpr
      push_cast
      rw [div_lt_iff₀ hT']; nlinarith
    · have : (0 : Int) < ((P - (j : Rat) * (2 ^ k * T) - p.2) / T).ceil := Rat.lt_ceil_iff.mpr (by exact_mod_cast hb0)
      omega
    · have : ((P - (j : Rat) * (2 ^ k * T) - p.2) / T).ceil ≤ 2 ^ k := by
        apply Rat.ceil_le_iff.mpr
        push_cast
        rw [div_le_iff₀ hT']; nlinarith
      omega
    · have := Rat.floor_le ((p.1 - (-P + (i : Rat) * (2 ^ k * T))) / T)
      rw [le_div_iff₀ hT'] at this
      push_cast; nlinarith
    · have := Rat.lt_floor_add_one ((p.1 - (-P + (i : Rat) * (2 ^ k * T))) / T)
      push_cast at this
      rw [div_lt_iff₀ hT'] at this
      push_cast; nlinarith
    · have := Rat.le_ceil (x := (P - (j : Rat) * (2 ^ k * T) - p.2) / T)
      rw [div_le_iff₀ hT'] at this
      push_cast; nlinarith
    · have : ((((P - (j : Rat) * (2 ^ k * T) - p.2) / T).ceil - 1 : Int) : Rat) < (P - (j : Rat) * (2 ^ k * T) - p.2) / T :=
        Rat.lt_ceil_iff.mp (by omega)
      rw [lt_div_iff₀ hT'] at this
      push_cast at this ⊢; nlinarith
  · rintro ⟨a, b, ⟨a0, a1⟩, ⟨b0, b1⟩, h1, h2, h3, h4⟩
    have A0 : (0 : Rat) ≤ (a : Rat) := by exact_mod_cast a0
    have A1 : (a : Rat) + 1 ≤ 2 ^ k := by exact_mod_cast (by omega : a + 1 ≤ 2 ^ k)
    have B0 : (0 : Rat) ≤ (b : Rat) := by exact_mod_cast b0
    have B1 : (b : Rat) + 1 ≤ 2 ^ k := by exact_mod_cast (by omega : b + 1 ≤ 2 ^ k)
    push_cast at h1 h2 h3 h4
    refine ⟨?_, ?_, ?_, ?_⟩ <;> nlinarith [mul_nonneg A0 hT'.le, mul_nonneg B0 hT'.le, mul_le_mul_of_nonneg_right A1 hT'.le, mul_le_mul_of_nonneg_right B1 hT'.le]

end

example : ∃ g g', GridSpec.webTiles id 3 ((1 : Nat) : Int) 256 = .ok g ∧ GridSpec.webTiles id 3 ((1 + 3 : Nat) : Int) 256 = .ok g' :=
  ⟨_, _, GridSpec.webTiles_ok (P := 3) (by norm_num) ((1 : Nat) : Int) (npix := 256) (by norm_num),
    GridSpec.webTiles_ok (P := 3) (by norm_num) ((1 + 3 : Nat) : Int) (npix := 256) (by norm_num)⟩

end OdcGeo.C14
