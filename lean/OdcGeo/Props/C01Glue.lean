/- C01, second part — theorems about the glue around the CRS guard (`Model/C01Glue.lean`): how an object
gets its CRS, comparison with non-CRS values, the `'utm…'` branch of `norm_crs`, and the CRS carried
through single-operand operations into a combining operation (composition with `mismatch_raises`). -/
import OdcGeo.Model.C01Glue
import OdcGeo.Props.C01
import Mathlib.Tactic.IntervalCases

namespace OdcGeo.C01

variable {S R : Type}

/-! ### comparison with anything -/

/-- `crs == x` is `False` for everything no CRS can be built from (`None`, garbage), and otherwise
`CRS.__eq__` of the two CRSs — symmetric, and the class test under well-formedness -/
theorem crsEqAny_spec (a : CrsRec) :
    crsEqAny a none = false ∧ (∀ b, crsEqAny a (some b) = crsEq a b) ∧
    (∀ b, crsEqAny a (some b) = crsEqAny b (some a)) ∧
    (∀ b, WF a b → (crsEqAny a (some b) = true ↔ a.cls = b.cls)) :=
  ⟨rfl, fun _ => rfl, fun b => crsEq_symm a b, fun b h => crsEq_iff_sameClass a b h⟩

/-- **`BoundingBox.aoi` / `map_bounds` never read the numbers of another CRS as lon/lat**: the raw
numbers are used only for a box without CRS (documented) or in a CRS equal to EPSG:4326 -/
theorem lonlatDispatch_spec (crs : Tag) (t4326 : CrsRec) :
    (lonlatDispatch crs t4326 = .raw ↔ crs = none ∨ ∃ c, crs = some c ∧ crsEq c t4326 = true) ∧
    (∀ c, crs = some c → WF c t4326 → (lonlatDispatch crs t4326 = .converted ↔ c.cls ≠ t4326.cls)) := by
  constructor
  · cases crs with
    | none => simp [lonlatDispatch]
    | some c =>
      by_cases h : crsEq c t4326 = true <;> simp [lonlatDispatch, crsEqAny, h]
  · intro c hc hwf
    subst hc
    have := crsEq_iff_sameClass c t4326 hwf
    by_cases h : crsEq c t4326 = true
    · simp [lonlatDispatch, crsEqAny, h, this.mp h]
    · have hne : c.cls ≠ t4326.cls := fun hcl => h (this.mpr hcl)
      simp [lonlatDispatch, crsEqAny, h, hne]

/-! ### how an object gets its CRS -/

/-- cloning keeps the CRS and takes no `crs` argument -/
theorem geomInit_clone (t4326 : CrsRec) (t : Tag) :
    geomInit t4326 (.geometry t) .omitted = .ok t ∧
    geomInit t4326 (.geometry t) .unset = .error .assertion ∧
    ∀ r, geomInit t4326 (.geometry t) (.given r) = .error .assertion := ⟨rfl, rfl, fun _ => rfl⟩

/-- **Only a GeoJSON Feature / FeatureCollection without an explicit CRS is assumed to be in
EPSG:4326**; a shapely geometry or a plain geometry dict without `crs` has no CRS; `Unset()` is not
`None` and does not trigger the default; anything that is not a geometry is refused whatever `crs`. -/
theorem geomInit_default (t4326 : CrsRec) :
    geomInit t4326 (.dict true) .omitted = .ok (some t4326) ∧
    geomInit t4326 (.dict true) .unset = .ok none ∧
    geomInit t4326 (.dict false) .omitted = .ok none ∧
    geomInit t4326 .shapely .omitted = .ok none ∧
    (∀ c, ∃ e, geomInit t4326 .other c = .error e) := by
  refine ⟨rfl, rfl, rfl, rfl, ?_⟩
  intro c
  cases c with
  | omitted => exact ⟨_, rfl⟩
  | unset => exact ⟨_, rfl⟩
  | given r => cases r with
    | ok t => exact ⟨_, rfl⟩
    | error e => exact ⟨_, rfl⟩

/-- an explicit CRS always wins, for every kind of geometry input and every bounding-box constructor;
an invalid one is an error, never a silently CRS-less object -/
theorem init_explicit (t4326 : CrsRec) (r : Except Err Tag) :
    geomInit t4326 .shapely (.given r) = r ∧ geomInit t4326 (.dict true) (.given r) = r ∧
    geomInit t4326 (.dict false) (.given r) = r ∧ bboxInit (.given r) = r ∧
    bboxInit .omitted = .ok none ∧ bboxInit .unset = .ok none := ⟨rfl, rfl, rfl, rfl, rfl, rfl⟩

/-- `Geometry.transform(func, crs=…)`: the default keeps the CRS, `crs=None` removes it, anything else
is normalised like a constructor argument -/
theorem transformTag_spec (self : Tag) (r : Except Err Tag) :
    transformTag self .unset = .ok self ∧ transformTag self .omitted = .ok none ∧
    transformTag self (.given r) = r := ⟨rfl, rfl, rfl⟩

/-! ### `norm_crs("utm…", ctx)` -/

/-- **Hemisphere arithmetic of `norm_crs`**: for every UTM zone and either hemisphere of the context,
`'utm-n'` is the northern and `'utm-s'` the southern WGS 84 / UTM code of the *same zone*;
`'utm'` (and any other text starting with `utm`) is the zone of the context itself. -/
theorem utmPick_spec (zone : Nat) (south : Bool) :
    let epsg := if south then utmSouthCode zone else utmNorthCode zone
    utmPick .north south epsg = utmNorthCode zone ∧ utmPick .south south epsg = utmSouthCode zone ∧
    utmPick .plain south epsg = epsg ∧ utmPick .otherSuffix south epsg = epsg := by
  cases south <;> simp [utmPick, utmNorthCode, utmSouthCode] <;> omega

/-- the result is again a WGS 84 / UTM code (326xx / 327xx) of a zone 1…60 -/
theorem utmPick_in_range (txt : UtmText) (zone : Nat) (south : Bool) (hz : 1 ≤ zone ∧ zone ≤ 60) :
    let r := utmPick txt south (if south then utmSouthCode zone else utmNorthCode zone)
    (32601 ≤ r ∧ r ≤ 32660) ∨ (32701 ≤ r ∧ r ≤ 32760) := by
  cases south <;> cases txt <;> simp [utmPick, utmNorthCode, utmSouthCode] <;> omega

theorem utmText_spec :
    utmText "utm" = some .plain ∧ utmText "utm-n" = some .north ∧ utmText "utm-s" = some .south ∧
    utmText "utm-x" = some .otherSuffix ∧ utmText "utmzone" = some .otherSuffix ∧ utmText "epsg:32633" = none ∧
    utmText "ut" = none := by decide

/-! ### single-operand operations, and their composition with the combining ones -/

theorem unaryTable_nodup : (unaryTable.map (·.1)).Nodup := by decide

/-- what the three rules mean -/
theorem unaryTag_spec (self arg : Tag) :
    unaryTag .keep self arg = self ∧ unaryTag .fromArg self arg = arg ∧
    (tagEq self arg = true → unaryTag .target self arg = self) ∧
    (tagEq self arg = false → unaryTag .target self arg = arg) ∧
    tagEq (unaryTag .target self arg) arg = tagEq arg arg ∨ tagEq self arg = true := by
  by_cases h : tagEq self arg = true
  · simp [unaryTag, h]
  · simp [unaryTag, h]

/-- every `Geometry` / `BoundingBox` single-operand operation other than `assign_crs` / `to_crs` hands
back objects in the CRS of the object it was called on -/
theorem unaryTable_keep :
    ∀ e ∈ unaryTable, e.2 = .keep ∨ e.1 = "Geometry.assign_crs" ∨ e.1 = "Geometry.to_crs" ∨ e.1 = "BoundingBox.to_crs" := by
  decide

/-- **Composition**: operands derived through CRS-keeping single-operand operations (boundary,
exterior, buffer, segmented, centroid, polygon of a box, …, in any number and order) from objects in
different CRSs are refused by every combining operation of the table exactly like the original
objects — the mismatch cannot be laundered through a derived geometry. -/
theorem derived_operands_mismatch_raises (op : OpSpec) (hop : op ∈ opTable) (D : Delegate S R)
    (x0 : Obj S) (rest : List (Obj S)) (y0 : Obj S) (ys : List (Obj S))
    (h0 : y0.crs = unaryTag .keep x0.crs none)
    (hys : List.Forall₂ (fun x y => y.crs = unaryTag .keep x.crs none) rest ys)
    (har : op.arity = .two → ys.length = 1) (hD : StepsTotal D op)
    (hmis : ∃ x ∈ rest, tagNe x0.crs x.crs = true) :
    ∃ e, run op D (y0 :: ys) = .error e ∧ e.isValueError = true := by
  apply table_mismatch_raises op hop D y0 ys har hD
  obtain ⟨x, hx, hne⟩ := hmis
  have : ∀ (rest ys : List (Obj S)), List.Forall₂ (fun x y => y.crs = unaryTag .keep x.crs none) rest ys →
      x ∈ rest → ∃ y ∈ ys, y.crs = x.crs := by
    intro rest ys h
    induction h with
    | nil => intro hx; simp at hx
    | cons hxy _ ih =>
      intro hx
      rcases List.mem_cons.mp hx with rfl | hx
      · exact ⟨_, List.mem_cons_self .., hxy⟩
      · obtain ⟨y, hy, hc⟩ := ih hx
        exact ⟨y, List.mem_cons_of_mem _ hy, hc⟩
  obtain ⟨y, hy, hc⟩ := this rest ys hys hx
  refine ⟨y, hy, ?_⟩
  rw [h0, hc]
  exact hne

example : ∃ x ∈ [(⟨some ⟨2, 3857, 2, 2⟩, ()⟩ : Obj Unit)], tagNe (some ⟨1, 4326, 1, 1⟩) x.crs = true :=
  ⟨_, List.mem_cons_self .., by decide⟩

end OdcGeo.C01
