/-
C08 — a GeoBox built from a region covers it and is snapped as requested.

Property theorems only.  The one-axis results are those of `OdcGeo.Props.C20`
(`snap_grid_*`), restated under the names of DESIGN.md §4 C08 and then lifted to
`GeoBox.from_bbox` / `from_geopolygon`.  Standing hypotheses ("valid input"):
`left ≤ right`, `bottom ≤ top`, resolution components `≠ 0`, anchor fractions in `[0, 1)`,
`0 ≤ tol < 1/2`.  `g.xmin … g.ymax` is the world extent of the result.
-/
import OdcGeo.Model.C08
import OdcGeo.Lemmas.C08
import OdcGeo.Lemmas.C08C02
import OdcGeo.Props.C20

namespace OdcGeo.C08
open OdcGeo.C20 (snapGrid gridLo gridHi)

/-! ## one axis (`snap_grid`) -/

theorem snap_n_pos {x0 x1 res tol : Rat} (off : Option Rat) (hr : res ≠ 0) (hx : x0 ≤ x1)
    (hop : ∀ op, off = some op → 0 ≤ op ∧ op < 1) (ht : 0 ≤ tol) (ht2 : tol < 1 / 2) :
    ∃ tx nx, snapGrid x0 x1 res off tol = .ok (tx, nx) ∧ 1 ≤ nx :=
  C20.snap_grid_n_pos off hr hx hop ht ht2

theorem snap_cover {x0 x1 res tol tx : Rat} {nx : Int} (off : Option Rat) (hr : res ≠ 0)
    (hx : x0 ≤ x1) (hop : ∀ op, off = some op → 0 ≤ op ∧ op < 1) (ht : 0 ≤ tol) (ht2 : tol < 1 / 2)
    (h : snapGrid x0 x1 res off tol = .ok (tx, nx)) :
    gridLo res tx nx ≤ x0 + tol * |res| ∧ x1 - tol * |res| ≤ gridHi res tx nx :=
  C20.snap_grid_cover off hr hx hop ht ht2 h

/-- Strict bound; the side condition excludes only the zero-width interval with `tol = 0`
(`C20.snap_grid_minimal_degenerate` shows equality there; `snap_minimal_le` has no condition). -/
theorem snap_minimal {x0 x1 res tol tx : Rat} {nx : Int} (off : Option Rat) (hr : res ≠ 0)
    (hx : x0 ≤ x1) (hop : ∀ op, off = some op → 0 ≤ op ∧ op < 1) (ht : 0 ≤ tol) (ht2 : tol < 1 / 2)
    (hs : 0 < tol ∨ x0 < x1) (h : snapGrid x0 x1 res off tol = .ok (tx, nx)) :
    x0 - gridLo res tx nx < |res| * (1 + tol) ∧ gridHi res tx nx - x1 < |res| * (1 + tol) :=
  C20.snap_grid_minimal off hr hx hop ht ht2 hs h

theorem snap_minimal_le {x0 x1 res tol tx : Rat} {nx : Int} (off : Option Rat) (hr : res ≠ 0)
    (hx : x0 ≤ x1) (hop : ∀ op, off = some op → 0 ≤ op ∧ op < 1) (ht : 0 ≤ tol) (ht2 : tol < 1 / 2)
    (h : snapGrid x0 x1 res off tol = .ok (tx, nx)) :
    x0 - gridLo res tx nx ≤ |res| * (1 + tol) ∧ gridHi res tx nx - x1 ≤ |res| * (1 + tol) :=
  C20.snap_grid_minimal_le off hr hx hop ht ht2 h

theorem snap_aligned {x0 x1 res tol tx op : Rat} {nx : Int} (hr : res ≠ 0)
    (hx : x0 ≤ x1) (hop : 0 ≤ op ∧ op < 1) (ht : 0 ≤ tol) (ht2 : tol < 1 / 2)
    (h : snapGrid x0 x1 res (some op) tol = .ok (tx, nx)) :
    ∃ i : Int, (gridLo res tx nx - op * |res|) / |res| = i ∧
      (gridHi res tx nx - op * |res|) / |res| = ((i + nx : Int) : Rat) :=
  C20.snap_grid_aligned hr hx hop ht ht2 h

theorem snap_none_exact {x0 x1 res tol tx : Rat} {nx : Int} (hr : res ≠ 0) (hx : x0 ≤ x1)
    (ht : 0 ≤ tol) (h : snapGrid x0 x1 res none tol = .ok (tx, nx)) :
    tx = if 0 < res then x0 else x1 :=
  C20.snap_grid_none_exact hr hx ht h

/-! ## anchors -/

/-- `_norm_anchor` followed by the choice of snap offsets: edge ↦ 0, centre ↦ ½, a number `v`
↦ `(v, v)` (also for `0` and `0.5`, which go through the enum), an `XY` ↦ itself (per axis),
floating / tight ↦ no snapping; `"default"` is edge, `"centre"` is `"center"`. -/
theorem anchor_table (v x y : Rat) :
    snapOf false (normAnchor (.val .edge)) = some (0, 0) ∧
    snapOf false (normAnchor (.val .center)) = some (1 / 2, 1 / 2) ∧
    snapOf false (normAnchor (.num v)) = some (v, v) ∧
    snapOf false (normAnchor (.val (.xy x y))) = some (x, y) ∧
    snapOf false (normAnchor (.val .floating)) = none ∧
    snapOf false (normAnchor (.name .default)) = some (0, 0) ∧
    snapOf false (normAnchor (.name .edge)) = some (0, 0) ∧
    snapOf false (normAnchor (.name .center)) = some (1 / 2, 1 / 2) ∧
    snapOf false (normAnchor (.name .centre)) = some (1 / 2, 1 / 2) ∧
    snapOf false (normAnchor (.name .floating)) = none := by
  refine ⟨rfl, rfl, ?_, rfl, rfl, rfl, rfl, rfl, rfl, rfl⟩
  show snapOf false (if v = 0 then Anchor.edge else if v = 1 / 2 then Anchor.center else Anchor.xy v v) = some (v, v)
  by_cases h0 : v = 0
  · rw [if_pos h0, h0]; rfl
  · rw [if_neg h0]
    by_cases h1 : v = 1 / 2
    · rw [if_pos h1, h1]; rfl
    · rw [if_neg h1]; rfl

/-- `tight=True` turns snapping off whatever the anchor. -/
theorem tight_is_floating (a : AnchorArg) : snapOf true (normAnchor a) = none := rfl

/-! ## resolution-driven construction -/

/-! `ValidRes bb rx ry tol snap` (defined in `Lemmas/C08.lean`) bundles the standing hypotheses:
`left ≤ right`, `bottom ≤ top`, `rx ≠ 0`, `ry ≠ 0`, `0 ≤ tol < 1/2`, anchor fractions in `[0,1)`. -/

section res
variable {bb : BBox} {tight : Bool} {shape : ShapeArg} {res : ResArg} {anchor : AnchorArg}
  {tol rx ry : Rat} {g : GeoBox}

/-- On valid input the construction succeeds, with at least one pixel per axis. -/
theorem from_bbox_res_total (hs : ∀ n, shape ≠ .int n) (hres : res.xy? = some (rx, ry))
    (v : ValidRes bb rx ry tol (snapOf tight (normAnchor anchor))) :
    ∃ g, fromBbox bb tight shape res anchor tol = .ok g ∧ 1 ≤ g.nx ∧ 1 ≤ g.ny := by
  obtain ⟨tx, nx, h1, hn1⟩ := C20.snap_grid_n_pos _ v.hrx v.hx v.hopx v.ht v.ht2
  obtain ⟨ty, ny, h2, hn2⟩ := C20.snap_grid_n_pos _ v.hry v.hy v.hopy v.ht v.ht2
  refine ⟨⟨ny, nx, Aff.translation tx ty * Aff.scale rx ry⟩, ?_, hn1, hn2⟩
  rw [fromBbox_res_eq hs hres, h1, h2]
  rfl

/-- **Pixel size and orientation**: `affine = T(offx, offy)·S(rx, ry)`, exactly the requested
size and sign per axis, no rotation. -/
theorem from_bbox_res_pixel_size (hs : ∀ n, shape ≠ .int n) (hres : res.xy? = some (rx, ry))
    (h : fromBbox bb tight shape res anchor tol = .ok g) :
    g.affine = Aff.translation g.affine.c g.affine.f * Aff.scale rx ry ∧
      g.affine.a = rx ∧ g.affine.e = ry ∧ g.affine.b = 0 ∧ g.affine.d = 0 := by
  obtain ⟨ox, oy, _, _, ha⟩ := fromBbox_res_inv hs hres h
  rw [ts_eq, ha]
  exact ⟨rfl, rfl, rfl, rfl, rfl⟩

/-- one-axis facts transported to the geobox extent -/
theorem from_bbox_res_axes (hs : ∀ n, shape ≠ .int n) (hres : res.xy? = some (rx, ry))
    (v : ValidRes bb rx ry tol (snapOf tight (normAnchor anchor)))
    (h : fromBbox bb tight shape res anchor tol = .ok g) :
    snapGrid bb.left bb.right rx ((snapOf tight (normAnchor anchor)).map (·.1)) tol = .ok (g.affine.c, g.nx) ∧
    snapGrid bb.bottom bb.top ry ((snapOf tight (normAnchor anchor)).map (·.2)) tol = .ok (g.affine.f, g.ny) ∧
    g.xmin = gridLo rx g.affine.c g.nx ∧ g.xmax = gridHi rx g.affine.c g.nx ∧
    g.ymin = gridLo ry g.affine.f g.ny ∧ g.ymax = gridHi ry g.affine.f g.ny := by
  obtain ⟨ox, oy, h1, h2, ha⟩ := fromBbox_res_inv hs hres h
  obtain ⟨_, _, h1', hn1⟩ := C20.snap_grid_n_pos _ v.hrx v.hx v.hopx v.ht v.ht2
  obtain ⟨_, _, h2', hn2⟩ := C20.snap_grid_n_pos _ v.hry v.hy v.hopy v.ht v.ht2
  rw [h1] at h1'; cases h1'
  rw [h2] at h2'; cases h2'
  simp only [GeoBox.xmin, GeoBox.xmax, GeoBox.ymin, GeoBox.ymax, ha]
  exact ⟨h1, h2, min_eq_gridLo _ _ _ (by omega), max_eq_gridHi _ _ _ (by omega),
    min_eq_gridLo _ _ _ (by omega), max_eq_gridHi _ _ _ (by omega)⟩

/-- **Covers** the whole region except at most `tol` of a pixel per side. -/
theorem from_bbox_res_covers (hs : ∀ n, shape ≠ .int n) (hres : res.xy? = some (rx, ry))
    (v : ValidRes bb rx ry tol (snapOf tight (normAnchor anchor)))
    (h : fromBbox bb tight shape res anchor tol = .ok g) :
    g.xmin ≤ bb.left + tol * |rx| ∧ bb.right - tol * |rx| ≤ g.xmax ∧
    g.ymin ≤ bb.bottom + tol * |ry| ∧ bb.top - tol * |ry| ≤ g.ymax := by
  obtain ⟨h1, h2, e1, e2, e3, e4⟩ := from_bbox_res_axes hs hres v h
  have cx := C20.snap_grid_cover _ v.hrx v.hx v.hopx v.ht v.ht2 h1
  have cy := C20.snap_grid_cover _ v.hry v.hy v.hopy v.ht v.ht2 h2
  rw [e1, e2, e3, e4]
  exact ⟨cx.1, cx.2, cy.1, cy.2⟩

/-- **Minimal**: less than one pixel (plus `tol`) larger than necessary on any side. -/
theorem from_bbox_res_minimal (hs : ∀ n, shape ≠ .int n) (hres : res.xy? = some (rx, ry))
    (v : ValidRes bb rx ry tol (snapOf tight (normAnchor anchor)))
    (hsx : 0 < tol ∨ bb.left < bb.right) (hsy : 0 < tol ∨ bb.bottom < bb.top)
    (h : fromBbox bb tight shape res anchor tol = .ok g) :
    bb.left - g.xmin < |rx| * (1 + tol) ∧ g.xmax - bb.right < |rx| * (1 + tol) ∧
    bb.bottom - g.ymin < |ry| * (1 + tol) ∧ g.ymax - bb.top < |ry| * (1 + tol) := by
  obtain ⟨h1, h2, e1, e2, e3, e4⟩ := from_bbox_res_axes hs hres v h
  have cx := C20.snap_grid_minimal _ v.hrx v.hx v.hopx v.ht v.ht2 hsx h1
  have cy := C20.snap_grid_minimal _ v.hry v.hy v.hopy v.ht v.ht2 hsy h2
  rw [e1, e2, e3, e4]
  exact ⟨cx.1, cx.2, cy.1, cy.2⟩

/-- Non-strict version without side condition (covers zero-width regions with `tol = 0`). -/
theorem from_bbox_res_minimal_le (hs : ∀ n, shape ≠ .int n) (hres : res.xy? = some (rx, ry))
    (v : ValidRes bb rx ry tol (snapOf tight (normAnchor anchor)))
    (h : fromBbox bb tight shape res anchor tol = .ok g) :
    bb.left - g.xmin ≤ |rx| * (1 + tol) ∧ g.xmax - bb.right ≤ |rx| * (1 + tol) ∧
    bb.bottom - g.ymin ≤ |ry| * (1 + tol) ∧ g.ymax - bb.top ≤ |ry| * (1 + tol) := by
  obtain ⟨h1, h2, e1, e2, e3, e4⟩ := from_bbox_res_axes hs hres v h
  have cx := C20.snap_grid_minimal_le _ v.hrx v.hx v.hopx v.ht v.ht2 h1
  have cy := C20.snap_grid_minimal_le _ v.hry v.hy v.hopy v.ht v.ht2 h2
  rw [e1, e2, e3, e4]
  exact ⟨cx.1, cx.2, cy.1, cy.2⟩

/-- **Aligned**: pixel edges are offset from the CRS origin by exactly the anchor fraction of a
pixel, per axis (`sx = sy = 0` edge, `½` centre, anything in `[0,1)` otherwise). -/
theorem from_bbox_res_aligned (hs : ∀ n, shape ≠ .int n) (hres : res.xy? = some (rx, ry))
    (v : ValidRes bb rx ry tol (snapOf tight (normAnchor anchor))) {sx sy : Rat}
    (hsn : snapOf tight (normAnchor anchor) = some (sx, sy))
    (h : fromBbox bb tight shape res anchor tol = .ok g) :
    ∃ i j : Int, (g.xmin - sx * |rx|) / |rx| = i ∧ (g.xmax - sx * |rx|) / |rx| = ((i + g.nx : Int) : Rat) ∧
      (g.ymin - sy * |ry|) / |ry| = j ∧ (g.ymax - sy * |ry|) / |ry| = ((j + g.ny : Int) : Rat) := by
  obtain ⟨h1, h2, e1, e2, e3, e4⟩ := from_bbox_res_axes hs hres v h
  have hs' := v.hsnap (sx, sy) hsn
  rw [hsn] at h1 h2
  obtain ⟨i, hi1, hi2⟩ := C20.snap_grid_aligned v.hrx v.hx hs'.1 v.ht v.ht2 h1
  obtain ⟨j, hj1, hj2⟩ := C20.snap_grid_aligned v.hry v.hy hs'.2 v.ht v.ht2 h2
  rw [e1, e2, e3, e4]
  exact ⟨i, j, hi1, hi2, hj1, hj2⟩

/-- **Floating / tight**: the origin is the region's corner on the side the axis starts from. -/
theorem from_bbox_res_floating_exact (hs : ∀ n, shape ≠ .int n) (hres : res.xy? = some (rx, ry))
    (v : ValidRes bb rx ry tol (snapOf tight (normAnchor anchor)))
    (hsn : snapOf tight (normAnchor anchor) = none)
    (h : fromBbox bb tight shape res anchor tol = .ok g) :
    g.affine.c = (if 0 < rx then bb.left else bb.right) ∧
      g.affine.f = (if 0 < ry then bb.bottom else bb.top) := by
  obtain ⟨h1, h2, _⟩ := from_bbox_res_axes hs hres v h
  rw [hsn] at h1 h2
  exact ⟨C20.snap_grid_none_exact v.hrx v.hx v.ht h1, C20.snap_grid_none_exact v.hry v.hy v.ht h2⟩

end res

/-- A single-number `shape=n` is the resolution branch with the square pixel
`longest side / n` (and north-up orientation); it overrides `resolution=`. -/
theorem from_bbox_int_shape_reduces (bb : BBox) (tight : Bool) (n : Int) (res : ResArg)
    (anchor : AnchorArg) (tol : Rat) (hy : bb.spanY ≠ 0) (hn : n ≠ 0) :
    fromBbox bb tight (.int n) res anchor tol =
      fromBbox bb tight .none
        (.scalar (if bb.spanX / bb.spanY > 1 then bb.spanX / n else bb.spanY / n)) anchor tol := by
  unfold fromBbox
  simp only [intShapeToRes, if_neg hy, if_neg hn]
  split <;> rfl

/-- `maybe_int` leaves an integer value unchanged whatever the tolerance. -/
theorem maybeInt_intCast_any (n : Int) (tol : Rat) : C20.maybeInt (n : Rat) tol = n := by
  cases h : C20.maybeInt? (n : Rat) tol with
  | none => exact C20.maybeInt_of_none h
  | some k =>
    rw [C20.maybeInt_of_some h]
    have ht : 0 < tol := lt_of_le_of_lt (abs_nonneg _) (C20.maybeInt?_some h).2.1
    have := C20.maybeInt?_intCast n ht
    rw [h] at this
    exact_mod_cast (Option.some.inj this)

/-- **Single-number shape, floating / tight: the longest side gets exactly `n` pixels**, pixels are
square (`span_long / n`, north-up), the grid starts at the region's top-left corner.  (With an
anchor the longest side has `n` or `n + 1` pixels: `from_bbox_res_minimal` applies.) -/
theorem from_bbox_int_shape_floating_longest (bb : BBox) (tight : Bool) (n : Int) (res : ResArg)
    (anchor : AnchorArg) (tol : Rat) (hn : 0 < n) (hx : bb.left < bb.right) (hy : bb.bottom < bb.top)
    (hsn : snapOf tight (normAnchor anchor) = none) :
    ∃ g, fromBbox bb tight (.int n) res anchor tol = .ok g ∧
      (bb.spanX / bb.spanY > 1 → g.nx = n ∧ g.affine.a = bb.spanX / n ∧ g.affine.e = -(bb.spanX / n)) ∧
      (¬ bb.spanX / bb.spanY > 1 → g.ny = n ∧ g.affine.a = bb.spanY / n ∧ g.affine.e = -(bb.spanY / n)) ∧
      g.affine.c = bb.left ∧ g.affine.f = bb.top ∧ g.affine.b = 0 ∧ g.affine.d = 0 ∧ 1 ≤ g.nx ∧ 1 ≤ g.ny := by
  have hn' : (0 : Rat) < n := by exact_mod_cast hn
  have hsx : 0 < bb.spanX := by unfold BBox.spanX; linarith
  have hsy : 0 < bb.spanY := by unfold BBox.spanY; linarith
  rw [from_bbox_int_shape_reduces bb tight n res anchor tol (ne_of_gt hsy) (by omega)]
  -- the square pixel
  generalize hr : (if bb.spanX / bb.spanY > 1 then bb.spanX / (n : Rat) else bb.spanY / (n : Rat)) = r
  have hrpos : 0 < r := by
    rw [← hr]; split
    · exact div_pos hsx hn'
    · exact div_pos hsy hn'
  rw [fromBbox_res_eq (rx := r) (ry := -r) (by intro m h; cases h) rfl, hsn]
  simp only [Option.map_none]
  have hgx : snapGrid bb.left bb.right r none tol =
      .ok (bb.left, max 1 (C20.maybeInt ((bb.right - bb.left) / r) tol).ceil) := by
    unfold snapGrid; simp only; rw [if_pos hrpos]
  have hgy : snapGrid bb.bottom bb.top (-r) none tol =
      .ok (bb.top, max (C20.maybeInt ((bb.top - bb.bottom) / r) tol).ceil 1) := by
    unfold snapGrid; simp only
    rw [if_neg (by linarith), if_neg (by linarith), neg_neg]
  rw [hgx, hgy]
  refine ⟨_, rfl, ?_, ?_, ?_⟩
  · intro hlong
    rw [if_pos hlong] at hr
    have hq : (bb.right - bb.left) / r = (n : Rat) := by
      have hne : bb.right - bb.left ≠ 0 := by linarith
      rw [← hr]; unfold BBox.spanX; field_simp
    simp only [ts_eq, hq, maybeInt_intCast_any, Rat.ceil_intCast]
    exact ⟨max_eq_right (by omega), hr.symm, by rw [hr]⟩
  · intro hshort
    rw [if_neg hshort] at hr
    have hq : (bb.top - bb.bottom) / r = (n : Rat) := by
      have hne : bb.top - bb.bottom ≠ 0 := by linarith
      rw [← hr]; unfold BBox.spanY; field_simp
    simp only [ts_eq, hq, maybeInt_intCast_any, Rat.ceil_intCast]
    exact ⟨max_eq_left (by omega), hr.symm, by rw [hr]⟩
  · rw [ts_eq]
    exact ⟨rfl, rfl, rfl, rfl, le_max_left _ _, le_max_right _ _⟩

/-! ## shape-driven construction -/

section shape
variable {bb : BBox} {tight : Bool} {anchor : AnchorArg} {tol : Rat} {ny nx : Int} {g : GeoBox}

/-- **Exact shape** and **pixel size = span / shape** (north-up), snapping or not. -/
theorem from_bbox_shape_exact_shape (hnx : nx ≠ 0) (hny : ny ≠ 0)
    (h : fromBbox bb tight (.yx ny nx) .none anchor tol = .ok g) :
    g.ny = ny ∧ g.nx = nx ∧ g.affine.a = bb.spanX / nx ∧ g.affine.e = -bb.spanY / ny ∧
      g.affine.b = 0 ∧ g.affine.d = 0 := by
  cases hsn : snapOf tight (normAnchor anchor) with
  | none =>
    rw [fromBbox_shape_float_eq hnx hny hsn, ts_eq] at h
    have := Except.ok.inj h; subst this
    exact ⟨rfl, rfl, rfl, rfl, rfl, rfl⟩
  | some s =>
    obtain ⟨ox, oy, n1, n2, _, _, hg⟩ := fromBbox_shape_snap_inv hnx hny (sx := s.1) (sy := s.2) hsn h
    subst hg
    exact ⟨rfl, rfl, rfl, rfl, rfl, rfl⟩

theorem from_bbox_shape_pixel_size (hnx : nx ≠ 0) (hny : ny ≠ 0)
    (h : fromBbox bb tight (.yx ny nx) .none anchor tol = .ok g) :
    g.affine = Aff.translation g.affine.c g.affine.f * Aff.scale (bb.spanX / nx) (-bb.spanY / ny) := by
  obtain ⟨_, _, h1, h2, h3, h4⟩ := from_bbox_shape_exact_shape hnx hny h
  rw [ts_eq]
  cases hg : g.affine
  simp_all

/-- **Floating / tight**: the result is exactly the region. -/
theorem from_bbox_shape_floating_exact (hnx : 0 < nx) (hny : 0 < ny)
    (hx : bb.left ≤ bb.right) (hy : bb.bottom ≤ bb.top)
    (hsn : snapOf tight (normAnchor anchor) = none)
    (h : fromBbox bb tight (.yx ny nx) .none anchor tol = .ok g) :
    g.xmin = bb.left ∧ g.xmax = bb.right ∧ g.ymin = bb.bottom ∧ g.ymax = bb.top := by
  rw [fromBbox_shape_float_eq (by omega) (by omega) hsn, ts_eq] at h
  have := Except.ok.inj h; subst this
  have hnx' : (0 : Rat) < nx := by exact_mod_cast hnx
  have hny' : (0 : Rat) < ny := by exact_mod_cast hny
  have e1 : (nx : Rat) * (bb.spanX / nx) = bb.right - bb.left := by unfold BBox.spanX; field_simp
  have e2 : (ny : Rat) * (-bb.spanY / ny) = -(bb.top - bb.bottom) := by unfold BBox.spanY; field_simp
  simp only [GeoBox.xmin, GeoBox.xmax, GeoBox.ymin, GeoBox.ymax, e1, e2]
  refine ⟨min_eq_left (by linarith), ?_, ?_, max_eq_left (by linarith)⟩
  · rw [max_eq_right (by linarith)]; ring
  · rw [min_eq_right (by linarith)]; ring

/-- **Snapped**: the result is the region translated by less than one pixel per axis
(at most `tol` of a pixel inwards), and its pixel edges sit at the anchor fraction.
`rx`, `ry` are the (positive) pixel sizes `span / shape`. -/
theorem from_bbox_shape_displacement (hnx : 0 < nx) (hny : 0 < ny)
    (hx : bb.left < bb.right) (hy : bb.bottom < bb.top) (ht : 0 ≤ tol) (ht2 : tol < 1 / 2)
    {sx sy : Rat} (hsn : snapOf tight (normAnchor anchor) = some (sx, sy))
    (hsx : 0 ≤ sx ∧ sx < 1) (hsy : 0 ≤ sy ∧ sy < 1)
    (rx ry : Rat) (hrxd : rx = bb.spanX / nx) (hryd : ry = bb.spanY / ny)
    (h : fromBbox bb tight (.yx ny nx) .none anchor tol = .ok g) :
    (g.xmin = g.affine.c ∧ g.xmax = g.affine.c + bb.spanX ∧
      g.ymax = g.affine.f ∧ g.ymin = g.affine.f - bb.spanY) ∧
    (-(tol * rx) ≤ bb.left - g.affine.c ∧ bb.left - g.affine.c < rx) ∧
    (-(tol * ry) ≤ g.affine.f - bb.top ∧ g.affine.f - bb.top < ry) ∧
    (∃ i j : Int, (g.affine.c - sx * rx) / rx = i ∧ (g.affine.f - sy * ry) / ry = j) := by
  have hnx' : (0 : Rat) < nx := by exact_mod_cast hnx
  have hny' : (0 : Rat) < ny := by exact_mod_cast hny
  have hspx : 0 < bb.spanX := by unfold BBox.spanX; linarith
  have hspy : 0 < bb.spanY := by unfold BBox.spanY; linarith
  have hrx : 0 < rx := by rw [hrxd]; exact div_pos hspx hnx'
  have hry : 0 < ry := by rw [hryd]; exact div_pos hspy hny'
  have hry' : -bb.spanY / ny = -ry := by rw [hryd]; ring
  obtain ⟨ox, oy, n1, n2, h1, h2, hg⟩ := fromBbox_shape_snap_inv (by omega) (by omega) hsn h
  subst hg
  rw [hry'] at h2
  rw [← hrxd] at h1
  have e1 : (nx : Rat) * rx = bb.spanX := by rw [hrxd]; field_simp
  have e2 : (ny : Rat) * ry = bb.spanY := by rw [hryd]; field_simp
  -- x axis: positive resolution, lower edge is the origin
  obtain ⟨i, n, t, hx', _, lo1, hi1, c1, m1, _, _, _, _⟩ :=
    C20.snapGrid_some_spec (ne_of_gt hrx) hx.le hsx ht ht2 (x0 := bb.left) (x1 := bb.right)
  rw [h1] at hx'; cases hx'
  simp only [gridLo, if_pos hrx, abs_of_pos hrx] at lo1 c1 m1
  -- y axis: negative resolution, upper edge is the origin; the span is ny ≥ 1 pixels wide
  have hwide : ry ≤ bb.top - bb.bottom := by
    have : (1 : Rat) ≤ ny := by exact_mod_cast hny
    have : ry ≤ ny * ry := by nlinarith
    unfold BBox.spanY at e2; linarith
  obtain ⟨j, m, u, hy', _, lo2, hi2, _, _, c2, _, _, w2⟩ :=
    C20.snapGrid_some_spec (neg_ne_zero.mpr (ne_of_gt hry)) hy.le hsy ht ht2 (x0 := bb.bottom) (x1 := bb.top)
  rw [h2] at hy'; cases hy'
  have hneg : ¬ (0 : Rat) < -ry := by linarith
  simp only [gridHi, if_neg hneg, abs_neg, abs_of_pos hry] at hi2 c2 w2
  have w2' := w2 hwide
  have ex : (nx : Rat) * (bb.spanX / nx) = bb.spanX := by rw [← hrxd]; exact e1
  have ey : (ny : Rat) * (-bb.spanY / ny) = -bb.spanY := by rw [hry']; linarith
  refine ⟨⟨?_, ?_, ?_, ?_⟩, ⟨by simp only; linarith, by simp only; exact m1⟩,
    ⟨by simp only; linarith, by simp only; exact w2'⟩, ⟨i, j + n2, ?_, ?_⟩⟩
  · simp only [GeoBox.xmin, ex]; exact min_eq_left (by linarith)
  · simp only [GeoBox.xmax, ex]; exact max_eq_right (by linarith)
  · simp only [GeoBox.ymax, ey]; exact max_eq_left (by linarith)
  · simp only [GeoBox.ymin, ey]; rw [min_eq_right (by linarith)]; ring
  · simp only; rw [lo1]; field_simp; ring
  · simp only; rw [hi2]; push_cast; field_simp; ring

end shape

/-! ## polygon variant -/

/-- The bounding box of the vertex list contains every vertex. -/
theorem bbox_of_pts_contains (p : Rat × Rat) (ps : List (Rat × Rat)) :
    ∀ q ∈ p :: ps, (bboxOfPts p ps).left ≤ q.1 ∧ q.1 ≤ (bboxOfPts p ps).right ∧
      (bboxOfPts p ps).bottom ≤ q.2 ∧ q.2 ≤ (bboxOfPts p ps).top := by
  intro q hq
  have a := foldl_min_le' (·.1) ps p.1
  have b := foldl_min_le' (·.2) ps p.2
  have c := le_foldl_max' (·.1) ps p.1
  have d := le_foldl_max' (·.2) ps p.2
  rcases List.mem_cons.mp hq with rfl | hq
  · exact ⟨a.1, c.1, b.1, d.1⟩
  · exact ⟨a.2 q hq, c.2 q hq, b.2 q hq, d.2 q hq⟩

/-- `from_geopolygon` is `from_bbox` of the polygon's bounding box; the deprecated `align=`
(in CRS units) becomes the per-axis anchor `align / |resolution|`, `(0,0)` becomes edge. -/
theorem from_geopolygon_reduces_to_bbox (p : Rat × Rat) (ps : List (Rat × Rat)) (res : ResArg)
    (shape : ShapeArg) (tight : Bool) (anchor : AnchorArg) (tol : Rat) :
    fromGeopolygon p ps res none shape tight anchor tol =
        fromBbox (bboxOfPts p ps) tight shape res anchor tol ∧
    fromGeopolygon p ps res (some (0, 0)) shape tight anchor tol =
        fromBbox (bboxOfPts p ps) tight shape res (.val .edge) tol ∧
    (∀ ax ay rx ry, ¬ (ax = 0 ∧ ay = 0) → res.xy? = some (rx, ry) → rx ≠ 0 → ry ≠ 0 →
      fromGeopolygon p ps res (some (ax, ay)) shape tight anchor tol =
        fromBbox (bboxOfPts p ps) tight shape (.xy rx ry) (.val (.xy (ax / |rx|) (ay / |ry|))) tol) := by
  refine ⟨rfl, ?_, ?_⟩
  · simp [fromGeopolygon, alignToAnchor, bind, Except.bind]
  · intro ax ay rx ry h0 hres hrx hry
    have : ¬ (rx = 0 ∨ ry = 0) := by tauto
    simp only [fromGeopolygon, alignToAnchor, if_neg h0, hres, if_neg this, bind, Except.bind,
      C20.rabs_eq_abs]

/-- Every vertex of the polygon lies within the resulting geobox up to `tol` of a pixel. -/
theorem from_geopolygon_covers_vertices (p : Rat × Rat) (ps : List (Rat × Rat)) {res : ResArg}
    {shape : ShapeArg} {tight : Bool} {anchor : AnchorArg} {tol rx ry : Rat} {g : GeoBox}
    (hs : ∀ n, shape ≠ .int n) (hres : res.xy? = some (rx, ry))
    (v : ValidRes (bboxOfPts p ps) rx ry tol (snapOf tight (normAnchor anchor)))
    (h : fromGeopolygon p ps res none shape tight anchor tol = .ok g) :
    ∀ q ∈ p :: ps, g.xmin - tol * |rx| ≤ q.1 ∧ q.1 ≤ g.xmax + tol * |rx| ∧
      g.ymin - tol * |ry| ≤ q.2 ∧ q.2 ≤ g.ymax + tol * |ry| := by
  rw [(from_geopolygon_reduces_to_bbox p ps res shape tight anchor tol).1] at h
  obtain ⟨c1, c2, c3, c4⟩ := from_bbox_res_covers hs hres v h
  intro q hq
  obtain ⟨b1, b2, b3, b4⟩ := bbox_of_pts_contains p ps q hq
  exact ⟨by linarith, by linarith, by linarith, by linarith⟩

/-! ## `tight` / anchor interplay, utm shortcut, `zoom_to(resolution=)` -/

/-- **What HEAD does with an explicit anchor when `tight=True`: it is ignored** — also an explicit
per-axis `XY` anchor (`if tight: anchor = FLOATING` runs before the anchor is looked at).  The result
depends on the region, shape/resolution and `tol` only. -/
theorem from_bbox_tight_ignores_anchor (bb : BBox) (shape : ShapeArg) (res : ResArg) (a a' : AnchorArg)
    (tol : Rat) : fromBbox bb true shape res a tol = fromBbox bb true shape res a' tol := by
  unfold fromBbox
  simp only [tight_is_floating]

/-- The `crs="utm"` shortcut is `from_bbox` of the envelope of the four projected corners, i.e. the
polygon variant on the projected corner ring (whatever the projection is). -/
theorem from_bbox_utm_is_polygon_of_corners (proj : Rat × Rat → Rat × Rat) (bb : BBox) (tight : Bool)
    (shape : ShapeArg) (res : ResArg) (anchor : AnchorArg) (tol : Rat) :
    fromBboxUtm proj bb tight shape res anchor tol =
      fromGeopolygon (proj (bb.left, bb.bottom)) [proj (bb.left, bb.top), proj (bb.right, bb.top), proj (bb.right, bb.bottom)]
        res none shape tight anchor tol := by
  rw [(from_geopolygon_reduces_to_bbox _ _ res shape tight anchor tol).1]
  rfl

/-- **utm shortcut covers the projected corners**: every corner of the lon/lat box, projected, lies
within the resulting geobox up to `tol` of a pixel.  (Only the corners: the sides of a lon/lat box
are not straight in UTM and are not sampled by the code.) -/
theorem from_bbox_utm_covers_corners (proj : Rat × Rat → Rat × Rat) (bb : BBox) {res : ResArg}
    {shape : ShapeArg} {tight : Bool} {anchor : AnchorArg} {tol rx ry : Rat} {g : GeoBox}
    (hs : ∀ n, shape ≠ .int n) (hres : res.xy? = some (rx, ry))
    (v : ValidRes (normBboxUtm proj bb) rx ry tol (snapOf tight (normAnchor anchor)))
    (h : fromBboxUtm proj bb tight shape res anchor tol = .ok g) :
    ∀ c ∈ bb.corners, g.xmin - tol * |rx| ≤ (proj c).1 ∧ (proj c).1 ≤ g.xmax + tol * |rx| ∧
      g.ymin - tol * |ry| ≤ (proj c).2 ∧ (proj c).2 ≤ g.ymax + tol * |ry| := by
  rw [from_bbox_utm_is_polygon_of_corners] at h
  have hv := from_geopolygon_covers_vertices _ _ hs hres v h
  intro c hc
  simp only [BBox.corners, List.mem_cons, List.mem_nil_iff, or_false] at hc
  rcases hc with rfl | rfl | rfl | rfl
  · exact hv _ (by simp)
  · exact hv _ (by simp)
  · exact hv _ (by simp)
  · exact hv _ (by simp)

/-- **Cross-CRS polygon variant covers every projected vertex** up to `tol` of a pixel: it is the
same-CRS construction on the projected vertices (the vertices, not the bounding box, are projected —
for a non-rectangular polygon and a non-separable projection the two differ). -/
theorem from_geopolygon_crs_covers_vertices (proj : Rat × Rat → Rat × Rat) (p : Rat × Rat)
    (ps : List (Rat × Rat)) {res : ResArg} {shape : ShapeArg} {tight : Bool} {anchor : AnchorArg}
    {tol rx ry : Rat} {g : GeoBox} (hs : ∀ n, shape ≠ .int n) (hres : res.xy? = some (rx, ry))
    (v : ValidRes (bboxOfPts (proj p) (ps.map proj)) rx ry tol (snapOf tight (normAnchor anchor)))
    (h : fromGeopolygonCrs proj p ps res none shape tight anchor tol = .ok g) :
    ∀ q ∈ p :: ps, g.xmin - tol * |rx| ≤ (proj q).1 ∧ (proj q).1 ≤ g.xmax + tol * |rx| ∧
      g.ymin - tol * |ry| ≤ (proj q).2 ∧ (proj q).2 ≤ g.ymax + tol * |ry| := by
  have hv := from_geopolygon_covers_vertices (proj p) (ps.map proj) hs hres v h
  intro q hq
  apply hv
  rcases List.mem_cons.mp hq with rfl | hq
  · exact List.mem_cons_self ..
  · exact List.mem_cons_of_mem _ (List.mem_map.mpr ⟨q, hq, rfl⟩)

/-- Projecting the bounding box instead of the polygon is **not** the same thing: a triangle under a
shear-like map (seeded change C08-8 did exactly this).  Envelope of projected vertices vs envelope
of the projected corners of the envelope. -/
theorem project_vertices_ne_project_bbox :
    let proj : Rat × Rat → Rat × Rat := fun q => (q.1 + q.2, q.2)
    bboxOfPts (proj (0, 0)) ([(4, 0), (0, 4)].map proj) ≠
      normBboxUtm proj (bboxOfPts (0, 0) [(4, 0), (0, 4)]) := by
  decide +kernel

/-- **Composition with C02: `GeoBox.zoom_to(resolution=(rx, ry))` *is* `from_bbox` of the geobox's
bounding box with `tight=True`, the default anchor (ignored) and the default `tol = 0.01`.**
C02 models the call with its own tight-snapping helper; this theorem identifies it with the C08
model of `from_bbox`, for every geobox (rotated ones included: the bounding box is the hull of the
four corner images) and every resolution (zero components raise `ZeroDivisionError` on both sides). -/
theorem zoom_to_resolution_is_from_bbox (g : C02.GeoBox) (rx ry : Rat) :
    C02.zoomToRes g rx ry =
      (fromBbox ⟨(C02.boundingbox g).left, (C02.boundingbox g).bottom, (C02.boundingbox g).right,
                 (C02.boundingbox g).top⟩ true .none (.xy rx ry) (.name .default) C02.tolSnap).map
        (fun h => (⟨h.ny, h.nx, h.affine, g.crs⟩ : C02.GeoBox)) := by
  have htol : C02.tolSnap ≤ 1 / 2 := by
    unfold C02.tolSnap; rw [Rat.mkRat_eq_div]; norm_num
  have hx : (C02.boundingbox g).left ≤ (C02.boundingbox g).right := by
    simp only [C02.boundingbox]; exact min4_le_max4 _ _ _ _
  have hy : (C02.boundingbox g).bottom ≤ (C02.boundingbox g).top := by
    simp only [C02.boundingbox]; exact min4_le_max4 _ _ _ _
  rw [fromBbox_res_eq (rx := rx) (ry := ry) (by intro n h; cases h) rfl]
  simp only [tight_is_floating, Option.map_none]
  unfold C02.zoomToRes
  simp only [snapGridTight_eq _ _ _ _ hx htol, snapGridTight_eq _ _ _ _ hy htol]
  cases h1 : snapGrid (C02.boundingbox g).left (C02.boundingbox g).right rx none C02.tolSnap with
  | error e => simp [bind, Except.bind, Except.map]
  | ok p =>
    cases h2 : snapGrid (C02.boundingbox g).bottom (C02.boundingbox g).top ry none C02.tolSnap with
    | error e => simp [bind, Except.bind, Except.map]
    | ok q => simp [bind, Except.bind, Except.map, pure, Except.pure]

/-- Consequently `zoom_to(resolution=)` inherits the C08 guarantees: exactly the requested pixel
size, origin at the bounding box corner, at least one pixel per axis, the bounding box covered up
to 1 % of a pixel and exceeded by at most a pixel (+1 %) per side. -/
theorem zoom_to_resolution_covers (g : C02.GeoBox) (rx ry : Rat) (hrx : rx ≠ 0) (hry : ry ≠ 0) :
    ∃ z : C02.GeoBox, C02.zoomToRes g rx ry = .ok z ∧ 1 ≤ z.nx ∧ 1 ≤ z.ny ∧
      z.A.a = rx ∧ z.A.e = ry ∧ z.A.b = 0 ∧ z.A.d = 0 ∧
      (let h : GeoBox := ⟨z.ny, z.nx, z.A⟩
       h.xmin ≤ (C02.boundingbox g).left + C02.tolSnap * |rx| ∧
       (C02.boundingbox g).right - C02.tolSnap * |rx| ≤ h.xmax ∧
       h.ymin ≤ (C02.boundingbox g).bottom + C02.tolSnap * |ry| ∧
       (C02.boundingbox g).top - C02.tolSnap * |ry| ≤ h.ymax) := by
  have htol0 : 0 ≤ C02.tolSnap := by unfold C02.tolSnap; rw [Rat.mkRat_eq_div]; norm_num
  have htol : C02.tolSnap < 1 / 2 := by unfold C02.tolSnap; rw [Rat.mkRat_eq_div]; norm_num
  have hx : (C02.boundingbox g).left ≤ (C02.boundingbox g).right := by
    simp only [C02.boundingbox]; exact min4_le_max4 _ _ _ _
  have hy : (C02.boundingbox g).bottom ≤ (C02.boundingbox g).top := by
    simp only [C02.boundingbox]; exact min4_le_max4 _ _ _ _
  let bb : BBox := ⟨(C02.boundingbox g).left, (C02.boundingbox g).bottom, (C02.boundingbox g).right,
    (C02.boundingbox g).top⟩
  have v : ValidRes bb rx ry C02.tolSnap (snapOf true (normAnchor (.name .default))) :=
    ⟨hx, hy, hrx, hry, htol0, htol, by intro s hs; cases hs⟩
  obtain ⟨h, hh, hn1, hn2⟩ := from_bbox_res_total (shape := .none) (res := .xy rx ry)
    (by intro n hn; cases hn) rfl v
  obtain ⟨_, ha, he, hb, hd⟩ := from_bbox_res_pixel_size (shape := .none) (res := .xy rx ry)
    (by intro n hn; cases hn) rfl hh
  have hc := from_bbox_res_covers (shape := .none) (res := .xy rx ry) (by intro n hn; cases hn) rfl v hh
  refine ⟨⟨h.ny, h.nx, h.affine, g.crs⟩, ?_, hn1, hn2, ha, he, hb, hd, hc⟩
  rw [zoom_to_resolution_is_from_bbox, hh]; rfl

/-! ## non-vacuity -/

example : fromBbox ⟨0, 0, 10, 7⟩ false .none (.scalar 3) (.name .default) (1 / 100) =
    .ok ⟨3, 4, ⟨3, 0, 0, 0, -3, 9⟩⟩ := by decide +kernel
example : ValidRes ⟨0, 0, 10, 7⟩ 3 (-3) (1 / 100) (snapOf false (normAnchor (.name .default))) :=
  ⟨by norm_num, by norm_num, by norm_num, by norm_num, by norm_num, by norm_num,
   by intro s hs; cases hs; norm_num⟩
example : fromBbox ⟨0, 0, 10, 7⟩ false (.yx 7 5) .none (.val .center) (1 / 100) =
    .ok ⟨7, 5, ⟨2, 0, -1, 0, -1, 15 / 2⟩⟩ := by decide +kernel

end OdcGeo.C08
