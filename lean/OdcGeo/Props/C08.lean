/- C08 — property theorems only. -/
import OdcGeo.Model.C08
namespace OdcGeo.C08

end OdcGeo.C08
