/-
C20 — source tie, piece `MaybeZero` (see OdcGeo/Props/GenC20.lean).  One compilation unit per tied function (or small
group), so that a tie that is lost in a run only removes its own theorems from that run's obligations.
-/
import OdcGeo.Gen.C20
import OdcGeo.Gen.Tie
import OdcGeo.Lemmas.GenC20
import OdcGeo.Props.C20

namespace OdcGeo.C20
open OdcGeo.Gen

theorem tie_maybe_zero (x tol : Rat) : Gen.C20.maybe_zero x tol = maybeZero x tol := by
  tie_auto [Gen.C20.maybe_zero, maybeZero, py_absR_eq]

end OdcGeo.C20
