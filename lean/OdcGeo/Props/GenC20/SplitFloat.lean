/-
C20 — source tie, piece `SplitFloat` (see OdcGeo/Props/GenC20.lean).  One compilation unit per tied function (or small
group), so that a tie that is lost in a run only removes its own theorems from that run's obligations.
-/
import OdcGeo.Gen.C20
import OdcGeo.Gen.Tie
import OdcGeo.Lemmas.GenC20
import OdcGeo.Props.C20

namespace OdcGeo.C20
open OdcGeo.Gen

theorem tie_split_float (x : Rat) : Gen.C20.split_float x = splitFloat x := by
  tie_auto [Gen.C20.split_float, splitFloat, py_fmod_one]

/-- `split_float_sum_range_whole` for the source `split_float` -/
theorem gen_split_float_sum_range_whole (x : Rat) :
    (∃ k : Int, (Gen.C20.split_float x).1 = (k : Rat)) ∧
      (Gen.C20.split_float x).1 + (Gen.C20.split_float x).2 = x ∧
      -(1 / 2) ≤ (Gen.C20.split_float x).2 ∧ (Gen.C20.split_float x).2 ≤ 1 / 2 := by
  rw [tie_split_float]; exact split_float_sum_range_whole x

end OdcGeo.C20
