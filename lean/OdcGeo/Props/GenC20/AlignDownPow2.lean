/-
C20 — source tie, piece `AlignDownPow2` (see OdcGeo/Props/GenC20.lean).  One compilation unit per tied function (or small
group), so that a tie that is lost in a run only removes its own theorems from that run's obligations.
-/
import OdcGeo.Gen.C20
import OdcGeo.Gen.Tie
import OdcGeo.Lemmas.GenC20
import OdcGeo.Props.C20
import OdcGeo.Props.GenC20.AlignUpPow2

namespace OdcGeo.C20
open OdcGeo.Gen

theorem tie_align_down_pow2 (x : Int) : Gen.C20.align_down_pow2 x = .ok (alignDownPow2 x) := by
  tie_auto [Gen.C20.align_down_pow2, alignDownPow2, tie_align_up_pow2]

/-- `align_down_pow2_greatest` for the source `align_down_pow2` -/
theorem gen_align_down_pow2_greatest (x : Int) (hx : 1 ≤ x) :
    ∃ y, Gen.C20.align_down_pow2 x = .ok y ∧
      ∃ n : Nat, y = 2 ^ n ∧ (2 : Int) ^ n ≤ x ∧ ∀ m : Nat, (2 : Int) ^ m ≤ x → (2 : Int) ^ m ≤ 2 ^ n :=
  ⟨_, tie_align_down_pow2 x, align_down_pow2_greatest x hx⟩

end OdcGeo.C20
