/-
C20 — source tie, piece `Clamp` (see OdcGeo/Props/GenC20.lean).  One compilation unit per tied function (or small
group), so that a tie that is lost in a run only removes its own theorems from that run's obligations.
-/
import OdcGeo.Gen.C20
import OdcGeo.Gen.Tie
import OdcGeo.Lemmas.GenC20
import OdcGeo.Props.C20

namespace OdcGeo.C20
open OdcGeo.Gen

theorem tie_clamp (x lo up : Rat) : Gen.C20.clamp x lo up = clamp x lo up := by
  tie_auto [Gen.C20.clamp, clamp]

end OdcGeo.C20
