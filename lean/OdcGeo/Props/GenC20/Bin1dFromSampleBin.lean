/-
C20 — source tie, piece `Bin1dFromSampleBin` (see OdcGeo/Props/GenC20.lean).  One compilation unit per tied function (or small
group), so that a tie that is lost in a run only removes its own theorems from that run's obligations.
-/
import OdcGeo.Gen.C20
import OdcGeo.Gen.Tie
import OdcGeo.Lemmas.GenC20
import OdcGeo.Props.C20
import OdcGeo.Props.GenC20.Bin1dInit
import OdcGeo.Props.GenC20.Bin1dGetitem

namespace OdcGeo.C20
open OdcGeo.Gen

theorem tie_bin1d_from_sample_bin (idx : Int) (bin : Rat × Rat) (direction : Int) :
    Gen.C20.bin1d_from_sample_bin idx bin direction = Bin1D.fromSampleBin idx bin.1 bin.2 direction := by
  tie_auto [Gen.C20.bin1d_from_sample_bin, Bin1D.fromSampleBin, tie_bin1d_init]

/-- `bin1d_from_sample_bin` for the source `Bin1D.from_sample_bin` -/
theorem gen_bin1d_from_sample_bin (b : Bin1D) (hsz : 0 < b.sz) (hd : b.direction = 1 ∨ b.direction = -1) (idx : Int) :
    Gen.C20.bin1d_from_sample_bin idx (Gen.C20.bin1d_getitem b idx) b.direction = .ok b := by
  rw [tie_bin1d_from_sample_bin, tie_bin1d_getitem]; exact bin1d_from_sample_bin b hsz hd idx

end OdcGeo.C20
