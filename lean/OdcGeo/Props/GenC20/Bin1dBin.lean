/-
C20 — source tie, piece `Bin1dBin` (see OdcGeo/Props/GenC20.lean).  One compilation unit per tied function (or small
group), so that a tie that is lost in a run only removes its own theorems from that run's obligations.
-/
import OdcGeo.Gen.C20
import OdcGeo.Gen.Tie
import OdcGeo.Lemmas.GenC20
import OdcGeo.Props.C20
import OdcGeo.Props.GenC20.Bin1dGetitem

namespace OdcGeo.C20
open OdcGeo.Gen

/-- `Bin1D.bin`; `sz > 0` is the class invariant established by `__init__` (`tie_bin1d_init`) -/
theorem tie_bin1d_bin (b : Bin1D) (x : Rat) (h : 0 < b.sz) : Gen.C20.bin1d_bin b x = .ok (b.bin x) := by
  have h0 : b.sz ≠ 0 := ne_of_gt h
  tie_auto [Gen.C20.bin1d_bin, Bin1D.bin]

/-- `bin1d_point_in_bin` for the source `Bin1D.bin` / `Bin1D.__getitem__` -/
theorem gen_bin1d_point_in_bin (b : Bin1D) (hsz : 0 < b.sz) (hd : b.direction = 1 ∨ b.direction = -1) (x : Rat) :
    ∃ i, Gen.C20.bin1d_bin b x = .ok i ∧
      (Gen.C20.bin1d_getitem b i).1 ≤ x ∧ x < (Gen.C20.bin1d_getitem b i).2 := by
  refine ⟨_, tie_bin1d_bin b x hsz, ?_⟩
  rw [tie_bin1d_getitem]; exact bin1d_point_in_bin b hsz hd x

end OdcGeo.C20
