/-
C20 — source tie, piece `AlignUpPow2` (see OdcGeo/Props/GenC20.lean).  One compilation unit per tied function (or small
group), so that a tie that is lost in a run only removes its own theorems from that run's obligations.
-/
import OdcGeo.Gen.C20
import OdcGeo.Gen.Tie
import OdcGeo.Lemmas.GenC20
import OdcGeo.Props.C20

namespace OdcGeo.C20
open OdcGeo.Gen

theorem tie_align_up_pow2 (x : Int) : Gen.C20.align_up_pow2 x = .ok (alignUpPow2 x) := by
  by_cases h : x ≤ 0
  · simp [Gen.C20.align_up_pow2, alignUpPow2, h]
  · simp [Gen.C20.align_up_pow2, alignUpPow2, h, py_ceilLog2_eq x (by omega), py_ipow_two_nat]

/-- `align_up_pow2_least` for the source `align_up_pow2`: no exception, least power of two `≥ x` -/
theorem gen_align_up_pow2_least (x : Int) (hx : 1 ≤ x) :
    ∃ y, Gen.C20.align_up_pow2 x = .ok y ∧
      ∃ n : Nat, y = 2 ^ n ∧ x ≤ 2 ^ n ∧ ∀ m : Nat, x ≤ 2 ^ m → (2 : Int) ^ n ≤ 2 ^ m :=
  ⟨_, tie_align_up_pow2 x, align_up_pow2_least x hx⟩

end OdcGeo.C20
