/-
C20 — source tie, piece `IsAlmostInt` (see OdcGeo/Props/GenC20.lean).  One compilation unit per tied function (or small
group), so that a tie that is lost in a run only removes its own theorems from that run's obligations.
-/
import OdcGeo.Gen.C20
import OdcGeo.Gen.Tie
import OdcGeo.Lemmas.GenC20
import OdcGeo.Props.C20

namespace OdcGeo.C20
open OdcGeo.Gen

theorem tie_is_almost_int (x tol : Rat) : Gen.C20.is_almost_int x tol = isAlmostInt x tol := by
  tie_auto [Gen.C20.is_almost_int, isAlmostInt, py_fmod_one, py_absR_eq]

/-- `is_almost_int_iff` for the source `is_almost_int` -/
theorem gen_is_almost_int_iff (x tol : Rat) :
    Gen.C20.is_almost_int x tol = true ↔ ∃ n : Int, |x - n| < tol := by
  rw [tie_is_almost_int]; exact is_almost_int_iff x tol

end OdcGeo.C20
