/-
C20 — source tie, piece `SnapGrid` (see OdcGeo/Props/GenC20.lean).  One compilation unit per tied function (or small
group), so that a tie that is lost in a run only removes its own theorems from that run's obligations.
-/
import OdcGeo.Gen.C20
import OdcGeo.Gen.Tie
import OdcGeo.Lemmas.GenC20
import OdcGeo.Props.C20
import OdcGeo.Props.GenC20.SnapEdge
import OdcGeo.Props.GenC20.MaybeInt

namespace OdcGeo.C20
open OdcGeo.Gen

theorem tie_snap_grid (x0 x1 res : Rat) (off_pix : Option Rat) (tol : Rat) :
    Gen.C20.snap_grid x0 x1 res off_pix tol = snapGrid x0 x1 res off_pix tol := by
  cases off_pix <;> tie_auto [Gen.C20.snap_grid, snapGrid, tie_snap_edge, tie_maybe_int, py_absR_eq]

/-- `snap_grid_n_pos` for the source `snap_grid` -/
theorem gen_snap_grid_n_pos {x0 x1 res tol : Rat} (off : Option Rat) (hr : res ≠ 0) (hx : x0 ≤ x1)
    (hop : ∀ op, off = some op → 0 ≤ op ∧ op < 1) (ht : 0 ≤ tol) (ht2 : tol < 1 / 2) :
    ∃ tx nx, Gen.C20.snap_grid x0 x1 res off tol = .ok (tx, nx) ∧ 1 ≤ nx := by
  simp only [tie_snap_grid]; exact snap_grid_n_pos off hr hx hop ht ht2

/-- `snap_grid_cover` for the source `snap_grid` -/
theorem gen_snap_grid_cover {x0 x1 res tol tx : Rat} {nx : Int} (off : Option Rat) (hr : res ≠ 0)
    (hx : x0 ≤ x1) (hop : ∀ op, off = some op → 0 ≤ op ∧ op < 1) (ht : 0 ≤ tol) (ht2 : tol < 1 / 2)
    (h : Gen.C20.snap_grid x0 x1 res off tol = .ok (tx, nx)) :
    gridLo res tx nx ≤ x0 + tol * |res| ∧ x1 - tol * |res| ≤ gridHi res tx nx := by
  rw [tie_snap_grid] at h; exact snap_grid_cover off hr hx hop ht ht2 h

end OdcGeo.C20
