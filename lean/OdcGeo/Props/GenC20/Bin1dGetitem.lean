/-
C20 — source tie, piece `Bin1dGetitem` (see OdcGeo/Props/GenC20.lean).  One compilation unit per tied function (or small
group), so that a tie that is lost in a run only removes its own theorems from that run's obligations.
-/
import OdcGeo.Gen.C20
import OdcGeo.Gen.Tie
import OdcGeo.Lemmas.GenC20
import OdcGeo.Props.C20

namespace OdcGeo.C20
open OdcGeo.Gen

theorem tie_bin1d_getitem (b : Bin1D) (idx : Int) : Gen.C20.bin1d_getitem b idx = b.interval idx := by
  tie_auto [Gen.C20.bin1d_getitem, Bin1D.interval]

end OdcGeo.C20
