/-
C20 — source tie, piece `SnapEdge` (see OdcGeo/Props/GenC20.lean).  One compilation unit per tied function (or small
group), so that a tie that is lost in a run only removes its own theorems from that run's obligations.
-/
import OdcGeo.Gen.C20
import OdcGeo.Gen.Tie
import OdcGeo.Lemmas.GenC20
import OdcGeo.Props.C20
import OdcGeo.Props.GenC20.SnapEdgePos

namespace OdcGeo.C20
open OdcGeo.Gen

theorem tie_snap_edge (x0 x1 res tol : Rat) :
    Gen.C20.snap_edge x0 x1 res tol = snapEdge x0 x1 res tol := by
  tie_auto [Gen.C20.snap_edge, snapEdge, tie_snap_edge_pos]

end OdcGeo.C20
