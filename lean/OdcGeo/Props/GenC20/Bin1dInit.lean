/-
C20 — source tie, piece `Bin1dInit` (see OdcGeo/Props/GenC20.lean).  One compilation unit per tied function (or small
group), so that a tie that is lost in a run only removes its own theorems from that run's obligations.
-/
import OdcGeo.Gen.C20
import OdcGeo.Gen.Tie
import OdcGeo.Lemmas.GenC20
import OdcGeo.Props.C20

namespace OdcGeo.C20
open OdcGeo.Gen

theorem tie_bin1d_init (sz origin : Rat) (direction : Int) :
    Gen.C20.bin1d_init sz origin direction = Bin1D.mk? sz origin direction := by
  tie_auto [Gen.C20.bin1d_init, Bin1D.mk?]

/-- `bin1d_rejects` for the source `Bin1D.__init__` -/
theorem gen_bin1d_rejects (sz origin : Rat) (d : Int) (h : ¬ (d = -1 ∨ d = 1) ∨ ¬ sz > 0) :
    Gen.C20.bin1d_init sz origin d = .error .assertion := by
  rw [tie_bin1d_init]; exact bin1d_rejects sz origin d h

end OdcGeo.C20
