/-
C20 — source tie, piece `MaybeInt` (see OdcGeo/Props/GenC20.lean).  One compilation unit per tied function (or small
group), so that a tie that is lost in a run only removes its own theorems from that run's obligations.
-/
import OdcGeo.Gen.C20
import OdcGeo.Gen.Tie
import OdcGeo.Lemmas.GenC20
import OdcGeo.Props.C20
import OdcGeo.Props.GenC20.SplitFloat

namespace OdcGeo.C20
open OdcGeo.Gen

theorem tie_maybe_int (x tol : Rat) : Gen.C20.maybe_int x tol = maybeInt x tol := by
  tie_auto [Gen.C20.maybe_int, maybeInt_if, tie_split_float, py_absR_eq, py_trunc_eq]

end OdcGeo.C20
