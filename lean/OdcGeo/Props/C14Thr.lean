/-
C14 — threads sharing one `geobox_cache` (`Model/C14Thr.lean`): for ANY interleaving of the dictionary operations of any
number of threads, every thread yields exactly what its query yields alone without a cache, and the cache stays coherent.
-/
import OdcGeo.Model.C14Thr
import OdcGeo.Lemmas.C14Thr
import OdcGeo.Props.C14

namespace OdcGeo.C14

section
variable (fl : Rnd) (g : GridSpec)

/-- ONE dictionary operation of one thread, coherent cache: the thread's invariant (yielded so far ++ still to yield = what the
    query yields alone) and the coherence of the cache are preserved — also when the write overwrites another thread's entry -/
theorem thread_step (t : Thr) (c : Cache) (total : List ((Int × Int) × GeoBox)) (hc : g.Coherent fl c)
    (hi : t.Inv fl g total) :
    (g.thrStep fl t c).1.Inv fl g total ∧ g.Coherent fl (g.thrStep fl t c).2 := by
  obtain ⟨todo, miss, dj, out⟩ := t
  unfold Thr.Inv at hi ⊢
  cases todo with
  | nil => exact ⟨hi, hc⟩
  | cons k ks =>
    have key : ∀ gb, gb = g.tileGeobox fl k →
        (Thr.emit ⟨k :: ks, miss, dj, out⟩ k gb) ++ Thr.spec fl g dj ks = total := by
      intro gb hgb
      subst hgb
      rw [← hi]
      unfold Thr.emit Thr.spec
      by_cases hd : dj (g.tileGeobox fl k) = true
      · simp [hd]
      · have hd' : dj (g.tileGeobox fl k) = false := by simpa using hd
        simp [hd']
    cases miss with
    | true =>
      refine ⟨by simpa [GridSpec.thrStep] using key _ rfl, ?_⟩
      simp only [GridSpec.thrStep, if_true]
      intro k' gb' h'
      simp only [List.lookup_cons] at h'
      by_cases e : k' = k
      · subst e; simp at h'; exact h'.symm
      · have : (k' == k) = false := by simpa using e
        rw [this] at h'
        exact hc k' gb' h'
    | false =>
      cases hl : c.lookup k with
      | some gb =>
        have := key gb (hc k gb hl)
        refine ⟨by simpa [GridSpec.thrStep, hl] using this, by simpa [GridSpec.thrStep, hl] using hc⟩
      | none =>
        refine ⟨by simpa [GridSpec.thrStep, hl] using hi, by simpa [GridSpec.thrStep, hl] using hc⟩

/-- ANY INTERLEAVING: whatever the schedule of dictionary operations over any number of threads sharing one coherent cache,
    afterwards every thread still satisfies "yielded ++ still to yield = its stateless result" and the cache is coherent. -/
theorem threads_transparent (sched : List Nat) :
    ∀ (ts : List Thr) (c : Cache) (totals : Nat → List ((Int × Int) × GeoBox)), g.Coherent fl c →
      (∀ (i : Nat) (t : Thr), ts[i]? = some t → t.Inv fl g (totals i)) →
      g.Coherent fl (g.thrRun fl sched ts c).2 ∧
      (∀ (i : Nat) (t : Thr), (g.thrRun fl sched ts c).1[i]? = some t → t.Inv fl g (totals i)) ∧
      (g.thrRun fl sched ts c).1.length = ts.length := by
  induction sched with
  | nil => intro ts c totals hc hi; exact ⟨hc, hi, rfl⟩
  | cons i sched ih =>
    intro ts c totals hc hi
    simp only [GridSpec.thrRun]
    cases ht : ts[i]? with
    | none => exact ih ts c totals hc hi
    | some t =>
      obtain ⟨s1, s2⟩ := thread_step fl g t c (totals i) hc (hi i t ht)
      have hi' : ∀ (j : Nat) (t' : Thr), (setAt ts i (g.thrStep fl t c).1)[j]? = some t' → t'.Inv fl g (totals j) := by
        intro j t' hj
        rw [getElem?_setAt] at hj
        split at hj
        · next h => cases hj; rw [h.1]; exact s1
        · exact hi j t' hj
      obtain ⟨a, b, c'⟩ := ih (setAt ts i (g.thrStep fl t c).1) (g.thrStep fl t c).2 totals s2 hi'
      exact ⟨a, b, by rw [c', length_setAt]⟩

/-- a fresh thread satisfies the invariant for the stateless result of its query; a finished thread has yielded exactly that -/
theorem thread_start_and_finish (ks : List (Int × Int)) (dj : GeoBox → Bool) (t : Thr) (total : List ((Int × Int) × GeoBox)) :
    (Thr.ofTiles ks).Inv fl g (ks.map (fun k => (k, g.tileGeobox fl k))) ∧
    (Thr.ofPolygon ks dj).Inv fl g (Thr.spec fl g dj ks) ∧
    (t.Inv fl g total → t.todo = [] → t.out = total) := by
  refine ⟨?_, ?_, ?_⟩
  · simp [Thr.Inv, Thr.ofTiles, Thr.spec]
  · simp [Thr.Inv, Thr.ofPolygon]
  · intro h he
    unfold Thr.Inv at h
    rw [he] at h
    simpa [Thr.spec] using h

end

example : let g : GridSpec := ⟨1, 1, 1, -1, 0, 0, ⟨1, 0, 1⟩, ⟨1, 0, 1⟩⟩
    ((g.thrRun id [0, 1, 1, 0, 0, 1] [Thr.ofTiles [(0, 0), (1, 0)], Thr.ofTiles [(0, 0)]] []).1.map (fun t => t.out.map (·.1)))
      = [[(0, 0)], [(0, 0)]] := by
  decide +kernel

end OdcGeo.C14
