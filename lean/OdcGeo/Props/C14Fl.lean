/-
C14 — a closed-form SUFFICIENT representability criterion for the binary64 instance of the model: on grids whose tile sizes and
origins are integers of magnitude below 2^26, for tile indices of magnitude below 2^26, every intermediate of
`Bin1D.__getitem__` is an integer below 2^53, hence a fixed point of `fl64`: there the rounded model IS the exact model
(`bin_interval_transfer` / `pt2idx_tile_transfer` with their hypotheses discharged), so every footprint theorem of
`Props/C14.lean` holds verbatim for the binary64 model.
-/
import OdcGeo.Lemmas.C14Fl
import OdcGeo.Props.C14

namespace OdcGeo.C14

/-- binary64 represents every integer of magnitude below 2^53 exactly, and rounding commutes with negation -/
theorem fl64_exact_on_integers (z : Int) (hz : z.natAbs < 2 ^ 53) (q : Rat) :
    fl64 (z : Rat) = (z : Rat) ∧ fl64 (-q) = -fl64 q :=
  ⟨fl64_int z hz, fl64_neg q⟩

/-- integer tile size, integer origin, integer index, all below 2^26 in magnitude: the binary64 bin edges are the exact ones -/
theorem bin_interval_exact_on_integers (s o d k : Int) (hd : d = 1 ∨ d = -1)
    (hs : s.natAbs < 2 ^ 26) (ho : o.natAbs < 2 ^ 26) (hk : k.natAbs < 2 ^ 26) :
    (⟨(s : Rat), (o : Rat), d⟩ : Bin1D).lo fl64 k = (⟨(s : Rat), (o : Rat), d⟩ : Bin1D).lo id k ∧
    (⟨(s : Rat), (o : Rat), d⟩ : Bin1D).hi fl64 k = (⟨(s : Rat), (o : Rat), d⟩ : Bin1D).hi id k := by
  have hks : (k * s).natAbs < 2 ^ 52 := by
    rw [Int.natAbs_mul]
    calc k.natAbs * s.natAbs < 2 ^ 26 * 2 ^ 26 := Nat.mul_lt_mul'' hk hs
      _ = 2 ^ 52 := by norm_num
  have hd1 : d.natAbs = 1 := by rcases hd with rfl | rfl <;> rfl
  have hksd : (k * s * d).natAbs < 2 ^ 52 := by rw [Int.natAbs_mul, hd1, Nat.mul_one]; exact hks
  have h3 : (k * s * d + o).natAbs < 2 ^ 53 := by
    have := Int.natAbs_add_le (k * s * d) o
    norm_num at hksd ho ⊢; omega
  have h4 : (k * s * d + o + s).natAbs < 2 ^ 53 := by
    have := Int.natAbs_add_le (k * s * d + o) s
    have := Int.natAbs_add_le (k * s * d) o
    norm_num at hksd ho hs ⊢; omega
  apply bin_interval_transfer fl64
  · show fl64 ((k : Rat) * (s : Rat)) = (k : Rat) * (s : Rat)
    have := fl64_int (k * s) (lt_trans hks (by norm_num)); push_cast at this; exact this
  · show fl64 ((k : Rat) * (s : Rat) * (d : Rat)) = (k : Rat) * (s : Rat) * (d : Rat)
    have := fl64_int (k * s * d) (lt_trans hksd (by norm_num)); push_cast at this; exact this
  · show fl64 ((k : Rat) * (s : Rat) * (d : Rat) + (o : Rat)) = (k : Rat) * (s : Rat) * (d : Rat) + (o : Rat)
    have := fl64_int (k * s * d + o) h3; push_cast at this; exact this
  · show fl64 ((k : Rat) * (s : Rat) * (d : Rat) + (o : Rat) + (s : Rat)) = (k : Rat) * (s : Rat) * (d : Rat) + (o : Rat) + (s : Rat)
    have := fl64_int (k * s * d + o + s) h4; push_cast at this; exact this

/-- UNCONDITIONAL transfer on the integer class: for a grid whose two binnings have integer sizes and origins below 2^26, the
    binary64 model hands out, for every tile index below 2^26, exactly the tile GeoBox of the exact model — so shape, resolution,
    footprint, shared edges and disjointness (theorems of `Props/C14.lean`) hold for what the rounded model computes. -/
theorem tile_geobox_exact_on_integers (g : GridSpec) (sx ox sy oy : Int) (k : Int × Int)
    (hx : g.xbin = ⟨(sx : Rat), (ox : Rat), g.xbin.dir⟩) (hy : g.ybin = ⟨(sy : Rat), (oy : Rat), g.ybin.dir⟩)
    (hdx : g.xbin.dir = 1 ∨ g.xbin.dir = -1) (hdy : g.ybin.dir = 1 ∨ g.ybin.dir = -1)
    (b1 : sx.natAbs < 2 ^ 26) (b2 : ox.natAbs < 2 ^ 26) (b3 : sy.natAbs < 2 ^ 26) (b4 : oy.natAbs < 2 ^ 26)
    (b5 : k.1.natAbs < 2 ^ 26) (b6 : k.2.natAbs < 2 ^ 26) :
    g.tileGeobox fl64 k = g.tileGeobox id k := by
  obtain ⟨x1, x2⟩ := bin_interval_exact_on_integers sx ox g.xbin.dir k.1 hdx b1 b2 b5
  obtain ⟨y1, y2⟩ := bin_interval_exact_on_integers sy oy g.ybin.dir k.2 hdy b3 b4 b6
  rw [← hx] at x1 x2
  rw [← hy] at y1 y2
  unfold GridSpec.tileGeobox GridSpec.tileTxy
  simp only [x1, x2, y1, y2]

/-- the class is inhabited by the grids used in practice: Australian Albers 100 km tiles (4000 px × 25 m) -/
example : ∃ g, GridSpec.new fl64 4000 4000 25 (-25) 0 0 false false = .ok g ∧
    g.xbin = ⟨((100000 : Int) : Rat), ((0 : Int) : Rat), g.xbin.dir⟩ ∧ g.tileGeobox fl64 (15, -40) = g.tileGeobox id (15, -40) := by
  refine ⟨⟨4000, 4000, 25, -25, 0, 0, ⟨100000, 0, 1⟩, ⟨100000, 0, 1⟩⟩, by decide +kernel, by decide +kernel, by decide +kernel⟩

end OdcGeo.C14
