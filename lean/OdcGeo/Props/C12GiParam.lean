/-
C12 — the branches of the public `grid_intersect` whose footprints are parameters (different CRSs
with a non-empty common footprint; a non-linear base such as `GCPGeoBox`): the dispatcher hands them to
the general path with the model's own candidate ranges, so `general_deps_complete_ranges` holds for the
PUBLIC entry point.  What a non-linear base has to guarantee is only the bounding-box contract: the
pixel bounding box handed to `tiles()` meets every tile that overlaps (checked on real `GCPGeoBox`es by
the harness, oracle `gcp-extent-misses-boundary`).
-/
import OdcGeo.Props.C12Gi
namespace OdcGeo.C12
open OdcGeo OdcGeo.C17 OdcGeo.C04

/-- which argument combinations take a parameterised branch -/
def ParamBranch (dst src : TGB) (fr : Foreign) : Prop :=
  (src.crs ≠ dst.crs ∧ fr.fpEmpty = false) ∨
  (src.crs = dst.crs ∧ (dst.linear = false ∨ src.linear = false))

/-- on a parameterised branch the public entry point IS the general path with candidate ranges -/
theorem grid_intersect_param_eq (dst src : TGB) (ttol stol tol sttol : Rat) (fr : Foreign)
    (hp : ParamBranch dst src fr) :
    gridIntersect dst src ttol stol tol sttol fr =
      gridIntersectGeneralR dst.g src.g fr.fp fr.dstDisjoint fr.ext fr.srcDisjoint := by
  rcases hp with ⟨hc, he⟩ | ⟨hc, hl⟩
  · simp only [gridIntersect, check_linear_crs_differ dst src ttol stol tol sttol hc, bind, Except.bind,
      if_neg hc, he]
    rfl
  · simp only [gridIntersect, check_linear_nonlinear dst src ttol stol tol sttol hl, bind, Except.bind, if_pos hc]
    rcases hl with hl | hl
    · simp [hl]
    · cases hdl : dst.linear <;> simp [hl]

/-- **different CRSs / non-linear base, public entry point**: source tile `s` is listed for
destination tile `d` whenever `d` meets the pixel box of the (re)projected source footprint, `s` meets
the pixel box of `d`'s (re)projected extent, and shapely calls neither pair disjoint -/
theorem grid_intersect_param_complete (dst src : TGB) (hd : dst.g.WF) (hs : src.g.WF)
    (ttol stol tol sttol : Rat) (fr : Foreign) (hp : ParamBranch dst src fr) (d s : Int × Int)
    (h1 : TileMeets dst.g fr.fp d) (h2 : fr.dstDisjoint d = false)
    (h3 : TileMeets src.g (fr.ext d) s) (h4 : fr.srcDisjoint d s = false) :
    ∃ l deps, gridIntersect dst src ttol stol tol sttol fr = .ok l ∧ (d, deps) ∈ l ∧ s ∈ deps := by
  rw [grid_intersect_param_eq dst src ttol stol tol sttol fr hp]
  exact general_deps_complete_ranges dst.g src.g hd hs fr.fp fr.dstDisjoint fr.ext fr.srcDisjoint d s h1 h2 h3 h4

/-- different CRSs: either the empty graph (no common footprint) or the general path – nothing else -/
theorem grid_intersect_cross_crs_cases (dst src : TGB) (ttol stol tol sttol : Rat) (fr : Foreign)
    (hc : src.crs ≠ dst.crs) :
    gridIntersect dst src ttol stol tol sttol fr =
      if fr.fpEmpty then .ok [] else gridIntersectGeneralR dst.g src.g fr.fp fr.dstDisjoint fr.ext fr.srcDisjoint := by
  cases he : fr.fpEmpty with
  | true => rw [grid_intersect_cross_crs_apart dst src ttol stol tol sttol fr hc he]; rfl
  | false => rw [grid_intersect_param_eq dst src ttol stol tol sttol fr (Or.inl ⟨hc, he⟩)]; rfl

example : ParamBranch ⟨some 1, false, Aff.id, g20⟩ ⟨some 1, true, Aff.id, g20⟩
    ⟨false, ⟨0, 0, 1, 1⟩, fun _ => false, fun _ => ⟨0, 0, 1, 1⟩, fun _ _ => false⟩ := Or.inr ⟨rfl, Or.inl rfl⟩

end OdcGeo.C12
