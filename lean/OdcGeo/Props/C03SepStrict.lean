/-
C03 — coverage on the cross-CRS branch for STRICTLY monotone separable pixel transforms with ANY padding ≥ 0
(padding 0 included), its instance for transforms that are affine in each axis (lon/lat ↔ plate carrée /
equirectangular scalings between axis-aligned grids), and the non-partial coverage theorem from the public inputs of
`compute_reproject_roi` for separable monotone transformers.  No envelope hypothesis anywhere.
-/
import OdcGeo.Props.C03Sep
namespace OdcGeo.C03
open OdcGeo.C17

/-- strictly increasing or strictly decreasing -/
def StrictMonoOrAnti (f : Rat → Rat) : Prop := (∀ a b, a < b → f a < f b) ∨ (∀ a b, a < b → f b < f a)

theorem StrictMonoOrAnti.mono {f : Rat → Rat} (h : StrictMonoOrAnti f) : MonoOrAnti f := by
  rcases h with h | h
  · left; intro a b hab
    rcases lt_or_eq_of_le hab with hl | he
    · exact le_of_lt (h _ _ hl)
    · rw [he]
  · right; intro a b hab
    rcases lt_or_eq_of_le hab with hl | he
    · exact le_of_lt (h _ _ hl)
    · rw [he]

/-- strictly inside: strictly below one of the end values and at or above one of them -/
theorem strict_between (f : Rat → Rat) (h : StrictMonoOrAnti f) (a b u : Rat) (h1 : a < u) (h2 : u < b) :
    (f a ≤ f u ∨ f b ≤ f u) ∧ (f u < f a ∨ f u < f b) := by
  rcases h with h | h
  · exact ⟨Or.inl (le_of_lt (h _ _ h1)), Or.inr (h _ _ h2)⟩
  · exact ⟨Or.inr (le_of_lt (h _ _ h2)), Or.inl (h _ _ h1)⟩

/-- the image of a point STRICTLY inside a rectangle under a strictly monotone separable map lies strictly inside the
envelope of the images of the boundary samples grown by any `pad ≥ 0` — `pad = 0` included -/
theorem sep_inEnvStrict0 (f g : Rat → Rat) (hf : StrictMonoOrAnti f) (hg : StrictMonoOrAnti g) (rect : ROI) (p : Rat × Rat)
    (pad : Int) (hpad : 0 ≤ pad)
    (hx : (rect.2.start : Rat) < p.1 ∧ p.1 < rect.2.stop) (hy : (rect.1.start : Rat) < p.2 ∧ p.2 < rect.1.stop) :
    InEnvStrict (finitePts ((roiBoundary rect 5).map (sepTr f g))) (f p.1, g p.2) pad := by
  rw [finitePts_sepTr]
  obtain ⟨c00, c10, c11, c01⟩ := corners_mem_roiBoundary_five rect
  obtain ⟨lx, ux⟩ := strict_between f hf _ _ p.1 hx.1 hx.2
  obtain ⟨ly, uy⟩ := strict_between g hg _ _ p.2 hy.1 hy.2
  have hp : (0 : Rat) ≤ pad := by exact_mod_cast hpad
  refine ⟨?_, ?_, ?_, ?_⟩
  · rcases lx with h | h
    · exact ⟨_, List.mem_map.mpr ⟨_, c00, rfl⟩, by simp only; linarith⟩
    · exact ⟨_, List.mem_map.mpr ⟨_, c10, rfl⟩, by simp only; linarith⟩
  · rcases ux with h | h
    · exact ⟨_, List.mem_map.mpr ⟨_, c00, rfl⟩, by simp only; linarith⟩
    · exact ⟨_, List.mem_map.mpr ⟨_, c10, rfl⟩, by simp only; linarith⟩
  · rcases ly with h | h
    · exact ⟨_, List.mem_map.mpr ⟨_, c00, rfl⟩, by simp only; linarith⟩
    · exact ⟨_, List.mem_map.mpr ⟨_, c01, rfl⟩, by simp only; linarith⟩
  · rcases uy with h | h
    · exact ⟨_, List.mem_map.mpr ⟨_, c00, rfl⟩, by simp only; linarith⟩
    · exact ⟨_, List.mem_map.mpr ⟨_, c01, rfl⟩, by simp only; linarith⟩

/-- **Coverage for strictly monotone separable pixel transforms — FULL statement, any padding ≥ 0.**
`back = (x, y) ↦ (f x, g y)` strictly increasing or decreasing in each axis, `fwd = (x, y) ↦ (f' x, g' y)` monotone and
undoing `back`: with `padding = 0` (and any larger one), any alignment, every destination pixel whose centre maps inside
the source lies in `roi_dst`, and the source pixel it maps to lies in `roi_src`. -/
theorem separable_strict_covers (src dst : Shape) (f g f' g' : Rat → Rat)
    (hf : StrictMonoOrAnti f) (hg : StrictMonoOrAnti g) (hf' : MonoOrAnti f') (hg' : MonoOrAnti g')
    (hinvx : ∀ x, f' (f x) = x) (hinvy : ∀ y, g' (g y) = y)
    (pad : Int) (hpad : 0 ≤ pad) (al : Option Int) (hal : ∀ a, al = some a → 0 < a)
    (dy dx : Int) (hdy : 0 ≤ dy ∧ dy < dst.1) (hdx : 0 ≤ dx ∧ dx < dst.2)
    (hqx : 0 ≤ f ((dx : Rat) + 1 / 2) ∧ f ((dx : Rat) + 1 / 2) < src.2)
    (hqy : 0 ≤ g ((dy : Rat) + 1 / 2) ∧ g ((dy : Rat) + 1 / 2) < src.1) :
    let r := relativeRois src dst (sepTr f g) (sepTr f' g') 5 pad al
    (r.2.1.start ≤ dy ∧ dy < r.2.1.stop) ∧ (r.2.2.start ≤ dx ∧ dx < r.2.2.stop) ∧
    (r.1.2.start ≤ (f ((dx : Rat) + 1 / 2)).floor ∧ (f ((dx : Rat) + 1 / 2)).floor < r.1.2.stop) ∧
    (r.1.1.start ≤ (g ((dy : Rat) + 1 / 2)).floor ∧ (g ((dy : Rat) + 1 / 2)).floor < r.1.1.stop) := by
  have hdxq : (0 : Rat) ≤ dx ∧ (dx : Rat) + 1 ≤ dst.2 := ⟨by exact_mod_cast hdx.1, by exact_mod_cast hdx.2⟩
  have hdyq : (0 : Rat) ≤ dy ∧ (dy : Rat) + 1 ≤ dst.1 := ⟨by exact_mod_cast hdy.1, by exact_mod_cast hdy.2⟩
  have henvS : InEnvStrict (finitePts (srcSamples dst (sepTr f g) 5))
      (f ((dx : Rat) + 1 / 2), g ((dy : Rat) + 1 / 2)) pad := by
    have := sep_inEnvStrict0 f g hf hg (⟨0, dst.1⟩, ⟨0, dst.2⟩) ((dx : Rat) + 1 / 2, (dy : Rat) + 1 / 2) pad hpad
      ⟨by simp only; push_cast; linarith, by simp only; linarith⟩ ⟨by simp only; push_cast; linarith, by simp only; linarith⟩
    exact this
  have hs := relativeRois_src src dst (sepTr f g) (sepTr f' g') 5 pad al
    (f ((dx : Rat) + 1 / 2), g ((dy : Rat) + 1 / 2)) henvS hqx hqy hal
  obtain ⟨_, _, m1, m2⟩ := hs
  have bnd : ∀ (q : Rat) (lo hi : Int), lo ≤ q.floor → q.floor < hi → (lo : Rat) ≤ q ∧ q ≤ hi := by
    intro q lo hi h1 h2
    have f1 := Rat.floor_le q
    have f2 : q < (q.floor : Rat) + 1 := by
      have := Rat.lt_floor_add_one q; push_cast at this; exact this
    have a1 : (lo : Rat) ≤ (q.floor : Rat) := by exact_mod_cast h1
    have a2 : (q.floor : Rat) + 1 ≤ (hi : Rat) := by exact_mod_cast h2
    constructor <;> linarith
  have henvD : InEnvClosed (finitePts (dstSamples (relativeRois src dst (sepTr f g) (sepTr f' g') 5 pad al).1 (sepTr f' g') 5))
      ((dx : Rat) + 1 / 2, (dy : Rat) + 1 / 2) := by
    have := sep_inEnvClosed f' g' hf' hg' (relativeRois src dst (sepTr f g) (sepTr f' g') 5 pad al).1
      (f ((dx : Rat) + 1 / 2), g ((dy : Rat) + 1 / 2)) (bnd _ _ _ m1.1 m1.2) (bnd _ _ _ m2.1 m2.2)
    simp only [hinvx, hinvy] at this
    exact this
  exact nonlinear_covers_partial src dst (sepTr f g) (sepTr f' g') 5 pad al hal dy dx hdy hdx
    (f ((dx : Rat) + 1 / 2), g ((dy : Rat) + 1 / 2)) hqx hqy henvS henvD

/-! ### affine in each axis -/

theorem strict_affine (a c : Rat) (ha : a ≠ 0) : StrictMonoOrAnti (fun x => a * x + c) := by
  rcases lt_or_gt_of_ne ha with h | h
  · exact Or.inr fun x y hxy => by nlinarith
  · exact Or.inl fun x y hxy => by nlinarith

/-- **Axis-wise affine pixel transforms** — lon/lat ↔ plate carrée / equirectangular scalings between axis-aligned
grids, mirrored axes included: `back = (a x + c, e y + k)` with `a, e ≠ 0`, `fwd` its inverse.  Coverage holds for every
padding ≥ 0 and every alignment: no envelope hypothesis, no padding assumption. -/
theorem affine_axes_covers (src dst : Shape) (a c e k : Rat) (ha : a ≠ 0) (he : e ≠ 0)
    (pad : Int) (hpad : 0 ≤ pad) (al : Option Int) (hal : ∀ v, al = some v → 0 < v)
    (dy dx : Int) (hdy : 0 ≤ dy ∧ dy < dst.1) (hdx : 0 ≤ dx ∧ dx < dst.2)
    (hqx : 0 ≤ a * ((dx : Rat) + 1 / 2) + c ∧ a * ((dx : Rat) + 1 / 2) + c < src.2)
    (hqy : 0 ≤ e * ((dy : Rat) + 1 / 2) + k ∧ e * ((dy : Rat) + 1 / 2) + k < src.1) :
    let r := relativeRois src dst (sepTr (fun x => a * x + c) (fun y => e * y + k))
      (sepTr (fun x => (1 / a) * x + -(c / a)) (fun y => (1 / e) * y + -(k / e))) 5 pad al
    (r.2.1.start ≤ dy ∧ dy < r.2.1.stop) ∧ (r.2.2.start ≤ dx ∧ dx < r.2.2.stop) ∧
    (r.1.2.start ≤ (a * ((dx : Rat) + 1 / 2) + c).floor ∧ (a * ((dx : Rat) + 1 / 2) + c).floor < r.1.2.stop) ∧
    (r.1.1.start ≤ (e * ((dy : Rat) + 1 / 2) + k).floor ∧ (e * ((dy : Rat) + 1 / 2) + k).floor < r.1.1.stop) :=
  separable_strict_covers src dst (fun x => a * x + c) (fun y => e * y + k) (fun x => (1 / a) * x + -(c / a))
    (fun y => (1 / e) * y + -(k / e)) (strict_affine a c ha) (strict_affine e k he) (monoOrAnti_affine _ _) (monoOrAnti_affine _ _)
    (fun x => by field_simp; ring) (fun y => by field_simp; ring) pad hpad al hal dy dx hdy hdx hqx hqy

/-! ### from the public inputs: axis-aligned grids under a separable monotone transformer -/

/-- a separable CRS transformer `(x, y) ↦ (u x, v y)` -/
def sepProj (u v : Rat → Rat) : Proj := fun w => (.fin (u w.1), .fin (v w.2))

/-- the column map of `GbxPointTransform` for axis-aligned grids: pixel → world (`P`), lon clamp if geographic,
transformer, world → pixel (`Qi`) -/
def gbxAxisX (P Qi : Aff) (geo : Bool) (u : Rat → Rat) : Rat → Rat := fun x =>
  Qi.a * u (if geo = true then npClip (P.a * x + P.c) (-180) 180 else P.a * x + P.c) + Qi.c

/-- the row map -/
def gbxAxisY (P Qi : Aff) (geo : Bool) (v : Rat → Rat) : Rat → Rat := fun y =>
  Qi.e * v (if geo = true then npClip (P.e * y + P.f) (-90) 90 else P.e * y + P.f) + Qi.f

theorem gbx_axes (P Qi : Aff) (geo : Bool) (u v : Rat → Rat) (hP : P.b = 0 ∧ P.d = 0) (hQ : Qi.b = 0 ∧ Qi.d = 0) :
    gbxApply P geo (sepProj u v) Qi = sepTr (gbxAxisX P Qi geo u) (gbxAxisY P Qi geo v) := by
  funext p
  cases geo <;>
    simp [gbxApply, sepProj, sepTr, gbxAxisX, gbxAxisY, Aff.apply, clampGeo, hP.1, hP.2, hQ.1, hQ.2]

theorem gbxAxisX_mono (P Qi : Aff) (geo : Bool) (u : Rat → Rat) (hu : MonoOrAnti u) : MonoOrAnti (gbxAxisX P Qi geo u) := by
  cases geo with
  | false =>
    exact monoOrAnti_comp (fun t => Qi.a * t + Qi.c) _ (monoOrAnti_affine _ _)
      (monoOrAnti_comp u (fun x => P.a * x + P.c) hu (monoOrAnti_affine _ _))
  | true =>
    exact monoOrAnti_comp (fun t => Qi.a * t + Qi.c) _ (monoOrAnti_affine _ _)
      (monoOrAnti_comp u _ hu (monoOrAnti_comp (fun t => npClip t (-180) 180) (fun x => P.a * x + P.c) (monoOrAnti_clip _ _)
        (monoOrAnti_affine _ _)))

theorem gbxAxisY_mono (P Qi : Aff) (geo : Bool) (v : Rat → Rat) (hv : MonoOrAnti v) : MonoOrAnti (gbxAxisY P Qi geo v) := by
  cases geo with
  | false =>
    exact monoOrAnti_comp (fun t => Qi.e * t + Qi.f) _ (monoOrAnti_affine _ _)
      (monoOrAnti_comp v (fun y => P.e * y + P.f) hv (monoOrAnti_affine _ _))
  | true =>
    exact monoOrAnti_comp (fun t => Qi.e * t + Qi.f) _ (monoOrAnti_affine _ _)
      (monoOrAnti_comp v _ hv (monoOrAnti_comp (fun t => npClip t (-90) 90) (fun y => P.e * y + P.f) (monoOrAnti_clip _ _)
        (monoOrAnti_affine _ _)))

theorem inv_axis_aligned (A : Aff) (h : A.b = 0 ∧ A.d = 0) : A.inv.b = 0 ∧ A.inv.d = 0 := by
  simp [Aff.inv, h.1, h.2]

/-- the regions of a successful cross-CRS plan are `_relative_rois` of the two pixel transforms the code builds -/
theorem top_gbx_rois (src dst : Side) (crsEq : Bool) (projF projB : Proj) (n : Rat)
    (scaleAt : Rat × Rat → Rat × Rat) (ttol stol : Rat) (padding align : Option Int) (p : Plan)
    (hc : ¬ (src.isGeoBox = true ∧ dst.isGeoBox = true ∧ crsEq = true)) (hD : dst.aff.det ≠ 0)
    (h : computeReprojectRoi src dst crsEq projF projB n scaleAt ttol stol padding align = .ok p) :
    (p.roiSrc, p.roiDst) = relativeRois src.shape dst.shape (gbxApply dst.aff dst.geographic projB src.aff.inv)
      (gbxApply src.aff src.geographic projF dst.aff.inv) 5 (padOr1 padding) (normAlign align) := by
  unfold computeReprojectRoi at h
  rw [(native_dispatch src dst crsEq projF projB).2 hc] at h
  have hDi : dst.aff.inv? = .ok dst.aff.inv := by unfold Aff.inv?; rw [if_neg hD]
  simp only [planWith, gbxTr, hDi] at h
  split at h
  · simp at h
  · rename_i back hb
    have hback : back = gbxApply dst.aff dst.geographic projB src.aff.inv := by
      unfold Aff.inv? at hb
      split_ifs at hb
      simp only [Except.ok.injEq] at hb
      exact hb.symm
    subst hback
    exact (nonlinear_plan _ _ _ _ _ _ _ _ h).2.2

/-- **Coverage on the generic (cross-CRS) branch from the public inputs — NOT partial.**  Two axis-aligned grids, a
separable monotone pair of CRS transformers (`(lon, lat) ↦ (u lon, v lat)`: lon/lat ↔ Mercator, cylindrical equal
area, plate carrée), lon/lat clamps included, the two column maps and the two row maps undoing each other; default
padding (or any `padding ≥ 1`), any alignment.  Every destination pixel whose centre maps inside the source lies in
`roi_dst`, the source pixel it maps to lies in `roi_src`.  No envelope hypothesis. -/
theorem top_gbx_covers (src dst : Side) (crsEq : Bool) (uF vF uB vB : Rat → Rat) (n : Rat)
    (scaleAt : Rat × Rat → Rat × Rat) (ttol stol : Rat) (padding align : Option Int) (p : Plan)
    (hc : ¬ (src.isGeoBox = true ∧ dst.isGeoBox = true ∧ crsEq = true)) (hD : dst.aff.det ≠ 0)
    (hsa : src.aff.b = 0 ∧ src.aff.d = 0) (hda : dst.aff.b = 0 ∧ dst.aff.d = 0)
    (huF : MonoOrAnti uF) (hvF : MonoOrAnti vF) (huB : MonoOrAnti uB) (hvB : MonoOrAnti vB)
    (h : computeReprojectRoi src dst crsEq (sepProj uF vF) (sepProj uB vB) n scaleAt ttol stol padding align = .ok p)
    (hpad : ∀ k, padding = some k → 1 ≤ k) (hal : ∀ a, align = some a → 0 ≤ a)
    (hinvx : ∀ x, gbxAxisX src.aff dst.aff.inv src.geographic uF (gbxAxisX dst.aff src.aff.inv dst.geographic uB x) = x)
    (hinvy : ∀ y, gbxAxisY src.aff dst.aff.inv src.geographic vF (gbxAxisY dst.aff src.aff.inv dst.geographic vB y) = y)
    (dy dx : Int) (hdy : 0 ≤ dy ∧ dy < dst.shape.1) (hdx : 0 ≤ dx ∧ dx < dst.shape.2)
    (hqx : 0 ≤ gbxAxisX dst.aff src.aff.inv dst.geographic uB ((dx : Rat) + 1 / 2) ∧
           gbxAxisX dst.aff src.aff.inv dst.geographic uB ((dx : Rat) + 1 / 2) < src.shape.2)
    (hqy : 0 ≤ gbxAxisY dst.aff src.aff.inv dst.geographic vB ((dy : Rat) + 1 / 2) ∧
           gbxAxisY dst.aff src.aff.inv dst.geographic vB ((dy : Rat) + 1 / 2) < src.shape.1) :
    (p.roiDst.1.start ≤ dy ∧ dy < p.roiDst.1.stop) ∧ (p.roiDst.2.start ≤ dx ∧ dx < p.roiDst.2.stop) ∧
    (p.roiSrc.2.start ≤ (gbxAxisX dst.aff src.aff.inv dst.geographic uB ((dx : Rat) + 1 / 2)).floor ∧
      (gbxAxisX dst.aff src.aff.inv dst.geographic uB ((dx : Rat) + 1 / 2)).floor < p.roiSrc.2.stop) ∧
    (p.roiSrc.1.start ≤ (gbxAxisY dst.aff src.aff.inv dst.geographic vB ((dy : Rat) + 1 / 2)).floor ∧
      (gbxAxisY dst.aff src.aff.inv dst.geographic vB ((dy : Rat) + 1 / 2)).floor < p.roiSrc.1.stop) := by
  have hr := top_gbx_rois src dst crsEq _ _ n scaleAt ttol stol padding align p hc hD h
  rw [gbx_axes dst.aff src.aff.inv dst.geographic uB vB hda (inv_axis_aligned _ hsa),
      gbx_axes src.aff dst.aff.inv src.geographic uF vF hsa (inv_axis_aligned _ hda)] at hr
  have hpad' : 1 ≤ padOr1 padding := by
    cases padding with
    | none => simp [padOr1]
    | some k => exact hpad k rfl
  have hal' : ∀ a, normAlign align = some a → 0 < a := by
    intro a ha
    unfold normAlign at ha
    split_ifs at ha with c
    have := hal a ha
    rcases lt_or_eq_of_le this with h' | h'
    · exact h'
    · exact absurd (by rw [ha, ← h']) c
  have c := separable_monotone_covers src.shape dst.shape _ _ _ _
    (gbxAxisX_mono dst.aff src.aff.inv dst.geographic uB huB) (gbxAxisY_mono dst.aff src.aff.inv dst.geographic vB hvB)
    (gbxAxisX_mono src.aff dst.aff.inv src.geographic uF huF) (gbxAxisY_mono src.aff dst.aff.inv src.geographic vF hvF)
    hinvx hinvy (padOr1 padding) hpad' (normAlign align) hal' dy dx hdy hdx hqx hqy
  rw [← hr] at c
  exact c

/-! ### non-vacuity -/

-- strictly monotone pair with padding 0: x ↦ 2x + 3 and y ↦ 40 - y/2
example : StrictMonoOrAnti (fun x : Rat => 2 * x + 3) ∧ StrictMonoOrAnti (fun y : Rat => -(1 / 2) * y + 40) :=
  ⟨strict_affine _ _ (by norm_num), strict_affine _ _ (by norm_num)⟩
example : relativeRois (60, 50) (20, 10) (sepTr (fun x => 2 * x + 3) (fun y => -(1 / 2) * y + 40))
    (sepTr (fun x => (1 / 2) * x + -(3 / 2)) (fun y => (1 / (-(1 / 2))) * y + -(40 / (-(1 / 2))))) 5 0 none =
    ((⟨30, 40⟩, ⟨3, 23⟩), (⟨0, 20⟩, ⟨0, 10⟩)) := by decide +kernel
-- `top_gbx_covers`: a lon/lat source (geographic, clamp present but inactive) against a plate-carrée grid of twice the unit
example : (computeReprojectRoi ⟨true, (40, 60), ⟨1, 0, 10, 0, -1, 50⟩, true⟩ ⟨true, (20, 30), ⟨4, 0, 40, 0, -4, 90⟩, false⟩ false
    (sepProj (fun x => 2 * x) (fun y => 2 * y)) (sepProj (fun x => x / 2) (fun y => y / 2)) 1 (fun _ => (2, 2))
    (1 / 20) tol1em3 none none).toOption.map (fun p => (p.roiSrc, p.roiDst, p.pasteOk, p.readShrink)) =
    some ((⟨4, 40⟩, ⟨9, 60⟩), (⟨0, 18⟩, ⟨0, 25⟩), false, 2) := by decide +kernel

end OdcGeo.C03
