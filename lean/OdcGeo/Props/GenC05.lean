/-
C05 — source tie.  `OdcGeo/Gen/C05.lean` is regenerated from `/repo/odc/geo/{math.py,cog/_shared.py}` by
`tools/py2lean.py` on every run of `check.py C05`; the theorems `tie_*` prove each regenerated definition equal to the
hand model of `OdcGeo/Model/C05.lean` for ALL inputs in the model's domain.

The model works on `Nat` (block sizes and image sizes are non-negative Python ints), the regenerated definitions on
`Int` with Python's floor `//` and `%` and `ZeroDivisionError`; the ties are stated for the casts of naturals.
`num_overviews` is a `while` loop: the regenerated definition recurses on `dim + 1` units of fuel, and the tie shows
the fuel is never exhausted (`gen_loop0_spec`).

The theorems live in OdcGeo/Props/GenC05/*.lean, one compilation unit per tied function or small group; this file only
imports them all (`lake build OdcGeo.Props.GenC05`).
-/
import OdcGeo.Props.GenC05.AlignDown
import OdcGeo.Props.GenC05.AlignUp
import OdcGeo.Props.GenC05.AdjustBlocksize
import OdcGeo.Props.GenC05.NormBlocksize
import OdcGeo.Props.GenC05.NumOverviews
import OdcGeo.Props.GenC05.CogMeta
import OdcGeo.Props.GenC05.ComputeCogSpec
