/-
C05 — source tie.  `OdcGeo/Gen/C05.lean` is regenerated from `/repo/odc/geo/{math.py,cog/_shared.py}` by
`tools/py2lean.py` on every run of `check.py C05`; the theorems `tie_*` prove each regenerated definition equal to the
hand model of `OdcGeo/Model/C05.lean` for ALL inputs in the model's domain.

The model works on `Nat` (block sizes and image sizes are non-negative Python ints), the regenerated definitions on
`Int` with Python's floor `//` and `%` and `ZeroDivisionError`; the ties are stated for the casts of naturals.
`num_overviews` is a `while` loop: the regenerated definition recurses on `dim + 1` units of fuel, and the tie shows
the fuel is never exhausted (`gen_loop0_spec`).
-/
import OdcGeo.Gen.C05
import OdcGeo.Gen.Tie
import OdcGeo.Lemmas.GenC05
import OdcGeo.Props.C05

namespace OdcGeo.C05
open OdcGeo.Gen

/-! ## ties -/

/-- `math.align_down` on naturals, positive alignment -/
theorem tie_align_down (x a : Nat) (h : 0 < a) :
    Gen.C05.align_down x a = .ok ((alignDown x a : Nat) : Int) := by
  have h0 : (a : Int) ≠ 0 := by omega
  have hp : (0 : Int) < a := by omega
  have hle := Nat.mod_le x a
  simp only [Gen.C05.align_down, alignDown, if_neg h0, Py.fmod_pos _ hp]
  first
    | (congr 1; push_cast [Nat.cast_sub hle]; first | rfl | ring1 | omega)
    | tie_fin

/-- `math.align_up` on naturals, positive alignment -/
theorem tie_align_up (x a : Nat) (h : 0 < a) :
    Gen.C05.align_up x a = .ok ((alignUp x a : Nat) : Int) := by
  have e : ∀ y : Int, y = ((x + (a - 1) : Nat) : Int) →
      Gen.C05.align_down y a = .ok ((alignDown (x + (a - 1)) a : Nat) : Int) := by
    intro y hy; rw [hy]; exact tie_align_down _ _ h
  simp only [Gen.C05.align_up, alignUp]
  first
    | (rw [e _ (by omega)])
    | (simp only [e _ (by omega)])
    | tie_fin

/-- `_shared.adjust_blocksize(block, dim)` -/
theorem tie_adjust_blocksize (block dim : Nat) :
    Gen.C05.adjust_blocksize block dim = .ok ((adjustBlocksize block dim : Nat) : Int) := by
  have h16 : ∀ x : Nat, Gen.C05.align_up x 16 = .ok ((alignUp x 16 : Nat) : Int) := by
    intro x; have := tie_align_up x 16 (by omega); simpa using this
  simp only [Gen.C05.adjust_blocksize, adjustBlocksize, h16]
  repeat' split
  all_goals first | rfl | (exfalso; omega) | tie_fin

/-- `_shared.norm_blocksize`: an int, or a pair read as (y, x) -/
theorem tie_norm_blocksize (blk : Blk) :
    Gen.C05.norm_blocksize blk.toPy = .ok (((normBlocksize blk).y : Int), ((normBlocksize blk).x : Int)) := by
  have h := fun x => tie_adjust_blocksize x 0
  simp only [Nat.cast_zero] at h
  cases blk <;> simp only [Blk.toPy, Gen.C05.norm_blocksize, normBlocksize, h]

/-- `_shared.num_overviews`: the `while` loop terminates within `dim + 1` iterations and counts the model's value -/
theorem tie_num_overviews (block dim : Nat) :
    Gen.C05.num_overviews block dim = .ok ((numOverviews block dim : Nat) : Int) := by
  obtain ⟨d', h⟩ := gen_loop0_spec (dim + 1) block 0 dim block 0 dim rfl rfl rfl (by omega)
  have hf : numOverviewsFuel (dim + 1) block dim = numOverviews block dim :=
    num_overviews_fuel_irrelevant (dim + 1) block dim (by omega)
  have e : ((dim : Int)).toNat + 1 = dim + 1 := by omega
  simp only [Gen.C05.num_overviews, e]
  first
    | (simp only [Nat.cast_zero] at h; rw [h]; simp [hf])
    | (rw [h]; simp [hf])

/-! ## headline theorems transferred -/

/-- `num_overviews_spec` for the source `num_overviews`: the result is the least number of halvings of `dim`
that brings it to at most `block` -/
theorem gen_num_overviews_spec (block dim : Nat) :
    ∃ n : Nat, Gen.C05.num_overviews block dim = .ok (n : Int) ∧ LeastHalvings block dim n :=
  ⟨_, tie_num_overviews block dim, num_overviews_spec block dim⟩

end OdcGeo.C05
