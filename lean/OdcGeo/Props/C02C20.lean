/-
C02 ∘ C20: a GCP geobox whose control points are *exactly* affinely related.

`GCPMapping.approx` is `affine_from_pts(pix, wld)` (C20 model, `Props/C20.affine_from_pts_exact`);
`GCPGeoBox.approx`, `.resolution` and every view operation sit on top of it (C02 model).  Composed: from the
control points as given to the pixel-to-world mapping, the resolution and the view contracts of the best-fit
linear geobox, with the only hypothesis left being C20's contract on the least-squares back-end (it returns *a*
minimiser).
-/
import OdcGeo.Props.C02Glue
import OdcGeo.Props.C20

namespace OdcGeo.C02

/-- If the control points satisfy `wld = B(pix)` exactly and three of them are not collinear, then for **every
view** `g` of the GCP geobox (any pixel-side affine produced by crop / pad / zoom / centre pixel) the best-fit
linear geobox `approx` is the geobox with affine `B ∘ A`: it maps pixel `p` to `B(A p)`, agrees with the GCP
geobox itself wherever the fitted pixel-to-world function `P` reproduces `B`, and has the resolution of `B ∘ A`. -/
theorem gcp_approx_of_exact_gcps (lstsq : List (Rat × Rat) → List (Rat × Rat) → Option Aff)
    (X Y : List (Rat × Rat)) (B M : Aff)
    (hsolver : ∀ M0, lstsq X Y = some M0 → ∀ M' : Aff, C20.sqResidual M0 (X.zip Y) ≤ C20.sqResidual M' (X.zip Y))
    (hexact : ∀ q ∈ X.zip Y, B.apply q.1 = q.2)
    (p q r : (Rat × Rat) × (Rat × Rat)) (hp : p ∈ X.zip Y) (hq : q ∈ X.zip Y) (hr : r ∈ X.zip Y)
    (hnc : (q.1.1 - p.1.1) * (r.1.2 - p.1.2) - (q.1.2 - p.1.2) * (r.1.1 - p.1.1) ≠ 0)
    (h : C20.affineFromPts lstsq X Y = .ok M) (g : GeoBox) :
    gcpApprox M g = mulWld B g ∧
    (∀ x : Pt, pix2wld (gcpApprox M g) x = B.apply (g.A.apply x)) ∧
    (∀ P : Pt → Pt, (∀ x, P x = B.apply x) → ∀ x, gcpPix2wld P g x = pix2wld (gcpApprox M g) x) ∧
    (∀ n m, gcpResolution M g n m = resolution (mulWld B g) n m) ∧
    (gcpApprox M g).crs = g.crs ∧ (gcpApprox M g).ny = g.ny ∧ (gcpApprox M g).nx = g.nx := by
  have hM : M = B := C20.affine_from_pts_exact lstsq X Y B M hsolver hexact p q r hp hq hr hnc h
  subst hM
  refine ⟨rfl, ?_, ?_, fun _ _ => rfl, rfl, rfl, rfl⟩
  · intro x; simp [gcpApprox, mulWld, pix2wld, Aff.apply_mul]
  · intro P hP x
    simp [gcpPix2wld, hP, gcpApprox, mulWld, pix2wld, Aff.apply_mul]

/-- … and the view operations commute with taking the best-fit geobox: `approx` of a cropped / padded / zoomed
GCP view is the same crop / pad / zoom of `approx` (so every contract of `Props/C02.lean` holds for it). -/
theorem gcp_approx_commutes_with_views (B : Aff) (g : GeoBox) :
    (∀ sy sx, gcpApprox B (crop g (.two sy sx)) = crop (gcpApprox B g) (.two sy sx)) ∧
    (∀ px py, gcpApprox B (pad g px py) = pad (gcpApprox B g) px py) ∧
    (∀ f, (zoomOut g f).map (gcpApprox B) = zoomOut (gcpApprox B g) f) ∧
    (∀ ny nx, (zoomToShape g ny nx).map (gcpApprox B) = zoomToShape (gcpApprox B g) ny nx) ∧
    (∀ n, (zoomToNum g n).map (gcpApprox B) = zoomToNum (gcpApprox B g) n) ∧
    gcpApprox B (centerPixel g) = centerPixel (gcpApprox B g) := by
  refine ⟨?_, ?_, ?_, ?_, ?_, ?_⟩
  · intro sy sx; simp [gcpApprox, mulWld, crop, Aff.mul_assoc']
  · intro px py; simp [gcpApprox, mulWld, pad, Aff.mul_assoc']
  · intro f
    by_cases hf : f = 0 <;> simp [zoomOut, hf, gcpApprox, mulWld, Aff.mul_assoc', Except.map]
  · intro ny nx
    by_cases h0 : ny = 0 ∨ nx = 0 <;> simp [zoomToShape, h0, gcpApprox, mulWld, Aff.mul_assoc', Except.map]
  · intro n
    by_cases h1 : n = 0
    · simp [zoomToNum, h1, Except.map]
    · by_cases h2 : max g.ny g.nx = 0 <;> simp [zoomToNum, h1, h2, gcpApprox, mulWld, Aff.mul_assoc', Except.map]
  · simp [gcpApprox, mulWld, centerPixel, crop, Aff.mul_assoc']

/-- C02 ∘ C20 is not vacuous: a solver returning the exact map is a minimiser on exact data. -/
example : gcpApprox ⟨2, 0, 1, 0, 3, 1⟩ gEx = mulWld ⟨2, 0, 1, 0, 3, 1⟩ gEx := by
  let B : Aff := ⟨2, 0, 1, 0, 3, 1⟩
  let X : List (Rat × Rat) := [(0, 0), (1, 0), (0, 1)]
  let Y : List (Rat × Rat) := [(1, 1), (3, 1), (1, 4)]
  have hex : ∀ q ∈ X.zip Y, B.apply q.1 = q.2 := by decide +kernel
  have hs : ∀ M0, (fun _ _ => some B : List (Rat × Rat) → List (Rat × Rat) → Option Aff) X Y = some M0 →
      ∀ M' : Aff, C20.sqResidual M0 (X.zip Y) ≤ C20.sqResidual M' (X.zip Y) := by
    intro M0 h M'
    have : M0 = B := (Option.some.inj h).symm
    subst this
    rw [(C20.sqResidual_eq_zero_iff B _).mpr hex]
    exact C20.sqResidual_nonneg M' _
  exact (gcp_approx_of_exact_gcps (fun _ _ => some B) X Y B B hs hex ((0, 0), (1, 1)) ((1, 0), (3, 1)) ((0, 1), (1, 4))
    (by decide +kernel) (by decide +kernel) (by decide +kernel) (by decide +kernel) (by decide +kernel) gEx).1

end OdcGeo.C02
