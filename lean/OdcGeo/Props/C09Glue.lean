/-
C09 — the argument forms of the registration entry points (Model/C09Glue.lean): `wrap_xr`, `xr_zeros`,
`.odc.nodata`, the `.geobox` compatibility property.
-/
import OdcGeo.Model.C09Glue
import OdcGeo.Props.C09
import Mathlib.Tactic.Linarith

namespace OdcGeo.C09
open OdcGeo

/-- the image shape `wrap_xr` is documented for: `(time?) y x (band?)` -/
def canonShape (s : Src) (nt nb : Option Nat) : List Nat := nt.toList ++ srcShape s ++ nb.toList

/-- **wrap_xr_canonical** — with the documented argument forms (image `(time?) y x (band?)`, `time=` a list of as many
values as the leading axis, `axis` left to its default, no `nodata`) `wrap_xr` is the function `wrap` all C09
theorems are stated for. -/
theorem wrap_xr_canonical (s : Src) (nt nb : Option Nat) (cn : String) (attrs : List String) :
    wrapXr s ⟨canonShape s nt nb, nt.map .list, none, false, some cn, attrs⟩ = wrap s nt nb cn attrs := by
  cases s with
  | lin g =>
    cases nt <;> cases nb <;>
      simp [wrapXr, wrapXrCore, wrapAxis, wrapShape, wrap, canonShape, srcShape, srcDims, timeCoord, bind, Except.bind, pure,
        Except.pure] <;>
      cases xrCoords (.lin g) cn <;> simp
  | gcp g =>
    cases nt <;> cases nb <;>
      simp [wrapXr, wrapXrCore, wrapAxis, wrapShape, wrap, canonShape, srcShape, srcDims, timeCoord, bind, Except.bind, pure,
        Except.pure] <;>
      cases xrCoords (.gcp g) cn <;> simp

/-- **wrap_xr_accepts_iff** — `wrap_xr` with `axis` given or defaulted accepts an image exactly when, after the implicit
new axis of a 2-D image with a time axis, `axis ∈ {0, 1}`, at most one extra axis follows the two spatial ones,
the two axes at `axis` have the shape of the GeoBox and the `time=` value fits (xarray); whatever is accepted has
dims `(time?) y x (band?)` — so every C09 theorem stated for that dims shape applies to every accepted call. -/
theorem wrap_xr_ok_dims (s : Src) (w : WrapArgs) (a : XArr) (h : wrapXr s w = .ok a) :
    ∃ pre post, a.dims = pre ++ [(srcDims s).1, (srcDims s).2] ++ post ∧ (pre = [] ∨ pre = ["time"]) ∧
      (post = [] ∨ post = ["band"]) ∧ a.gridMapping = w.crsName ∧
      (w.nodata = true → "nodata" ∈ a.attrs) ∧ (∀ k ∈ w.attrs, k ∈ a.attrs) := by
  unfold wrapXr wrapXrCore at h
  generalize wrapAxis w = axis at h
  generalize wrapShape w = shape at h
  simp only at h
  split at h
  · cases h
  · split at h
    · cases h
    · split at h
      · cases h
      · split at h
        · cases h
        · split at h
          · cases h
          · simp only [Except.ok.injEq] at h
            subst h
            refine ⟨_, _, rfl, ?_, ?_, rfl, ?_, ?_⟩
            · split <;> simp
            · split <;> simp
            · intro hn
              simp [hn]
            · intro k hk
              simp only
              split
              · by_cases hkn : k = "nodata"
                · simp [hkn]
                · simp [hkn, hk]
              · exact hk

theorem wrap_xr_dimsShape (g : GeoBox) (w : WrapArgs) (a : XArr) (h : wrapXr (.lin g) w = .ok a) :
    ∃ pre post, DimsShape a g.crs pre post := by
  obtain ⟨pre, post, hd, hp, hq, _⟩ := wrap_xr_ok_dims (.lin g) w a h
  refine ⟨pre, post, hd, ?_⟩
  intro d hdm
  rcases List.mem_append.mp hdm with hm | hm
  · rcases hp with rfl | rfl
    · cases hm
    · left; simpa using hm
  · rcases hq with rfl | rfl
    · cases hm
    · right; simpa using hm

/-- **wrap_xr_rejects** — the three `assert`s: an `axis` outside `{0, 1}`, a rank that leaves fewer than two or more than
three axes from `axis` on, and a spatial shape different from the GeoBox's are all rejected with `AssertionError`
(nothing is silently transposed, squeezed or broadcast). -/
theorem wrap_xr_rejects (s : Src) (w : WrapArgs) :
    (∀ ax : Int, w.axis = some ax → ax ≠ 0 → ax ≠ 1 → wrapXr s w = .error .assertion) ∧
    (w.axis = some 0 → w.imShape.length ≠ 2 → w.imShape.length ≠ 3 → wrapXr s w = .error .assertion) ∧
    (w.axis = some 0 → w.imShape.take 2 ≠ srcShape s → wrapXr s w = .error .assertion) := by
  refine ⟨?_, ?_, ?_⟩
  · intro ax hax h0 h1
    simp [wrapXr, wrapXrCore, wrapAxis, hax, h0, h1]
  · intro hax h2 h3
    have hsh : wrapShape w = w.imShape := by simp [wrapShape, wrapAxis, hax]
    have hax' : wrapAxis w = 0 := by simp [wrapAxis, hax]
    unfold wrapXr wrapXrCore
    rw [hsh, hax']
    split
    · rfl
    · split
      · rfl
      · rename_i hh
        exfalso
        omega
  · intro hax hs
    have hsh : wrapShape w = w.imShape := by simp [wrapShape, wrapAxis, hax]
    have hax' : wrapAxis w = 0 := by simp [wrapAxis, hax]
    unfold wrapXr wrapXrCore
    rw [hsh, hax']
    split
    · rfl
    · split
      · rfl
      · simp [hs]

/-- **xr_zeros_scalar_time_cex** — `wrap_xr` accepts a single time stamp given as a string (`time="2020-01-01"` gives a
one-element time axis) but `xr_zeros(gbox, time="2020-01-01")` does not: it sizes the array by `len(time)` — the
number of characters — and the coordinate then does not fit (`ValueError`).  Witness replayed on the real code by the
harness (`zeros … s:10`); a list of one stamp works. -/
theorem xr_zeros_scalar_time_cex :
    xrZeros (.lin ⟨3, 4, ⟨2, 0, 10, 0, -2, 20⟩, some ⟨3857, false⟩⟩) (some (.scalar (some 10))) (some "spatial_ref") false []
      = .error .valueError ∧
    (wrapXr (.lin ⟨3, 4, ⟨2, 0, 10, 0, -2, 20⟩, some ⟨3857, false⟩⟩)
        ⟨[3, 4], some (.scalar (some 10)), none, false, some "spatial_ref", []⟩).isOk = true ∧
    (xrZeros (.lin ⟨3, 4, ⟨2, 0, 10, 0, -2, 20⟩, some ⟨3857, false⟩⟩) (some (.list 1)) (some "spatial_ref") false []).isOk
      = true := by
  refine ⟨?_, ?_, ?_⟩ <;> decide +kernel

/-- **xr_zeros_is_wrap** — `xr_zeros(gbox, time=[t1 … tn])` (or without time) registers exactly like `wrap_xr` on an image
of the documented shape: every round-trip / history theorem applies to it. -/
theorem xr_zeros_is_wrap (s : Src) (nt : Option Nat) (cn : String) (attrs : List String) :
    xrZeros s (nt.map .list) (some cn) false attrs = wrap s nt none cn attrs := by
  cases nt with
  | none =>
    have := wrap_xr_canonical s none none cn attrs
    simpa [xrZeros, canonShape] using this
  | some n =>
    have := wrap_xr_canonical s (some n) none cn attrs
    simpa [xrZeros, canonShape, timeLen] using this

/-- **xr_zeros_fixed_scalar_time** — after the repair (branch fix3-C09) a single time stamp gives the one-step time axis
`wrap_xr` gives, for every source and CRS-coordinate name; every other form of `time=` is unchanged. -/
theorem xr_zeros_fixed_scalar_time (s : Src) (len : Option Nat) (cn : String) (attrs : List String) (t : Option TimeArg)
    (ht : ∀ l, t ≠ some (.scalar l)) :
    xrZerosFixed s (some (.scalar len)) (some cn) false attrs = wrap s (some 1) none cn attrs ∧
    xrZerosFixed s t (some cn) false attrs = xrZeros s t (some cn) false attrs := by
  constructor
  · exact xr_zeros_is_wrap s (some 1) cn attrs
  · unfold xrZerosFixed
    split
    · rename_i l
      exact absurd rfl (ht l)
    · rfl

/-- **dataset_geobox_is_first_registered** — the `.geobox` compatibility property of a Dataset returns the geobox of
the first data variable that has one, skipping unregistered variables; `None` when there is none. -/
theorem dataset_geobox_is_first_registered (pre : List (String × XArr)) (nm : String) (v : XArr) (rest : List (String × XArr))
    (r : Recovered) (hpre : ∀ u ∈ pre, recover u.2 = .ok .nothing) (hv : recover v = .ok r) (hr : r ≠ .nothing) :
    xarrayGeobox (pre ++ (nm, v) :: rest) = .ok r ∧ xarrayGeobox pre = .ok .nothing := by
  induction pre with
  | nil =>
    refine ⟨?_, rfl⟩
    cases r with
    | nothing => exact absurd rfl hr
    | lin g => simp only [List.nil_append, xarrayGeobox, hv]
    | gcp g => simp only [List.nil_append, xarrayGeobox, hv]
  | cons u us ih =>
    have hu := hpre u List.mem_cons_self
    obtain ⟨h1, h2⟩ := ih (fun x hx => hpre x (List.mem_cons_of_mem _ hx))
    obtain ⟨un, uv⟩ := u
    simp only at hu
    constructor
    · simp only [List.cons_append, xarrayGeobox, hu]
      exact h1
    · simp only [xarrayGeobox, hu]
      exact h2

/-- **nodata_attribute_precedence** — `.odc.nodata`: the `nodata` attribute wins over `_FillValue`; an attribute whose
value is `None` counts as absent; zero is a value (not "unset"). -/
theorem nodata_attribute_precedence (v w : Rat) (f : AttrNum) :
    odcNodata (.num v) f = some v ∧ odcNodata .none (.num w) = some w ∧ odcNodata .absent (.num w) = some w ∧
    odcNodata (.num 0) (.num w) = some 0 ∧ odcNodata .none .none = none ∧ odcNodata .absent .absent = none :=
  ⟨rfl, rfl, rfl, rfl, rfl, rfl⟩

/-! ### recovery without axis labels, CRS in attributes, `grid_mapping` attribute -/

/-- **dropped_coords_geotransform** — when the labels of a spatial axis are gone (`drop_vars`, or a loader that writes
none) the accessor falls back to the `GeoTransform` stored on the CRS coordinate: after any history the recovered box
has the shape of the array, the CRS of the original and the **original** transform `g.A` — exact for every GeoBox
(rotated and sheared included) as long as the history did not move the origin or the stride
(`dropped_coords_roundtrip`), stale otherwise (`dropped_coords_stale_cex`); without labels nothing better is
available. -/
theorem dropped_coords_geotransform (g : GeoBox) (c : Crs) (nt nb : Option Nat) (cn : String) (attrs : List String)
    (ops : List Op) (a0 a : XArr) (drop : List String) (hcn : NameOk cn) (hcrs : g.crs = some c)
    (hw : wrap (.lin g) nt nb cn attrs = .ok a0) (hadm : ∀ op ∈ ops, op.admissible) (hops : applyOps a0 ops = .ok a)
    (hdrop : (dimsOf g.crs).1 ∈ drop ∨ (dimsOf g.crs).2 ∈ drop) :
    let m := track (dimsOf g.crs).1 (dimsOf g.crs).2 (AxMap.ident g.ny, AxMap.ident g.nx) ops
    recoverDropped a drop = .ok (.lin ⟨m.1.len, m.2.len, g.A, some c⟩) := by
  obtain ⟨ny, nx, A, crs⟩ := g
  simp only at hcrs
  subst hcrs
  intro m
  have hI0 := inv_wrap _ nt nb cn attrs a0 hcn hw
  have hI := inv_ops _ cn hcn ops (AxMap.ident ny, AxMap.ident nx) a0 a hI0 hadm hops
  have hloc := inv_locate _ cn m.1 m.2 a hI
  unfold recoverDropped
  rw [spatialDims_of_guess _ _ hI.sd]
  have hd : (drop.contains (dimsOf (some c)).1 || drop.contains (dimsOf (some c)).2) = true := by
    rcases hdrop with h | h <;> simp only at h <;> simp [h]
  simp only [hd, if_true, hI.ylk, hI.xlk, hloc]
  simp [recoverNoCoords, ccOf, coordLen, labelsFor, ap, m]

/-- no history: dropping the labels right after `wrap_xr` gives back the original GeoBox — rotated ones included -/
theorem dropped_coords_roundtrip (g : GeoBox) (c : Crs) (nt nb : Option Nat) (cn : String) (attrs : List String)
    (a0 : XArr) (drop : List String) (hcn : NameOk cn) (hcrs : g.crs = some c)
    (hw : wrap (.lin g) nt nb cn attrs = .ok a0)
    (hdrop : (dimsOf g.crs).1 ∈ drop ∨ (dimsOf g.crs).2 ∈ drop) :
    recoverDropped a0 drop = .ok (.lin g) := by
  have := dropped_coords_geotransform g c nt nb cn attrs [] a0 a0 drop hcn hcrs hw (by simp) rfl hdrop
  simp only [track, List.foldl_nil, AxMap.ident] at this
  rw [this]
  obtain ⟨ny, nx, A, crs⟩ := g
  simp only at hcrs
  subst hcrs
  rfl

/-- **dropped_coords_stale_cex** — the `GeoTransform` is written once and not updated by slicing: after `[1:, 2:]` an
array whose labels were dropped is located at the origin of the *unsliced* grid (the labelled array is right:
theorem `survives`).  Replayed on the real code by the harness (`rtdrop` with a history). -/
theorem dropped_coords_stale_cex :
    ((wrap (.lin ⟨4, 5, ⟨2, 0, 10, 0, -2, 20⟩, some ⟨3857, false⟩⟩) none none "spatial_ref" []).bind
        (fun a => applyOps a [.isel "y" (.slc (some 1) none none), .isel "x" (.slc (some 2) none none)])).bind
        (fun a => recoverDropped a ["y", "x"])
      = .ok (.lin ⟨3, 3, ⟨2, 0, 10, 0, -2, 20⟩, some ⟨3857, false⟩⟩) ∧
    ((wrap (.lin ⟨4, 5, ⟨2, 0, 10, 0, -2, 20⟩, some ⟨3857, false⟩⟩) none none "spatial_ref" []).bind
        (fun a => applyOps a [.isel "y" (.slc (some 1) none none), .isel "x" (.slc (some 2) none none)])).bind recover
      = .ok (.lin ⟨3, 3, ⟨2, 0, 14, 0, -2, 18⟩, some ⟨3857, false⟩⟩) := by
  constructor <;> decide +kernel

/-- **grid_mapping_encoding_first** — the CRS coordinate is named by `encoding["grid_mapping"]` when present, else by
`attrs["grid_mapping"]`, else every 0-d coordinate with a `spatial_ref` / `crs_wkt` attribute is a candidate. -/
theorem grid_mapping_encoding_first (e a : String) :
    gridMappingOf (some e) (some a) = some e ∧ gridMappingOf (some e) none = some e ∧
    gridMappingOf none (some a) = some a ∧ gridMappingOf none none = none := ⟨rfl, rfl, rfl, rfl⟩

/-- **crs_from_attrs_unique** — `_get_crs_from_attrs`: when every `crs` / `crs_wkt` attribute that can be read (array,
spatial coordinates, Dataset; strings that parse, or CRS objects) names the same CRS `c`, the result is `c` — however
many times, in whichever attribute and on whichever object it appears, and whatever unreadable values sit next to it;
with no readable value there is no CRS. -/
theorem crs_from_attrs_unique (dicts : List (CrsAttrVal × CrsAttrVal)) (c : Crs)
    (hall : ∀ d ∈ dicts, (d.1.cand = none ∨ d.1.cand = some c) ∧ (d.2.cand = none ∨ d.2.cand = some c)) :
    (crsFromAttrs dicts = [c] ∨ crsFromAttrs dicts = []) ∧
    ((∃ d ∈ dicts, d.1.cand = some c ∨ d.2.cand = some c) → crsFromAttrs dicts = [c]) := by
  have hmem : ∀ x ∈ crsCandidates dicts, x = c := by
    intro x hx
    simp only [crsCandidates, List.mem_filterMap, List.mem_flatMap, id] at hx
    obtain ⟨o, ⟨d, hd, ho⟩, hox⟩ := hx
    obtain ⟨h1, h2⟩ := hall d hd
    simp only [List.mem_cons, List.not_mem_nil, or_false] at ho
    rcases ho with rfl | rfl
    · rcases h1 with h | h <;> rw [h] at hox <;> simp at hox
      exact hox.symm
    · rcases h2 with h | h <;> rw [h] at hox <;> simp at hox
      exact hox.symm
  have hrep : ∀ l : List Crs, (∀ x ∈ l, x = c) → l.eraseDups = [c] ∨ l.eraseDups = [] := by
    intro l hl
    cases l with
    | nil => right; simp
    | cons x xs =>
      left
      have hx : x = c := hl x List.mem_cons_self
      subst hx
      rw [List.eraseDups_cons]
      have : xs.filter (fun b => !b == x) = [] := by
        rw [List.filter_eq_nil_iff]
        intro y hy
        have := hl y (List.mem_cons_of_mem _ hy)
        simp [this]
      rw [this]
      simp
  refine ⟨hrep _ hmem, ?_⟩
  rintro ⟨d, hd, hdc⟩
  rcases hrep _ hmem with h | h
  · exact h
  · exfalso
    have hin : c ∈ crsCandidates dicts := by
      simp only [crsCandidates, List.mem_filterMap, List.mem_flatMap, id]
      rcases hdc with h' | h'
      · exact ⟨some c, ⟨d, hd, by simp [h']⟩, rfl⟩
      · exact ⟨some c, ⟨d, hd, by simp [h']⟩, rfl⟩
    have : c ∈ (crsCandidates dicts).eraseDups := List.mem_eraseDups.mpr hin
    rw [h] at this
    cases this

/-- non-vacuity of `crs_from_attrs_unique` and the several-candidates case (a set: arbitrary pick, warned about) -/
example :
    crsFromAttrs [(.str none, .obj ⟨3857, false⟩), (.absent, .str (some ⟨3857, false⟩)), (.other, .absent)] = [⟨3857, false⟩] ∧
    crsFromAttrs [(.str (some ⟨4326, true⟩), .obj ⟨3857, false⟩)] = [⟨4326, true⟩, ⟨3857, false⟩] := by
  constructor <;> decide +kernel

end OdcGeo.C09
