/-
C06 — glue around the modelled core (`Model/C06Ops.lean`): return values and keyword forms of `flush`, what a merge
task leaves in its inputs (re-execution), `__dask_tokenize__`.
-/
import OdcGeo.Model.C06Ops
import OdcGeo.Lemmas.C06

set_option linter.unusedVariables false
set_option linter.unusedSimpArgs false

namespace OdcGeo.C06
variable {α : Type}

def bytesOf (ws : List (Part α)) : Nat := (ws.map (·.data.length)).sum

/-- `flush_rhs`' return value is the number of bytes it handed to the writer, and the version with the return value
is the modelled `flushRhs` otherwise -/
theorem flushRhsRet_spec (w : Option Writer) (c : Chunk α) (extra : List α) :
    (∀ e, flushRhsRet w c extra = .error e ↔ flushRhs w c extra = .error e) ∧
    (∀ c' ws n, flushRhsRet w c extra = .ok (c', ws, n) → flushRhs w c extra = .ok (c', ws) ∧ n = bytesOf ws) := by
  have hD : ∀ (W : Writer) (d : List α),
      (∀ e, flushDataRet W c d = .error e ↔ flushData W c d = .error e) ∧
      (∀ c' ws n, flushDataRet W c d = .ok (c', ws, n) → flushData W c d = .ok (c', ws) ∧ n = bytesOf ws) := by
    intro W d
    unfold flushDataRet flushData
    by_cases h : W.minPart ≤ c.next ∧ c.next ≤ W.maxPart
    · simp only [h, and_self, not_true_eq_false, if_false]
      refine ⟨fun e => by simp, ?_⟩
      intro c' ws n hh
      simp only [Except.ok.injEq, Prod.mk.injEq] at hh
      obtain ⟨rfl, rfl, rfl⟩ := hh
      exact ⟨rfl, by simp [bytesOf]⟩
    · simp only [h, not_false_eq_true, if_true]
      exact ⟨fun e => by simp, fun c' ws n hh => by simp at hh⟩
  unfold flushRhsRet flushRhs
  cases w with
  | none =>
    by_cases hs : c.started = true
    · simp only [hs, if_true]
      exact ⟨fun e => by simp, fun c' ws n hh => by simp at hh⟩
    · simp only [hs, Bool.false_eq_true, if_false]
      refine ⟨fun e => by simp, ?_⟩
      intro c' ws n hh
      simp only [Except.ok.injEq, Prod.mk.injEq] at hh
      obtain ⟨rfl, rfl, rfl⟩ := hh
      exact ⟨rfl, by simp [bytesOf]⟩
  | some W =>
    by_cases hs : c.started = true
    · simp only [hs, if_true]
      by_cases hc : canFlush W c (c.data ++ extra).length = true
      · simp only [hc, if_true]; exact hD W _
      · simp only [hc, Bool.false_eq_true, if_false]
        exact ⟨fun e => by simp, fun c' ws n hh => by simp at hh⟩
    · simp only [hs, Bool.false_eq_true, if_false]
      by_cases hc : canFlush W c (c.data ++ extra).length = true
      · simp only [hc, if_true]; exact hD W _
      · simp only [hc, Bool.false_eq_true, if_false]
        refine ⟨fun e => by simp, ?_⟩
        intro c' ws n hh
        simp only [Except.ok.injEq, Prod.mk.injEq] at hh
        obtain ⟨rfl, rfl, rfl⟩ := hh
        exact ⟨rfl, by simp [bytesOf]⟩

/-- **`flush` with every keyword form is the `flush` the main theorem is about**: same writer calls, same parts list,
whatever `finalise` is; it fails exactly when `flush` fails; and the first component of its return value is the number
of bytes it handed to the writer. -/
theorem flushFull_spec (W : Writer) (c : Chunk α) (lp : Option Nat) (fin : Bool) :
    (∀ e, flushFull W c lp fin = .error e ↔ flush W c lp = .error e) ∧
    (∀ r, flushFull W c lp fin = .ok r →
      flush W c lp = .ok (r.writes, r.parts) ∧ r.bytesWritten = bytesOf r.writes ∧ r.finalised = fin ∧
      r.after.parts = r.parts ∧ r.after.data = [] ∧ r.after.left = []) := by
  unfold flushFull flush
  by_cases hs : c.started = true
  · simp only [hs, Bool.not_true, Bool.false_eq_true, if_false]
    by_cases hd : c.data.length = 0
    · simp only [hd, ne_eq, not_true_eq_false, if_false]
      have hd' : c.data = [] := List.length_eq_zero_iff.mp hd
      by_cases hl : c.left.length = 0
      · simp only [hl, ne_eq, not_true_eq_false, if_false]
        refine ⟨fun e => by simp, ?_⟩
        intro r hr
        simp only [Except.ok.injEq] at hr
        subst hr
        exact ⟨rfl, by simp [bytesOf], rfl, rfl, hd', List.length_eq_zero_iff.mp hl⟩
      · simp only [hl, ne_eq, not_false_eq_true, if_true]
        by_cases hm : c.left.length < W.minWrite
        · simp only [hm, if_true]
          exact ⟨fun e => by simp, fun r hr => by simp at hr⟩
        · simp only [hm, if_false]
          refine ⟨fun e => by simp, ?_⟩
          intro r hr
          simp only [Except.ok.injEq] at hr
          subst hr
          exact ⟨rfl, by simp [bytesOf], rfl, rfl, hd', rfl⟩
    · simp only [hd, ne_eq, not_false_eq_true, if_true]
      obtain ⟨hE, hO⟩ := flushRhsRet_spec (some W) { c with isFinal := true } []
      cases hr : flushRhsRet (some W) { c with isFinal := true } [] with
      | error e =>
        have := (hE e).1 hr
        simp only [this]
        exact ⟨fun e' => by simp, fun r hr => by simp at hr⟩
      | ok p =>
        obtain ⟨c1, w1, n1⟩ := p
        obtain ⟨h1, h2⟩ := hO c1 w1 n1 hr
        simp only [h1]
        -- after a flush the data section is empty
        have hdata : c1.data = [] := by
          have := h1
          unfold flushRhs at this
          simp only [Chunk.started] at hs
          simp only [Chunk.started, hs, if_true] at this
          split at this
          · unfold flushData at this
            split at this
            · simp at this
            · simp only [Except.ok.injEq, Prod.mk.injEq] at this
              rw [← this.1]
          · simp at this
        by_cases hl : c1.left.length = 0
        · simp only [hl, ne_eq, not_true_eq_false, if_false]
          refine ⟨fun e => by simp, ?_⟩
          intro r hr
          simp only [Except.ok.injEq] at hr
          subst hr
          exact ⟨rfl, h2, rfl, rfl, hdata, List.length_eq_zero_iff.mp hl⟩
        · simp only [hl, ne_eq, not_false_eq_true, if_true]
          by_cases hm : c1.left.length < W.minWrite
          · simp only [hm, if_true]
            exact ⟨fun e => by simp, fun r hr => by simp at hr⟩
          · simp only [hm, if_false]
            refine ⟨fun e => by simp, ?_⟩
            intro r hr
            simp only [Except.ok.injEq] at hr
            subst hr
            refine ⟨rfl, ?_, rfl, rfl, hdata, rfl⟩
            simp only [bytesOf, List.map_append, List.sum_append, List.map_cons, List.map_nil, List.sum_cons,
              List.sum_nil, Nat.add_zero] at h2 ⊢
            omega
  · simp only [hs, Bool.not_false, if_true]
    by_cases hl : c.left.length = 0
    · simp only [hl, ne_eq, not_true_eq_false, if_false]
      refine ⟨fun e => by simp, ?_⟩
      intro r hr
      simp only [Except.ok.injEq] at hr
      subst hr
      exact ⟨rfl, by simp [bytesOf], rfl, rfl, rfl, List.length_eq_zero_iff.mp hl⟩
    · simp only [hl, ne_eq, not_false_eq_true, if_true]
      exact ⟨fun e => by simp, fun r hr => by simp at hr⟩

/-- **`flush(finalise=False)` followed by `write.finalise(chunk.parts)`** hands `finalise` exactly the list
`flush(finalise=True)` hands it, after exactly the same writer calls. -/
theorem flush_finalise_later_same (W : Writer) (c : Chunk α) (lp : Option Nat) (r : FlushRet α)
    (h : flushFull W c lp false = .ok r) :
    ∃ r', flushFull W c lp true = .ok r' ∧ r'.writes = r.writes ∧ r'.parts = r.parts ∧ r.after.parts = r'.parts ∧
      r.finalised = false ∧ r'.finalised = true := by
  obtain ⟨_, h1⟩ := flushFull_spec W c lp false
  obtain ⟨hE, h2⟩ := flushFull_spec W c lp true
  obtain ⟨hf, _, hfin, hpa, _⟩ := h1 r h
  cases hr : flushFull W c lp true with
  | error e => rw [(hE e).1 hr] at hf; cases hf
  | ok r' =>
    obtain ⟨hf', _, hfin', _⟩ := h2 r' hr
    rw [hf] at hf'
    simp only [Except.ok.injEq, Prod.mk.injEq] at hf'
    exact ⟨r', rfl, hf'.1.symm, hf'.2.symm, by rw [hpa, hf'.2], hfin, hfin'⟩

/-- the default `leftPartId=None` of `flush` writes the left / header data as part **1** whatever the writer's
`min_part` is (the finaliser therefore passes `write.min_part` explicitly, fix F9): a direct caller relying on the
default with a 5-based writer gets a part number outside the writer's range -/
theorem flush_default_left_id_cex :
    (match flushFull ⟨2, 5, 100⟩ ({ (mkChunk 7 1 false 2 : Chunk Nat) with
        left := [1, 2], parts := [⟨6, [3, 4]⟩], data := [5] }) none true with
     | .ok r => r.writes.any (fun p => decide (p.id < 5))
     | .error _ => false) = true := by decide

/-! ### re-execution of a merge task -/

/-- **A merge whose right side has not written and that does not spill leaves both inputs as they were**, so a second
execution of the task on the same objects computes the same chunk and makes no writer call. -/
theorem merge_twice_same_when_nothing_written (w : Option Writer) (spill : Nat) (l r : Chunk α) (p : MergePost α)
    (h : mergeAndSpillPost w spill l r = .ok p) (hr : r.started = false) (hw : p.writes = []) :
    p.lhsAfter = l ∧ p.rhsAfter = r ∧ mergeTwice w spill l r = .ok (p, .ok p) := by
  have hpost : p.lhsAfter = l ∧ p.rhsAfter = r := by
    unfold mergeAndSpillPost at h
    cases hm : mergeAndSpill w spill l r with
    | error e => simp [hm] at h
    | ok q =>
      obtain ⟨m, ws⟩ := q
      simp only [hm, hr, Bool.not_false, if_true, Except.ok.injEq] at h
      subst h
      simp only at hw
      subst hw
      exact ⟨by simp, rfl⟩
  refine ⟨hpost.1, hpost.2, ?_⟩
  simp only [mergeTwice, h, hpost.1, hpost.2]

/-- **… but a merge that spills, or whose right side has written, is not repeatable**: `lhs.flush_rhs` / the shared
`parts` list changed the left input.  Witness (min_write_sz 2, spill 2): the first execution writes part 2 = `[3,4]`;
executed again on the same objects the task writes part number 2 a SECOND time with different bytes (`[1,2,3,4]`) and
returns a chunk that lists part 2 twice. -/
theorem merge_twice_differs_cex :
    (match mergeTwice (some ⟨2, 1, 100⟩) 2
        ({ (mkChunk 2 2 false 2 : Chunk Nat) with data := [1, 2, 3, 4], observed := [(4, 0)] })
        ({ (mkChunk 4 1 false 2 : Chunk Nat) with data := [5, 6], observed := [(2, 1)] }) with
     | .ok (p1, .ok p2) =>
       p1.writes == [⟨2, [3, 4]⟩] && p2.writes == [⟨2, [1, 2, 3, 4]⟩] &&
       p2.result.parts.map (·.id) == [2, 2]
     | _ => false) = true := by decide

/-- … and when the right side has written, the second execution re-sends the right side's `left_data` under a fresh
part number or fails its assertion (here: no write credit left → `AssertionError`). -/
theorem merge_twice_started_cex :
    (match mergeTwice (some ⟨2, 1, 100⟩) 0
        ({ (mkChunk 2 1 false 2 : Chunk Nat) with data := [1, 2, 3, 4, 5], observed := [(5, 0)] })
        (⟨4, 0, [10, 11], [6, 7], [⟨3, [8, 9]⟩], [(6, 1)], false, 2⟩ : Chunk Nat) with
     | .ok (p1, .error .assertion) => p1.writes == [⟨2, [3, 4, 5, 6, 7]⟩]
     | _ => false) = true := by decide

/-! ### `__dask_tokenize__` -/

/-- with `lhs_keep` in the tuple the token determines the chunk -/
theorem token_injective (c c' : Chunk α) (h : c.token = c'.token) : c = c' := by
  cases c; cases c'
  simp only [Chunk.token, Chunk.tokenAsFound, Prod.mk.injEq] at h
  obtain ⟨⟨h1, h2, h3, h4, h5, h6, h7⟩, h8⟩ := h
  subst h1 h2 h3 h4 h5 h6 h7 h8
  rfl

/-- as found, two sections that differ (only) in `lhs_keep` share a token: the `from_sequence` layers `from_dask_bag`
builds for two writers with different `min_write_sz` get the same dask key -/
theorem token_as_found_cex :
    (mkChunk 2 1 false 4 : Chunk Nat).tokenAsFound = (mkChunk 2 1 false 20 : Chunk Nat).tokenAsFound ∧
    (mkChunk 2 1 false 4 : Chunk Nat).lhsKeep ≠ (mkChunk 2 1 false 20 : Chunk Nat).lhsKeep :=
  ⟨rfl, by decide⟩

/-- the token as found ignores nothing else -/
theorem token_as_found_only_ignores_lhs_keep (c c' : Chunk α) (h : c.tokenAsFound = c'.tokenAsFound)
    (hk : c.lhsKeep = c'.lhsKeep) : c = c' :=
  token_injective c c' (by simp [Chunk.token, h, hk])

/-! ### non-vacuity -/

def r_started (p : MergePost Nat) : Bool := p.rhsAfter.started

example : (match flushFull ⟨2, 1, 100⟩ ({ (mkChunk 3 1 false 2 : Chunk Nat) with
    left := [1, 2], parts := [⟨2, [3, 4]⟩], data := [5] }) (some 1) false with
    | .ok r => r.bytesWritten == 3 && r.finalised == false && r.parts.map (·.id) == [1, 2, 3]
    | .error _ => false) = true := by decide

example : (match mergeAndSpillPost (some ⟨2, 1, 100⟩) 100
    ({ (mkChunk 2 1 false 2 : Chunk Nat) with data := [1], observed := [(1, 0)] })
    ({ (mkChunk 3 1 false 2 : Chunk Nat) with data := [2], observed := [(1, 1)] }) with
    | .ok p => p.writes == [] && !r_started p
    | .error _ => false) = true := by decide

end OdcGeo.C06

namespace OdcGeo.C06
variable {α : Type}

/-! ### the writer's upper limits: `max_part`, `max_write_sz` -/

/-- strictly increasing numbers within `[a, b]`: at most `b + 1 - a` of them -/
theorem increasing_ids_count (ps : List (Part α)) (a b : Nat) (hinc : ps.Pairwise (fun x y => x.id < y.id))
    (hr : ∀ p ∈ ps, a ≤ p.id ∧ p.id ≤ b) : ps.length ≤ b + 1 - a := by
  induction ps generalizing a with
  | nil => simp
  | cons p ps ih =>
    have hp := hr p (by simp)
    rw [List.pairwise_cons] at hinc
    have := ih (p.id + 1) hinc.2 (fun q hq => ⟨hinc.1 q hq, (hr q (by simp [hq])).2⟩)
    simp only [List.length_cons]
    omega

/-- **What the code guarantees about the number and the size of parts**: under the capacity hypothesis of `main`
there are at most `max_part - min_part + 1` parts (they carry distinct numbers of the writer's range), hence at least one
part holds `1 / (max_part - min_part + 1)` of the object or more: no `max_write_sz` below that can be honoured by any
assembly. -/
theorem parts_count_and_largest_part (fp : List (Part α)) (W : Writer)
    (hinc : fp.Pairwise (fun a b => a.id < b.id)) (hr : ∀ p ∈ fp, W.minPart ≤ p.id ∧ p.id ≤ W.maxPart) :
    fp.length ≤ W.maxPart + 1 - W.minPart ∧
    (fp ≠ [] → ∃ p ∈ fp, (partsBytes fp).length ≤ p.data.length * (W.maxPart + 1 - W.minPart)) := by
  have hlen := increasing_ids_count fp W.minPart W.maxPart hinc hr
  refine ⟨hlen, ?_⟩
  intro hne
  -- a part of maximal size
  have hmax : ∀ (l : List (Part α)), l ≠ [] → ∃ p ∈ l, (partsBytes l).length ≤ p.data.length * l.length := by
    intro l
    induction l with
    | nil => intro h; exact absurd rfl h
    | cons q qs ih =>
      intro _
      by_cases hq : qs = []
      · subst hq; exact ⟨q, by simp, by simp⟩
      · obtain ⟨p, hp, hle⟩ := ih hq
        by_cases hc : p.data.length ≤ q.data.length
        · refine ⟨q, by simp, ?_⟩
          simp only [partsBytes_cons, List.length_append, List.length_cons]
          have : p.data.length * qs.length ≤ q.data.length * qs.length := Nat.mul_le_mul_right _ hc
          rw [Nat.mul_add]; omega
        · refine ⟨p, by simp [hp], ?_⟩
          simp only [partsBytes_cons, List.length_append, List.length_cons]
          rw [Nat.mul_add]; omega
  obtain ⟨p, hp, hle⟩ := hmax fp hne
  exact ⟨p, hp, le_trans hle (Nat.mul_le_mul_left _ hlen)⟩

/-- **`max_write_sz` is never read: a chunk is never split.**  `spill_sz = 8`, four write credits per partition, a
40-byte chunk: it goes out as ONE part of 32 bytes (`maybe_write` spills everything it may), although three more
part numbers of the partition stay unused — a writer with `max_write_sz = 16` gets a part twice its limit.  Replayed on
the real code. -/
theorem max_write_sz_not_enforced_cex :
    (match run (α := Nat) ⟨some ⟨4, 1, 100⟩, 8, 4, true⟩ (.node (.leaf [(List.replicate 40 7, 0)]) (.leaf [(List.replicate 8 7, 1)]))
        none none with
     | .ok (.written _ fp, _, _) => fp.map (fun p => (p.id, p.data.length)) == [(1, 4), (2, 32), (3, 12)]
     | _ => false) = true := by decide

/-- **`max_part` is only asserted by `flush_rhs`, not by `maybe_write`**: when the partitions need more part numbers
than the writer has (`min_part + 1 + #partitions * writes_per_chunk > max_part + 1`, excluded by `main`'s capacity
hypothesis) a run can SUCCEED with part numbers above `max_part`: writer range 1..3, two partitions × three credits:
parts 5 and 6 are written and finalised.  Replayed on the real code. -/
theorem max_part_unchecked_cex :
    (match run (α := Nat) ⟨some ⟨2, 1, 3⟩, 2, 3, true⟩ (.node (.leaf [(List.replicate 8 7, 0)]) (.leaf [(List.replicate 8 7, 1)]))
        none none with
     | .ok (.written _ fp, _, _) => fp.map (·.id) == [1, 2, 3, 5, 6]
     | _ => false) = true := by decide

end OdcGeo.C06

namespace OdcGeo.C06
variable {α : Type}

/-! ### a merge that wrote is not repeatable: the general statements -/

/-- in the branch "right side has not written" the left input's parts list grows by exactly the parts the task wrote -/
theorem mergePost_unstarted_lhs_parts (w : Option Writer) (spill : Nat) (l r : Chunk α) (p : MergePost α)
    (h : mergeAndSpillPost w spill l r = .ok p) (hr : r.started = false) :
    p.lhsAfter.parts = l.parts ++ p.writes ∧ p.rhsAfter = r := by
  unfold mergeAndSpillPost at h
  cases hm : mergeAndSpill w spill l r with
  | error e => simp [hm] at h
  | ok q =>
    obtain ⟨m, ws⟩ := q
    simp only [hm, hr, Bool.not_false, if_true, Except.ok.injEq] at h
    subst h
    exact ⟨rfl, rfl⟩

/-- **Right side has not written and the task wrote something (a spill): the task is NOT repeatable** — whatever the
second execution on the same objects does, it cannot reproduce the first (the left input already carries the part). -/
theorem merge_not_repeatable_after_spill (w : Option Writer) (spill : Nat) (l r : Chunk α) (p1 : MergePost α)
    (h : mergeAndSpillPost w spill l r = .ok p1) (hr : r.started = false) (hw : p1.writes ≠ []) :
    mergeAndSpillPost w spill p1.lhsAfter p1.rhsAfter ≠ .ok p1 := by
  intro h2
  obtain ⟨hp1, hr1⟩ := mergePost_unstarted_lhs_parts w spill l r p1 h hr
  have hr' : p1.rhsAfter.started = false := by rw [hr1]; exact hr
  obtain ⟨hp2, _⟩ := mergePost_unstarted_lhs_parts w spill p1.lhsAfter p1.rhsAfter p1 h2 hr'
  have : p1.writes = [] := by
    have := hp2
    exact List.append_right_eq_self.mp this.symm
  exact hw this

/-- `flush_rhs` on a section that has written either fails or uses up a part number -/
theorem flushRhs_started_next (w : Option Writer) (c c' : Chunk α) (extra : List α) (ws : List (Part α))
    (hs : c.started = true) (h : flushRhs w c extra = .ok (c', ws)) : c'.next = c.next + 1 ∧ c'.parts ≠ [] := by
  unfold flushRhs at h
  simp only [hs, if_true] at h
  cases w with
  | none => simp at h
  | some W =>
    simp only at h
    split at h
    · unfold flushData at h
      split at h
      · simp at h
      · simp only [Except.ok.injEq, Prod.mk.injEq] at h
        rw [← h.1]
        exact ⟨rfl, by simp⟩
    · simp at h

/-- **Right side has written and the merge flushed the left side (the left input is a started section afterwards): NOT
repeatable** — a second execution fails, or sends the right side's `left_data` again under the NEXT part number
(the left input's part counter moves on by one). -/
theorem merge_not_repeatable_after_flush (w : Option Writer) (spill : Nat) (l r : Chunk α) (p1 p2 : MergePost α)
    (h : mergeAndSpillPost w spill l r = .ok p1) (hr : r.started = true) (hl : p1.lhsAfter.started = true)
    (h2 : mergeAndSpillPost w spill p1.lhsAfter p1.rhsAfter = .ok p2) :
    p2.lhsAfter.next = p1.lhsAfter.next + 1 ∧ p2 ≠ p1 := by
  -- the right input is untouched
  have hr1 : p1.rhsAfter = r := by
    unfold mergeAndSpillPost at h
    cases hm : mergeAndSpill w spill l r with
    | error e => simp [hm] at h
    | ok q =>
      obtain ⟨m, ws⟩ := q
      simp only [hm, hr, Bool.not_true, Bool.false_eq_true, if_false] at h
      cases hf : flushRhs w l r.left with
      | error e => simp [hf] at h
      | ok q2 =>
        obtain ⟨l', _⟩ := q2
        simp only [hf, Except.ok.injEq] at h
        subst h; rfl
  have hnext : p2.lhsAfter.next = p1.lhsAfter.next + 1 := by
    unfold mergeAndSpillPost at h2
    cases hm : mergeAndSpill w spill p1.lhsAfter p1.rhsAfter with
    | error e => simp [hm] at h2
    | ok q =>
      obtain ⟨m, ws⟩ := q
      have hrs : p1.rhsAfter.started = true := by rw [hr1]; exact hr
      simp only [hm, hrs, Bool.not_true, Bool.false_eq_true, if_false] at h2
      cases hf : flushRhs w p1.lhsAfter p1.rhsAfter.left with
      | error e => simp [hf] at h2
      | ok q2 =>
        obtain ⟨l'', ws''⟩ := q2
        simp only [hf, Except.ok.injEq] at h2
        subst h2
        exact (flushRhs_started_next w p1.lhsAfter l'' _ ws'' hl hf).1
  refine ⟨hnext, ?_⟩
  intro he
  rw [he] at hnext
  omega

/-! ### the finaliser executed twice -/

/-- **with a footer the finaliser is not repeatable**: the footer was appended to the root itself; executed again the
callback sees the footer's `(size, None)` entry in the observed list and the footer goes into the stream a second time.
Witness: one section `[1,2,3]` + footer `[9]`: first object `[1,2,3,9]`, second `[1,2,3,9,9]`. -/
theorem finalizer_twice_footer_cex :
    (match finalizerTwice (some ⟨1, 1, 100⟩) ({ (mkChunk 2 1 false 1 : Chunk Nat) with data := [1, 2, 3], observed := [(3, 0)] })
        none (some fun _ => [9]) with
     | .ok (p1, .ok p2) =>
       (match p1.out, p2.out with
        | .written _ f1, .written _ f2 => partsBytes f1 == [1, 2, 3, 9] && partsBytes f2 == [1, 2, 3, 9, 9] &&
            p2.rootAfter.observed == [(3, 0), (1, -1), (1, -1)]
        | _, _ => false)
     | _ => false) = true := by decide

/-- **without header and footer the finaliser flushes the root in place**: executed again there is nothing left to write
and `finalise` gets the same list once more (the upload is completed twice) -/
theorem finalizer_twice_plain :
    (match finalizerTwice (some ⟨1, 1, 100⟩) ({ (mkChunk 2 1 true 1 : Chunk Nat) with data := [1, 2, 3], observed := [(3, 0)] })
        none none with
     | .ok (p1, .ok p2) =>
       (match p1.out, p2.out with
        | .written w1 f1, .written w2 f2 => w1.map (·.id) == [1] && w2.map (·.id) == [] && f1 == f2 && p2.rootAfter.data == []
        | _, _ => false)
     | _ => false) = true := by decide

end OdcGeo.C06
