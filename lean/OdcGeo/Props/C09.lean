/-
C09 — xarray geo-registration round-trips and survives array operations.

Property theorems only.  `wrap` / `recover` / `applyOps` / `assemble` are the model of
`wrap_xr`+`xr_coords`, `_locate_geo_info(..).geobox`, the assumed xarray operations and the output
assembly of `_xr_reproject_da/_ds` (Model/C09.lean, code as repaired on branch fix-C09).
`track` (Lemmas/C09.lean) is the specification of "which original pixel is result pixel k":
the composition of numpy slices (`Spec/PySliceStep`, validated against numpy on every run).
-/
import OdcGeo.Model.C09
import OdcGeo.Lemmas.C09
import OdcGeo.Lemmas.C09Inv
import Mathlib.Tactic.Linarith
import Mathlib.Tactic.Ring
import Mathlib.Tactic.NormNum

namespace OdcGeo.C09
open OdcGeo OdcGeo.PySliceStep

/-! ## round trips -/

/-- **roundtrip_axis_aligned** — wrapping an array with an axis-aligned GeoBox (any signs of the
pixel size: north-up, mirrored; any shape ≥ 1×1 including 1×N, N×1, 1×1 when a CRS is attached;
any rank / CRS-coordinate name) and reading `.odc.geobox` returns the same GeoBox. -/
theorem roundtrip_axis_aligned (g : GeoBox) (nt nb : Option Nat) (cn : String) (attrs : List String)
    (a0 : XArr) (hcn : NameOk cn) (hb : g.A.b = 0) (hd : g.A.d = 0) (hny : 1 ≤ g.ny) (hnx : 1 ≤ g.nx)
    (hcrs : g.crs.isSome = true ∨ (2 ≤ g.ny ∧ 2 ≤ g.nx))
    (hw : wrap (.lin g) nt nb cn attrs = .ok a0) :
    recover a0 = .ok (.lin g) := by
  have hI := inv_wrap g nt nb cn attrs a0 hcn hw
  have hst : isAffineST g.A = true := by
    have : (0 : Rat) < tolST := by norm_num [tolST]
    simp [isAffineST, hb, hd, rabs, this]
  rw [inv_recover g cn _ _ a0 hI hny hnx (by
    rcases hcrs with h | h
    · exact Or.inr (Or.inl h)
    · exact Or.inl h)]
  obtain ⟨ny, nx, ⟨a, b, c, d, e, f⟩, crs⟩ := g
  simp only at hb hd hst
  subst hb; subst hd
  simp only [labelAff, AxMap.ident, baseX, baseY, xfOf, hst, if_true, composeP2W, resOf_same,
    Int.cast_zero, Int.cast_one, zero_mul, one_mul, add_zero]
  congr 3
  simp only [Aff.mul_def, Aff.mul, Aff.translation, Aff.scale]
  ext <;> simp <;> ring

/-- **roundtrip_rotated** — a rotated / sheared GeoBox of *every* shape ≥ 1×1 (including 1×N, N×1 and
1×1: finding F12, repaired), with or without CRS, round-trips through `.odc.geobox`. -/
theorem roundtrip_rotated (g : GeoBox) (nt nb : Option Nat) (cn : String) (attrs : List String)
    (a0 : XArr) (hcn : NameOk cn) (hrot : isAffineST g.A = false) (hny : 1 ≤ g.ny) (hnx : 1 ≤ g.nx)
    (hw : wrap (.lin g) nt nb cn attrs = .ok a0) :
    recover a0 = .ok (.lin g) := by
  have hI := inv_wrap g nt nb cn attrs a0 hcn hw
  rw [inv_recover g cn _ _ a0 hI hny hnx (Or.inr (Or.inr hrot))]
  obtain ⟨ny, nx, ⟨a, b, c, d, e, f⟩, crs⟩ := g
  simp only at hrot
  simp only [labelAff, AxMap.ident, baseX, baseY, xfOf, hrot, if_false, composeP2W, resOf_same,
    Int.cast_zero, Int.cast_one, zero_mul, one_mul, add_zero, Bool.false_eq_true]
  congr 3
  simp only [Aff.mul_def, Aff.mul, Aff.translation, Aff.scale]
  ext <;> simp

/-- In the tolerance band of `is_affine_st` (`0 < |b|,|d| < 1e-10`) the box is written with world
labels that ignore `b`,`d`; what comes back is the box with `b = d = 0` (equal up to that tolerance). -/
theorem roundtrip_tolerance_band (g : GeoBox) (nt nb : Option Nat) (cn : String) (attrs : List String)
    (a0 : XArr) (hcn : NameOk cn) (hst : isAffineST g.A = true) (hny : 1 ≤ g.ny) (hnx : 1 ≤ g.nx)
    (hcrs : g.crs.isSome = true) (hw : wrap (.lin g) nt nb cn attrs = .ok a0) :
    recover a0 = .ok (.lin { g with A := { g.A with b := 0, d := 0 } }) := by
  have hI := inv_wrap g nt nb cn attrs a0 hcn hw
  rw [inv_recover g cn _ _ a0 hI hny hnx (Or.inr (Or.inl hcrs))]
  obtain ⟨ny, nx, ⟨a, b, c, d, e, f⟩, crs⟩ := g
  simp only at hst
  simp only [labelAff, AxMap.ident, baseX, baseY, xfOf, hst, if_true, composeP2W, resOf_same,
    Int.cast_zero, Int.cast_one, zero_mul, one_mul, add_zero]
  congr 3
  simp only [Aff.mul_def, Aff.mul, Aff.translation, Aff.scale]
  ext <;> simp <;> ring

/-- Without a CRS an axis-aligned box with a one-pixel axis cannot be recovered (no GeoTransform to
fall back on): `.odc.geobox` is `None` — the case the statement excludes ("when a CRS is attached"). -/
theorem roundtrip_1px_nocrs_lost :
    (wrap (.lin ⟨1, 5, ⟨2, 0, 10, 0, -2, 20⟩, none⟩) none none "spatial_ref" []).bind recover
      = .ok .nothing := by
  decide +kernel

/-! ## the history theorem -/

/-- **survives** — for every GeoBox `g` (axis-aligned incl. mirrored, or rotated/sheared; any shape,
rank, CRS-coordinate name), every finite sequence `ops` of positional slices of any axis (any
bounds, any non-zero step: strided, reversed, down to a single pixel), arithmetic, `astype`,
pickling and integer indexing of the `time`/`band` axes that xarray accepts, the GeoBox recovered
from the result has the shape of the result, the CRS of `g`, and maps the centre of every
remaining pixel `(i, j)` to the world position of the centre of the original pixel it came from
(`track` = composition of the numpy slices).  One-pixel results need a fallback resolution
(`HasFallback`: a CRS is attached, or the box is rotated — exactly the statement's side condition). -/
theorem survives (g : GeoBox) (nt nb : Option Nat) (cn : String) (attrs : List String) (ops : List Op)
    (a0 a : XArr) (hcn : NameOk cn) (halign : isAffineST g.A = true → g.A.b = 0 ∧ g.A.d = 0)
    (hw : wrap (.lin g) nt nb cn attrs = .ok a0) (hadm : ∀ op ∈ ops, op.admissible)
    (hops : applyOps a0 ops = .ok a) :
    let m := track (dimsOf g.crs).1 (dimsOf g.crs).2 (AxMap.ident g.ny, AxMap.ident g.nx) ops
    1 ≤ m.1.len → 1 ≤ m.2.len → HasFallback g m.1 m.2 →
      ∃ r : GeoBox, recover a = .ok (.lin r) ∧ r.ny = m.1.len ∧ r.nx = m.2.len ∧ r.crs = g.crs ∧
        ∀ i j : Nat, i < m.1.len → j < m.2.len →
          r.pix2wld (centre i j) = g.pix2wld (centre (m.1.orig i) (m.2.orig j)) := by
  intro m hy hx hfb
  have hI0 := inv_wrap g nt nb cn attrs a0 hcn hw
  have hI := inv_ops g cn hcn ops (AxMap.ident g.ny, AxMap.ident g.nx) a0 a hI0 hadm hops
  refine ⟨_, inv_recover g cn m.1 m.2 a hI hy hx hfb, rfl, rfl, rfl, ?_⟩
  intro i j hi hj
  have hc := centre_to_labels ((baseX g).1 + (m.2.off : Rat) * (baseX g).2) ((m.2.stride : Rat) * (baseX g).2)
    ((baseY g).1 + (m.1.off : Rat) * (baseY g).2) ((m.1.stride : Rat) * (baseY g).2) m.2.len m.1.len
    ((baseX g).2, (baseY g).2) i j hi hj
  simp only [GeoBox.pix2wld]
  by_cases hst : isAffineST g.A = true
  · obtain ⟨hb, hd⟩ := halign hst
    simp only [xfOf, hst, if_true, composeP2W]
    unfold labelAff
    rw [hc]
    simp only [baseX, baseY, hst, if_true, Aff.apply, centre, AxMap.orig, hb, hd]
    ext <;> push_cast <;> ring
  · have hst' : isAffineST g.A = false := by simpa using hst
    simp only [xfOf, hst', composeP2W, Bool.false_eq_true, if_false]
    rw [Aff.apply_mul]
    unfold labelAff
    rw [hc]
    simp only [baseX, baseY, hst', Bool.false_eq_true, if_false, centre, AxMap.orig]
    congr 1
    ext <;> push_cast <;> ring

/-- **labels_agree** — under the same hypotheses the coordinates of the recovered GeoBox are the
array's labels: for an axis-aligned box `GeoBox.coordinates` (`k·r + (t + r/2)`) equals the label
vectors of both axes; for a rotated box the labels are the pixel coordinates `original index + ½`
of the kept pixels, which the recovered transform composes with the encoded `_transform`. -/
theorem labels_agree (g : GeoBox) (nt nb : Option Nat) (cn : String) (attrs : List String) (ops : List Op)
    (a0 a : XArr) (hcn : NameOk cn) (hw : wrap (.lin g) nt nb cn attrs = .ok a0)
    (hadm : ∀ op ∈ ops, op.admissible) (hops : applyOps a0 ops = .ok a) :
    let m := track (dimsOf g.crs).1 (dimsOf g.crs).2 (AxMap.ident g.ny, AxMap.ident g.nx) ops
    1 ≤ m.1.len → 1 ≤ m.2.len → HasFallback g m.1 m.2 →
      ∃ (r : GeoBox) (ys xs : List Rat) (xf : Option Aff) (c1 c2 : Option Crs),
        recover a = .ok (.lin r) ∧
        a.coords.lookup (dimsOf g.crs).1 = some (.axis ys xf c1) ∧
        a.coords.lookup (dimsOf g.crs).2 = some (.axis xs xf c2) ∧
        (isAffineST g.A = true →
          axisLabels r.ny r.A.e r.A.f = ys ∧ axisLabels r.nx r.A.a r.A.c = xs) ∧
        (isAffineST g.A = false →
          ys = (List.range m.1.len).map (fun (k : Nat) => ((m.1.orig k : Int) : Rat) + 1 / 2) ∧
          xs = (List.range m.2.len).map (fun (k : Nat) => ((m.2.orig k : Int) : Rat) + 1 / 2)) := by
  intro m hy hx hfb
  have hI0 := inv_wrap g nt nb cn attrs a0 hcn hw
  have hI := inv_ops g cn hcn ops (AxMap.ident g.ny, AxMap.ident g.nx) a0 a hI0 hadm hops
  refine ⟨_, _, _, _, _, _, inv_recover g cn m.1 m.2 a hI hy hx hfb, hI.ylk, hI.xlk, ?_, ?_⟩
  · intro hst
    simp only [xfOf, hst, if_true, composeP2W, labelAff, Aff.mul_def, Aff.mul, Aff.translation, Aff.scale,
      labelsFor]
    constructor
    · have := axisLabels_recovered ((baseY g).1 + (m.1.off : Rat) * (baseY g).2)
        ((m.1.stride : Rat) * (baseY g).2) m.1.len hy (baseY g).2
      simpa using this
    · have := axisLabels_recovered ((baseX g).1 + (m.2.off : Rat) * (baseX g).2)
        ((m.2.stride : Rat) * (baseX g).2) m.2.len hx (baseX g).2
      simpa using this
  · intro hst
    simp only [labelsFor, baseX, baseY, hst, Bool.false_eq_true, if_false, ap, AxMap.orig]
    constructor <;>
    · apply List.map_congr_left
      intro k _
      push_cast
      ring

/-! ## reprojection output -/

/-- **reproject_prunes** — the DataArray assembled by `_xr_reproject_da` carries no key of
`SPATIAL_ATTRIBUTES` and its `grid_mapping` encoding names the new `spatial_ref` coordinate,
whatever the source attributes were. -/
theorem reproject_prunes (src : XArr) (dst : GeoBox) (nd : Bool) (out : XArr)
    (h : assemble src dst nd = .ok out) :
    (∀ k ∈ out.attrs, k ∉ spatialAttributes) ∧ out.gridMapping = some "spatial_ref" := by
  unfold assemble at h
  simp only at h
  split at h
  · cases h
  · split at h
    · split at h
      · cases h
      · split at h
        · cases h
        · simp only [Except.ok.injEq] at h
          subst h
          refine ⟨?_, rfl⟩
          intro k hk
          simp only at hk
          split at hk
          · simp only [List.mem_append, List.mem_filter, List.mem_singleton] at hk
            rcases hk with ⟨⟨_, h2⟩, _⟩ | rfl
            · simpa using h2
            · decide
          · simp only [List.mem_filter] at hk
            simpa using hk.1.2
    · cases h

/-- the shape of the dims of a geo-registered array: `(time?) ydim xdim (band?)` -/
def DimsShape (a : XArr) (sc : Option Crs) (pre post : List String) : Prop :=
  a.dims = pre ++ [(dimsOf sc).1, (dimsOf sc).2] ++ post ∧ ∀ d ∈ pre ++ post, d = "time" ∨ d = "band"

/-- what `assemble` returns when it succeeds, explicitly -/
theorem assemble_ok_form (src : XArr) (dst : GeoBox) (nd : Bool) (out : XArr) (sd : String × String)
    (hsd : spatialDims src.dims = some sd) (h : assemble src dst nd = .ok out) :
    ∃ cs attrs, xrCoords (.lin dst) "spatial_ref" = .ok cs ∧
      out = ⟨replaceDims src.dims sd (dimsOf dst.crs),
        ((src.coords.filter (shouldKeep sd)).filter (fun kc => !(cs.map (·.1)).contains kc.1)) ++ cs,
        some "spatial_ref", attrs⟩ := by
  unfold assemble at h
  simp only [hsd] at h
  split at h
  · split at h
    · cases h
    · split at h
      · cases h
      · rename_i cs hcs
        simp only [Except.ok.injEq] at h
        exact ⟨cs, _, hcs, h.symm⟩
  · cases h

/-- **reproject_geobox** — the DataArray assembled at the end of `_xr_reproject_da` (coords of the
source that reference a spatial dim or look like a CRS coordinate dropped, `xr_coords(dst)` added,
dims replaced) gives back **exactly the destination GeoBox** through `.odc.geobox`, CRS included:
for every source array with dims `(time?) y x (band?)` (either dim-name pair) — whatever its
coordinates, CRS-coordinate name, attributes, encoding or history were — and every destination
GeoBox with a CRS and shape ≥ 1×1 (axis-aligned incl. mirrored, or rotated/sheared). -/
theorem reproject_geobox (src : XArr) (sc : Option Crs) (pre post : List String) (dst : GeoBox) (c : Crs)
    (nd : Bool) (out : XArr) (hshape : DimsShape src sc pre post)
    (hcrs : dst.crs = some c) (hny : 1 ≤ dst.ny) (hnx : 1 ≤ dst.nx)
    (halign : isAffineST dst.A = true → dst.A.b = 0 ∧ dst.A.d = 0)
    (h : assemble src dst nd = .ok out) :
    recover out = .ok (.lin dst) := by
  obtain ⟨hdims, htb⟩ := hshape
  have hguess : guessDims src.dims = some (dimsOf sc) := by rw [hdims]; exact guessDims_shape pre post sc htb
  have hsd := spatialDims_of_guess _ _ hguess
  obtain ⟨cs, attrs, hcs, hout⟩ := assemble_ok_form src dst nd out _ hsd h
  have hypre : (dimsOf sc).1 ∉ pre := by
    intro hm
    have := htb _ (List.mem_append_left _ hm)
    exact (dimsOf_not_tb sc _ this).1 rfl
  have hdims' : replaceDims src.dims (dimsOf sc) (dimsOf dst.crs)
      = pre ++ [(dimsOf dst.crs).1, (dimsOf dst.crs).2] ++ post := by
    rw [hdims]
    exact replaceDims_shape pre post _ _ _ hypre
  have hcn : "spatial_ref" ∉ pre ++ [(dimsOf dst.crs).1, (dimsOf dst.crs).2] ++ post := by
    intro hm
    simp only [List.mem_append, List.mem_cons, List.not_mem_nil, or_false] at hm
    rcases hm with (hm | hm) | hm
    · rcases htb _ (List.mem_append_left _ hm) with h' | h' <;> exact absurd h' (by decide)
    · rcases dimsOf_cases dst.crs with h' | h' <;> rw [h'] at hm <;> rcases hm with hm | hm <;>
        exact absurd hm (by decide)
    · rcases htb _ (List.mem_append_right _ hm) with h' | h' <;> exact absurd h' (by decide)
  have hI := inv_assembled dst c hcrs (pre ++ [(dimsOf dst.crs).1, (dimsOf dst.crs).2] ++ post)
    ((src.coords.filter (shouldKeep (dimsOf sc))).filter (fun kc => !(cs.map (·.1)).contains kc.1)) cs attrs hcs
    (guessDims_shape pre post dst.crs htb) hcn
    (fun k hk => lookup_filter_names_none _ k hk _)
    (fun k c' => no_crs_in_kept _ _ _ k c')
  rw [hout, hdims']
  exact recover_of_inv_ident dst "spatial_ref" _ hI hny hnx (Or.inr (Or.inl (by rw [hcrs]; rfl))) halign

/-- every history of admissible operations keeps the dims shape, so `reproject_geobox` applies to
the result of any `wrap` + history (the quantifier of the property) -/
theorem dimsShape_wrap (g : GeoBox) (nt nb : Option Nat) (cn : String) (attrs : List String) (a0 : XArr)
    (hw : wrap (.lin g) nt nb cn attrs = .ok a0) :
    ∃ pre post, DimsShape a0 g.crs pre post := by
  simp only [wrap, srcDims, bind, Except.bind, pure, Except.pure] at hw
  split at hw
  · cases hw
  · simp only [Except.ok.injEq] at hw
    subst hw
    refine ⟨_, _, rfl, ?_⟩
    intro d hd
    cases nt <;> cases nb <;> simp at hd <;> simp [hd]

theorem dimsShape_step (a a' : XArr) (sc : Option Crs) (pre post : List String) (op : Op)
    (hs : DimsShape a sc pre post) (hadm : op.admissible) (hop : applyOp a op = .ok a') :
    ∃ pre' post', DimsShape a' sc pre' post' := by
  obtain ⟨hd, htb⟩ := hs
  cases op with
  | arith => simp only [applyOp, Except.ok.injEq] at hop; subst hop; exact ⟨pre, post, hd, htb⟩
  | astype => simp only [applyOp, Except.ok.injEq] at hop; subst hop; exact ⟨pre, post, hd, htb⟩
  | pickle => simp only [applyOp, Except.ok.injEq] at hop; subst hop; exact ⟨pre, post, hd, htb⟩
  | isel d ix =>
    simp only [applyOp] at hop
    split at hop
    · cases hop
    · split at hop
      · cases hop
      · cases ix with
        | slc start stop step =>
          simp only at hop
          split at hop
          · cases hop
          · simp only [Except.ok.injEq] at hop
            subst hop
            exact ⟨pre, post, hd, htb⟩
        | int i =>
          have hdtb : d = "time" ∨ d = "band" := hadm
          simp only at hop
          split at hop
          · cases hop
          · simp only [Except.ok.injEq] at hop
            subst hop
            obtain ⟨hy, hx⟩ := dimsOf_not_tb sc d hdtb
            refine ⟨pre.filter (· ≠ d), post.filter (· ≠ d), ?_, ?_⟩
            · simp only [hd, List.filter_append, List.filter_cons, List.filter_nil]
              simp [hy, hx]
            · intro e he
              rcases List.mem_append.mp he with he | he
              · exact htb e (List.mem_append_left _ (List.mem_filter.mp he).1)
              · exact htb e (List.mem_append_right _ (List.mem_filter.mp he).1)

/-- **reproject_geobox_history** — `reproject_geobox` for the property's quantifier: wrap any
GeoBox, apply any finite history of admissible operations, reproject to any destination GeoBox with
a CRS: the recovered GeoBox is the destination. -/
theorem reproject_geobox_history (g : GeoBox) (nt nb : Option Nat) (cn : String) (attrs : List String)
    (ops : List Op) (a0 a : XArr) (dst : GeoBox) (c : Crs) (nd : Bool) (out : XArr)
    (hw : wrap (.lin g) nt nb cn attrs = .ok a0) (hadm : ∀ op ∈ ops, op.admissible)
    (hops : applyOps a0 ops = .ok a)
    (hcrs : dst.crs = some c) (hny : 1 ≤ dst.ny) (hnx : 1 ≤ dst.nx)
    (halign : isAffineST dst.A = true → dst.A.b = 0 ∧ dst.A.d = 0)
    (h : assemble a dst nd = .ok out) :
    recover out = .ok (.lin dst) := by
  obtain ⟨pre0, post0, hs0⟩ := dimsShape_wrap g nt nb cn attrs a0 hw
  have key : ∀ (ops : List Op) (a0 a : XArr) (pre post : List String), DimsShape a0 g.crs pre post →
      (∀ op ∈ ops, op.admissible) → applyOps a0 ops = .ok a → ∃ pre' post', DimsShape a g.crs pre' post' := by
    intro ops
    induction ops with
    | nil =>
      intro a0 a pre post hs _ h
      simp only [applyOps, Except.ok.injEq] at h
      subst h
      exact ⟨pre, post, hs⟩
    | cons op rest ih =>
      intro a0 a pre post hs hadm h
      simp only [applyOps] at h
      split at h
      · cases h
      · rename_i a1 h1
        obtain ⟨p1, q1, hs1⟩ := dimsShape_step a0 a1 g.crs pre post op hs (hadm op List.mem_cons_self) h1
        exact ih a1 a p1 q1 hs1 (fun o ho => hadm o (List.mem_cons_of_mem _ ho)) h
  obtain ⟨pre, post, hs⟩ := key ops a0 a pre0 post0 hs0 hadm hops
  exact reproject_geobox a g.crs pre post dst c nd out hs hcrs hny hnx halign h

/-! ### the Dataset variant -/

theorem mapM_ok_mem {α β : Type} (f : α → Res β) (l : List α) (out : List β) (h : l.mapM f = .ok out) :
    ∀ y ∈ out, ∃ x ∈ l, f x = .ok y := by
  induction l generalizing out with
  | nil =>
    simp only [List.mapM_nil, pure, Except.pure, Except.ok.injEq] at h
    subst h
    intro y hy
    cases hy
  | cons a t ih =>
    rw [List.mapM_cons] at h
    simp only [bind, Except.bind, pure, Except.pure] at h
    split at h
    · cases h
    · rename_i b hb
      split at h
      · cases h
      · rename_i bs hbs
        simp only [Except.ok.injEq] at h
        subst h
        intro y hy
        rcases List.mem_cons.mp hy with rfl | hy
        · exact ⟨a, List.mem_cons_self, hb⟩
        · obtain ⟨x, hx, hfx⟩ := ih bs hbs y hy
          exact ⟨x, List.mem_cons_of_mem _ hx, hfx⟩

/-- **reproject_geobox_ds / reproject_prunes_ds** — the Dataset built by `_xr_reproject_ds` (as
repaired by 38c4bb2): its attrs carry no key of `SPATIAL_ATTRIBUTES`; every output variable comes
from the source variable of the same name; every source variable that had a geobox (dims
`(time?) y x (band?)`) yields a variable whose recovered GeoBox is **exactly the destination**,
CRS included, with no `SPATIAL_ATTRIBUTES` key and `grid_mapping = spatial_ref`; a variable without
geobox passes through with its dims and attrs untouched. -/
theorem reproject_ds (attrs : List String) (vars : List (String × XArr)) (dst : GeoBox) (c : Crs)
    (attrs' : List String) (out : List (String × XArr))
    (hcrs : dst.crs = some c) (hny : 1 ≤ dst.ny) (hnx : 1 ≤ dst.nx)
    (halign : isAffineST dst.A = true → dst.A.b = 0 ∧ dst.A.d = 0)
    (h : assembleDs attrs vars dst = .ok (attrs', out)) :
    (∀ k ∈ attrs', k ∉ spatialAttributes) ∧
    ∀ nm o, (nm, o) ∈ out → ∃ v, (nm, v) ∈ vars ∧
      ((recover v = .ok .nothing ∧ o.dims = v.dims ∧ o.attrs = v.attrs) ∨
       ((∃ r, recover v = .ok r ∧ r ≠ .nothing) ∧
         (∀ k ∈ o.attrs, k ∉ spatialAttributes) ∧ o.gridMapping = some "spatial_ref" ∧
         (∀ sc pre post, DimsShape v sc pre post → recover o = .ok (.lin dst)))) := by
  unfold assembleDs at h
  simp only [bind, Except.bind, pure, Except.pure] at h
  split at h
  · cases h
  · rename_i outs hm
    simp only [Except.ok.injEq, Prod.mk.injEq] at h
    obtain ⟨ha, ho⟩ := h
    subst ha; subst ho
    refine ⟨?_, ?_⟩
    · intro k hk
      simpa using (List.mem_filter.mp hk).2
    · intro nm o hmem
      obtain ⟨⟨nm', v⟩, hx, hfx⟩ := mapM_ok_mem _ _ _ hm (nm, o) hmem
      unfold reprojectVar at hfx
      simp only at hfx
      split at hfx
      · cases hfx
      · rename_i hrec
        simp only [Except.ok.injEq, Prod.mk.injEq] at hfx
        obtain ⟨h1, h2⟩ := hfx
        subst h1
        refine ⟨v, hx, Or.inl ⟨hrec, ?_, ?_⟩⟩ <;> rw [← h2]
      · rename_i r hnot hrec
        cases has : assemble v dst false with
        | error e => simp [has, Except.map] at hfx
        | ok o' =>
          simp only [has, Except.map, Except.ok.injEq, Prod.mk.injEq] at hfx
          obtain ⟨h1, h2⟩ := hfx
          subst h1; subst h2
          obtain ⟨hp1, hp2⟩ := reproject_prunes v dst false o' has
          refine ⟨v, hx, Or.inr ⟨⟨r, hrec, fun hr => hnot hr⟩, hp1, hp2, ?_⟩⟩
          intro sc pre post hs
          exact reproject_geobox v sc pre post dst c false o' hs hcrs hny hnx halign has

/-- non-vacuity: a mirrored, strided slice of a geographic (time, latitude, longitude) array with a custom
CRS-coordinate name, after arithmetic, reprojected to a rotated 1×3 destination: `assemble` succeeds and
the destination comes back. -/
example :
    ((((wrap (.lin ⟨4, 5, ⟨2, 0, 10, 0, -2, 20⟩, some ⟨4326, true⟩⟩) (some 2) none "crs" ["crs", "keep"]).bind
        (fun a => applyOps a [.isel "longitude" (.slc none none (some (-2))), .arith])).bind
        (fun a => assemble a ⟨1, 3, ⟨3, 4, 100, 4, -3, 200⟩, some ⟨3857, false⟩⟩ false)).bind recover)
      = .ok (.lin ⟨1, 3, ⟨3, 4, 100, 4, -3, 200⟩, some ⟨3857, false⟩⟩) := by
  decide +kernel

/-! ### option forwarding -/

/-- **options_forwarded** — `_extract_output_geobox_params` hands every grid option that the caller
gave to `output_geobox`, *whatever its value* (falsy-but-meaningful values such as `tol=0`,
`tight=False`, `anchor=0`, `shape=None` included), forwards nothing else, and leaves exactly the
other keywords for the warp. -/
theorem options_forwarded {α : Type} (kw : List (String × α)) (k : String) (v : α) (h : (k, v) ∈ kw) :
    (k ∈ gboxKeys → (k, v) ∈ (extractOutputGeoboxParams kw).1 ∧ (k, v) ∉ (extractOutputGeoboxParams kw).2) ∧
    (k ∉ gboxKeys → (k, v) ∈ (extractOutputGeoboxParams kw).2 ∧ (k, v) ∉ (extractOutputGeoboxParams kw).1) ∧
    (∀ kv ∈ (extractOutputGeoboxParams kw).1, kv ∈ kw ∧ kv.1 ∈ gboxKeys) := by
  refine ⟨fun hk => ?_, fun hk => ?_, fun kv hkv => ?_⟩
  · simp [extractOutputGeoboxParams, List.mem_filter, h, hk]
  · simp [extractOutputGeoboxParams, List.mem_filter, h, hk]
  · have := List.mem_filter.mp hkv
    exact ⟨this.1, by simpa using this.2⟩

/-! ## which boxes are written with world labels: `_confirm_axis_aligned` / `is_affine_st` -/

/-- **axis_aligned_iff** — a GeoBox is treated as axis-aligned (written with world labels, `coordinates`
allowed) exactly when both off-diagonal terms are below the tolerance in absolute value — for **every**
sign combination and size of the pixel scales `a`, `e` and every origin: mirrored (`a < 0`), south-up
(`e > 0`), both, degenerate — and symmetric in the signs of `b`, `d`. -/
theorem axis_aligned_iff (A : Aff) :
    (isAffineST A = true ↔ rabs A.b < tolST ∧ rabs A.d < tolST) ∧
    (∀ a' c' e' f' : Rat, isAffineST ⟨a', A.b, c', A.d, e', f'⟩ = isAffineST A) ∧
    isAffineST ⟨A.a, -A.b, A.c, -A.d, A.e, A.f⟩ = isAffineST A := by
  refine ⟨by simp [isAffineST], fun _ _ _ _ => rfl, ?_⟩
  have hneg : ∀ x : Rat, rabs (-x) = rabs x := by
    intro x
    unfold rabs
    rcases lt_trichotomy x 0 with h | h | h
    · simp [h, not_lt.mpr (le_of_lt (neg_pos.mpr h) : (0 : Rat) ≤ -x)]
    · subst h; simp
    · simp [h, not_lt.mpr (le_of_lt h)]
  simp [isAffineST, hneg]

/-- **one_pixel_axis_next_to_strided** — `_extract_transform` with a one-element axis next to an axis of
≥ 2 labels (any stride, reversed or not): the resolution of the long axis is read from its labels and does
**not** depend on the fallback; only the one-element axis takes the fallback resolution (of its own axis),
and both offsets put the pixel centres on the labels. -/
theorem one_pixel_axis_next_to_strided (cx dx cy dy : Rat) (nx : Nat) (hnx : 2 ≤ nx) (xf : Option Aff)
    (cc : Option CrsCoord) (gcp : Bool) (fb : Rat × Rat)
    (hfb : fallbackRes (if gcp then none else xf) cc gcp = .ok (some fb)) :
    extractTransform (ap cx dx nx) (ap cy dy 1) xf cc gcp =
      .ok (some (composeP2W (if gcp then none else xf)
        (Aff.translation (cx - (1 / 2) * dx) (cy - (1 / 2) * fb.2) * Aff.scale dx fb.2))) ∧
    extractTransform (ap cy dy 1) (ap cx dx nx) xf cc gcp =
      .ok (some (composeP2W (if gcp then none else xf)
        (Aff.translation (cy - (1 / 2) * fb.1) (cx - (1 / 2) * dx) * Aff.scale fb.1 dx))) := by
  have h1 := extractTransform_ap cx dx cy dy nx 1 (by omega) (le_refl 1) xf cc gcp fb (Or.inr hfb)
  have h2 := extractTransform_ap cy dy cx dx 1 nx (le_refl 1) (by omega) xf cc gcp fb (Or.inr hfb)
  have r1 : resOf nx dx fb.1 = dx := by simp [resOf, hnx]
  have r2 : resOf nx dx fb.2 = dx := by simp [resOf, hnx]
  have r3 : ∀ v, resOf 1 dy v = v := by intro v; simp [resOf]
  rw [r1, r3] at h1
  rw [r2, r3] at h2
  exact ⟨h1, h2⟩

/-! ## `assign_crs` -/

/-- **roundtrip_assign_crs** — an array wrapped *without* a CRS coordinate (`crs_coord_name=None`) and then
registered with `.odc.assign_crs(crs, name)` (any coordinate name, any rank) gives the GeoBox back — for
rotated / sheared boxes of every shape ≥ 1×1 and for axis-aligned boxes of shape ≥ 2×2 (`assign_crs`
writes no GeoTransform, so a one-pixel axis of world labels has nothing to fall back on: see
`assign_crs_1px_lost`). -/
theorem roundtrip_assign_crs (g : GeoBox) (c : Crs) (nt nb : Option Nat) (cn : String) (attrs : List String)
    (a0 : XArr) (hcn : NameOk cn) (hcrs : g.crs = some c)
    (halign : isAffineST g.A = true → g.A.b = 0 ∧ g.A.d = 0)
    (hshape : (isAffineST g.A = false ∧ 1 ≤ g.ny ∧ 1 ≤ g.nx) ∨ (2 ≤ g.ny ∧ 2 ≤ g.nx))
    (hw : wrapNoName (.lin g) nt nb attrs = .ok a0) :
    recover (assignCrs a0 c cn) = .ok (.lin g) := by
  obtain ⟨h1, h2, h3, h4, h5, h6⟩ := hcn
  have e1 := beq_false_of_ne' h1
  have e2 := beq_false_of_ne' h2
  have e3 := beq_false_of_ne' h3
  have e4 := beq_false_of_ne' h4
  have e5 := beq_false_of_ne' h5
  have e6 := beq_false_of_ne' h6
  obtain ⟨ny, nx, A, crs⟩ := g
  simp only at hcrs hshape halign
  subst hcrs
  have hny : 1 ≤ ny := by rcases hshape with h | h <;> omega
  have hnx : 1 ≤ nx := by rcases hshape with h | h <;> omega
  simp only [wrapNoName, wrap, xrCoords, srcDims, bind, Except.bind, pure, Except.pure, Except.map] at hw
  obtain ⟨cid, geo⟩ := c
  by_cases hst : isAffineST A = true
  · obtain ⟨hb, hd⟩ := halign hst
    have h22 : 2 ≤ nx ∧ 2 ≤ ny := by
      rcases hshape with h | h
      · exact absurd hst (by simp [h.1])
      · exact ⟨h.2, h.1⟩
    cases geo
    ·
      rcases nt with _ | nt <;> rcases nb with _ | nb <;>
      simp only [dimsOf, hst, if_true, if_false, Bool.false_eq_true, Except.ok.injEq] at hw <;>
      subst hw <;>
      (rw [recover_lin _ "y" "x" (A.c + A.a / 2) A.a (A.f + A.e / 2) A.e nx ny none none
           (some ⟨cid, false⟩) (some ⟨cid, false⟩) ⟨some ⟨cid, false⟩, none, none⟩ (0, 0)
           (by simp [assignCrs, spatialDims, guessDims, List.lookup, e1, e2, e3, e4, e5, e6])
           (by simp [assignCrs, List.lookup, List.lookup_append, axisLabels_eq_ap, e1, e2, e3, e4, e5, e6])
           (by simp [assignCrs, List.lookup, List.lookup_append, axisLabels_eq_ap, e1, e2, e3, e4, e5, e6])
           (by simp [assignCrs, locateCrsCoords, List.lookup, List.lookup_append, e1, e2, e3, e4, e5, e6])
           rfl hnx hny (Or.inl h22)]
       obtain ⟨a', b, c', d, e', f'⟩ := A
       simp only at hb hd
       subst hb; subst hd
       simp only [resOf, h22.1, h22.2, if_true, composeP2W]
       congr 3
       simp only [Aff.mul_def, Aff.mul, Aff.translation, Aff.scale]
       ext <;> simp <;> ring)
    ·
      rcases nt with _ | nt <;> rcases nb with _ | nb <;>
      simp only [dimsOf, hst, if_true, if_false, Bool.false_eq_true, Except.ok.injEq] at hw <;>
      subst hw <;>
      (rw [recover_lin _ "latitude" "longitude" (A.c + A.a / 2) A.a (A.f + A.e / 2) A.e nx ny none none
           (some ⟨cid, true⟩) (some ⟨cid, true⟩) ⟨some ⟨cid, true⟩, none, none⟩ (0, 0)
           (by simp [assignCrs, spatialDims, guessDims, List.lookup, e1, e2, e3, e4, e5, e6])
           (by simp [assignCrs, List.lookup, List.lookup_append, axisLabels_eq_ap, e1, e2, e3, e4, e5, e6])
           (by simp [assignCrs, List.lookup, List.lookup_append, axisLabels_eq_ap, e1, e2, e3, e4, e5, e6])
           (by simp [assignCrs, locateCrsCoords, List.lookup, List.lookup_append, e1, e2, e3, e4, e5, e6])
           rfl hnx hny (Or.inl h22)]
       obtain ⟨a', b, c', d, e', f'⟩ := A
       simp only at hb hd
       subst hb; subst hd
       simp only [resOf, h22.1, h22.2, if_true, composeP2W]
       congr 3
       simp only [Aff.mul_def, Aff.mul, Aff.translation, Aff.scale]
       ext <;> simp <;> ring)
  · have hst' : isAffineST A = false := by simpa using hst
    cases geo
    ·
      rcases nt with _ | nt <;> rcases nb with _ | nb <;>
      simp only [dimsOf, hst, if_true, if_false, Bool.false_eq_true, Except.ok.injEq] at hw <;>
      subst hw <;>
      (rw [recover_lin _ "y" "x" (1 / 2) 1 (1 / 2) 1 nx ny (some A) (some A) none none
           ⟨some ⟨cid, false⟩, none, none⟩ (1, 1)
           (by simp [assignCrs, spatialDims, guessDims, List.lookup, e1, e2, e3, e4, e5, e6])
           (by simp [assignCrs, List.lookup, List.lookup_append, pixelLabels_eq_ap, e1, e2, e3, e4, e5, e6])
           (by simp [assignCrs, List.lookup, List.lookup_append, pixelLabels_eq_ap, e1, e2, e3, e4, e5, e6])
           (by simp [assignCrs, locateCrsCoords, List.lookup, List.lookup_append, e1, e2, e3, e4, e5, e6])
           rfl hnx hny (Or.inr (by simp [fallbackRes]))]
       simp only [resOf_same, composeP2W]
       congr 3
       obtain ⟨a', b, c', d, e', f'⟩ := A
       simp only [Aff.mul_def, Aff.mul, Aff.translation, Aff.scale]
       ext <;> simp)
    ·
      rcases nt with _ | nt <;> rcases nb with _ | nb <;>
      simp only [dimsOf, hst, if_true, if_false, Bool.false_eq_true, Except.ok.injEq] at hw <;>
      subst hw <;>
      (rw [recover_lin _ "latitude" "longitude" (1 / 2) 1 (1 / 2) 1 nx ny (some A) (some A) none none
           ⟨some ⟨cid, true⟩, none, none⟩ (1, 1)
           (by simp [assignCrs, spatialDims, guessDims, List.lookup, e1, e2, e3, e4, e5, e6])
           (by simp [assignCrs, List.lookup, List.lookup_append, pixelLabels_eq_ap, e1, e2, e3, e4, e5, e6])
           (by simp [assignCrs, List.lookup, List.lookup_append, pixelLabels_eq_ap, e1, e2, e3, e4, e5, e6])
           (by simp [assignCrs, locateCrsCoords, List.lookup, List.lookup_append, e1, e2, e3, e4, e5, e6])
           rfl hnx hny (Or.inr (by simp [fallbackRes]))]
       simp only [resOf_same, composeP2W]
       congr 3
       obtain ⟨a', b, c', d, e', f'⟩ := A
       simp only [Aff.mul_def, Aff.mul, Aff.translation, Aff.scale]
       ext <;> simp)

/-- the excluded corner of `roundtrip_assign_crs`: an axis-aligned 1×5 box registered through `assign_crs`
has no GeoTransform to fall back on — `.odc.geobox` is `None` (replayed on the real code by the harness:
route `assign`, key `…|lost` allowed exactly here). -/
theorem assign_crs_1px_lost :
    ((wrapNoName (.lin ⟨1, 5, ⟨2, 0, 10, 0, -2, 20⟩, some ⟨4326, true⟩⟩) none none []).bind
        (fun a => recover (assignCrs a ⟨4326, true⟩ "crs"))) = .ok .nothing := by
  decide +kernel

/-! ## GCP boxes -/

/-- **roundtrip_gcp_points** — a GCP-registered array (identity pixel transform, CRS attached, any
shape ≥ 1×1 incl. single row / column: second defect repaired on fix-C09) gives back a GCPGeoBox
with the same shape, CRS, pixel transform and the *same ground control points*, hence the same
pixel→world function (the polynomial fit is a function of the point set).  `==` on GCPGeoBox
compares the mapping object by identity and is therefore never `True` after a round trip
(shared known finding `gcp-geobox-eq-identity`, owned by C19). -/
theorem roundtrip_gcp_points (ny nx : Nat) (pts : List Gcp) (c : Crs) (nt nb : Option Nat)
    (attrs : List String) (a0 : XArr) (hny : 1 ≤ ny) (hnx : 1 ≤ nx)
    (hw : wrap (.gcp ⟨ny, nx, pts, Aff.id, some c⟩) nt nb "spatial_ref" attrs = .ok a0) :
    recover a0 = .ok (.gcp ⟨ny, nx, pts, Aff.id, some c⟩) := by
  have hpts : pts.map (fun p => (⟨(Aff.id.inv.apply (p.col, p.row)).1, (Aff.id.inv.apply (p.col, p.row)).2,
      p.x, p.y⟩ : Gcp)) = pts := by
    conv_rhs => rw [← List.map_id pts]
    apply List.map_congr_left
    intro p _
    cases p
    simp [Aff.inv, Aff.id, Aff.apply, Aff.det]
  have hdet : (Aff.id.det = 0) = False := by simp [Aff.det, Aff.id]
  simp only [wrap, xrCoords, exportGcps, Aff.inv?, hdet, if_false, srcDims, bind, Except.bind, pure,
    Except.pure, hpts] at hw
  have hfb : (2 ≤ nx ∧ 2 ≤ ny) ∨ fallbackRes (if true then none else none)
      (some ⟨some c, none, some pts⟩) true = .ok (some ((1 : Rat), (1 : Rat))) := Or.inr (by simp [fallbackRes])
  have hex := extractTransform_ap (1 / 2) 1 (1 / 2) 1 nx ny hnx hny none (some ⟨some c, none, some pts⟩) true
    (1, 1) hfb
  have hex' : extractTransform (ap 2⁻¹ 1 nx) (ap 2⁻¹ 1 ny) none (some ⟨some c, none, some pts⟩) true
      = .ok (some Aff.id) := by
    simp only [one_div] at hex
    rw [hex]
    simp [composeP2W, resOf_same, Aff.mul_def, Aff.mul, Aff.translation, Aff.scale, Aff.id]
  rcases dimsOf_cases (some c) with hd | hd <;> rw [hd] at hw <;>
  rcases nt with _ | nt <;> rcases nb with _ | nb <;>
  (injection hw with hw; subst hw) <;>
  simp [recover, spatialDims, guessDims, locateCrsCoords, List.lookup, pixelLabels_eq_ap, hex', ap_length]

end OdcGeo.C09
