/- C09 — property theorems only. -/
import OdcGeo.Model.C09
namespace OdcGeo.C09

end OdcGeo.C09
