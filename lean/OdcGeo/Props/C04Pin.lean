/-
C04 — observations of the growth round, decided on the real code against the property text.

* chunk tuples that do not add up to the GeoBox (`GeoboxTiles(GeoBox((4,7)), ((3,3),(2,9)))`): the
  tiles did not cover the GeoBox they claim to partition – a defect, **repaired** (`gbtInitR`):
  the constructor raises; a constructed tiled GeoBox always has its GeoBox as base, so the
  `base = shape` hypotheses of C12's `GBT.WF` are facts about every object the public constructor
  returns.
* negative tile sizes, block keys that name one tile twice, over-long index tuples: outside the
  property's quantifier (tile sizes are sizes, keys are tile positions, indices are pairs);
  behaviour **pinned** here as it is and replayed on the real code by the correspondence.
-/
import OdcGeo.Model.C04Args
import OdcGeo.Props.C04
import Mathlib.Tactic.Linarith
namespace OdcGeo.C04
open OdcGeo OdcGeo.C17 OdcGeo.NpArray

/-- **a constructed tiled GeoBox is tiled exactly** (as repaired): whatever form `tile_shape` has –
regular or chunk tuples – success means the tiling's base is the GeoBox shape -/
theorem gbtInitR_covers (box : GBox) (how : Option HowArg) (g : GeoboxTiles)
    (h : gbtInitR box how none = .ok g) :
    g.base = box ∧ g.tiles.y.base = box.ny ∧ g.tiles.x.base = box.nx := by
  simp only [gbtInitR, bind, Except.bind] at h
  cases hg : gbtInit box how none with
  | error e => rw [hg] at h; cases h
  | ok g' =>
    rw [hg] at h
    simp only at h
    split at h
    · next hc =>
      cases h
      refine ⟨?_, hc.1, hc.2⟩
      cases how with
      | none => simp [gbtInit] at hg
      | some hw =>
        simp only [gbtInit, bind, Except.bind] at hg
        cases hr : roiTiles (.shape2d box.nx box.ny) hw with
        | error e => rw [hr] at hg; cases hg
        | ok t => rw [hr] at hg; cases hg; rfl
    · cases h

/-- chunk tuples that do not add up to the GeoBox are refused -/
theorem gbtInitR_mismatch_raises (box : GBox) (chy chx : List Int)
    (h : vbase chy ≠ box.ny ∨ vbase chx ≠ box.nx) :
    gbtInitR box (some (.chunks chy [chx])) none = .error .valueError := by
  have hg : gbtInit box (some (.chunks chy [chx])) none = .ok ⟨box, ⟨.var chy, .var chx⟩⟩ := rfl
  simp only [gbtInitR, hg, bind, Except.bind]
  split
  · next hc =>
    exfalso
    rcases h with h | h
    · exact h hc.1
    · exact h hc.2
  · rfl

/-- matching chunk tuples, and every successful regular form, construct what the constructor as
found constructed -/
theorem gbtInitR_eq_of_base (box : GBox) (how : Option HowArg) (g : GeoboxTiles)
    (hg : gbtInit box how none = .ok g) (hb : g.tiles.y.base = box.ny ∧ g.tiles.x.base = box.nx) :
    gbtInitR box how none = .ok g := by
  simp only [gbtInitR, hg, bind, Except.bind]
  rw [if_pos hb]

/-- a given `_tiles` is used as is (what `_crop` / `clip` rely on) -/
theorem gbtInitR_given (box : GBox) (how : Option HowArg) (t : Tiling2) :
    gbtInitR box how (some t) = .ok ⟨box, t⟩ := rfl

/-- the witness of the observation: refused now (`gbt_variable_exceeds_geobox_cex` is the constructor
as found) -/
theorem gbt_variable_exceeds_geobox_refused :
    gbtInitR ⟨4, 7, Aff.id⟩ (some (.chunks [3, 3] [[2, 9]])) none = .error .valueError := by
  apply gbtInitR_mismatch_raises
  left; decide

example : gbtInitR ⟨4, 7, Aff.id⟩ (some (.chunks [3, 1] [[2, 5]])) none = .ok ⟨⟨4, 7, Aff.id⟩, ⟨.var [3, 1], .var [2, 5]⟩⟩ :=
  gbtInitR_eq_of_base _ _ _ rfl ⟨by decide, by decide⟩

/-! ## pinned, outside the quantifier of the property -/

/-- a *negative* tile size is not refused: the tile count is negative and "tile 0" is an empty
region that ends before it starts; `0` raises `ZeroDivisionError`.  (The theorems of `Props/C04`
carry `0 < n`.) -/
theorem negative_tile_size_pinned_cex :
    mkCount 10 (-3) = .ok (-3) ∧ getItem 10 (-3) (.idx 0) = .ok ⟨0, -3⟩ ∧
    mkCount 10 0 = .error .zeroDiv := by decide

/-- block keys are looked up like tuple indices: `(-1, 0)` and `(1, 0)` name the same tile of a
two-row layout; both are pasted, in mapping order, so the *later* block is what the mosaic shows -/
theorem negative_key_later_block_wins_cex :
    let a : Assembler Int := { chy := [1, 1], chx := [1], present := [(-1, 0), (1, 0)],
                               blk := fun k _ _ _ _ => if k = (-1, 0) then 7 else 9, lead := [], trail := [] }
    (extract a 0 [] (.slc none none) (.slc none none) []).map (fun r => r.2 [] 1 0 []) = .ok 9 ∧
    let b : Assembler Int := { a with present := [(1, 0), (-1, 0)] }
    (extract b 0 [] (.slc none none) (.slc none none) []).map (fun r => r.2 [] 1 0 []) = .ok 7 := by
  decide

end OdcGeo.C04
