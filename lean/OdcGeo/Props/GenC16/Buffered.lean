/-
C16 — source tie, piece `Buffered` (see OdcGeo/Props/GenC16.lean): `BoundingBox.buffered`.
-/
import OdcGeo.Gen.C16
import OdcGeo.Gen.Tie
import OdcGeo.Props.C16

namespace OdcGeo.C16
open OdcGeo.Gen

/-- `BoundingBox.buffered(xbuff, ybuff=None)` -/
theorem tie_bbox_buffered (bb : BBox Rat) (xbuff : Rat) (ybuff : Option Rat) :
    Gen.C16.bbox_buffered bb xbuff ybuff = bb.buffered xbuff ybuff := by
  cases ybuff <;> tie_auto [Gen.C16.bbox_buffered, BBox.buffered]

/-- `bbox_buffered_spec` for the source `buffered` -/
theorem gen_bbox_buffered_spec (bb : BBox Rat) (xb yb : Rat) :
    (0 ≤ xb → 0 ≤ yb → bb.Within (Gen.C16.bbox_buffered bb xb (some yb))) ∧
    (Gen.C16.bbox_buffered bb xb (some yb)).spanX = bb.spanX + 2 * xb ∧
    (Gen.C16.bbox_buffered bb xb (some yb)).spanY = bb.spanY + 2 * yb ∧
    Gen.C16.bbox_buffered bb xb none = Gen.C16.bbox_buffered bb xb (some xb) ∧
    Gen.C16.bbox_buffered (Gen.C16.bbox_buffered bb xb (some yb)) (-xb) (some (-yb)) = bb := by
  simp only [tie_bbox_buffered]; exact bbox_buffered_spec bb xb yb

end OdcGeo.C16
