/-
C16 — source tie, piece `FromPoints` (see OdcGeo/Props/GenC16.lean): `BoundingBox.from_xy`, `from_points`.
-/
import OdcGeo.Gen.C16
import OdcGeo.Gen.Tie
import OdcGeo.Props.C16

namespace OdcGeo.C16
open OdcGeo.Gen

theorem tie_bbox_from_xy (x y : Rat × Rat) (crs : Option Nat) :
    Gen.C16.bbox_from_xy x y crs = BBox.fromXY x y crs := by
  tie_auto [Gen.C16.bbox_from_xy, BBox.fromXY]

theorem tie_bbox_from_points (p1 p2 : Rat × Rat) (crs : Option Nat) :
    Gen.C16.bbox_from_points p1 p2 crs = BBox.fromPoints p1 p2 crs := by
  tie_auto [Gen.C16.bbox_from_points, BBox.fromPoints, tie_bbox_from_xy]

/-- `bbox_from_points_spec` for the source `from_points` -/
theorem gen_bbox_from_points_spec (p1 p2 : Rat × Rat) (crs : Option Nat) :
    let bb := Gen.C16.bbox_from_points p1 p2 crs
    bb.left ≤ bb.right ∧ bb.bottom ≤ bb.top ∧ bb.Contains p1 ∧ bb.Contains p2 ∧
    ∀ c : BBox Rat, c.Contains p1 → c.Contains p2 → bb.Within c := by
  simp only [tie_bbox_from_points]; exact bbox_from_points_spec p1 p2 crs

end OdcGeo.C16
