/-
C16 — source tie, piece `Span` (see OdcGeo/Props/GenC16.lean): `span_x`, `span_y`, `width`, `height`, `shape`.
-/
import OdcGeo.Gen.C16
import OdcGeo.Gen.Tie
import OdcGeo.Props.C16

namespace OdcGeo.C16
open OdcGeo.Gen

theorem py_trunc_eq (x : Rat) : Py.trunc x = pyInt x := rfl

theorem tie_bbox_span_x (bb : BBox Rat) : Gen.C16.bbox_span_x bb = bb.spanX := by
  tie_auto [Gen.C16.bbox_span_x, BBox.spanX]

theorem tie_bbox_span_y (bb : BBox Rat) : Gen.C16.bbox_span_y bb = bb.spanY := by
  tie_auto [Gen.C16.bbox_span_y, BBox.spanY]

theorem tie_bbox_width (bb : BBox Rat) : Gen.C16.bbox_width bb = bb.width := by
  tie_auto [Gen.C16.bbox_width, BBox.width, py_trunc_eq]

theorem tie_bbox_height (bb : BBox Rat) : Gen.C16.bbox_height bb = bb.height := by
  tie_auto [Gen.C16.bbox_height, BBox.height, py_trunc_eq]

theorem tie_bbox_shape (bb : BBox Rat) : Gen.C16.bbox_shape bb = bb.shape := by
  tie_auto [Gen.C16.bbox_shape, BBox.shape, tie_bbox_height, tie_bbox_width]

/-- `bbox_shape_int` for the source `shape` -/
theorem gen_bbox_shape_int (l b r t : Int) (crs : Option Nat) :
    Gen.C16.bbox_shape (⟨(l : Rat), (b : Rat), (r : Rat), (t : Rat), crs⟩ : BBox Rat) = (t - b, r - l) := by
  rw [tie_bbox_shape]; exact bbox_shape_int l b r t crs

end OdcGeo.C16
