/-
C02, Lean-only increment: more composition laws of the GeoBox views over the existing model
(`Model/C02.lean`, `Model/C02Glue.lean`).  Nothing here is new model code.
-/
import OdcGeo.Props.C02Glue

namespace OdcGeo.C02
open OdcGeo.C17 (PIdx NSlice normSlice wrapNeg)

theorem wrapNeg_nonneg' (n a : Int) (ha : 0 ≤ a) : wrapNeg n a = a := by simp [wrapNeg, ha]

/-- **crop ∘ crop**: a window of a window is the window at the summed offsets:
`gbox[y0:y1, x0:x1][a:b, c:d] = gbox[y0+a : y0+b, x0+c : x0+d]` (non-negative bounds; the code does not clamp). -/
theorem crop_crop (g : GeoBox) (y0 y1 x0 x1 a b c d : Int)
    (h : 0 ≤ y0 ∧ 0 ≤ y1 ∧ 0 ≤ x0 ∧ 0 ≤ x1 ∧ 0 ≤ a ∧ 0 ≤ b ∧ 0 ≤ c ∧ 0 ≤ d) :
    crop (crop g (.two (.slc (some y0) (some y1)) (.slc (some x0) (some x1)))) (.two (.slc (some a) (some b)) (.slc (some c) (some d)))
      = crop g (.two (.slc (some (y0 + a)) (some (y0 + b))) (.slc (some (x0 + c)) (some (x0 + d)))) := by
  obtain ⟨h1, h2, h3, h4, h5, h6, h7, h8⟩ := h
  obtain ⟨ny, nx, ⟨A, B, C, D, E, F⟩, crs⟩ := g
  simp only [crop, normSlice, wrapNeg_nonneg' _ _ h1, wrapNeg_nonneg' _ _ h2, wrapNeg_nonneg' _ _ h3, wrapNeg_nonneg' _ _ h4,
    wrapNeg_nonneg' _ _ h5, wrapNeg_nonneg' _ _ h6, wrapNeg_nonneg' _ _ h7, wrapNeg_nonneg' _ _ h8,
    wrapNeg_nonneg' _ (y0 + a) (by omega), wrapNeg_nonneg' _ (y0 + b) (by omega), wrapNeg_nonneg' _ (x0 + c) (by omega),
    wrapNeg_nonneg' _ (x0 + d) (by omega), GeoBox.mk.injEq, and_true]
  refine ⟨by omega, by omega, ?_⟩
  apply Aff.ext' <;> simp [Aff.mul_def, Aff.mul, Aff.translation] <;> ring

example : crop (crop gEx (.two (.slc (some 2) (some 9)) (.slc (some 3) (some 17)))) (.two (.slc (some 1) (some 4)) (.slc (some 2) (some 5)))
    = crop gEx (.two (.slc (some 3) (some 6)) (.slc (some 5) (some 8))) :=
  crop_crop gEx 2 9 3 17 1 4 2 5 (by decide)

/-- **pad ∘ pad** adds the margins (any signs), also through the `pady = None` default. -/
theorem pad_pad (g : GeoBox) (p q p' q' : Int) :
    pad (pad g p (some q)) p' (some q') = pad g (p + p') (some (q + q')) ∧
    pad (pad g p none) p' none = pad g (p + p') none := by
  obtain ⟨ny, nx, ⟨A, B, C, D, E, F⟩, crs⟩ := g
  constructor <;>
  · simp only [pad, GeoBox.mk.injEq, and_true]
    refine ⟨by omega, by omega, ?_⟩
    apply Aff.ext' <;> simp [Aff.mul_def, Aff.mul, Aff.translation] <;> ring

example : pad (pad gEx 2 (some (-1))) 3 (some 4) = pad gEx 5 (some 3) := (pad_pad gEx 2 (-1) 3 4).1

/-- **a window is a pixel translation followed by a resize**: `gbox[y0:y1, x0:x1] =
gbox.translate_pix(x0, y0).crop((y1−y0, x1−x0))`. -/
theorem crop_is_translate_resize (g : GeoBox) (y0 y1 x0 x1 : Int) (h : 0 ≤ y0 ∧ 0 ≤ y1 ∧ 0 ≤ x0 ∧ 0 ≤ x1) :
    crop g (.two (.slc (some y0) (some y1)) (.slc (some x0) (some x1)))
      = resize (translatePix g (x0 : Rat) (y0 : Rat)) (y1 - y0) (x1 - x0) := by
  obtain ⟨h1, h2, h3, h4⟩ := h
  simp [crop, normSlice, wrapNeg_nonneg' _ _ h1, wrapNeg_nonneg' _ _ h2, wrapNeg_nonneg' _ _ h3, wrapNeg_nonneg' _ _ h4,
    resize, translatePix, mulPix]

example : crop gEx (.two (.slc (some 2) (some 9)) (.slc (some 3) (some 17))) = resize (translatePix gEx 3 2) 7 14 := by
  have := crop_is_translate_resize gEx 2 9 3 17 (by decide)
  simpa using this

/-- **flipx ∘ flipy is the half turn about the centre** (as geoboxes: shape, affine, CRS), and the two flips commute. -/
theorem flipx_flipy_is_half_turn (g : GeoBox) :
    flipx (flipy g) = rotateQuarter g 2 ∧ flipy (flipx g) = flipx (flipy g) := by
  obtain ⟨ny, nx, ⟨A, B, C, D, E, F⟩, crs⟩ := g
  have hq : quarterCS 2 = (-1, 0) := by decide
  constructor
  · simp only [rotateQuarter, hq, flipx, flipy, mulPix, rotate, mulWld, rotationAbout, Aff.apply, GeoBox.mk.injEq, true_and, and_true]
    apply Aff.ext' <;> simp [Aff.mul_def, Aff.mul, Aff.translation, Aff.scale] <;> ring
  · simp only [flipx, flipy, mulPix, GeoBox.mk.injEq, true_and, and_true]
    apply Aff.ext' <;> simp [Aff.mul_def, Aff.mul, Aff.translation, Aff.scale] <;> ring

example : flipx (flipy gEx) = ⟨10, 20, ⟨-2, 0, 140, 0, 2, 30⟩, 1⟩ ∧ rotateQuarter gEx 2 = ⟨10, 20, ⟨-2, 0, 140, 0, 2, 30⟩, 1⟩ := by
  decide +kernel

/-- **zoom_out ∘ zoom_out**: for integer factors dividing the shape, `gbox.zoom_out(k1).zoom_out(k2) = gbox.zoom_out(k1·k2)`. -/
theorem zoom_out_zoom_out (g : GeoBox) (k1 k2 my mx : Int) (hk1 : 1 ≤ k1) (hk2 : 1 ≤ k2) (hmy : 1 ≤ my) (hmx : 1 ≤ mx)
    (hy : g.ny = k1 * k2 * my) (hx : g.nx = k1 * k2 * mx) :
    (zoomOut g (k1 : Rat)).bind (fun z => zoomOut z (k2 : Rat)) = zoomOut g ((k1 : Rat) * (k2 : Rat)) := by
  have h1 : (k1 : Rat) ≠ 0 := by exact_mod_cast (by omega : k1 ≠ 0)
  have h2 : (k2 : Rat) ≠ 0 := by exact_mod_cast (by omega : k2 ≠ 0)
  have h12 : (k1 : Rat) * (k2 : Rat) ≠ 0 := mul_ne_zero h1 h2
  have c1 : ∀ m : Int, 1 ≤ m → ceil1 ((((k1 * k2 * m : Int)) : Rat) / k1) = k2 * m := by
    intro m hm
    have e : (((k1 * k2 * m : Int)) : Rat) / k1 = ((k2 * m : Int) : Rat) := by push_cast; field_simp
    have : 1 ≤ k2 * m := by nlinarith
    rw [e]; simp only [ceil1, ceil_intCast']; omega
  have c2 : ∀ m : Int, 1 ≤ m → ceil1 ((((k2 * m : Int)) : Rat) / k2) = m := by
    intro m hm
    have e : (((k2 * m : Int)) : Rat) / k2 = ((m : Int) : Rat) := by push_cast; field_simp
    rw [e]; simp only [ceil1, ceil_intCast']; omega
  have c3 : ∀ m : Int, 1 ≤ m → ceil1 ((((k1 * k2 * m : Int)) : Rat) / ((k1 : Rat) * (k2 : Rat))) = m := by
    intro m hm
    have e : (((k1 * k2 * m : Int)) : Rat) / ((k1 : Rat) * (k2 : Rat)) = ((m : Int) : Rat) := by push_cast; field_simp
    rw [e]; simp only [ceil1, ceil_intCast']; omega
  simp only [zoomOut, h1, h2, h12, if_false, Except.bind, hy, hx, c1 my hmy, c1 mx hmx, c2 my hmy, c2 mx hmx, c3 my hmy, c3 mx hmx,
    Except.ok.injEq, GeoBox.mk.injEq, true_and, and_true]
  obtain ⟨ny, nx, ⟨A, B, C, D, E, F⟩, crs⟩ := g
  apply Aff.ext' <;> simp [Aff.mul_def, Aff.mul, Aff.scale] <;> ring

example : (zoomOut ⟨12, 24, Aff.id, 1⟩ 2).bind (fun z => zoomOut z 3) = zoomOut ⟨12, 24, Aff.id, 1⟩ 6 := by
  have := zoom_out_zoom_out ⟨12, 24, Aff.id, 1⟩ 2 3 2 4 (by decide) (by decide) (by decide) (by decide) (by decide) (by decide)
  have e : ((2 : Int) : Rat) * ((3 : Int) : Rat) = 6 := by norm_num
  rw [e] at this
  simpa using this

/-- **neighbours**: horizontal and vertical steps commute, and two steps to the right are one pixel translation by
twice the width (`left / right / top / bottom` are inverse in pairs: `view_algebra`). -/
theorem neighbours_commute (g : GeoBox) :
    top (left g) = left (top g) ∧ bottom (right g) = right (bottom g) ∧ top (right g) = right (top g) ∧
    right (right g) = translatePix g (2 * (g.nx : Rat)) 0 ∧ bottom (bottom g) = translatePix g 0 (2 * (g.ny : Rat)) := by
  obtain ⟨ny, nx, ⟨A, B, C, D, E, F⟩, crs⟩ := g
  refine ⟨?_, ?_, ?_, ?_, ?_⟩ <;>
  · simp only [top, left, bottom, right, translatePix, mulPix, GeoBox.mk.injEq, true_and, and_true]
    apply Aff.ext' <;> simp [Aff.mul_def, Aff.mul, Aff.translation] <;> ring

example : right (right gEx) = ⟨10, 20, ⟨2, 0, 180, 0, -2, 50⟩, 1⟩ := by decide +kernel

end OdcGeo.C02
