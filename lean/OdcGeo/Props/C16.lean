/-
C16 — GeoBox and bounding-box set operations respect the common pixel grid.

Parts A–E (lattice laws, pixel-set semantics on a common grid, enclosing, snap_to, rejection) are in
`Props/C16Core.lean`.  This file continues with

Part F  n-ary union / intersection do not depend on the order of the operands (any permutation).
Part G  `snap_to` cooperates with the set operations: the two `1e-8` tolerances agree.
Part H  `enclosing` never returns an empty GeoBox; degenerate regions get one pixel.
Part I  `overlap_roi` is normalised; composition with the C02 views (`gbox[roi]`, neighbours, flips, pad).
Part J  more of `BoundingBox`: `buffered`, `shape`, `from_points`, `from_transform`.
Part K  IEEE specials in `bbox_union` / `bbox_intersection` (as the code behaves on HEAD).
-/
import OdcGeo.Props.C16Core
import OdcGeo.Model.C16Link

namespace OdcGeo.C16
open OdcGeo

/-! ## Part F — order independence of the n-ary forms -/

/-- `geobox_union_conservative` gives the same GeoBox (shape *and* world affine) for every ordering
of its operands, in particular whichever operand comes first and serves as the reference. -/
theorem union_list_perm (g0 : GeoBox) (hdet : g0.aff.det ≠ 0) (r r' : Rect) (ss ss' : List Rect)
    (p : (r :: ss).Perm (r' :: ss')) :
    geoboxUnionConservative ((r :: ss).map (onGrid g0)) =
    geoboxUnionConservative ((r' :: ss').map (onGrid g0)) := by
  rw [union_list_onGrid g0 hdet, union_list_onGrid g0 hdet,
    foldl_perm_head Rect.union Rect.union_rc Rect.union_absorb Rect.union_self Rect.union_comm r r' ss ss' p]

/-- the same for `geobox_intersection_conservative`, empty results included -/
theorem inter_list_perm (g0 : GeoBox) (hdet : g0.aff.det ≠ 0) (r r' : Rect) (ss ss' : List Rect)
    (p : (r :: ss).Perm (r' :: ss')) :
    geoboxIntersectionConservative ((r :: ss).map (onGrid g0)) =
    geoboxIntersectionConservative ((r' :: ss').map (onGrid g0)) := by
  rw [inter_list_onGrid g0 hdet, inter_list_onGrid g0 hdet,
    foldl_perm_head Rect.rawInter Rect.rawInter_rc Rect.rawInter_absorb Rect.rawInter_self
      Rect.rawInter_comm r r' ss ss' p]

example : ([⟨0, 0, 2, 2⟩, ⟨1, 1, 3, 3⟩, ⟨5, 0, 6, 1⟩] : List Rect).Perm
    [⟨5, 0, 6, 1⟩, ⟨0, 0, 2, 2⟩, ⟨1, 1, 3, 3⟩] := by decide

/-! ## Part G — `snap_to` and the set operations use matching tolerances -/

/-- A grid within `tolPix` of a whole-pixel shift is accepted by `|`, `&`, `overlap_roi` in both
operand orders (auxiliary form of `compatible_accepted` for the operators). -/
theorem ops_accept_near_shift (a b : GeoBox) (hc : b.crs = a.crs) (hdet : a.aff.det ≠ 0)
    (kx ky : Int) (ex ey : Rat) (h : b.aff = a.aff * Aff.translation (kx + ex) (ky + ey))
    (hx : |ex| < tolPix) (hy : |ey| < tolPix) :
    (∃ u, a.or b = .ok u) ∧ (∃ i, a.and b = .ok i) ∧ (∃ roi, a.overlapRoi b tolPix = .ok roi) ∧
    (∃ u, b.or a = .ok u) ∧ (∃ i, b.and a = .ok i) ∧ (∃ roi, b.overlapRoi a tolPix = .ok roi) := by
  have tp : tolPix ≤ 1 / 2 := by unfold tolPix; norm_num
  have hab := compatible_accepted b a hc hdet kx ky ex ey tolPix h hx hy tp
  have haa := bboxInPixelDomain_of_mul a a rfl hdet 0 0
    (by simp [translation_zero, Aff.mul_id]) tolPix tolPix_pos
  have hdetb : b.aff.det ≠ 0 := by rw [h, det_mul_translation]; exact hdet
  have hba : bboxInPixelDomain a b tolPix = .ok ⟨-kx, -ky, -kx + a.nx, -ky + a.ny, none⟩ := by
    refine compatible_accepted a b hc.symm hdetb (-kx) (-ky) (-ex) (-ey) tolPix ?_
      (by rwa [abs_neg]) (by rwa [abs_neg]) tp
    rw [h, Aff.mul_assoc', translation_mul_translation]
    have e1 : (kx : Rat) + ex + (((-kx : Int) : Rat) + -ex) = 0 := by push_cast; ring
    have e2 : (ky : Rat) + ey + (((-ky : Int) : Rat) + -ey) = 0 := by push_cast; ring
    rw [e1, e2, translation_zero, Aff.mul_id]
  have hbb := bboxInPixelDomain_of_mul b b rfl hdetb 0 0
    (by simp [translation_zero, Aff.mul_id]) tolPix tolPix_pos
  refine ⟨?_, ?_, ?_, ?_, ?_, ?_⟩
  · simp [GeoBox.or, geoboxUnionConservative, allBBoxes, haa, hab, bboxUnion, foldRes, unionStep]
  · simp [GeoBox.and, geoboxIntersectionConservative, allBBoxes, haa, hab, bboxIntersection, foldRes, interStep]
  · simp [GeoBox.overlapRoi, hab]
  · simp [GeoBox.or, geoboxUnionConservative, allBBoxes, hbb, hba, bboxUnion, foldRes, unionStep]
  · simp [GeoBox.and, geoboxIntersectionConservative, allBBoxes, hbb, hba, bboxIntersection, foldRes, interStep]
  · simp [GeoBox.overlapRoi, hba]

/-- **After `s = a.snap_to(b)` the set operations between `s` and `b` work** (both operand orders):
the threshold `1e-8` below which `snap_to` leaves an offset alone (`maybe_zero`) is the same `1e-8`
within which `bounding_box_in_pixel_domain` accepts an offset as whole, and both tests are strict
on the same side.  (A larger `maybe_zero` threshold would leave results that `|`, `&`,
`overlap_roi` reject.) -/
theorem snap_then_ops_succeed (self other : GeoBox) (hdet : self.aff.det ≠ 0) (tx ty : Rat)
    (h : other.aff = self.aff * Aff.translation tx ty) (hc : other.crs = self.crs) :
    ∃ s, self.snapTo other = .ok s ∧
      (∃ u, s.or other = .ok u) ∧ (∃ i, s.and other = .ok i) ∧ (∃ roi, s.overlapRoi other tolPix = .ok roi) ∧
      (∃ u, other.or s = .ok u) ∧ (∃ i, other.and s = .ok i) ∧ (∃ roi, other.overlapRoi s tolPix = .ok roi) := by
  obtain ⟨s, dx, dy, kx, ky, ex, ey, hs, _, _, _, hcrs, _, _, hon, hex, hey⟩ :=
    snap_to_half_pixel self other hdet tx ty h hc
  have hdeto : other.aff.det ≠ 0 := by rw [h, det_mul_translation]; exact hdet
  have ax : |ex| < tolPix := by
    rcases hex with rfl | ⟨_, h'⟩
    · simpa using tolPix_pos
    · exact h'
  have ay : |ey| < tolPix := by
    rcases hey with rfl | ⟨_, h'⟩
    · simpa using tolPix_pos
    · exact h'
  obtain ⟨h1, h2, h3, h4, h5, h6⟩ :=
    ops_accept_near_shift other s (hcrs.trans hc.symm) hdeto kx ky ex ey hon ax ay
  exact ⟨s, hs, h4, h5, h6, h1, h2, h3⟩

/-! ## Part H — `enclosing` never returns an empty GeoBox -/

/-- whatever the region (a point on a pixel corner, a segment along a pixel edge, …) the result has
at least one pixel on each axis -/
theorem enclosing_never_empty (g : GeoBox) (rc : Option Nat) (p : Rat × Rat) (ps : List (Rat × Rat))
    (res : GeoBox) (h : g.enclosing rc p ps = .ok res) : 1 ≤ res.nx ∧ 1 ≤ res.ny ∧ res.isEmpty = false := by
  unfold GeoBox.enclosing at h
  split at h
  · cases h
  · split at h
    · cases h
    · split at h
      · cases h
      · cases h
        have hx : ∀ a : Int, 1 ≤ max 1 a := fun a => le_max_left _ _
        have hz : ∀ a : Int, (max 1 a == 0) = false := by
          intro a; have := hx a; simp only [beq_eq_false_iff_ne, ne_eq]; omega
        refine ⟨hx _, hx _, ?_⟩
        simp only [GeoBox.isEmpty, hz, Bool.or_self]

/-- a region with zero extent along x that sits exactly on the pixel edge `x = k` of the grid (a
vertical segment, or a point) gets exactly one pixel column starting at `k` — never zero columns -/
theorem enclosing_on_pixel_edge (g : GeoBox) (hdet : g.aff.det ≠ 0) (rc : Option Nat) (hrc : rc ≠ none)
    (hg : g.crs ≠ none) (k : Int) (ys : List Rat) (y0 : Rat) :
    ∃ res, g.enclosing rc (g.aff.apply ((k : Rat), y0)) (ys.map fun y => g.aff.apply ((k : Rat), y)) = .ok res ∧
      res.nx = 1 ∧ ∃ ty : Int, res.aff = g.aff * Aff.translation k ty := by
  have hmin : ∀ l : List Rat, (∀ v ∈ l, v = (k : Rat)) → minL (k : Rat) l = k := by
    intro l; induction l with
    | nil => intro _; rfl
    | cons v vs ih =>
      intro hl
      simp only [minL, hl v (List.mem_cons_self ..), min_self]
      exact ih fun w hw => hl w (List.mem_cons_of_mem _ hw)
  have hmax : ∀ l : List Rat, (∀ v ∈ l, v = (k : Rat)) → maxL (k : Rat) l = k := by
    intro l; induction l with
    | nil => intro _; rfl
    | cons v vs ih =>
      intro hl
      simp only [maxL, hl v (List.mem_cons_self ..), max_self]
      exact ih fun w hw => hl w (List.mem_cons_of_mem _ hw)
  have hall : ∀ v ∈ List.map (fun x : Rat × Rat => x.1)
      (List.map g.aff.inv.apply (List.map (fun y => g.aff.apply ((k : Rat), y)) ys)), v = (k : Rat) := by
    intro v hv
    simp only [List.mem_map] at hv
    obtain ⟨q, ⟨w, ⟨y, _, rfl⟩, rfl⟩, rfl⟩ := hv
    rw [Aff.inv_apply_apply g.aff hdet]
  simp only [GeoBox.enclosing, if_neg hrc, if_neg hg, Aff.inv?, if_neg hdet, bboxOfPoints, BBox.round,
    GeoBox.translatePix, Aff.inv_apply_apply g.aff hdet]
  rw [hmin _ hall, hmax _ hall]
  refine ⟨_, rfl, ?_, _, rfl⟩
  simp [Rat.floor_intCast, Rat.ceil_intCast]

/-! ## Part I — `overlap_roi` is normalised; composition with the C02 views -/

/-- the ROI has non-negative, ordered bounds on both axes (never a negative stop that numpy would wrap) -/
theorem overlap_roi_normalised (a b : GeoBox) (tol : Rat) (roi : Roi) (h : a.overlapRoi b tol = .ok roi) :
    0 ≤ roi.x0 ∧ roi.x0 ≤ roi.x1 ∧ 0 ≤ roi.y0 ∧ roi.y0 ≤ roi.y1 := by
  unfold GeoBox.overlapRoi at h
  split at h
  · cases h
  · cases h
    exact ⟨le_max_left _ _, le_max_left _ _, le_max_left _ _, le_max_left _ _⟩

/-- `gbox[y0:y1, x0:x1]` (C02's `crop`) of a member of a family, for a normalised ROI -/
theorem cropRoi_onGrid (g0 : GeoBox) (hcrs : g0.crs ≠ some 0) (t : Rect) (roi : Roi)
    (h : 0 ≤ roi.x0 ∧ 0 ≤ roi.x1 ∧ 0 ≤ roi.y0 ∧ 0 ≤ roi.y1) :
    (onGrid g0 t).cropRoi roi =
      onGrid g0 ⟨t.x0 + roi.x0, t.y0 + roi.y0, t.x0 + roi.x1, t.y0 + roi.y1⟩ := by
  obtain ⟨h1, h2, h3, h4⟩ := h
  have hc : (if g0.crs.getD 0 = 0 then none else some (g0.crs.getD 0)) = g0.crs := by
    cases hcr : g0.crs with
    | none => simp
    | some c =>
      have : c ≠ 0 := fun e => hcrs (by rw [hcr, e])
      simp [this]
  simp only [GeoBox.cropRoi, ofC02, toC02, C02.crop, C17.normSlice, C17.wrapNeg, onGrid, ge_iff_le, h1, h2, h3, h4,
    if_true, GeoBox.mk.injEq, hc, and_true]
  refine ⟨by omega, by omega, ?_⟩
  rw [Aff.mul_assoc', translation_mul_translation]
  congr 2 <;> push_cast <;> ring

/-- **Cropping `a` by `a.overlap_roi(b)` is `a & b`** — same shape and same world affine, also when
there is no overlap (both are the same empty GeoBox). -/
theorem crop_overlap_is_intersection (g0 : GeoBox) (hdet : g0.aff.det ≠ 0) (hcrs : g0.crs ≠ some 0)
    (r s : Rect) :
    cropOverlap (onGrid g0 r) (onGrid g0 s) tolPix = (onGrid g0 r).and (onGrid g0 s) := by
  rw [and_onGrid g0 hdet]
  simp only [cropOverlap, GeoBox.overlapRoi, bbpd_onGrid g0 hdet _ _ _ tolPix_pos]
  rw [cropRoi_onGrid g0 hcrs r _ ⟨le_max_left _ _, (le_max_left _ _).trans (le_max_left _ _),
    le_max_left _ _, (le_max_left _ _).trans (le_max_left _ _)⟩]
  refine congrArg Except.ok (congrArg (onGrid g0) ?_)
  simp only [onGrid, Rect.inter, Rect.mk.injEq]
  omega

/-- **Cropping a union by the pixel window of an operand gives that operand back**:
`u = a | b; u[u.overlap_roi(a)] == a` (C16 `|`, `overlap_roi` composed with C02 `__getitem__`). -/
theorem crop_union_gives_operand_back (g0 : GeoBox) (hdet : g0.aff.det ≠ 0) (hcrs : g0.crs ≠ some 0)
    (r s : Rect) (hr : r.Valid) :
    cropUnionBack (onGrid g0 r) (onGrid g0 s) tolPix = .ok (onGrid g0 r) := by
  obtain ⟨hr1, hr2⟩ := hr
  simp only [cropUnionBack, or_onGrid g0 hdet, GeoBox.overlapRoi, bbpd_onGrid g0 hdet _ _ _ tolPix_pos]
  rw [cropRoi_onGrid g0 hcrs _ _ ⟨le_max_left _ _, (le_max_left _ _).trans (le_max_left _ _),
    le_max_left _ _, (le_max_left _ _).trans (le_max_left _ _)⟩]
  refine congrArg Except.ok ?_
  obtain ⟨a, b, c, d⟩ := r
  refine congrArg (onGrid g0) ?_
  simp only [onGrid, Rect.union, Rect.mk.injEq] at hr1 hr2 ⊢
  omega

/-- C02's neighbours on a family: `a.right` / `a.bottom` … are the members one tile over -/
theorem neighbours_onGrid (g0 : GeoBox) (hcrs : g0.crs ≠ some 0) (r : Rect) :
    (onGrid g0 r).right = onGrid g0 ⟨r.x1, r.y0, r.x1 + (r.x1 - r.x0), r.y1⟩ ∧
    (onGrid g0 r).left = onGrid g0 ⟨r.x0 - (r.x1 - r.x0), r.y0, r.x0, r.y1⟩ ∧
    (onGrid g0 r).bottom = onGrid g0 ⟨r.x0, r.y1, r.x1, r.y1 + (r.y1 - r.y0)⟩ ∧
    (onGrid g0 r).top = onGrid g0 ⟨r.x0, r.y0 - (r.y1 - r.y0), r.x1, r.y0⟩ := by
  have hc : (if g0.crs.getD 0 = 0 then none else some (g0.crs.getD 0)) = g0.crs := by
    cases hcr : g0.crs with
    | none => simp
    | some c =>
      have : c ≠ 0 := fun e => hcrs (by rw [hcr, e])
      simp [this]
  have aux : ∀ tx ty : Int, ofC02 (C02.translatePix (toC02 (onGrid g0 r)) (tx : Rat) (ty : Rat)) =
      onGrid g0 ⟨r.x0 + tx, r.y0 + ty, r.x1 + tx, r.y1 + ty⟩ := by
    intro tx ty
    simp only [ofC02, toC02, C02.translatePix, C02.mulPix, onGrid, GeoBox.mk.injEq]
    refine ⟨by omega, by omega, ?_, hc⟩
    rw [Aff.mul_assoc', translation_mul_translation]
    congr 2 <;> push_cast <;> ring
  have nx_ : (toC02 (onGrid g0 r)).nx = r.x1 - r.x0 := rfl
  have ny_ : (toC02 (onGrid g0 r)).ny = r.y1 - r.y0 := rfl
  refine ⟨?_, ?_, ?_, ?_⟩
  · have := aux (r.x1 - r.x0) 0
    simp only [GeoBox.right, C02.right, nx_]
    rw [show ((0 : Int) : Rat) = 0 from rfl] at this
    rw [this]; exact congrArg (onGrid g0) (by congr 1 <;> omega)
  · have := aux (-(r.x1 - r.x0)) 0
    simp only [GeoBox.left, C02.left, nx_]
    rw [show ((0 : Int) : Rat) = 0 from rfl, show ((-(r.x1 - r.x0) : Int) : Rat) = -((r.x1 - r.x0 : Int) : Rat) by push_cast; ring] at this
    rw [this]; exact congrArg (onGrid g0) (by congr 1 <;> omega)
  · have := aux 0 (r.y1 - r.y0)
    simp only [GeoBox.bottom, C02.bottom, ny_]
    rw [show ((0 : Int) : Rat) = 0 from rfl] at this
    rw [this]; exact congrArg (onGrid g0) (by congr 1 <;> omega)
  · have := aux 0 (-(r.y1 - r.y0))
    simp only [GeoBox.top, C02.top, ny_]
    rw [show ((0 : Int) : Rat) = 0 from rfl, show ((-(r.y1 - r.y0) : Int) : Rat) = -((r.y1 - r.y0 : Int) : Rat) by push_cast; ring] at this
    rw [this]; exact congrArg (onGrid g0) (by congr 1 <;> omega)

/-- **Neighbouring tiles**: `a` and `a.right` (resp. `a.bottom`) share no pixel — `&` is an empty
GeoBox — and `|` is exactly the two tiles side by side. -/
theorem neighbour_tiles (g0 : GeoBox) (hdet : g0.aff.det ≠ 0) (hcrs : g0.crs ≠ some 0) (r : Rect)
    (hr : r.Valid) :
    (∃ e, (onGrid g0 r).and (onGrid g0 r).right = .ok e ∧ e.nx = 0) ∧
    (onGrid g0 r).or (onGrid g0 r).right = .ok (onGrid g0 ⟨r.x0, r.y0, r.x1 + (r.x1 - r.x0), r.y1⟩) ∧
    (∃ e, (onGrid g0 r).and (onGrid g0 r).bottom = .ok e ∧ e.ny = 0) ∧
    (onGrid g0 r).or (onGrid g0 r).bottom = .ok (onGrid g0 ⟨r.x0, r.y0, r.x1, r.y1 + (r.y1 - r.y0)⟩) := by
  obtain ⟨hr1, hr2⟩ := hr
  obtain ⟨e1, _, e3, _⟩ := neighbours_onGrid g0 hcrs r
  rw [e1, e3]
  refine ⟨⟨_, and_onGrid g0 hdet _ _, ?_⟩, ?_, ⟨_, and_onGrid g0 hdet _ _, ?_⟩, ?_⟩
  · simp only [onGrid, Rect.inter]; omega
  · rw [or_onGrid g0 hdet]
    refine congrArg Except.ok (congrArg (onGrid g0) ?_)
    simp only [Rect.union, Rect.mk.injEq]; omega
  · simp only [onGrid, Rect.inter]; omega
  · rw [or_onGrid g0 hdet]
    refine congrArg Except.ok (congrArg (onGrid g0) ?_)
    simp only [Rect.union, Rect.mk.injEq]; omega

/-- a mirrored view (`flipx`, `flipy` of C02) covers the same footprint but is on a *different* pixel
grid: `|` (and `&`, `overlap_roi`) refuse it instead of resampling -/
theorem flipped_rejected (a : GeoBox) (hdet : a.aff.det ≠ 0) (hcrs : a.crs ≠ some 0) :
    a.or a.flipx = .error .valueError ∧ a.or a.flipy = .error .valueError := by
  have hc : (if a.crs.getD 0 = 0 then none else some (a.crs.getD 0)) = a.crs := by
    cases hcr : a.crs with
    | none => simp
    | some c =>
      have : c ≠ 0 := fun e => hcrs (by rw [hcr, e])
      simp [this]
  have t1 : tolOne < 2 := by unfold tolOne; norm_num
  constructor
  · refine (rejection_propagates a a.flipx tolPix ?_).1
    refine relative_transform_rejected _ a (Aff.translation (a.nx : Rat) 0 * Aff.scale (-1) 1) hdet ?_ _
      (Or.inl ?_)
    · simp [GeoBox.flipx, ofC02, toC02, C02.flipx, C02.mulPix]
    · simp only [Aff.mul_def, Aff.mul, Aff.translation, Aff.scale]; norm_num; exact t1
  · refine (rejection_propagates a a.flipy tolPix ?_).1
    refine relative_transform_rejected _ a (Aff.translation 0 (a.ny : Rat) * Aff.scale 1 (-1)) hdet ?_ _
      (Or.inr (Or.inl ?_))
    · simp [GeoBox.flipy, ofC02, toC02, C02.flipy, C02.mulPix]
    · simp only [Aff.mul_def, Aff.mul, Aff.translation, Aff.scale]; norm_num; exact t1

/-- `GeoBox.pad` is C02's `pad` -/
theorem pad_eq_C02 (g : GeoBox) (px : Int) (py : Option Int) :
    toC02 (g.pad px py) = C02.pad (toC02 g) px py := by
  cases py <;> rfl

/-- `pad` stays on the grid; a padded GeoBox contains the original: `a.pad(px, py) & a == a` and
`a | a.pad(px, py) == a.pad(px, py)` for non-negative paddings -/
theorem pad_contains (g0 : GeoBox) (hdet : g0.aff.det ≠ 0) (r : Rect) (hr : r.Valid) (px py : Int)
    (hx : 0 ≤ px) (hy : 0 ≤ py) :
    (onGrid g0 r).pad px (some py) = onGrid g0 ⟨r.x0 - px, r.y0 - py, r.x1 + px, r.y1 + py⟩ ∧
    ((onGrid g0 r).pad px (some py)).and (onGrid g0 r) = .ok (onGrid g0 r) ∧
    (onGrid g0 r).or ((onGrid g0 r).pad px (some py)) = .ok ((onGrid g0 r).pad px (some py)) := by
  obtain ⟨hr1, hr2⟩ := hr
  have e : (onGrid g0 r).pad px (some py) = onGrid g0 ⟨r.x0 - px, r.y0 - py, r.x1 + px, r.y1 + py⟩ := by
    simp only [GeoBox.pad, onGrid, GeoBox.mk.injEq, and_true]
    refine ⟨by omega, by omega, ?_⟩
    rw [Aff.mul_assoc', translation_mul_translation]
    congr 2 <;> push_cast <;> ring
  refine ⟨e, ?_, ?_⟩
  · rw [e, and_onGrid g0 hdet]
    obtain ⟨a, b, c, d⟩ := r
    refine congrArg Except.ok (congrArg (onGrid g0) ?_)
    simp only [Rect.inter, Rect.mk.injEq] at hr1 hr2 ⊢
    omega
  · rw [e, or_onGrid g0 hdet]
    refine congrArg Except.ok (congrArg (onGrid g0) ?_)
    simp only [Rect.union, Rect.mk.injEq]
    omega

/-! ## Part J — more of `BoundingBox` -/

/-- `buffered` with non-negative buffers contains the box; spans grow by twice the buffer; `ybuff=None`
means `ybuff=xbuff` -/
theorem bbox_buffered_spec (bb : BBox Rat) (xb yb : Rat) :
    (0 ≤ xb → 0 ≤ yb → bb.Within (bb.buffered xb (some yb))) ∧
    (bb.buffered xb (some yb)).spanX = bb.spanX + 2 * xb ∧
    (bb.buffered xb (some yb)).spanY = bb.spanY + 2 * yb ∧
    bb.buffered xb none = bb.buffered xb (some xb) ∧
    (bb.buffered xb (some yb)).buffered (-xb) (some (-yb)) = bb := by
  refine ⟨?_, ?_, ?_, rfl, ?_⟩
  · intro hx hy
    simp only [BBox.Within, BBox.buffered]
    refine ⟨?_, ?_, ?_, ?_⟩ <;> linarith
  · simp only [BBox.spanX, BBox.buffered]; ring
  · simp only [BBox.spanY, BBox.buffered]; ring
  · cases bb
    simp only [BBox.buffered, BBox.mk.injEq, and_true]
    refine ⟨?_, ?_, ?_, ?_⟩ <;> ring

/-- Python `int()` truncates towards zero -/
theorem pyInt_spec (x : Rat) :
    (0 ≤ x → (pyInt x : Rat) ≤ x ∧ x < pyInt x + 1 ∧ 0 ≤ pyInt x) ∧
    (x < 0 → x ≤ pyInt x ∧ (pyInt x : Rat) < x + 1 ∧ pyInt x ≤ 0) ∧
    (∀ k : Int, pyInt (k : Rat) = k) := by
  refine ⟨?_, ?_, ?_⟩
  · intro h
    simp only [pyInt, h, if_true]
    have f1 := Rat.floor_le x
    have f2 := Rat.lt_floor_add_one x
    push_cast at f2
    refine ⟨f1, f2, ?_⟩
    rw [Rat.le_floor_iff]; exact_mod_cast h
  · intro h
    simp only [pyInt, not_le.mpr h, if_false]
    refine ⟨Rat.le_ceil, Rat.ceil_lt, ?_⟩
    rw [Rat.ceil_le_iff]; push_cast; exact h.le
  · intro k
    unfold pyInt
    split <;> simp [Rat.floor_intCast, Rat.ceil_intCast]

/-- the `shape` of a box with integer edges is exactly `(top - bottom, right - left)` — this is how
`geobox_union_conservative` / `geobox_intersection_conservative` obtain the result shape -/
theorem bbox_shape_int (l b r t : Int) (crs : Option Nat) :
    (⟨(l : Rat), (b : Rat), (r : Rat), (t : Rat), crs⟩ : BBox Rat).shape = (t - b, r - l) := by
  obtain ⟨_, _, h⟩ := pyInt_spec 0
  simp only [BBox.shape, BBox.height, BBox.width]
  rw [show (t : Rat) - b = ((t - b : Int) : Rat) by push_cast; ring,
    show (r : Rat) - l = ((r - l : Int) : Rat) by push_cast; ring, h, h]

/-- `from_points` / `from_xy`: a well-formed box (left ≤ right, bottom ≤ top) that contains both
points and is the least such box -/
theorem bbox_from_points_spec (p1 p2 : Rat × Rat) (crs : Option Nat) :
    let bb := BBox.fromPoints p1 p2 crs
    bb.left ≤ bb.right ∧ bb.bottom ≤ bb.top ∧ bb.Contains p1 ∧ bb.Contains p2 ∧
    ∀ c : BBox Rat, c.Contains p1 → c.Contains p2 → bb.Within c := by
  simp only [BBox.fromPoints, BBox.fromXY, BBox.Contains, BBox.Within]
  refine ⟨min_le_max, min_le_max, ⟨min_le_left _ _, le_max_left _ _, min_le_left _ _, le_max_left _ _⟩,
    ⟨min_le_right _ _, le_max_right _ _, min_le_right _ _, le_max_right _ _⟩, ?_⟩
  rintro c ⟨a1, a2, a3, a4⟩ ⟨b1, b2, b3, b4⟩
  exact ⟨le_min a1 b1, le_min a3 b3, max_le a2 b2, max_le a4 b4⟩

/-- `from_transform(shape, A)` is the bounding box of the whole pixel rectangle: it equals
`BoundingBox(0, 0, nx, ny).transform(A)` for every transform (rotated, sheared, mirrored) … -/
theorem bbox_from_transform_eq_transform (ny nx : Int) (A : Aff) (crs : Option Nat) :
    BBox.fromTransform ny nx A crs = (⟨0, 0, (nx : Rat), (ny : Rat), crs⟩ : BBox Rat).transform A := by
  simp only [BBox.fromTransform, BBox.transform, bboxOfPoints, List.map, minL, maxL, BBox.mk.injEq, and_true]
  refine ⟨?_, ?_, ?_, ?_⟩
  · rw [min_right_comm]
  · rw [min_right_comm]
  · rw [max_right_comm]
  · rw [max_right_comm]

/-- … hence it covers the image of every point of the `ny × nx` image -/
theorem bbox_from_transform_covers (ny nx : Int) (A : Aff) (crs : Option Nat) (p : Rat × Rat)
    (h : 0 ≤ p.1 ∧ p.1 ≤ nx ∧ 0 ≤ p.2 ∧ p.2 ≤ ny) :
    (BBox.fromTransform ny nx A crs).Contains (A.apply p) := by
  rw [bbox_from_transform_eq_transform]
  exact bbox_transform_covers _ A p h

example : (BBox.fromTransform 1 1 ⟨1, -1, 0, 1, 1, 0⟩ none) = ⟨-1, 0, 1, 2, none⟩ := by
  simp only [BBox.fromTransform, bboxOfPoints, Aff.apply, List.map, minL, maxL, BBox.mk.injEq, and_true]
  norm_num

/-! ## Part K — IEEE specials in `bbox_union` / `bbox_intersection` (behaviour on HEAD)

The lattice laws of Part A need no well-formedness: they hold for *inverted* boxes (left > right)
too, since they are laws of `min`/`max` on a linear order.  Doubles with `nan` are not a linear
order; on the carrier `PyF` the same generic model describes what the code does. -/

/-- on finite operands Python's `min` / `max` are the rational ones: Part A applies verbatim -/
theorem pyF_fin_min_max (a b : Rat) :
    min (PyF.fin a) (PyF.fin b) = PyF.fin (min a b) ∧ max (PyF.fin a) (PyF.fin b) = PyF.fin (max a b) := by
  constructor
  · show (if PyF.lt (.fin b) (.fin a) then PyF.fin b else PyF.fin a) = _
    simp only [PyF.lt, decide_eq_true_eq]
    rcases lt_or_ge b a with h | h
    · rw [if_pos h, min_eq_right h.le]
    · rw [if_neg (not_lt.mpr h), min_eq_left h]
  · show (if PyF.lt (.fin a) (.fin b) then PyF.fin b else PyF.fin a) = _
    simp only [PyF.lt, decide_eq_true_eq]
    rcases lt_or_ge a b with h | h
    · rw [if_pos h, max_eq_right h.le]
    · rw [if_neg (not_lt.mpr h), max_eq_left h]

/-- infinite edges behave as ±∞ should: `inf` absorbs in `max`, is neutral in `min` (and dually) -/
theorem pyF_inf (a : Rat) :
    max (PyF.fin a) PyF.pinf = .pinf ∧ max PyF.pinf (PyF.fin a) = .pinf ∧
    min (PyF.fin a) PyF.pinf = .fin a ∧ min PyF.pinf (PyF.fin a) = .fin a ∧
    min (PyF.fin a) PyF.ninf = .ninf ∧ min PyF.ninf (PyF.fin a) = .ninf ∧
    max (PyF.fin a) PyF.ninf = .fin a ∧ max PyF.ninf (PyF.fin a) = .fin a := by
  refine ⟨rfl, rfl, rfl, rfl, rfl, rfl, rfl, rfl⟩

/-- **With a `nan` edge the result depends on the operand order** (as on HEAD; replayed by the
harness): `BoundingBox(nan,0,1,1) | BoundingBox(0,0,2,2)` has `left = 0`, the other order has
`left = nan`.  `nan` boxes are outside the property's quantifier (not bounding boxes of anything);
recorded so that the model states what the code does. -/
theorem bbox_union_nan_order_cex :
    (⟨.nan, .fin 0, .fin 1, .fin 1, none⟩ : BBox PyF).or ⟨.fin 0, .fin 0, .fin 2, .fin 2, none⟩ =
      .ok ⟨.fin 0, .fin 0, .fin 2, .fin 2, none⟩ ∧
    (⟨.fin 0, .fin 0, .fin 2, .fin 2, none⟩ : BBox PyF).or ⟨.nan, .fin 0, .fin 1, .fin 1, none⟩ =
      .ok ⟨.nan, .fin 0, .fin 2, .fin 2, none⟩ := by
  constructor <;> decide

/-- inverted operands: nothing special happens, e.g. `BoundingBox(3,3,1,1) | BoundingBox(0,0,2,2)` is
`(0,0,2,2)` and `&` of them is `(3,3,1,1)` (covered by Part A, which assumes no well-formedness) -/
example : (⟨3, 3, 1, 1, none⟩ : BBox Int).or ⟨0, 0, 2, 2, none⟩ = .ok ⟨0, 0, 2, 2, none⟩ ∧
    (⟨3, 3, 1, 1, none⟩ : BBox Int).and ⟨0, 0, 2, 2, none⟩ = .ok ⟨3, 3, 1, 1, none⟩ := by
  constructor <;> decide

end OdcGeo.C16
