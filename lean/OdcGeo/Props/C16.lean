/-
C16 — GeoBox and bounding-box set operations respect the common pixel grid.

Property theorems only (helpers are in `Lemmas/C16.lean`).

Part A  bounding-box lattice laws over any linear order (binary `|`, `&` and the n-ary
        `bbox_union` / `bbox_intersection`).
Part B  pixel-set semantics of `GeoBox.__and__ / __or__ / overlap_roi` on a common grid,
        commutativity / associativity including the world affine.
Part C  `enclosing`, `BoundingBox.round`, `BoundingBox.transform`.
Part D  `snap_to`.
Part E  incompatible grids are rejected.
-/
import OdcGeo.Model.C16
import OdcGeo.Lemmas.C16
import OdcGeo.Spec.PySlice
import Mathlib.Order.Defs.LinearOrder
import Mathlib.Order.Lattice
import Mathlib.Tactic.Linarith
import Mathlib.Tactic.Ring
import Mathlib.Tactic.ByContra
import Mathlib.Algebra.Order.Field.Rat

namespace OdcGeo.C16
open OdcGeo

/-! ## Part A — BoundingBox lattice laws (any linear order) -/

section BBoxLaws
variable {α : Type} [LinearOrder α]

/-- point membership (closed box) -/
def BBox.Contains (bb : BBox α) (p : α × α) : Prop :=
  bb.left ≤ p.1 ∧ p.1 ≤ bb.right ∧ bb.bottom ≤ p.2 ∧ p.2 ≤ bb.top

/-- `a` lies within `c` (edge-wise) -/
def BBox.Within (a c : BBox α) : Prop :=
  c.left ≤ a.left ∧ c.bottom ≤ a.bottom ∧ a.right ≤ c.right ∧ a.top ≤ c.top

/-- `a | b` computed: CRS mismatch is an error, otherwise edge-wise min / max. -/
theorem bbox_or_eq (a b : BBox α) :
    a.or b = if a.crs ≠ b.crs then .error .crsMismatch
             else .ok ⟨min b.left a.left, min b.bottom a.bottom, max b.right a.right,
                       max b.top a.top, a.crs⟩ := by
  by_cases h : a.crs = b.crs <;> simp [BBox.or, bboxUnion, foldRes, unionStep, h]

/-- `a & b` computed. -/
theorem bbox_and_eq (a b : BBox α) :
    a.and b = if a.crs ≠ b.crs then .error .crsMismatch
              else .ok ⟨max b.left a.left, max b.bottom a.bottom, min b.right a.right,
                        min b.top a.top, a.crs⟩ := by
  by_cases h : a.crs = b.crs <;> simp [BBox.and, bboxIntersection, foldRes, interStep, h]

/-- union is commutative (including the error behaviour) -/
theorem bbox_union_comm (a b : BBox α) : a.or b = b.or a := by
  rw [bbox_or_eq, bbox_or_eq]
  by_cases h : a.crs = b.crs
  · simp [h, min_comm, max_comm]
  · have h' : ¬ b.crs = a.crs := fun e => h e.symm
    simp [h, h']

/-- intersection is commutative (including the error behaviour) -/
theorem bbox_inter_comm (a b : BBox α) : a.and b = b.and a := by
  rw [bbox_and_eq, bbox_and_eq]
  by_cases h : a.crs = b.crs
  · simp [h, min_comm, max_comm]
  · have h' : ¬ b.crs = a.crs := fun e => h e.symm
    simp [h, h']

/-- union is associative: `(a | b) | c = a | (b | c)` (including the error behaviour) -/
theorem bbox_union_assoc (a b c : BBox α) :
    (a.or b >>= fun ab => ab.or c) = (b.or c >>= fun bc => a.or bc) := by
  obtain ⟨al, ab, ar, at', ac⟩ := a
  obtain ⟨bl, bb, br, bt, bc⟩ := b
  obtain ⟨cl, cb, cr, ct, cc⟩ := c
  simp only [bbox_or_eq, bind, Except.bind]
  by_cases h1 : ac = bc
  · subst h1
    by_cases h2 : ac = cc
    · subst h2
      simp [min_comm, max_comm, min_left_comm, max_left_comm]
    · simp [h2]
  · by_cases h2 : bc = cc
    · subst h2
      simp [h1]
    · simp [h1, h2]

/-- intersection is associative -/
theorem bbox_inter_assoc (a b c : BBox α) :
    (a.and b >>= fun ab => ab.and c) = (b.and c >>= fun bc => a.and bc) := by
  obtain ⟨al, ab, ar, at', ac⟩ := a
  obtain ⟨bl, bb, br, bt, bc⟩ := b
  obtain ⟨cl, cb, cr, ct, cc⟩ := c
  simp only [bbox_and_eq, bind, Except.bind]
  by_cases h1 : ac = bc
  · subst h1
    by_cases h2 : ac = cc
    · subst h2
      simp [min_comm, max_comm, min_left_comm, max_left_comm]
    · simp [h2]
  · by_cases h2 : bc = cc
    · subst h2
      simp [h1]
    · simp [h1, h2]

/-- idempotence -/
theorem bbox_union_idem (a : BBox α) : a.or a = .ok a := by
  rw [bbox_or_eq]; simp

theorem bbox_inter_idem (a : BBox α) : a.and a = .ok a := by
  rw [bbox_and_eq]; simp

/-- absorption `a | (a & b) = a` -/
theorem bbox_absorb₁ (a b : BBox α) (h : a.crs = b.crs) :
    (a.and b >>= fun ab => a.or ab) = .ok a := by
  simp [bbox_and_eq, bbox_or_eq, h, bind, Except.bind]
  cases a; simp_all

/-- absorption `a & (a | b) = a` -/
theorem bbox_absorb₂ (a b : BBox α) (h : a.crs = b.crs) :
    (a.or b >>= fun ab => a.and ab) = .ok a := by
  simp [bbox_and_eq, bbox_or_eq, h, bind, Except.bind]
  cases a; simp_all

/-- the union contains both operands (edge-wise and point-wise) -/
theorem bbox_union_contains (a b u : BBox α) (h : a.or b = .ok u) :
    a.Within u ∧ b.Within u ∧ ∀ p, a.Contains p ∨ b.Contains p → u.Contains p := by
  rw [bbox_or_eq] at h
  split at h
  · cases h
  · cases h
    refine ⟨⟨min_le_right _ _, min_le_right _ _, le_max_right _ _, le_max_right _ _⟩,
            ⟨min_le_left _ _, min_le_left _ _, le_max_left _ _, le_max_left _ _⟩, ?_⟩
    rintro p (⟨h1, h2, h3, h4⟩ | ⟨h1, h2, h3, h4⟩)
    · exact ⟨(min_le_right _ _).trans h1, h2.trans (le_max_right _ _),
             (min_le_right _ _).trans h3, h4.trans (le_max_right _ _)⟩
    · exact ⟨(min_le_left _ _).trans h1, h2.trans (le_max_left _ _),
             (min_le_left _ _).trans h3, h4.trans (le_max_left _ _)⟩

/-- the union is the least box containing both operands -/
theorem bbox_union_least (a b u c : BBox α) (h : a.or b = .ok u) (ha : a.Within c) (hb : b.Within c) :
    u.Within c := by
  rw [bbox_or_eq] at h
  split at h
  · cases h
  · cases h
    obtain ⟨a1, a2, a3, a4⟩ := ha
    obtain ⟨b1, b2, b3, b4⟩ := hb
    exact ⟨le_min b1 a1, le_min b2 a2, max_le b3 a3, max_le b4 a4⟩

/-- the intersection is exactly the common point set, lies within both operands and is the
greatest such box -/
theorem bbox_inter_contained (a b i : BBox α) (h : a.and b = .ok i) :
    (∀ p, i.Contains p ↔ a.Contains p ∧ b.Contains p) ∧ i.Within a ∧ i.Within b ∧
    ∀ c : BBox α, c.Within a → c.Within b → c.Within i := by
  rw [bbox_and_eq] at h
  split at h
  · cases h
  · cases h
    refine ⟨?_, ⟨le_max_right _ _, le_max_right _ _, min_le_right _ _, min_le_right _ _⟩,
            ⟨le_max_left _ _, le_max_left _ _, min_le_left _ _, min_le_left _ _⟩, ?_⟩
    · intro p
      simp only [BBox.Contains, max_le_iff, le_min_iff]
      tauto
    · rintro c ⟨a1, a2, a3, a4⟩ ⟨b1, b2, b3, b4⟩
      exact ⟨max_le b1 a1, max_le b2 a2, le_min b3 a3, le_min b4 a4⟩

/-! n-ary forms: `bbox_union(stream)`, `bbox_intersection(stream)` -/

/-- n-ary union of a non-empty stream: contains every member and is the least such box; an
empty stream is an error. -/
theorem bbox_union_list (b : BBox α) (bs : List (BBox α)) (u : BBox α)
    (h : bboxUnion (b :: bs) = .ok u) :
    (∀ x ∈ b :: bs, x.Within u) ∧
    (∀ c : BBox α, (∀ x ∈ b :: bs, x.Within c) → u.Within c) := by
  simp only [bboxUnion] at h
  induction bs generalizing b with
  | nil =>
    simp only [foldRes] at h; cases h
    exact ⟨by simp [BBox.Within], fun c hc => hc _ (by simp)⟩
  | cons x xs ih =>
    simp only [foldRes, unionStep] at h
    split at h
    · cases h
    · rename_i acc' hstep
      split at hstep
      · cases hstep
      · cases hstep
        obtain ⟨ih1, ih2⟩ := ih _ h
        have hacc := ih1 _ (List.mem_cons_self ..)
        obtain ⟨c1, c2, c3, c4⟩ := hacc
        constructor
        · intro y hy
          rcases List.mem_cons.mp hy with rfl | hy
          · exact ⟨c1.trans (min_le_right _ _), c2.trans (min_le_right _ _),
                   (le_max_right _ _).trans c3, (le_max_right _ _).trans c4⟩
          rcases List.mem_cons.mp hy with rfl | hy
          · exact ⟨c1.trans (min_le_left _ _), c2.trans (min_le_left _ _),
                   (le_max_left _ _).trans c3, (le_max_left _ _).trans c4⟩
          · exact ih1 _ (List.mem_cons_of_mem _ hy)
        · intro c hc
          apply ih2
          intro y hy
          rcases List.mem_cons.mp hy with rfl | hy
          · obtain ⟨a1, a2, a3, a4⟩ := hc b (by simp)
            obtain ⟨b1, b2, b3, b4⟩ := hc x (by simp)
            exact ⟨le_min b1 a1, le_min b2 a2, max_le b3 a3, max_le b4 a4⟩
          · exact hc _ (by simp [hy])

theorem bbox_union_empty : bboxUnion ([] : List (BBox α)) = .error .valueError := rfl
theorem bbox_inter_empty : bboxIntersection ([] : List (BBox α)) = .error .valueError := rfl

/-- n-ary intersection: exactly the points common to every member. -/
theorem bbox_inter_list (b : BBox α) (bs : List (BBox α)) (i : BBox α)
    (h : bboxIntersection (b :: bs) = .ok i) (p : α × α) :
    i.Contains p ↔ ∀ x ∈ b :: bs, x.Contains p := by
  simp only [bboxIntersection] at h
  induction bs generalizing b with
  | nil => simp only [foldRes] at h; cases h; simp
  | cons x xs ih =>
    simp only [foldRes, interStep] at h
    split at h
    · cases h
    · rename_i acc' hstep
      split at hstep
      · cases hstep
      · cases hstep
        rw [ih _ h]
        simp only [List.forall_mem_cons, BBox.Contains, max_le_iff, le_min_iff]
        tauto

end BBoxLaws

/-! ## Part B — pixel-set semantics on a common grid

The family of a base grid `g0` ("derived from a base grid by integer pixel shifts and arbitrary
shapes"): `onGrid g0 r` is `g0` shifted so that it covers the index rectangle `r` of `g0`'s pixel
frame.  `g0` may be any GeoBox with an invertible affine: north-up, mirrored, rotated, sheared. -/

/-- integer pixel rectangle: columns `x0 ≤ i < x1`, rows `y0 ≤ j < y1` -/
structure Rect where
  x0 : Int
  y0 : Int
  x1 : Int
  y1 : Int
  deriving DecidableEq

/-- member of the family of `g0` covering `r` -/
def onGrid (g0 : GeoBox) (r : Rect) : GeoBox :=
  ⟨r.y1 - r.y0, r.x1 - r.x0, g0.aff * Aff.translation r.x0 r.y0, g0.crs⟩

/-- shapes are non-negative -/
def Rect.Valid (r : Rect) : Prop := r.x0 ≤ r.x1 ∧ r.y0 ≤ r.y1
/-- at least one pixel -/
def Rect.NonEmpty (r : Rect) : Prop := r.x0 < r.x1 ∧ r.y0 < r.y1

/-- smallest rectangle containing both -/
def Rect.union (r s : Rect) : Rect := ⟨min r.x0 s.x0, min r.y0 s.y0, max r.x1 s.x1, max r.y1 s.y1⟩

/-- common pixels; a missing overlap on an axis gives a zero extent at `max` of the starts -/
def Rect.inter (r s : Rect) : Rect :=
  ⟨max r.x0 s.x0, max r.y0 s.y0, max (max r.x0 s.x0) (min r.x1 s.x1), max (max r.y0 s.y0) (min r.y1 s.y1)⟩

/-- The world position (corner) of a pixel identifies it on a common grid: `w` is a pixel of `g`. -/
def HasPixel (g : GeoBox) (w : Rat × Rat) : Prop :=
  ∃ i j : Int, 0 ≤ i ∧ i < g.nx ∧ 0 ≤ j ∧ j < g.ny ∧ g.aff.apply ((i : Rat), (j : Rat)) = w

/-- Every GeoBox that is `g0` shifted by whole pixels (same CRS) is a member of the family. -/
theorem eq_onGrid (g0 g : GeoBox) (tx ty : Int) (h : g.aff = g0.aff * Aff.translation tx ty)
    (hc : g.crs = g0.crs) : g = onGrid g0 ⟨tx, ty, tx + g.nx, ty + g.ny⟩ := by
  obtain ⟨ny, nx, aff, crs⟩ := g
  simp only [onGrid, GeoBox.mk.injEq]
  simp only at h hc
  refine ⟨by omega, by omega, h, hc⟩

/-- in particular the base itself -/
theorem self_onGrid (g : GeoBox) : g = onGrid g ⟨0, 0, g.nx, g.ny⟩ := by
  have := eq_onGrid g g 0 0 (by simp [translation_zero, Aff.mul_id]) rfl
  simpa using this

theorem hasPixel_onGrid (g0 : GeoBox) (r : Rect) (w : Rat × Rat) :
    HasPixel (onGrid g0 r) w ↔
      ∃ i j : Int, r.x0 ≤ i ∧ i < r.x1 ∧ r.y0 ≤ j ∧ j < r.y1 ∧ g0.aff.apply ((i : Rat), (j : Rat)) = w := by
  simp only [HasPixel, onGrid, apply_mul_translation]
  constructor
  · rintro ⟨i, j, h1, h2, h3, h4, h5⟩
    refine ⟨i + r.x0, j + r.y0, by omega, by omega, by omega, by omega, ?_⟩
    push_cast
    exact h5
  · rintro ⟨i, j, h1, h2, h3, h4, h5⟩
    refine ⟨i - r.x0, j - r.y0, by omega, by omega, by omega, by omega, ?_⟩
    push_cast
    rw [← h5]
    congr 2 <;> ring

/-- `bounding_box_in_pixel_domain` between two members of a family -/
theorem bbpd_onGrid (g0 : GeoBox) (hdet : g0.aff.det ≠ 0) (r s : Rect) (tol : Rat) (htol : 0 < tol) :
    bboxInPixelDomain (onGrid g0 s) (onGrid g0 r) tol =
      .ok ⟨s.x0 - r.x0, s.y0 - r.y0, s.x0 - r.x0 + (s.x1 - s.x0), s.y0 - r.y0 + (s.y1 - s.y0), none⟩ := by
  refine bboxInPixelDomain_of_mul (onGrid g0 s) (onGrid g0 r) rfl ?_ (s.x0 - r.x0) (s.y0 - r.y0) ?_ tol htol
  · simpa [onGrid, det_mul_translation] using hdet
  · simp only [onGrid]
    rw [Aff.mul_assoc', translation_mul_translation]
    congr 2 <;> push_cast <;> ring

theorem geoboxOfPixBBox_onGrid (g0 : GeoBox) (r : Rect) (bb : BBox Int) :
    geoboxOfPixBBox (onGrid g0 r) bb =
      onGrid g0 ⟨r.x0 + bb.left, r.y0 + bb.bottom, r.x0 + bb.right, r.y0 + bb.top⟩ := by
  simp only [geoboxOfPixBBox, onGrid, GeoBox.mk.injEq]
  refine ⟨by omega, by omega, ?_, trivial⟩
  rw [Aff.mul_assoc', translation_mul_translation]
  congr 2 <;> push_cast <;> ring

theorem normEmpty_eq (bb : BBox Int) :
    normEmpty bb = ⟨bb.left, bb.bottom, max bb.left bb.right, max bb.bottom bb.top, bb.crs⟩ := by
  obtain ⟨l, b, r, t, c⟩ := bb
  unfold normEmpty
  by_cases h1 : l > r <;> by_cases h2 : b > t <;> simp [h1, h2] <;> omega

/-- `a | b` on a common grid is the member of the family covering the smallest rectangle that
contains both — whichever operand is the reference. -/
theorem or_onGrid (g0 : GeoBox) (hdet : g0.aff.det ≠ 0) (r s : Rect) :
    (onGrid g0 r).or (onGrid g0 s) = .ok (onGrid g0 (r.union s)) := by
  simp only [GeoBox.or, geoboxUnionConservative, allBBoxes, bbpd_onGrid g0 hdet _ _ _ tolPix_pos,
    bboxUnion, foldRes, unionStep, geoboxOfPixBBox_onGrid]
  simp only [ne_eq, not_true_eq_false, if_false, Rect.union]
  congr 2
  simp only [Rect.mk.injEq]
  omega

/-- `a & b` on a common grid is the member of the family covering exactly the common rectangle
(zero extent when there is none) — whichever operand is the reference. -/
theorem and_onGrid (g0 : GeoBox) (hdet : g0.aff.det ≠ 0) (r s : Rect) :
    (onGrid g0 r).and (onGrid g0 s) = .ok (onGrid g0 (r.inter s)) := by
  simp only [GeoBox.and, geoboxIntersectionConservative, allBBoxes, bbpd_onGrid g0 hdet _ _ _ tolPix_pos,
    bboxIntersection, foldRes, interStep, geoboxOfPixBBox_onGrid, normEmpty_eq]
  simp only [ne_eq, not_true_eq_false, if_false, Rect.inter]
  congr 2
  simp only [Rect.mk.injEq]
  omega

/-- index form of pixel membership (needs an invertible grid so that world positions identify pixels) -/
theorem hasPixel_idx (g0 : GeoBox) (hdet : g0.aff.det ≠ 0) (t : Rect) (i j : Int) :
    HasPixel (onGrid g0 t) (g0.aff.apply ((i : Rat), (j : Rat))) ↔
      t.x0 ≤ i ∧ i < t.x1 ∧ t.y0 ≤ j ∧ j < t.y1 := by
  rw [hasPixel_onGrid]
  constructor
  · rintro ⟨i', j', h1, h2, h3, h4, h5⟩
    have := apply_injective g0.aff hdet h5
    simp only [Prod.mk.injEq, Int.cast_inj] at this
    obtain ⟨rfl, rfl⟩ := this
    exact ⟨h1, h2, h3, h4⟩
  · rintro ⟨h1, h2, h3, h4⟩
    exact ⟨i, j, h1, h2, h3, h4, rfl⟩

/-- **Intersection is exactly the set of shared pixels** (an empty GeoBox when there are none;
never a negative shape). -/
theorem inter_pixels (g0 : GeoBox) (hdet : g0.aff.det ≠ 0) (r s : Rect) :
    ∃ g, (onGrid g0 r).and (onGrid g0 s) = .ok g ∧
      (∀ w, HasPixel g w ↔ HasPixel (onGrid g0 r) w ∧ HasPixel (onGrid g0 s) w) ∧
      (g.isEmpty = true ↔ ¬ ∃ w, HasPixel (onGrid g0 r) w ∧ HasPixel (onGrid g0 s) w) ∧
      0 ≤ g.nx ∧ 0 ≤ g.ny := by
  refine ⟨_, and_onGrid g0 hdet r s, ?_, ?_, ?_, ?_⟩
  · intro w
    constructor
    · intro h
      obtain ⟨i, j, h1, h2, h3, h4, rfl⟩ := (hasPixel_onGrid _ _ _).mp h
      simp only [Rect.inter] at h1 h2 h3 h4
      rw [hasPixel_idx g0 hdet, hasPixel_idx g0 hdet]
      omega
    · rintro ⟨hr, hs⟩
      obtain ⟨i, j, h1, h2, h3, h4, rfl⟩ := (hasPixel_onGrid _ _ _).mp hr
      rw [hasPixel_idx g0 hdet] at hs ⊢
      simp only [Rect.inter]
      omega
  · simp only [GeoBox.isEmpty, Bool.or_eq_true, beq_iff_eq]
    have e1 : (onGrid g0 (r.inter s)).ny = max (max r.y0 s.y0) (min r.y1 s.y1) - max r.y0 s.y0 := rfl
    have e2 : (onGrid g0 (r.inter s)).nx = max (max r.x0 s.x0) (min r.x1 s.x1) - max r.x0 s.x0 := rfl
    rw [e1, e2]
    constructor
    · rintro h ⟨w, hr, hs⟩
      obtain ⟨i, j, h1, h2, h3, h4, rfl⟩ := (hasPixel_onGrid _ _ _).mp hr
      rw [hasPixel_idx g0 hdet] at hs
      omega
    · intro h
      by_contra hne
      apply h
      refine ⟨g0.aff.apply (((max r.x0 s.x0 : Int) : Rat), ((max r.y0 s.y0 : Int) : Rat)), ?_, ?_⟩ <;>
        rw [hasPixel_idx g0 hdet] <;> omega
  · simp only [onGrid, Rect.inter]; omega
  · simp only [onGrid, Rect.inter]; omega

/-- **Union is the smallest GeoBox on the grid containing the operands.** -/
theorem union_smallest (g0 : GeoBox) (hdet : g0.aff.det ≠ 0) (r s : Rect) :
    ∃ g, (onGrid g0 r).or (onGrid g0 s) = .ok g ∧
      (∀ w, HasPixel (onGrid g0 r) w ∨ HasPixel (onGrid g0 s) w → HasPixel g w) ∧
      (r.NonEmpty → s.NonEmpty → ∀ t : Rect,
        (∀ w, HasPixel (onGrid g0 r) w ∨ HasPixel (onGrid g0 s) w → HasPixel (onGrid g0 t) w) →
        ∀ w, HasPixel g w → HasPixel (onGrid g0 t) w) := by
  refine ⟨_, or_onGrid g0 hdet r s, ?_, ?_⟩
  · rintro w (h | h) <;>
    · obtain ⟨i, j, h1, h2, h3, h4, rfl⟩ := (hasPixel_onGrid _ _ _).mp h
      rw [hasPixel_idx g0 hdet]
      simp only [Rect.union]
      omega
  · rintro ⟨hr1, hr2⟩ ⟨hs1, hs2⟩ t ht w hw
    obtain ⟨i, j, h1, h2, h3, h4, rfl⟩ := (hasPixel_onGrid _ _ _).mp hw
    simp only [Rect.union] at h1 h2 h3 h4
    -- the two extreme pixels of each operand are in `t`
    have r_lo := ht (g0.aff.apply ((r.x0 : Rat), (r.y0 : Rat)))
      (Or.inl ((hasPixel_idx g0 hdet r _ _).mpr (by omega)))
    have r_hi := ht (g0.aff.apply (((r.x1 - 1 : Int) : Rat), ((r.y1 - 1 : Int) : Rat)))
      (Or.inl ((hasPixel_idx g0 hdet r _ _).mpr (by omega)))
    have s_lo := ht (g0.aff.apply ((s.x0 : Rat), (s.y0 : Rat)))
      (Or.inr ((hasPixel_idx g0 hdet s _ _).mpr (by omega)))
    have s_hi := ht (g0.aff.apply (((s.x1 - 1 : Int) : Rat), ((s.y1 - 1 : Int) : Rat)))
      (Or.inr ((hasPixel_idx g0 hdet s _ _).mpr (by omega)))
    rw [hasPixel_idx g0 hdet] at r_lo r_hi s_lo s_hi ⊢
    omega

/-- **`overlap_roi` indexes exactly the shared pixels within the first operand**, under numpy's
slice semantics (`Spec/PySlice`), for every tolerance `tol > 0`. -/
theorem overlap_roi_exact (g0 : GeoBox) (hdet : g0.aff.det ≠ 0) (r s : Rect) (hr : r.Valid)
    (tol : Rat) (htol : 0 < tol) :
    ∃ roi, (onGrid g0 r).overlapRoi (onGrid g0 s) tol = .ok roi ∧
      ∀ i j : Int,
        (PySlice.Sel (onGrid g0 r).nx (.slc (some roi.x0) (some roi.x1)) i ∧
         PySlice.Sel (onGrid g0 r).ny (.slc (some roi.y0) (some roi.y1)) j) ↔
        (0 ≤ i ∧ i < (onGrid g0 r).nx ∧ 0 ≤ j ∧ j < (onGrid g0 r).ny ∧
         HasPixel (onGrid g0 s) ((onGrid g0 r).aff.apply ((i : Rat), (j : Rat)))) := by
  simp only [GeoBox.overlapRoi, bbpd_onGrid g0 hdet _ _ _ htol]
  refine ⟨_, rfl, ?_⟩
  intro i j
  have hw : (onGrid g0 r).aff.apply ((i : Rat), (j : Rat)) =
      g0.aff.apply (((i + r.x0 : Int) : Rat), ((j + r.y0 : Int) : Rat)) := by
    simp only [onGrid, apply_mul_translation]; push_cast; rfl
  rw [hw, hasPixel_idx g0 hdet]
  obtain ⟨hr1, hr2⟩ := hr
  simp only [PySlice.Sel, PySlice.bounds, PySlice.clampBound, onGrid]
  omega

/-- commutativity, **including the world affine whichever operand is the reference** -/
theorem union_comm_world (g0 : GeoBox) (hdet : g0.aff.det ≠ 0) (r s : Rect) :
    (onGrid g0 r).or (onGrid g0 s) = (onGrid g0 s).or (onGrid g0 r) := by
  rw [or_onGrid g0 hdet, or_onGrid g0 hdet]
  congr 2
  simp only [Rect.union, Rect.mk.injEq]
  omega

theorem inter_comm_world (g0 : GeoBox) (hdet : g0.aff.det ≠ 0) (r s : Rect) :
    (onGrid g0 r).and (onGrid g0 s) = (onGrid g0 s).and (onGrid g0 r) := by
  rw [and_onGrid g0 hdet, and_onGrid g0 hdet]
  congr 2
  simp only [Rect.inter, Rect.mk.injEq]
  omega

/-- associativity `(a | b) | c = a | (b | c)`: same shape and same world affine although the
reference operand differs (`a | b` on the left, `a` on the right) -/
theorem union_assoc_world (g0 : GeoBox) (hdet : g0.aff.det ≠ 0) (r s t : Rect) :
    ((onGrid g0 r).or (onGrid g0 s) >>= fun x => x.or (onGrid g0 t)) =
    ((onGrid g0 s).or (onGrid g0 t) >>= fun y => (onGrid g0 r).or y) := by
  simp only [or_onGrid g0 hdet, bind, Except.bind]
  congr 2
  simp only [Rect.union, Rect.mk.injEq]
  omega

/-- associativity of intersection, empty intermediate results included -/
theorem inter_assoc_world (g0 : GeoBox) (hdet : g0.aff.det ≠ 0) (r s t : Rect) :
    ((onGrid g0 r).and (onGrid g0 s) >>= fun x => x.and (onGrid g0 t)) =
    ((onGrid g0 s).and (onGrid g0 t) >>= fun y => (onGrid g0 r).and y) := by
  simp only [and_onGrid g0 hdet, bind, Except.bind]
  congr 2
  simp only [Rect.inter, Rect.mk.injEq]
  omega

/-- The same facts phrased for two arbitrary GeoBoxes related by a whole-pixel shift. -/
theorem union_inter_comm_of_shift (a b : GeoBox) (hdet : a.aff.det ≠ 0) (tx ty : Int)
    (h : b.aff = a.aff * Aff.translation tx ty) (hc : b.crs = a.crs) :
    a.or b = b.or a ∧ a.and b = b.and a := by
  have ha := self_onGrid a
  have hb := eq_onGrid a b tx ty h hc
  have h1 := union_comm_world a hdet ⟨0, 0, a.nx, a.ny⟩ ⟨tx, ty, tx + b.nx, ty + b.ny⟩
  have h2 := inter_comm_world a hdet ⟨0, 0, a.nx, a.ny⟩ ⟨tx, ty, tx + b.nx, ty + b.ny⟩
  rw [← hb, ← ha] at h1 h2
  exact ⟨h1, h2⟩

end OdcGeo.C16
