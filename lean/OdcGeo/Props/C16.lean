/- C16 — property theorems only. -/
import OdcGeo.Model.C16
namespace OdcGeo.C16

end OdcGeo.C16
