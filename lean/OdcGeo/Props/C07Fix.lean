/- C07, second part — theorems about the option paths of `Geometry.to_crs` and their public users
(`Model/C07Fix.lean`): `_multigeom`, `clip_lon180` with its `Multi*` branch (as found: `_cex`; repaired:
full), `Geometry.filter` / `dropna`, `maybe_fix`, `to_crs` with every option, `lonlat_bounds`,
`Geometry.geojson`. -/
import OdcGeo.Model.C07Fix
import OdcGeo.Props.C07
import Mathlib.Tactic.Linarith
import Mathlib.Algebra.Order.Field.Basic

namespace OdcGeo.C07
set_option linter.unusedSectionVars false

variable {K : Type} [Field K] [LinearOrder K] [IsStrictOrderedRing K]

/-! ### `_multigeom`, `clip_lon180` -/

/-- `multigeom([])` / `_multigeom([])`: `set().pop()` -/
theorem multigeom_empty_keyError : multigeomRaw ([] : List (Geom K)) = .error .keyError := rfl

/-- **Defect found (fix2-C07)**: `clip_lon180` — the last step of `to_crs(…, wrapdateline=True)` into a
geographic CRS — fails with `KeyError` on every empty `Multi*` geometry, although the same geometry
converts without the option; the repaired dispatch hands the empty geometry back. -/
theorem clipLon180_asfound_empty_multi_cex (c180 tol : K) :
    clipLon180AsFound c180 tol (.multiPolygon []) = .error .keyError ∧
    clipLon180AsFound c180 tol (.multiLineString []) = .error .keyError ∧
    clipLon180AsFound c180 tol (.multiPoint []) = .error .keyError ∧
    clipLon180R c180 tol (.multiPolygon []) = .ok (.multiPolygon []) ∧
    clipLon180R c180 tol (.multiLineString []) = .ok (.multiLineString []) ∧
    clipLon180R c180 tol (.multiPoint []) = .ok (.multiPoint []) := by
  refine ⟨rfl, rfl, rfl, ?_, ?_, ?_⟩ <;>
    simp [clipLon180R, isMultiName, isEmpty, allEmpty, mapRings, mapRingsList]

/-- **Dispatch of `clip_lon180`**: only `Multi*` geometries are taken apart and re-assembled; a
point, line, ring, polygon and **every `GeometryCollection`** — homogeneous, single member, mixed,
nested, empty — goes through `geom.transform(transformer)`, which keeps the container. -/
theorem clipLon180R_of_not_multi (c180 tol : K) (g : Geom K) (h : isMultiName g = false) :
    clipLon180R c180 tol g = .ok (clipLon180 c180 tol g) := by
  simp [clipLon180R, clipLon180, h]

theorem clipLon180R_collection (c180 tol : K) (gs : List (Geom K)) :
    clipLon180R c180 tol (.collection gs) = .ok (clipLon180 c180 tol (.collection gs)) ∧
    skel (clipLon180 c180 tol (.collection gs)) = skel (.collection gs) :=
  ⟨clipLon180R_of_not_multi c180 tol _ rfl, by unfold clipLon180; exact skel_mapRings _ _⟩

theorem mapRingsList_eq_map (f : List (Pt K) → List (Pt K)) :
    ∀ gs : List (Geom K), mapRingsList f gs = gs.map (mapRings f)
  | [] => rfl
  | g :: gs => by simp [mapRingsList, mapRingsList_eq_map f gs]

/-- what shapely guarantees of a `Multi*` geometry: parts of the one kind, none of them empty -/
def WFMulti : Geom K → Prop
  | .multiLineString gs => ∀ g ∈ gs, ∃ cs, g = .lineString cs ∧ cs ≠ []
  | .multiPolygon gs => ∀ g ∈ gs, ∃ ext holes, g = .polygon ext holes ∧ ext ≠ []
  | _ => True

theorem multigeom_polygons (f : List (Pt K) → List (Pt K)) (hf : ∀ cs, (f cs).length = cs.length) :
    ∀ gs : List (Geom K), gs ≠ [] → (∀ g ∈ gs, ∃ ext holes, g = .polygon ext holes ∧ ext ≠ []) →
      multigeomRaw (gs.map (mapRings f)) = .ok (.multiPolygon (gs.map (mapRings f))) := by
  intro gs hne hall
  have hk : ∀ g ∈ gs.map (mapRings f), kind g = .polygon ∧ isEmpty g = false := by
    intro g hg
    obtain ⟨g0, hg0, rfl⟩ := List.mem_map.mp hg
    obtain ⟨ext, holes, rfl, hext⟩ := hall g0 hg0
    refine ⟨rfl, ?_⟩
    simp only [mapRings, isEmpty]
    cases h0 : f ext with
    | cons _ _ => rfl
    | nil =>
      have := hf ext
      rw [h0] at this
      exact absurd (List.length_eq_zero_iff.mp this.symm) hext
  cases hm : gs.map (mapRings f) with
  | nil => simp at hm; exact absurd hm hne
  | cons a rest =>
    rw [hm] at hk
    have ha := hk a (List.mem_cons_self ..)
    have hrest : ∀ h ∈ rest, kind h = .polygon ∧ isEmpty h = false :=
      fun h hh => hk h (List.mem_cons_of_mem _ hh)
    have hall' : rest.all (fun h => decide (kind h = kind a)) = true := by
      simp only [List.all_eq_true, decide_eq_true_eq]
      intro h hh; rw [(hrest h hh).1, ha.1]
    have hfil : (a :: rest).filter (fun h => !isEmpty h) = a :: rest := by
      apply List.filter_eq_self.mpr
      intro h hh
      rcases List.mem_cons.mp hh with rfl | hh
      · simp [ha.2]
      · simp [(hrest h hh).2]
    rw [ha.1] at hall'
    simp only [multigeomRaw, ha.1, hall', if_true, hfil]

theorem multigeom_lines (f : List (Pt K) → List (Pt K)) (hf : ∀ cs, (f cs).length = cs.length) :
    ∀ gs : List (Geom K), gs ≠ [] → (∀ g ∈ gs, ∃ cs, g = .lineString cs ∧ cs ≠ []) →
      multigeomRaw (gs.map (mapRings f)) = .ok (.multiLineString (gs.map (mapRings f))) := by
  intro gs hne hall
  have hk : ∀ g ∈ gs.map (mapRings f), kind g = .lineString ∧ isEmpty g = false := by
    intro g hg
    obtain ⟨g0, hg0, rfl⟩ := List.mem_map.mp hg
    obtain ⟨cs, rfl, hcs⟩ := hall g0 hg0
    refine ⟨rfl, ?_⟩
    simp only [mapRings, isEmpty]
    cases h0 : f cs with
    | cons _ _ => rfl
    | nil =>
      have := hf cs
      rw [h0] at this
      exact absurd (List.length_eq_zero_iff.mp this.symm) hcs
  cases hm : gs.map (mapRings f) with
  | nil => simp at hm; exact absurd hm hne
  | cons a rest =>
    rw [hm] at hk
    have ha := hk a (List.mem_cons_self ..)
    have hrest : ∀ h ∈ rest, kind h = .lineString ∧ isEmpty h = false :=
      fun h hh => hk h (List.mem_cons_of_mem _ hh)
    have hall' : rest.all (fun h => decide (kind h = kind a)) = true := by
      simp only [List.all_eq_true, decide_eq_true_eq]
      intro h hh; rw [(hrest h hh).1, ha.1]
    have hfil : (a :: rest).filter (fun h => !isEmpty h) = a :: rest := by
      apply List.filter_eq_self.mpr
      intro h hh
      rcases List.mem_cons.mp hh with rfl | hh
      · simp [ha.2]
      · simp [(hrest h hh).2]
    rw [ha.1] at hall'
    simp only [multigeomRaw, ha.1, hall', if_true, hfil]

theorem allEmpty_false_of_first (g : Geom K) (gs : List (Geom K)) (h : isEmpty g = false) :
    allEmpty (g :: gs) = false := by simp [allEmpty, h]

/-- **`clip_lon180`, repaired, on every geometry shapely can hold**: the result is the per-sequence
clip of `Props/C07` (`clipLon180`: latitudes untouched, longitudes kept or moved to ±180 on one
side per sequence) — also through the `Multi*` branch, whose `multigeom` re-assembly gives back the
same container with the same parts; geometry type and ring / part structure are preserved. -/
theorem clipLon180R_spec (c180 tol : K) (g : Geom K) (hwf : WFMulti g) :
    clipLon180R c180 tol g = .ok (clipLon180 c180 tol g) ∧
    skel (clipLon180 c180 tol g) = skel g := by
  refine ⟨?_, by unfold clipLon180; exact skel_mapRings _ _⟩
  have hlen : ∀ cs : List (Pt K), (clipRing c180 (c180 - tol) cs).length = cs.length :=
    clipRing_length c180 (c180 - tol)
  cases g with
  | point p => exact clipLon180R_of_not_multi _ _ _ rfl
  | lineString cs => exact clipLon180R_of_not_multi _ _ _ rfl
  | linearRing cs => exact clipLon180R_of_not_multi _ _ _ rfl
  | polygon e h => exact clipLon180R_of_not_multi _ _ _ rfl
  | collection gs => exact clipLon180R_of_not_multi _ _ _ rfl
  | multiPoint ps =>
    cases ps with
    | nil => simp [clipLon180R, clipLon180, isMultiName, isEmpty]
    | cons p ps =>
      simp only [clipLon180R, clipLon180, isMultiName, isEmpty, List.isEmpty_cons, Bool.not_false, Bool.and_self,
        if_true, parts, mapRings]
      generalize clipRing c180 (c180 - tol) = f
      have hkind : ∀ q : Pt K, kind (mapRings f (.point q)) = .point ∧ isEmpty (mapRings f (.point q)) = false := by
        intro q; simp only [mapRings]; split <;> exact ⟨rfl, rfl⟩
      have hpts : ∀ qs : List (Pt K), pointsOf ((qs.map Geom.point).map (mapRings f))
          = qs.map (fun p => match f [p] with | q :: _ => q | [] => p) := by
        intro qs
        induction qs with
        | nil => rfl
        | cons q qs ih =>
          simp only [List.map_cons, mapRings]
          split <;> simp only [pointsOf, ih, *]
      have hall' : ((ps.map Geom.point).map (mapRings f)).all
          (fun h => decide (kind h = kind (mapRings f (.point p)))) = true := by
        simp only [List.all_eq_true, decide_eq_true_eq]
        intro h hh
        obtain ⟨g0, hg0, rfl⟩ := List.mem_map.mp hh
        obtain ⟨q, _, rfl⟩ := List.mem_map.mp hg0
        rw [(hkind q).1, (hkind p).1]
      have hfil : ((mapRings f (.point p)) :: (ps.map Geom.point).map (mapRings f)).filter (fun h => !isEmpty h)
          = (mapRings f (.point p)) :: (ps.map Geom.point).map (mapRings f) := by
        apply List.filter_eq_self.mpr
        intro h hh
        rcases List.mem_cons.mp hh with rfl | hh
        · simp [(hkind p).2]
        · obtain ⟨g0, hg0, rfl⟩ := List.mem_map.mp hh
          obtain ⟨q, _, rfl⟩ := List.mem_map.mp hg0
          simp [(hkind q).2]
      have := hpts (p :: ps)
      simp only [List.map_cons] at this
      rw [(hkind p).1] at hall'
      simp only [List.map_cons, multigeomRaw, (hkind p).1, hall', if_true, hfil, this]
      rfl
  | multiLineString gs =>
    cases gs with
    | nil => simp [clipLon180R, clipLon180, isMultiName, isEmpty, allEmpty, mapRings, mapRingsList]
    | cons a rest =>
      have hall : ∀ g ∈ a :: rest, ∃ cs, g = .lineString cs ∧ cs ≠ [] := hwf
      obtain ⟨cs, rfl, hcs⟩ := hall a (List.mem_cons_self ..)
      have hne : isEmpty (Geom.multiLineString (Geom.lineString cs :: rest)) = false := by
        simp only [isEmpty]
        apply allEmpty_false_of_first
        simp only [isEmpty]; cases cs with
        | nil => exact absurd rfl hcs
        | cons _ _ => rfl
      simp only [clipLon180R, clipLon180, isMultiName, hne, Bool.not_false, Bool.and_self, if_true, parts]
      rw [multigeom_lines _ hlen _ (by simp) hall]
      simp only [mapRings, mapRingsList_eq_map]
  | multiPolygon gs =>
    cases gs with
    | nil => simp [clipLon180R, clipLon180, isMultiName, isEmpty, allEmpty, mapRings, mapRingsList]
    | cons a rest =>
      have hall : ∀ g ∈ a :: rest, ∃ ext holes, g = .polygon ext holes ∧ ext ≠ [] := hwf
      obtain ⟨ext, holes, rfl, hext⟩ := hall a (List.mem_cons_self ..)
      have hne : isEmpty (Geom.multiPolygon (Geom.polygon ext holes :: rest)) = false := by
        simp only [isEmpty]
        apply allEmpty_false_of_first
        simp only [isEmpty]; cases ext with
        | nil => exact absurd rfl hext
        | cons _ _ => rfl
      simp only [clipLon180R, clipLon180, isMultiName, hne, Bool.not_false, Bool.and_self, if_true, parts]
      rw [multigeom_polygons _ hlen _ (by simp) hall]
      simp only [mapRings, mapRingsList_eq_map]

example : WFMulti (.multiPolygon [.polygon [⟨0, 0⟩, ⟨1, 0⟩, ⟨1, 1⟩, ⟨0, 0⟩] []] : Geom Rat) := by
  intro g hg; simp at hg; exact ⟨_, _, hg, by simp⟩

/-! ### `to_crs` with every option -/

/-- `maybe_fix` does nothing unless `check_and_fix=True` **and** the projected geometry is invalid -/
theorem maybeFix_noop [DecidableEq K] (caf : Bool) (isValid : Geom K → Bool) (buffer0 : Geom K → Geom K)
    (finite : Pt K → Bool) (g : Geom K) (h : caf = false ∨ isValid g = true) :
    maybeFix caf isValid buffer0 finite g = .ok (.geom g) := by
  rcases h with h | h <;> simp [maybeFix, h]

/-- **Without `wrapdateline` (or into a projected CRS) and without `check_and_fix`, the full `to_crs`
is the `to_crs` of `Props/C07`** (identity on equal CRS, error without CRS, `proj` vertex by vertex on
the optionally densified geometry) — whatever the geometry kind. -/
theorem toCrsAll_plain [DecidableEq K] (E : Env K) (proj : C01.CrsRec → C01.CrsRec → Pt K → Pt K) (autoRes : Geom K → K)
    (hit : Geom K → Bool) (split : Geom K → List (Geom K)) (isValid : Geom K → Bool)
    (buffer0 : Geom K → Geom K) (finite : Pt K → Bool) (c180 eps : K)
    (g : Tagged K) (target : C01.Tag) (geographic wd : Bool) (res : Resolution K)
    (h : wd = false ∨ geographic = false) :
    toCrsAll E proj autoRes hit split isValid buffer0 finite c180 eps g target geographic res wd false
      = match toCrs E proj autoRes g target res with
        | .error e => .error (.base e)
        | .ok t => .ok (t.crs, .geom t.geom) := by
  have hw : (wd && geographic) = false := by rcases h with h | h <;> simp [h]
  unfold toCrsAll toCrsAllWith toCrs
  cases target with
  | none => rfl
  | some t =>
    simp only
    by_cases he : C01.tagEq g.crs (some t) = true
    · simp [he]
    · simp only [he, Bool.false_eq_true, if_false]
      cases hc : g.crs with
      | none => rfl
      | some s =>
        simp only [hw, Bool.false_eq_true, if_false]
        rcases res with _ | _ | r | _ <;> simp only [maybeFix, Bool.not_false, Bool.true_or, if_true]
        · by_cases h0 : 0 < autoRes g.geom
          · simp only [h0, if_true]; cases segmentize E (autoRes g.geom) g.geom <;> rfl
          · simp only [h0, if_false]
        · by_cases h0 : 0 < r
          · simp only [h0, if_true]; cases segmentize E r g.geom <;> rfl
          · simp only [h0, if_false]

/-- `check_and_fix=True` changes nothing when shapely finds the projected geometry valid -/
theorem toCrsAll_fix_noop_of_valid [DecidableEq K] (E : Env K) (proj : C01.CrsRec → C01.CrsRec → Pt K → Pt K)
    (autoRes : Geom K → K) (hit : Geom K → Bool) (split : Geom K → List (Geom K)) (isValid : Geom K → Bool)
    (buffer0 : Geom K → Geom K) (finite : Pt K → Bool) (c180 eps : K)
    (g : Tagged K) (target : C01.Tag) (geographic wd : Bool) (res : Resolution K)
    (hv : ∀ x, isValid x = true) :
    toCrsAll E proj autoRes hit split isValid buffer0 finite c180 eps g target geographic res wd true
      = toCrsAll E proj autoRes hit split isValid buffer0 finite c180 eps g target geographic res wd false := by
  unfold toCrsAll toCrsAllWith
  simp only [maybeFix, hv, Bool.or_true, if_true, Bool.not_false, Bool.true_or]

/-- **`wrapdateline=True` into a geographic CRS keeps geometry type and part structure of every
`GeometryCollection`** (homogeneous, single member, mixed, nested …) that does not meet the
antimeridian: the result is `clip_lon180` of the vertex-wise projection, a collection with the same
members. -/
theorem toCrsAll_wrapdateline_collection [DecidableEq K] (E : Env K) (proj : C01.CrsRec → C01.CrsRec → Pt K → Pt K)
    (autoRes : Geom K → K) (hit : Geom K → Bool) (split : Geom K → List (Geom K)) (isValid : Geom K → Bool)
    (buffer0 : Geom K → Geom K) (finite : Pt K → Bool) (c180 eps : K) (s t : C01.CrsRec) (gs : List (Geom K))
    (hne : C01.tagEq (some s) (some t) = false) (hh : hit (.collection gs) = false) :
    toCrsAll E proj autoRes hit split isValid buffer0 finite c180 eps ⟨some s, .collection gs⟩ (some t) true .none true false
      = .ok (some t, .geom (clipLon180 c180 eps (mapPts (proj s t) (.collection gs)))) ∧
    skel (clipLon180 c180 eps (mapPts (proj s t) (.collection gs))) = skel (.collection gs) := by
  constructor
  · simp only [toCrsAll, toCrsAllWith, hne, Bool.false_eq_true, if_false, Bool.and_self, if_true, chopAlong, hh,
      maybeFix, Bool.not_false, Bool.true_or, clipFiltered, mapPts]
    rw [(clipLon180R_collection c180 eps _).1]
  · unfold clipLon180; rw [skel_mapRings, skel_mapPts]

/-! ### `Geometry.geojson` -/

/-- **A `GeometryCollection` is rendered member by member with the same options** — the same
`resolution`, `wrapdateline` and `simplify` reach every member, at every nesting depth. -/
theorem geojson_collection [DecidableEq K] (o : GJOpts K) (crs : C01.Tag) :
    ∀ (gs : List (Geom K)) (fs : List (GJ K)), geojsonList o crs gs = .ok fs →
      List.Forall₂ (fun g f => geojson o crs g = .ok f) gs fs
  | [], fs, h => by
    simp only [geojsonList, Except.ok.injEq] at h; subst h; exact .nil
  | g :: gs, fs, h => by
    simp only [geojsonList] at h
    cases hg : geojson o crs g with
    | error e => simp [hg] at h
    | ok f =>
      cases hl : geojsonList o crs gs with
      | error e => simp [hg, hl] at h
      | ok fs' =>
        simp only [hg, hl, Except.ok.injEq] at h
        subst h
        exact .cons hg (geojson_collection o crs gs fs' hl)

theorem geojson_collection_spec [DecidableEq K] (o : GJOpts K) (crs : C01.Tag) (gs : List (Geom K)) (j : GJ K)
    (h : geojson o crs (.collection gs) = .ok j) :
    ∃ fs, j = .fc fs ∧ List.Forall₂ (fun g f => geojson o crs g = .ok f) gs fs := by
  simp only [geojson] at h
  cases hl : geojsonList o crs gs with
  | error e => simp [hl] at h
  | ok fs =>
    simp only [hl, Except.ok.injEq] at h
    exact ⟨fs, h.symm, geojson_collection o crs gs fs hl⟩

/-- everything that is not a `GeometryCollection` is one Feature: `to_crs("epsg:4326", resolution, wrapdateline)` -/
theorem geojson_of_noncollection [DecidableEq K] (o : GJOpts K) (crs : C01.Tag) (g : Geom K)
    (h : kind g ≠ .collection) : geojson o crs g = geojsonLeaf o crs g := by
  cases g <;> first | rfl | exact absurd rfl h

/-- **Densification requested through `geojson(resolution=r)` reaches the rendered geometry**: a
member with a CRS other than EPSG:4326 is rendered as the vertex-wise projection of
`member.segmented(r)` — every edge of every ring of the member is `≤ r` before projecting. -/
theorem geojson_leaf_densified [DecidableEq K] (o : GJOpts K) (s : C01.CrsRec) (g : Geom K) (r : K) (hr : 0 < r)
    (hres : o.res = .val r) (hwd : o.wrapdateline = false)
    (hne : C01.tagEq (some s) (some o.t4326) = false) (j : GJ K)
    (h : geojsonLeaf o (some s) g = .ok j) (hE : ∀ c ∈ rings g, CoordsOk o.E r c) :
    ∃ d, segmentize o.E r g = .ok d ∧ j = .feature (.geom (o.simp (mapPts (o.proj s o.t4326) d))) ∧
      (∀ c ∈ rings d, GapsLe r c) ∧ skel d = skel g := by
  unfold geojsonLeaf at h
  simp only [toCrsAllWith, hne, Bool.false_eq_true, if_false, hres, hr, if_true, hwd, Bool.false_and, maybeFix,
    Bool.not_false, Bool.true_or] at h
  cases hseg : segmentize o.E r g with
  | error e => simp [hseg] at h
  | ok d =>
    simp only [hseg, Except.ok.injEq] at h
    exact ⟨d, rfl, h.symm, segmented_gap_le o.E r g d hseg hE,
      segmented_preserves_kind_and_structure o.E r g d hseg⟩

/-! ### `lonlat_bounds` -/

theorem minK_le_maxK (a b : K) : minK a b ≤ maxK a b := by
  unfold minK maxK
  by_cases h1 : b < a <;> by_cases h2 : a < b <;> simp only [h1, h2, if_true, if_false]
  · exact absurd (lt_trans h1 h2) (lt_irrefl _)
  · exact le_of_lt h1
  · exact le_of_lt h2
  · exact le_refl _

theorem minK_maxK_sorted (a b : K) (h : a ≤ b) : minK a b = a ∧ maxK a b = b := by
  unfold minK maxK
  constructor
  · have hn : ¬ b < a := not_lt.mpr h
    simp only [hn, if_false]
  · by_cases h2 : a < b
    · simp only [h2, if_true]
    · simp only [h2, if_false]
      exact le_antisymm h (not_lt.mp h2)

/-- the longitude range `lonlat_bounds` returns is a proper range (`BoundingBox.from_xy` sorts it) -/
theorem lonlatWrap_sorted (safe : Bool) (c180 c360 x0 x1 : K) :
    (lonlatWrap safe c180 c360 x0 x1).1 ≤ (lonlatWrap safe c180 c360 x0 x1).2 := by
  unfold lonlatWrap
  exact minK_le_maxK _ _

/-- `mode="quick"`: the range of the converted bounding box as it is -/
theorem lonlatWrap_quick (c180 c360 x0 x1 : K) (h : x0 ≤ x1) :
    lonlatWrap false c180 c360 x0 x1 = (x0, x1) := by
  unfold lonlatWrap
  simp only [Bool.false_and, Bool.false_eq_true, if_false]
  rw [(minK_maxK_sorted x0 x1 h).1, (minK_maxK_sorted x0 x1 h).2]

/-- `mode="safe"` leaves a range of at most 180° alone -/
theorem lonlatWrap_narrow (c180 c360 x0 x1 : K) (h : x0 ≤ x1) (hs : x1 - x0 ≤ c180) :
    lonlatWrap true c180 c360 x0 x1 = (x0, x1) := by
  unfold lonlatWrap
  simp only [Bool.true_and, decide_eq_true_eq, not_lt.mpr hs, if_false]
  rw [(minK_maxK_sorted x0 x1 h).1, (minK_maxK_sorted x0 x1 h).2]

/-- **`mode="safe"` never widens the range, and both ends are longitudes of the converted box up to
one full turn**: the re-reading (negative longitudes + 360°) is kept only when it is strictly
narrower. -/
theorem lonlatWrap_safe_spec (c180 c360 x0 x1 : K) (h : x0 ≤ x1) (r : K × K)
    (hr : lonlatWrap true c180 c360 x0 x1 = r) :
    r.2 - r.1 ≤ x1 - x0 ∧
    (r.1 = x0 ∨ r.1 = x1 ∨ r.1 = x0 + c360 ∨ r.1 = x1 + c360) ∧
    (r.2 = x0 ∨ r.2 = x1 ∨ r.2 = x0 + c360 ∨ r.2 = x1 + c360) := by
  have hs := minK_maxK_sorted x0 x1 h
  subst hr
  unfold lonlatWrap
  simp only [Bool.true_and, decide_eq_true_eq]
  by_cases hw : c180 < x1 - x0
  · simp only [hw, if_true]
    generalize ha : (if x0 < 0 then x0 + c360 else x0) = a
    generalize hb : (if x1 < 0 then x1 + c360 else x1) = b
    have haa : a = x0 ∨ a = x0 + c360 := by rw [← ha]; split <;> simp
    have hbb : b = x1 ∨ b = x1 + c360 := by rw [← hb]; split <;> simp
    have hmin : minK a b = a ∨ minK a b = b := by unfold minK; split <;> simp
    have hmax : maxK a b = a ∨ maxK a b = b := by unfold maxK; split <;> simp
    by_cases hn : maxK a b - minK a b < x1 - x0
    · simp only [hn, if_true]
      have hle := minK_le_maxK a b
      have h1 := minK_maxK_sorted (minK a b) (maxK a b) hle
      rw [h1.1, h1.2]
      refine ⟨le_of_lt hn, ?_, ?_⟩
      · rcases hmin with hm | hm <;> rw [hm]
        · rcases haa with h | h <;> simp [h]
        · rcases hbb with h | h <;> simp [h]
      · rcases hmax with hm | hm <;> rw [hm]
        · rcases haa with h | h <;> simp [h]
        · rcases hbb with h | h <;> simp [h]
    · simp [hn, hs.1, hs.2]
  · simp [hw, hs.1, hs.2]

example : lonlatWrap true (180 : Rat) 360 (-179) 179 = (179, 181) := by decide +kernel

/-- `lonlat_bounds` refuses a geometry without CRS and hands back the plain bounding box of a
geometry that already is in a geographic CRS (no densification, no conversion, no wrap logic) -/
theorem lonlatBounds_entry [DecidableEq K] (E : Env K) (proj : C01.CrsRec → C01.CrsRec → Pt K → Pt K) (autoRes : Geom K → K)
    (isValid : Geom K → Bool) (buffer0 : Geom K → Geom K) (finite : Pt K → Bool) (c180 c360 : K)
    (t4326 : C01.CrsRec) (geom : Geom K) (geographic safe : Bool) (res : Resolution K) :
    lonlatBounds E proj autoRes isValid buffer0 finite c180 c360 t4326 ⟨none, geom⟩ geographic safe res
      = .error (.base .valueError) ∧
    ∀ s, lonlatBounds E proj autoRes isValid buffer0 finite c180 c360 t4326 ⟨some s, geom⟩ true safe res
      = .ok (some s, boundsOf (shellVertices geom)) := by
  constructor
  · rfl
  · intro s; simp [lonlatBounds]

/-! ### `Geometry.filter` / `dropna` -/

/-- shapely's ring construction: what comes back consists of the coordinates that went in (the
closing vertex is a copy of the first), and only a list of one or two coordinates is refused -/
theorem closeRing_spec [DecidableEq K] (cs r : List (Pt K)) (h : closeRing cs = .ok r) :
    (cs = [] ∧ r = []) ∨ (3 ≤ cs.length ∧ (r = cs ∨ ∃ p rest, cs = p :: rest ∧ r = cs ++ [p])) := by
  cases cs with
  | nil => simp [closeRing] at h; exact Or.inl ⟨rfl, h⟩
  | cons p rest =>
    right
    unfold closeRing at h
    by_cases h1 : rest.length + 1 < 3
    · simp [h1] at h
    · simp only [h1, if_false] at h
      refine ⟨by simp only [List.length_cons]; omega, ?_⟩
      by_cases h2 : rest.length + 1 = 3
      · simp only [h2, if_true, Except.ok.injEq] at h
        exact Or.inr ⟨p, rest, rfl, by rw [← h]⟩
      · simp only [h2, if_false] at h
        split at h
        · exact Or.inl (by simpa using h.symm)
        · exact Or.inr ⟨p, rest, rfl, by simp only [Except.ok.injEq] at h; rw [← h]⟩

theorem closeRing_mem [DecidableEq K] (cs r : List (Pt K)) (h : closeRing cs = .ok r) : ∀ q ∈ r, q ∈ cs := by
  intro q hq
  rcases closeRing_spec cs r h with ⟨_, rfl⟩ | ⟨_, rfl | ⟨p, rest, rfl, rfl⟩⟩
  · simp at hq
  · exact hq
  · rcases List.mem_append.mp hq with hq | hq
    · exact hq
    · simp at hq; rw [hq]; exact List.mem_cons_self ..

theorem closeRing_error_iff [DecidableEq K] (cs : List (Pt K)) :
    (∃ e, closeRing cs = .error e) ↔ (cs.length = 1 ∨ cs.length = 2) := by
  cases cs with
  | nil => simp [closeRing]
  | cons p rest =>
    unfold closeRing
    by_cases h1 : rest.length + 1 < 3
    · simp only [h1, if_true, List.length_cons]
      constructor
      · intro _; omega
      · intro _; exact ⟨_, rfl⟩
    · simp only [h1, if_false, List.length_cons]
      constructor
      · rintro ⟨e, he⟩
        split at he
        · simp at he
        · split at he <;> simp at he
      · intro h; omega

/-- a ring as shapely holds it (closed, at least 4 coordinates) is constructed unchanged -/
theorem closeRing_closed_id [DecidableEq K] (p : Pt K) (rest : List (Pt K)) (hl : 3 ≤ rest.length)
    (hc : (p :: rest).getLast? = some p) : closeRing (p :: rest) = .ok (p :: rest) := by
  unfold closeRing
  have h1 : ¬ rest.length + 1 < 3 := by omega
  have h2 : ¬ rest.length + 1 = 3 := by omega
  simp only [h1, h2, if_false, hc, if_true]

/-- **`Geometry.filter` keeps the geometry type** (an empty geometry of that type when nothing is left) -/
theorem filter_kind [DecidableEq K] (pred : Pt K → Bool) (g g' : Geom K) (h : filterGeom pred g = .ok (.geom g')) :
    kind g' = kind g := by
  cases g with
  | point p =>
    simp only [filterGeom] at h
    split at h
    · simp only [Except.ok.injEq, Filtered.geom.injEq] at h; rw [← h]
    · simp at h
  | multiPoint ps => simp only [filterGeom, Except.ok.injEq, Filtered.geom.injEq] at h; rw [← h]; rfl
  | lineString cs => simp only [filterGeom, Except.ok.injEq, Filtered.geom.injEq] at h; rw [← h]; rfl
  | linearRing cs =>
    simp only [filterGeom] at h
    split at h
    · simp at h
    · simp only [Except.ok.injEq, Filtered.geom.injEq] at h; rw [← h]; rfl
  | polygon e hs =>
    simp only [filterGeom, mkPolygon] at h
    split at h
    · simp at h
    · rename_i g0 hg0
      simp only [Except.ok.injEq, Filtered.geom.injEq] at h
      subst h
      split at hg0
      · simp at hg0
      · split at hg0
        · simp at hg0
        · split at hg0
          · simp at hg0
          · simp only [Except.ok.injEq] at hg0; rw [← hg0]; rfl
  | multiLineString gs =>
    simp only [filterGeom] at h
    split at h
    · simp at h
    · simp only [Except.ok.injEq, Filtered.geom.injEq] at h; rw [← h]; rfl
  | multiPolygon gs =>
    simp only [filterGeom] at h
    split at h
    · simp at h
    · simp only [Except.ok.injEq, Filtered.geom.injEq] at h; rw [← h]; rfl
  | collection gs =>
    simp only [filterGeom] at h
    split at h
    · simp at h
    · simp only [Except.ok.injEq, Filtered.geom.injEq] at h; rw [← h]; rfl

theorem dropSingle_mem [DecidableEq K] (l : List (Pt K)) : ∀ v ∈ dropSingle l, v ∈ l := by
  intro v hv; unfold dropSingle at hv; split at hv
  · simp at hv
  · exact hv

theorem closeRings_mem [DecidableEq K] : ∀ (cs cs' : List (List (Pt K))), closeRings cs = .ok cs' →
    ∀ v ∈ cs'.flatten, v ∈ cs.flatten
  | [], cs', h => by simp [closeRings] at h; subst h; simp
  | c :: cs, cs', h => by
    simp only [closeRings] at h
    cases hc : closeRing c with
    | error e => simp [hc] at h
    | ok c' =>
      cases hl : closeRings cs with
      | error e => simp [hc, hl] at h
      | ok l' =>
        simp only [hc, hl, Except.ok.injEq] at h
        subst h
        intro v hv
        simp only [List.flatten_cons, List.mem_append] at hv ⊢
        rcases hv with hv | hv
        · exact Or.inl (closeRing_mem c c' hc v hv)
        · exact Or.inr (closeRings_mem cs l' hl v hv)

theorem mkPolygon_vertices [DecidableEq K] (ext : List (Pt K)) (holes : List (List (Pt K))) (g : Geom K)
    (h : mkPolygon ext holes = .ok g) : ∀ v ∈ vertices g, v ∈ ext ∨ v ∈ holes.flatten := by
  unfold mkPolygon at h
  cases he : closeRing ext with
  | error e => simp [he] at h
  | ok e' =>
    cases hh : closeRings holes with
    | error e => simp [he, hh] at h
    | ok hs' =>
      simp only [he, hh] at h
      split at h
      · simp at h
      · simp only [Except.ok.injEq] at h
        subst h
        intro v hv
        simp only [vertices, List.mem_append] at hv
        rcases hv with hv | hv
        · exact Or.inl (closeRing_mem ext e' he v hv)
        · exact Or.inr (closeRings_mem holes hs' hh v hv)

mutual
/-- **`Geometry.filter(pred)` keeps only points for which `pred` holds and invents none**: every
vertex of the result satisfies the predicate and is a vertex of the input (the vertex shapely adds
to close a ring again is a copy of a kept one) — for every geometry kind, at any nesting depth.
With `pred = isfinite` this is `dropna`: no NaN / inf vertex survives `check_and_fix`. -/
theorem filter_vertices [DecidableEq K] (pred : Pt K → Bool) :
    ∀ (g g' : Geom K), filterGeom pred g = .ok (.geom g') → ∀ v ∈ vertices g', pred v = true ∧ v ∈ vertices g
  | .point p, g', h => by
    simp only [filterGeom] at h
    split at h
    · rename_i hp
      simp only [Except.ok.injEq, Filtered.geom.injEq] at h; subst h
      intro v hv; simp only [vertices, List.mem_singleton] at hv ⊢; subst hv; exact ⟨hp, rfl⟩
    · simp at h
  | .multiPoint ps, g', h => by
    simp only [filterGeom, Except.ok.injEq, Filtered.geom.injEq] at h; subst h
    intro v hv; simp only [vertices, List.mem_filter] at hv ⊢; exact ⟨hv.2, hv.1⟩
  | .lineString cs, g', h => by
    simp only [filterGeom, Except.ok.injEq, Filtered.geom.injEq] at h; subst h
    intro v hv; simp only [vertices] at hv ⊢
    have := dropSingle_mem _ v hv
    simp only [List.mem_filter] at this; exact ⟨this.2, this.1⟩
  | .linearRing cs, g', h => by
    simp only [filterGeom] at h
    cases hc : closeRing (dropSingle (cs.filter pred)) with
    | error e => simp [hc] at h
    | ok r =>
      simp only [hc, Except.ok.injEq, Filtered.geom.injEq] at h; subst h
      intro v hv; simp only [vertices] at hv ⊢
      have := dropSingle_mem _ v (closeRing_mem _ r hc v hv)
      simp only [List.mem_filter] at this; exact ⟨this.2, this.1⟩
  | .polygon ext holes, g', h => by
    simp only [filterGeom] at h
    cases hm : mkPolygon (ext.filter pred) ((holes.map (fun h => h.filter pred)).filter (fun r => decide (3 ≤ r.length))) with
    | error e => simp [hm] at h
    | ok g0 =>
      simp only [hm, Except.ok.injEq, Filtered.geom.injEq] at h; subst h
      intro v hv
      simp only [vertices, List.mem_append]
      rcases mkPolygon_vertices _ _ g0 hm v hv with hv | hv
      · simp only [List.mem_filter] at hv; exact ⟨hv.2, Or.inl hv.1⟩
      · simp only [List.mem_flatten, List.mem_filter, List.mem_map] at hv
        obtain ⟨l, ⟨⟨h0, hh0, rfl⟩, _⟩, hvl⟩ := hv
        simp only [List.mem_filter] at hvl
        exact ⟨hvl.2, Or.inr (List.mem_flatten.mpr ⟨h0, hh0, hvl.1⟩)⟩
  | .multiLineString gs, g', h => by
    simp only [filterGeom] at h
    cases hl : filterList pred gs with
    | error e => simp [hl] at h
    | ok gs' =>
      simp only [hl, Except.ok.injEq, Filtered.geom.injEq] at h; subst h
      exact filterList_vertices pred gs gs' hl
  | .multiPolygon gs, g', h => by
    simp only [filterGeom] at h
    cases hl : filterList pred gs with
    | error e => simp [hl] at h
    | ok gs' =>
      simp only [hl, Except.ok.injEq, Filtered.geom.injEq] at h; subst h
      exact filterList_vertices pred gs gs' hl
  | .collection gs, g', h => by
    simp only [filterGeom] at h
    cases hl : filterList pred gs with
    | error e => simp [hl] at h
    | ok gs' =>
      simp only [hl, Except.ok.injEq, Filtered.geom.injEq] at h; subst h
      exact filterList_vertices pred gs gs' hl
theorem filterList_vertices [DecidableEq K] (pred : Pt K → Bool) :
    ∀ (gs gs' : List (Geom K)), filterList pred gs = .ok gs' →
      ∀ v ∈ verticesList gs', pred v = true ∧ v ∈ verticesList gs
  | [], gs', h => by simp only [filterList, Except.ok.injEq] at h; subst h; intro v hv; simp [verticesList] at hv
  | g :: gs, gs', h => by
    simp only [filterList] at h
    cases hg : filterGeom pred g with
    | error e => simp [hg] at h
    | ok f =>
      cases hl : filterList pred gs with
      | error e => simp [hg, hl] at h
      | ok l' =>
        simp only [hg, hl] at h
        have ih := filterList_vertices pred gs l' hl
        cases f with
        | emptyPoint =>
          simp only [Except.ok.injEq] at h; subst h
          intro v hv
          exact ⟨(ih v hv).1, by simp only [verticesList, List.mem_append]; exact Or.inr (ih v hv).2⟩
        | geom g1 =>
          have ih1 := filter_vertices pred g g1 hg
          simp only at h
          split at h
          · simp only [Except.ok.injEq] at h; subst h
            intro v hv
            exact ⟨(ih v hv).1, by simp only [verticesList, List.mem_append]; exact Or.inr (ih v hv).2⟩
          · simp only [Except.ok.injEq] at h; subst h
            intro v hv
            simp only [verticesList, List.mem_append] at hv ⊢
            rcases hv with hv | hv
            · exact ⟨(ih1 v hv).1, Or.inl (ih1 v hv).2⟩
            · exact ⟨(ih v hv).1, Or.inr (ih v hv).2⟩
end

/-- as found (not repaired; outside the valid areas the property quantifies over): a polygon or ring
of which only one or two vertices survive is a `ValueError` from shapely's ring constructor, and a
polygon whose shell is gone while a hole survives is a `GEOSException` -/
theorem filter_few_left_raises :
    filterGeom (fun p => decide (p.x < 5)) (.polygon [⟨0, 0⟩, ⟨9, 0⟩, ⟨9, 9⟩, ⟨7, 9⟩, ⟨0, 0⟩] [] : Geom Int)
      = .error (.base .valueError) ∧
    filterGeom (fun p => decide (p.x < 5)) (.polygon [⟨6, 0⟩, ⟨9, 0⟩, ⟨9, 9⟩, ⟨6, 0⟩] [[⟨1, 1⟩, ⟨2, 1⟩, ⟨2, 2⟩, ⟨1, 1⟩]] : Geom Int)
      = .error .geos := by
  constructor <;> simp [filterGeom, mkPolygon, closeRing, closeRings]

/-! ### instances and non-vacuity -/

/-- over the reals (shapely's length = the Euclidean length) no hypothesis on shapely is left:
**every member rendered by `geojson(resolution=r)` is the projection of a geometry none of whose
edges is longer than `r`** -/
theorem geojson_leaf_densified_real (o : GJOpts ℝ) (hEnv : o.E = envReal) (s : C01.CrsRec) (g : Geom ℝ) (r : ℝ)
    (hr : 0 < r) (hres : o.res = .val r) (hwd : o.wrapdateline = false)
    (hne : C01.tagEq (some s) (some o.t4326) = false) (j : GJ ℝ) (h : geojsonLeaf o (some s) g = .ok j) :
    ∃ d, segmentize envReal r g = .ok d ∧ j = .feature (.geom (o.simp (mapPts (o.proj s o.t4326) d))) ∧
      (∀ c ∈ rings d, GapsLe r c) ∧ skel d = skel g := by
  have := geojson_leaf_densified o s g r hr hres hwd hne j h (by rw [hEnv]; exact fun c _ => envReal_coordsOk r hr c)
  rw [hEnv] at this
  exact this

example : C01.tagEq (some ⟨1, 3857, 1, 1⟩) (some ⟨2, 4326, 2, 2⟩) = false := by decide

example : lonlatWrap false (180 : Rat) 360 (-179) 179 = (-179, 179) := by decide +kernel
example : lonlatWrap true (180 : Rat) 360 (-100) 100 = (100, 260) := by decide +kernel
example : closeRing ([⟨0, 0⟩, ⟨1, 1⟩, ⟨0, 0⟩] : List (Pt Int)) = .ok [⟨0, 0⟩, ⟨1, 1⟩, ⟨0, 0⟩, ⟨0, 0⟩] := by decide
example : ∃ e, closeRing ([⟨0, 0⟩, ⟨1, 1⟩] : List (Pt Int)) = .error e := ⟨_, rfl⟩

/-! ### `projected_lon`, `chop_along_antimeridian`, `_geojson_to_shapely` -/

/-- **`projected_lon`**: the line handed to `intersects` / `split` is either empty or has at least two
vertices, every vertex projected cleanly, and the vertices are images of sampled points of the meridian
in sampling order (nothing invented, nothing reordered) -/
theorem projectedLon_spec (tr : Pt K → Pt K) (finite : Pt K → Bool) (lon : K) (ys : List K) :
    (projectedLon tr finite lon ys = [] ∨ 2 ≤ (projectedLon tr finite lon ys).length) ∧
    (∀ p ∈ projectedLon tr finite lon ys, finite p = true) ∧
    List.Sublist (projectedLon tr finite lon ys) (ys.map (fun y => tr ⟨lon, y⟩)) := by
  unfold projectedLon
  dsimp only
  by_cases h : ((ys.map (fun y => tr ⟨lon, y⟩)).filter finite).length < 2
  · simp [h]
  · simp only [h, if_false]
    refine ⟨Or.inr (by omega), ?_, List.filter_sublist⟩
    intro p hp
    exact (List.mem_filter.mp hp).2

/-- **`chop_along_antimeridian`**: refuses a geometry without CRS; a geometry that does not meet the
projected antimeridian is handed back untouched; one that does is `multigeom` of the pieces of the
split — so a chopped polygon / line comes back as the `Multi*` of its pieces -/
theorem chopFull_spec (l180 : List (Pt K)) (hit : List (Pt K) → Geom K → Bool)
    (split : List (Pt K) → Geom K → List (Geom K)) (g : Geom K) :
    chopFull none l180 hit split g = .error (.base .valueError) ∧
    (∀ c, hit l180 g = false → chopFull (some c) l180 hit split g = .ok g) ∧
    (∀ c, hit l180 g = true → chopFull (some c) l180 hit split g = multigeomRaw (split l180 g)) := by
  refine ⟨rfl, ?_, ?_⟩ <;> intro c h <;> simp [chopFull, chopAlong, h]

/-- the re-assembly of polygon pieces is the MultiPolygon of exactly those pieces, in order -/
theorem multigeom_polygon_pieces (gs : List (Geom K)) (hne : gs ≠ [])
    (hall : ∀ g ∈ gs, ∃ ext holes, g = .polygon ext holes ∧ ext ≠ []) :
    multigeomRaw gs = .ok (.multiPolygon gs) := by
  have h := multigeom_polygons (K := K) id (fun _ => rfl) gs hne hall
  have hid : ∀ l : List (Geom K), l.map (mapRings id) = l := by
    intro l
    induction l with
    | nil => rfl
    | cons a l ih =>
      rw [List.map_cons, ih, mapRings_id id a (fun _ _ => rfl)]
  rwa [hid] at h

/-- **`Geometry(dict)`**: a Feature is its geometry; a FeatureCollection with exactly one feature is
that feature's geometry (not a one-member multi-geometry); any other number of features goes through
`_multigeom` — none at all is a `KeyError`; a dict without `"type"` is refused -/
theorem geojsonToShape_spec (g : Geom K) (fs : List (Geom K)) :
    geojsonToShape (.feature g) = .ok g ∧ geojsonToShape (.geometry g) = .ok g ∧
    geojsonToShape (.featureCollection [g]) = .ok g ∧
    geojsonToShape (.featureCollection ([] : List (Geom K))) = .error .keyError ∧
    geojsonToShape (GJIn.noType : GJIn K) = .error (.base .valueError) ∧
    (fs.length ≠ 1 → geojsonToShape (.featureCollection fs) = multigeomRaw fs) := by
  refine ⟨rfl, rfl, rfl, rfl, rfl, ?_⟩
  intro h
  cases fs with
  | nil => rfl
  | cons a rest =>
    cases rest with
    | nil => exact absurd rfl h
    | cons b rest => rfl

end OdcGeo.C07
