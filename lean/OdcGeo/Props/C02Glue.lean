/-
C02, growth round 2: the glue between the modelled view arithmetic and the public entry points
(`Model/C02Glue.lean`): argument normalisers, `zoom_to` and `__getitem__` dispatch with their error
branches, `enclosing` / `project` argument handling, small accessors, and end-to-end theorems that take a
public call from its *arguments as the user spells them* to the pixel / shape / covering contract of
`Props/C02.lean` with no named hypothesis in between.
-/
import OdcGeo.Model.C02Glue
import OdcGeo.Props.C02

namespace OdcGeo.C02
open OdcGeo.C17 (PIdx NSlice normSlice wrapNeg)

/-! ## 1. `int()`, `shape_`, `res_` -/

/-- `int(x)` truncates toward zero: it has the sign of `x` and differs from `x` by less than one. -/
theorem pyTrunc_spec (x : Rat) :
    (0 ≤ x → 0 ≤ pyTrunc x ∧ (pyTrunc x : Rat) ≤ x ∧ x < (pyTrunc x : Rat) + 1) ∧
    (x < 0 → pyTrunc x ≤ 0 ∧ x ≤ (pyTrunc x : Rat) ∧ (pyTrunc x : Rat) < x + 1) := by
  constructor
  · intro h
    have hn : ¬ x < 0 := not_lt.mpr h
    simp only [pyTrunc, hn, if_false]
    have h2 := Rat.lt_floor_add_one x
    push_cast at h2
    exact ⟨Rat.le_floor_iff.mpr (by simpa using h), Rat.floor_le x, h2⟩
  · intro h
    simp only [pyTrunc, h, if_true]
    have h1 := Rat.floor_le (-x)
    have h2 := Rat.lt_floor_add_one (-x)
    have h3 : (0 : Int) ≤ (-x).floor := Rat.le_floor_iff.mpr (by simp; linarith)
    push_cast at h2
    refine ⟨by omega, ?_, ?_⟩ <;> push_cast <;> linarith

/-- `int(k) = k` for an integral value, whatever its type -/
theorem pyTrunc_intCast (k : Int) : pyTrunc (k : Rat) = k := by
  unfold pyTrunc
  by_cases h : (k : Rat) < 0
  · have e : -(k : Rat) = ((-k : Int) : Rat) := by push_cast; ring
    simp only [h, if_true, e, floor_intCast']; omega
  · simp only [h, if_false, floor_intCast']

/-- A value that is already integral is passed through by `int()` for both number types. -/
theorem pyNum_toInt_integral (k : Int) : (PyNum.int k).toInt = k ∧ (PyNum.flt (k : Rat)).toInt = k :=
  ⟨rfl, pyTrunc_intCast k⟩

/-- `shape_`: `(ny, nx)` for a 2-sequence, `(y, x)` for an `XY`, fixed point on its own output, and the
only failures are "not a shape-like object" and "not exactly two entries" (both `ValueError`). -/
theorem shape_norm_spec :
    (∀ a b : PyNum, shapeNorm (.seq [a, b]) = .ok (a.toInt, b.toInt)) ∧
    (∀ x y : PyNum, shapeNorm (.xy x y) = .ok (y.toInt, x.toInt)) ∧
    (∀ s ny nx, shapeNorm s = .ok (ny, nx) → shapeNorm (.shape2d ny nx) = .ok (ny, nx)) ∧
    (∀ s e, shapeNorm s = .error e → e = .valueError ∧ (s = .other ∨ ∃ l, s = .seq l ∧ l.length ≠ 2)) ∧
    (∀ l : List PyNum, l.length ≠ 2 → shapeNorm (.seq l) = .error .valueError) := by
  refine ⟨fun _ _ => rfl, fun _ _ => rfl, fun _ _ _ _ => rfl, ?_, ?_⟩
  · intro s e h
    cases s with
    | shape2d ny nx => simp [shapeNorm] at h
    | xy x y => simp [shapeNorm] at h
    | other => simp only [shapeNorm, Except.error.injEq] at h; exact ⟨h.symm, Or.inl rfl⟩
    | seq l =>
      match l, h with
      | [], h => simp only [shapeNorm, Except.error.injEq] at h; exact ⟨h.symm, Or.inr ⟨_, rfl, by simp⟩⟩
      | [_], h => simp only [shapeNorm, Except.error.injEq] at h; exact ⟨h.symm, Or.inr ⟨_, rfl, by simp⟩⟩
      | [_, _], h => simp [shapeNorm] at h
      | _ :: _ :: _ :: _, h =>
        simp only [shapeNorm, Except.error.injEq] at h; exact ⟨h.symm, Or.inr ⟨_, rfl, by simp⟩⟩
  · intro l hl
    match l, hl with
    | [], _ => rfl
    | [_], _ => rfl
    | [_, _], hl => simp at hl
    | _ :: _ :: _ :: _, _ => rfl

/-- Every spelling of an integral shape `(ny, nx)` — tuple / list of ints or of integral floats, `XY`,
`Shape2d` — denotes the same shape. -/
theorem shape_spellings_agree (ny nx : Int) :
    shapeNorm (.seq [.int ny, .int nx]) = .ok (ny, nx) ∧
    shapeNorm (.seq [.flt ny, .flt nx]) = .ok (ny, nx) ∧
    shapeNorm (.seq [.int ny, .flt nx]) = .ok (ny, nx) ∧
    shapeNorm (.xy (.int nx) (.int ny)) = .ok (ny, nx) ∧
    shapeNorm (.xy (.flt nx) (.flt ny)) = .ok (ny, nx) ∧
    shapeNorm (.shape2d ny nx) = .ok (ny, nx) := by
  simp [shapeNorm, PyNum.toInt, pyTrunc_intCast]

/-- Fractional entries are truncated toward zero, never rounded: `(3.7, -2.5)` is the shape `(3, -2)`. -/
theorem shape_norm_truncates_example :
    shapeNorm (.seq [.flt (37 / 10), .flt (-5 / 2)]) = .ok (3, -2) := by decide +kernel

/-- `crop(shape)` / `expand(shape)` / `GeoBox(shape, A, crs)`: the result has the normalised shape and the
same pixel-to-world mapping and CRS — for every spelling of the shape; it fails exactly when `shape_` does. -/
theorem resize_arg_contract (g : GeoBox) (s : ShapeArg) :
    (∀ g', resizeArg g s = .ok g' →
      shapeNorm s = .ok (g'.ny, g'.nx) ∧ g'.A = g.A ∧ g'.crs = g.crs ∧ g' = resize g g'.ny g'.nx ∧
      ∀ p, pix2wld g' p = pix2wld g p) ∧
    (∀ e, resizeArg g s = .error e ↔ shapeNorm s = .error e) := by
  unfold resizeArg mkGeoBox
  cases h : shapeNorm s with
  | error e0 => simp [bind, Except.bind]
  | ok v =>
    obtain ⟨ny, nx⟩ := v
    simp only [bind, Except.bind, pure, Except.pure, Except.ok.injEq, reduceCtorEq, iff_self,
      implies_true, and_true]
    intro g' hg
    subst hg
    exact ⟨rfl, rfl, rfl, rfl, fun _ => rfl⟩

/-- `res_`: a bare number `r` means square pixels with inverted Y, `(r, -r)`; a `Resolution` is taken as it
is; anything else is a `ValueError`. -/
theorem res_norm_spec :
    (∀ r : PyNum, resNorm (.num r) = .ok (r.val, -r.val)) ∧
    (∀ x y : Rat, resNorm (.res x y) = .ok (x, y)) ∧
    (∀ a e, resNorm a = .error e ↔ (a = .other ∧ e = .valueError)) := by
  refine ⟨fun _ => rfl, fun _ _ => rfl, ?_⟩
  intro a e
  cases a <;> simp [resNorm, eq_comm]

/-! ## 2. `zoom_to` from its arguments -/

/-- Neither argument → `ValueError`; a positional `shape` (number or shape-like) always wins over
`resolution=`. -/
theorem zoom_to_dispatch (g : GeoBox) :
    zoomTo g .none none = .error .valueError ∧
    (∀ n r, zoomTo g (.num n) r = zoomToNum g n.val) ∧
    (∀ s r, zoomTo g (.shape s) r = zoomTo g (.shape s) none) ∧
    (∀ rx ry, zoomTo g .none (some (.res rx ry)) = zoomToRes g rx ry) ∧
    (∀ r : PyNum, zoomTo g .none (some (.num r)) = zoomToRes g r.val (-r.val)) :=
  ⟨rfl, fun _ _ => rfl, fun _ _ => rfl, fun _ _ => rfl, fun _ => rfl⟩

/-- Exactly which calls of `zoom_to` fail, for every argument combination. -/
theorem zoom_to_fails_iff (g : GeoBox) (z : ZoomArg) (r : Option ResArg) :
    (∃ e, zoomTo g z r = .error e) ↔
      match z with
      | .none => (match r with
          | none => True
          | some .other => True
          | some (.num v) => v.val = 0
          | some (.res rx ry) => rx = 0 ∨ ry = 0)
      | .num n => n.val = 0 ∨ max g.ny g.nx = 0
      | .shape s => (∃ e, shapeNorm s = .error e) ∨ ∃ ny nx, shapeNorm s = .ok (ny, nx) ∧ (ny = 0 ∨ nx = 0) := by
  cases z with
  | none =>
    cases r with
    | none => simp [zoomTo]
    | some a =>
      cases a with
      | other => simp [zoomTo, resNorm, bind, Except.bind]
      | num v =>
        simp only [zoomTo, resNorm, bind, Except.bind]
        rw [zoom_to_res_error_iff]
        constructor
        · rintro (h | h)
          · exact h
          · exact neg_eq_zero.mp h
        · exact Or.inl
      | res rx ry =>
        simp only [zoomTo, resNorm, bind, Except.bind]
        exact zoom_to_res_error_iff g rx ry
  | num n =>
    simp only [zoomTo]
    rw [← zoom_to_num_error_iff]
    constructor
    · rintro ⟨e, he⟩
      by_cases h1 : n.val = 0 <;> by_cases h2 : max g.ny g.nx = 0 <;> simp_all [zoomToNum]
    · intro h; exact ⟨_, h⟩
  | shape s =>
    simp only [zoomTo]
    cases hs : shapeNorm s with
    | error e0 => simp [bind, Except.bind]
    | ok v =>
      obtain ⟨ny, nx⟩ := v
      simp only [bind, Except.bind, reduceCtorEq, exists_false, false_or, Except.ok.injEq, Prod.mk.injEq]
      constructor
      · rintro ⟨e, he⟩
        refine ⟨ny, nx, ⟨rfl, rfl⟩, ?_⟩
        by_contra hc
        simp [zoomToShape, hc] at he
      · rintro ⟨a, b, ⟨ha, hb⟩, h⟩
        subst ha hb
        exact ⟨_, (zoom_to_shape_error_iff g ny nx).mpr h⟩

example : ∃ e, zoomTo ⟨5, 7, Aff.id, 1⟩ (.shape (.seq [.int 3])) none = .error e := ⟨_, rfl⟩
example : zoomTo ⟨5, 7, Aff.id, 1⟩ (.shape (.seq [.int 3, .flt (9 / 2)])) (some .other)
    = .ok ⟨3, 4, ⟨7 / 4, 0, 0, 0, 5 / 3, 0⟩, 1⟩ := by decide +kernel

/-- Every successful `zoom_to` keeps the CRS. -/
theorem zoom_to_crs (g g' : GeoBox) (z : ZoomArg) (r : Option ResArg) (h : zoomTo g z r = .ok g') :
    g'.crs = g.crs := by
  cases z with
  | none =>
    cases r with
    | none => simp [zoomTo] at h
    | some a =>
      cases a with
      | other => simp [zoomTo, resNorm, bind, Except.bind] at h
      | num v => exact (zoom_to_res_covers g g' _ _ (by simpa [zoomTo, resNorm, bind, Except.bind] using h)).1
      | res rx ry => exact (zoom_to_res_covers g g' _ _ (by simpa [zoomTo, resNorm, bind, Except.bind] using h)).1
  | num n =>
    simp only [zoomTo] at h
    unfold zoomToNum at h
    by_cases h1 : n.val = 0
    · simp [h1] at h
    · by_cases h2 : max g.ny g.nx = 0
      · simp [h1, h2] at h
      · simp only [h1, h2, if_false, Except.ok.injEq] at h; subst h; rfl
  | shape s =>
    simp only [zoomTo] at h
    cases hs : shapeNorm s with
    | error e0 => simp [hs, bind, Except.bind] at h
    | ok v =>
      obtain ⟨ny, nx⟩ := v
      simp only [hs, bind, Except.bind] at h
      exact (zoom_to_shape_same_footprint g g' ny nx h 0 0).2.2.1

/-- **`zoom_to(shape)` end to end**: for every spelling `s` of the target shape the result has exactly the
normalised shape and the *same footprint* — the point at fraction `(u, v)` of the new pixel rectangle is the
point at fraction `(u, v)` of the old one — whatever `resolution=` is also passed. -/
theorem zoom_to_shape_arg_footprint (g g' : GeoBox) (s : ShapeArg) (r : Option ResArg)
    (h : zoomTo g (.shape s) r = .ok g') (u v : Rat) :
    shapeNorm s = .ok (g'.ny, g'.nx) ∧ g'.ny ≠ 0 ∧ g'.nx ≠ 0 ∧ g'.crs = g.crs ∧
    pix2wld g' (u * g'.nx, v * g'.ny) = pix2wld g (u * g.nx, v * g.ny) := by
  simp only [zoomTo] at h
  cases hs : shapeNorm s with
  | error e0 => simp [hs, bind, Except.bind] at h
  | ok w =>
    obtain ⟨ny, nx⟩ := w
    simp only [hs, bind, Except.bind] at h
    obtain ⟨h1, h2, h3, h4⟩ := zoom_to_shape_same_footprint g g' ny nx h u v
    have hne : ¬ (ny = 0 ∨ nx = 0) := by
      intro hc
      rw [(zoom_to_shape_error_iff g ny nx).mpr hc] at h
      cases h
    rw [not_or] at hne
    subst h1 h2
    exact ⟨rfl, hne.1, hne.2, h3, h4⟩

example : zoomTo ⟨4, 6, ⟨2, 0, 100, 0, -2, 50⟩, 1⟩ (.shape (.xy (.int 3) (.flt (5 / 2)))) none
    = .ok ⟨2, 3, ⟨4, 0, 100, 0, -4, 50⟩, 1⟩ := by decide +kernel

/-- **`zoom_to(n)` end to end**: for an integer `n ≥ 1` (also spelled as an integral float) the longest side of
the result is exactly `n`, pixels are scaled by `nmax / n`, CRS kept — whatever `resolution=` is also passed. -/
theorem zoom_to_int_arg_longest (g : GeoBox) (n : Int) (r : Option ResArg) (hn : 1 ≤ n)
    (hny : 0 ≤ g.ny) (hnx : 0 ≤ g.nx) (hmax : 1 ≤ max g.ny g.nx) (v : PyNum)
    (hv : v = .int n ∨ v = .flt (n : Rat)) :
    ∃ g', zoomTo g (.num v) r = .ok g' ∧ max g'.ny g'.nx = n ∧ g'.crs = g.crs ∧
      ∀ p : Pt, pix2wld g' p
        = pix2wld g (((max g.ny g.nx : Int) : Rat) / n * p.1, ((max g.ny g.nx : Int) : Rat) / n * p.2) := by
  have hval : v.val = (n : Rat) := by rcases hv with rfl | rfl <;> rfl
  simp only [zoomTo, hval]
  exact zoom_to_int_longest g n hn hny hnx hmax

/-- **`zoom_to(resolution=r)` with a bare number, end to end**: the result is north-up with square pixels
`(r, -r)`, keeps the CRS, starts at the bounding-box corner and covers the bounding box of the original up to
the 1 % tolerance — for every (rotated, sheared, mirrored) original. -/
theorem zoom_to_scalar_resolution (g g' : GeoBox) (r : PyNum) (h : zoomTo g .none (some (.num r)) = .ok g')
    (hr : 0 < r.val) :
    g'.crs = g.crs ∧ g'.A.a = r.val ∧ g'.A.b = 0 ∧ g'.A.d = 0 ∧ g'.A.e = -r.val ∧ 1 ≤ g'.nx ∧ 1 ≤ g'.ny ∧
    g'.A.c = (boundingbox g).left ∧ g'.A.f = (boundingbox g).top ∧
    (boundingbox g).right - tolSnap * r.val ≤ (pix2wld g' (g'.nx, 0)).1 ∧
    (pix2wld g' (0, g'.ny)).2 ≤ (boundingbox g).bottom + tolSnap * r.val := by
  have h' : zoomToRes g r.val (-r.val) = .ok g' := h
  obtain ⟨h1, h2, h3, h4, h5, h6, h7, hxp, _, _, hyn⟩ := zoom_to_res_covers g g' _ _ h'
  obtain ⟨hc, hcov⟩ := hxp hr
  obtain ⟨hf, hcovy⟩ := hyn (by linarith)
  refine ⟨h1, h2, h3, h4, h5, h6, h7, hc, hf, hcov, ?_⟩
  simpa using hcovy

/-- C02 ∘ C08: `gbox.zoom_to(resolution=r)` for a bare number is `GeoBox.from_bbox(gbox.boundingbox,
resolution=r, tight=True)` of the C08 model (any `anchor`; `tight` overrides it), re-tagged with the CRS. -/
theorem zoom_to_scalar_resolution_is_from_bbox (g : GeoBox) (r : PyNum) (anchor : C08.AnchorArg) :
    zoomTo g .none (some (.num r)) =
      (C08.fromBbox ⟨(boundingbox g).left, (boundingbox g).bottom, (boundingbox g).right, (boundingbox g).top⟩
        true .none (.scalar r.val) anchor tolSnap).map
        (fun b => (⟨b.ny, b.nx, b.affine, g.crs⟩ : GeoBox)) := by
  have e := zoom_to_res_is_from_bbox g r.val (-r.val) anchor
  have : zoomTo g .none (some (.num r)) = zoomToRes g r.val (-r.val) := rfl
  rw [this, e]
  rfl

/-! ## 3. `gbox[...]` from the index object -/

/-- A bare int / slice `s` is the tuple `(s, :)`. -/
theorem getitem_one_eq_seq (reproj : Nat → Nat → Pt → Pt) (g : GeoBox) (s : IdxS) :
    getitem reproj g (.one s) = getitem reproj g (.seq [s, .slc none none none]) := rfl

/-- The outcome of indexing with a tuple / list, completely: more than two entries → `ValueError`; else any
step other than `None` / `1` → `NotImplementedError` (a stepped slice is **never** silently treated as
step 1); else fewer than two entries → `ValueError`; else the crop of the core model. -/
theorem getitem_seq_outcome (reproj : Nat → Nat → Pt → Pt) (g : GeoBox) (l : List IdxS) :
    (2 < l.length → getitem reproj g (.seq l) = .error .valueError) ∧
    (l.length ≤ 2 → l.all IdxS.stepOk = false → getitem reproj g (.seq l) = .error .notImplemented) ∧
    (l.length < 2 → l.all IdxS.stepOk = true → getitem reproj g (.seq l) = .error .valueError) ∧
    (∀ sy sx, l = [sy, sx] → sy.stepOk = true → sx.stepOk = true →
      getitem reproj g (.seq l) = .ok (crop g (.two sy.toPIdx sx.toPIdx))) := by
  refine ⟨?_, ?_, ?_, ?_⟩
  · intro h; simp [getitem, cropSeq, h]
  · intro h1 h2
    have : ¬ 2 < l.length := by omega
    simp [getitem, cropSeq, this, h2]
  · intro h1 h2
    have : ¬ 2 < l.length := by omega
    match l, h1 with
    | [], _ => simp [getitem, cropSeq]
    | [a], _ => simp only [getitem, cropSeq, this, if_false, h2]; simp
  · intro sy sx hl h1 h2
    subst hl
    simp [getitem, cropSeq, h1, h2]

/-- Indexing with a tuple never raises anything but `ValueError` / `NotImplementedError`, and a successful
result is a whole-pixel translate of the parent with the same CRS: pixel `(i, j)` of the view is pixel
`(i + x0, j + y0)` of the parent. -/
theorem getitem_seq_pixel (reproj : Nat → Nat → Pt → Pt) (g : GeoBox) (l : List IdxS) :
    (∀ e, getitem reproj g (.seq l) = .error e → e = .valueError ∨ e = .notImplemented) ∧
    (∀ g', getitem reproj g (.seq l) = .ok g' →
      ∃ sy sx : IdxS, l = [sy, sx] ∧ sy.stepOk = true ∧ sx.stepOk = true ∧ g'.crs = g.crs ∧
        g'.ny = (normSlice sy.toPIdx g.ny).stop - (normSlice sy.toPIdx g.ny).start ∧
        g'.nx = (normSlice sx.toPIdx g.nx).stop - (normSlice sx.toPIdx g.nx).start ∧
        ∀ p : Pt, pix2wld g' p
          = pix2wld g (p.1 + ((normSlice sx.toPIdx g.nx).start : Rat), p.2 + ((normSlice sy.toPIdx g.ny).start : Rat))) := by
  constructor
  · intro e h
    simp only [getitem, cropSeq] at h
    split at h
    · left; cases h; rfl
    · split at h
      · right; cases h; rfl
      · split at h
        · cases h
        · left; cases h; rfl
  · intro g' h
    simp only [getitem, cropSeq] at h
    split at h
    · cases h
    · rename_i hlen
      split at h
      · cases h
      · rename_i hall
        split at h
        · rename_i sy sx
          simp only [Except.ok.injEq] at h
          subst h
          have hall' : ([sy, sx] : List IdxS).all IdxS.stepOk = true := by simpa using hall
          simp only [List.all_cons, List.all_nil, Bool.and_true, Bool.and_eq_true] at hall'
          obtain ⟨c1, c2, c3, c4⟩ := crop_pixel g sy.toPIdx sx.toPIdx (0, 0)
          exact ⟨sy, sx, rfl, hall'.1, hall'.2, c4, c2, c3, fun p => (crop_pixel g sy.toPIdx sx.toPIdx p).1⟩
        · cases h

example : getitem (fun _ _ p => p) ⟨5, 7, Aff.id, 1⟩ (.one (.slc (some 1) (some 4) (some 2))) = .error .notImplemented := rfl
example : getitem (fun _ _ p => p) ⟨5, 7, Aff.id, 1⟩ (.seq [.idx 1, .idx 2, .idx 3]) = .error .valueError := rfl
example : getitem (fun _ _ p => p) ⟨5, 7, Aff.id, 1⟩ (.seq [.slc none none (some 1)]) = .error .valueError := rfl

/-- `gbox[k]` for an in-range (also negative) integer is the one-row view at numpy's row `k mod ny`, full
width — from the bare-int spelling of the argument. -/
theorem getitem_int_row (reproj : Nat → Nat → Pt → Pt) (g : GeoBox) (k : Int) (hk : -g.ny ≤ k ∧ k < g.ny)
    (hnx : 0 ≤ g.nx) :
    ∃ g', getitem reproj g (.one (.idx k)) = .ok g' ∧ g'.ny = 1 ∧ g'.nx = g.nx ∧ g'.crs = g.crs ∧
      ∀ p : Pt, pix2wld g' p = pix2wld g (p.1, p.2 + ((k % g.ny : Int) : Rat)) := by
  refine ⟨_, rfl, ?_, ?_, rfl, ?_⟩
  · simp [crop, normSlice, IdxS.toPIdx]
  · simp [crop, normSlice, IdxS.toPIdx, wrapNeg, hnx]
  · intro p
    have hmod : (if k < 0 then g.ny + k else k) = k % g.ny := by
      by_cases h : k < 0
      · simp only [h, if_true]
        rw [show k = (g.ny + k) - g.ny by omega, Int.sub_emod, Int.emod_self]
        simp only [sub_zero, Int.emod_emod_of_dvd _ (dvd_refl _)]
        rw [Int.emod_eq_of_lt (by omega) (by omega)]; omega
      · simp only [h, if_false]
        rw [Int.emod_eq_of_lt (by omega) (by omega)]
    rw [(crop_pixel g _ _ p).1]
    simp only [IdxS.toPIdx, normSlice, wrapNeg, hmod]
    simp

/-- `center_pixel` is the public `gbox[ny // 2, nx // 2]`. -/
theorem center_pixel_is_getitem (reproj : Nat → Nat → Pt → Pt) (g : GeoBox) :
    getitem reproj g (.seq [.idx (g.ny / 2), .idx (g.nx / 2)]) = .ok (centerPixel g) := rfl

/-- A region with a CRS cannot index a CRS-less geobox (`AssertionError`); a CRS-less region is read as pixel
coordinates whatever the parent. -/
theorem getitem_region_crs_cases (reproj : Nat → Nat → Pt → Pt) (g : GeoBox) (r : Region) :
    (r.crs ≠ 0 → g.crs = 0 → getitem reproj g (.region r) = .error .assertion) ∧
    (r.crs = 0 → getitem reproj g (.region r) = cropRegionPix g r.pts) ∧
    (r.crs ≠ 0 → r.crs = g.crs → getitem reproj g (.region r) = cropRegion g false r.pts) := by
  refine ⟨?_, ?_, ?_⟩
  · intro h1 h2; simp [getitem, cropRegionCrs, h1, h2]
  · intro h1; simp [getitem, cropRegionCrs, h1]
  · intro h1 h2
    have h3 : g.crs ≠ 0 := h2 ▸ h1
    simp [getitem, cropRegionCrs, cropRegion, h3, h2]

/-- **`gbox[region]` end to end** (Geometry or BoundingBox, in the geobox' own CRS, in another CRS through
any reprojection `reproj`, or CRS-less = pixel coordinates): the result is a whole-pixel window of the parent
with the same CRS, at least one pixel each way, and it contains (in the parent's pixel coordinates) every
vertex of the region that falls inside the parent's pixel rectangle. -/
theorem getitem_region_covers (reproj : Nat → Nat → Pt → Pt) (g g' : GeoBox) (r : Region)
    (h : getitem reproj g (.region r) = .ok g') (v : Pt) (hv : v ∈ r.pts) :
    let toPix : Pt → Pt := fun w =>
      if r.crs = 0 then w else g.A.inv.apply (if r.crs ≠ g.crs then reproj r.crs g.crs w else w)
    (0 ≤ (toPix v).1 ∧ (toPix v).1 ≤ g.nx) → (0 ≤ (toPix v).2 ∧ (toPix v).2 ≤ g.ny) →
    ∃ L B : Int, 0 ≤ L ∧ 0 ≤ B ∧ g'.crs = g.crs ∧ 1 ≤ g'.nx ∧ 1 ≤ g'.ny ∧
      (∀ q : Pt, pix2wld g' q = pix2wld g (q.1 + L, q.2 + B)) ∧
      (L : Rat) ≤ (toPix v).1 ∧ (toPix v).1 ≤ (L : Rat) + g'.nx ∧
      (B : Rat) ≤ (toPix v).2 ∧ (toPix v).2 ≤ (B : Rat) + g'.ny := by
  intro toPix hx hy
  simp only [getitem, cropRegionCrs] at h
  by_cases h0 : r.crs = 0
  · simp only [h0, if_true] at h
    have : toPix v = v := by simp [toPix, h0]
    rw [this] at hx hy ⊢
    exact crop_region_covers g g' r.pts h v hv hx hy
  · simp only [h0, if_false] at h
    by_cases hg : g.crs = 0
    · simp [hg] at h
    · simp only [hg, if_false, Aff.inv?] at h
      by_cases hd : g.A.det = 0
      · simp [hd, bind, Except.bind] at h
      · simp only [hd, if_false, bind, Except.bind] at h
        by_cases hc : r.crs ≠ g.crs
        · rw [if_pos hc, List.map_map] at h
          have e : toPix v = (g.A.inv.apply ∘ reproj r.crs g.crs) v := by simp [toPix, h0, hc]
          rw [e] at hx hy ⊢
          exact crop_region_covers g g' _ h _ (List.mem_map_of_mem hv) hx hy
        · rw [if_neg hc] at h
          have e : toPix v = g.A.inv.apply v := by
            simp only [toPix, h0, if_false]; rw [if_neg hc]
          rw [e] at hx hy ⊢
          exact crop_region_covers g g' _ h _ (List.mem_map_of_mem hv) hx hy

example : getitem (fun _ _ p => p) ⟨10, 20, ⟨2, 0, 100, 0, -2, 50⟩, 1⟩ (.region (.bbox 1 107 (83 / 2) 117 45))
    = .ok ⟨3, 6, ⟨2, 0, 106, 0, -2, 46⟩, 1⟩ := by decide +kernel

/-- **`g[g[y0:y1, x0:x1]]` end to end through the public index forms**: a geobox indexed with one of its own
non-empty in-range windows — the window itself obtained by indexing with a 2-tuple of slices — is that window,
for every invertible affine and every CRS. -/
theorem getitem_gbox_window (reproj : Nat → Nat → Pt → Pt) (g w : GeoBox) (hdet : g.A.det ≠ 0) (hcrs : g.crs ≠ 0)
    (x0 x1 y0 y1 : Int) (hx : 0 ≤ x0 ∧ x0 < x1 ∧ x1 ≤ g.nx) (hy : 0 ≤ y0 ∧ y0 < y1 ∧ y1 ≤ g.ny)
    (hw : getitem reproj g (.seq [.slc (some y0) (some y1) none, .slc (some x0) (some x1) none]) = .ok w) :
    getitem reproj g (.gbox w) = .ok w := by
  have e : w = crop g (.two (.slc (some y0) (some y1)) (.slc (some x0) (some x1))) := by
    simp only [getitem, cropSeq, IdxS.toPIdx] at hw
    simpa [IdxS.stepOk] using hw.symm
  have hwc : w.crs = g.crs := by rw [e]; rfl
  have := crop_window_of_self g hdet hcrs x0 x1 y0 y1 hx hy
  rw [← e] at this
  simp only [getitem, cropRegionCrs, hwc, hcrs, if_false, ne_eq, not_true_eq_false]
  simpa [cropGeoBox, cropRegion, hwc, hcrs] using this

/-- C02 ∘ numpy slicing (`Spec/PySlice`), through the public index form: for a 2-tuple of plain slices whose
normalised stops stay inside the parent, the view has **exactly the pixels numpy selects**, in order — pixel
`(i, j)` exists in the view iff numpy selects column `x0 + i` and row `y0 + j` of the parent, and it lies on that
parent pixel. -/
theorem getitem_selects_numpy (reproj : Nat → Nat → Pt → Pt) (g : GeoBox) (a b c d : Option Int)
    (hny : 0 ≤ g.ny) (hnx : 0 ≤ g.nx)
    (hsy : (normSlice (.slc a b) g.ny).stop ≤ g.ny) (hsx : (normSlice (.slc c d) g.nx).stop ≤ g.nx) :
    ∃ g', getitem reproj g (.seq [.slc a b none, .slc c d none]) = .ok g' ∧ g'.crs = g.crs ∧
      ∀ i j : Int,
        ((0 ≤ i ∧ i < g'.nx) ∧ (0 ≤ j ∧ j < g'.ny) ↔
          (0 ≤ i ∧ PySlice.Sel g.nx (.slc c d) ((normSlice (.slc c d) g.nx).start + i)) ∧
          (0 ≤ j ∧ PySlice.Sel g.ny (.slc a b) ((normSlice (.slc a b) g.ny).start + j))) ∧
        pix2wld g' ((i : Rat), (j : Rat))
          = pix2wld g ((((normSlice (.slc c d) g.nx).start + i : Int) : Rat), (((normSlice (.slc a b) g.ny).start + j : Int) : Rat)) := by
  refine ⟨crop g (.two (.slc a b) (.slc c d)), rfl, rfl, ?_⟩
  intro i j
  have hx := crop_selects_numpy g (.slc a b) c d hnx hsx i
  have hy : (0 ≤ j ∧ j < (crop g (.two (.slc a b) (.slc c d))).ny) ↔
      (0 ≤ j ∧ PySlice.Sel g.ny (.slc a b) ((normSlice (.slc a b) g.ny).start + j)) := by
    revert hsy
    cases a <;> cases b <;>
      simp [crop, PySlice.Sel, normSlice, PySlice.bounds, PySlice.clampBound, wrapNeg] <;> omega
  refine ⟨by rw [hx, hy], ?_⟩
  rw [(crop_pixel g _ _ _).1]
  push_cast
  congr 1 <;> ring_nf

/-! ## 4. `enclosing`, `project` -/

/-- `enclosing(region)`: a CRS-less region is refused (`ValueError`), a CRS-less geobox cannot project
(`AssertionError`); otherwise the core `enclosing` on the (re-projected) vertices. -/
theorem enclosing_arg_cases (reproj : Nat → Nat → Pt → Pt) (g : GeoBox) (r : Region) :
    (r.crs = 0 → enclosingArg reproj g r = .error .valueError) ∧
    (r.crs ≠ 0 → g.crs = 0 → enclosingArg reproj g r = .error .assertion) ∧
    (r.crs ≠ 0 → r.crs = g.crs → enclosingArg reproj g r = enclosing g r.pts) := by
  refine ⟨?_, ?_, ?_⟩
  · intro h; simp [enclosingArg, h]
  · intro h1 h2; simp [enclosingArg, h1, h2]
  · intro h1 h2
    have h3 : g.crs ≠ 0 := h2 ▸ h1
    simp [enclosingArg, h3, h2]

/-- **`enclosing(region)` end to end**: the result shares the pixel grid of the parent (whole-pixel shift, same
CRS), has at least one pixel each way, and contains every vertex of the region (after reprojection into the
geobox' CRS, if needed) — not clipped to the parent. -/
theorem enclosing_arg_covers (reproj : Nat → Nat → Pt → Pt) (g g' : GeoBox) (r : Region)
    (h : enclosingArg reproj g r = .ok g') (v : Pt) (hv : v ∈ r.pts) :
    r.crs ≠ 0 ∧ g.crs ≠ 0 ∧ g.A.det ≠ 0 ∧ g'.crs = g.crs ∧ 1 ≤ g'.nx ∧ 1 ≤ g'.ny ∧
    ∃ (l b : Int) (q : Pt), (∀ p : Pt, pix2wld g' p = pix2wld g (p.1 + l, p.2 + b)) ∧
      pix2wld g' q = (if r.crs ≠ g.crs then reproj r.crs g.crs v else v) ∧
      0 ≤ q.1 ∧ q.1 ≤ g'.nx ∧ 0 ≤ q.2 ∧ q.2 ≤ g'.ny := by
  simp only [enclosingArg] at h
  by_cases h0 : r.crs = 0
  · simp [h0] at h
  · by_cases hg : g.crs = 0
    · simp [h0, hg] at h
    · simp only [h0, hg, if_false] at h
      by_cases hc : r.crs ≠ g.crs
      · rw [if_pos hc] at h ⊢
        obtain ⟨a, b, c, d, e⟩ := enclosing_covers g g' _ h _ (List.mem_map_of_mem hv)
        exact ⟨h0, hg, a, b, c, d, e⟩
      · rw [if_neg hc] at h ⊢
        obtain ⟨a, b, c, d, e⟩ := enclosing_covers g g' _ h _ hv
        exact ⟨h0, hg, a, b, c, d, e⟩

/-- `project`: a CRS-less geometry goes pixel → world and is tagged with the geobox' CRS; a geometry with a CRS
goes world → pixel and loses the tag; the latter needs a CRS on the geobox and an invertible affine. -/
theorem project_cases (reproj : Nat → Nat → Pt → Pt) (g : GeoBox) (crs : Nat) (pts : List Pt) :
    (crs = 0 → project reproj g crs pts = .ok (g.crs, pts.map (pix2wld g))) ∧
    (crs ≠ 0 → g.crs = 0 → project reproj g crs pts = .error .assertion) ∧
    (crs ≠ 0 → g.crs ≠ 0 → g.A.det = 0 → project reproj g crs pts = .error .valueError) ∧
    (crs ≠ 0 → crs = g.crs → g.A.det ≠ 0 → project reproj g crs pts = .ok (0, pts.map g.A.inv.apply)) := by
  refine ⟨?_, ?_, ?_, ?_⟩
  · intro h; simp [project, h]
  · intro h1 h2; simp [project, h1, h2]
  · intro h1 h2 h3; simp [project, h1, h2, Aff.inv?, h3, bind, Except.bind]
  · intro h1 h2 h3
    have h4 : g.crs ≠ 0 := h2 ▸ h1
    simp [project, h4, h2, Aff.inv?, h3, bind, Except.bind, pure, Except.pure]

/-- **`project` is its own inverse** on a geo-registered, invertible geobox: pixel → world → pixel and
world → pixel → world give back every vertex (and the CRS tag). -/
theorem project_roundtrip (reproj : Nat → Nat → Pt → Pt) (g : GeoBox) (hcrs : g.crs ≠ 0) (hdet : g.A.det ≠ 0)
    (pts : List Pt) :
    (∀ c ws, project reproj g 0 pts = .ok (c, ws) → project reproj g c ws = .ok (0, pts)) ∧
    (∀ c ps, project reproj g g.crs pts = .ok (c, ps) → project reproj g c ps = .ok (g.crs, pts)) := by
  constructor
  · intro c ws h
    rw [(project_cases reproj g 0 pts).1 rfl] at h
    simp only [Except.ok.injEq, Prod.mk.injEq] at h
    obtain ⟨rfl, rfl⟩ := h
    rw [(project_cases reproj g g.crs _).2.2.2 hcrs rfl hdet, List.map_map]
    congr 2
    conv_rhs => rw [← List.map_id pts]
    apply List.map_congr_left
    intro p _
    simp [pix2wld, Aff.inv_apply_apply g.A hdet]
  · intro c ps h
    rw [(project_cases reproj g g.crs pts).2.2.2 hcrs rfl hdet] at h
    simp only [Except.ok.injEq, Prod.mk.injEq] at h
    obtain ⟨rfl, rfl⟩ := h
    rw [(project_cases reproj g 0 _).1 rfl, List.map_map]
    congr 2
    conv_rhs => rw [← List.map_id pts]
    apply List.map_congr_left
    intro p _
    simp [pix2wld, Aff.apply_inv_apply g.A hdet]

example : project (fun _ _ p => p) ⟨5, 7, ⟨2, 0, 100, 0, -2, 50⟩, 1⟩ 0 [(1, 1), (2, 3)]
    = .ok (1, [(102, 48), (104, 44)]) := by decide +kernel

/-! ## 5. small accessors, reprojection resolution, footprint buffer -/

theorem is_empty_iff (g : GeoBox) : isEmpty g = true ↔ (g.ny = 0 ∨ g.nx = 0) := by
  simp [isEmpty]

/-- `aspect = nx / ny`, a `ZeroDivisionError` exactly for zero height. -/
theorem aspect_spec (g : GeoBox) :
    (g.ny = 0 → aspect g = .error .zeroDiv) ∧
    (g.ny ≠ 0 → ∃ a, aspect g = .ok a ∧ a * g.ny = g.nx) := by
  constructor
  · intro h; simp [aspect, h]
  · intro h
    have : (g.ny : Rat) ≠ 0 := by exact_mod_cast h
    refine ⟨(g.nx : Rat) / (g.ny : Rat), by simp [aspect, h], ?_⟩
    field_simp

/-- `_reproject_resolution(npoints)`: `npoints` steps of the returned length span the longer side of the
bounding box of the footprint (so it is non-negative for `npoints > 0`); `ZeroDivisionError` iff `npoints = 0`. -/
theorem reproject_resolution_spec (g : GeoBox) (npoints : Int) :
    (npoints = 0 → reprojectResolution g npoints = .error .zeroDiv) ∧
    (npoints ≠ 0 → ∃ r, reprojectResolution g npoints = .ok r ∧
      r * npoints = max ((boundingbox g).right - (boundingbox g).left) ((boundingbox g).top - (boundingbox g).bottom) ∧
      (0 < npoints → 0 ≤ r)) := by
  constructor
  · intro h; simp [reprojectResolution, h]
  · intro h
    have hn : (npoints : Rat) ≠ 0 := by exact_mod_cast h
    refine ⟨max ((boundingbox g).right - (boundingbox g).left) ((boundingbox g).top - (boundingbox g).bottom)
      / (npoints : Rat), by simp [reprojectResolution, h], by field_simp, ?_⟩
    intro hp
    have hp' : (0 : Rat) < npoints := by exact_mod_cast hp
    apply div_nonneg _ hp'.le
    have := min4_le_max4 ((g.A.apply (0, 0)).1) ((g.A.apply (0, (g.ny : Rat))).1)
      ((g.A.apply ((g.nx : Rat), (g.ny : Rat))).1) ((g.A.apply ((g.nx : Rat), 0)).1)
    apply le_max_of_le_left
    simp only [boundingbox]
    linarith

theorem rabs_nonneg' (x : Rat) : 0 ≤ rabs x := by
  unfold rabs; split <;> linarith

/-- **`footprint(crs, buffer)` never erodes for a positive buffer**: for an axis-aligned geobox (mirrored or
not, either sign of either resolution) the distance handed to `Geometry.buffer` is `buffer` times the larger
*pixel size* `max(|a|, |e|)`; it has the sign of `buffer`, and is absent exactly for `buffer = 0`.  (The
pre-fix code multiplied by `max(rx, ry)` of the signed resolutions: see `footprint_buffer_signed_old_cex`.) -/
theorem footprint_buffer_dist_st (g : GeoBox) (hcrs : g.crs ≠ 0) (hb : g.A.b = 0) (hd : g.A.d = 0) (n m buffer : Rat) :
    (buffer = 0 → footprintBufferDist g n m buffer = .ok none) ∧
    (buffer ≠ 0 → footprintBufferDist g n m buffer = .ok (some (buffer * max (rabs g.A.a) (rabs g.A.e))) ∧
      (0 < buffer → 0 ≤ buffer * max (rabs g.A.a) (rabs g.A.e)) ∧
      (0 < buffer → g.A.det ≠ 0 → 0 < buffer * max (rabs g.A.a) (rabs g.A.e))) := by
  have hst : isAffineST g.A = true := by
    have : (0 : Rat) < tolST := by decide +kernel
    simp [isAffineST, hb, hd, rabs, this]
  constructor
  · intro h; simp [footprintBufferDist, hcrs, h]
  · intro h
    refine ⟨by simp [footprintBufferDist, hcrs, h, resolution, hst, bind, Except.bind, pure, Except.pure], ?_, ?_⟩
    · intro hp
      exact mul_nonneg hp.le (le_max_of_le_left (rabs_nonneg' _))
    · intro hp hdet
      apply mul_pos hp
      have ha : g.A.a ≠ 0 := by
        intro h0; apply hdet; simp [Aff.det, h0, hb]
      apply lt_max_of_lt_left
      unfold rabs
      split
      · linarith
      · rcases lt_or_gt_of_ne ha with h1 | h1
        · contradiction
        · exact h1

/-- what the code did before `fix: footprint buffer of a mirrored GeoBox …`: `buffer * max(rx, ry)` -/
def footprintBufferDistOld (g : GeoBox) (buffer : Rat) : Rat := buffer * max g.A.a g.A.e

theorem footprint_buffer_signed_old_cex :
    footprintBufferDistOld ⟨5, 7, ⟨-2, 0, 100, 0, -2, 50⟩, 1⟩ 3 = -6 ∧
    footprintBufferDist ⟨5, 7, ⟨-2, 0, 100, 0, -2, 50⟩, 1⟩ 1 1 3 = .ok (some 6) := by decide +kernel

/-! ## 6. integer down-scaling is zooming out (and where it is not) -/

/-- C02 internal composition: for a non-empty geobox `scaled_down_geobox(gbox, k)` **is** `gbox.zoom_out(k)`
(same shape law, same affine, same CRS). -/
theorem scaled_down_eq_zoom_out (g : GeoBox) (k : Int) (hk : 1 < k) (hny : 0 < g.ny) (hnx : 0 < g.nx) :
    scaledDown g k = zoomOut g (k : Rat) := by
  have hk0 : (k : Rat) ≠ 0 := by exact_mod_cast (by omega : k ≠ 0)
  have hkp : (0 : Rat) < k := by exact_mod_cast (by omega : 0 < k)
  have key : ∀ X : Int, 0 < X → X / k + (if X % k ≠ 0 then 1 else 0) = ceil1 ((X : Rat) / (k : Rat)) := by
    intro X hX
    have hc : ((X : Rat) / (k : Rat)).ceil = X / k + (if X % k ≠ 0 then 1 else 0) := by
      apply le_antisymm
      · apply Rat.ceil_le_iff.mpr
        rw [div_le_iff₀ hkp]
        have h1 := Int.emod_add_mul_ediv X k
        have h2 := Int.emod_lt_of_pos X (by omega : 0 < k)
        have h3 := Int.emod_nonneg X (by omega : k ≠ 0)
        by_cases hm : X % k = 0
        · simp only [hm, ne_eq, not_true_eq_false, if_false, add_zero]
          have : X = k * (X / k) := by omega
          exact_mod_cast (by nlinarith : X ≤ X / k * k)
        · simp only [ne_eq, hm, not_false_eq_true, if_true]
          exact_mod_cast (by nlinarith : X ≤ (X / k + 1) * k)
      · have h1 := Int.emod_add_mul_ediv X k
        have h3 := Int.emod_nonneg X (by omega : k ≠ 0)
        by_cases hm : X % k = 0
        · simp only [hm, ne_eq, not_true_eq_false, if_false, add_zero]
          have hx : ((X / k : Int) : Rat) ≤ (X : Rat) / k := by
            rw [le_div_iff₀ hkp]
            exact_mod_cast (by nlinarith : X / k * k ≤ X)
          exact Int.cast_le.mp (le_trans hx (Rat.le_ceil (x := (X : Rat) / k)))
        · simp only [ne_eq, hm, not_false_eq_true, if_true]
          have hlt : ((X / k : Int) : Rat) < (X : Rat) / k := by
            rw [lt_div_iff₀ hkp]
            have : 0 < X % k := by omega
            exact_mod_cast (by nlinarith : X / k * k < X)
          have := Rat.lt_ceil_iff.mpr hlt
          omega
    have hpos : 1 ≤ X / k + (if X % k ≠ 0 then 1 else 0) := by
      have h1 := Int.emod_add_mul_ediv X k
      have h3 := Int.emod_nonneg X (by omega : k ≠ 0)
      have h4 : 0 ≤ X / k := Int.ediv_nonneg hX.le (by omega)
      by_cases hm : X % k = 0
      · simp only [hm, ne_eq, not_true_eq_false, if_false, add_zero]
        by_contra hc
        have : X / k = 0 := by omega
        rw [this] at h1; omega
      · simp only [ne_eq, hm, not_false_eq_true, if_true]; omega
    unfold ceil1
    rw [hc]; omega
  have hk1 : ¬ ¬ k > 1 := by omega
  simp only [scaledDown, hk1, if_false, zoomOut, hk0, key g.ny hny, key g.nx hnx]

/-- … but not on an empty axis: `scaled_down_geobox` keeps a zero-length axis at 0, `zoom_out` makes it 1. -/
theorem scaled_down_empty_axis_differs_cex :
    (scaledDown ⟨0, 5, Aff.id, 0⟩ 2).map (·.ny) = .ok 0 ∧ (zoomOut ⟨0, 5, Aff.id, 0⟩ 2).map (·.ny) = .ok 1 := by
  decide +kernel

/-! ## 7. GCP geoboxes -/

/-- `GCPGeoBox(shape, mapping)` without an affine maps pixels through the mapping alone and carries the CRS of
the mapping, for every spelling of the shape. -/
theorem mk_gcp_default (P : Pt → Pt) (s : ShapeArg) (mcrs : Nat) (g : GeoBox) (h : mkGcp s none mcrs = .ok g) :
    shapeNorm s = .ok (g.ny, g.nx) ∧ g.crs = mcrs ∧ ∀ p, gcpPix2wld P g p = P p := by
  unfold mkGcp mkGeoBox at h
  cases hs : shapeNorm s with
  | error e => simp [hs, bind, Except.bind] at h
  | ok v =>
    obtain ⟨ny, nx⟩ := v
    simp only [hs, bind, Except.bind, pure, Except.pure, Except.ok.injEq] at h
    subst h
    exact ⟨rfl, rfl, fun p => by simp [gcpPix2wld, Aff.apply_id]⟩

/-- **`GCPGeoBox.resolution` follows the view**: with an axis-aligned best-fit affine `B` of the mapping and an
axis-aligned pixel-side affine (all that crop / pad / zoom produce from the identity), the resolution of a view
is `(B.a · A.a, B.e · A.e)`; in particular `zoom_out(f)` multiplies it by `f` and crop / pad leave it alone. -/
theorem gcp_resolution_view (B : Aff) (g : GeoBox) (n m : Rat) (hB : B.b = 0 ∧ B.d = 0) (hA : g.A.b = 0 ∧ g.A.d = 0) :
    gcpResolution B g n m = .ok (B.a * g.A.a, B.e * g.A.e) ∧
    (∀ f g', zoomOut g f = .ok g' → gcpResolution B g' n m = .ok (f * (B.a * g.A.a), f * (B.e * g.A.e))) ∧
    (∀ sy sx, gcpResolution B (crop g (.two sy sx)) n m = .ok (B.a * g.A.a, B.e * g.A.e)) ∧
    (∀ px py, gcpResolution B (pad g px py) n m = .ok (B.a * g.A.a, B.e * g.A.e)) := by
  have ht : (0 : Rat) < tolST := by decide +kernel
  have key : ∀ h : GeoBox, h.A.b = 0 → h.A.d = 0 → gcpResolution B h n m = .ok (B.a * h.A.a, B.e * h.A.e) := by
    intro h h1 h2
    have hst : isAffineST (B * h.A) = true := by
      simp [isAffineST, Aff.mul_def, Aff.mul, hB.1, hB.2, h1, h2, rabs, ht]
    simp only [gcpResolution, gcpApprox, mulWld, resolution, hst, if_true]
    simp [Aff.mul_def, Aff.mul, hB.1, hB.2, h1, h2]
  refine ⟨key g hA.1 hA.2, ?_, ?_, ?_⟩
  · intro f g' h
    by_cases hf : f = 0
    · simp [zoomOut, hf] at h
    · simp only [zoomOut, hf, if_false, Except.ok.injEq] at h
      subst h
      rw [key _ (by simp [Aff.mul_def, Aff.mul, Aff.scale, hA.1]) (by simp [Aff.mul_def, Aff.mul, Aff.scale, hA.2])]
      simp [Aff.mul_def, Aff.mul, Aff.scale, hA.1, hA.2]
      constructor <;> ring
  · intro sy sx
    rw [key _ (by simp [crop, Aff.mul_def, Aff.mul, Aff.translation, hA.1])
      (by simp [crop, Aff.mul_def, Aff.mul, Aff.translation, hA.2])]
    simp [crop, Aff.mul_def, Aff.mul, Aff.translation, hA.1, hA.2]
  · intro px py
    rw [key _ (by simp [pad, Aff.mul_def, Aff.mul, Aff.translation, hA.1])
      (by simp [pad, Aff.mul_def, Aff.mul, Aff.translation, hA.2])]
    simp [pad, Aff.mul_def, Aff.mul, Aff.translation, hA.1, hA.2]

/-- **`GCPGeoBox.boundingbox` contains the footprint** (what `fix: GCPGeoBox.boundingbox is the bounding box of
the footprint` repairs), for an arbitrary pixel-to-world function `P` and any view: it is always defined, contains
every vertex of the footprint ring and in particular the world images of the four corners of the pixel rectangle. -/
theorem gcp_bbox_contains_footprint (P : Pt → Pt) (g : GeoBox) (hny : 0 ≤ g.ny) (hnx : 0 ≤ g.nx) :
    ∃ b, gcpBoundingbox P g = .ok b ∧
      (∀ w ∈ gcpExtent P g, b.left ≤ w.1 ∧ w.1 ≤ b.right ∧ b.bottom ≤ w.2 ∧ w.2 ≤ b.top) ∧
      (∀ c : Pt, (c = (0, 0) ∨ c = ((g.nx : Rat), 0) ∨ c = ((g.nx : Rat), (g.ny : Rat)) ∨ c = (0, (g.ny : Rat))) →
        b.left ≤ (gcpPix2wld P g c).1 ∧ (gcpPix2wld P g c).1 ≤ b.right ∧
        b.bottom ≤ (gcpPix2wld P g c).2 ∧ (gcpPix2wld P g c).2 ≤ b.top) := by
  obtain ⟨_, h00, h10, h11, h01⟩ := boundary_on_edge g 16 (by omega) hny hnx
  have hin : ∀ c ∈ boundary g 16, gcpPix2wld P g c ∈ gcpExtent P g := fun c hc => List.mem_map_of_mem hc
  have hne : gcpExtent P g ≠ [] := List.ne_nil_of_mem (hin _ h00)
  cases hE : gcpExtent P g with
  | nil => exact absurd hE hne
  | cons p ps =>
    have key : ∀ w ∈ p :: ps,
        C17.minL 0 ((p :: ps).map (·.1)) ≤ w.1 ∧ w.1 ≤ C17.maxL 0 ((p :: ps).map (·.1)) ∧
        C17.minL 0 ((p :: ps).map (·.2)) ≤ w.2 ∧ w.2 ≤ C17.maxL 0 ((p :: ps).map (·.2)) := by
      intro w hw
      have hx : w.1 ∈ (p :: ps).map (·.1) := List.mem_map_of_mem hw
      have hy : w.2 ∈ (p :: ps).map (·.2) := List.mem_map_of_mem hw
      exact ⟨minL_le 0 _ _ hx, le_maxL 0 _ _ hx, minL_le 0 _ _ hy, le_maxL 0 _ _ hy⟩
    refine ⟨⟨C17.minL 0 ((p :: ps).map (·.1)), C17.minL 0 ((p :: ps).map (·.2)),
      C17.maxL 0 ((p :: ps).map (·.1)), C17.maxL 0 ((p :: ps).map (·.2))⟩,
      by simp only [gcpBoundingbox, hE, ptsBBox], key, ?_⟩
    intro c hc
    apply key
    rw [← hE]
    rcases hc with rfl | rfl | rfl | rfl
    · exact hin _ h00
    · exact hin _ h10
    · exact hin _ h11
    · exact hin _ h01

example : gcpMapBounds (fun p => (2 * p.1 + 100, 50 - p.2 / 2)) ⟨30, 15, Aff.id, 0⟩
    = .ok ((35, 100), (50, 130)) := by decide +kernel

/-- **`GCPGeoBox.to_crs` keeps every control point on its pixel**: if the view's affine is the identity or is *not*
within `1e-5` of it, then for every control point `(pix, wld)` the new geobox (identity affine, same shape, target
CRS) has the control point `(q, reproj wld)` where `q` is exactly the pixel of the *view* that lies on `pix`
(`A q = pix`) — so a mapping that interpolates the control points sends the same pixel to the re-projected world
point before and after.  Any pixel-to-world function `P` of the old mapping. -/
theorem gcp_to_crs_consistent (reproj : Pt → Pt) (P : Pt → Pt) (g : GeoBox) (cps : List (Pt × Pt)) (dst : Nat)
    (hcrs : g.crs ≠ 0) (hdet : g.A.det ≠ 0) (hA : g.A = Aff.id ∨ isIdentityApprox g.A = false) :
    ∃ g' cps', gcpToCrs reproj g cps dst = .ok (g', cps') ∧
      g'.ny = g.ny ∧ g'.nx = g.nx ∧ g'.A = Aff.id ∧ g'.crs = dst ∧ cps'.length = cps.length ∧
      ∀ cp' ∈ cps', ∃ cp ∈ cps, cp'.2 = reproj cp.2 ∧ g.A.apply cp'.1 = cp.1 ∧
        (P cp.1 = cp.2 → reproj (gcpPix2wld P g cp'.1) = cp'.2) := by
  have fin : ∀ back : Pt → Pt, (∀ p, g.A.apply (back p) = p) →
      gcpToCrs reproj g cps dst = .ok (⟨g.ny, g.nx, Aff.id, dst⟩, cps.map (fun cp => (back cp.1, reproj cp.2))) →
      ∃ g' cps', gcpToCrs reproj g cps dst = .ok (g', cps') ∧
        g'.ny = g.ny ∧ g'.nx = g.nx ∧ g'.A = Aff.id ∧ g'.crs = dst ∧ cps'.length = cps.length ∧
        ∀ cp' ∈ cps', ∃ cp ∈ cps, cp'.2 = reproj cp.2 ∧ g.A.apply cp'.1 = cp.1 ∧
          (P cp.1 = cp.2 → reproj (gcpPix2wld P g cp'.1) = cp'.2) := by
    intro back hinv h
    refine ⟨_, _, h, rfl, rfl, rfl, rfl, by simp, ?_⟩
    intro cp' hcp'
    obtain ⟨cp, hcp, rfl⟩ := List.mem_map.mp hcp'
    refine ⟨cp, hcp, rfl, hinv _, ?_⟩
    intro hP
    simp only [gcpPix2wld, hinv, hP]
  by_cases hi : isIdentityApprox g.A = true
  · rcases hA with hA | hA
    · apply fin (fun p => p) (fun p => by rw [hA, Aff.apply_id])
      simp [gcpToCrs, hcrs, hi, bind, Except.bind, pure, Except.pure]
    · rw [hi] at hA; cases hA
  · have hi' : isIdentityApprox g.A = false := by simpa using hi
    apply fin g.A.inv.apply (fun p => Aff.apply_inv_apply g.A hdet p)
    simp [gcpToCrs, hcrs, hi', Aff.inv?, hdet, Except.map, bind, Except.bind, pure, Except.pure]

/-- The hypothesis on the affine is forced: a view within `1e-5` of the identity (here `zoom_out(1 + 2⁻¹⁷)`) is
taken for the identity by `Affine.is_identity`, and its control points are **not** re-expressed: the control point
on parent pixel 1024 stays at 1024 although the view's pixel on it is `1024 / (1 + 2⁻¹⁷) ≈ 1023.992`. -/
theorem gcp_to_crs_near_identity_cex :
    (gcpToCrs (fun w => w) ⟨8, 8, Aff.scale (1 + 1 / 131072) (1 + 1 / 131072), 1⟩ [((1024, 0), (5, 5))] 2).map (·.2)
      = .ok [((1024, 0), (5, 5))] ∧
    (Aff.scale (1 + 1 / 131072 : Rat) (1 + 1 / 131072)).apply (1024, 0) ≠ (1024, 0) := by decide +kernel

/-! ## 8. more laws of the public calls -/

/-- **`zoom_to` there and back**: `gbox.zoom_to(s).zoom_to(gbox.shape)` is `gbox` itself (shape, affine, CRS) — in
exact arithmetic, for every target shape without zeros and every non-empty geobox. -/
theorem zoom_to_shape_roundtrip (g g' : GeoBox) (ny nx : Int) (h : zoomToShape g ny nx = .ok g')
    (hny : g.ny ≠ 0) (hnx : g.nx ≠ 0) : zoomToShape g' g.ny g.nx = .ok g := by
  by_cases h0 : ny = 0 ∨ nx = 0
  · simp [zoomToShape, h0] at h
  · simp only [zoomToShape, h0, if_false, Except.ok.injEq] at h
    subst h
    rw [not_or] at h0
    have h1 : ¬ (g.ny = 0 ∨ g.nx = 0) := by simp [hny, hnx]
    have hy : (ny : Rat) ≠ 0 := by exact_mod_cast h0.1
    have hx : (nx : Rat) ≠ 0 := by exact_mod_cast h0.2
    have gy : (g.ny : Rat) ≠ 0 := by exact_mod_cast hny
    have gx : (g.nx : Rat) ≠ 0 := by exact_mod_cast hnx
    simp only [zoomToShape, h1, if_false, Except.ok.injEq]
    obtain ⟨gny, gnx, ⟨a, b, c, d, e, f⟩, crs⟩ := g
    simp only [GeoBox.mk.injEq, true_and, and_true]
    apply Aff.ext' <;> simp [Aff.mul_def, Aff.mul, Aff.scale] <;> field_simp

/-- the same through the public argument forms: any spelling of the two shapes -/
theorem zoom_to_roundtrip_args (g g' : GeoBox) (s s' : ShapeArg) (r r' : Option ResArg)
    (h : zoomTo g (.shape s) r = .ok g') (hs' : shapeNorm s' = .ok (g.ny, g.nx)) (hny : g.ny ≠ 0) (hnx : g.nx ≠ 0) :
    zoomTo g' (.shape s') r' = .ok g := by
  simp only [zoomTo] at h ⊢
  cases hs : shapeNorm s with
  | error e0 => simp [hs, bind, Except.bind] at h
  | ok w =>
    obtain ⟨ny, nx⟩ := w
    simp only [hs, bind, Except.bind] at h
    simp only [hs', bind, Except.bind]
    exact zoom_to_shape_roundtrip g g' ny nx h hny hnx

/-- GCP geoboxes inherit the index contract: `gcp[sy, sx]` maps pixel `(i, j)` through the *same* pixel-to-world
function `P` as pixel `(i + x0, j + y0)` of the parent, for every `P`; and `zoom_to(shape)` keeps the footprint
through `P`. -/
theorem gcp_getitem_pixel (reproj : Nat → Nat → Pt → Pt) (P : Pt → Pt) (g g' : GeoBox) (l : List IdxS)
    (h : getitem reproj g (.seq l) = .ok g') :
    ∃ x0 y0 : Int, g'.crs = g.crs ∧ ∀ p : Pt, gcpPix2wld P g' p = gcpPix2wld P g (p.1 + x0, p.2 + y0) := by
  obtain ⟨sy, sx, _, _, _, hc, _, _, hp⟩ := (getitem_seq_pixel reproj g l).2 g' h
  refine ⟨(normSlice sx.toPIdx g.nx).start, (normSlice sy.toPIdx g.ny).start, hc, fun p => ?_⟩
  have := hp p
  simp only [pix2wld] at this
  simp only [gcpPix2wld, this]

theorem gcp_zoom_to_shape_arg_footprint (P : Pt → Pt) (g g' : GeoBox) (s : ShapeArg) (r : Option ResArg)
    (h : zoomTo g (.shape s) r = .ok g') (u v : Rat) :
    gcpPix2wld P g' (u * g'.nx, v * g'.ny) = gcpPix2wld P g (u * g.nx, v * g.ny) := by
  have := (zoom_to_shape_arg_footprint g g' s r h u v).2.2.2.2
  simp only [pix2wld] at this
  simp only [gcpPix2wld, this]

/-! ## 10. rotation: composition law and exact quarter turns -/

/-- **`rotate` composes by angle addition**, for all rotation entries (no `c² + s² = 1` needed): rotating about the
centre and then again about the (unchanged) centre is one rotation with `(c, s) = (c₂c₁ − s₂s₁, s₂c₁ + c₂s₁)`. -/
theorem rotate_compose (g : GeoBox) (c1 s1 c2 s2 : Rat) :
    rotate (rotate g c1 s1) c2 s2 = rotate g (c2 * c1 - s2 * s1) (s2 * c1 + c2 * s1) := by
  obtain ⟨ny, nx, ⟨a, b, c, d, e, f⟩, crs⟩ := g
  simp only [rotate, mulWld, rotationAbout, Aff.mul_def, Aff.mul, Aff.apply, GeoBox.mk.injEq, true_and, and_true]
  apply Aff.ext' <;> simp <;> ring

theorem quarterCS_cases (k : Int) :
    (k % 4 = 0 ∧ quarterCS k = (1, 0)) ∨ (k % 4 = 1 ∧ quarterCS k = (0, 1)) ∨
    (k % 4 = 2 ∧ quarterCS k = (-1, 0)) ∨ (k % 4 = 3 ∧ quarterCS k = (0, -1)) := by
  have h : k % 4 = 0 ∨ k % 4 = 1 ∨ k % 4 = 2 ∨ k % 4 = 3 := by omega
  rcases h with h | h | h | h <;> simp [quarterCS, h]

/-- **`rotate(90a).rotate(90b) = rotate(90(a+b))`** exactly (shape, affine, CRS), `rotate(360) = rotate(0) = id`. -/
theorem rotate_quarter_add (g : GeoBox) (a b : Int) :
    rotateQuarter (rotateQuarter g a) b = rotateQuarter g (a + b) ∧
    rotateQuarter g 0 = g ∧ rotateQuarter g 4 = g := by
  have id0 : rotate g 1 0 = g := (view_algebra g).2.2.2.2.2.2.2.1
  refine ⟨?_, by simpa [rotateQuarter, quarterCS] using id0, by simpa [rotateQuarter, quarterCS] using id0⟩
  simp only [rotateQuarter, rotate_compose]
  rcases quarterCS_cases a with ⟨ha, ea⟩ | ⟨ha, ea⟩ | ⟨ha, ea⟩ | ⟨ha, ea⟩ <;>
  rcases quarterCS_cases b with ⟨hb, eb⟩ | ⟨hb, eb⟩ | ⟨hb, eb⟩ | ⟨hb, eb⟩ <;>
  rcases quarterCS_cases (a + b) with ⟨hc, ec⟩ | ⟨hc, ec⟩ | ⟨hc, ec⟩ | ⟨hc, ec⟩ <;>
  first
  | (exfalso; omega)
  | (rw [ea, eb, ec]; norm_num)

/-- a half turn is the point reflection in the centre of the footprint; a quarter turn keeps shape and CRS and
fixes the centre. -/
theorem rotate_quarter_spec (g : GeoBox) (k : Int) (p : Pt) :
    (rotateQuarter g k).ny = g.ny ∧ (rotateQuarter g k).nx = g.nx ∧ (rotateQuarter g k).crs = g.crs ∧
    pix2wld (rotateQuarter g k) ((g.nx : Rat) / 2, (g.ny : Rat) / 2) = pix2wld g ((g.nx : Rat) / 2, (g.ny : Rat) / 2) ∧
    (k % 4 = 2 →
      pix2wld (rotateQuarter g k) p
        = (2 * (pix2wld g ((g.nx : Rat) / 2, (g.ny : Rat) / 2)).1 - (pix2wld g p).1,
           2 * (pix2wld g ((g.nx : Rat) / 2, (g.ny : Rat) / 2)).2 - (pix2wld g p).2)) := by
  refine ⟨rfl, rfl, rfl, rotate_fixes_centre g _ _, ?_⟩
  intro hk
  have : quarterCS k = (-1, 0) := by simp [quarterCS, hk]
  simp only [rotateQuarter, this, rotate, mulWld, pix2wld, rotationAbout, Aff.apply, Aff.mul_def, Aff.mul]
  ext <;> simp <;> ring

/-! ## 11. window / zoom / affine-composition laws -/

/-- **crop undoes pad**: the window `[pady : pady + ny, padx : padx + nx]` of `gbox.pad(padx, pady)` is `gbox`. -/
theorem crop_of_pad (reproj : Nat → Nat → Pt → Pt) (g : GeoBox) (padx pady : Int) (hx : 0 ≤ padx) (hy : 0 ≤ pady)
    (hny : 0 ≤ g.ny) (hnx : 0 ≤ g.nx) :
    getitem reproj (pad g padx (some pady))
      (.seq [.slc (some pady) (some (pady + g.ny)) none, .slc (some padx) (some (padx + g.nx)) none]) = .ok g := by
  have wr : ∀ (n a : Int), 0 ≤ a → wrapNeg n a = a := by intro n a ha; simp [wrapNeg, ha]
  obtain ⟨ny, nx, ⟨a, b, c, d, e, f⟩, crs⟩ := g
  simp only [getitem, cropSeq, IdxS.stepOk, IdxS.toPIdx, crop, pad, normSlice, List.length_cons, List.length_nil,
    List.all_cons, List.all_nil, Bool.and_true]
  simp only [wr _ _ hx, wr _ _ hy, wr _ (pady + ny) (by simp at hny; omega), wr _ (padx + nx) (by simp at hnx; omega)]
  simp only [show ¬ (0 + 1 + 1 > 2) by omega, if_false, Bool.not_eq_true, not_true_eq_false, Except.ok.injEq,
    GeoBox.mk.injEq, and_true]
  refine ⟨by omega, by omega, ?_⟩
  apply Aff.ext' <;> simp [Aff.mul_def, Aff.mul, Aff.translation] <;> ring

/-- **pad undoes an inner crop of equal margins**: padding the window `[q : ny − q, p : nx − p]` by `(p, q)` gives
back `gbox`. -/
theorem pad_of_crop (g : GeoBox) (p q : Int) (hp : 0 ≤ p) (hq : 0 ≤ q) (hx : p ≤ g.nx - p) (hy : q ≤ g.ny - q) :
    pad (crop g (.two (.slc (some q) (some (g.ny - q))) (.slc (some p) (some (g.nx - p))))) p (some q) = g := by
  have wr : ∀ (n a : Int), 0 ≤ a → wrapNeg n a = a := by intro n a ha; simp [wrapNeg, ha]
  obtain ⟨ny, nx, ⟨a, b, c, d, e, f⟩, crs⟩ := g
  simp only [crop, pad, normSlice] at *
  simp only [wr _ _ hp, wr _ _ hq, wr _ (ny - q) (by omega), wr _ (nx - p) (by omega), GeoBox.mk.injEq, and_true]
  refine ⟨by omega, by omega, ?_⟩
  apply Aff.ext' <;> simp [Aff.mul_def, Aff.mul, Aff.translation] <;> ring

/-- **`zoom_to(shape)` is `zoom_out(k)`** when the shape divides evenly: `gbox.zoom_to((ny/k, nx/k)) =
gbox.zoom_out(k)` for every positive rational `k` with `ny = k·ny'`, `nx = k·nx'`. -/
theorem zoom_to_shape_eq_zoom_out (g : GeoBox) (ny' nx' : Int) (k : Rat) (hk : 0 < k) (hy' : 1 ≤ ny') (hx' : 1 ≤ nx')
    (hy : (g.ny : Rat) = k * ny') (hx : (g.nx : Rat) = k * nx') :
    zoomToShape g ny' nx' = zoomOut g k := by
  have hk0 : k ≠ 0 := ne_of_gt hk
  have h0 : ¬ (ny' = 0 ∨ nx' = 0) := by omega
  have hy0 : (ny' : Rat) ≠ 0 := by exact_mod_cast (by omega : ny' ≠ 0)
  have hx0 : (nx' : Rat) ≠ 0 := by exact_mod_cast (by omega : nx' ≠ 0)
  have cy : ceil1 ((g.ny : Rat) / k) = ny' := by
    rw [hy, mul_div_cancel_left₀ _ hk0]; simp only [ceil1, ceil_intCast']; omega
  have cx : ceil1 ((g.nx : Rat) / k) = nx' := by
    rw [hx, mul_div_cancel_left₀ _ hk0]; simp only [ceil1, ceil_intCast']; omega
  simp only [zoomToShape, h0, if_false, zoomOut, hk0, cy, cx]
  rw [hx, hy, mul_div_cancel_right₀ _ hx0, mul_div_cancel_right₀ _ hy0]

/-- … and zooming back to the original shape after such a `zoom_out` restores the geobox. -/
theorem zoom_out_zoom_to_roundtrip (g g' : GeoBox) (ny' nx' : Int) (k : Rat) (hk : 0 < k) (hy' : 1 ≤ ny') (hx' : 1 ≤ nx')
    (hy : (g.ny : Rat) = k * ny') (hx : (g.nx : Rat) = k * nx') (h : zoomOut g k = .ok g') :
    zoomToShape g' g.ny g.nx = .ok g := by
  rw [← zoom_to_shape_eq_zoom_out g ny' nx' k hk hy' hx' hy hx] at h
  have hny : g.ny ≠ 0 := by
    intro h0; rw [h0] at hy
    have : (ny' : Rat) = 0 := by
      have := mul_eq_zero.mp hy.symm
      rcases this with h1 | h1
      · exact absurd h1 (ne_of_gt hk)
      · exact h1
    have : ny' = 0 := by exact_mod_cast this
    omega
  have hnx : g.nx ≠ 0 := by
    intro h0; rw [h0] at hx
    have : (nx' : Rat) = 0 := by
      have := mul_eq_zero.mp hx.symm
      rcases this with h1 | h1
      · exact absurd h1 (ne_of_gt hk)
      · exact h1
    have : nx' = 0 := by exact_mod_cast this
    omega
  exact zoom_to_shape_roundtrip g g' ny' nx' h hny hnx

/-- **`gbox * T` and `T * gbox` are associative and commute with each other and with every view**: pixel-side
factors accumulate on the right, world-side factors on the left, and crop / pad / flips / pixel translation /
`zoom_out` of a world-side transformed geobox is the world-side transform of the view. -/
theorem affine_composition_laws (g : GeoBox) (T S : Aff) :
    mulPix (mulPix g T) S = mulPix g (T * S) ∧
    mulWld S (mulWld T g) = mulWld (S * T) g ∧
    mulWld T (mulPix g S) = mulPix (mulWld T g) S ∧
    (∀ sy sx, crop (mulWld T g) (.two sy sx) = mulWld T (crop g (.two sy sx))) ∧
    (∀ px py, pad (mulWld T g) px py = mulWld T (pad g px py)) ∧
    flipx (mulWld T g) = mulWld T (flipx g) ∧ flipy (mulWld T g) = mulWld T (flipy g) ∧
    (∀ tx ty, translatePix (mulWld T g) tx ty = mulWld T (translatePix g tx ty)) ∧
    (∀ f, zoomOut (mulWld T g) f = (zoomOut g f).map (mulWld T)) := by
  refine ⟨?_, ?_, ?_, ?_, ?_, ?_, ?_, ?_, ?_⟩
  · simp [mulPix, Aff.mul_assoc']
  · simp [mulWld, Aff.mul_assoc']
  · simp [mulWld, mulPix, Aff.mul_assoc']
  · intro sy sx; simp [mulWld, crop, Aff.mul_assoc']
  · intro px py; simp [mulWld, pad, Aff.mul_assoc']
  · simp [mulWld, flipx, mulPix, Aff.mul_assoc']
  · simp [mulWld, flipy, mulPix, Aff.mul_assoc']
  · intro tx ty; simp [mulWld, translatePix, mulPix, Aff.mul_assoc']
  · intro f
    by_cases hf : f = 0 <;> simp [zoomOut, hf, mulWld, Aff.mul_assoc', Except.map]

/-! ## 12. regions in another CRS through a table; `coordinates` keys -/

/-- A table that lists the image of every vertex makes `tableReproj` agree with any reprojection function that
produced the table, on those vertices — so running the model with the table is running it with that function. -/
theorem table_reproj_agrees (f : Nat → Nat → Pt → Pt) (src dst : Nat) (pts : List Pt) :
    let table := pts.map (fun p => (p, f src dst p))
    tableCovers table pts = true ∧ ∀ p ∈ pts, tableReproj table src dst p = f src dst p := by
  intro table
  have key : ∀ p ∈ pts, tableLookup table p = some (f src dst p) := by
    intro p hp
    simp only [tableLookup, table]
    induction pts with
    | nil => cases hp
    | cons q qs ih =>
      simp only [List.map_cons, List.find?_cons]
      by_cases hq : q = p
      · subst hq; simp
      · have hqb : (q == p) = false := by simpa using hq
        simp only [hqb]
        rcases List.mem_cons.mp hp with h | h
        · exact absurd h.symm hq
        · exact ih h
  refine ⟨?_, ?_⟩
  · simp only [tableCovers, List.all_eq_true]
    intro p hp; rw [key p hp]; rfl
  · intro p hp; simp [tableReproj, key p hp]

/-- the model run with the table is the model run with the function (index by a region in another CRS) -/
theorem getitem_region_table (f : Nat → Nat → Pt → Pt) (g : GeoBox) (r : Region) :
    getitem (tableReproj (r.pts.map (fun p => (p, f r.crs g.crs p)))) g (.region r) = getitem f g (.region r) := by
  obtain ⟨_, hag⟩ := table_reproj_agrees f r.crs g.crs r.pts
  simp only [getitem, cropRegionCrs]
  have : r.pts.map (tableReproj (r.pts.map (fun p => (p, f r.crs g.crs p))) r.crs g.crs) = r.pts.map (f r.crs g.crs) :=
    List.map_congr_left hag
  rw [this]

/-- `coordinates`: two entries, the **row** dimension first with resolution `A.e`, then the column dimension with
`A.a`; named latitude / longitude exactly for a geographic CRS; `ValueError` iff not axis aligned. -/
theorem coords_meta_spec (g : GeoBox) (k : CrsKind) :
    (isAffineST g.A = false → coordsMeta g k = .error .valueError) ∧
    (isAffineST g.A = true → coordsMeta g k = .ok [((dimensions k).1, g.A.e), ((dimensions k).2, g.A.a)]) ∧
    ((dimensions k = ("latitude", "longitude")) ↔ k = .geographic) ∧
    (k ≠ .geographic → dimensions k = ("y", "x")) := by
  refine ⟨fun h => by simp [coordsMeta, h], fun h => by simp [coordsMeta, h], ?_, ?_⟩
  · cases k <;> simp [dimensions]
  · cases k <;> simp [dimensions]

/-! ## 9. the hypotheses of the theorems above are satisfiable (instances on concrete geoboxes) -/

def gEx : GeoBox := ⟨10, 20, ⟨2, 0, 100, 0, -2, 50⟩, 1⟩
def idR : Nat → Nat → Pt → Pt := fun _ _ p => p

example : ∃ g', zoomTo gEx (.num (.flt 5)) none = .ok g' ∧ max g'.ny g'.nx = 5 := by
  obtain ⟨g', h, hm, _⟩ := zoom_to_int_arg_longest gEx 5 none (by decide) (by decide) (by decide) (by decide) (.flt 5)
    (Or.inr (by norm_num))
  exact ⟨g', h, hm⟩

example : zoomTo gEx .none (some (.num (.int 4))) = .ok ⟨5, 10, ⟨4, 0, 100, 0, -4, 50⟩, 1⟩ := by decide +kernel

example : ∃ g', getitem idR gEx (.one (.idx (-1))) = .ok g' ∧ g'.ny = 1 ∧ g'.nx = 20 := by
  obtain ⟨g', h, a, b, _⟩ := getitem_int_row idR gEx (-1) (by decide) (by decide)
  exact ⟨g', h, a, b⟩

example : getitem idR gEx (.gbox ⟨3, 6, ⟨2, 0, 106, 0, -2, 46⟩, 1⟩) = .ok ⟨3, 6, ⟨2, 0, 106, 0, -2, 46⟩, 1⟩ :=
  getitem_gbox_window idR gEx _ (by decide +kernel) (by decide) 3 9 2 5 (by decide) (by decide) (by decide +kernel)

example : ∃ g', getitem idR gEx (.seq [.slc (some (-4)) none none, .slc (some 3) (some 9) none]) = .ok g' ∧ g'.crs = 1 := by
  obtain ⟨g', h, c, _⟩ := getitem_selects_numpy idR gEx (some (-4)) none (some 3) (some 9) (by decide) (by decide)
    (by decide) (by decide)
  exact ⟨g', h, c⟩

example : enclosingArg idR gEx (.bbox 1 90 41 107 60) = .ok ⟨10, 9, ⟨2, 0, 90, 0, -2, 60⟩, 1⟩ := by decide +kernel

example : project idR gEx 1 [(102, 48), (104, 44)] = .ok (0, [(1, 1), (2, 3)]) := by decide +kernel

example : project idR gEx 0 [(1, 1), (2, 3)] = .ok (1, [(102, 48), (104, 44)]) ∧
    project idR gEx 1 [(102, 48), (104, 44)] = .ok (0, [(1, 1), (2, 3)]) := by
  have h := (project_roundtrip idR gEx (by decide) (by decide +kernel) [(1, 1), (2, 3)]).1 1 [(102, 48), (104, 44)]
    (by decide +kernel)
  exact ⟨by decide +kernel, h⟩

example : scaledDown ⟨5, 7, Aff.id, 0⟩ 2 = zoomOut ⟨5, 7, Aff.id, 0⟩ 2 :=
  scaled_down_eq_zoom_out ⟨5, 7, Aff.id, 0⟩ 2 (by decide) (by decide) (by decide)

example : gcpResolution ⟨30, 0, 500000, 0, -30, 6000000⟩ ⟨5, 7, ⟨2, 0, 1, 0, 2, 3⟩, 3⟩ 1 1 = .ok (60, -60) := by
  have h := (gcp_resolution_view ⟨30, 0, 500000, 0, -30, 6000000⟩ ⟨5, 7, ⟨2, 0, 1, 0, 2, 3⟩, 3⟩ 1 1 ⟨rfl, rfl⟩ ⟨rfl, rfl⟩).1
  rw [h]; norm_num

example : ∃ g' cps', gcpToCrs (fun w => w) ⟨8, 8, ⟨2, 0, 1, 0, 2, 0⟩, 3⟩ [((5, 4), (100, 200))] 1 = .ok (g', cps') ∧ g'.A = Aff.id := by
  obtain ⟨g', cps', h, _, _, hA, _⟩ := gcp_to_crs_consistent (fun w => w) (fun p => p) ⟨8, 8, ⟨2, 0, 1, 0, 2, 0⟩, 3⟩
    [((5, 4), (100, 200))] 1 (by decide) (by decide +kernel) (Or.inr (by decide +kernel))
  exact ⟨g', cps', h, hA⟩

example : zoomToShape ⟨5, 10, ⟨4, 0, 100, 0, -4, 50⟩, 1⟩ 10 20 = .ok gEx :=
  zoom_to_shape_roundtrip gEx _ 5 10 (by decide +kernel) (by decide) (by decide)

/-- rotated / sheared geobox: the buffer distance of `footprint` is `buffer` times the larger of the two pixel
sizes of the decomposition, positive for a positive buffer. -/
theorem footprint_buffer_dist_rotated (g : GeoBox) (hcrs : g.crs ≠ 0) (hns : isAffineST g.A = false) (hdet : g.A.det ≠ 0)
    (n m buffer : Rat) (hn : 0 < n) (hm : 0 < m) (hb : buffer ≠ 0) :
    footprintBufferDist g n m buffer = .ok (some (buffer * max n m)) ∧ (0 < buffer → 0 < buffer * max n m) := by
  constructor
  · have hr : ∀ x : Rat, 0 < x → rabs x = x := fun x hx => by simp [rabs, not_lt.mpr hx.le]
    have hrn : ∀ x : Rat, 0 < x → rabs (-x) = x := fun x hx => by simp [rabs, hx]
    by_cases hs : g.A.det / (n * m) < 0
    · simp [footprintBufferDist, hcrs, hb, resolution, hns, hdet, hs, bind, Except.bind, pure, Except.pure, hr n hn, hrn m hm]
    · simp [footprintBufferDist, hcrs, hb, resolution, hns, hdet, hs, bind, Except.bind, pure, Except.pure, hr n hn, hr m hm]
  · intro hp; exact mul_pos hp (lt_max_of_lt_left hn)

example : footprintBufferDist ⟨5, 7, ⟨6, -8, 1, 8, 6, 2⟩, 1⟩ 10 10 3 = .ok (some 30) := by decide +kernel

example : getitem idR (pad gEx 3 (some 1)) (.seq [.slc (some 1) (some 11) none, .slc (some 3) (some 23) none]) = .ok gEx :=
  crop_of_pad idR gEx 3 1 (by decide) (by decide) (by decide) (by decide)

example : pad (crop gEx (.two (.slc (some 2) (some 8)) (.slc (some 3) (some 17)))) 3 (some 2) = gEx :=
  pad_of_crop gEx 3 2 (by decide) (by decide) (by decide) (by decide)

example : zoomToShape gEx 4 8 = zoomOut gEx (5 / 2) :=
  zoom_to_shape_eq_zoom_out gEx 4 8 (5 / 2) (by norm_num) (by decide) (by decide) (by norm_num [gEx]) (by norm_num [gEx])

example : zoomToShape ⟨4, 8, ⟨5, 0, 100, 0, -5, 50⟩, 1⟩ 10 20 = .ok gEx :=
  zoom_out_zoom_to_roundtrip gEx _ 4 8 (5 / 2) (by norm_num) (by decide) (by decide) (by norm_num [gEx]) (by norm_num [gEx])
    (by decide +kernel)

example : rotateQuarter (rotateQuarter gEx 3) (-7) = rotateQuarter gEx (-4) := (rotate_quarter_add gEx 3 (-7)).1

example : getitem (tableReproj [((10, 10), (3, -4))]) ⟨5, 7, ⟨2, 0, 0, 0, -2, 0⟩, 1⟩ (.region (.geom 2 [(10, 10)]))
    = .ok ⟨1, 1, ⟨2, 0, 2, 0, -2, -4⟩, 1⟩ := by decide +kernel

end OdcGeo.C02
