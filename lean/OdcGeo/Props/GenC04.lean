/-
C04 — source tie.  `OdcGeo/Gen/C04.lean` is regenerated from `/repo/odc/geo/roi.py` by `tools/py2lean.py` on every run
of `check.py C04`.  Tied here: the two integer helpers nested in `Tiles.__getitem__` (`_slice`) and `Tiles.tile_shape`
(`_sz`); the methods around them move `Shape2d` / index objects about and stay under the behavioural correspondence.
The ties are stated against the one-axis model functions `getItem` / `tileShape` with the arguments the methods pass:
the normalised index and the tile count of the axis.
-/
import OdcGeo.Gen.C04
import OdcGeo.Gen.Tie
import OdcGeo.Props.C04

namespace OdcGeo.C04
open OdcGeo.Gen OdcGeo.C17

/-- `Tiles.__getitem__`: the model's one-axis `getItem` is `_slice` applied to the normalised index -/
theorem tie_tiles_slice (N n : Int) (idx : PIdx) :
    Gen.C04.tiles_slice (normSlice idx (count N n)) N n = getItem N n idx := by
  tie_auto [Gen.C04.tiles_slice, getItem]

/-- `Tiles.tile_shape`: the model's one-axis `tileShape` is `_sz(i, number of tiles, tile size, axis size)` -/
theorem tie_tiles_sz (N n i : Int) :
    Gen.C04.tiles_sz i (count N n) n N = tileShape N n i := by
  tie_auto [Gen.C04.tiles_sz, tileShape]

/-! ## headline theorems of `Props/C04.lean`, transferred -/

/-- `tiles_partition` (exact partition: every pixel lies in exactly one tile) with the region computed by the source
`_slice` on the normalised tile index -/
theorem gen_tiles_partition (N n : Int) (hn : 0 < n) (y : Int) (hy : 0 ≤ y ∧ y < N) :
    ∃! i : Int, (0 ≤ i ∧ i < count N n) ∧
      ∃ s, Gen.C04.tiles_slice (normSlice (.idx i) (count N n)) N n = .ok s ∧ s.Has y := by
  simp only [tie_tiles_slice]; exact tiles_partition N n hn y hy

/-- `tileShape_error_iff` for the source `_sz` -/
theorem gen_tile_shape_error_iff (N n : Int) (i : Int) :
    Gen.C04.tiles_sz i (count N n) n N = .error .indexError ↔ (i < -count N n ∨ count N n ≤ i) := by
  rw [tie_tiles_sz]; exact tileShape_error_iff N n i

end OdcGeo.C04
