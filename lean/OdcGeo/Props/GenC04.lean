/-
C04 — source tie.  `OdcGeo/Gen/C04.lean` is regenerated from `/repo/odc/geo/roi.py` by `tools/py2lean.py` on every run
of `check.py C04`.  Tied here: the two integer helpers nested in `Tiles.__getitem__` (`_slice`) and `Tiles.tile_shape`
(`_sz`); the methods around them move `Shape2d` / index objects about and stay under the behavioural correspondence.
The ties are stated against the one-axis model functions `getItem` / `tileShape` with the arguments the methods pass:
the normalised index and the tile count of the axis.

The theorems live in OdcGeo/Props/GenC04/*.lean, one compilation unit per tied function or small group; this file only
imports them all (`lake build OdcGeo.Props.GenC04`).
-/
import OdcGeo.Props.GenC04.TilesSlice
import OdcGeo.Props.GenC04.TilesSz
import OdcGeo.Props.GenC04.VTilesSz
