/-
C13 × C12 — closing the loop on the linear path of `grid_intersect`.

`chunked_eq_whole_nn` (Props/C13) takes dependency completeness as the hypothesis
`deps_complete`.  Here that hypothesis is *derived* from C12's `linear_deps_complete` for the
dependency map that the C12 model of `_grid_intersect_linear` computes, so on the linear path
(scale + translation pixel map, mirrored axes included) chunked = whole holds with no dependency
hypothesis at all.

The two models use different vocabularies (C12/C04: `Tiling` = regular / variable tiles with
`getItem : PIdx → Res NSlice`, indices in `Int`; C13: lists of `(start, stop)` spans, indices in
`Nat`).  `TilingRel` is the translation: the C04 tiling has as many tiles as the span list and
`getItem i` returns span `i`.
-/
import OdcGeo.Props.C13
import OdcGeo.Props.C12
import Mathlib.Tactic.Linarith
import Mathlib.Tactic.Ring
import Mathlib.Tactic.FieldSimp
import Mathlib.Tactic.Positivity
import Mathlib.Algebra.Order.Field.Rat
import Mathlib.Algebra.Order.AbsoluteValue.Basic

namespace OdcGeo.C13
open OdcGeo OdcGeo.C17 OdcGeo.C04

/-- a C04 tiling and a C13 span list describe the same tiles -/
structure TilingRel (t : C04.Tiling) (l : List Span) : Prop where
  count : t.count = (l.length : Int)
  get : ∀ (i : Nat) (s : Span), l[i]? = some s → t.getItem (.idx (i : Int)) = .ok ⟨s.1, s.2⟩

/-- Inside every pixel-centre neighbourhood there is a point whose image lies *strictly* inside
the sampled source pixel: for `p = a*u + c ∈ [j, j+1)` (`a ≠ 0`) some `u'` within 1/2 of `u`
has `j < a*u' + c < j+1`.  (`u' = u + a*m/(1+a²)`, `m = j + 1/2 - p`: the image moves a
fraction `a²/(1+a²) ∈ (0,1)` of the way towards the pixel centre.) -/
theorem strict_point (a c u : Rat) (j : Int) (ha : a ≠ 0)
    (h1 : (j : Rat) ≤ a * u + c) (h2 : a * u + c < (j : Rat) + 1) :
    ∃ u', u - 1 / 2 ≤ u' ∧ u' ≤ u + 1 / 2 ∧ (j : Rat) < a * u' + c ∧ a * u' + c < (j : Rat) + 1 := by
  have ha2 : 0 < a * a := mul_self_pos.2 ha
  have hpos : (0 : Rat) < 1 + a * a := by linarith
  set k : Rat := 1 / (1 + a * a) with hk
  have hk0 : 0 < k := one_div_pos.2 hpos
  have hk1 : k * (1 + a * a) = 1 := by rw [hk]; field_simp
  set m : Rat := (j : Rat) + 1 / 2 - (a * u + c) with hm
  have hm1 : -(1 / 2) < m := by rw [hm]; linarith
  have hm2 : m ≤ 1 / 2 := by rw [hm]; linarith
  -- θ = a²k ∈ (0, 1)
  have hθ0 : 0 < a * a * k := mul_pos ha2 hk0
  have hθ1 : a * a * k < 1 := by nlinarith
  -- |a m| ≤ (1 + a²)/2
  have hq1 : 2 * (a * m) ≤ 1 + a * a := by nlinarith [sq_nonneg (a - m), sq_nonneg (m + 1 / 2), sq_nonneg (m - 1 / 2)]
  have hq2 : -(1 + a * a) ≤ 2 * (a * m) := by nlinarith [sq_nonneg (a + m), sq_nonneg (m + 1 / 2), sq_nonneg (m - 1 / 2)]
  refine ⟨u + a * m * k, ?_, ?_, ?_, ?_⟩
  · have : -(1 / 2) ≤ a * m * k := by nlinarith
    linarith
  · have : a * m * k ≤ 1 / 2 := by nlinarith
    linarith
  · have e : a * (u + a * m * k) + c = (a * u + c) + (a * a * k) * m := by ring
    rw [e, hm]
    nlinarith
  · have e : a * (u + a * m * k) + c = (a * u + c) + (a * a * k) * m := by ring
    rw [e, hm]
    nlinarith

/-- the tiled geoboxes of the two models describe the same pair of rasters -/
structure GridRel (c : Cfg) (dst src : C12.GBT) : Prop where
  sy : TilingRel src.tiles.y c.sy
  sx : TilingRel src.tiles.x c.sx
  dy : TilingRel dst.tiles.y c.dy
  dx : TilingRel dst.tiles.x c.dx
  ny : src.ny = c.srcH
  nx : src.nx = c.srcW

theorem pixBBox_of_rel (c : Cfg) (dst src : C12.GBT) (hrel : GridRel c dst src) (iy ix : Nat)
    (ty tx : Span) (hty : c.dy[iy]? = some ty) (htx : c.dx[ix]? = some tx) :
    C12.pixBBox dst ((iy : Int), (ix : Int)) =
      .ok ⟨((tx.1 : Int) : Rat), ((ty.1 : Int) : Rat), ((tx.2 : Int) : Rat), ((ty.2 : Int) : Rat)⟩ := by
  simp only [C12.pixBBox, getItem2, zip2, hrel.dy.get iy ty hty, hrel.dx.get ix tx htx, bind, Except.bind,
    pure, Except.pure]

/-- **Completeness of the linear dependency map, in C13's terms.**  If the pixel map
`A = ~S * D` is a scale + translation (no rotation / shear, non-degenerate; mirrored allowed)
and the dependency list of every destination tile contains what C12's `linearDeps` (the model of
`_grid_intersect_linear`, with this `A`) returns for it, then `deps_complete` holds: the source
tile holding the pixel sampled by any destination pixel is listed for that pixel's tile.
(The pixel centre may map exactly onto a source pixel edge, where C12's open-square statement does
not apply directly; `strict_point` supplies a nearby point of the same destination tile whose
image is strictly inside the sampled pixel.) -/
theorem deps_complete_of_linear (c : Cfg) (dst src : C12.GBT) (hrel : GridRel c dst src)
    (hs : src.WF) (hsy : Chain 0 c.sy c.srcH) (hsx : Chain 0 c.sx c.srcW)
    (hb : (c.S.inv * c.D).b = 0) (hd : (c.S.inv * c.D).d = 0)
    (ha : (c.S.inv * c.D).a ≠ 0) (he : (c.S.inv * c.D).e ≠ 0)
    (hdeps : ∀ (iy ix : Nat) (l : List (Int × Int)), iy < c.dy.length → ix < c.dx.length →
      C12.linearDeps dst src (c.S.inv * c.D) ((iy : Int), (ix : Int)) = .ok l →
      ∀ i j : Nat, ((i : Int), (j : Int)) ∈ l → (i, j) ∈ lookupDeps c.deps (iy, ix)) :
    deps_complete c := by
  rintro iy ix ⟨dy, dx⟩ ⟨ty, hty, t1, t2⟩ ⟨tx, htx, t3, t4⟩ s hs'
  simp only at t1 t2 t3 t4
  set A := c.S.inv * c.D with hA
  -- the sampled pixel
  unfold samplePix at hs'
  simp only [Aff.apply, hb, hd, zero_mul, add_zero, zero_add] at hs'
  split at hs'
  swap
  · simp at hs'
  next hin =>
  obtain ⟨p1, p2, p3, p4⟩ := hin
  simp only [Option.some.injEq] at hs'
  set px : Rat := A.a * ((dx : Rat) + 1 / 2) + A.c with hpx
  set py : Rat := A.e * ((dy : Rat) + 1 / 2) + A.f with hpy
  subst hs'
  -- the sampled pixel lies in the source image and under its floor
  have jy0 : 0 ≤ py.floor := Rat.le_floor_iff.2 (by exact_mod_cast p3)
  have jy1 : py.floor < c.srcH := Rat.floor_lt_iff.2 p4
  have jx0 : 0 ≤ px.floor := Rat.le_floor_iff.2 (by exact_mod_cast p1)
  have jx1 : px.floor < c.srcW := Rat.floor_lt_iff.2 p2
  have fy1 := Rat.floor_le py
  have fy2 := Rat.lt_floor_add_one py
  have fx1 := Rat.floor_le px
  have fx2 := Rat.lt_floor_add_one px
  push_cast at fy2 fx2
  -- the source tile holding it
  obtain ⟨i, hi⟩ := Chain.locate_some hsy jy0 jy1
  obtain ⟨j, hj⟩ := Chain.locate_some hsx jx0 jx1
  obtain ⟨sp, hsp, a1, a2⟩ := locate_spec hi
  obtain ⟨sq, hsq, a3, a4⟩ := locate_spec hj
  -- points of the destination tile mapping strictly inside the sampled pixel
  obtain ⟨u', u1, u2, u3, u4⟩ := strict_point A.a A.c ((dx : Rat) + 1 / 2) px.floor ha fx1 fx2
  obtain ⟨v', v1, v2, v3, v4⟩ := strict_point A.e A.f ((dy : Rat) + 1 / 2) py.floor he fy1 fy2
  have htb := pixBBox_of_rel c dst src hrel iy ix ty tx hty htx
  have hilt : i < c.sy.length := by
    rcases Nat.lt_or_ge i c.sy.length with h | h
    · exact h
    · rw [List.getElem?_eq_none h] at hsp; cases hsp
  have hjlt : j < c.sx.length := by
    rcases Nat.lt_or_ge j c.sx.length with h | h
    · exact h
    · rw [List.getElem?_eq_none h] at hsq; cases hsq
  have c1 : ((tx.1 : Int) : Rat) ≤ (dx : Rat) := by exact_mod_cast t3
  have c2 : (dx : Rat) + 1 ≤ ((tx.2 : Int) : Rat) := by exact_mod_cast (by omega : dx + 1 ≤ tx.2)
  have c3 : ((ty.1 : Int) : Rat) ≤ (dy : Rat) := by exact_mod_cast t1
  have c4 : (dy : Rat) + 1 ≤ ((ty.2 : Int) : Rat) := by exact_mod_cast (by omega : dy + 1 ≤ ty.2)
  obtain ⟨l, hl, hmem⟩ := C12.linear_deps_complete dst src hs A hb hd ((iy : Int), (ix : Int)) _ htb
    ((i : Int), (j : Int))
    ⟨by simp, by simp only [hrel.sy.count]; exact_mod_cast hilt⟩
    ⟨by simp, by simp only [hrel.sx.count]; exact_mod_cast hjlt⟩
    ⟨sp.1, sp.2⟩ ⟨sq.1, sq.2⟩ (hrel.sy.get i sp hsp) (hrel.sx.get j sq hsq)
    py.floor px.floor ⟨a1, a2⟩ ⟨a3, a4⟩ ⟨jy0, by rw [hrel.ny]; exact jy1⟩ ⟨jx0, by rw [hrel.nx]; exact jx1⟩
    u' v' ⟨by simp only; linarith, by simp only; linarith⟩ ⟨by simp only; linarith, by simp only; linarith⟩
    ⟨u3, u4⟩ ⟨v3, v4⟩
  have hiy : iy < c.dy.length := by
    rcases Nat.lt_or_ge iy c.dy.length with h | h
    · exact h
    · rw [List.getElem?_eq_none h] at hty; cases hty
  have hix : ix < c.dx.length := by
    rcases Nat.lt_or_ge ix c.dx.length with h | h
    · exact h
    · rw [List.getElem?_eq_none h] at htx; cases htx
  exact ⟨(i, j), hdeps iy ix l hiy hix hl i j hmem, ⟨sp, hsp, a1, a2⟩, ⟨sq, hsq, a3, a4⟩⟩

/-! ### the dependency map computed by C12's `gridIntersectLinear`, in C13's vocabulary -/

def idxToNat (i : Int × Int) : TIdx := (i.1.toNat, i.2.toNat)

/-- `d2s_idx` as C13 reads it: same table, tile indices as naturals -/
def depsOfC12 (g : List ((Int × Int) × List (Int × Int))) : List (TIdx × List TIdx) :=
  g.map fun e => (idxToNat e.1, e.2.map idxToNat)

/-- one entry of `_grid_intersect_linear`'s table: `deps[idx] = …` -/
def depStep (f : Int × Int → Res (List (Int × Int))) (idx : Int × Int) :
    Res ((Int × Int) × List (Int × Int)) := do
  let d ← f idx
  return (idx, d)

theorem lookup_depsOfC12 (f : Int × Int → Res (List (Int × Int))) (iy ix : Nat) (l : List (Int × Int))
    (hl : f ((iy : Int), (ix : Int)) = .ok l) :
    ∀ (ts : List (Int × Int)) (g : List ((Int × Int) × List (Int × Int))),
      ts.mapM (depStep f) = .ok g →
      (∀ t ∈ ts, 0 ≤ t.1 ∧ 0 ≤ t.2) → ((iy : Int), (ix : Int)) ∈ ts →
      lookupDeps (depsOfC12 g) (iy, ix) = l.map idxToNat
  | [], _, _, _, hm => by simp at hm
  | t :: r, g, hg, hnn, hm => by
    rw [List.mapM_cons] at hg
    cases hft : f t with
    | error e =>
      have hstep : depStep f t = .error e := by simp [depStep, hft, bind, Except.bind]
      rw [hstep] at hg
      simp [bind, Except.bind] at hg
    | ok d =>
      have hstep : depStep f t = .ok (t, d) := by simp [depStep, hft, bind, Except.bind, pure, Except.pure]
      rw [hstep] at hg
      cases hr : r.mapM (depStep f) with
      | error e =>
        rw [hr] at hg
        simp [bind, Except.bind] at hg
      | ok g' =>
        rw [hr] at hg
        simp only [bind, Except.bind, pure, Except.pure, Except.ok.injEq] at hg
        subst hg
        by_cases ht : t = ((iy : Int), (ix : Int))
        · subst ht
          rw [hl] at hft
          cases hft
          simp [depsOfC12, lookupDeps, idxToNat]
        · have hne : ((iy, ix) == idxToNat t) = false := by
            have h0 := hnn t (by simp)
            simp only [idxToNat, beq_eq_false_iff_ne, ne_eq, Prod.mk.injEq, not_and]
            intro h1 h2
            apply ht
            ext <;> simp <;> omega
          have hm' : ((iy : Int), (ix : Int)) ∈ r := by
            simp only [List.mem_cons] at hm
            rcases hm with h | h
            · exact absurd h.symm ht
            · exact h
          have ih := lookup_depsOfC12 f iy ix l hl r g' hr (fun x hx => hnn x (by simp [hx])) hm'
          simp only [depsOfC12, lookupDeps, List.map_cons, List.lookup, hne] at ih ⊢
          exact ih

/-- **Chunked equals whole on the linear path — no dependency hypothesis.**  Same CRS, nearest
neighbour, pixel map `~S * D` a (possibly mirrored) scale + translation: if the dependency map is
the one C12's model of `_grid_intersect_linear` computes for the same two tilings and that map
(`gridIntersectLinear dst src (~S * D) = .ok g`, `c.deps = depsOfC12 g`), then every pixel of
the computed dask array equals the pixel of the in-memory result.  `deps_complete` is discharged
by C12's `linear_deps_complete`.
What is assumed about the transform: it is the map the dependencies were computed with, i.e.
`snap_affine` left it unchanged (integer / already snapped translations and scales; the 1e-3
translation snap of the real code is not covered). -/
theorem chunked_eq_whole_linear (c : Cfg) (G : Gdal) (src buf : Img) (dst12 src12 : C12.GBT)
    (g : List ((Int × Int) × List (Int × Int)))
    (hrel : GridRel c dst12 src12) (hs12 : src12.WF)
    (hg : C12.gridIntersectLinear dst12 src12 (c.S.inv * c.D) = .ok g)
    (hdepsEq : c.deps = depsOfC12 g)
    (hb : (c.S.inv * c.D).b = 0) (hd' : (c.S.inv * c.D).d = 0)
    (ha : (c.S.inv * c.D).a ≠ 0) (he : (c.S.inv * c.D).e ≠ 0)
    (hV : c.variant = Variant.repaired)
    (hbuf : WF buf c.dstH c.dstW)
    (hsy : Chain 0 c.sy c.srcH) (hsx : Chain 0 c.sx c.srcW)
    (hdy : Chain 0 c.dy c.dstH) (hdx : Chain 0 c.dx c.dstW)
    (hS : c.S.det ≠ 0) (hvalid : DepsValid c)
    (hnd : c.dstNd = none → c.srcNd = none)
    (hnd1 : NodataOk c.kind c.dstNd) (hnd2 : NodataOk c.kind c.srcNd)
    (d : Int × Int) (hd : 0 ≤ d.1 ∧ d.1 < c.dstH ∧ 0 ≤ d.2 ∧ d.2 < c.dstW) :
    daskResult c G src d = wholeResult c G src buf d := by
  refine chunked_eq_whole_nn c G src buf hV hbuf hsy hsx hdy hdx hS hvalid ?_ hnd hnd1 hnd2 d hd
  refine deps_complete_of_linear c dst12 src12 hrel hs12 hsy hsx hb hd' ha he ?_
  intro iy ix l hiy hix hl i j hmem
  have hlook := lookup_depsOfC12 (C12.linearDeps dst12 src12 (c.S.inv * c.D)) iy ix l hl
    (C12.allTiles dst12) g hg
    (by
      intro t ht
      simp only [C12.allTiles, C12.mem_product, C12.mem_irange] at ht
      exact ⟨ht.1.1, ht.2.1⟩)
    (by
      simp only [C12.allTiles, C12.mem_product, C12.mem_irange, hrel.dy.count, hrel.dx.count]
      omega)
  rw [hdepsEq, hlook]
  exact List.mem_map.2 ⟨((i : Int), (j : Int)), hmem, by simp [idxToNat]⟩

/-! ### the translation hypotheses are satisfiable (witness configuration of Props/C13) -/

example : TilingRel (.var [2]) [(0, 2)] := by
  refine ⟨by decide, ?_⟩
  intro i s h
  cases i with
  | zero => simp at h; subst h; decide
  | succ k => simp at h

/-- C12's `gridIntersectLinear` on the witness grids (1×1 source, 1×2 destination, identity map)
yields exactly the witness dependency map -/
example : ∃ g, C12.gridIntersectLinear ⟨1, 2, ⟨.var [1], .var [2]⟩⟩ ⟨1, 1, ⟨.var [1], .var [1]⟩⟩
      (Aff.id.inv * Aff.id) = .ok g ∧
    depsOfC12 g = (cexCfg Variant.repaired .float none none).deps := by
  refine ⟨[((0, 0), [(0, 0)])], by decide +kernel, by decide⟩

/-! ## snapped transforms (`snap_affine` inside `_check_linear`) -/

theorem strict_point_quarter (a c u : Rat) (j : Int) (ha : a ≠ 0)
    (h1 : (j : Rat) ≤ a * u + c) (h2 : a * u + c < (j : Rat) + 1) :
    ∃ u', u - 1 / 4 ≤ u' ∧ u' ≤ u + 1 / 4 ∧ (j : Rat) < a * u' + c ∧ a * u' + c < (j : Rat) + 1 := by
  have ha2 : 0 < a * a := mul_self_pos.2 ha
  have hpos : (0 : Rat) < 1 + a * a := by linarith
  set k : Rat := 1 / (1 + a * a) with hk
  have hk0 : 0 < k := one_div_pos.2 hpos
  have hk1 : k * (1 + a * a) = 1 := by rw [hk]; field_simp
  set m : Rat := (j : Rat) + 1 / 2 - (a * u + c) with hm
  have hm1 : -(1 / 2) < m := by rw [hm]; linarith
  have hm2 : m ≤ 1 / 2 := by rw [hm]; linarith
  have hθ0 : 0 < a * a * k := mul_pos ha2 hk0
  have hθ1 : a * a * k < 1 := by nlinarith
  have hq1 : 4 * (a * m) ≤ 1 + a * a := by
    rcases le_total 0 a with h | h
    · nlinarith [mul_nonneg h (by linarith : (0 : Rat) ≤ 1 / 2 - m), sq_nonneg (a - 1)]
    · nlinarith [mul_nonneg (by linarith : (0 : Rat) ≤ -a) (by linarith : (0 : Rat) ≤ m + 1 / 2), sq_nonneg (a + 1)]
  have hq2 : -(1 + a * a) ≤ 4 * (a * m) := by
    rcases le_total 0 a with h | h
    · nlinarith [mul_nonneg h (by linarith : (0 : Rat) ≤ m + 1 / 2), sq_nonneg (a - 1)]
    · nlinarith [mul_nonneg (by linarith : (0 : Rat) ≤ -a) (by linarith : (0 : Rat) ≤ 1 / 2 - m), sq_nonneg (a + 1)]
  refine ⟨u + a * m * k, ?_, ?_, ?_, ?_⟩
  · have : -(1 / 4) ≤ a * m * k := by nlinarith
    linarith
  · have : a * m * k ≤ 1 / 4 := by nlinarith
    linarith
  · have e : a * (u + a * m * k) + c = (a * u + c) + (a * a * k) * m := by ring
    rw [e, hm]
    nlinarith
  · have e : a * (u + a * m * k) + c = (a * u + c) + (a * a * k) * m := by ring
    rw [e, hm]
    nlinarith

/-- **Completeness with a snapped transform.**  The real `_check_linear` computes the dependencies
with `A' = snap_affine(~S * D)` while GDAL samples with `A = ~S * D`.  If the snap keeps the scales
and moves the translation by at most a quarter of a DESTINATION pixel per axis
(`A'.c = A.c + A.a * qx`, `|qx| ≤ 1/4`, same for `y`), the dependency map computed with `A'`
is complete for sampling with `A`.  With `snap_affine`'s translation tolerance of 1e-3 SOURCE
pixels this covers every zoom-in factor up to 250 (`|A.a| ≥ 1/250`); beyond ~500× the
hypothesis — and the real code — fails: `extreme_zoom_snap_cex` (known finding K17). -/
theorem deps_complete_of_linear_snapped (c : Cfg) (dst src : C12.GBT) (hrel : GridRel c dst src)
    (hs : src.WF) (hsy : Chain 0 c.sy c.srcH) (hsx : Chain 0 c.sx c.srcW)
    (hb : (c.S.inv * c.D).b = 0) (hd : (c.S.inv * c.D).d = 0)
    (ha : (c.S.inv * c.D).a ≠ 0) (he : (c.S.inv * c.D).e ≠ 0)
    (A' : Aff) (hb' : A'.b = 0) (hd' : A'.d = 0)
    (hsa : A'.a = (c.S.inv * c.D).a) (hse : A'.e = (c.S.inv * c.D).e)
    (qx qy : Rat) (hc1 : A'.c = (c.S.inv * c.D).c + (c.S.inv * c.D).a * qx)
    (hc2 : A'.f = (c.S.inv * c.D).f + (c.S.inv * c.D).e * qy)
    (hqx : -(1 / 4) ≤ qx ∧ qx ≤ 1 / 4) (hqy : -(1 / 4) ≤ qy ∧ qy ≤ 1 / 4)
    (hdeps : ∀ (iy ix : Nat) (l : List (Int × Int)), iy < c.dy.length → ix < c.dx.length →
      C12.linearDeps dst src A' ((iy : Int), (ix : Int)) = .ok l →
      ∀ i j : Nat, ((i : Int), (j : Int)) ∈ l → (i, j) ∈ lookupDeps c.deps (iy, ix)) :
    deps_complete c := by
  rintro iy ix ⟨dy, dx⟩ ⟨ty, hty, t1, t2⟩ ⟨tx, htx, t3, t4⟩ s hs'
  simp only at t1 t2 t3 t4
  set A := c.S.inv * c.D with hA
  -- the sampled pixel
  unfold samplePix at hs'
  simp only [Aff.apply, hb, hd, zero_mul, add_zero, zero_add] at hs'
  split at hs'
  swap
  · simp at hs'
  next hin =>
  obtain ⟨p1, p2, p3, p4⟩ := hin
  simp only [Option.some.injEq] at hs'
  set px : Rat := A.a * ((dx : Rat) + 1 / 2) + A.c with hpx
  set py : Rat := A.e * ((dy : Rat) + 1 / 2) + A.f with hpy
  subst hs'
  -- the sampled pixel lies in the source image and under its floor
  have jy0 : 0 ≤ py.floor := Rat.le_floor_iff.2 (by exact_mod_cast p3)
  have jy1 : py.floor < c.srcH := Rat.floor_lt_iff.2 p4
  have jx0 : 0 ≤ px.floor := Rat.le_floor_iff.2 (by exact_mod_cast p1)
  have jx1 : px.floor < c.srcW := Rat.floor_lt_iff.2 p2
  have fy1 := Rat.floor_le py
  have fy2 := Rat.lt_floor_add_one py
  have fx1 := Rat.floor_le px
  have fx2 := Rat.lt_floor_add_one px
  push_cast at fy2 fx2
  -- the source tile holding it
  obtain ⟨i, hi⟩ := Chain.locate_some hsy jy0 jy1
  obtain ⟨j, hj⟩ := Chain.locate_some hsx jx0 jx1
  obtain ⟨sp, hsp, a1, a2⟩ := locate_spec hi
  obtain ⟨sq, hsq, a3, a4⟩ := locate_spec hj
  -- points of the destination tile mapping strictly inside the sampled pixel
  obtain ⟨u', u1, u2, u3, u4⟩ := strict_point_quarter A.a A.c ((dx : Rat) + 1 / 2) px.floor ha fx1 fx2
  obtain ⟨v', v1, v2, v3, v4⟩ := strict_point_quarter A.e A.f ((dy : Rat) + 1 / 2) py.floor he fy1 fy2
  have htb := pixBBox_of_rel c dst src hrel iy ix ty tx hty htx
  have hilt : i < c.sy.length := by
    rcases Nat.lt_or_ge i c.sy.length with h | h
    · exact h
    · rw [List.getElem?_eq_none h] at hsp; cases hsp
  have hjlt : j < c.sx.length := by
    rcases Nat.lt_or_ge j c.sx.length with h | h
    · exact h
    · rw [List.getElem?_eq_none h] at hsq; cases hsq
  have c1 : ((tx.1 : Int) : Rat) ≤ (dx : Rat) := by exact_mod_cast t3
  have c2 : (dx : Rat) + 1 ≤ ((tx.2 : Int) : Rat) := by exact_mod_cast (by omega : dx + 1 ≤ tx.2)
  have c3 : ((ty.1 : Int) : Rat) ≤ (dy : Rat) := by exact_mod_cast t1
  have c4 : (dy : Rat) + 1 ≤ ((ty.2 : Int) : Rat) := by exact_mod_cast (by omega : dy + 1 ≤ ty.2)
  have ex : A'.a * (u' - qx) + A'.c = A.a * u' + A.c := by rw [hsa, hc1]; ring
  have ey : A'.e * (v' - qy) + A'.f = A.e * v' + A.f := by rw [hse, hc2]; ring
  obtain ⟨l, hl, hmem⟩ := C12.linear_deps_complete dst src hs A' hb' hd' ((iy : Int), (ix : Int)) _ htb
    ((i : Int), (j : Int))
    ⟨by simp, by simp only [hrel.sy.count]; exact_mod_cast hilt⟩
    ⟨by simp, by simp only [hrel.sx.count]; exact_mod_cast hjlt⟩
    ⟨sp.1, sp.2⟩ ⟨sq.1, sq.2⟩ (hrel.sy.get i sp hsp) (hrel.sx.get j sq hsq)
    py.floor px.floor ⟨a1, a2⟩ ⟨a3, a4⟩ ⟨jy0, by rw [hrel.ny]; exact jy1⟩ ⟨jx0, by rw [hrel.nx]; exact jx1⟩
    (u' - qx) (v' - qy)
    ⟨by simp only; linarith [hqx.1, hqx.2], by simp only; linarith [hqx.1, hqx.2]⟩
    ⟨by simp only; linarith [hqy.1, hqy.2], by simp only; linarith [hqy.1, hqy.2]⟩
    ⟨by rw [ex]; exact u3, by rw [ex]; exact u4⟩ ⟨by rw [ey]; exact v3, by rw [ey]; exact v4⟩
  have hiy : iy < c.dy.length := by
    rcases Nat.lt_or_ge iy c.dy.length with h | h
    · exact h
    · rw [List.getElem?_eq_none h] at hty; cases hty
  have hix : ix < c.dx.length := by
    rcases Nat.lt_or_ge ix c.dx.length with h | h
    · exact h
    · rw [List.getElem?_eq_none h] at htx; cases htx
  exact ⟨(i, j), hdeps iy ix l hiy hix hl i j hmem, ⟨sp, hsp, a1, a2⟩, ⟨sq, hsq, a3, a4⟩⟩


/-! ### known finding K17: the 1e-3 translation snap at extreme zoom (witness replayed on the real
code by `harness/c13.py`, `zoom_stream`) -/

def k17S : Aff := ⟨2048, 0, 0, 0, 2048, 0⟩
def k17D : Aff := ⟨1, 0, 2049, 0, 1, 1024⟩
def k17src : C12.GBT := ⟨4, 4, ⟨.var [4], .var [2, 2]⟩⟩
def k17dst : C12.GBT := ⟨2, 2056, ⟨.reg 2 2, .reg 2056 2048⟩⟩
/-- `snap_affine(~S * D)`: the translation `2049/2048` (a shift of 2^-11 source pixels = one
destination pixel) has been rounded to `1` -/
def k17A' : Aff := ⟨1 / 2048, 0, 1, 0, 1 / 2048, 1 / 2⟩
def k17deps : List ((Int × Int) × List (Int × Int)) := [((0, 0), [(0, 0)]), ((0, 1), [(0, 1)])]

def k17Cfg : Cfg :=
  { variant := Variant.repaired, kind := .int, srcH := 4, srcW := 4, S := k17S, dstH := 2, dstW := 2056,
    D := k17D, sy := chunksTiling [4], sx := chunksTiling [2, 2], dy := regularTiling 2 2,
    dx := regularTiling 2056 2048, deps := depsOfC12 k17deps,
    srcNd := some (.num (-1)), dstNd := some (.num (-1)) }

/-- the C12 model of `_check_linear` (tolerances 1e-3, 1e-6, 1e-8, 1e-10) snaps the map … -/
theorem k17_checkLinear :
    C12.checkLinear k17S k17D (1 / 1000) (1 / 1000000) (1 / 100000000) (1 / 10000000000)
      = .ok (some k17A') := by
  decide +kernel

/-- … and `_grid_intersect_linear` with the snapped map wires destination chunk `(0, 0)` to source
chunk `(0, 0)` only. -/
theorem k17_gridIntersect : C12.gridIntersectLinear k17dst k17src k17A' = .ok k17deps := by
  decide +kernel

/-- **K17 (as found, not repaired).**  Zoom-in 2048×, grids misaligned by 2^-11 source pixels:
destination pixel `(0, 2047)` — the last one of chunk `(0, 0)` — samples source pixel `(0, 2)`,
which lies in source chunk `(0, 1)`; the dependency map computed from the snapped transform does
not list it, so the dask result holds the fill while the in-memory result holds the value, and
`deps_complete` is false.  (The snap moves the translation by a whole destination pixel, outside
the quarter-pixel hypothesis of `deps_complete_of_linear_snapped`.) -/
theorem extreme_zoom_snap_cex :
    samplePix (k17Cfg.S.inv * k17Cfg.D) 4 4 (0, 2047) = some (0, 2) ∧
    daskResult k17Cfg cexGdal (full 4 4 (.num 5)) (0, 2047) = some (.num (-1)) ∧
    wholeResult k17Cfg cexGdal (full 4 4 (.num 5)) (full 2 2056 (.num 77)) (0, 2047) = some (.num 5) ∧
    ¬ deps_complete k17Cfg := by
  refine ⟨by decide +kernel, by decide +kernel, by decide +kernel, ?_⟩
  intro h
  have hs : samplePix (k17Cfg.S.inv * k17Cfg.D) k17Cfg.srcH k17Cfg.srcW (0, 2047) = some (0, 2) := by
    decide +kernel
  obtain ⟨i, hi, _, ⟨sp, e1, e2, e3⟩⟩ := h 0 0 (0, 2047)
    ⟨(0, 2), by decide +kernel, by decide, by decide⟩
    ⟨(0, 2048), by decide +kernel, by decide, by decide⟩ (0, 2) hs
  have hl : lookupDeps k17Cfg.deps (0, 0) = [(0, 0)] := by decide +kernel
  rw [hl] at hi
  simp only [List.mem_singleton] at hi
  subst hi
  have : k17Cfg.sx[((0, 0) : TIdx).2]? = some (0, 2) := by decide +kernel
  rw [this] at e1
  cases e1
  simp at e3

/-! ## `_check_linear`: which relative transforms take the linear path -/

/-- **`_check_linear` rejects shear and rotation.**  If EITHER off-diagonal term of the relative
pixel map `~S * D` exceeds `snap_affine`'s rotation tolerance (`tol`, 1e-8), `snap_affine` returns
the map untouched and `_check_linear` answers `None` — `grid_intersect` then takes the general
(footprint) path; a pure shear (exactly one non-zero off-diagonal term) is never treated as
scale + translation.  (`sttol ≤ tol`: 1e-10 ≤ 1e-8 in the code.) -/
theorem check_linear_rejects_shear (srcT dstT : Aff) (ttol stol tol sttol : Rat)
    (hdet : srcT.det ≠ 0) (hst : sttol ≤ tol)
    (hsh : C12.rabs (srcT.inv * dstT).b > tol ∨ C12.rabs (srcT.inv * dstT).d > tol) :
    C12.checkLinear srcT dstT ttol stol tol sttol = .ok none := by
  have hinv : srcT.inv? = .ok srcT.inv := by simp [Aff.inv?, hdet]
  simp only [C12.checkLinear, hinv, bind, Except.bind, pure, Except.pure, C12.snapAffine, if_pos hsh]
  rw [if_neg]
  rintro ⟨h1, h2⟩
  rcases hsh with h | h <;> linarith

/-- conversely: whenever `_check_linear` accepts, BOTH off-diagonal terms of `~S * D` are within
the tolerance and the returned map has none at all -/
theorem check_linear_accepts_only_st (srcT dstT : Aff) (ttol stol tol sttol : Rat) (A : Aff)
    (hdet : srcT.det ≠ 0) (hst : sttol ≤ tol)
    (h : C12.checkLinear srcT dstT ttol stol tol sttol = .ok (some A)) :
    C12.rabs (srcT.inv * dstT).b ≤ tol ∧ C12.rabs (srcT.inv * dstT).d ≤ tol ∧ A.b = 0 ∧ A.d = 0 := by
  by_cases hsh : C12.rabs (srcT.inv * dstT).b > tol ∨ C12.rabs (srcT.inv * dstT).d > tol
  · rw [check_linear_rejects_shear srcT dstT ttol stol tol sttol hdet hst hsh] at h
    cases h
  · have hb : C12.rabs (srcT.inv * dstT).b ≤ tol := by
      by_contra hc; exact hsh (Or.inl (lt_of_not_ge hc))
    have hd : C12.rabs (srcT.inv * dstT).d ≤ tol := by
      by_contra hc; exact hsh (Or.inr (lt_of_not_ge hc))
    have hinv : srcT.inv? = .ok srcT.inv := by simp [Aff.inv?, hdet]
    simp only [C12.checkLinear, hinv, bind, Except.bind, pure, Except.pure, C12.snapAffine, if_neg hsh] at h
    split at h
    · simp only [Except.ok.injEq, Option.some.injEq] at h
      subst h
      exact ⟨hb, hd, rfl, rfl⟩
    · cases h

/-- a pure shear of a quarter pixel per row (`~S * D = ⟨1, 1/4, 0, 0, 1, 0⟩`, exactly one non-zero
off-diagonal term) is rejected with the real tolerances -/
example : C12.checkLinear Aff.id ⟨1, 1 / 4, 0, 0, 1, 0⟩ (1 / 1000) (1 / 1000000) (1 / 100000000)
    (1 / 10000000000) = .ok none := by
  decide +kernel

/-! ## the identity corner -/

theorem floor_add_half (x : Int) : ((x : Rat) + 1 / 2).floor = x := by
  apply Int.le_antisymm
  · have : ((x : Rat) + 1 / 2).floor < x + 1 := Rat.floor_lt_iff.2 (by push_cast; linarith)
    omega
  · exact Rat.le_floor_iff.2 (by linarith)

/-- on the identity grid every destination pixel samples the source pixel with the same index -/
theorem samplePix_identity (S : Aff) (hS : S.det ≠ 0) (H W : Int) (d : Int × Int)
    (hd : 0 ≤ d.1 ∧ d.1 < H ∧ 0 ≤ d.2 ∧ d.2 < W) :
    samplePix (S.inv * S) H W d = some d := by
  obtain ⟨h1, h2, h3, h4⟩ := hd
  have e1 : (0 : Rat) ≤ (d.1 : Rat) := by exact_mod_cast h1
  have e2 : (d.1 : Rat) + 1 ≤ (H : Rat) := by exact_mod_cast (by omega : d.1 + 1 ≤ H)
  have e3 : (0 : Rat) ≤ (d.2 : Rat) := by exact_mod_cast h3
  have e4 : (d.2 : Rat) + 1 ≤ (W : Rat) := by exact_mod_cast (by omega : d.2 + 1 ≤ W)
  unfold samplePix
  rw [Aff.inv_mul_self S hS, Aff.apply_id]
  simp only []
  rw [if_pos ⟨by linarith, by linarith, by linarith, by linarith⟩, floor_add_half, floor_add_half]

/-- **The identity corner is not a no-op.**  Destination grid == source grid (`D = S`, same shape),
any chunkings, any complete dependency map: a pixel holding the source nodata comes out as
`resolve_fill_value(dst_nodata, src_nodata, dtype)` — i.e. as the DESTINATION nodata when one
is given — in the dask result (and, by `chunked_eq_whole_nn`, in the in-memory result): returning
the source array unchanged would be wrong whenever `dst_nodata ≠ src_nodata`. -/
theorem identity_grid_remarks_nodata (c : Cfg) (G : Gdal) (src buf : Img)
    (hD : c.D = c.S) (hH : c.dstH = c.srcH) (hW : c.dstW = c.srcW)
    (hV : c.variant = Variant.repaired)
    (hbuf : WF buf c.dstH c.dstW)
    (hsy : Chain 0 c.sy c.srcH) (hsx : Chain 0 c.sx c.srcW)
    (hdy : Chain 0 c.dy c.dstH) (hdx : Chain 0 c.dx c.dstW)
    (hS : c.S.det ≠ 0)
    (hvalid : DepsValid c) (hcomplete : deps_complete c)
    (hnd : c.dstNd = none → c.srcNd = none)
    (hnd1 : NodataOk c.kind c.dstNd) (hnd2 : NodataOk c.kind c.srcNd)
    (d : Int × Int) (hd : 0 ≤ d.1 ∧ d.1 < c.dstH ∧ 0 ≤ d.2 ∧ d.2 < c.dstW)
    (v : Val) (hv : src d = some v) (hsn : c.srcNd = some v) :
    daskResult c G src d = some (resolveFill c.dstNd c.srcNd c.kind) ∧
    wholeResult c G src buf d = some (resolveFill c.dstNd c.srcNd c.kind) := by
  have heq := chunked_eq_whole_nn c G src buf hV hbuf hsy hsx hdy hdx hS hvalid hcomplete hnd hnd1 hnd2 d hd
  have hw : wholeResult c G src buf d = some (resolveFill c.dstNd c.srcNd c.kind) := by
    unfold wholeResult rioReproject
    rw [rioPlane_eq _ _ _ _ _ _ _ _ _ _ _ _ ((hbuf d).2 hd), hD,
      samplePix_identity c.S hS c.srcH c.srcW d (by rw [← hH, ← hW]; exact hd), hV]
    have hfill := chunk_fill_eq c.kind c.srcNd c.dstNd hnd1 hnd2
    rw [chunkDstNodata_eq_rio c.kind c.srcNd c.dstNd hnd] at hfill
    have henc : encNodata Variant.repaired c.kind c.srcNd = some (encVal c.kind v) := by
      rw [hsn]
      cases c.kind <;> simp [encNodata, encVal, Variant.repaired]
    rw [henc] at hfill
    simp only [outPix, encImg, hv, Option.map_some, henc, if_true, hfill]
  exact ⟨heq.trans hw, hw⟩

/-! ## snapped scale: accumulated drift over the raster -/

/-- **Completeness under drift (snapped scale AND translation).**  Dependencies computed with any
scale + translation map `A'` are complete for sampling with `A = ~S * D` as long as, everywhere
on the destination raster, `A'` reaches the image of a point from a point at most a quarter of a
destination pixel away: `∀ u ∈ [0, dstW] ∃ q, |q| ≤ 1/4 ∧ A'(u + q) = A(u)` (same in `y`).
`drift_witness` turns the numeric bound `|a - a'|·dstW + |c - c'| ≤ |a'|/4` into this. -/
theorem deps_complete_of_linear_drift (c : Cfg) (dst src : C12.GBT) (hrel : GridRel c dst src)
    (hs : src.WF) (hsy : Chain 0 c.sy c.srcH) (hsx : Chain 0 c.sx c.srcW)
    (hb : (c.S.inv * c.D).b = 0) (hd : (c.S.inv * c.D).d = 0)
    (ha : (c.S.inv * c.D).a ≠ 0) (he : (c.S.inv * c.D).e ≠ 0)
    (A' : Aff) (hb' : A'.b = 0) (hd' : A'.d = 0)
    (hdy : Chain 0 c.dy c.dstH) (hdx : Chain 0 c.dx c.dstW)
    (hqx : ∀ u : Rat, 0 ≤ u → u ≤ c.dstW → ∃ q, -(1 / 4) ≤ q ∧ q ≤ 1 / 4 ∧
      A'.a * (u + q) + A'.c = (c.S.inv * c.D).a * u + (c.S.inv * c.D).c)
    (hqy : ∀ v : Rat, 0 ≤ v → v ≤ c.dstH → ∃ q, -(1 / 4) ≤ q ∧ q ≤ 1 / 4 ∧
      A'.e * (v + q) + A'.f = (c.S.inv * c.D).e * v + (c.S.inv * c.D).f)
    (hdeps : ∀ (iy ix : Nat) (l : List (Int × Int)), iy < c.dy.length → ix < c.dx.length →
      C12.linearDeps dst src A' ((iy : Int), (ix : Int)) = .ok l →
      ∀ i j : Nat, ((i : Int), (j : Int)) ∈ l → (i, j) ∈ lookupDeps c.deps (iy, ix)) :
    deps_complete c := by
  rintro iy ix ⟨dy, dx⟩ ⟨ty, hty, t1, t2⟩ ⟨tx, htx, t3, t4⟩ s hs'
  simp only at t1 t2 t3 t4
  set A := c.S.inv * c.D with hA
  -- the sampled pixel
  unfold samplePix at hs'
  simp only [Aff.apply, hb, hd, zero_mul, add_zero, zero_add] at hs'
  split at hs'
  swap
  · simp at hs'
  next hin =>
  obtain ⟨p1, p2, p3, p4⟩ := hin
  simp only [Option.some.injEq] at hs'
  set px : Rat := A.a * ((dx : Rat) + 1 / 2) + A.c with hpx
  set py : Rat := A.e * ((dy : Rat) + 1 / 2) + A.f with hpy
  subst hs'
  -- the sampled pixel lies in the source image and under its floor
  have jy0 : 0 ≤ py.floor := Rat.le_floor_iff.2 (by exact_mod_cast p3)
  have jy1 : py.floor < c.srcH := Rat.floor_lt_iff.2 p4
  have jx0 : 0 ≤ px.floor := Rat.le_floor_iff.2 (by exact_mod_cast p1)
  have jx1 : px.floor < c.srcW := Rat.floor_lt_iff.2 p2
  have fy1 := Rat.floor_le py
  have fy2 := Rat.lt_floor_add_one py
  have fx1 := Rat.floor_le px
  have fx2 := Rat.lt_floor_add_one px
  push_cast at fy2 fx2
  -- the source tile holding it
  obtain ⟨i, hi⟩ := Chain.locate_some hsy jy0 jy1
  obtain ⟨j, hj⟩ := Chain.locate_some hsx jx0 jx1
  obtain ⟨sp, hsp, a1, a2⟩ := locate_spec hi
  obtain ⟨sq, hsq, a3, a4⟩ := locate_spec hj
  -- points of the destination tile mapping strictly inside the sampled pixel
  obtain ⟨u', u1, u2, u3, u4⟩ := strict_point_quarter A.a A.c ((dx : Rat) + 1 / 2) px.floor ha fx1 fx2
  obtain ⟨v', v1, v2, v3, v4⟩ := strict_point_quarter A.e A.f ((dy : Rat) + 1 / 2) py.floor he fy1 fy2
  have htb := pixBBox_of_rel c dst src hrel iy ix ty tx hty htx
  have hilt : i < c.sy.length := by
    rcases Nat.lt_or_ge i c.sy.length with h | h
    · exact h
    · rw [List.getElem?_eq_none h] at hsp; cases hsp
  have hjlt : j < c.sx.length := by
    rcases Nat.lt_or_ge j c.sx.length with h | h
    · exact h
    · rw [List.getElem?_eq_none h] at hsq; cases hsq
  have c1 : ((tx.1 : Int) : Rat) ≤ (dx : Rat) := by exact_mod_cast t3
  have c2 : (dx : Rat) + 1 ≤ ((tx.2 : Int) : Rat) := by exact_mod_cast (by omega : dx + 1 ≤ tx.2)
  have c3 : ((ty.1 : Int) : Rat) ≤ (dy : Rat) := by exact_mod_cast t1
  have c4 : (dy : Rat) + 1 ≤ ((ty.2 : Int) : Rat) := by exact_mod_cast (by omega : dy + 1 ≤ ty.2)
  have gx := Chain.get hdx htx
  have gy := Chain.get hdy hty
  have g1 : (0 : Rat) ≤ ((tx.1 : Int) : Rat) := by exact_mod_cast gx.1
  have g2 : ((tx.2 : Int) : Rat) ≤ (c.dstW : Rat) := by exact_mod_cast gx.2.2
  have g3 : (0 : Rat) ≤ ((ty.1 : Int) : Rat) := by exact_mod_cast gy.1
  have g4 : ((ty.2 : Int) : Rat) ≤ (c.dstH : Rat) := by exact_mod_cast gy.2.2
  obtain ⟨qx, qx1, qx2, ex⟩ := hqx u' (by linarith) (by linarith)
  obtain ⟨qy, qy1, qy2, ey⟩ := hqy v' (by linarith) (by linarith)
  obtain ⟨l, hl, hmem⟩ := C12.linear_deps_complete dst src hs A' hb' hd' ((iy : Int), (ix : Int)) _ htb
    ((i : Int), (j : Int))
    ⟨by simp, by simp only [hrel.sy.count]; exact_mod_cast hilt⟩
    ⟨by simp, by simp only [hrel.sx.count]; exact_mod_cast hjlt⟩
    ⟨sp.1, sp.2⟩ ⟨sq.1, sq.2⟩ (hrel.sy.get i sp hsp) (hrel.sx.get j sq hsq)
    py.floor px.floor ⟨a1, a2⟩ ⟨a3, a4⟩ ⟨jy0, by rw [hrel.ny]; exact jy1⟩ ⟨jx0, by rw [hrel.nx]; exact jx1⟩
    (u' + qx) (v' + qy)
    ⟨by simp only; linarith, by simp only; linarith⟩
    ⟨by simp only; linarith, by simp only; linarith⟩
    ⟨by rw [ex]; exact u3, by rw [ex]; exact u4⟩ ⟨by rw [ey]; exact v3, by rw [ey]; exact v4⟩
  have hiy : iy < c.dy.length := by
    rcases Nat.lt_or_ge iy c.dy.length with h | h
    · exact h
    · rw [List.getElem?_eq_none h] at hty; cases hty
  have hix : ix < c.dx.length := by
    rcases Nat.lt_or_ge ix c.dx.length with h | h
    · exact h
    · rw [List.getElem?_eq_none h] at htx; cases htx
  exact ⟨(i, j), hdeps iy ix l hiy hix hl i j hmem, ⟨sp, hsp, a1, a2⟩, ⟨sq, hsq, a3, a4⟩⟩



/-- the accumulated drift of a snapped axis map `u ↦ a'u + c'` against the true `u ↦ au + c` over
a raster of `W` destination pixels: if `|a - a'|·W + |c - c'| ≤ |a'|/4` then every image point
is reached from within a quarter of a destination pixel -/
theorem drift_witness (a a' c c' W : Rat) (ha' : a' ≠ 0)
    (hbound : |a - a'| * W + |c - c'| ≤ |a'| / 4) :
    ∀ u : Rat, 0 ≤ u → u ≤ W → ∃ q, -(1 / 4) ≤ q ∧ q ≤ 1 / 4 ∧ a' * (u + q) + c' = a * u + c := by
  intro u hu0 huW
  have hpos : 0 < |a'| := abs_pos.2 ha'
  have hnum : |(a - a') * u + (c - c')| ≤ |a'| / 4 := by
    calc |(a - a') * u + (c - c')| ≤ |(a - a') * u| + |c - c'| := abs_add_le _ _
      _ = |a - a'| * u + |c - c'| := by rw [abs_mul, abs_of_nonneg hu0]
      _ ≤ |a - a'| * W + |c - c'| := by
          have := mul_le_mul_of_nonneg_left huW (abs_nonneg (a - a'))
          linarith
      _ ≤ |a'| / 4 := hbound
  have hq : |((a - a') * u + (c - c')) / a'| ≤ 1 / 4 := by
    rw [abs_div, div_le_iff₀ hpos]
    linarith
  obtain ⟨q1, q2⟩ := abs_le.1 hq
  refine ⟨((a - a') * u + (c - c')) / a', q1, q2, ?_⟩
  field_simp
  ring

/-- **Snapped scale and translation, numeric form** (the statement asked for in terms of the raster
shape and the tolerances): if per axis `|a - a'|·(destination size) + |c - c'| ≤ |a'|/4`, the
dependency map computed with the snapped `A'` is complete.  With `snap_affine`'s tolerances
(`|a - a'| < 1e-6` absolute for `|a| ≥ 1`, `|c - c'| < 1e-3`) and unit scale this holds for every
raster of up to 249 000 destination pixels per side; `scale_snap_cex` (K23) shows it failing, on
the model and on the real code, at 2^21 pixels. -/
theorem deps_complete_of_linear_tol (c : Cfg) (dst src : C12.GBT) (hrel : GridRel c dst src)
    (hs : src.WF) (hsy : Chain 0 c.sy c.srcH) (hsx : Chain 0 c.sx c.srcW)
    (hb : (c.S.inv * c.D).b = 0) (hd : (c.S.inv * c.D).d = 0)
    (ha : (c.S.inv * c.D).a ≠ 0) (he : (c.S.inv * c.D).e ≠ 0)
    (A' : Aff) (hb' : A'.b = 0) (hd' : A'.d = 0) (ha' : A'.a ≠ 0) (he' : A'.e ≠ 0)
    (hdy : Chain 0 c.dy c.dstH) (hdx : Chain 0 c.dx c.dstW)
    (hx : |(c.S.inv * c.D).a - A'.a| * (c.dstW : Rat) + |(c.S.inv * c.D).c - A'.c| ≤ |A'.a| / 4)
    (hy : |(c.S.inv * c.D).e - A'.e| * (c.dstH : Rat) + |(c.S.inv * c.D).f - A'.f| ≤ |A'.e| / 4)
    (hdeps : ∀ (iy ix : Nat) (l : List (Int × Int)), iy < c.dy.length → ix < c.dx.length →
      C12.linearDeps dst src A' ((iy : Int), (ix : Int)) = .ok l →
      ∀ i j : Nat, ((i : Int), (j : Int)) ∈ l → (i, j) ∈ lookupDeps c.deps (iy, ix)) :
    deps_complete c :=
  deps_complete_of_linear_drift c dst src hrel hs hsy hsx hb hd ha he A' hb' hd' hdy hdx
    (drift_witness _ _ _ _ _ ha' hx) (drift_witness _ _ _ _ _ he' hy) hdeps

/-! ### known finding K23: the 1e-6 scale snap on a huge raster (witness replayed on the real code by
`harness/c13.py`, `scale_snap_probe`) -/

def k23S : Aff := Aff.id
/-- destination pixels larger than the source pixels by 2^-21 (4.8e-7 < `stol`) -/
def k23D : Aff := ⟨1 + 1 / 2097152, 0, 0, 0, 1, 0⟩
def k23src : C12.GBT := ⟨1, 2097152 + 16, ⟨.var [1], .var [2097152, 16]⟩⟩
def k23dst : C12.GBT := ⟨1, 2097152 + 8, ⟨.reg 1 1, .reg (2097152 + 8) 2097152⟩⟩
def k23deps : List ((Int × Int) × List (Int × Int)) := [((0, 0), [(0, 0)]), ((0, 1), [(0, 1)])]

def k23Cfg : Cfg :=
  { variant := Variant.repaired, kind := .int, srcH := 1, srcW := 2097152 + 16, S := k23S, dstH := 1,
    dstW := 2097152 + 8, D := k23D, sy := chunksTiling [1], sx := chunksTiling [2097152, 16],
    dy := regularTiling 1 1, dx := [(0, 2097152), (2097152, 2097152 + 8)], deps := depsOfC12 k23deps,
    srcNd := some (.num (-1)), dstNd := some (.num (-1)) }

/-- `_check_linear` snaps the scale `1 + 2^-21` to `1` … -/
theorem k23_checkLinear :
    C12.checkLinear k23S k23D (1 / 1000) (1 / 1000000) (1 / 100000000) (1 / 10000000000)
      = .ok (some Aff.id) := by
  decide +kernel

/-- … and `_grid_intersect_linear` with the snapped map wires destination chunk `(0, 0)` (columns
`0 … 2^21 - 1`) to source chunk `(0, 0)` only. -/
theorem k23_gridIntersect : C12.gridIntersectLinear k23dst k23src Aff.id = .ok k23deps := by
  decide +kernel

/-- **K23 (as found).**  The last pixel of destination chunk `(0, 0)`, column `2^21 - 1`, has drifted
by `(2^21 - 1/2)·2^-21 ≈ 1` pixel: it samples source column `2^21`, which lies in source chunk
`(0, 1)`; the dependency map from the snapped transform does not list it: fill in the dask result,
data in the in-memory result, `deps_complete` false.  (`|a - a'|·dstW = 1 > 1/4`: outside the
hypothesis of `deps_complete_of_linear_tol`.) -/
theorem scale_snap_cex :
    samplePix (k23Cfg.S.inv * k23Cfg.D) 1 (2097152 + 16) (0, 2097151) = some (0, 2097152) ∧
    daskResult k23Cfg cexGdal (full 1 (2097152 + 16) (.num 5)) (0, 2097151) = some (.num (-1)) ∧
    wholeResult k23Cfg cexGdal (full 1 (2097152 + 16) (.num 5)) (full 1 (2097152 + 8) (.num 77))
      (0, 2097151) = some (.num 5) := by
  refine ⟨by decide +kernel, by decide +kernel, by decide +kernel⟩


end OdcGeo.C13
