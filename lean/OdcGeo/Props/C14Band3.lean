/-
C14 — bounding-box queries under binary64 with an explicit exclusion band (no representability hypothesis):
if the four probe coordinates `left+tol`, `bottom+tol`, `right−tol`, `top−tol` of `idx_bounds` keep clear of the tile edges by the
explicit margins of `OutsideBand`, the binary64 model returns exactly the index range and the tile list of the exact model — so
`bbox_query_exact` describes what the rounded query returns.  Reuses `fl64_rounding_error` / `bin_transfer_band_fl64`.
-/
import OdcGeo.Props.C14Band2
import OdcGeo.Lemmas.C14Band3

namespace OdcGeo.C14

/-- 1-D: a probe outside the band is looked up, after BOTH roundings (of the coordinate and inside `bin`), as the exact bin -/
theorem probe_band_fl64 {sz o : Rat} {d : Int} {b : Bin1D} (hb : Bin1D.new sz o d = .ok b) (p : Rat)
    (h : OutsideBand b p) : b.bin fl64 (fl64 p) = b.bin id p := by
  obtain ⟨⟨a1, a2⟩, c1, c2⟩ := h
  obtain ⟨_, w⟩ := Bin1D.new_ok hb
  have hs := w.sz_pos
  rw [(bin_transfer_band_fl64 hb (fl64 p) c1 c2).1]
  -- the exact lookup of the rounded coordinate is the exact lookup of the coordinate
  have herr := fl64_rounding_error p
  have he : |(fl64 p - b.origin) / b.sz - (p - b.origin) / b.sz| ≤ (1 / 2 ^ 53 * |p| + pow2 (-1074) / 2) / b.sz := by
    rw [← sub_div, abs_div, abs_of_pos hs, show fl64 p - b.origin - (p - b.origin) = fl64 p - p by ring]
    exact div_le_div_of_nonneg_right herr hs.le
  have hq : ((fl64 p - b.origin) / b.sz).floor = ((p - b.origin) / b.sz).floor := by
    rw [floor_eq_iff']
    have := abs_le.mp he
    constructor <;> linarith [this.1, this.2]
  unfold Bin1D.bin
  simp only [id]
  rw [hq]

section
variable {ny nx : Int} {rx ry ox oy : Rat} {fx fy : Bool} {g : GridSpec}

/-- 2-D, BINARY64, UNCONDITIONAL outside the band: `idx_bounds` and `tiles` of the rounded model equal those of the exact model, and
    therefore the rounded bounding-box query returns exactly the tiles overlapping the query shrunk by the tolerance. -/
theorem idx_bounds_band_fl64 (hg : GridSpec.new id ny nx rx ry ox oy fx fy = .ok g) (tol : Rat) (q : BBox)
    (h1 : OutsideBand g.xbin (q.left + tol)) (h2 : OutsideBand g.ybin (q.bottom + tol))
    (h3 : OutsideBand g.xbin (q.right - tol)) (h4 : OutsideBand g.ybin (q.top - tol)) :
    g.idxBounds fl64 tol q = g.idxBounds id tol q ∧ g.tiles fl64 tol q = g.tiles id tol q ∧
    (q.left + tol ≤ q.right - tol → q.bottom + tol ≤ q.top - tol → ∀ k : Int × Int,
      k ∈ g.tiles fl64 tol q ↔
        ∃ p : Rat × Rat, q.left + tol ≤ p.1 ∧ p.1 ≤ q.right - tol ∧ q.bottom + tol ≤ p.2 ∧ p.2 ≤ q.top - tol ∧
          (g.footprint k).memHalfOpen p) := by
  obtain ⟨_, w⟩ := GridSpec.new_ok hg
  have bx := Bin1D.new_of_wf g.xbin w.x
  have by' := Bin1D.new_of_wf g.ybin w.y
  have e1 := probe_band_fl64 bx _ h1
  have e2 := probe_band_fl64 by' _ h2
  have e3 := probe_band_fl64 bx _ h3
  have e4 := probe_band_fl64 by' _ h4
  have hb : g.idxBounds fl64 tol q = g.idxBounds id tol q := by
    unfold GridSpec.idxBounds GridSpec.pt2idx
    simp only [id, e1, e2, e3, e4]
  have ht : g.tiles fl64 tol q = g.tiles id tol q := by
    unfold GridSpec.tiles; rw [hb]
  refine ⟨hb, ht, fun hx hy k => ?_⟩
  rw [ht]
  exact bbox_query_exact hg tol q hx hy k

end

/-- non-vacuity: the probe at the centre of a DEA tile (96 km tiles from -4416000) is outside the band -/
example : OutsideBand ⟨96000, -4416000, 1⟩ (-816000) := by
  have hf : fl64 (-816000) = -816000 := by
    have := fl64_int (-816000) (by decide); push_cast at this; exact this
  have hp : pow2 (-1074) ≤ 1 / 2 ^ 53 := by
    rw [pow2_eq_zpow]
    have : (2 : Rat) ^ (-1074 : Int) ≤ (2 : Rat) ^ (-53 : Int) := zpow_le_zpow_right₀ (by norm_num) (by norm_num)
    simpa [zpow_neg] using this
  have p0 := pow2_pos (-1074)
  have hfl : (((-816000 : Rat) - -4416000) / 96000).floor = 37 := by decide +kernel
  unfold OutsideBand
  simp only [hf, hfl]
  have h2 : |(((-816000 : Rat) - -4416000) / 96000)| = 75 / 2 := by rw [abs_of_pos (by norm_num)]; norm_num
  have h3 : |(-816000 : Rat)| = 816000 := by rw [abs_of_neg (by norm_num)]; norm_num
  rw [h2, h3]
  have c : (1 + 1 / 2 ^ 53) / 96000 + 1 ≤ (2 : Rat) := by norm_num
  refine ⟨⟨?_, ?_⟩, ?_, ?_⟩
  · rw [div_le_iff₀ (by norm_num)]; norm_num; nlinarith
  · rw [div_lt_iff₀ (by norm_num)]; norm_num; nlinarith
  · norm_num; nlinarith
  · norm_num; nlinarith

end OdcGeo.C14
