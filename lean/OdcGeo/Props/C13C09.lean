/-
C13 × C09 — `xr_reproject(Dataset)`: the pixel side (Model/C13Glue.xrReprojectDs) and the registration side
(C09.assembleDs, imported read-only) map over the SAME variables: both keep every data variable under its name at its
position, and a variable passes through on the registration side exactly in the case (`recover = nothing`: no geobox) in
which the pixel side treats it as `plain`.
-/
import OdcGeo.Props.C13GlueDs
import OdcGeo.Model.C09

namespace OdcGeo.C13
open OdcGeo

private theorem res_mapM_names {α β : Type} (f : α → Res β) (na : α → String) (nb : β → String)
    (hf : ∀ x y, f x = .ok y → nb y = na x) :
    ∀ (l : List α) (g : List β), l.mapM f = .ok g → g.map nb = l.map na
  | [], g, h => by
    simp only [List.mapM_nil, pure, Except.pure, Except.ok.injEq] at h
    subst h
    rfl
  | a :: as, g, h => by
    rw [List.mapM_cons] at h
    cases hfa : f a with
    | error e => rw [hfa] at h; simp [bind, Except.bind] at h
    | ok b =>
      rw [hfa] at h
      cases hr : as.mapM f with
      | error e => rw [hr] at h; simp [bind, Except.bind] at h
      | ok g' =>
        rw [hr] at h
        simp only [bind, Except.bind, pure, Except.pure, Except.ok.injEq] at h
        subst h
        simp only [List.map_cons, hf a b hfa, res_mapM_names f na nb hf as g' hr]

/-- the registration side keeps the name of each variable -/
theorem c09_reprojectVar_name (dst : C09.GeoBox) (nv : String × C09.XArr) (o : String × C09.XArr)
    (h : C09.reprojectVar dst nv = .ok o) : o.1 = nv.1 := by
  unfold C09.reprojectVar at h
  split at h
  · cases h
  · simp only [Except.ok.injEq] at h
    rw [← h]
  · cases ha : C09.assemble nv.2 dst false with
    | error e => rw [ha] at h; simp [Except.map] at h
    | ok x =>
      rw [ha] at h
      simp only [Except.map, Except.ok.injEq] at h
      rw [← h]

/-- **Both halves of `xr_reproject(Dataset)` return the same variables in the same order**: the registration side
(C09 `assembleDs`: dims / coords / attrs of each output variable) and the pixel side (`xrReprojectDs`) keep the names and
positions of the input's data variables — so variable `i` of the C09 result describes the array that `ds_var_eq_da`
gives for variable `i`. -/
theorem ds_both_sides_same_variables (attrs : List String) (vars : List (String × C09.XArr)) (dst : C09.GeoBox)
    (as : List String) (reg : List (String × C09.XArr)) (hreg : C09.assembleDs attrs vars dst = .ok (as, reg))
    (sh : DsShared) (G : Gdal) (deps : List Nat → List Nat → List (TIdx × List TIdx))
    (ds : List (String × DsVar)) (hsame : ds.map (·.1) = vars.map (·.1))
    (out : List (String × Img)) (hpix : xrReprojectDs sh G deps ds = .ok out) :
    out.map (·.1) = reg.map (·.1) := by
  rw [ds_names_kept sh G deps ds out hpix, hsame]
  unfold C09.assembleDs at hreg
  cases hm : vars.mapM (C09.reprojectVar dst) with
  | error e => rw [hm] at hreg; simp [bind, Except.bind] at hreg
  | ok o =>
    rw [hm] at hreg
    simp only [bind, Except.bind, pure, Except.pure, Except.ok.injEq, Prod.mk.injEq] at hreg
    obtain ⟨_, rfl⟩ := hreg
    exact (res_mapM_names (C09.reprojectVar dst) (·.1) (·.1) (c09_reprojectVar_name dst) vars o hm).symm

/-- non-vacuity: a Dataset with one plain variable `m(t)`, on both sides -/
example (dst : C09.GeoBox) (sh : DsShared) (d : Img) :
    ∃ as reg out, C09.assembleDs ["crs"] [("m", ⟨["t"], [], none, []⟩)] dst = .ok (as, reg) ∧
      xrReprojectDs sh cexGdal (fun _ _ => []) [("m", .plain d)] = .ok out ∧ out.map (·.1) = reg.map (·.1) := by
  have h1 : ∃ as reg, C09.assembleDs ["crs"] [("m", ⟨["t"], [], none, []⟩)] dst = .ok (as, reg) := ⟨_, _, rfl⟩
  obtain ⟨as, reg, h1⟩ := h1
  have h2 : ∃ out, xrReprojectDs sh cexGdal (fun _ _ => []) [("m", .plain d)] = .ok out := ⟨_, rfl⟩
  obtain ⟨out, h2⟩ := h2
  exact ⟨as, reg, out, h1, h2, ds_both_sides_same_variables _ _ dst as reg h1 sh cexGdal _ _ rfl out h2⟩

end OdcGeo.C13
