/- C13 — every keyword that reaches the whole-array warp reaches the chunk tasks. -/
import OdcGeo.Model.C13Kw
namespace OdcGeo.C13

/-- **Chunk tasks carry the resampling** (and the nodata pair, the axis and every extra keyword):
whatever `_dask_rio_reproject` is called with, each chunk task is bound to exactly that resampling
mode, those nodata values, `axis = ydim` and all `**kwargs` except `name`. -/
theorem chunk_tasks_carry_resampling (r : String) (sn dn : Option Val) (ydim : Nat)
    (kw : List (String × String)) (k : WarpKw) (h : chunkTaskKw r sn dn ydim kw = .ok k) :
    k.resampling = r.toLower ∧ k.srcNd = sn ∧ k.dstNd = dn ∧ k.axis = ydim ∧
      ∀ p ∈ kw, p.1 ≠ "name" → p ∈ k.extra := by
  unfold chunkTaskKw resamplingS2rio at h
  split at h
  · simp only [bind, Except.bind, pure, Except.pure, Except.ok.injEq] at h
    subst h
    refine ⟨rfl, rfl, rfl, rfl, ?_⟩
    intro p hp hn
    simp [List.mem_filter, hp, hn]
  · simp [bind, Except.bind] at h

/-- the chunked and the in-memory path agree on every value-affecting keyword, and reject the same
resampling names -/
theorem chunk_kw_eq_whole (r : String) (sn dn : Option Val) (ydim : Nat) (kw : List (String × String))
    (hname : ∀ p ∈ kw, p.1 ≠ "name") :
    chunkTaskKw r sn dn ydim kw = wholeKw r sn dn ydim kw := by
  unfold chunkTaskKw wholeKw
  have : kw.filter (fun p => p.1 ≠ "name") = kw := by
    apply List.filter_eq_self.2
    intro p hp
    simpa using hname p hp
  rw [this]

/-- an unknown resampling name is a `ValueError` when the graph is built, not a silent default -/
theorem chunk_kw_rejects_unknown (r : String) (sn dn : Option Val) (ydim : Nat)
    (kw : List (String × String)) (h : r.toLower ∉ resamplingNames) :
    chunkTaskKw r sn dn ydim kw = .error .valueError := by
  simp [chunkTaskKw, resamplingS2rio, h, bind, Except.bind]

example : (chunkTaskKw "Cubic" (some (.num 7)) none 1 [("num_threads", "2"), ("name", "x")]).toOption =
    some ⟨"cubic", some (.num 7), none, 1, [("num_threads", "2")]⟩ := by decide +kernel

end OdcGeo.C13
