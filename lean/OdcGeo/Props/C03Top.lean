/-
C03 — theorems about the glue around the planning core (`OdcGeo.Model.C03Top`): `decompose_rws` in full,
`GbxPointTransform.__call__`, `native_pix_transform`, and `compute_reproject_roi` from its arguments.
-/
import OdcGeo.Props.C03
import OdcGeo.Lemmas.C03Top
namespace OdcGeo.C03
open OdcGeo.C17

/-! ## `decompose_rws`, `get_scale_from_linear_transform` -/

/-- `decompose_rws` raises (`LinAlgError`, a `ValueError`, from the Cholesky step) exactly for singular matrices. -/
theorem rws_error_iff (A : Aff) (n : Rat) :
    (∃ e, decomposeRWS A n = .error e) ↔ (n = 0 ∨ A.det = 0) := by
  unfold decomposeRWS
  constructor
  · rintro ⟨e, h⟩
    by_contra hc
    rw [if_neg hc] at h
    simp at h
  · intro h
    exact ⟨.valueError, by rw [if_pos h]⟩

/-- **`A = R · W · S`**, translation included (it is carried by `R`; `W` and `S` have none). -/
theorem rws_reconstructs (A : Aff) (n : Rat) (hn : 0 < n) (hroot : n * n = A.a * A.a + A.d * A.d)
    (f : RWS) (h : decomposeRWS A n = .ok f) : f.R * f.W * f.S = A := by
  have hdet : A.det ≠ 0 := by
    intro hd
    have := (rws_error_iff A n).mpr (Or.inr hd)
    rw [h] at this; simp at this
  rw [decomposeRWS_closed A n hn hroot hdet] at h
  simp only [Except.ok.injEq] at h
  subst h
  have hn0 : n ≠ 0 := ne_of_gt hn
  have hd' : A.a * A.e - A.b * A.d ≠ 0 := hdet
  obtain ⟨a, b, c, d, e, f'⟩ := A
  simp only [Aff.mul_def, Aff.mul, Aff.det] at hroot hd' ⊢
  have hd'' : a * e - d * b ≠ 0 := by rw [mul_comm d b]; exact hd'
  congr 1
  · simp only [mul_zero, add_zero, mul_one]; field_simp
  · simp only [mul_zero, zero_add, mul_one]
    field_simp
    linear_combination (-b) * hroot
  · ring
  · simp only [mul_zero, add_zero, mul_one]; field_simp
  · simp only [mul_zero, zero_add, mul_one]
    field_simp
    linear_combination (-e) * hroot
  · ring

/-- `R` is a proper rotation: orthonormal columns, determinant `+1` (also for mirrored `A`: the flip moves the
mirroring into the sign of `S.e`). -/
theorem rws_rotation (A : Aff) (n : Rat) (hn : 0 < n) (hroot : n * n = A.a * A.a + A.d * A.d)
    (f : RWS) (h : decomposeRWS A n = .ok f) :
    f.R.a * f.R.a + f.R.d * f.R.d = 1 ∧ f.R.b * f.R.b + f.R.e * f.R.e = 1 ∧ f.R.a * f.R.b + f.R.d * f.R.e = 0 ∧
    f.R.det = 1 ∧ f.R.b = -f.R.d ∧ f.R.e = f.R.a ∧ f.R.c = A.c ∧ f.R.f = A.f := by
  have hdet : A.det ≠ 0 := by
    intro hd
    have := (rws_error_iff A n).mpr (Or.inr hd)
    rw [h] at this; simp at this
  rw [decomposeRWS_closed A n hn hroot hdet] at h
  simp only [Except.ok.injEq] at h
  subst h
  have hn0 : n ≠ 0 := ne_of_gt hn
  have key : A.a / n * (A.a / n) + A.d / n * (A.d / n) = 1 := by
    have : A.a / n * (A.a / n) + A.d / n * (A.d / n) = (A.a * A.a + A.d * A.d) / (n * n) := by field_simp
    rw [this, ← hroot]; field_simp
  refine ⟨key, ?_, ?_, ?_, ?_, rfl, rfl, rfl⟩
  · show -A.d / n * (-A.d / n) + A.a / n * (A.a / n) = 1
    rw [← key]; ring
  · show A.a / n * (-A.d / n) + A.d / n * (A.a / n) = 0
    ring
  · show A.a / n * (A.a / n) - -A.d / n * (A.d / n) = 1
    rw [← key]; ring
  · show -A.d / n = -(A.d / n)
    ring

/-- `W` is a unit upper-triangular shear and `S` a diagonal scale whose first entry is `n = √(a²+d²) > 0` and whose
second is `det A / n` (negative exactly for mirrored transforms). -/
theorem rws_shear_scale (A : Aff) (n : Rat) (hn : 0 < n) (hroot : n * n = A.a * A.a + A.d * A.d)
    (f : RWS) (h : decomposeRWS A n = .ok f) :
    f.W = ⟨1, (A.a * A.b + A.d * A.e) / A.det, 0, 0, 1, 0⟩ ∧ f.S = ⟨n, 0, 0, 0, A.det / n, 0⟩ := by
  have hdet : A.det ≠ 0 := by
    intro hd
    have := (rws_error_iff A n).mpr (Or.inr hd)
    rw [h] at this; simp at this
  rw [decomposeRWS_closed A n hn hroot hdet] at h
  simp only [Except.ok.injEq] at h
  subst h
  exact ⟨rfl, rfl⟩

/-- `get_scale_from_linear_transform` is `scale2` (what the planner's theorems are stated about) whenever it does not
raise, and it raises exactly for singular transforms. -/
theorem getScale_eq_scale2 (A : Aff) (n : Rat) (hn : 0 < n) (hroot : n * n = A.a * A.a + A.d * A.d) :
    (A.det ≠ 0 → getScale A n = .ok (scale2 A n)) ∧ (A.det = 0 → getScale A n = .error .valueError) := by
  constructor
  · intro hdet
    unfold getScale
    rw [decomposeRWS_closed A n hn hroot hdet]
    simp only [scale2]
    congr 2
    · simp [rabs, not_lt.mpr (le_of_lt hn)]
    · unfold rabs
      have hn0 : n ≠ 0 := ne_of_gt hn
      by_cases hd : A.det < 0
      · have : A.det / n < 0 := div_neg_of_neg_of_pos hd hn
        simp only [hd, this, if_true]; ring
      · have : ¬ A.det / n < 0 := by
          rw [not_lt] at hd ⊢; exact div_nonneg hd (le_of_lt hn)
        simp only [hd, this, if_false]
  · intro hdet
    unfold getScale decomposeRWS
    rw [if_pos (Or.inr hdet)]

example : decomposeRWS ⟨3, -4, 7, 4, 3, 9⟩ 5 = .ok ⟨⟨3 / 5, -4 / 5, 7, 4 / 5, 3 / 5, 9⟩, ⟨1, 0, 0, 0, 1, 0⟩, ⟨5, 0, 0, 0, 5, 0⟩⟩ := by
  decide +kernel
example : decomposeRWS ⟨2, 1, 5, 0, -4, 7⟩ 2 = .ok ⟨⟨1, 0, 5, 0, 1, 7⟩, ⟨1, -1 / 4, 0, 0, 1, 0⟩, ⟨2, 0, 0, 0, -4, 0⟩⟩ := by
  decide +kernel
example : getScale ⟨1, 2, 0, 2, 4, 0⟩ 1 = .error .valueError := by decide +kernel

/-! ## `GbxPointTransform.__call__` -/

theorem npClip_range (x lo hi : Rat) (h : lo ≤ hi) : lo ≤ npClip x lo hi ∧ npClip x lo hi ≤ hi := by
  unfold npClip
  exact ⟨le_min (le_max_right _ _) h, min_le_right _ _⟩

theorem npClip_id (x lo hi : Rat) (h1 : lo ≤ x) (h2 : x ≤ hi) : npClip x lo hi = x := by
  unfold npClip
  rw [max_eq_left h1, min_eq_left h2]

/-- The clamp keeps longitudes in `[-180, 180]` and latitudes in `[-90, 90]` and does nothing inside that box. -/
theorem clampGeo_range (w : Rat × Rat) :
    (-180 ≤ (clampGeo w).1 ∧ (clampGeo w).1 ≤ 180) ∧ (-90 ≤ (clampGeo w).2 ∧ (clampGeo w).2 ≤ 90) :=
  ⟨npClip_range _ _ _ (by norm_num), npClip_range _ _ _ (by norm_num)⟩

theorem clampGeo_id (w : Rat × Rat) (h1 : -180 ≤ w.1 ∧ w.1 ≤ 180) (h2 : -90 ≤ w.2 ∧ w.2 ≤ 90) : clampGeo w = w := by
  unfold clampGeo
  rw [npClip_id _ _ _ h1.1 h1.2, npClip_id _ _ _ h2.1 h2.2]

/-- **The transformer of a geographic source is only ever evaluated inside the lon/lat box**: two transformers that
agree there give the same pixel transform (what PROJ does with longitude 180.0000001 can not matter). -/
theorem gbx_geographic_domain (P Qi : Aff) (proj proj' : Proj)
    (h : ∀ w : Rat × Rat, (-180 ≤ w.1 ∧ w.1 ≤ 180) → (-90 ≤ w.2 ∧ w.2 ≤ 90) → proj w = proj' w) :
    gbxApply P true proj Qi = gbxApply P true proj' Qi := by
  funext p
  have c := clampGeo_range (P.apply p)
  simp only [gbxApply, if_true]
  rw [h _ c.1 c.2]

/-- A sample comes out with two finite coordinates or with two non-finite ones (so the `isfinite` filter of
`roi_from_points`, which wants both, drops exactly the points the transformer could not convert). -/
theorem gbx_finite_or_not (P Qi : Aff) (g : Bool) (proj : Proj) (p : Rat × Rat) :
    (∃ x y, gbxApply P g proj Qi p = (.fin x, .fin y)) ∨ gbxApply P g proj Qi p = (.nonfinite, .nonfinite) := by
  simp only [gbxApply]
  split
  · exact Or.inl ⟨_, _, rfl⟩
  · exact Or.inr rfl

/-- the identity transformer (equal CRSs) -/
def idProj : Proj := fun w => (.fin w.1, .fin w.2)

/-- **The two branches of `native_pix_transform` agree**: with the identity transformer (and no clamp, or all points
inside the lon/lat box) the generic pixel transform is the linear one `~dst.transform * src.transform`. -/
theorem gbx_identity_is_linear (P Qi : Aff) (g : Bool) (p : Rat × Rat)
    (hg : g = true → ((-180 ≤ (P.apply p).1 ∧ (P.apply p).1 ≤ 180) ∧ (-90 ≤ (P.apply p).2 ∧ (P.apply p).2 ≤ 90))) :
    gbxApply P g idProj Qi p = linTr (Qi * P) p := by
  have hw : (if g = true then clampGeo (P.apply p) else P.apply p) = P.apply p := by
    split_ifs with c
    · exact clampGeo_id _ (hg c).1 (hg c).2
    · rfl
  simp only [gbxApply, hw, idProj, linTr, Aff.apply_mul]

/-- **`tr.back` undoes `tr`** wherever the two CRS transformers undo each other and no clamp is active: for a pixel `p`
of the source whose world point `w` the forward transformer sends to `u` and the backward transformer sends back,
`tr(p) = q` and `tr.back(q) = p` exactly. -/
theorem gbx_roundtrip (S D : Aff) (gS gD : Bool) (projF projB : Proj) (hS : S.det ≠ 0) (hD : D.det ≠ 0)
    (p u : Rat × Rat)
    (hcS : gS = true → clampGeo (S.apply p) = S.apply p) (hF : projF (S.apply p) = (.fin u.1, .fin u.2))
    (hcD : gD = true → clampGeo u = u) (hB : projB u = (.fin (S.apply p).1, .fin (S.apply p).2)) :
    gbxApply S gS projF D.inv p = (.fin (D.inv.apply u).1, .fin (D.inv.apply u).2) ∧
    gbxApply D gD projB S.inv (D.inv.apply u) = (.fin p.1, .fin p.2) := by
  have hw : (if gS = true then clampGeo (S.apply p) else S.apply p) = S.apply p := by
    split_ifs with c
    · exact hcS c
    · rfl
  have hu : (if gD = true then clampGeo (D.apply (D.inv.apply u)) else D.apply (D.inv.apply u)) = u := by
    rw [Aff.apply_inv_apply D hD]
    split_ifs with c
    · exact hcD c
    · rfl
  constructor
  · simp only [gbxApply, hw, hF]
  · simp only [gbxApply, hu, hB]
    rw [Aff.inv_apply_apply S hS]

/-! ## `native_pix_transform` and `compute_reproject_roi` from their arguments -/

/-- Dispatch: the linear transform is chosen exactly for two `GeoBox`es with equal CRSs (and then it is
`~dst.transform * src.transform`, failing for a singular destination affine); everything else — another CRS, a
`GCPGeoBox` on either side — goes through the generic pixel → world → world → pixel transform. -/
theorem native_dispatch (src dst : Side) (crsEq : Bool) (projF projB : Proj) :
    ((src.isGeoBox = true ∧ dst.isGeoBox = true ∧ crsEq = true) →
      nativePixTransform src dst crsEq projF projB =
        (if dst.aff.det = 0 then .error .valueError else .ok (.linear (dst.aff.inv * src.aff)))) ∧
    (¬ (src.isGeoBox = true ∧ dst.isGeoBox = true ∧ crsEq = true) →
      nativePixTransform src dst crsEq projF projB =
        .ok (.gbx (gbxTr src.aff src.geographic projF dst.aff) (gbxTr dst.aff dst.geographic projB src.aff))) := by
  constructor
  · intro h
    unfold nativePixTransform
    rw [if_pos h]
    unfold Aff.inv?
    split_ifs <;> rfl
  · intro h
    unfold nativePixTransform
    rw [if_neg h]

/-- For two `GeoBox`es of one CRS `compute_reproject_roi` is `reprojectGeoBoxes` of the planning core: every theorem
about `reprojectLinear` / `reprojectGeoBoxes` speaks about the public entry point. -/
theorem top_same_crs_is_core (src dst : Side) (projF projB : Proj) (n : Rat) (scaleAt : Rat × Rat → Rat × Rat)
    (ttol stol : Rat) (padding align : Option Int) (hs : src.isGeoBox = true) (hd : dst.isGeoBox = true) :
    computeReprojectRoi src dst true projF projB n scaleAt ttol stol padding align =
      reprojectGeoBoxes src.shape dst.shape src.aff dst.aff n ttol stol padding align := by
  unfold computeReprojectRoi nativePixTransform reprojectGeoBoxes
  rw [if_pos ⟨hs, hd, rfl⟩]
  cases dst.aff.inv? with
  | error e => rfl
  | ok Di =>
    simp only [planWith]
    cases (Di * src.aff).inv? <;> rfl

/-- **Paste only for two `GeoBox`es of the same CRS.**  Whatever the transformers, tolerances and options:
`paste_ok` implies that both sides are `GeoBox`es and their CRSs compare equal. -/
theorem top_paste_only_same_crs (src dst : Side) (crsEq : Bool) (projF projB : Proj) (n : Rat)
    (scaleAt : Rat × Rat → Rat × Rat) (ttol stol : Rat) (padding align : Option Int) (p : Plan)
    (h : computeReprojectRoi src dst crsEq projF projB n scaleAt ttol stol padding align = .ok p)
    (hp : p.pasteOk = true) : src.isGeoBox = true ∧ dst.isGeoBox = true ∧ crsEq = true := by
  by_contra hc
  unfold computeReprojectRoi at h
  rw [(native_dispatch src dst crsEq projF projB).2 hc] at h
  simp only [planWith] at h
  split at h
  · simp at h
  · split at h
    · have := (nonlinear_plan _ _ _ _ _ _ _ _ h).1
      rw [hp] at this; simp at this
    · split_ifs at h
      have := (nonlinear_plan _ _ _ _ _ _ _ _ h).1
      rw [hp] at this; simp at this

/-- **A singular source affine always raises** (`TransformNotInvertibleError`), on either branch: the linear branch
inverts `~dst.transform * src.transform`, the generic one calls `tr.back` first, whose `wld2pix` inverts it. -/
theorem top_singular_src_raises (src dst : Side) (crsEq : Bool) (projF projB : Proj) (n : Rat)
    (scaleAt : Rat × Rat → Rat × Rat) (ttol stol : Rat) (padding align : Option Int) (hs : src.aff.det = 0) :
    ∃ e, computeReprojectRoi src dst crsEq projF projB n scaleAt ttol stol padding align = .error e := by
  unfold computeReprojectRoi
  by_cases hc : (src.isGeoBox = true ∧ dst.isGeoBox = true ∧ crsEq = true)
  · rw [(native_dispatch src dst crsEq projF projB).1 hc]
    split_ifs with hd
    · exact ⟨_, rfl⟩
    · simp only [planWith]
      have : (dst.aff.inv * src.aff).inv? = .error .valueError := by
        unfold Aff.inv?
        rw [if_pos (by rw [Aff.det_mul, hs, mul_zero])]
      rw [this]
      exact ⟨_, rfl⟩
  · rw [(native_dispatch src dst crsEq projF projB).2 hc]
    have : gbxTr dst.aff dst.geographic projB src.aff = .error .valueError := by
      unfold gbxTr Aff.inv?
      rw [if_pos hs]
    simp only [planWith, this]
    exact ⟨_, rfl⟩

/-! ## end to end: from the two `GeoBox`es (shapes and pixel → world affines) to the plan -/

/-- What a successful same-CRS plan says about its inputs: both affines are invertible, the transform handed to the
core is `A = (D⁻¹ S)⁻¹`, which maps a destination pixel location through the destination grid into the world and
through the inverse source grid into source pixels, and `fwd = D⁻¹ S` undoes it. -/
theorem geoboxes_ok {src dst : Shape} {S D : Aff} {n ttol stol : Rat} {padding align : Option Int} {p : Plan}
    (h : reprojectGeoBoxes src dst S D n ttol stol padding align = .ok p) :
    S.det ≠ 0 ∧ D.det ≠ 0 ∧ (D.inv * S).inv.det ≠ 0 ∧
    reprojectLinear src dst (D.inv * S) (D.inv * S).inv n ttol stol padding align = .ok p ∧
    (∀ q, (D.inv * S).apply ((D.inv * S).inv.apply q) = q) ∧
    (∀ q, (D.inv * S).inv.apply q = S.inv.apply (D.apply q)) := by
  unfold reprojectGeoBoxes Aff.inv? at h
  by_cases hD : D.det = 0
  · rw [if_pos hD] at h; simp at h
  rw [if_neg hD] at h
  by_cases hF : (D.inv * S).det = 0
  · simp only [if_pos hF] at h; simp at h
  simp only [if_neg hF] at h
  have hS : S.det ≠ 0 := by
    intro hs; apply hF; rw [Aff.det_mul, hs, mul_zero]
  have hinv : ∀ q, (D.inv * S).inv.apply q = S.inv.apply (D.apply q) := by
    intro q
    have e : (D.inv * S).apply (S.inv.apply (D.apply q)) = q := by
      rw [Aff.apply_mul, Aff.apply_inv_apply S hS, Aff.inv_apply_apply D hD]
    rw [← e, Aff.inv_apply_apply _ hF, e]
  have hAdet : (D.inv * S).inv.det ≠ 0 := by
    intro hz
    have := Aff.inv_mul_self (D.inv * S) hF
    have hd := congrArg Aff.det this
    rw [Aff.det_mul, hz, zero_mul] at hd
    simp [Aff.det, Aff.id] at hd
  exact ⟨hS, hD, hAdet, h, fun q => Aff.apply_inv_apply _ hF q, hinv⟩

/-- **Coverage, end to end, same CRS.**  Source grid `S`, destination grid `D` (pixel → world affines of ANY kind:
rotated, sheared, mirrored, any scales), any tolerances, `padding ≥ 0`, any alignment: whenever the plan is not a
paste plan, every destination pixel whose centre — mapped into the world by `D` and back into source pixels by `S⁻¹` —
falls inside the source image lies in `roi_dst`, and the source pixel it falls into lies in `roi_src`.  No hypothesis
on intermediate values: invertibility of the grids follows from the success of the call. -/
theorem top_linear_covers (src dst : Side) (projF projB : Proj) (n : Rat) (scaleAt : Rat × Rat → Rat × Rat)
    (ttol stol : Rat) (padding align : Option Int) (p : Plan) (hs : src.isGeoBox = true) (hd : dst.isGeoBox = true)
    (h : computeReprojectRoi src dst true projF projB n scaleAt ttol stol padding align = .ok p)
    (hnp : p.pasteOk = false)
    (hpad : ∀ k, padding = some k → 0 ≤ k) (hal : ∀ a, align = some a → 0 ≤ a)
    (dy dx : Int) (hdy : 0 ≤ dy ∧ dy < dst.shape.1) (hdx : 0 ≤ dx ∧ dx < dst.shape.2)
    (hqx : 0 ≤ (src.aff.inv.apply (dst.aff.apply ((dx : Rat) + 1 / 2, (dy : Rat) + 1 / 2))).1 ∧
           (src.aff.inv.apply (dst.aff.apply ((dx : Rat) + 1 / 2, (dy : Rat) + 1 / 2))).1 < src.shape.2)
    (hqy : 0 ≤ (src.aff.inv.apply (dst.aff.apply ((dx : Rat) + 1 / 2, (dy : Rat) + 1 / 2))).2 ∧
           (src.aff.inv.apply (dst.aff.apply ((dx : Rat) + 1 / 2, (dy : Rat) + 1 / 2))).2 < src.shape.1) :
    (p.roiDst.1.start ≤ dy ∧ dy < p.roiDst.1.stop) ∧ (p.roiDst.2.start ≤ dx ∧ dx < p.roiDst.2.stop) ∧
    (p.roiSrc.2.start ≤ (src.aff.inv.apply (dst.aff.apply ((dx : Rat) + 1 / 2, (dy : Rat) + 1 / 2))).1.floor ∧
      (src.aff.inv.apply (dst.aff.apply ((dx : Rat) + 1 / 2, (dy : Rat) + 1 / 2))).1.floor < p.roiSrc.2.stop) ∧
    (p.roiSrc.1.start ≤ (src.aff.inv.apply (dst.aff.apply ((dx : Rat) + 1 / 2, (dy : Rat) + 1 / 2))).2.floor ∧
      (src.aff.inv.apply (dst.aff.apply ((dx : Rat) + 1 / 2, (dy : Rat) + 1 / 2))).2.floor < p.roiSrc.1.stop) := by
  rw [top_same_crs_is_core src dst projF projB n scaleAt ttol stol padding align hs hd] at h
  obtain ⟨_, _, hA, hl, hfa, hinv⟩ := geoboxes_ok h
  have c := plan_nonpaste_covers src.shape dst.shape _ _ n ttol stol padding align p hl hnp hA hfa hpad hal dy dx hdy hdx
    (by rw [hinv]; exact hqx) (by rw [hinv]; exact hqy)
  rw [hinv] at c
  exact c

/-- **Within, end to end, every dispatch.**  Whatever the classes of the two sides, their CRSs, the transformers
(non-finite answers included), tolerances, padding and alignment: the destination region lies in the destination
image, the source region starts inside the source image and ends inside it — except on the overview path (`paste_ok`
with read-shrink `k > 1`), where it ends at most at the next multiple of `k`. -/
theorem top_within (src dst : Side) (crsEq : Bool) (projF projB : Proj) (n : Rat) (scaleAt : Rat × Rat → Rat × Rat)
    (ttol stol : Rat) (padding align : Option Int) (p : Plan)
    (hs : 1 ≤ src.shape.1 ∧ 1 ≤ src.shape.2) (hd : 0 ≤ dst.shape.1 ∧ 0 ≤ dst.shape.2)
    (h : computeReprojectRoi src dst crsEq projF projB n scaleAt ttol stol padding align = .ok p) :
    ((0 ≤ p.roiDst.1.start ∧ p.roiDst.1.stop ≤ dst.shape.1) ∧ (0 ≤ p.roiDst.2.start ∧ p.roiDst.2.stop ≤ dst.shape.2)) ∧
    (0 ≤ p.roiSrc.1.start ∧ 0 ≤ p.roiSrc.2.start) ∧
    ((p.pasteOk = false ∨ p.readShrink = 1) → p.roiSrc.1.stop ≤ src.shape.1 ∧ p.roiSrc.2.stop ≤ src.shape.2) ∧
    (p.roiSrc.1.stop < src.shape.1 + p.readShrink ∧ p.roiSrc.2.stop < src.shape.2 + p.readShrink) ∧ 1 ≤ p.readShrink := by
  by_cases hc : (src.isGeoBox = true ∧ dst.isGeoBox = true ∧ crsEq = true)
  · obtain ⟨h1, h2, h3⟩ := hc
    subst h3
    rw [top_same_crs_is_core src dst projF projB n scaleAt ttol stol padding align h1 h2] at h
    obtain ⟨_, _, _, hl, _, _⟩ := geoboxes_ok h
    have w := plan_within src.shape dst.shape _ _ n ttol stol padding align p hs hd hl
    have sc := plan_scale src.shape dst.shape _ _ n ttol stol padding align p hl
    exact ⟨w.1, w.2.1, w.2.2.1, ⟨by omega, by omega⟩, sc.2.2.1⟩
  · unfold computeReprojectRoi at h
    rw [(native_dispatch src dst crsEq projF projB).2 hc] at h
    have key : ∀ fwd back : PtTr, reprojectNonlinear src.shape dst.shape back fwd scaleAt padding align = .ok p →
        ((0 ≤ p.roiDst.1.start ∧ p.roiDst.1.stop ≤ dst.shape.1) ∧ (0 ≤ p.roiDst.2.start ∧ p.roiDst.2.stop ≤ dst.shape.2)) ∧
        (0 ≤ p.roiSrc.1.start ∧ 0 ≤ p.roiSrc.2.start) ∧
        ((p.pasteOk = false ∨ p.readShrink = 1) → p.roiSrc.1.stop ≤ src.shape.1 ∧ p.roiSrc.2.stop ≤ src.shape.2) ∧
        (p.roiSrc.1.stop < src.shape.1 + p.readShrink ∧ p.roiSrc.2.stop < src.shape.2 + p.readShrink) ∧ 1 ≤ p.readShrink := by
      intro fwd back hn
      obtain ⟨_, hrs, hr⟩ := nonlinear_plan _ _ _ _ _ _ _ _ hn
      have w := relative_within src.shape dst.shape back fwd 5 (padOr1 padding) (normAlign align) ⟨by omega, by omega⟩ hd
      rw [← hr] at w
      simp only at w
      exact ⟨w.2, ⟨w.1.1.1, w.1.2.1⟩, fun _ => ⟨w.1.1.2, w.1.2.2⟩, ⟨by omega, by omega⟩, hrs⟩
    simp only [planWith] at h
    split at h
    · simp at h
    · split at h
      · exact key _ _ h
      · split_ifs at h
        exact key _ _ h

/-- **Coverage on the generic (cross-CRS / GCP) branch — partial**, in terms of the public inputs: with the pixel
transforms the code builds from the two affines, the lon/lat clamps and the two CRS transformers, a destination pixel
is covered as soon as the image of its centre lies in the padded envelope of the images of the 16 boundary samples, and
the centre itself in the envelope of the forward images of the boundary samples of `roi_src`.  (See
`nonlinear_covers_partial` for why exactly these two hypotheses remain: what the transformers do BETWEEN samples.) -/
theorem top_gbx_covers_partial (src dst : Side) (crsEq : Bool) (projF projB : Proj) (n : Rat)
    (scaleAt : Rat × Rat → Rat × Rat) (ttol stol : Rat) (padding align : Option Int) (p : Plan)
    (hc : ¬ (src.isGeoBox = true ∧ dst.isGeoBox = true ∧ crsEq = true))
    (hD : dst.aff.det ≠ 0)
    (h : computeReprojectRoi src dst crsEq projF projB n scaleAt ttol stol padding align = .ok p)
    (hal : ∀ a, align = some a → 0 ≤ a)
    (dy dx : Int) (hdy : 0 ≤ dy ∧ dy < dst.shape.1) (hdx : 0 ≤ dx ∧ dx < dst.shape.2)
    (q : Rat × Rat) (hqx : 0 ≤ q.1 ∧ q.1 < src.shape.2) (hqy : 0 ≤ q.2 ∧ q.2 < src.shape.1)
    (henvS : InEnvStrict (finitePts (srcSamples dst.shape (gbxApply dst.aff dst.geographic projB src.aff.inv) 5)) q
      (padOr1 padding))
    (henvD : InEnvClosed (finitePts (dstSamples p.roiSrc (gbxApply src.aff src.geographic projF dst.aff.inv) 5))
      ((dx : Rat) + 1 / 2, (dy : Rat) + 1 / 2)) :
    (p.roiDst.1.start ≤ dy ∧ dy < p.roiDst.1.stop) ∧ (p.roiDst.2.start ≤ dx ∧ dx < p.roiDst.2.stop) ∧
    (p.roiSrc.2.start ≤ q.1.floor ∧ q.1.floor < p.roiSrc.2.stop) ∧ (p.roiSrc.1.start ≤ q.2.floor ∧ q.2.floor < p.roiSrc.1.stop) := by
  unfold computeReprojectRoi at h
  rw [(native_dispatch src dst crsEq projF projB).2 hc] at h
  have hal' : ∀ a, normAlign align = some a → 0 < a := by
    intro a ha
    unfold normAlign at ha
    split_ifs at ha with c
    have := hal a ha
    rcases lt_or_eq_of_le this with h' | h'
    · exact h'
    · exact absurd (by rw [ha, ← h']) c
  have hDi : dst.aff.inv? = .ok dst.aff.inv := by unfold Aff.inv?; rw [if_neg hD]
  simp only [planWith, gbxTr, hDi] at h
  split at h
  · simp at h
  · rename_i back hb
    have hback : back = gbxApply dst.aff dst.geographic projB src.aff.inv := by
      unfold Aff.inv? at hb
      split_ifs at hb
      simp only [Except.ok.injEq] at hb
      exact hb.symm
    subst hback
    obtain ⟨_, _, hr⟩ := nonlinear_plan _ _ _ _ _ _ _ _ h
    have hr1 : p.roiSrc = (relativeRois src.shape dst.shape (gbxApply dst.aff dst.geographic projB src.aff.inv)
        (gbxApply src.aff src.geographic projF dst.aff.inv) 5 (padOr1 padding) (normAlign align)).1 := by
      rw [← hr]
    rw [hr1] at henvD
    have c := nonlinear_covers_partial src.shape dst.shape _ _ 5 (padOr1 padding) (normAlign align) hal' dy dx hdy hdx q
      hqx hqy henvS henvD
    rw [← hr] at c
    exact c

/-! ## the error branch of the scale estimate -/

/-- With a scale estimate that does not fail the error-carrying plan is the plan. -/
theorem nonlinearE_eq (src dst : Shape) (back fwd : PtTr) (sc : Rat × Rat → Rat × Rat) (padding align : Option Int) :
    reprojectNonlinearE src dst back fwd (fun c => .ok (sc c)) padding align =
      reprojectNonlinear src dst back fwd sc padding align := by
  unfold reprojectNonlinearE reprojectNonlinear
  rfl

theorem computeReprojectRoiE_eq (src dst : Side) (crsEq : Bool) (projF projB : Proj) (n : Rat)
    (sc : Rat × Rat → Rat × Rat) (ttol stol : Rat) (padding align : Option Int) :
    computeReprojectRoiE src dst crsEq projF projB n (fun c => .ok (sc c)) ttol stol padding align =
      computeReprojectRoi src dst crsEq projF projB n sc ttol stol padding align := by
  unfold computeReprojectRoiE computeReprojectRoi
  cases nativePixTransform src dst crsEq projF projB with
  | error e => rfl
  | ok tr =>
    cases tr with
    | linear fwd => rfl
    | gbx fwd back =>
      simp only [planWithE, planWith, nonlinearE_eq]

/-- **When the cross-CRS plan raises because of the scale estimate**: exactly when the destination region is not empty
and `get_scale_at_point` at its centre raises (locally singular transform: `decompose_rws`' `LinAlgError`) or yields a
non-positive scale (`_pick_read_scale`'s assertion). -/
theorem nonlinearE_error_iff (src dst : Shape) (back fwd : PtTr) (scaleAt : Rat × Rat → Res (Rat × Rat))
    (padding align : Option Int) :
    (∃ e, reprojectNonlinearE src dst back fwd scaleAt padding align = .error e) ↔
    (let r := relativeRois src dst back fwd 5 (padOr1 padding) (normAlign align)
     ROI.isEmpty r.2 = false ∧
       ((∃ e, scaleAt ((((r.2.2.start + r.2.2.stop : Int) : Rat) / 2, ((r.2.1.start + r.2.1.stop : Int) : Rat) / 2)) = .error e) ∨
        (∃ s, scaleAt ((((r.2.2.start + r.2.2.stop : Int) : Rat) / 2, ((r.2.1.start + r.2.1.stop : Int) : Rat) / 2)) = .ok s ∧
          min s.1 s.2 ≤ 0))) := by
  unfold reprojectNonlinearE
  simp only
  generalize relativeRois src dst back fwd 5 (padOr1 padding) (normAlign align) = r
  by_cases hE : ROI.isEmpty r.2 = true
  · simp [hE]
  · have hE' : ROI.isEmpty r.2 = false := by simpa using hE
    rw [if_pos (by simpa using hE)]
    refine Iff.trans ?_ (Iff.symm (and_iff_right hE'))
    generalize scaleAt ((((r.2.2.start + r.2.2.stop : Int) : Rat) / 2, ((r.2.1.start + r.2.1.stop : Int) : Rat) / 2)) = v
    cases v with
    | error e => simp
    | ok s =>
      simp only [Except.ok.injEq, exists_eq_left', reduceCtorEq, exists_false, false_or]
      constructor
      · rintro ⟨e, h⟩
        cases hp : pickReadScale (min s.1 s.2) with
        | error e' => exact (read_shrink_error_iff _ _).mp ⟨e', hp⟩
        | ok rs => rw [hp] at h; simp at h
      · intro h
        obtain ⟨e, he⟩ := (read_shrink_error_iff (min s.1 s.2) tol1em3).mpr h
        exact ⟨e, by rw [he]⟩

/-! ## a scale estimate that is not a number -/

/-- With an estimate that is never NaN the NaN-aware plan is the error-carrying plan, whatever the fallback flag. -/
theorem nonlinearX_eq_E (fb : Bool) (src dst : Shape) (back fwd : PtTr) (sc : Rat × Rat → Res (Rat × Rat))
    (padding align : Option Int) :
    reprojectNonlinearX fb src dst back fwd (fun c => match sc c with | .ok s => .ok s | .error e => .err e) padding align =
      reprojectNonlinearE src dst back fwd sc padding align := by
  unfold reprojectNonlinearX reprojectNonlinearE
  simp only
  generalize relativeRois src dst back fwd 5 (padOr1 padding) (normAlign align) = r
  by_cases hE : ROI.isEmpty r.2 = true
  · simp only [hE, not_true_eq_false, if_false]
  · simp only [hE]
    cases hv : sc ((((r.2.2.start + r.2.2.stop : Int) : Rat) / 2, ((r.2.1.start + r.2.1.stop : Int) : Rat) / 2)) <;> rfl

/-- **On HEAD a NaN scale at the centre of a non-empty `roi_dst` is an `AssertionError`** — the plan that was just
computed is lost (known finding; the centre of the destination region has no image in the source CRS). -/
theorem nan_centre_raises_on_head (src dst : Shape) (back fwd : PtTr) (scaleAt : Rat × Rat → ScaleRes)
    (padding align : Option Int)
    (hne : ROI.isEmpty (relativeRois src dst back fwd 5 (padOr1 padding) (normAlign align)).2 = false)
    (hnan : scaleAt
      ((((relativeRois src dst back fwd 5 (padOr1 padding) (normAlign align)).2.2.start +
          (relativeRois src dst back fwd 5 (padOr1 padding) (normAlign align)).2.2.stop : Int) : Rat) / 2,
       (((relativeRois src dst back fwd 5 (padOr1 padding) (normAlign align)).2.1.start +
          (relativeRois src dst back fwd 5 (padOr1 padding) (normAlign align)).2.1.stop : Int) : Rat) / 2) = .nan) :
    reprojectNonlinearX false src dst back fwd scaleAt padding align = .error .assertion := by
  unfold reprojectNonlinearX
  simp only [hne, Bool.false_eq_true, not_false_eq_true, if_true, hnan, if_false]

/-- **The repair recovers the plan**: with the fallback, if the centre of `roi_src` has an image and the estimate there
is a positive scale, the call succeeds with the very regions that were computed and that scale. -/
theorem fallback_recovers (src dst : Shape) (back fwd : PtTr) (scaleAt : Rat × Rat → ScaleRes)
    (padding align : Option Int) (x y : Rat) (sc : Rat × Rat)
    (hne : ROI.isEmpty (relativeRois src dst back fwd 5 (padOr1 padding) (normAlign align)).2 = false)
    (hnan : scaleAt
      ((((relativeRois src dst back fwd 5 (padOr1 padding) (normAlign align)).2.2.start +
          (relativeRois src dst back fwd 5 (padOr1 padding) (normAlign align)).2.2.stop : Int) : Rat) / 2,
       (((relativeRois src dst back fwd 5 (padOr1 padding) (normAlign align)).2.1.start +
          (relativeRois src dst back fwd 5 (padOr1 padding) (normAlign align)).2.1.stop : Int) : Rat) / 2) = .nan)
    (himg : fwd
      ((((relativeRois src dst back fwd 5 (padOr1 padding) (normAlign align)).1.2.start +
          (relativeRois src dst back fwd 5 (padOr1 padding) (normAlign align)).1.2.stop : Int) : Rat) / 2,
       (((relativeRois src dst back fwd 5 (padOr1 padding) (normAlign align)).1.1.start +
          (relativeRois src dst back fwd 5 (padOr1 padding) (normAlign align)).1.1.stop : Int) : Rat) / 2) = (.fin x, .fin y))
    (hsc : scaleAt (x, y) = .ok sc) (hpos : 0 < min sc.1 sc.2) :
    ∃ p, reprojectNonlinearX true src dst back fwd scaleAt padding align = .ok p ∧
      (p.roiSrc, p.roiDst) = relativeRois src dst back fwd 5 (padOr1 padding) (normAlign align) ∧
      p.scale2 = sc ∧ 1 ≤ p.readShrink := by
  unfold reprojectNonlinearX
  simp only [hne, Bool.false_eq_true, not_false_eq_true, if_true, hnan, himg, hsc]
  cases hp : pickReadScale (min sc.1 sc.2) with
  | error e =>
    have := (read_shrink_error_iff _ _).mp ⟨e, hp⟩
    exact absurd hpos (not_lt.mpr this)
  | ok rs => exact ⟨_, rfl, rfl, rfl, read_shrink_pos_int _ _ _ hp⟩

/-! ## non-vacuity: concrete instances of the end-to-end statements -/

-- same CRS, two GeoBoxes, half-pixel shift (no paste): hypotheses of `top_linear_covers` / `top_within` hold
example : (computeReprojectRoi ⟨true, (10, 10), ⟨2, 0, 100, 0, -2, 200⟩, false⟩ ⟨true, (4, 4), ⟨2, 0, 107, 0, -2, 194⟩, false⟩
    true idProj idProj 1 (fun _ => (1, 1)) (1 / 20) tol1em3 none none).toOption.map
      (fun p => (p.roiSrc, p.roiDst, p.pasteOk, p.readShrink)) = some ((⟨2, 8⟩, ⟨2, 9⟩), (⟨0, 4⟩, ⟨0, 4⟩), false, 1) := by
  decide +kernel
-- different CRSs: geographic source reaching beyond lon 180 (clamped), transformer = scaling by 2
example : (computeReprojectRoi ⟨true, (4, 8), ⟨1, 0, 176, 0, -1, 2⟩, true⟩ ⟨true, (8, 20), ⟨1, 0, 350, 0, -1, 4⟩, false⟩
    false (fun w => (.fin (2 * w.1), .fin (2 * w.2))) (fun w => (.fin (w.1 / 2), .fin (w.2 / 2))) 1 (fun _ => (1 / 2, 1 / 2))
    (1 / 20) tol1em3 none none).toOption.map
      (fun p => (p.roiSrc, p.roiDst, p.pasteOk, p.readShrink)) = some ((⟨0, 4⟩, ⟨0, 8⟩), (⟨0, 8⟩, ⟨2, 10⟩), false, 1) := by
  decide +kernel
-- `gbx_roundtrip`: hypotheses satisfiable (scaling transformer, no clamp)
example : gbxApply ⟨1, 0, 10, 0, -1, 20⟩ false (fun w => (.fin (2 * w.1), .fin (2 * w.2))) (Aff.inv ⟨4, 0, 0, 0, -4, 80⟩) (3, 5)
    = (.fin (13 / 2), .fin (25 / 2)) := by
  simp only [gbxApply, Aff.apply, Aff.inv, Aff.det]; norm_num

end OdcGeo.C03
