/-
C14 × C12 — `GeoboxTiles.grid_intersect` between the tilings of two DIFFERENT tiles of one GridSpec is empty.

* `gridspec_tiles_pixel_shift`: the pixel grids of two tiles of a grid differ by a whole number of tiles: pixel `(u, v)` of tile
  `k` is pixel `(u + tx·nx, v + ty·ny)` of tile `k + (j, i)`, `tx = ∓j`, `ty = ∓i` (signs from index direction and resolution sign);
* `neighbour_tilings_do_not_intersect` (C12 linear path `linearDeps`, imported read-only): under such a whole-tile shift
  `(tx, ty) ≠ (0, 0)` no sub-tile of one tile depends on any sub-tile of the other, for every regular chunking of both.
-/
import OdcGeo.Props.C14
import OdcGeo.Props.C12

namespace OdcGeo.C14
open OdcGeo.C17 OdcGeo.C04 OdcGeo.C12

section
variable {ny nx : Int} {rx ry ox oy : Rat} {fx fy : Bool} {g : GridSpec}

/-- whole-tile pixel shift between two tiles of a grid -/
theorem gridspec_tiles_pixel_shift (hg : GridSpec.new id ny nx rx ry ox oy fx fy = .ok g) (k : Int × Int) (j i : Int)
    (u v : Rat) :
    (g.tileGeobox id (k.1 + j, k.2 + i)).aff.apply
        (u + ((if 0 < rx then -(j * g.xbin.dir) else j * g.xbin.dir : Int) : Rat) * (nx : Rat),
         v + ((if 0 < ry then -(i * g.ybin.dir) else i * g.ybin.dir : Int) : Rat) * (ny : Rat)) =
      (g.tileGeobox id k).aff.apply (u, v) := by
  obtain ⟨e, w⟩ := GridSpec.new_ok hg
  have hgx : g.rx = rx := by rw [e]
  have hgy : g.ry = ry := by rw [e]
  have sx : g.xbin.sz = (nx : Rat) * rabs rx := by rw [w.szx, e]
  have sy : g.ybin.sz = (ny : Rat) * rabs ry := by rw [w.szy, e]
  simp only [GridSpec.tileGeobox, GridSpec.tileTxy, Aff.apply, hgx, hgy, Bin1D.hi_eq_lo_add, Bin1D.lo_id, sx, sy]
  ext
  · simp only
    by_cases hx : 0 < rx
    · rw [if_pos hx, if_pos hx, if_pos hx, GridSpec.rabs_of_pos hx]; push_cast; ring
    · have : rabs rx = -rx := by
        unfold rabs; split_ifs with h
        · rfl
        · have : rx = 0 := by linarith
          rw [this]; norm_num
      rw [if_neg hx, if_neg hx, if_neg hx, this]; push_cast; ring
  · simp only
    by_cases hy : 0 < ry
    · rw [if_pos hy, if_pos hy, if_pos hy, GridSpec.rabs_of_pos hy]; push_cast; ring
    · have : rabs ry = -ry := by
        unfold rabs; split_ifs with h
        · rfl
        · have : ry = 0 := by linarith
          rw [this]; norm_num
      rw [if_neg hy, if_neg hy, if_neg hy, this]; push_cast; ring

end

/-- on the linear path of `grid_intersect`, a whole-tile shift `(tx, ty) ≠ (0, 0)` between two regularly chunked images of the same
    shape leaves no dependency: the rounded image box of every destination sub-tile lies outside the source image -/
theorem neighbour_tilings_do_not_intersect (N M a b a' b' : Int) (tx ty : Int) (ht : tx ≠ 0 ∨ ty ≠ 0) (hN : 0 ≤ N) (hM : 0 ≤ M)
    (ha : 0 < a) (hb : 0 < b)
    (idx : Int × Int) (tb : C12.BBox)
    (htb : pixBBox ⟨N, M, ⟨.reg N a, .reg M b⟩⟩ idx = .ok tb) :
    linearDeps ⟨N, M, ⟨.reg N a, .reg M b⟩⟩ ⟨N, M, ⟨.reg N a', .reg M b'⟩⟩
      (Aff.translation ((tx : Rat) * (M : Rat)) ((ty : Rat) * (N : Rat))) idx = .ok [] := by
  -- the pixel box of the destination sub-tile lies inside the image
  simp only [pixBBox, getItem2, zip2, Tiling.getItem, bind, Except.bind, pure, Except.pure] at htb
  cases hA : C04.getItem N a (.idx idx.1) with
  | error e => rw [hA] at htb; cases htb
  | ok ry' =>
    cases hB : C04.getItem M b (.idx idx.2) with
    | error e => rw [hA, hB] at htb; cases htb
    | ok rx' =>
      rw [hA, hB] at htb
      obtain ⟨y0, y1, y2⟩ := region_within N a _ _ hA
      obtain ⟨x0, x1, x2⟩ := region_within M b _ _ hB
      have htb' : pixBBox ⟨N, M, ⟨.reg N a, .reg M b⟩⟩ idx = .ok tb := by
        simp only [pixBBox, getItem2, zip2, Tiling.getItem, bind, Except.bind, pure, Except.pure, hA, hB]; exact htb
      cases htb
      apply linear_disjoint_empty _ _ _ idx _ htb'
      simp only [C12.BBox.transform, C12.BBox.round, Aff.apply, Aff.translation, C12.min4, C12.max4]
      have X0 : (0 : Rat) ≤ (rx'.start : Rat) := by exact_mod_cast x0
      have X2 : (rx'.stop : Rat) ≤ (M : Rat) := by exact_mod_cast x2
      have X1 : (rx'.start : Rat) ≤ (M : Rat) := by exact_mod_cast x1.le
      have Y0 : (0 : Rat) ≤ (ry'.start : Rat) := by exact_mod_cast y0
      have Y2 : (ry'.stop : Rat) ≤ (N : Rat) := by exact_mod_cast y2
      have Y1 : (ry'.start : Rat) ≤ (N : Rat) := by exact_mod_cast y1.le
      have hMq : (0 : Rat) ≤ (M : Rat) := by exact_mod_cast hM
      have hNq : (0 : Rat) ≤ (N : Rat) := by exact_mod_cast hN
      obtain ⟨_, ys⟩ := C04.getItem_nonneg N a ha _ _ hA
      obtain ⟨_, xs⟩ := C04.getItem_nonneg M b hb _ _ hB
      have XS : (0 : Rat) ≤ (rx'.stop : Rat) := by exact_mod_cast xs
      have YS : (0 : Rat) ≤ (ry'.stop : Rat) := by exact_mod_cast ys
      rcases ht with h | h
      · rcases lt_or_gt_of_ne h with hneg | hpos
        · have ht' : (tx : Rat) ≤ -1 := by exact_mod_cast (by omega : tx ≤ -1)
          have hm := mul_le_mul_of_nonneg_right ht' hMq
          left
          have : max (max (1 * (rx'.start : Rat) + 0 * (ry'.start : Rat) + (tx : Rat) * (M : Rat)) (1 * (rx'.start : Rat) + 0 * (ry'.stop : Rat) + (tx : Rat) * (M : Rat)))
              (max (1 * (rx'.stop : Rat) + 0 * (ry'.start : Rat) + (tx : Rat) * (M : Rat)) (1 * (rx'.stop : Rat) + 0 * (ry'.stop : Rat) + (tx : Rat) * (M : Rat))) ≤ ((0 : Int) : Rat) := by
            simp only [max_le_iff]; push_cast
            refine ⟨⟨?_, ?_⟩, ⟨?_, ?_⟩⟩ <;> linarith
          exact_mod_cast Rat.ceil_le_iff.mpr this
        · have ht' : (1 : Rat) ≤ (tx : Rat) := by exact_mod_cast (by omega : 1 ≤ tx)
          have hm := mul_le_mul_of_nonneg_right ht' hMq
          right; left
          have : ((M : Int) : Rat) ≤ min (min (1 * (rx'.start : Rat) + 0 * (ry'.start : Rat) + (tx : Rat) * (M : Rat)) (1 * (rx'.start : Rat) + 0 * (ry'.stop : Rat) + (tx : Rat) * (M : Rat)))
              (min (1 * (rx'.stop : Rat) + 0 * (ry'.start : Rat) + (tx : Rat) * (M : Rat)) (1 * (rx'.stop : Rat) + 0 * (ry'.stop : Rat) + (tx : Rat) * (M : Rat))) := by
            simp only [le_min_iff]
            refine ⟨⟨?_, ?_⟩, ⟨?_, ?_⟩⟩ <;> linarith
          exact_mod_cast Rat.le_floor_iff.mpr this
      · rcases lt_or_gt_of_ne h with hneg | hpos
        · have ht' : (ty : Rat) ≤ -1 := by exact_mod_cast (by omega : ty ≤ -1)
          have hm := mul_le_mul_of_nonneg_right ht' hNq
          right; right; left
          have : max (max (0 * (rx'.start : Rat) + 1 * (ry'.start : Rat) + (ty : Rat) * (N : Rat)) (0 * (rx'.start : Rat) + 1 * (ry'.stop : Rat) + (ty : Rat) * (N : Rat)))
              (max (0 * (rx'.stop : Rat) + 1 * (ry'.start : Rat) + (ty : Rat) * (N : Rat)) (0 * (rx'.stop : Rat) + 1 * (ry'.stop : Rat) + (ty : Rat) * (N : Rat))) ≤ ((0 : Int) : Rat) := by
            simp only [max_le_iff]; push_cast
            refine ⟨⟨?_, ?_⟩, ⟨?_, ?_⟩⟩ <;> linarith
          exact_mod_cast Rat.ceil_le_iff.mpr this
        · have ht' : (1 : Rat) ≤ (ty : Rat) := by exact_mod_cast (by omega : 1 ≤ ty)
          have hm := mul_le_mul_of_nonneg_right ht' hNq
          right; right; right
          have : ((N : Int) : Rat) ≤ min (min (0 * (rx'.start : Rat) + 1 * (ry'.start : Rat) + (ty : Rat) * (N : Rat)) (0 * (rx'.start : Rat) + 1 * (ry'.stop : Rat) + (ty : Rat) * (N : Rat)))
              (min (0 * (rx'.stop : Rat) + 1 * (ry'.start : Rat) + (ty : Rat) * (N : Rat)) (0 * (rx'.stop : Rat) + 1 * (ry'.stop : Rat) + (ty : Rat) * (N : Rat))) := by
            simp only [le_min_iff]
            refine ⟨⟨?_, ?_⟩, ⟨?_, ?_⟩⟩ <;> linarith
          exact_mod_cast Rat.le_floor_iff.mpr this

example : ∃ tb, pixBBox ⟨4, 6, ⟨.reg 4 2, .reg 6 3⟩⟩ (1, 1) = .ok tb := ⟨_, rfl⟩

end OdcGeo.C14
