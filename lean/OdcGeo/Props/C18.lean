/- C18 — property theorems only. -/
import OdcGeo.Model.C18
namespace OdcGeo.C18

end OdcGeo.C18
