/-
C18 — Part writers: upload is initiated exactly once under every interleaving; sinks honour
their contract.  Property theorems only; the invariants and their preservation proofs are
in `Lemmas/C18.lean`.

Threads are natural numbers (every `Nat` is a thread that starts at the first instruction),
a schedule is any `List Nat`; all `*_once` theorems therefore hold for ANY number of threads
and EVERY interleaving (induction over the schedule), including schedules that offer steps
to blocked or finished threads.
-/
import OdcGeo.Model.C18
import OdcGeo.Lemmas.C18

namespace OdcGeo.C18

/-! ## In-process variant (shared `MultiPartUpload`, process-wide lock) -/

/-- The C18 claim about a state of the in-process protocol. -/
def Local.Once (s : Local.State) : Prop :=
  -- at most one `create_multipart_upload`, and the counter is the number of such calls
  (s.creates ≤ 1 ∧ s.calls.countP Call.isCreate = s.creates) ∧
  -- no write / finalise failed because another thread won the initiation race
  (∀ t, s.pc t ≠ .failed) ∧
  -- every client call (create / upload_part / complete) carries the one upload id
  (∀ c ∈ s.calls, c.id = 1) ∧
  -- `mpu.uploadId` is empty or that id
  (s.uploadId = 0 ∨ s.uploadId = 1) ∧
  -- lock discipline: at most one thread is inside the `with` block, ...
  (∀ t t', Local.inCS (s.pc t) = true → Local.inCS (s.pc t') = true → t = t') ∧
  -- ... it holds the lock object that is stored in `_state` (the one everybody is handed), ...
  (∀ t, Local.inCS (s.pc t) = true → s.slot = some (s.mylock t) ∧ s.locks (s.mylock t) = some t) ∧
  -- ... and no other lock object is ever held, nor any by a thread outside the block
  (∀ l h, s.locks l = some h → s.slot = some l ∧ Local.inCS (s.pc h) = true)

/-- **local_once**: repaired code, any threads, any schedule, starting from the state in
which `_state` holds no lock yet (the lock is created lazily by the racing threads through
the atomic `_state.setdefault`). -/
theorem local_once (cfg : Local.Cfg) (hr : cfg.recheck = true) (ha : cfg.atomicLock = true)
    (sched : List Nat) : Local.Once (Local.run cfg sched) := by
  have hI : Local.Inv cfg (Local.run cfg sched) := Local.runFrom_inv cfg hr ha sched _ (Local.inv_init cfg)
  exact ⟨⟨hI.ids.2.2, hI.count⟩, fun t h => by have := hI.pcs t; rw [h] at this; exact this,
    hI.calls, hI.ids.1, fun t t' h h' => hI.lk.mutex h h',
    fun t h => ⟨hI.lk.sel t (Local.usesLock_of_inCS h), hI.lk.holds t h⟩, hI.lk.only⟩

/-- … and likewise for every later attempt in the same process (a fresh upload object, while
`_state` already holds the lock object `l` created by an earlier attempt). -/
theorem local_once_later_attempt (cfg : Local.Cfg) (hr : cfg.recheck = true) (ha : cfg.atomicLock = true)
    (l : Nat) (sched : List Nat) : Local.Once (Local.runFrom cfg (Local.initWithLock l) sched) := by
  have hI := Local.runFrom_inv cfg hr ha sched _
    (Local.inv_fresh cfg (Local.initWithLock l) ⟨rfl, rfl, rfl, fun _ => rfl, fun _ => rfl⟩)
  exact ⟨⟨hI.ids.2.2, hI.count⟩, fun t h => by have := hI.pcs t; rw [h] at this; exact this,
    hI.calls, hI.ids.1, fun t t' h h' => hI.lk.mutex h h',
    fun t h => ⟨hI.lk.sel t (Local.usesLock_of_inCS h), hI.lk.holds t h⟩, hI.lk.only⟩

/-- A thread that has returned did its job: exactly one upload exists and its own
`upload_part(part)` / `complete_multipart_upload` call under that id is in the log. -/
theorem local_done_uploaded (cfg : Local.Cfg) (hr : cfg.recheck = true) (ha : cfg.atomicLock = true)
    (sched : List Nat) (t : Nat)
    (hd : (Local.run cfg sched).pc t = .done) :
    (Local.run cfg sched).creates = 1 ∧
      (match cfg.kind t with
       | .write p => Call.upload p 1 ∈ (Local.run cfg sched).calls
       | .fin => Call.complete 1 ∈ (Local.run cfg sched).calls) := by
  have hI : Local.Inv cfg (Local.run cfg sched) := Local.runFrom_inv cfg hr ha sched _ (Local.inv_init cfg)
  have := hI.pcs t
  rw [hd] at this
  exact ⟨hI.ids.2.1 this.1, this.2⟩

/-- **local_progress**: a complete schedule over the threads `T` (nobody else was scheduled,
and at the end no thread of `T` can take a step: no deadlock is possible) ends with every
thread of `T` returned normally, i.e. (by `local_done_uploaded`) all parts uploaded - or
ended in the storage error that the fault model injected into its own call. -/
theorem local_progress (cfg : Local.Cfg) (hr : cfg.recheck = true) (ha : cfg.atomicLock = true)
    (T sched : List Nat)
    (hs : ∀ t ∈ sched, t ∈ T) (hmax : ∀ t ∈ T, Local.enabled (Local.run cfg sched) t = false) :
    ∀ t ∈ T, (Local.run cfg sched).pc t = .done ∨ (Local.run cfg sched).pc t = .faulted := by
  have hI : Local.Inv cfg (Local.run cfg sched) := Local.runFrom_inv cfg hr ha sched _ (Local.inv_init cfg)
  refine Local.all_done_of_stuck cfg _ hI T ?_ hmax
  intro t hne
  by_cases ht : t ∈ sched
  · exact hs t ht
  · exact absurd (Local.runFrom_pc_unscheduled cfg sched t ht Local.init) hne

/-- Complete schedules exist and are short: a schedule over `T` contains at most `14·|T|`
effective (non-stutter) steps, so any fair scheduler reaches a complete schedule. -/
theorem local_bounded (cfg : Local.Cfg) (T : List Nat) (hnd : T.Nodup) (sched : List Nat)
    (hs : ∀ t ∈ sched, t ∈ T) :
    Sched.effective (Local.step cfg) Local.enabled Local.init sched ≤ 14 * T.length := by
  have h := Sched.effective_bound (step := Local.step cfg) (enabled := Local.enabled)
    (rem := fun s t => Local.remaining (s.pc t))
    (Local.step_of_not_enabled cfg)
    (fun s t t' h => by simp only [Local.step_pc_other cfg s h])
    (Local.step_decreases cfg) T hnd sched Local.init hs
  have h0 := Sched.total_const (fun (s : Local.State) t => Local.remaining (s.pc t)) Local.init 14
    (fun _ => rfl) T
  omega

/-- **Transient storage errors.**  `local_once` / `dist_once` quantify over every `Cfg`,
hence over every assignment of injected failures (`faultCreate`, `faultCall`: a thread's
create / upload_part / complete call raises once, nothing happens on the service): still at
most one upload is initiated, every call carries its id, no thread fails for another reason.
A thread whose own call failed only faults; a retry (another thread of the same kind) then
finds the state the protocol needs - in particular a finalise whose `complete` call failed
has NOT deleted the shared variable, so the retry completes the one upload: -/
theorem dist_finalise_retry_example :
    let cfg : Dist.Cfg := { kind := fun t => if t = 0 then .write 1 else .fin, worker := fun t => t,
                            faultCall := fun t => t = 1 }
    let s := Dist.run cfg (List.replicate 16 0 ++ List.replicate 12 1 ++ List.replicate 12 2)
    s.pc 0 = .done ∧ s.pc 1 = .faulted ∧ s.pc 2 = .done ∧ s.creates = 1 ∧
      s.calls = [.complete 1, .upload 1 1, .create 1] := by decide

/-- the code as found (no re-check of `mpu.started` under the lock) -/
def Local.asFound : Local.Cfg := { kind := fun t => .write (t + 1), recheck := false }

/-- the race of finding F5: both threads read `started` before either initiates -/
def Local.cexSchedule : List Nat := [0, 1, 0, 0, 0, 0, 0, 0, 0, 0, 1, 1, 1, 1, 1]

/-- **local_once_cex** (F5): on the code as found the second thread trips
`assert self.uploadId == ""` in `initiate` — `local_once` is false without the repair. -/
theorem local_once_cex : ¬ Local.Once (Local.run Local.asFound Local.cexSchedule) :=
  fun h => h.2.1 1 (by decide)

/-- the same race (continued to completion) is harmless on the repaired code -/
example : let s := Local.run { Local.asFound with recheck := true }
            ([0, 1] ++ List.replicate 12 0 ++ List.replicate 8 1)
    s.pc 0 = .done ∧ s.pc 1 = .done ∧ s.creates = 1 ∧ s.held = none := by decide

/-- What the atomicity of `_state.setdefault` is needed for: with a check-then-store lock
creation (`lck = _state.get(k); if lck is None: lck = _state[k] = Lock()`) two threads doing
the process's first lookup each get their own lock object, both pass the re-check and two
uploads are initiated - even with the F5 repair in place. -/
theorem local_lock_creation_cex :
    (Local.run { kind := fun t => .write (t + 1), recheck := true, atomicLock := false }
      [0, 0, 0, 1, 1, 1, 0, 1, 0, 0, 0, 1, 1, 1, 0, 1]).creates = 2 := by decide

/-! ## Cluster variant (one copy per worker, shared Variable, distributed Lock) -/

/-- The C18 claim about a state of the cluster protocol. -/
def Dist.Once (s : Dist.State) : Prop :=
  (s.creates ≤ 1 ∧ s.calls.countP Call.isCreate = s.creates) ∧
  (∀ t, s.pc t ≠ .failed) ∧
  (∀ c ∈ s.calls, c.id = 1) ∧
  -- every worker's copy and the shared variable hold nothing or the one id
  ((∀ w, s.wid w = 0 ∨ s.wid w = 1) ∧ (s.var = none ∨ s.var = some 1)) ∧
  (∀ t, s.lock = some t ↔ Dist.inCS (s.pc t) = true)

/-- **dist_once**: any assignment of threads to workers, any threads, any schedule — as long
as no `finalise` has deleted the shared variable yet (`cleanup_client`, the very last
action of a finalise). -/
theorem dist_once (cfg : Dist.Cfg) (sched : List Nat) (hd : (Dist.run cfg sched).deleted = false) :
    Dist.Once (Dist.run cfg sched) := by
  have hI : Dist.Inv cfg (Dist.run cfg sched) := Dist.runFrom_inv cfg sched _ (Dist.inv_init cfg) hd
  exact ⟨⟨hI.ids.creates_le, hI.count⟩, fun t h => by have := hI.pcs t; rw [h] at this; exact this,
    hI.calls, ⟨hI.ids.wid_range, hI.ids.var_range⟩, fun t => (hI.mutex t).symm⟩

/-- An attempt on a scheduler on which an earlier attempt for the same object left anything
in the shared variable (e.g. the id of an upload that was never finalised) starts, after
`prep_client`, exactly like the first one: `dist_once` applies to it. -/
theorem dist_once_after_prep (cfg : Dist.Cfg) (leftover : Option Nat) (sched : List Nat)
    (hd : (Dist.runFrom cfg (Dist.initAfterPrep leftover) sched).deleted = false) :
    Dist.Once (Dist.runFrom cfg (Dist.initAfterPrep leftover) sched) :=
  dist_once cfg sched hd

/-- With writers only the side condition is void: the variable is never deleted. -/
theorem dist_once_writers (cfg : Dist.Cfg) (hk : ∀ t, cfg.kind t ≠ .fin) (sched : List Nat) :
    Dist.Once (Dist.run cfg sched) :=
  dist_once cfg sched
    (Dist.runFrom_nofin cfg hk sched _ ⟨rfl, fun _ => ⟨by simp [Dist.init], by simp [Dist.init]⟩⟩).1

theorem dist_done_uploaded (cfg : Dist.Cfg) (sched : List Nat) (t : Nat)
    (hdel : (Dist.run cfg sched).deleted = false) (hd : (Dist.run cfg sched).pc t = .done) :
    (Dist.run cfg sched).creates = 1 ∧
      (match cfg.kind t with
       | .write p => Call.upload p 1 ∈ (Dist.run cfg sched).calls
       | .fin => Call.complete 1 ∈ (Dist.run cfg sched).calls) := by
  have hI : Dist.Inv cfg (Dist.run cfg sched) := Dist.runFrom_inv cfg sched _ (Dist.inv_init cfg) hdel
  have := hI.pcs t
  rw [hd] at this
  exact this

/-- **dist_progress**: a complete schedule over `T` ends with every thread of `T` returned. -/
theorem dist_progress (cfg : Dist.Cfg) (T sched : List Nat)
    (hdel : (Dist.run cfg sched).deleted = false)
    (hs : ∀ t ∈ sched, t ∈ T) (hmax : ∀ t ∈ T, Dist.enabled (Dist.run cfg sched) t = false) :
    ∀ t ∈ T, (Dist.run cfg sched).pc t = .done ∨ (Dist.run cfg sched).pc t = .faulted := by
  have hI : Dist.Inv cfg (Dist.run cfg sched) := Dist.runFrom_inv cfg sched _ (Dist.inv_init cfg) hdel
  refine Dist.all_done_of_stuck cfg _ hI T ?_ hmax
  intro t hne
  by_cases ht : t ∈ sched
  · exact hs t ht
  · exact absurd (Dist.runFrom_pc_unscheduled cfg sched t ht Dist.init) hne

theorem dist_bounded (cfg : Dist.Cfg) (T : List Nat) (hnd : T.Nodup) (sched : List Nat)
    (hs : ∀ t ∈ sched, t ∈ T) :
    Sched.effective (Dist.step cfg) Dist.enabled Dist.init sched ≤ 18 * T.length := by
  have h := Sched.effective_bound (step := Dist.step cfg) (enabled := Dist.enabled)
    (rem := fun s t => Dist.remaining (s.pc t))
    (Dist.step_of_not_enabled cfg)
    (fun s t t' h => by simp only [Dist.step_pc_other cfg s h])
    (Dist.step_decreases cfg) T hnd sched Dist.init hs
  have h0 := Sched.total_const (fun (s : Dist.State) t => Dist.remaining (s.pc t)) Dist.init 18
    (fun _ => rfl) T
  omega

/-- **dist_once_named**: the workers are independent interpreter processes that find the
Variable and the Lock on the scheduler by the names each of them computes.  If all workers
compute the same two names - i.e. `_build_name` is a pure function of the writer's value,
identical in every interpreter - the run is, seen through those names, a run of `Dist`, and
`dist_once` holds for it. -/
theorem dist_once_named (cfg : DistN.Cfg) (L V : Nat) (hL : ∀ w, cfg.lockName w = L)
    (hV : ∀ w, cfg.varName w = V) (sched : List Nat) (hd : (DistN.run cfg sched).deleted = false) :
    Dist.Once (DistN.proj L V (DistN.run cfg sched)) := by
  have h := DistN.proj_runFrom cfg L V hL hV sched DistN.init
  have h' : DistN.proj L V (DistN.run cfg sched) = Dist.run (DistN.toDist cfg) sched := h
  rw [h']
  apply dist_once
  have : (Dist.run (DistN.toDist cfg) sched).deleted = (DistN.run cfg sched).deleted := by rw [← h']; rfl
  rw [this]; exact hd

/-- … and the hypothesis is needed: when two worker processes disagree on the names (e.g. a
name derived from a per-process salted `hash()`), sequential first writes already initiate
two uploads. -/
theorem dist_names_cex :
    (DistN.run { kind := fun t => .write (t + 1), worker := fun t => t, varName := fun w => w,
                 lockName := fun w => w } (List.replicate 16 0 ++ List.replicate 16 1)).creates = 2 := by
  decide

/-- thread 0 finalises on worker 0; thread 1 writes part 1 on worker 1 -/
def Dist.lateCfg : Dist.Cfg := { kind := fun t => if t = 0 then .fin else .write 1, worker := fun t => t }

/-- Why `dist_once` stops at the deletion: a first write that starts after a finalise has
completed and deleted the variable initiates a second upload.  (Not reachable through
`mpu_write`: the finalise task consumes the results of all writes.) -/
theorem dist_after_delete_cex :
    (Dist.run Dist.lateCfg (List.replicate 18 0 ++ List.replicate 18 1)).creates = 2 := by decide

/-! ## One upload object over time: `cancel` -/

/-- **once_after_cancel**: whatever happened to the object before (uploads completed, aborted,
still active, a stale id left in `uploadId`), `cancel("all")` leaves it not started with no
active upload on the service, and the next first write initiates exactly one new upload under
which all parts of that attempt go; nothing fails. -/
theorem once_after_cancel (s : Seq.State) (n : Nat) :
    (Seq.step s .cancelAll).1.uploadId = 0 ∧ (Seq.step s .cancelAll).1.active = [] ∧
    (Seq.run (Seq.step s .cancelAll).1 (List.replicate (n + 1) .write)).1.creates = s.creates + 1 ∧
    (Seq.run (Seq.step s .cancelAll).1 (List.replicate (n + 1) .write)).1.uploadId = s.creates + 1 ∧
    (∃ p rest, (Seq.run (Seq.step s .cancelAll).1 (List.replicate (n + 1) .write)).2.1 =
        .create (s.creates + 1) :: .upload p (s.creates + 1) :: rest ∧
        ∀ c ∈ rest, ∃ q, c = Seq.SCall.upload q (s.creates + 1)) ∧
    (∀ b ∈ (Seq.run (Seq.step s .cancelAll).1 (List.replicate (n + 1) .write)).2.2, b = true) := by
  have hs1 : (Seq.step s .cancelAll).1 =
      { s with uploadId := 0, active := [], aborted := s.active ++ s.aborted } := rfl
  rw [hs1]
  refine ⟨rfl, rfl, ?_⟩
  -- the first write initiates
  have hstep : Seq.step { s with uploadId := 0, active := [], aborted := s.active ++ s.aborted } .write =
      ({ s with uploadId := s.creates + 1, creates := s.creates + 1, active := [s.creates + 1],
                aborted := s.active ++ s.aborted, nextPart := s.nextPart + 1 },
       [.create (s.creates + 1), .upload s.nextPart (s.creates + 1)], true) := by
    simp [Seq.step, Seq.ensureInit]
  have h := Seq.writes_started (s.creates + 1) (by omega) n
    { s with uploadId := s.creates + 1, creates := s.creates + 1, active := [s.creates + 1],
             aborted := s.active ++ s.aborted, nextPart := s.nextPart + 1 } rfl (by simp)
  simp only [List.replicate_succ, Seq.run, hstep]
  obtain ⟨h1, h2, _, h4, h5⟩ := h
  refine ⟨h2, h1, ⟨s.nextPart, _, rfl, h4⟩, ?_⟩
  intro b hb
  simp only [List.mem_cons] at hb
  rcases hb with rfl | hb
  · rfl
  · exact h5 b hb

/-- `cancel()` of the current, still active upload also resets the object (and aborts it). -/
theorem cancel_current_resets (s : Seq.State) (h : s.active.contains s.uploadId = true) (h0 : s.uploadId ≠ 0) :
    (Seq.step s .cancelCur).1.uploadId = 0 ∧ (Seq.step s .cancelCur).2.2 = true ∧
      s.uploadId ∈ (Seq.step s .cancelCur).1.aborted := by
  have hm : s.uploadId ∈ s.active := by simpa using h
  simp [Seq.step, hm, h0]

/-- What `cancel` cannot repair by naming a dead id (finding material, behaviour of the code as
it is): after a finalise the object keeps the completed id; `cancel()` then fails with
NoSuchUpload and the next write goes to the dead id. `cancel("all")` is the way out. -/
theorem cancel_current_after_finalise_cex :
    (Seq.run {} [.write, .fin, .cancelCur, .write]).2.2 = [true, true, false, false] := by decide

/-! ## File sink -/

/-- **sink_finalise_concat**: for distinct listed parts that were all written, the repaired
`finalise` leaves in the destination the concatenation of the parts in the order given
(whatever `keep_parts`, whatever else is in the directory, empty parts included); the only
possible error is the final `rmdir` when unlisted part files remain. -/
theorem sink_finalise_concat (s : Sink) (ps : List Nat) (keep : Bool) (f : Nat → Bytes)
    (hne : ps ≠ []) (hnd : ps.Nodup) (hw : ∀ p ∈ ps, s.lookup p = some (f p)) :
    (Sink.finalise true s ps keep).1.dst = some (ps.flatMap f) ∧
      ((Sink.finalise true s ps keep).2 = none ∨
        ((Sink.finalise true s ps keep).2 = some .osError ∧ keep = false ∧
          ∃ q ∈ s.parts, q.1 ∉ ps)) := by
  cases ps with
  | nil => exact absurd rfl hne
  | cons first rest =>
    have hnd' := List.nodup_cons.1 hnd
    have hf := hw first List.mem_cons_self
    obtain ⟨dir, parts, dst⟩ := s
    have hw1 : ∀ q ∈ rest,
        (Sink.mk dir (parts.filter (fun x => x.1 != first)) (some (f first))).lookup q = some (f q) := by
      intro q hq
      have hqp : q ≠ first := fun e => hnd'.1 (e ▸ hq)
      have := Sink.lookup_unlink ⟨dir, parts, dst⟩ q first
      simp only [Sink.unlink, Sink.lookup, hqp, if_false] at this ⊢
      rw [this]
      exact hw q (List.mem_cons_of_mem _ hq)
    have h := Sink.appendParts_ok keep f rest _ hnd'.2 hw1
    simp only [Sink.finalise, hf, Sink.unlink, h]
    cases keep with
    | true => simp [List.flatMap_cons]
    | false =>
      simp only [Bool.false_eq_true, if_false, Sink.filter_filter_contains]
      cases hfl : parts.filter (fun q => !(first :: rest).contains q.1) with
      | nil => simp [List.flatMap_cons]
      | cons x xs =>
        have hx : x ∈ parts.filter (fun q => !(first :: rest).contains q.1) := by
          rw [hfl]; exact List.mem_cons_self
        have hx' := List.mem_filter.1 hx
        refine ⟨by simp [List.flatMap_cons], Or.inr ⟨by simp, by simp, x, hx'.1, by simpa using hx'.2⟩⟩

/-- … and removes its temporary parts: if every file of the parts directory is listed and
`keep_parts` is false, finalise succeeds and the parts directory is gone. -/
theorem sink_finalise_cleanup (s : Sink) (ps : List Nat) (f : Nat → Bytes)
    (hne : ps ≠ []) (hnd : ps.Nodup) (hw : ∀ p ∈ ps, s.lookup p = some (f p))
    (hall : ∀ q ∈ s.parts, q.1 ∈ ps) :
    (Sink.finalise true s ps false).2 = none ∧ (Sink.finalise true s ps false).1.dirExists = false ∧
      (Sink.finalise true s ps false).1.parts = [] := by
  cases ps with
  | nil => exact absurd rfl hne
  | cons first rest =>
    have hnd' := List.nodup_cons.1 hnd
    have hf := hw first List.mem_cons_self
    obtain ⟨dir, parts, dst⟩ := s
    have hw1 : ∀ q ∈ rest,
        (Sink.mk dir (parts.filter (fun x => x.1 != first)) (some (f first))).lookup q = some (f q) := by
      intro q hq
      have hqp : q ≠ first := fun e => hnd'.1 (e ▸ hq)
      have := Sink.lookup_unlink ⟨dir, parts, dst⟩ q first
      simp only [Sink.unlink, Sink.lookup, hqp, if_false] at this ⊢
      rw [this]
      exact hw q (List.mem_cons_of_mem _ hq)
    have h := Sink.appendParts_ok false f rest _ hnd'.2 hw1
    have hempty : parts.filter (fun q => !(first :: rest).contains q.1) = [] := by
      apply List.filter_eq_nil_iff.2
      intro q hq
      have := List.mem_cons.1 (hall q hq)
      simp only [List.contains_cons, Bool.not_eq_true', Bool.not_eq_false, Bool.or_eq_true, beq_iff_eq,
        List.contains_iff_mem]
      exact this
    simp only [Sink.finalise, hf, Sink.unlink, h, Bool.false_eq_true, if_false,
      Sink.filter_filter_contains, hempty, List.isEmpty_nil, if_true]
    simp

/-- With `keep_parts=True` finalise succeeds and every non-first part file is still there
(the first one is always renamed into the destination). -/
theorem sink_finalise_keep (s : Sink) (first : Nat) (rest : List Nat) (f : Nat → Bytes)
    (hnd : (first :: rest).Nodup) (hw : ∀ p ∈ first :: rest, s.lookup p = some (f p)) :
    (Sink.finalise true s (first :: rest) true).2 = none ∧
      (Sink.finalise true s (first :: rest) true).1.dirExists = s.dirExists ∧
      ∀ p ∈ rest, (Sink.finalise true s (first :: rest) true).1.lookup p = some (f p) := by
  have hnd' := List.nodup_cons.1 hnd
  have hf := hw first List.mem_cons_self
  obtain ⟨dir, parts, dst⟩ := s
  have hw1 : ∀ q ∈ rest,
      (Sink.mk dir (parts.filter (fun x => x.1 != first)) (some (f first))).lookup q = some (f q) := by
    intro q hq
    have hqp : q ≠ first := fun e => hnd'.1 (e ▸ hq)
    have := Sink.lookup_unlink ⟨dir, parts, dst⟩ q first
    simp only [Sink.unlink, Sink.lookup, hqp, if_false] at this ⊢
    rw [this]
    exact hw q (List.mem_cons_of_mem _ hq)
  have h := Sink.appendParts_ok true f rest _ hnd'.2 hw1
  simp only [Sink.finalise, hf, Sink.unlink, h, if_true]
  exact ⟨by simp, by simp, hw1⟩

/-- End to end: parts written once each (any part numbers, any sizes, any order), then
finalised in the order written: the destination is the concatenation of the data, nothing
fails and the parts directory is removed. -/
theorem sink_write_then_finalise (ws : List (Nat × Bytes)) (hne : ws ≠ [])
    (hnd : (ws.map (·.1)).Nodup) :
    let r := Sink.finalise true (ws.foldl Sink.write {}) (ws.map (·.1)) false
    r.2 = none ∧ r.1.dst = some (ws.flatMap (·.2)) ∧ r.1.dirExists = false ∧ r.1.parts = [] := by
  intro r
  -- the content function: last (= only) data written under each part number
  let f : Nat → Bytes := fun p => match ws.lookup p with | some d => d | none => []
  have hlk : ∀ w ∈ ws, ws.lookup w.1 = some w.2 := Sink.assoc_lookup ws hnd
  have hw : ∀ p ∈ ws.map (·.1), (ws.foldl Sink.write {}).lookup p = some (f p) := by
    intro p hp
    obtain ⟨w, hwm, rfl⟩ := List.mem_map.1 hp
    rw [Sink.lookup_foldl_write ws hnd {} w hwm]
    simp only [f, hlk w hwm]
  have hall : ∀ q ∈ (ws.foldl Sink.write {}).parts, q.1 ∈ ws.map (·.1) := by
    intro q hq
    rcases Sink.keys_foldl_write ws {} q hq with h | h
    · exact h
    · simp at h
  have hne' : ws.map (·.1) ≠ [] := by simpa using hne
  have h1 := sink_finalise_concat _ _ false f hne' hnd hw
  have h2 := sink_finalise_cleanup _ _ f hne' hnd hw hall
  refine ⟨h2.1, ?_, h2.2.1, h2.2.2⟩
  show (Sink.finalise true _ _ false).1.dst = _
  rw [h1.1, List.flatMap_map]
  congr 1
  apply Sink.flatMap_congr'
  intro w hwm
  simp only [f, hlk w hwm]

/-- `finalise([])` is rejected (`assert len(parts) > 0`) without touching anything. -/
theorem sink_finalise_empty_list (fixed : Bool) (s : Sink) (keep : Bool) :
    Sink.finalise fixed s [] keep = (s, some .assertion) := rfl

/-- **sink_finalise_cex** (F17): the code as found raises `ValueError` on an empty non-first
part and leaves the destination half written (`"abc"` instead of `"abczz"`). -/
theorem sink_finalise_cex :
    let s := [(1, [97, 98, 99]), (2, []), (3, [122, 122])].foldl Sink.write {}
    (Sink.finalise false s [1, 2, 3] false).2 = some .valueError ∧
      (Sink.finalise false s [1, 2, 3] false).1.dst = some [97, 98, 99] ∧
      (Sink.finalise true s [1, 2, 3] false).1.dst = some [97, 98, 99, 122, 122] := by decide

/-! ## Several sinks on one file system -/

/-- The hidden parts directory is `root/.{name}.parts`: two sinks share it exactly when they have
the same root (destination directory, or `parts_base`) and the same full destination name. -/
theorem parts_dir_shared_iff (c1 c2 : SinkCfg) :
    c1.pkey = c2.pkey ↔ c1.root = c2.root ∧ c1.name = c2.name := by
  simp [SinkCfg.pkey, Prod.ext_iff]

/-- Without `parts_base` the parts-directory function is injective on destinations: different
destination files (differing in directory, suffix, case, by a prefix, …) have different parts
directories. -/
theorem parts_dir_injective_on_destinations (c1 c2 : SinkCfg) (h1 : c1.base = none) (h2 : c2.base = none) :
    c1.pkey = c2.pkey ↔ c1.dkey = c2.dkey := by
  simp [SinkCfg.pkey, SinkCfg.dkey, SinkCfg.root, h1, h2]

/-- With private `parts_base` directories the same holds even for equal destination names. -/
theorem parts_dir_distinct_of_distinct_base (c1 c2 : SinkCfg) (b1 b2 : String) (h1 : c1.base = some b1)
    (h2 : c2.base = some b2) (hb : b1 ≠ b2) : c1.pkey ≠ c2.pkey := by
  simp [SinkCfg.pkey, SinkCfg.root, h1, h2, hb]

/-- **sinks_never_interfere**: any number of sinks alive at once, with pairwise different parts
directories and destinations, under ANY interleaving of their part writes and finalises: what each
sink sees at the end is exactly what it would see had it run its own operations alone. -/
theorem sinks_never_interfere (cfgs : List SinkCfg)
    (hdist : ∀ (i j : Nat) (ci cj : SinkCfg), cfgs[i]? = some ci → cfgs[j]? = some cj → i ≠ j →
      ci.pkey ≠ cj.pkey ∧ ci.dkey ≠ cj.dkey)
    (i : Nat) (c : SinkCfg) (hc : cfgs[i]? = some c) (ops : List (Nat × SinkOp)) (fs : FS) :
    (FS.run cfgs fs ops).1.view c = Sink.runOps (fs.view c) (ownOps i ops) :=
  FS.run_view cfgs hdist i c hc ops fs

theorem runOps_writes_finalise (s : Sink) (ws : List (Nat × Bytes)) (ps : List Nat) (keep : Bool) :
    Sink.runOps s (ws.map SinkOp.write ++ [SinkOp.finalise ps keep]) =
      (Sink.finalise true (ws.foldl Sink.write s) ps keep).1 := by
  simp only [Sink.runOps, List.foldl_append, List.foldl_map, List.foldl_cons, List.foldl_nil]
  rfl

/-- The single-sink contract on the shared file system: a sink that starts with nothing of its
own there, writes parts `ws` (distinct part numbers) and finalises them in that order ends with
its destination equal to the concatenation of its own data and its parts directory removed -
whatever the other live sinks did in between. -/
theorem sink_contract_among_others (cfgs : List SinkCfg)
    (hdist : ∀ (i j : Nat) (ci cj : SinkCfg), cfgs[i]? = some ci → cfgs[j]? = some cj → i ≠ j →
      ci.pkey ≠ cj.pkey ∧ ci.dkey ≠ cj.dkey)
    (i : Nat) (c : SinkCfg) (hc : cfgs[i]? = some c) (ops : List (Nat × SinkOp)) (fs : FS)
    (hfresh : fs.view c = {}) (ws : List (Nat × Bytes)) (hne : ws ≠ []) (hnd : (ws.map (·.1)).Nodup)
    (hown : ownOps i ops = ws.map SinkOp.write ++ [SinkOp.finalise (ws.map (·.1)) false]) :
    ((FS.run cfgs fs ops).1.view c).dst = some (ws.flatMap (·.2)) ∧
      ((FS.run cfgs fs ops).1.view c).dirExists = false ∧ ((FS.run cfgs fs ops).1.view c).parts = [] := by
  rw [sinks_never_interfere cfgs hdist i c hc ops fs, hown, hfresh, runOps_writes_finalise]
  have := sink_write_then_finalise ws hne hnd
  exact ⟨this.2.1, this.2.2.1, this.2.2.2⟩

/-- **common_parts_base_cex** (known finding K24): the hypothesis is needed and the code as it is violates the contract
for two destinations with the same name in different directories that are given a COMMON
`parts_base` (replayed on the real code: `d/x.tif` ends up with the other sink's bytes, the second
finalise raises FileNotFoundError). -/
theorem common_parts_base_cex :
    let a : SinkCfg := { dir := "d", name := "x.tif", base := some "pb" }
    let b : SinkCfg := { dir := "e", name := "x.tif", base := some "pb" }
    let r := FS.run [a, b] {} [(0, .write (1, [65, 65, 65, 65])), (1, .write (1, [98, 98])),
                               (0, .finalise [1] false), (1, .finalise [1] false)]
    a.dkey ≠ b.dkey ∧ a.pkey = b.pkey ∧ (r.1.view a).dst = some [98, 98] ∧ (r.1.view b).dst = none ∧
      r.2 = [none, none, none, some .fileNotFound] := by decide

/-- non-vacuity of `sinks_never_interfere`: `dem.tif` and `dem.msk` in one directory -/
example :
    let a : SinkCfg := { dir := "d", name := "dem.tif" }
    let b : SinkCfg := { dir := "d", name := "dem.msk" }
    a.pkey ≠ b.pkey ∧ a.dkey ≠ b.dkey ∧
      ((FS.run [a, b] {} [(0, .write (1, [1])), (1, .write (1, [2])), (0, .finalise [1] false),
                         (1, .finalise [1] false)]).1.view a).dst = some [1] := by decide

/-! ## Addresses and identities -/

/-- the writer's dask token - from which `_build_name` derives the names of the shared Variable
and Lock - does not depend on the (mutable) upload id, whereas the upload object's token does -/
theorem writer_token_ignores_upload_id (b k u u' : String) : writerToken b k u = writerToken b k u' := rfl

theorem mpu_token_tracks_upload_id (b k u u' : String) (h : mpuToken b k u = mpuToken b k u') : u = u' := by
  simpa [mpuToken] using h

/-- the sink's token is determined by its destination and its parts directory -/
theorem sink_token_spec (c : SinkCfg) : sinkToken c = [c.dir ++ "/" ++ c.name, c.partsDirPath] := rfl

/-- `s3_parse_url` on addresses that are not `s3://…` -/
theorem parse_url_not_s3 (url : String) (h : url.startsWith "s3://" = false) : s3ParseUrl url = ("", "") := by
  simp [s3ParseUrl, h]

-- (`s3_parse_url(mpu.url) = (bucket, key)` is checked by the correspondence on generated addresses;
-- core `String.splitOn` does not reduce in the kernel, so no `decide` example is given.)

/-! ## Limits -/

/-- the model's accessor table is complete (the harness compares it with the protocol) -/
theorem accessors_complete (a : Acc) : a ∈ Acc.all := by cases a <;> simp [Acc.all]

/-- **limits_as_configured**: every accessor of the (repaired) file sink returns its own
keyword, or its documented default when the keyword is absent. -/
theorem limits_as_configured (kw : LimitKw) (a : Acc) :
    sinkLimit true kw a = match kw.get a with | some v => v | none => sinkDefault a := by
  cases a <;> simp [sinkLimit, LimitKw.get, sinkDefault, dictGet] <;> split <;> simp_all

/-- … with each maximum above the corresponding minimum whenever the configuration
(keywords completed by the defaults) is; in particular without keywords. -/
theorem limits_max_above_min (kw : LimitKw)
    (h1 : dictGet kw.minWriteSz (sinkDefault .minWriteSz) < dictGet kw.maxWriteSz (sinkDefault .maxWriteSz))
    (h2 : dictGet kw.minPart (sinkDefault .minPart) < dictGet kw.maxPart (sinkDefault .maxPart)) :
    sinkLimit true kw .minWriteSz < sinkLimit true kw .maxWriteSz ∧
      sinkLimit true kw .minPart < sinkLimit true kw .maxPart := by
  simpa [sinkLimit, sinkDefault] using And.intro h1 h2

theorem limits_defaults_ordered :
    sinkLimit true {} .minWriteSz < sinkLimit true {} .maxWriteSz ∧
      sinkLimit true {} .minPart < sinkLimit true {} .maxPart ∧
      s3Limit .minWriteSz < s3Limit .maxWriteSz ∧ s3Limit .minPart < s3Limit .maxPart := by decide

/-- Zero and any other integer are values, not "missing": every keyword that is given is reported as
given (a truthiness test such as `kw.get(k) or default` would lose `min_part=0`). -/
theorem limits_given_value_reported (kw : LimitKw) (a : Acc) (v : Int) (h : kw.get a = some v) :
    sinkLimit true kw a = v := by
  rw [limits_as_configured, h]

example : sinkLimit true { minPart := some 0, minWriteSz := some 0 } .minPart = 0 ∧
    sinkLimit true { minPart := some 0, minWriteSz := some 0 } .minWriteSz = 0 ∧
    sinkLimit true { minPart := some 0 } .maxPart = 10000 := by decide

/-- each accessor depends on its own keyword only -/
theorem limits_independent (kw kw' : LimitKw) (a : Acc) (h : kw.get a = kw'.get a) :
    sinkLimit true kw a = sinkLimit true kw' a := by
  rw [limits_as_configured, limits_as_configured, h]

/-- the S3 writers (`MultiPartUpload`, `DelayedS3Writer`) report the limits of the S3 multipart API -/
theorem s3_limits_spec : s3Limit .minWriteSz = 5 * 1024 * 1024 ∧ s3Limit .maxWriteSz = 5 * 1024 * 1024 * 1024 ∧
    s3Limit .minPart = 1 ∧ s3Limit .maxPart = 10000 := by decide

/-- **limits_cex** (F4): as found, `MPUFileSink(dst, min_write_sz=100, max_write_sz=1000,
min_part=2, max_part=50)` reports `max_write_sz = 100` and `max_part = 2`. -/
theorem limits_cex :
    let kw : LimitKw := { minWriteSz := some 100, maxWriteSz := some 1000, minPart := some 2, maxPart := some 50 }
    sinkLimit false kw .maxWriteSz = 100 ∧ sinkLimit false kw .maxPart = 2 ∧
      ¬ (sinkLimit false kw .minWriteSz < sinkLimit false kw .maxWriteSz) := by decide

end OdcGeo.C18
