/-
C02, final increment: qr2sample over C20's quasi-random sequence, the structure of footprint / geographic_extent, units of
coordinates, non-index objects, and links C02∘C04 (GeoboxTiles tile = public index form) and C02∘C14 (views of grid tiles).
-/
import OdcGeo.Model.C02Seq
import OdcGeo.Props.C02Glue
import OdcGeo.Props.C20Seq
import OdcGeo.Props.C04
import OdcGeo.Model.C14

namespace OdcGeo.C02
open OdcGeo.C17 (PIdx NSlice normSlice wrapNeg)

/-! ## 13. `qr2sample` -/

/-- **`qr2sample(n, padding, offset)` (C02 ∘ C20)**: exactly `n` points, every one inside the pixel rectangle shrunk by
`padding` on each side (`padding = None`: the whole rectangle) — in exact arithmetic, for every offset `≥ 0` into the
sequence and every shape that leaves room for the padding. -/
theorem qr2sample_inside (g : GeoBox) (n : Nat) (padding : Option Rat) (offset : Int) (ho : 0 ≤ offset)
    (hny : 0 ≤ g.ny) (hnx : 0 ≤ g.nx)
    (hp : ∀ pad, padding = some pad → 0 ≤ pad ∧ 2 * pad ≤ g.nx ∧ 2 * pad ≤ g.ny) :
    (qr2sample id id g n padding offset).length = n ∧
    ∀ p ∈ qr2sample id id g n padding offset,
      (padding.getD 0 ≤ p.1 ∧ p.1 ≤ g.nx - padding.getD 0) ∧ (padding.getD 0 ≤ p.2 ∧ p.2 ≤ g.ny - padding.getD 0) := by
  obtain ⟨hlen, hunit⟩ := C20.quasi_random_r2_unit_square id (fun x hx => hx) n offset ho
  refine ⟨by simp [qr2sample, hlen], ?_⟩
  intro p hp'
  simp only [qr2sample, List.mem_map] at hp'
  obtain ⟨q, hq, rfl⟩ := hp'
  obtain ⟨a1, a2, b1, b2⟩ := hunit q hq
  have hx : (0 : Rat) ≤ g.nx := by exact_mod_cast hnx
  have hy : (0 : Rat) ≤ g.ny := by exact_mod_cast hny
  cases padding with
  | none =>
    simp only [id, Option.getD_none, sub_zero]
    exact ⟨⟨mul_nonneg a1 hx, by nlinarith⟩, ⟨mul_nonneg b1 hy, by nlinarith⟩⟩
  | some pad =>
    obtain ⟨h0, h1, h2⟩ := hp pad rfl
    simp only [id, Option.getD_some]
    have wx : (0 : Rat) ≤ g.nx - 2 * pad := by linarith
    have wy : (0 : Rat) ≤ g.ny - 2 * pad := by linarith
    refine ⟨⟨?_, ?_⟩, ⟨?_, ?_⟩⟩
    · have := mul_nonneg a1 wx; linarith
    · have : q.1 * ((g.nx : Rat) - 2 * pad) ≤ 1 * ((g.nx : Rat) - 2 * pad) := mul_le_mul_of_nonneg_right a2.le wx
      linarith
    · have := mul_nonneg b1 wy; linarith
    · have : q.2 * ((g.ny : Rat) - 2 * pad) ≤ 1 * ((g.ny : Rat) - 2 * pad) := mul_le_mul_of_nonneg_right b2.le wy
      linarith

/-- **offset law**, for every rounding of the float operations: `qr2sample(n, offset=k)` is `qr2sample(n + k)` without
its first `k` points — the sample is a window of one fixed sequence. -/
theorem qr2sample_offset_law (fl fl32 : Rat → Rat) (g : GeoBox) (n k : Nat) (padding : Option Rat) :
    qr2sample fl fl32 g n padding (k : Int) = (qr2sample fl fl32 g (n + k) padding 0).drop k := by
  simp only [qr2sample, C20.quasiRandomR2, List.map_map, ← List.map_drop]
  have : (List.range (n + k)).drop k = (List.range n).map (fun i => i + k) := by
    apply List.ext_getElem?
    intro i
    simp only [List.getElem?_drop, List.getElem?_map]
    by_cases h : i < n
    · have h2 : k + i < n + k := by omega
      simp [h, h2]; omega
    · have h2 : ¬ k + i < n + k := by omega
      simp [h, h2]
  rw [this, List.map_map]
  apply List.map_congr_left
  intro i _
  simp only [Function.comp, zero_add]
  have e : ((k : Int) + (i : Int)) = (((i + k : Nat) : Int)) := by push_cast; ring
  rw [e]

example : (qr2sample id id ⟨10, 20, Aff.id, 0⟩ 3 (some 2) 1).length = 3 :=
  (qr2sample_inside ⟨10, 20, Aff.id, 0⟩ 3 (some 2) 1 (by decide) (by decide) (by decide)
    (fun pad h => by cases h; norm_num)).1

/-! ## 14. structure of `footprint` and `geographic_extent` -/

/-- **What `footprint(crs, buffer, npoints)` is made of**, for every shapely buffer `bufferF`, densification `densify`,
reprojection `reproj` and finiteness test: it needs a CRS; the footprint ring is buffered first — by `buffer` × pixel
size, and not at all for `buffer = 0`; the densification step is the longer side of the bounding box of the
**un-buffered** footprint divided by `npoints`; a target CRS equal to the geobox' CRS returns the (buffered) ring as it is,
any other CRS densifies with that step and then reprojects vertex by vertex; non-finite images are dropped; the result
carries the target CRS. -/
theorem footprint_structure (bufferF : Rat → List Pt → List Pt) (densify : Rat → List Pt → List Pt) (reproj : Pt → Pt)
    (finite : Pt → Bool) (g : GeoBox) (n m : Rat) (dst : Nat) (buffer : Rat) (npoints : Int) :
    (g.crs = 0 → footprint bufferF densify reproj finite g n m dst buffer npoints = .error .assertion) ∧
    (∀ out, footprint bufferF densify reproj finite g n m dst buffer npoints = .ok out →
      ∃ d step, footprintBufferDist g n m buffer = .ok d ∧ reprojectResolution g npoints = .ok step ∧
        out.1 = dst ∧ (buffer = 0 → d = none) ∧
        out.2 = ((if dst = g.crs then (match d with | none => extent g | some v => bufferF v (extent g))
                  else (densify step (match d with | none => extent g | some v => bufferF v (extent g))).map reproj).filter finite)) := by
  constructor
  · intro h; simp [footprint, footprintPlan, footprintBufferDist, h, bind, Except.bind]
  · intro out h
    simp only [footprint, footprintPlan, bind, Except.bind, pure, Except.pure] at h
    cases hd : footprintBufferDist g n m buffer with
    | error e => simp [hd] at h
    | ok d =>
      cases hs : reprojectResolution g npoints with
      | error e => simp [hd, hs] at h
      | ok step =>
        simp only [hd, hs, Except.ok.injEq] at h
        subst h
        refine ⟨d, step, rfl, rfl, rfl, ?_, ?_⟩
        · intro hb
          by_cases hc : g.crs = 0
          · simp [footprintBufferDist, hc] at hd
          · simp [footprintBufferDist, hc, hb] at hd; exact hd.symm
        · by_cases he : dst = g.crs <;> simp [he] <;> cases d <;> rfl

/-- `geographic_extent`: for a CRS-less or geographic geobox it is the footprint ring itself with the geobox' CRS; for a
projected one it is `footprint("epsg:4326")` with no buffer and the step `longer bbox side / 100`. -/
theorem geographic_extent_structure (densify : Rat → List Pt → List Pt) (reproj : Pt → Pt) (finite : Pt → Bool)
    (g : GeoBox) (k : CrsKind) (n m : Rat) (wgs84 : Nat) :
    (k ≠ .projected → geographicExtent densify reproj finite g k n m wgs84 = .ok (g.crs, extent g)) ∧
    (k = .projected → g.crs ≠ 0 → wgs84 ≠ g.crs → ∃ step, reprojectResolution g 100 = .ok step ∧
      geographicExtent densify reproj finite g k n m wgs84 = .ok (wgs84, ((densify step (extent g)).map reproj).filter finite)) := by
  constructor
  · intro h; cases k <;> simp_all [geographicExtent, geographicExtentIsExtent]
  · intro h hc hw
    subst h
    obtain ⟨step, hs, _⟩ := (reproject_resolution_spec g 100).2 (by decide)
    refine ⟨step, hs, ?_⟩
    have hw' : (wgs84 == g.crs) = false := by simpa using hw
    simp [geographicExtent, geographicExtentIsExtent, footprint, footprintPlan, footprintBufferDist, hc, hs, hw', bind,
      Except.bind, pure, Except.pure]

/-! ## 15. units, non-index objects -/

theorem coord_units_spec (axisUnits : String × String) :
    coordUnits .none axisUnits = ("1", "1") ∧ coordUnits .geographic axisUnits = ("degrees_north", "degrees_east") ∧
    coordUnits .projected axisUnits = axisUnits := ⟨rfl, rfl, rfl⟩

/-- An object that is not index-like is accepted by `gbox[...]` only if it is a sequence of exactly two slice-like
entries; the error class otherwise: no `len` → `TypeError`; more than two entries, a non-sequence, or fewer than two
slice-like entries → `ValueError`; one or two entries that are not slice-like → `AttributeError`. -/
theorem getitem_other_outcome (o : OtherObj) :
    (getitemOther o = .ok () ↔ (o.len = some 2 ∧ o.isSequence = true ∧ o.entriesSliceLike = true)) ∧
    (getitemOther o = .error .typeError ↔ o.len = none) ∧
    (getitemOther o = .error .attributeError ↔
      ((o.len = some 1 ∨ o.len = some 2) ∧ o.isSequence = true ∧ o.entriesSliceLike = false)) := by
  obtain ⟨len, sq, sl⟩ := o
  cases len with
  | none => simp [getitemOther]
  | some l =>
    have hl : l = 0 ∨ l = 1 ∨ l = 2 ∨ 2 < l := by omega
    rcases hl with rfl | rfl | rfl | h
    · cases sq <;> cases sl <;> simp [getitemOther]
    · cases sq <;> cases sl <;> simp [getitemOther]
    · cases sq <;> cases sl <;> simp [getitemOther]
    · have h1 : l ≠ 1 := by omega
      have h2 : l ≠ 2 := by omega
      cases sq <;> cases sl <;> simp [getitemOther, h, h1, h2]

/-! ## 16. links: C02 ∘ C04, C02 ∘ C14, flip ∘ crop -/

/-- **C02 ∘ C04**: a tile of a `GeoboxTiles` is the parent geobox indexed with the public 2-tuple of plain slices
`[ry.start:ry.stop, rx.start:rx.stop]` (through `__getitem__`'s dispatch), for well-formed tilings and any CRS tag. -/
theorem gbt_tile_is_public_index (reproj : Nat → Nat → Pt → Pt) (g : C04.GeoboxTiles) (crs : Nat)
    (iy ix : PIdx) (tile : C04.GBox) (h : g.getItem iy ix = .ok tile) :
    ∃ ry rx : NSlice, C04.getItem2 g.tiles iy ix = .ok (ry, rx) ∧
      getitem reproj ⟨g.base.ny, g.base.nx, g.base.A, crs⟩
        (.seq [.slc (some ry.start) (some ry.stop) none, .slc (some rx.start) (some rx.stop) none])
        = .ok ⟨tile.ny, tile.nx, tile.A, crs⟩ := by
  simp only [C04.GeoboxTiles.getItem, bind, Except.bind, pure, Except.pure] at h
  cases hA : C04.getItem2 g.tiles iy ix with
  | error e => rw [hA] at h; cases h
  | ok r =>
    obtain ⟨ry, rx⟩ := r
    rw [hA] at h
    simp only [Except.ok.injEq] at h
    subst h
    exact ⟨ry, rx, rfl, rfl⟩

/-- **C02 ∘ C14**: any view `gs.tile_geobox(idx)[sy, sx]` of a grid tile maps pixel `(i, j)` to
`(rx·(i + x0) + tx, ry·(j + y0) + ty)` with `(tx, ty)` the tile's corner from C14's `tileTxy` — for every rounding. -/
theorem grid_tile_view_pixel (reproj : Nat → Nat → Pt → Pt) (fl : C14.Rnd) (gs : C14.GridSpec) (k : Int × Int) (crs : Nat)
    (l : List IdxS) (g' : GeoBox)
    (h : getitem reproj ⟨(gs.tileGeobox fl k).ny, (gs.tileGeobox fl k).nx, (gs.tileGeobox fl k).aff, crs⟩ (.seq l) = .ok g') :
    ∃ x0 y0 : Int, g'.crs = crs ∧ ∀ p : Pt,
      pix2wld g' p = (gs.rx * (p.1 + x0) + (gs.tileTxy fl k).1, gs.ry * (p.2 + y0) + (gs.tileTxy fl k).2) := by
  obtain ⟨sy, sx, _, _, _, hc, _, _, hp⟩ := (getitem_seq_pixel reproj _ l).2 g' h
  refine ⟨(normSlice sx.toPIdx (gs.tileGeobox fl k).nx).start, (normSlice sy.toPIdx (gs.tileGeobox fl k).ny).start, hc, fun p => ?_⟩
  rw [hp p]
  simp [pix2wld, Aff.apply, C14.GridSpec.tileGeobox]

/-- **flip ∘ crop**: flipping a column window is the mirrored column window of the flipped geobox:
`gbox[sy, x0:x1].flipx() = gbox.flipx()[sy, nx−x1 : nx−x0]` (and rows / `flipy` likewise). -/
theorem flip_of_crop (g : GeoBox) (a b : Int) :
    (0 ≤ a ∧ a ≤ b ∧ b ≤ g.nx → ∀ sy,
      flipx (crop g (.two sy (.slc (some a) (some b)))) = crop (flipx g) (.two sy (.slc (some (g.nx - b)) (some (g.nx - a))))) ∧
    (0 ≤ a ∧ a ≤ b ∧ b ≤ g.ny → ∀ sx,
      flipy (crop g (.two (.slc (some a) (some b)) sx)) = crop (flipy g) (.two (.slc (some (g.ny - b)) (some (g.ny - a))) sx)) := by
  have wr : ∀ (n x : Int), 0 ≤ x → wrapNeg n x = x := by intro n x hx; simp [wrapNeg, hx]
  obtain ⟨ny, nx, ⟨A, B, C, D, E, F⟩, crs⟩ := g
  constructor
  · intro h sy
    simp only [flipx, crop, mulPix, normSlice] at *
    simp only [wr _ a h.1, wr _ b (by omega), wr _ (nx - b) (by omega), wr _ (nx - a) (by omega), GeoBox.mk.injEq, true_and, and_true]
    refine ⟨by omega, ?_⟩
    apply Aff.ext' <;> simp [Aff.mul_def, Aff.mul, Aff.translation, Aff.scale] <;> ring
  · intro h sx
    simp only [flipy, crop, mulPix, normSlice] at *
    simp only [wr _ a h.1, wr _ b (by omega), wr _ (ny - b) (by omega), wr _ (ny - a) (by omega), GeoBox.mk.injEq, true_and, and_true]
    refine ⟨by omega, ?_⟩
    apply Aff.ext' <;> simp [Aff.mul_def, Aff.mul, Aff.translation, Aff.scale] <;> ring

example : flipx (crop gEx (.two (.idx 1) (.slc (some 3) (some 9)))) = crop (flipx gEx) (.two (.idx 1) (.slc (some 11) (some 17))) :=
  (flip_of_crop gEx 3 9).1 (by decide) _

/-- **zoom_out ∘ pad**: for an integer factor `k ≥ 1` on a non-empty geobox, zooming out a geobox padded by `k·p`
(`k·q`) pixels is padding the zoomed-out geobox by `p` (`q`) pixels. -/
theorem zoom_out_of_pad (g : GeoBox) (k p q : Int) (hk : 1 ≤ k) (hp : 0 ≤ p) (hq : 0 ≤ q) (hny : 1 ≤ g.ny) (hnx : 1 ≤ g.nx) :
    zoomOut (pad g (k * p) (some (k * q))) (k : Rat) = (zoomOut g (k : Rat)).map (fun z => pad z p (some q)) := by
  have hk0 : (k : Rat) ≠ 0 := by exact_mod_cast (by omega : k ≠ 0)
  have hkp : (0 : Rat) < k := by exact_mod_cast (by omega : 0 < k)
  have key : ∀ (N t : Int), 1 ≤ N → 0 ≤ t → ceil1 (((N + k * t * 2 : Int) : Rat) / k) = ceil1 ((N : Rat) / k) + t * 2 := by
    intro N t hN ht
    have e : ((N + k * t * 2 : Int) : Rat) / k = (N : Rat) / k + ((t * 2 : Int) : Rat) := by
      push_cast; field_simp
    have hc : ((N : Rat) / k + ((t * 2 : Int) : Rat)).ceil = ((N : Rat) / k).ceil + t * 2 := by
      apply le_antisymm
      · apply Rat.ceil_le_iff.mpr
        have := Rat.le_ceil (x := (N : Rat) / k)
        push_cast; linarith
      · have h1 : ((N : Rat) / k).ceil - 1 < ((N : Rat) / k + ((t * 2 : Int) : Rat)).ceil - t * 2 := by
          have a := Rat.lt_ceil_iff.mp (by omega : ((N : Rat) / k).ceil - 1 < ((N : Rat) / k).ceil)
          have b := Rat.le_ceil (x := (N : Rat) / k + ((t * 2 : Int) : Rat))
          have : (((((N : Rat) / k).ceil - 1 : Int)) : Rat) < ((((N : Rat) / k + ((t * 2 : Int) : Rat)).ceil - t * 2 : Int) : Rat) := by
            push_cast at a b ⊢; linarith
          exact_mod_cast this
        omega
    have hpos : 1 ≤ ((N : Rat) / k).ceil := by
      apply Rat.lt_ceil_iff.mpr |> fun f => by
        have : ((0 : Int) : Rat) < (N : Rat) / k := by
          have : (0 : Rat) < N := by exact_mod_cast (by omega : 0 < N)
          push_cast; positivity
        have := f this; omega
    rw [e]
    unfold ceil1
    rw [hc]; omega
  simp only [zoomOut, hk0, if_false, pad, Except.map]
  rw [key g.ny q hny hq, key g.nx p hnx hp]
  simp only [Except.ok.injEq, GeoBox.mk.injEq, true_and, and_true]
  apply Aff.ext' <;> simp [Aff.mul_def, Aff.mul, Aff.translation, Aff.scale] <;> ring

example : zoomOut (pad gEx 6 (some 4)) 2 = (zoomOut gEx 2).map (fun z => pad z 3 (some 2)) := by
  have := zoom_out_of_pad gEx 2 3 2 (by decide) (by decide) (by decide) (by decide) (by decide)
  simpa using this

end OdcGeo.C02
