/-
C20 — `edge_index` and `quasi_random_r2` (`Model/C20Seq.lean`): `edge_index` walks the boundary of an `ny × nx` array
exactly once for `ny, nx ≥ 2` (and is C03's closed form there), `closed=True` appends the start; what the loop-variable
leak does on degenerate shapes; `quasi_random_r2` stays in the unit square (scaled: inside the array).
-/
import OdcGeo.Model.C20Seq
import OdcGeo.Model.C03
import OdcGeo.Props.C20

namespace OdcGeo.C20

/-! ## `edge_index` -/

/-- For `ny, nx ≥ 2` the loop model is the closed form used by C03 (`roi_boundary`). -/
theorem edge_index_eq_c03 (ny nx : Nat) (hy : 2 ≤ ny) (hx : 2 ≤ nx) :
    edgeIndex ny nx false = C03.edgeIndex nx ny := by
  unfold edgeIndex C03.edgeIndex
  simp only [if_pos hy, Bool.false_eq_true, if_false, List.append_nil]
  rfl

/-- **`edge_index` enumerates the boundary once** (`ny, nx ≥ 2`): exactly the cells of the first / last row / column, each
exactly once, `2(nx + ny) − 4` of them. -/
theorem edge_index_boundary_once (ny nx : Nat) (hy : 2 ≤ ny) (hx : 2 ≤ nx) :
    (edgeIndex ny nx false).Nodup ∧ (edgeIndex ny nx false).length = 2 * (nx + ny) - 4 ∧
    ∀ iy ix, (iy, ix) ∈ edgeIndex ny nx false ↔
      iy < ny ∧ ix < nx ∧ (iy = 0 ∨ iy = ny - 1 ∨ ix = 0 ∨ ix = nx - 1) := by
  have hmem : ∀ iy ix, (iy, ix) ∈ edgeIndex ny nx false ↔
      iy < ny ∧ ix < nx ∧ (iy = 0 ∨ iy = ny - 1 ∨ ix = 0 ∨ ix = nx - 1) := by
    intro iy ix
    unfold edgeIndex
    simp only [if_pos hy, Bool.false_eq_true, if_false, List.append_nil, List.mem_append, List.mem_map,
      List.mem_range, Prod.mk.injEq]
    constructor
    · rintro (((⟨k, hk, rfl, rfl⟩ | ⟨k, hk, rfl, rfl⟩) | ⟨k, hk, rfl, rfl⟩) | ⟨k, hk, rfl, rfl⟩) <;> omega
    · rintro ⟨h1, h2, h3⟩
      by_cases a : iy = 0
      · exact Or.inl (Or.inl (Or.inl ⟨ix, h2, a.symm, rfl⟩))
      · by_cases b : ix = nx - 1
        · exact Or.inl (Or.inl (Or.inr ⟨iy - 1, by omega, by omega, b.symm⟩))
        · by_cases c : iy = ny - 1
          · exact Or.inl (Or.inr ⟨nx - 2 - ix, by omega, c.symm, by omega⟩)
          · exact Or.inr ⟨ny - 2 - iy, by omega, by omega, by omega⟩
  refine ⟨?_, ?_, hmem⟩
  · unfold edgeIndex
    simp only [if_pos hy, Bool.false_eq_true, if_false, List.append_nil]
    have inj1 : Function.Injective (fun ix : Nat => ((0 : Nat), ix)) := fun a b h => (Prod.mk.inj h).2
    have n1 : ((List.range nx).map fun ix => ((0 : Nat), ix)).Nodup := List.Nodup.map inj1 List.nodup_range
    have n2 : ((List.range (ny - 1)).map fun k => (k + 1, nx - 1)).Nodup :=
      List.Nodup.map (fun a b h => by have := (Prod.mk.inj h).1; omega) List.nodup_range
    have n3 : ((List.range (nx - 1)).map fun k => (ny - 1, nx - 1 - 1 - k)).Nodup :=
      (List.nodup_range).map_on (fun a ha b hb h => by
        have := (Prod.mk.inj h).2; rw [List.mem_range] at ha hb; omega)
    have n4 : ((List.range (ny - 1 - 1)).map fun k => (ny - 1 - 1 - k, (0 : Nat))).Nodup :=
      (List.nodup_range).map_on (fun a ha b hb h => by
        have := (Prod.mk.inj h).1; rw [List.mem_range] at ha hb; omega)
    refine List.Nodup.append (List.Nodup.append (List.Nodup.append n1 n2 ?_) n3 ?_) n4 ?_
    · intro q h1 h2
      simp only [List.mem_map, List.mem_range] at h1 h2
      obtain ⟨a, _, rfl⟩ := h1
      obtain ⟨b, _, hb⟩ := h2
      have := (Prod.mk.inj hb).1; omega
    · intro q h1 h2
      simp only [List.mem_append, List.mem_map, List.mem_range] at h1 h2
      obtain ⟨b, hb, rfl⟩ := h2
      rcases h1 with ⟨a, _, ha⟩ | ⟨a, ha', ha⟩
      · have := (Prod.mk.inj ha).1; omega
      · have := (Prod.mk.inj ha).2; omega
    · intro q h1 h2
      simp only [List.mem_append, List.mem_map, List.mem_range] at h1 h2
      obtain ⟨b, hb, rfl⟩ := h2
      rcases h1 with (⟨a, _, ha⟩ | ⟨a, ha', ha⟩) | ⟨a, ha', ha⟩
      · have := (Prod.mk.inj ha).1; omega
      · have := (Prod.mk.inj ha).2; omega
      · have := (Prod.mk.inj ha).1; omega
  · unfold edgeIndex
    simp only [if_pos hy, Bool.false_eq_true, if_false, List.append_nil, List.length_append, List.length_map,
      List.length_range]
    omega

/-- `closed=True` is the open walk followed by the starting cell `(0, 0)`. -/
theorem edge_index_closed (ny nx : Nat) : edgeIndex ny nx true = edgeIndex ny nx false ++ [(0, 0)] := by
  unfold edgeIndex
  simp

/-- **What the loop-variable leak does on one-cell-wide and empty shapes** (as found; replayed by the correspondence):
a single row is walked forth and back, a single column down and up again (interior cells twice), and an array with
**no rows** still yields the cells of a row `0` that does not exist. -/
theorem edge_index_degenerate_cex :
    edgeIndex 1 3 false = [(0, 0), (0, 1), (0, 2), (0, 1), (0, 0)] ∧
    edgeIndex 3 1 false = [(0, 0), (1, 0), (2, 0), (1, 0)] ∧
    edgeIndex 0 3 false = [(0, 0), (0, 1), (0, 2), (0, 1), (0, 0)] ∧
    edgeIndex 3 0 false = [(1, 0), (2, 0), (1, 0)] ∧
    edgeIndex 1 1 false = [(0, 0)] ∧ edgeIndex 0 0 true = [(0, 0)] := by decide

/-! ## `quasi_random_r2` -/

/-- **`quasi_random_r2(n, offset=k ≥ 0)` returns `n` points of the unit square `[0, 1)²`** — for every rounding of the
products that keeps non-negative values non-negative (binary64 round-to-nearest does). -/
theorem quasi_random_r2_unit_square (fl : Rat → Rat) (hfl : ∀ x, 0 ≤ x → 0 ≤ fl x) (n : Nat) (offset : Int)
    (ho : 0 ≤ offset) :
    (quasiRandomR2 fl n none offset).length = n ∧
      ∀ p ∈ quasiRandomR2 fl n none offset, 0 ≤ p.1 ∧ p.1 < 1 ∧ 0 ≤ p.2 ∧ p.2 < 1 := by
  refine ⟨by simp [quasiRandomR2], ?_⟩
  intro p hp
  simp only [quasiRandomR2, List.mem_map, List.mem_range] at hp
  obtain ⟨i, _, rfl⟩ := hp
  have hidx : (0 : Rat) ≤ ((offset + (i : Int) : Int) : Rat) := by
    have : 0 ≤ offset + (i : Int) := by omega
    exact_mod_cast this
  have h1 : (0 : Rat) ≤ r2a1 := by unfold r2a1; rw [Rat.mkRat_eq_div]; norm_num
  have h2 : (0 : Rat) ≤ r2a2 := by unfold r2a2; rw [Rat.mkRat_eq_div]; norm_num
  have a := fmod1_nonneg (hfl _ (mul_nonneg hidx h1))
  have b := fmod1_nonneg (hfl _ (mul_nonneg hidx h2))
  exact ⟨a.1, a.2, b.1, b.2⟩

/-- With a `shape` the points are scaled into the array: in exact arithmetic `0 ≤ x < nx`, `0 ≤ y < ny`. -/
theorem quasi_random_r2_in_shape (n ny nx : Nat) (offset : Int) (ho : 0 ≤ offset) :
    ∀ p ∈ quasiRandomR2 id n (some (ny, nx)) offset,
      0 ≤ p.1 ∧ (0 < nx → p.1 < nx) ∧ 0 ≤ p.2 ∧ (0 < ny → p.2 < ny) := by
  intro p hp
  simp only [quasiRandomR2, List.mem_map, List.mem_range, id] at hp
  obtain ⟨i, _, rfl⟩ := hp
  have hidx : (0 : Rat) ≤ ((offset + (i : Int) : Int) : Rat) := by
    have : 0 ≤ offset + (i : Int) := by omega
    exact_mod_cast this
  have h1 : (0 : Rat) ≤ r2a1 := by unfold r2a1; rw [Rat.mkRat_eq_div]; norm_num
  have h2 : (0 : Rat) ≤ r2a2 := by unfold r2a2; rw [Rat.mkRat_eq_div]; norm_num
  have a := fmod1_nonneg (mul_nonneg hidx h1)
  have b := fmod1_nonneg (mul_nonneg hidx h2)
  have hnx : (0 : Rat) ≤ nx := Nat.cast_nonneg nx
  have hny : (0 : Rat) ≤ ny := Nat.cast_nonneg ny
  simp only [npFmod1]
  refine ⟨mul_nonneg a.1 hnx, fun h => ?_, mul_nonneg b.1 hny, fun h => ?_⟩
  · have : (0 : Rat) < nx := by exact_mod_cast h
    nlinarith [a.2]
  · have : (0 : Rat) < ny := by exact_mod_cast h
    nlinarith [b.2]

/-! ## non-vacuity -/

example : edgeIndex 3 4 false =
    [(0, 0), (0, 1), (0, 2), (0, 3), (1, 3), (2, 3), (2, 2), (2, 1), (2, 0), (1, 0)] := by decide
example : (quasiRandomR2 id 2 none 0).length = 2 := by decide

end OdcGeo.C20
