/-
C10 × C20 / C09 / C02 — the numeric helpers of `odc/geo/math.py` are modelled twice: in `OdcGeo.Model.C03` (planning:
C03, C10) and in `OdcGeo.Model.C20` (helper contracts), `is_affine_st` also in C09 and the tolerance constant in C02.
These theorems show that the copies are the same functions, so a contract proved about one holds for the other
(e.g. C20's `snap_scale_idem` for the `snapScale` the paste plan uses).
-/
import OdcGeo.Model.C03
import OdcGeo.Model.C20
import OdcGeo.Model.C09
import OdcGeo.Model.C02
import OdcGeo.Lemmas.C20
namespace OdcGeo.C10

theorem link_split_float : C03.splitFloat = C20.splitFloat := rfl
theorem link_is_almost_int : C03.isAlmostInt = C20.isAlmostInt := rfl

/-- `maybe_int`: C03 returns the whole part itself, C20 the `int(...)` of it — the same number, because the whole part
of `split_float` is an integer. -/
theorem link_maybe_int (x tol : Rat) : C03.maybeInt x tol = C20.maybeInt x tol := by
  obtain ⟨⟨k, hk⟩, _⟩ := C20.splitFloat_spec x
  have ht : ((C20.trunc (C20.splitFloat x).1 : Int) : Rat) = (C20.splitFloat x).1 := by
    rw [hk]
    unfold C20.trunc
    split_ifs <;> simp
  unfold C03.maybeInt C20.maybeInt C20.maybeInt?
  show (if C03.rabs (C20.splitFloat x).2 < tol then (C20.splitFloat x).1 else x) = _
  by_cases h : C20.rabs (C20.splitFloat x).2 < tol
  · have h' : C03.rabs (C20.splitFloat x).2 < tol := h
    simp only [h, h', if_true]
    exact ht.symm
  · have h' : ¬ C03.rabs (C20.splitFloat x).2 < tol := h
    simp only [h, h', if_false]

/-- `snap_scale`: whenever C20's (error-aware) model succeeds — always for a positive tolerance, C20.snap_scale_total —
its value is what the planning model computes. -/
theorem link_snap_scale (s tol r : Rat) (h : C20.snapScale s tol = .ok r) : C03.snapScale s tol = r := by
  unfold C20.snapScale at h
  unfold C03.snapScale
  by_cases c1 : C20.rabs s ≥ 1 - tol
  · have c1' : C03.rabs s ≥ 1 - tol := c1
    rw [if_pos c1] at h
    rw [if_pos c1', link_maybe_int]
    simpa using h
  · have c1' : ¬ C03.rabs s ≥ 1 - tol := c1
    rw [if_neg c1] at h
    rw [if_neg c1']
    by_cases c2 : C20.rabs s < tol
    · have c2' : C03.rabs s < tol := c2
      rw [if_pos c2] at h
      rw [if_pos c2']
      simpa using h
    · have c2' : ¬ C03.rabs s < tol := c2
      rw [if_neg c2] at h
      rw [if_neg c2']
      by_cases c3 : s = 0
      · rw [if_pos c3] at h; simp at h
      · rw [if_neg c3] at h
        obtain ⟨⟨k, hk⟩, _⟩ := C20.splitFloat_spec (1 / s)
        have ht : ((C20.trunc (C20.splitFloat (1 / s)).1 : Int) : Rat) = (C20.splitFloat (1 / s)).1 := by
          rw [hk]
          unfold C20.trunc
          split_ifs <;> simp
        show (if C03.rabs (C20.splitFloat (1 / s)).2 < tol then 1 / (C20.splitFloat (1 / s)).1 else s) = r
        unfold C20.maybeInt? at h
        by_cases c4 : C20.rabs (C20.splitFloat (1 / s)).2 < tol
        · have c4' : C03.rabs (C20.splitFloat (1 / s)).2 < tol := c4
          simp only [c4, if_true] at h
          rw [if_pos c4']
          split_ifs at h with c5
          simp only [Except.ok.injEq] at h
          rw [← h, ht]
        · have c4' : ¬ C03.rabs (C20.splitFloat (1 / s)).2 < tol := c4
          simp only [c4, if_false] at h
          rw [if_neg c4']
          simpa using h

theorem link_tol_st : C03.tol1em10 = C09.tolST ∧ C03.tol1em10 = C02.tolST := by
  constructor <;> decide +kernel

/-- `is_affine_st` with its default tolerance: the planning model's and C09's are the same predicate -/
theorem link_is_affine_st (A : Aff) : C03.isAffineST A = C09.isAffineST A := by
  have e : C03.tol1em10 = C09.tolST := link_tol_st.1
  unfold C03.isAffineST C09.isAffineST
  rw [e]
  have r : ∀ x, C03.rabs x = C09.rabs x := fun _ => rfl
  rw [r, r]

example : C20.snapScale (1 / 3 + 1 / 3000) (1 / 100) = .ok (1 / 3) := by decide +kernel

end OdcGeo.C10
