/-
C17 — `roi_boundary` (listed among the observables of C17; the model is the one of `Model/C03.lean`, which
C03's planning uses and whose driver op `c03 bnd` ties it to the code on every run).

Property theorems only: the sample points lie on the perimeter of the region, the four corners are among
them, and there are `4·(pts_per_side − 1)` of them, for every region and every `pts_per_side ≥ 2`.
-/
import OdcGeo.Model.C03
import Mathlib.Tactic.Linarith
import Mathlib.Tactic.Ring
import Mathlib.Tactic.FieldSimp
import Mathlib.Tactic.Positivity
import Mathlib.Algebra.Order.Field.Rat

namespace OdcGeo.C17
open OdcGeo.C03

/-- value `i` of `np.linspace(a, b, n)` -/
def linspaceAt (a b : Int) (n i : Nat) : Rat :=
  (a : Rat) + ((i : Int) : Rat) * (((b - a : Int) : Rat) / (((n - 1 : Nat) : Int) : Rat))

theorem linspace_getElem? (a b : Int) (n i : Nat) (hi : i < n) :
    (linspace a b n)[i]? = some (linspaceAt a b n i) := by
  simp [linspace, linspaceAt, hi]

theorem linspace_getElem?_none (a b : Int) (n i : Nat) (hi : n ≤ i) : (linspace a b n)[i]? = none := by
  simp [linspace, hi]

theorem linspaceAt_first (a b : Int) (n : Nat) : linspaceAt a b n 0 = a := by simp [linspaceAt]

theorem linspaceAt_last (a b : Int) (n : Nat) (hn : 2 ≤ n) : linspaceAt a b n (n - 1) = b := by
  have h1 : (((n - 1 : Nat) : Int) : Rat) ≠ 0 := by
    have : 0 < n - 1 := by omega
    exact_mod_cast (Nat.pos_iff_ne_zero.mp this)
  simp only [linspaceAt]
  field_simp
  push_cast
  ring

theorem linspaceAt_between (a b : Int) (n i : Nat) (hn : 2 ≤ n) (hi : i < n) (hab : a ≤ b) :
    (a : Rat) ≤ linspaceAt a b n i ∧ linspaceAt a b n i ≤ b := by
  have hpos : (0 : Rat) < (((n - 1 : Nat) : Int) : Rat) := by
    have : 0 < n - 1 := by omega
    exact_mod_cast this
  have hd : (0 : Rat) ≤ ((b - a : Int) : Rat) := by exact_mod_cast (by omega : (0 : Int) ≤ b - a)
  have hi0 : (0 : Rat) ≤ ((i : Int) : Rat) := by exact_mod_cast (Int.natCast_nonneg i)
  have hile : ((i : Int) : Rat) ≤ (((n - 1 : Nat) : Int) : Rat) := by
    exact_mod_cast (by omega : i ≤ n - 1)
  have hq : (0 : Rat) ≤ ((b - a : Int) : Rat) / (((n - 1 : Nat) : Int) : Rat) := div_nonneg hd hpos.le
  constructor
  · simp only [linspaceAt]
    have := mul_nonneg hi0 hq
    linarith
  · simp only [linspaceAt]
    have h1 : ((i : Int) : Rat) * (((b - a : Int) : Rat) / (((n - 1 : Nat) : Int) : Rat))
        ≤ (((n - 1 : Nat) : Int) : Rat) * (((b - a : Int) : Rat) / (((n - 1 : Nat) : Int) : Rat)) :=
      mul_le_mul_of_nonneg_right hile hq
    have h2 : (((n - 1 : Nat) : Int) : Rat) * (((b - a : Int) : Rat) / (((n - 1 : Nat) : Int) : Rat))
        = ((b - a : Int) : Rat) := by field_simp
    have h3 : ((b - a : Int) : Rat) = (b : Rat) - a := by push_cast; ring
    linarith

/-- membership in `edge_index((n, n))` (open ring): one of the four sides -/
theorem mem_edgeIndex (n iy ix : Nat) (hn : 2 ≤ n) (h : (iy, ix) ∈ edgeIndex n n) :
    iy < n ∧ ix < n ∧ (iy = 0 ∨ ix = n - 1 ∨ iy = n - 1 ∨ ix = 0) := by
  simp only [edgeIndex, List.mem_append, List.mem_map, List.mem_range, Prod.mk.injEq] at h
  rcases h with ((⟨k, hk, rfl, rfl⟩ | ⟨k, hk, rfl, rfl⟩) | ⟨k, hk, rfl, rfl⟩) | ⟨k, hk, rfl, rfl⟩
  · exact ⟨by omega, hk, Or.inl rfl⟩
  · exact ⟨by omega, by omega, Or.inr (Or.inl rfl)⟩
  · exact ⟨by omega, by omega, Or.inr (Or.inr (Or.inl rfl))⟩
  · exact ⟨by omega, by omega, Or.inr (Or.inr (Or.inr rfl))⟩

theorem mem_roiBoundary (roi : ROI) (pps : Nat) (p : Rat × Rat) (h : p ∈ roiBoundary roi pps) :
    ∃ iy ix, (iy, ix) ∈ edgeIndex pps pps ∧ ix < pps ∧ iy < pps ∧
      p = (linspaceAt roi.2.start roi.2.stop pps ix, linspaceAt roi.1.start roi.1.stop pps iy) := by
  simp only [roiBoundary, List.mem_filterMap] at h
  obtain ⟨⟨iy, ix⟩, hmem, hval⟩ := h
  by_cases hx : ix < pps
  · by_cases hy : iy < pps
    · refine ⟨iy, ix, hmem, hx, hy, ?_⟩
      simp only [linspace_getElem? _ _ _ _ hx, linspace_getElem? _ _ _ _ hy] at hval
      exact (Option.some.inj hval).symm
    · simp only [linspace_getElem? _ _ _ _ hx, linspace_getElem?_none _ _ _ _ (Nat.le_of_not_lt hy)] at hval
      exact absurd hval (by simp)
  · simp only [linspace_getElem?_none _ _ _ _ (Nat.le_of_not_lt hx)] at hval
    exact absurd hval (by simp)

/-- **Perimeter.**  Every point `roi_boundary` returns lies inside the closed rectangle of the region and on
one of its four sides. -/
theorem roi_boundary_on_perimeter (roi : ROI) (pps : Nat) (hn : 2 ≤ pps)
    (hx : roi.2.start ≤ roi.2.stop) (hy : roi.1.start ≤ roi.1.stop) (p : Rat × Rat)
    (h : p ∈ roiBoundary roi pps) :
    ((roi.2.start : Rat) ≤ p.1 ∧ p.1 ≤ roi.2.stop ∧ (roi.1.start : Rat) ≤ p.2 ∧ p.2 ≤ roi.1.stop) ∧
    (p.2 = roi.1.start ∨ p.1 = roi.2.stop ∨ p.2 = roi.1.stop ∨ p.1 = roi.2.start) := by
  obtain ⟨iy, ix, hmem, hix, hiy, rfl⟩ := mem_roiBoundary roi pps p h
  have bx := linspaceAt_between roi.2.start roi.2.stop pps ix hn hix hx
  have by' := linspaceAt_between roi.1.start roi.1.stop pps iy hn hiy hy
  refine ⟨⟨bx.1, bx.2, by'.1, by'.2⟩, ?_⟩
  obtain ⟨_, _, hside⟩ := mem_edgeIndex pps iy ix hn hmem
  rcases hside with rfl | rfl | rfl | rfl
  · exact Or.inl (linspaceAt_first _ _ _)
  · exact Or.inr (Or.inl (linspaceAt_last _ _ _ hn))
  · exact Or.inr (Or.inr (Or.inl (linspaceAt_last _ _ _ hn)))
  · exact Or.inr (Or.inr (Or.inr (linspaceAt_first _ _ _)))

theorem roiBoundary_mem_of_index (roi : ROI) (pps iy ix : Nat) (hmem : (iy, ix) ∈ edgeIndex pps pps)
    (hix : ix < pps) (hiy : iy < pps) :
    (linspaceAt roi.2.start roi.2.stop pps ix, linspaceAt roi.1.start roi.1.stop pps iy) ∈ roiBoundary roi pps := by
  simp only [roiBoundary, List.mem_filterMap]
  exact ⟨(iy, ix), hmem, by simp [linspace_getElem? _ _ _ _ hix, linspace_getElem? _ _ _ _ hiy]⟩

/-- **Corners.**  The four corners of the region are among the sample points (so an affine image of the
region is bracketed by the images of the samples: `Lemmas/C03`'s corner argument). -/
theorem roi_boundary_corners (roi : ROI) (pps : Nat) (hn : 2 ≤ pps) :
    ((roi.2.start : Rat), (roi.1.start : Rat)) ∈ roiBoundary roi pps ∧
    ((roi.2.stop : Rat), (roi.1.start : Rat)) ∈ roiBoundary roi pps ∧
    ((roi.2.stop : Rat), (roi.1.stop : Rat)) ∈ roiBoundary roi pps ∧
    ((roi.2.start : Rat), (roi.1.stop : Rat)) ∈ roiBoundary roi pps := by
  have e00 : (0, 0) ∈ edgeIndex pps pps := by
    unfold edgeIndex
    exact List.mem_append_left _ (List.mem_append_left _ (List.mem_append_left _
      (List.mem_map.mpr ⟨0, List.mem_range.mpr (by omega), rfl⟩)))
  have e0n : (0, pps - 1) ∈ edgeIndex pps pps := by
    unfold edgeIndex
    exact List.mem_append_left _ (List.mem_append_left _ (List.mem_append_left _
      (List.mem_map.mpr ⟨pps - 1, List.mem_range.mpr (by omega), rfl⟩)))
  have enn : (pps - 1, pps - 1) ∈ edgeIndex pps pps := by
    unfold edgeIndex
    refine List.mem_append_left _ (List.mem_append_left _ (List.mem_append_right _
      (List.mem_map.mpr ⟨pps - 2, List.mem_range.mpr (by omega), ?_⟩)))
    have : pps - 2 + 1 = pps - 1 := by omega
    simp [this]
  have en0 : (pps - 1, 0) ∈ edgeIndex pps pps := by
    unfold edgeIndex
    refine List.mem_append_left _ (List.mem_append_right _
      (List.mem_map.mpr ⟨pps - 2, List.mem_range.mpr (by omega), ?_⟩))
    simp
  have h0 : 0 < pps := by omega
  have hl : pps - 1 < pps := by omega
  have m1 := roiBoundary_mem_of_index roi pps 0 0 e00 h0 h0
  have m2 := roiBoundary_mem_of_index roi pps 0 (pps - 1) e0n hl h0
  have m3 := roiBoundary_mem_of_index roi pps (pps - 1) (pps - 1) enn hl hl
  have m4 := roiBoundary_mem_of_index roi pps (pps - 1) 0 en0 h0 hl
  simp only [linspaceAt_first, linspaceAt_last _ _ _ hn] at m1 m2 m3 m4
  exact ⟨m1, m2, m3, m4⟩

/-- **Count.**  `4·(pts_per_side − 1)` points: the open ring visits every perimeter sample once. -/
theorem roi_boundary_length (roi : ROI) (pps : Nat) (hn : 2 ≤ pps) :
    (roiBoundary roi pps).length = 4 * (pps - 1) := by
  have key : ∀ q ∈ edgeIndex pps pps,
      ((match (linspace roi.2.start roi.2.stop pps)[q.2]?, (linspace roi.1.start roi.1.stop pps)[q.1]? with
        | some x, some y => some (x, y)
        | _, _ => none) : Option (Rat × Rat)).isSome = true := by
    rintro ⟨iy, ix⟩ hq
    obtain ⟨hy, hx, _⟩ := mem_edgeIndex pps iy ix hn hq
    simp [linspace_getElem? _ _ _ _ hx, linspace_getElem? _ _ _ _ hy]
  have hlen : (roiBoundary roi pps).length = (edgeIndex pps pps).length := by
    simp only [roiBoundary]
    rw [List.length_filterMap_eq_countP]
    rw [List.countP_eq_length.mpr]
    intro q hq
    exact key q hq
  rw [hlen]
  simp only [edgeIndex, List.length_append, List.length_map, List.length_range]
  omega

/-- non-trivial instance: 3 points per side on a 4 × 6 region -/
example : roiBoundary (⟨0, 4⟩, ⟨10, 16⟩) 3
    = [(10, 0), (13, 0), (16, 0), (16, 2), (16, 4), (13, 4), (10, 4), (10, 2)] := by decide +kernel

end OdcGeo.C17
