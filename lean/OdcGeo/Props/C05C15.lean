/-
C05 ∘ C15 — where the dask writer's geo-registration tags come from.

`_tifffile.geotiff_metadata(geobox, nodata)` does not compute GeoTIFF tags: it writes a tiny image through the GDAL writer of
property C15 — `to_cog(xr_zeros(geobox[:2, :2]), nodata=nodata, compress=None, overview_levels=[])` — and copies the tags GDAL
produced (`_shared.GEOTIFF_TAGS`) into its own header.  Composed with the C15 call-trace model (`Model/C15Glue.lean`) this
says what GDAL is asked for: ONE in-memory dataset of the cropped GeoBox's size, carrying the GeoBox's transform and CRS, the
`nodata` of the array when there is one, uncompressed, written once, no overviews, nothing touched on disk.  Together with
`Cog.encodeTransform` / `tags_encode_affine` (GDAL reference semantics) the copied tags decode to the GeoBox's affine.
-/
import OdcGeo.Props.C15Glue

set_option linter.unusedVariables false
set_option linter.unusedSimpArgs false

namespace OdcGeo.C05
open OdcGeo.C15 (V Dict Ev Loc Ret toCog writeCogEntry writeCogEntryWith writeCog writeCogFrom)

/-- the call `geotiff_metadata` makes; `h × w` is the shape of `geobox[:2, :2]` (1 or 2 per side), `xr_zeros` is float64 -/
def geotiffMetadataCall (nodata : V) (h w : Nat) : OdcGeo.C15.CArgs :=
  { im := { shape := [h, w], g := some ⟨h, w⟩, dtype := "float64", isFloat := true },
    dst := .mem, levels := some [], extra := [("nodata", nodata), ("compress", .none)] }

/-- `geotiff_metadata_via_rio`: the GDAL writer is asked for exactly one uncompressed in-memory dataset of the cropped size with
the GeoBox's transform / CRS and the array's nodata, written in one shot; the call cannot fail and leaves nothing behind -/
theorem geotiff_metadata_via_rio (nodata : V) (h w : Nat) (hh : 1 ≤ h ∧ h ≤ 2) (hw : 1 ≤ w ∧ w ≤ 2) :
    ∃ opts, toCog (geotiffMetadataCall nodata h w) =
        ([.openW (.anon 0) opts, .write [h, w] none none, .close], .ok (.bytesOf (.anon 0))) ∧
      Dict.get opts "nodata" = (if nodata = .none then none else some nodata) ∧
      Dict.get opts "compress" = some .none ∧
      Dict.get opts "transform" = some (.ext "transform") ∧ Dict.get opts "crs" = some (.ext "crs") ∧
      Dict.get opts "width" = some (.int w) ∧ Dict.get opts "height" = some (.int h) ∧
      Dict.get opts "blockxsize" = some (.int 16) ∧ Dict.get opts "blockysize" = some (.int 16) := by
  have hl : OdcGeo.C15.layoutOf [h, w] (some ⟨h, w⟩) = .ok ⟨1, h, w, false⟩ := by
    simp [OdcGeo.C15.layoutOf, OdcGeo.C15.normLayout]
  have hrs : OdcGeo.C15.resamplingS2rio "nearest" = some "nearest" := by decide
  have hkw : Dict.getNone [("nodata", nodata), ("compress", V.none)] "nodata" = nodata := by
    simp [Dict.getNone, Dict.get]
  have hwo : Dict.without [("nodata", nodata), ("compress", V.none)] ["nodata"] = [("compress", V.none)] := by
    simp [Dict.without]
  refine ⟨OdcGeo.C15.memOpenKw (OdcGeo.C15.rioOpts ⟨1, h, w, false⟩ "float64" true 512 nodata [("compress", V.none)]), ?_, ?_⟩
  · unfold toCog writeCogEntry writeCogEntryWith writeCog writeCogFrom geotiffMetadataCall
    simp only [hkw, hwo, hl, OdcGeo.C15.levelsFor, List.length_nil, if_true, Option.getD_none, hrs]
    by_cases hn : nodata = .none
    · subst hn; simp [OdcGeo.C15.writeEvents]
    · simp [hn, OdcGeo.C15.writeEvents]
  · have base : ∀ k, k ≠ "driver" → Dict.get (OdcGeo.C15.memOpenKw (OdcGeo.C15.rioOpts ⟨1, h, w, false⟩ "float64" true 512 nodata [("compress", V.none)])) k =
        Dict.get (OdcGeo.C15.rioOpts ⟨1, h, w, false⟩ "float64" true 512 nodata [("compress", V.none)]) k := by
      intro k hk
      unfold OdcGeo.C15.memOpenKw
      rw [OdcGeo.C15.Dict.get_cons]
      have : ¬ "driver" = k := fun e => hk e.symm
      simp [this]
    have hbx : adjustBlocksize 512 w = 16 := by
      have : w = 1 ∨ w = 2 := by omega
      rcases this with rfl | rfl <;> decide
    have hby : adjustBlocksize 512 h = 16 := by
      have : h = 1 ∨ h = 2 := by omega
      rcases this with rfl | rfl <;> decide
    refine ⟨?_, ?_, ?_, ?_, ?_, ?_, ?_, ?_⟩ <;> rw [base _ (by decide), OdcGeo.C15.rio_opts_precedence] <;>
      simp [Dict.lastGet, Dict.get, OdcGeo.C15.baseOpts, hbx, hby]

example : ∃ opts, toCog (geotiffMetadataCall (.int 255) 2 2) =
    ([.openW (.anon 0) opts, .write [2, 2] none none, .close], .ok (.bytesOf (.anon 0))) ∧ Dict.get opts "nodata" = some (.int 255) := by
  obtain ⟨o, h1, h2, _⟩ := geotiff_metadata_via_rio (.int 255) 2 2 (by decide) (by decide)
  exact ⟨o, h1, by simpa using h2⟩

end OdcGeo.C05
