/-
C09 — GCP-registered sources through `xr_reproject(<CRS>)` (model branch `.gcp` of Model/C09Reproject.lean):
the identity fast path is never taken, so no side condition is needed; with a light invariant on the CRS
coordinate the statement holds after every finite history of admissible operations.  Additive.
-/
import OdcGeo.Props.C09C11

namespace OdcGeo.C09
open OdcGeo

/-- `compute_output_geobox` for a GCP source: always a freshly computed, axis-aligned grid in the requested CRS -/
theorem output_geobox_wellformed_gcp (gg : GcpBox) (sc c : Crs) (p : Proj) (a : C11.GridArgs) (dst : GeoBox)
    (h : outputGeoboxOf (.gcp gg) sc c p a = .ok dst) :
    dst.crs = some c ∧ 1 ≤ dst.ny ∧ 1 ≤ dst.nx ∧ dst.A.b = 0 ∧ dst.A.d = 0 := by
  unfold outputGeoboxOf at h
  simp only at h
  split at h
  · cases h
  · rename_i hco
    rcases computeOutputCp_cases _ _ _ _ _ _ _ _ _ hco with ⟨_, hg, _⟩ | ⟨gr, res, ho, _⟩
    · cases hg
    · cases ho
  · rename_i gr hco
    rcases computeOutputCp_cases _ _ _ _ _ _ _ _ _ hco with ⟨ho, _⟩ | ⟨gr', res, ho, hf⟩
    · cases ho
    · cases ho
      obtain ⟨hb, hd, hn⟩ := fromBbox_ok_aligned _ _ _ _ _ _ _ hf
      unfold gridToGeoBox at h
      split at h
      · cases h
      · rename_i hneg
        simp only [Except.ok.injEq] at h
        subst h
        refine ⟨rfl, ?_, ?_, hb, hd⟩
        · rcases hn with ⟨h1, _⟩ | ⟨ny, nx, _, h1, _, h3, _⟩
          · simp only; omega
          · simp only; omega
        · rcases hn with ⟨_, h1⟩ | ⟨ny, nx, _, _, h2, _, h4⟩
          · simp only; omega
          · simp only; omega

/-- **xr_reproject_crs_geobox_gcp** — `xr_reproject(src, <CRS>, **options)` for a source registered with ground
control points: for every source array with dims `(time?) y x (band?)` whose recovered box is the GCP box `gg`, every
destination CRS (the box's own CRS included), every option set and other keywords, whenever the call succeeds the
GeoBox recovered from the output is exactly the axis-aligned grid `compute_output_geobox(gg, c, **options)` describes, in
CRS `c`, with at least one pixel per axis; attrs pruned, `grid_mapping = spatial_ref`.  No side condition. -/
theorem xr_reproject_crs_geobox_gcp (src : XArr) (sc0 : Option Crs) (pre post : List String) (gg : GcpBox) (c : Crs)
    (p : Proj) (a : C11.GridArgs) (extra : List (String × KwVal)) (nd : Bool) (out : XArr)
    (hshape : DimsShape src sc0 pre post) (hrec : recover src = .ok (.gcp gg))
    (hextra : ∀ kv ∈ extra, kv.1 ∉ gboxKeys)
    (h : xrReprojectDa src (.crs c p) a extra nd = .ok out) :
    ∃ sc dst, gg.crs = some sc ∧ outputGeoboxOf (.gcp gg) sc c p a = .ok dst ∧ recover out = .ok (.lin dst) ∧
      dst.crs = some c ∧ dst.A.b = 0 ∧ dst.A.d = 0 ∧ 1 ≤ dst.ny ∧ 1 ≤ dst.nx ∧
      (∀ k ∈ out.attrs, k ∉ spatialAttributes) ∧ out.gridMapping = some "spatial_ref" := by
  obtain ⟨r, sc, dst, hr, hsc, hd, hasm⟩ := xrReprojectDa_ok src c p a extra nd out hextra h
  rw [hrec] at hr
  simp only [Except.ok.injEq] at hr
  subst hr
  obtain ⟨hp1, hp2⟩ := reproject_prunes src dst _ out hasm
  obtain ⟨hc, hny, hnx, hb, hdd⟩ := output_geobox_wellformed_gcp gg sc c p a dst hd
  exact ⟨sc, dst, hsc, hd, reproject_geobox src sc0 pre post dst c _ out hshape hc hny hnx (fun _ => ⟨hb, hdd⟩) hasm,
    hc, hb, hdd, hny, hnx, hp1, hp2⟩

/-! ### histories of a GCP-registered array -/

/-- the CRS coordinate (with its control points) stays the one located coordinate of the array -/
structure GInv (cn : String) (cc : CrsCoord) (a : XArr) : Prop where
  cnDim : cn ∉ a.dims
  crsLk : a.coords.lookup cn = some (.crs cc)
  scan : crsScan a.coords = [cc]
  crsKeys : ∀ k c, (k, Coord.crs c) ∈ a.coords → k = cn
  gm : a.gridMapping = some cn ∨ a.gridMapping = none

theorem ginv_locate (cn : String) (cc : CrsCoord) (a : XArr) (hI : GInv cn cc a) : locateCrsCoords a = [cc] := by
  unfold locateCrsCoords
  rcases hI.gm with h | h
  · rw [h]
    simp only [hI.crsLk]
  · rw [h]
    exact hI.scan

theorem notcrs_match (x : Coord) (h : ∀ c', x ≠ Coord.crs c') :
    (match x with | Coord.crs c' => some c' | _ => none) = (none : Option CrsCoord) := by
  cases x with
  | crs c' => exact absurd rfl (h c')
  | axis _ _ _ => rfl
  | other _ => rfl
  | scalar => rfl

theorem ginv_step (cn : String) (cc : CrsCoord) (a a' : XArr) (op : Op) (hI : GInv cn cc a)
    (hop : applyOp a op = .ok a') : GInv cn cc a' := by
  cases op with
  | arith =>
    simp only [applyOp, Except.ok.injEq] at hop
    subst hop
    exact ⟨hI.cnDim, hI.crsLk, hI.scan, hI.crsKeys, Or.inr rfl⟩
  | astype =>
    simp only [applyOp, Except.ok.injEq] at hop
    subst hop
    exact ⟨hI.cnDim, hI.crsLk, hI.scan, hI.crsKeys, Or.inr rfl⟩
  | pickle =>
    simp only [applyOp, Except.ok.injEq] at hop
    subst hop
    exact hI
  | isel d ix =>
    simp only [applyOp] at hop
    split at hop
    · cases hop
    · rename_i hdim
      have hd : d ∈ a.dims := by simpa using hdim
      have hne : cn ≠ d := fun h => hI.cnDim (h ▸ hd)
      -- the coordinate named like the indexed dimension is not a CRS coordinate
      have hnot : ∀ c0, (d, c0) ∈ a.coords → ∀ c', c0 ≠ Coord.crs c' := by
        intro c0 hm c' hc
        subst hc
        exact hne (hI.crsKeys d c' hm).symm
      have key : ∀ f : Coord → Coord, (∀ c0, (∀ c', c0 ≠ Coord.crs c') → ∀ c', f c0 ≠ Coord.crs c') →
          (crsScan (mapCoord d f a.coords) = [cc] ∧ (mapCoord d f a.coords).lookup cn = some (.crs cc) ∧
            ∀ k c, (k, Coord.crs c) ∈ mapCoord d f a.coords → k = cn) := by
        intro f hf
        refine ⟨?_, ?_, ?_⟩
        · rw [crsScan_mapCoord d f a.coords (fun k c hm hk => by
            subst hk
            have h1 := hnot c hm
            have h2 := hf c h1
            cases hfc : f c <;> cases hc : c <;> first | rfl | exact absurd hfc (h2 _) | exact absurd hc (h1 _))]
          exact hI.scan
        · rw [lookup_mapCoord_ne d cn f a.coords hne]
          exact hI.crsLk
        · intro k c hm
          obtain ⟨c0, hm0, hcase⟩ := mem_mapCoord d f a.coords k (.crs c) hm
          rcases hcase with h | ⟨hk, h⟩
          · subst h
            exact hI.crsKeys k c hm0
          · subst hk
            exact absurd h.symm (hf c0 (hnot c0 hm0) c)
      split at hop
      · cases hop
      · cases ix with
        | slc start stop step =>
          simp only at hop
          split at hop
          · cases hop
          · simp only [Except.ok.injEq] at hop
            subst hop
            obtain ⟨k1, k2, k3⟩ := key (iselCoord · start stop (step.getD 1)) (by
              intro c0 h0 c'
              cases c0 <;> simp_all [iselCoord])
            exact ⟨hI.cnDim, k2, k1, k3, hI.gm⟩
        | int i =>
          simp only at hop
          split at hop
          · cases hop
          · simp only [Except.ok.injEq] at hop
            subst hop
            obtain ⟨k1, k2, k3⟩ := key (fun _ => Coord.scalar) (by intro c0 _ c'; simp)
            exact ⟨fun hm => hI.cnDim (List.mem_filter.mp hm).1, k2, k1, k3, hI.gm⟩

theorem ginv_ops (cn : String) (cc : CrsCoord) (ops : List Op) :
    ∀ a a' : XArr, GInv cn cc a → applyOps a ops = .ok a' → GInv cn cc a' := by
  induction ops with
  | nil =>
    intro a a' hI h
    simp only [applyOps, Except.ok.injEq] at h
    subst h
    exact hI
  | cons op rest ih =>
    intro a a' hI h
    simp only [applyOps] at h
    split at h
    · cases h
    · rename_i a1 h1
      exact ih a1 a' (ginv_step cn cc a a1 op hI h1) h

/-- what is recovered from an array whose located CRS coordinate carries control points: a GCP box with those points and
that CRS, or nothing -/
theorem recover_gcp_kind (cn : String) (cc : CrsCoord) (pts : List Gcp) (a : XArr) (r : Recovered) (hI : GInv cn cc a)
    (hp : cc.gcps = some pts) (hr : recover a = .ok r) :
    r = .nothing ∨ ∃ gg : GcpBox, r = .gcp gg ∧ gg.pts = pts ∧ gg.crs = cc.crs := by
  have hloc := ginv_locate cn cc a hI
  unfold recover at hr
  split at hr
  · simp only [Except.ok.injEq] at hr
    exact Or.inl hr.symm
  · split at hr
    · simp only [hloc, List.head?_cons, Option.bind_some, hp] at hr
      split at hr
      · cases hr
      · simp only [Except.ok.injEq] at hr
        exact Or.inr ⟨_, hr.symm, rfl, rfl⟩
    · cases hr

set_option linter.unusedSimpArgs false in
theorem ginv_wrap (g : GcpBox) (c : Crs) (nt nb : Option Nat) (cn : String) (attrs : List String) (a0 : XArr)
    (hcn : NameOk cn) (hcrs : g.crs = some c) (hw : wrap (.gcp g) nt nb cn attrs = .ok a0) :
    ∃ pts, exportGcps g = .ok pts ∧ GInv cn ⟨some c, none, some pts⟩ a0 := by
  obtain ⟨h1, h2, h3, h4, h5, h6⟩ := hcn
  have e1 := beq_false_of_ne' h1
  have e2 := beq_false_of_ne' h2
  have e3 := beq_false_of_ne' h3
  have e4 := beq_false_of_ne' h4
  have e5 := beq_false_of_ne' h5
  have e6 := beq_false_of_ne' h6
  have e1' := beq_false_of_ne' (Ne.symm h1)
  have e2' := beq_false_of_ne' (Ne.symm h2)
  have e3' := beq_false_of_ne' (Ne.symm h3)
  have e4' := beq_false_of_ne' (Ne.symm h4)
  have e5' := beq_false_of_ne' (Ne.symm h5)
  have e6' := beq_false_of_ne' (Ne.symm h6)
  obtain ⟨ny, nx, gpts, A, crs⟩ := g
  simp only at hcrs
  subst hcrs
  cases hx : exportGcps ⟨ny, nx, gpts, A, some c⟩ with
  | error e => simp [wrap, xrCoords, hx, bind, Except.bind] at hw
  | ok pts =>
    refine ⟨pts, rfl, ?_⟩
    simp only [wrap, xrCoords, hx, srcDims, bind, Except.bind, pure, Except.pure] at hw
    rcases dimsOf_cases (some c) with hd | hd <;> rw [hd] at hw <;>
    rcases nt with _ | nt <;> rcases nb with _ | nb <;>
    (injection hw with hw; subst hw) <;>
    (constructor <;>
      simp [crsScan, List.lookup, e3, e4, e5, e6, e3', e4', e5', e6',
        h1, h2, h3, h4, h5, h6, Ne.symm h1, Ne.symm h2, Ne.symm h3, Ne.symm h4, Ne.symm h5, Ne.symm h6])

theorem dimsShape_wrap_gcp (g : GcpBox) (nt nb : Option Nat) (cn : String) (attrs : List String) (a0 : XArr)
    (hw : wrap (.gcp g) nt nb cn attrs = .ok a0) :
    ∃ pre post, DimsShape a0 g.crs pre post := by
  simp only [wrap, srcDims, bind, Except.bind, pure, Except.pure] at hw
  split at hw
  · cases hw
  · simp only [Except.ok.injEq] at hw
    subst hw
    refine ⟨_, _, rfl, ?_⟩
    intro d hd
    cases nt <;> cases nb <;> simp at hd <;> simp [hd]

/-- **xr_reproject_crs_history_gcp** — the property's quantifier for GCP-registered arrays: wrap any GCPGeoBox with a CRS
(any shape, rank, CRS-coordinate name), apply any finite history of admissible operations (slices of any axis,
arithmetic, `astype`, pickling, integer indexing of `time` / `band`), call `xr_reproject(…, <CRS>, **options)`: whenever
the call succeeds, what was recovered from the array is a GCP box with the control points `wrap_xr` exported and the
original CRS, the destination is the axis-aligned grid `compute_output_geobox` gives for it, and the GeoBox recovered
from the output is exactly that grid.  No hypothesis about the intermediate array. -/
theorem xr_reproject_crs_history_gcp (g0 : GcpBox) (c0 : Crs) (nt nb : Option Nat) (cn : String) (attrs : List String)
    (ops : List Op) (a0 arr : XArr) (c : Crs) (p : Proj) (a : C11.GridArgs) (extra : List (String × KwVal))
    (nd : Bool) (out : XArr) (hcn : NameOk cn) (hcrs : g0.crs = some c0)
    (hw : wrap (.gcp g0) nt nb cn attrs = .ok a0) (hadm : ∀ op ∈ ops, op.admissible)
    (hops : applyOps a0 ops = .ok arr) (hextra : ∀ kv ∈ extra, kv.1 ∉ gboxKeys)
    (h : xrReprojectDa arr (.crs c p) a extra nd = .ok out) :
    ∃ gg dst, recover arr = .ok (.gcp gg) ∧ exportGcps g0 = .ok gg.pts ∧ gg.crs = some c0 ∧
      outputGeoboxOf (.gcp gg) c0 c p a = .ok dst ∧ recover out = .ok (.lin dst) ∧ dst.crs = some c ∧
      dst.A.b = 0 ∧ dst.A.d = 0 ∧ (∀ k ∈ out.attrs, k ∉ spatialAttributes) := by
  obtain ⟨pts, hpts, hI0⟩ := ginv_wrap g0 c0 nt nb cn attrs a0 hcn hcrs hw
  have hI := ginv_ops cn _ ops a0 arr hI0 hops
  obtain ⟨r, sc, dst, hr, hsc, _, _⟩ := xrReprojectDa_ok arr c p a extra nd out hextra h
  -- dims keep their shape along the history
  obtain ⟨pre0, post0, hs0⟩ := dimsShape_wrap_gcp g0 nt nb cn attrs a0 hw
  have key : ∀ (ops : List Op) (a0 a : XArr) (pre post : List String), DimsShape a0 g0.crs pre post →
      (∀ op ∈ ops, op.admissible) → applyOps a0 ops = .ok a → ∃ pre' post', DimsShape a g0.crs pre' post' := by
    intro ops
    induction ops with
    | nil =>
      intro a0 a pre post hs _ h
      simp only [applyOps, Except.ok.injEq] at h
      subst h
      exact ⟨pre, post, hs⟩
    | cons op rest ih =>
      intro a0 a pre post hs hadm h
      simp only [applyOps] at h
      split at h
      · cases h
      · rename_i a1 h1
        obtain ⟨p1, q1, hs1⟩ := dimsShape_step a0 a1 g0.crs pre post op hs (hadm op List.mem_cons_self) h1
        exact ih a1 a p1 q1 hs1 (fun o ho => hadm o (List.mem_cons_of_mem _ ho)) h
  obtain ⟨pre, post, hs⟩ := key ops a0 arr pre0 post0 hs0 hadm hops
  rcases recover_gcp_kind cn _ pts arr r hI rfl hr with hn | ⟨gg, hgg, hgp, hgc⟩
  · subst hn
    simp [Recovered.crs] at hsc
  · subst hgg
    obtain ⟨sc', dst', e1, e2, e3, e4, e5, e6, _, _, e9, _⟩ :=
      xr_reproject_crs_geobox_gcp arr g0.crs pre post gg c p a extra nd out hs hr hextra h
    have hsc0 : sc' = c0 := by
      rw [hgc] at e1
      simpa using e1.symm
    subst hsc0
    exact ⟨gg, dst', hr, by rw [hgp]; exact hpts, hgc, e2, e3, e4, e5, e6, e9⟩

/-- non-vacuity: a GCP box (3 control points, shifted pixel frame), geographic CRS, custom CRS-coordinate name, a time
axis; strided slice + arithmetic + integer index of `time`; reprojected to its own CRS with default options (where a
linear source would come back unchanged) and to another CRS: the call succeeds and the computed grid is recovered. -/
example :
    let g0 : GcpBox := ⟨4, 6, [⟨0, 0, 14, 50⟩, ⟨6, 0, 16, 50⟩, ⟨0, 4, 14, 48⟩], ⟨1, 0, 1, 0, 1, 2⟩, some ⟨4326, true⟩⟩
    let arr := (wrap (.gcp g0) (some 2) none "foo" ["crs", "keep"]).bind
      (fun a => applyOps a [.isel "longitude" (.slc none none (some 2)), .arith, .isel "time" (.int 1)])
    let p : Proj := ⟨true, (1 / 4, -1 / 4), ⟨13, 47, 17, 51⟩, ⟨0, 0, 1, 1⟩, (1, 1)⟩
    arr.bind (fun a => (xrReprojectDa a (.crs ⟨4326, true⟩ p) {} [] false).bind recover)
      = .ok (.lin ⟨16, 16, ⟨1 / 4, 0, 13, 0, -1 / 4, 51⟩, some ⟨4326, true⟩⟩) ∧
    arr.bind (fun a => (xrReprojectDa a (.crs ⟨3857, false⟩ p) { resolution := some (.num 2), tol := some 0 } [] false).bind recover)
      = .ok (.lin ⟨3, 3, ⟨2, 0, 12, 0, -2, 52⟩, some ⟨3857, false⟩⟩) := by
  decide +kernel

end OdcGeo.C09
