import OdcGeo.Model.C19Like
import OdcGeo.Props.C19Unified
namespace OdcGeo.C19

/-! ## Cache accounting for hashable CRS-like objects -/

theorem assoc_append_new {β : Type} (k : Nat) (e : β) : ∀ l : List (Nat × β), assoc k l = none →
    assoc k (l ++ [(k, e)]) = some e
  | [], _ => by simp [assoc]
  | a :: t, h => by
    by_cases ha : a.1 = k
    · simp [assoc, ha] at h
    · simp only [assoc, ha, if_false] at h
      simp [assoc, ha, assoc_append_new k e t h]

/-- the same object again is a cache hit: the very same record (same pyproj object), nothing grows -/
theorem constructLike_hit (W : World) (σ : LState) (lid : Nat) (wkt : String) (pick pick' : Nat) (c : CrsObj)
    (h : (constructLike W σ lid wkt pick).2 = .ok c) :
    constructLike W (constructLike W σ lid wkt pick).1 lid wkt pick' = ((constructLike W σ lid wkt pick).1, .ok c) := by
  unfold constructLike at h ⊢
  cases hl : assoc lid σ.likes with
  | some e =>
    simp only [hl] at h ⊢
    cases h; simp
  | none =>
    simp only [hl] at h ⊢
    cases hp : W.fromText wkt with
    | none => simp [hp] at h
    | some p =>
      simp only [hp] at h ⊢
      cases he : entryOf (alloc σ.core pick p).2 p 0 with
      | error x => simp [he] at h
      | ok e =>
        simp only [he] at h ⊢
        cases h
        simp [assoc_append_new lid _ σ.likes hl]

/-- a first construction adds exactly one entry keyed by the object and leaves every text /
pyproj-object entry alone: a hashable CRS-like object never collides with (or poisons) the
key of a text spec — the history-freedom of text specs is untouched by such arguments -/
theorem constructLike_accounting (W : World) (σ : LState) (lid : Nat) (wkt : String) (pick : Nat) (c : CrsObj)
    (hm : assoc lid σ.likes = none) (h : (constructLike W σ lid wkt pick).2 = .ok c) :
    (constructLike W σ lid wkt pick).1.core.cache = σ.core.cache ∧
    (constructLike W σ lid wkt pick).1.cacheLen = σ.cacheLen + 1 ∧
    c.obj ∈ (constructLike W σ lid wkt pick).1.roots ∧
    ∃ p, W.fromText wkt = some p ∧ c.info = p := by
  unfold constructLike at h ⊢
  simp only [hm] at h ⊢
  cases hp : W.fromText wkt with
  | none => simp [hp] at h
  | some p =>
    simp only [hp] at h ⊢
    cases he : entryOf (alloc σ.core pick p).2 p 0 with
    | error x => simp [he] at h
    | ok e =>
      simp only [he] at h ⊢
      cases h
      have hc : (alloc σ.core pick p).1.cache = σ.core.cache := by
        unfold alloc; split <;> rfl
      refine ⟨hc, by simp [LState.cacheLen, hc]; omega, by simp [LState.roots], p, rfl, ?_⟩
      exact (entryOf_ok he).2

/-- a failing construction stores nothing -/
theorem constructLike_error (W : World) (σ : LState) (lid : Nat) (wkt : String) (pick : Nat) (e : ErrKind)
    (h : (constructLike W σ lid wkt pick).2 = .error e) :
    (constructLike W σ lid wkt pick).1.cacheLen = σ.cacheLen := by
  unfold constructLike at h ⊢
  cases hl : assoc lid σ.likes with
  | some c => simp [hl] at h
  | none =>
    simp only [hl] at h ⊢
    cases hp : W.fromText wkt with
    | none => rfl
    | some p =>
      simp only [hp] at h ⊢
      cases he : entryOf (alloc σ.core pick p).2 p 0 with
      | ok c => simp [he] at h
      | error x =>
        have hc : (alloc σ.core pick p).1.cache = σ.core.cache := by
          unfold alloc; split <;> rfl
        simp [LState.cacheLen, hc]

/-- two DIFFERENT objects with the same WKT: two entries, two pyproj objects — equal CRSs (same
string, same system) that do not share `_crs` (witness; `CRS(text)` twice shares it) -/
theorem constructLike_two_objects_cex :
    let σ1 := (constructLike k4World {} 0 "X" 0).1
    let σ2 := (constructLike k4World σ1 1 "X" 0).1
    σ2.cacheLen = 2 ∧ σ2.core.cache = [] ∧
    (∃ a b, (constructLike k4World {} 0 "X" 0).2 = .ok a ∧ (constructLike k4World σ1 1 "X" 0).2 = .ok b ∧
      a.obj ≠ b.obj ∧ crsEq a b = true ∧ a.str = b.str) := by
  refine ⟨by decide +kernel, by decide +kernel, ⟨0, ⟨0, "X", "WX", some 4326⟩, "X", some 0⟩,
    ⟨1, ⟨0, "X", "WX", some 4326⟩, "X", some 0⟩, by decide +kernel, by decide +kernel, by decide, by decide +kernel, rfl⟩

end OdcGeo.C19
