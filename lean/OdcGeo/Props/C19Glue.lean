/-
C19, growth round — theorems about the GLUE between the public entry points and the value
records of `Model/C19.lean` (`Model/C19Glue.lean`): the argument normalisers of types.py,
`norm_crs`, the constructors of the value types and `==` against foreign objects.

The clause of the property they serve: *equivalent spellings of the same arguments construct
equal values (equal hashes, equal tokens)*, and *what a constructor rejects it rejects before
anything is built*.  `_cex` theorems are witnesses of what does NOT hold on the code as it is
(each replayed on the real code by `harness/c19_glue.py`).
-/
import OdcGeo.Model.C19Glue
import OdcGeo.Props.C19
import Mathlib.Tactic.Linarith
import Mathlib.Algebra.Order.Field.Rat

namespace OdcGeo.C19

/-! ## types.py: input forms of the XY family -/

/-- `yx_(y, x)` is `xy_(x, y)`, with two arguments and with a pair (tuple or list) -/
theorem yxOf_swaps_xyOf (x y : PyNum) (t : Bool) :
    yxOf (.two y x) = xyOf (.two x y) ∧
    yxOf (.one (.seq t [y, x])) = xyOf (.one (.seq t [x, y])) := ⟨rfl, rfl⟩

/-- what `xy_` / `yx_` return is passed through unchanged by both (idempotent normalisers;
subclasses survive) -/
theorem xyOf_idem (a : Args) (v : XYv) (_h : xyOf a = .ok v) :
    xyOf (.one (.xy v)) = .ok v ∧ yxOf (.one (.xy v)) = .ok v := ⟨rfl, rfl⟩

/-- a value rebuilt from its own `.xy` / `.yx` tuple is an equal value with the same hash
input (the class becomes plain `XY`, which `==` and `hash` do not look at) -/
theorem xyOf_roundtrip (v : XYv) (t : Bool) :
    ∃ w, xyOf (.one (.seq t v.xyT)) = .ok w ∧ yxOf (.one (.seq t v.yxT)) = .ok w ∧
      w.eq v = true ∧ w.x = v.x ∧ w.y = v.y :=
  ⟨XY.mk' v.x v.y, rfl, rfl, by simp [XYv.eq, XY.mk', PyNum.eq], rfl, rfl⟩

/-- `xy_` fails exactly on: nothing iterable, a sequence that is not a pair, a point that is
not 2-D — and then always with `ValueError` -/
theorem xyOf_error (a : Args) (e : ErrKind) (h : xyOf a = .error e) : e = .valueError := by
  unfold xyOf at h
  split at h <;> cases h <;> rfl

/-- a point geometry is read through `.coords` by `xy_` only: `yx_` has no such branch -/
theorem yxOf_point_rejected (p : Option (List PyNum)) : yxOf (.one (.point p)) = .error .valueError := rfl

/-- `ixy_` / `iyx_` agree on two ints, on tuples and on XY values … -/
theorem iyxOf_swaps_ixyOf (x y : PyNum) (hx : x.isInt = true) (hy : y.isInt = true) (v : XYv) :
    iyxOf (.two y x) = ixyOf (.two x y) ∧
    iyxOf (.one (.seq true [y, x])) = ixyOf (.one (.seq true [x, y])) ∧
    iyxOf (.one (.xy v)) = ixyOf (.one (.xy v)) := by
  refine ⟨?_, rfl, rfl⟩
  simp [iyxOf, ixyOf, hx, hy]

/-- … but only the FIRST of two arguments is asserted to be an int: `ixy_(1.5, 2)` raises,
`iyx_(2, 1.5)` builds `Index2d(x=1.5, y=2)` -/
theorem ixyOf_asserts_first_only_cex :
    ixyOf (.two ⟨.float, 3/2, false⟩ ⟨.int, 2, false⟩) = .error .assertion ∧
    iyxOf (.two ⟨.int, 2, false⟩ ⟨.float, 3/2, false⟩) = .ok (Index2d.mk' ⟨.float, 3/2, false⟩ ⟨.int, 2, false⟩) := by
  decide +kernel

/-- the tuple and XY forms of `ixy_` convert nothing: an `Index2d` may hold floats -/
theorem ixyOf_unchecked (x y : PyNum) (v : XYv) (hv : v.cls ≠ .index2d) :
    ixyOf (.one (.seq true [x, y])) = .ok (Index2d.mk' x y) ∧
    ixyOf (.one (.xy v)) = .ok (Index2d.mk' v.x v.y) := by
  refine ⟨rfl, ?_⟩
  simp [ixyOf, hv]

/-- a list is a pair for `xy_` but not for `ixy_` / `iyx_` -/
theorem ixyOf_list_rejected (xs : List PyNum) :
    ixyOf (.one (.seq false xs)) = .error .valueError ∧ iyxOf (.one (.seq false xs)) = .error .valueError :=
  ⟨rfl, rfl⟩

theorem ixyOf_idem (a : Args) (v : XYv) (h : ixyOf a = .ok v) :
    v.cls = .index2d ∧ ixyOf (.one (.xy v)) = .ok v ∧ iyxOf (.one (.xy v)) = .ok v := by
  have hc : v.cls = .index2d := by
    unfold ixyOf at h
    split at h
    · split at h
      · injection h with h; subst h; rfl
      · cases h
    · injection h with h; subst h; rfl
    · cases h
    · split at h
      · injection h with h; subst h; assumption
      · injection h with h; subst h; rfl
    · cases h
  exact ⟨hc, by simp [ixyOf, hc], by simp [iyxOf, hc]⟩

/-- `resyx_(y, x)` is `resxy_(x, y)`; `wh_(w, h)` is the shape `(h, w)` -/
theorem resyx_wh (x y : PyNum) :
    resyxOf y x = resxyOf x y ∧ (whOf x y).cls = .shape2d ∧ (whOf x y).xyT = [x, y] ∧ (whOf x y).yxT = [y, x] :=
  ⟨rfl, rfl, rfl, rfl⟩

/-- `res_` understands a number or a `Resolution`, nothing else, and is idempotent -/
theorem resOf_idem (a : Arg) (v : XYv) (h : resOf a = .ok v) :
    v.cls = .resolution ∧ resOf (.xy v) = .ok v := by
  have hc : v.cls = .resolution := by
    unfold resOf at h
    split at h
    · split at h
      · injection h with h; subst h; assumption
      · cases h
    · injection h with h; subst h; rfl
    · cases h
  exact ⟨hc, by simp [resOf, hc, resNorm]⟩

theorem resOf_error (a : Arg) (e : ErrKind) (h : resOf a = .error e) : e = .valueError := by
  unfold resOf at h
  split at h
  · split at h
    · cases h
    · injection h with h; exact h.symm
  · cases h
  · injection h with h; exact h.symm

/-- `shape_` is idempotent and always yields a `Shape2d` -/
theorem shapeOf_idem (a : Arg) (v : XYv) (h : shapeOf a = .ok v) :
    v.cls = .shape2d ∧ shapeOf (.xy v) = .ok v := by
  have hv : v.cls = .shape2d := by
    unfold shapeOf at h
    split at h
    · split at h
      · rename_i hc
        simp only [shapeNorm, Except.ok.injEq] at h
        subst h; exact hc
      · simp only [shapeNorm, Except.ok.injEq] at h
        subst h; rfl
    · rename_i xs
      match xs, h with
      | [_, _], h => simp only [shapeNorm, Except.ok.injEq] at h; subst h; rfl
    · cases h
  exact ⟨hv, by simp [shapeOf, hv, shapeNorm]⟩

/-- what `shape_` makes of anything that is not already a `Shape2d` is a `Shape2d` of ints -/
theorem shapeOf_ints (a : Arg) (v : XYv) (ha : ∀ w, a = .xy w → w.cls ≠ .shape2d) (h : shapeOf a = .ok v) :
    v.cls = .shape2d ∧ v.x.isInt = true ∧ v.y.isInt = true := by
  unfold shapeOf at h
  split at h
  · rename_i w
    have := ha w rfl
    simp only [this, if_false] at h
    exact shapeNorm_ints _ v (by intro u hu; cases hu) h
  · exact shapeNorm_ints _ v (by intro u hu; cases hu) h
  · cases h

theorem shapeOf_error (a : Arg) (e : ErrKind) (h : shapeOf a = .error e) : e = .valueError := by
  unfold shapeOf at h
  split at h
  · split at h
    · simp [shapeNorm] at h
    · simp [shapeNorm] at h
  · rename_i xs
    match xs, h with
    | [], h => simp [shapeNorm] at h; exact h.symm
    | [_], h => simp [shapeNorm] at h; exact h.symm
    | [_, _], h => simp [shapeNorm] at h
    | _ :: _ :: _ :: _, h => simp [shapeNorm] at h; exact h.symm
  · injection h with h; exact h.symm

/-- floor of an integer, both ways round (`int()` truncates toward zero) -/
theorem toInt_of_int (k : Int) :
    ((if (k : Rat) < 0 then -((-(k : Rat)).floor) else (k : Rat).floor : Int) : Rat) = k := by
  have h2 : (k : Rat).floor = k := Rat.floor_intCast k
  have h1 : (-(k : Rat)).floor = -k := by
    have e : (-(k : Rat)) = ((-k : Int) : Rat) := by simp
    rw [e]; exact Rat.floor_intCast (-k)
  rw [h1, h2]
  split <;> simp

theorem toInt_int (n : PyNum) (k : Int) (h : n.val = k) : n.toInt = ⟨.int, k, false⟩ := by
  simp only [PyNum.toInt, h, toInt_of_int]

/-- the three spellings of a shape — `(ny, nx)` as tuple or list, `XY(x=nx, y=ny)` of any
class, `Shape2d` — are normalised to equal values -/
theorem shapeOf_spellings (ny nx : PyNum) (ky kx : Int) (hy : ny.val = ky) (hx : nx.val = kx) (t : Bool)
    (cls : XYCls) (hc : cls ≠ .shape2d) :
    ∃ v w, shapeOf (.seq t [ny, nx]) = .ok v ∧ shapeOf (.xy ⟨cls, nx, ny⟩) = .ok w ∧ v = w ∧
      v.x = ⟨.int, kx, false⟩ ∧ v.y = ⟨.int, ky, false⟩ ∧ v.ints? = some (ky, kx) := by
  refine ⟨⟨.shape2d, ⟨.int, kx, false⟩, ⟨.int, ky, false⟩⟩, _, ?_, ?_, rfl, rfl, rfl, ?_⟩
  · simp only [shapeOf, shapeNorm, toInt_int _ _ hy, toInt_int _ _ hx]
  · simp only [shapeOf, hc, ↓reduceIte, shapeNorm, toInt_int _ _ hy, toInt_int _ _ hx]
  · simp [XYv.ints?, PyNum.isInt]

/-! ### accessors and the sequence protocol of `Shape2d` -/

/-- `.shape` is `.wh` reversed; both insist on ints; `.xy` / `.yx` never fail -/
theorem shapeT_whT (v : XYv) :
    (v.shapeT.map List.reverse = v.whT) ∧ v.yxT = v.xyT.reverse ∧
    ((∃ t, v.shapeT = .ok t) ↔ (v.x.isInt = true ∧ v.y.isInt = true)) := by
  refine ⟨?_, rfl, ?_⟩
  · unfold XYv.shapeT XYv.whT
    split <;> rfl
  · unfold XYv.shapeT
    constructor
    · rintro ⟨t, h⟩
      split at h
      · rename_i hh; simpa using hh
      · cases h
    · rintro ⟨h1, h2⟩
      exact ⟨[v.y, v.x], by simp [h1, h2]⟩

/-- indexing agrees with iteration, negative indices count from the end, anything outside
`-2..1` is an `IndexError` — but a non-int shape fails first with `ValueError` -/
theorem Shape2d.getItem_spec (v : XYv) (hx : v.x.isInt = true) (hy : v.y.isInt = true) (i : Int) :
    Shape2d.iter v = .ok [v.y, v.x] ∧
    Shape2d.getItem v 0 = .ok v.y ∧ Shape2d.getItem v 1 = .ok v.x ∧
    Shape2d.getItem v (-2) = .ok v.y ∧ Shape2d.getItem v (-1) = .ok v.x ∧
    ((i < -2 ∨ 1 < i) → Shape2d.getItem v i = .error .indexError) := by
  refine ⟨by simp [Shape2d.iter, XYv.shapeT, hx, hy], by simp [Shape2d.getItem, hx, hy],
    by simp [Shape2d.getItem, hx, hy], by simp [Shape2d.getItem, hx, hy], by simp [Shape2d.getItem, hx, hy], ?_⟩
  intro hi
  have h0 : ¬ (i = 0 ∨ i = -2) := by omega
  have h1 : ¬ (i = 1 ∨ i = -1) := by omega
  simp [Shape2d.getItem, hx, hy, h0, h1]

theorem Shape2d.getItem_nonint (v : XYv) (h : (v.x.isInt && v.y.isInt) = false) (i : Int) :
    Shape2d.getItem v i = .error .valueError ∧ Shape2d.iter v = .error .valueError := by
  simp [Shape2d.getItem, Shape2d.iter, XYv.shapeT, h]

/-- `shape + t` and `t + shape` concatenate the `(y, x)` tuple -/
theorem Shape2d.add_spec (v : XYv) (hx : v.x.isInt = true) (hy : v.y.isInt = true) (t : List PyNum) :
    Shape2d.add v t = .ok ([v.y, v.x] ++ t) ∧ Shape2d.radd v t = .ok (t ++ [v.y, v.x]) := by
  simp [Shape2d.add, Shape2d.radd, XYv.shapeT, hx, hy, Except.map]

/-- `shrink2` halves each side rounding DOWN (floor division, also for negative sides) -/
theorem Shape2d.shrink2_spec (v : XYv) (k : Int) (hx : v.x.val = k) (hk : v.x.kind ≠ .float) :
    (Shape2d.shrink2 v).cls = .shape2d ∧ (Shape2d.shrink2 v).x.kind = .int ∧
    ∃ q : Int, (Shape2d.shrink2 v).x.val = q ∧ 2 * q ≤ k ∧ k < 2 * q + 2 := by
  have hkind : (Shape2d.shrink2 v).x.kind = .int := by
    rcases v with ⟨c, ⟨kx, vx, nx⟩, y⟩
    cases kx <;> simp_all [Shape2d.shrink2, Shape2d.mk', PyNum.half]
  have hval : (Shape2d.shrink2 v).x.val = ((v.x.val / 2).floor : Int) := by
    rcases v with ⟨c, ⟨kx, vx, nx⟩, y⟩
    cases kx <;> simp_all [Shape2d.shrink2, Shape2d.mk', PyNum.half]
  refine ⟨rfl, hkind, ?_⟩
  · refine ⟨(v.x.val / 2).floor, hval, ?_, ?_⟩
    · have h := Rat.floor_le (v.x.val / 2)
      rw [hx] at h ⊢
      have : (((k : Rat) / 2).floor : Rat) * 2 ≤ k := by linarith
      exact_mod_cast (by linarith : (2 : Rat) * (((k : Rat) / 2).floor : Rat) ≤ (k : Rat))
    · have h := Rat.lt_floor_add_one (v.x.val / 2)
      rw [hx] at h ⊢
      push_cast at h
      exact_mod_cast (by linarith : (k : Rat) < 2 * (((k : Rat) / 2).floor : Rat) + 2)

/-! ### `==` against any object -/

/-- `xy == other`: symmetric on XY values, `False` for every foreign object — except that a
`Shape2d` compares with a tuple through `.shape` -/
theorem XYv.eqArg_spec (v w : XYv) (t : Bool) (xs : List PyNum) (hv : v.cls ≠ .shape2d) :
    v.eqArg (.xy w) = w.eqArg (.xy v) ∧
    v.eqArg (.seq t xs) = .ok false ∧ v.eqArg .none = .ok false ∧ v.eqArg .other = .ok false ∧
    (∀ p, v.eqArg (.point p) = .ok false) ∧ (∀ n, v.eqArg (.num n) = .ok false) ∧
    (∀ u : XYv, u.eqArg (.seq false xs) = .ok false) := by
  refine ⟨?_, ?_, rfl, rfl, fun _ => rfl, fun _ => rfl, fun _ => rfl⟩
  · have : v.eq w = w.eq v := by
      rw [Bool.eq_iff_iff, XYv.eq_iff, XYv.eq_iff]
      constructor <;> (rintro ⟨a, b⟩; exact ⟨a.symm, b.symm⟩)
    simp [XYv.eqArg, this]
  · cases t <;> simp [XYv.eqArg, hv]

/-- a `Shape2d` of ints equals its own tuple form -/
theorem Shape2d.eq_own_tuple (v : XYv) (hc : v.cls = .shape2d) (t : List PyNum) (h : v.shapeT = .ok t) :
    v.eqArg (.seq true t) = .ok true := by
  unfold XYv.shapeT at h
  split at h
  · rename_i hh
    injection h with h
    subst h
    simp [XYv.eqArg, hc, Shape2d.eqTuple, hh, PyNum.eq]
  · cases h

/-! ## `norm_crs` -/

/-- a CRS instance is returned as is; `None` and `Unset()` give `None`; a text that does not
begin with `utm`, an int, a pyproj object and a dict go to `CRS(...)`; anything else raises -/
theorem normPlan_spec (v n pv : Nat) (d : String) (b : Bool) :
    normPlan (.spec (.crs v)) b = .same v ∧ normPlan .none b = .none ∧ normPlan .unset b = .none ∧
    normPlan (.spec (.int n)) b = .build (.int n) ∧ normPlan (.spec (.pyproj pv)) b = .build (.pyproj pv) ∧
    normPlan (.spec (.dict d)) b = .build (.dict d) ∧ normPlan .other b = .raise .runtimeError :=
  ⟨rfl, rfl, rfl, rfl, rfl, rfl, rfl⟩

theorem normPlan_text (s : String) (b : Bool) (h : utmMode? s = none) :
    normPlan (.spec (.str s)) b = .build (.str s) := by
  simp [normPlan, h]

/-- a `utm*` text without a context is an `AssertionError`, with one it never reaches `CRS(text)` -/
theorem normPlan_utm (s : String) (m : UtmMode) (h : utmMode? s = some m) :
    normPlan (.spec (.str s)) false = .raise .assertion ∧ normPlan (.spec (.str s)) true = .utm m := by
  simp [normPlan, h]

/-- the texts: any letter case; every text that merely BEGINS with `utm` is read as plain
`utm` (no `else` in the code) -/
theorem utmMode_examples :
    utmMode? "utm" = some .plain ∧ utmMode? "UTM" = some .plain ∧ utmMode? "utm-n" = some .north ∧
    utmMode? "UTM-N" = some .north ∧ utmMode? "Utm-S" = some .south ∧ utmMode? "utm-x" = some .plain ∧
    utmMode? "utmost" = some .plain ∧ utmMode? "EPSG:32755" = none ∧ utmMode? "xutm" = none := by
  decide +kernel

/-- `norm_crs(crs_instance)`: the very same record, nothing constructed, no state change —
and normalising the outcome again changes nothing (idempotent) -/
theorem normRun_same (W : World) (σ : State) (v pick : Nat) (c : CrsObj) (h : assoc v σ.vars = some c) :
    normRun W σ (normPlan (.spec (.crs v)) false) pick = (σ, .ok (some c)) := by
  simp [normPlan, normRun, h]

/-- `norm_crs(spec)` IS `CRS(spec)`: same cache traffic, same record -/
theorem normRun_build (W : World) (σ : State) (s : Spec) (pick : Nat) :
    (normRun W σ (.build s) pick).1 = (construct W σ s pick).1 ∧
    (normRun W σ (.build s) pick).2 = (construct W σ s pick).2.map some := by
  simp only [normRun]
  split <;> rename_i heq <;> simp [heq, Except.map]

/-- end to end: after ANY real history, `norm_crs(spec)` for a text / int / pyproj / dict spec
yields a CRS whose pyproj object denotes the system pyproj assigns to the spec — the
composition of the dispatch with `construct_sys_correct` (no hypothesis in between) -/
theorem norm_crs_sys_correct (W : World) (hW : KeySysCoherent W) (hA : KeyAcceptCoherent W)
    (h : List Op) (hreal : ∀ op ∈ h, op.real = true) (a : CrsArg) (s : Spec) (pick : Nat) (c : CrsObj)
    (hp : normPlan a false = .build s)
    (hr : (normRun W (run W h).1 (normPlan a false) pick).2 = .ok (some c)) :
    specSys W (run W h).1 s = some c.info.sys := by
  rw [hp] at hr
  have h2 := (normRun_build W (run W h).1 s pick).2
  rw [h2] at hr
  cases hc : (construct W (run W h).1 s pick).2 with
  | error e => rw [hc] at hr; simp [Except.map] at hr
  | ok c' =>
    rw [hc] at hr
    simp only [Except.map, Except.ok.injEq, Option.some.injEq] at hr
    subst hr
    exact construct_sys_correct W hW hA h hreal s pick c' hc

/-- `norm_crs_or_error`: `None` (and `Unset()`) is a `ValueError`, everything else as `norm_crs` -/
theorem orError_spec (r : Res (Option CrsObj)) (c : CrsObj) :
    (orError r = .ok c ↔ r = .ok (some c)) ∧ orError (.ok none) = .error .valueError ∧
    ∀ e, orError (.error e) = .error e := by
  refine ⟨?_, rfl, fun _ => rfl⟩
  constructor
  · intro h
    match r, h with
    | .ok (some c'), h => simp [orError] at h; subst h; rfl
  · intro h; subst h; rfl

/-! ### the hemisphere arithmetic of `utm-n` / `utm-s` -/

/-- on the WGS 84 UTM numbering (326zz north, 327zz south): `utm-n` ends in the northern twin
of the zone `CRS.utm(ctx)` picked, `utm-s` in the southern one, `utm` in the zone itself -/
theorem utmFinal_spec (zone : Nat) (south : Bool) :
    utmFinal .north zone south = .ok (utmEpsg zone false) ∧
    utmFinal .south zone south = .ok (utmEpsg zone true) ∧
    utmFinal .plain zone south = .ok (utmEpsg zone south) := by
  cases south <;> simp [utmFinal, utmAdjust, utmFactsOf, utmEpsg, Except.map] <;> omega

/-- asking again in the same mode changes nothing -/
theorem utmAdjust_idem (zone : Nat) :
    utmAdjust .north (utmFactsOf zone false) = .ok none ∧ utmAdjust .south (utmFactsOf zone true) = .ok none := by
  simp [utmAdjust, utmFactsOf]

/-- the only codes ever constructed are the picked one ± 100; an unknown zone or code is an
`AssertionError` for `utm-n` / `utm-s` (never for plain `utm`) -/
theorem utmAdjust_spec (m : UtmMode) (f : UtmFacts) :
    (∀ c, utmAdjust m f = .ok (some c) → ∃ e, f.epsg = some e ∧ (c = e - 100 ∨ c = e + 100)) ∧
    (∀ e, utmAdjust m f = .error e → e = .assertion ∧ m ≠ .plain ∧ (f.zoneKnown = false ∨ f.epsg = none)) ∧
    utmAdjust .plain f = .ok none := by
  refine ⟨?_, ?_, rfl⟩
  · intro c h
    cases m <;> rcases f with ⟨_ | e, zk, es, en⟩ <;> cases zk <;> cases es <;> cases en <;>
      simp [utmAdjust] at h <;> first | exact ⟨e, rfl, Or.inl h.symm⟩ | exact ⟨e, rfl, Or.inr h.symm⟩
  · intro e h
    cases m <;> rcases f with ⟨_ | e', zk, es, en⟩ <;> cases zk <;> cases es <;> cases en <;>
      simp [utmAdjust] at h <;> simp [← h]

/-! ## `CRS(obj)` for CRS-like objects -/

/-- an unhashable CRS-like object shares the cache entry of its WKT text: the key
`_make_crs_key` computes for it (`obj.to_wkt()`) is the key of `CRS(obj.to_wkt())` whenever
that text is not an `EPSG:` spelling (WKT never is) — so both constructions are one `construct`
of one spec, and every history theorem covers CRS-like arguments -/
theorem ctorPlan_like (h : Bool) (wkt : String) (hw : isEpsgLike wkt = false) :
    ctorPlan (.like h wkt) = .construct (.str wkt) ∧ likeKey wkt = keyOfStr wkt := by
  refine ⟨rfl, ?_⟩
  simp [likeKey, keyOfStr, hw]

theorem ctorPlan_spec (s : Spec) : ctorPlan (.spec s) = .construct s ∧ ctorPlan .other = .raise .runtimeError :=
  ⟨rfl, rfl⟩

example : isEpsgLike "PROJCRS[\"x\"]" = false := by decide +kernel

/-! ## BoundingBox -/

/-- against a tuple the CRS is not looked at; a box equals its own 4-tuple; a list, `None`, a
number, an XY value are never equal to a box -/
theorem BBox.eqArg_spec (l b r t : PyNum) (c c' : Option CrsObj) (a : Arg) (xs : List PyNum) (v : XYv) :
    (BBox.ctor l b r t c).eqArg a = (BBox.ctor l b r t c').eqArg a ∧
    (BBox.ctor l b r t c).eqArg (.seq true [l, b, r, t]) = true ∧
    (BBox.ctor l b r t c).eqArg (.seq false xs) = false ∧ (BBox.ctor l b r t c).eqArg .none = false ∧
    (BBox.ctor l b r t c).eqArg (.xy v) = false := by
  refine ⟨?_, ?_, rfl, rfl, rfl⟩
  · cases a <;> rfl
  · simp [BBox.eqArg, BBox.ctor, numsEq, PyNum.eq]

/-- **witness (known finding K27)**: `BoundingBox(0,1,2,3) == (0,1,2,3)`, both hashable, yet
the hash of the box is taken from `(crs, box)` and that of the tuple from the 4 numbers; and
through the tuple two boxes in different CRSs are "equal" to a common third object while
unequal to each other -/
theorem BBox.eq_tuple_hash_cex :
    ∃ (a a' : BBox) (xs : List PyNum), a.eqArg (.seq true xs) = true ∧ a.hashKey ≠ tupleHashKey xs ∧
      a'.eqArg (.seq true xs) = true ∧ a.eq a' = false :=
  ⟨BBox.ctor ⟨.int, 0, false⟩ ⟨.int, 1, false⟩ ⟨.int, 2, false⟩ ⟨.int, 3, false⟩ none,
   BBox.ctor ⟨.int, 0, false⟩ ⟨.int, 1, false⟩ ⟨.int, 2, false⟩ ⟨.int, 3, false⟩
     (some ⟨0, ⟨0, "EPSG:4326", "W", some 4326⟩, "EPSG:4326", some 4326⟩),
   [⟨.int, 0, false⟩, ⟨.int, 1, false⟩, ⟨.int, 2, false⟩, ⟨.int, 3, false⟩], by decide +kernel⟩

/-! ## Geometry.__init__: which CRS a geometry gets -/

theorem geomCrs_spec (c : Option CrsObj) (t : Option String) (a : CrsArg) (ha : a ≠ .none) :
    -- copy constructor / clone(): the source's CRS object itself; an explicit crs= is refused
    geomCrs (.geometry c) .none = .keep c ∧ geomCrs (.geometry c) a = .raise .assertion ∧
    -- a shapely geometry never gets a default CRS
    geomCrs .shapely .none = .norm .none none ∧
    -- an explicit CRS always wins over the GeoJSON default
    (∃ f, geomCrs (.dict t) a = .norm a f) ∧
    -- GeoJSON Feature / FeatureCollection (any letter case) without crs= is EPSG:4326
    (isFeature t = true → ∃ f, geomCrs (.dict t) .none = .norm (.spec (.str "epsg:4326")) f) ∧
    (isFeature t = false → ∃ f, geomCrs (.dict t) .none = .norm .none f) := by
  refine ⟨rfl, by simp [geomCrs, ha], rfl, ?_, ?_, ?_⟩
  · refine ⟨if t.isNone then some .valueError else none, ?_⟩
    simp only [geomCrs]
    have : (decide (a = CrsArg.none) && isFeature t) = false := by simp [ha]
    rw [this]; rfl
  · intro h; exact ⟨if t.isNone then some .valueError else none, by simp [geomCrs, h]⟩
  · intro h; exact ⟨if t.isNone then some .valueError else none, by simp [geomCrs, h]⟩

theorem isFeature_examples :
    isFeature (some "Feature") = true ∧ isFeature (some "FEATURECOLLECTION") = true ∧
    isFeature (some "featurecollection") = true ∧ isFeature (some "Point") = false ∧ isFeature none = false := by
  decide +kernel

/-! ## Constructors: equivalent spellings give the same record -/

/-- `GeoBox((ny, nx), A, crs)`, `GeoBox([ny, nx], …)`, `GeoBox(XY(nx, ny), …)`,
`GeoBox(Shape2d(nx, ny), …)`: one and the same record, hence equal, same hash, same token -/
theorem GBox.ctor_spellings (ny nx : PyNum) (ky kx : Int) (hy : ny.val = ky) (hx : nx.val = kx) (t : Bool)
    (cls : XYCls) (aff : List PyNum) (c : Option CrsObj) :
    GBox.ctor (.seq t [ny, nx]) aff c = some (.ok ⟨c, ky, kx, aff⟩) ∧
    GBox.ctor (.xy ⟨cls, ⟨.int, kx, false⟩, ⟨.int, ky, false⟩⟩) aff c = some (.ok ⟨c, ky, kx, aff⟩) := by
  constructor
  · obtain ⟨v, w, h1, _, _, _, _, h6⟩ := shapeOf_spellings ny nx ky kx hy hx t .xy (by decide)
    simp [GBox.ctor, h1, h6]
  · by_cases hc : cls = .shape2d
    · subst hc
      simp [GBox.ctor, shapeOf, shapeNorm, XYv.ints?, PyNum.isInt]
    · obtain ⟨v, w, _, h2, h3, _, _, h6⟩ :=
        shapeOf_spellings ⟨.int, ky, false⟩ ⟨.int, kx, false⟩ ky kx rfl rfl t cls hc
      subst h3
      simp [GBox.ctor, h2, h6]

/-- what `GeoBox(...)` refuses it refuses with `ValueError`, before the CRS is looked at -/
theorem GBox.ctor_error (a : Arg) (aff : List PyNum) (c : Option CrsObj) (e : ErrKind)
    (h : GBox.ctor a aff c = some (.error e)) : e = .valueError ∧ shapeOf a = .error e := by
  unfold GBox.ctor at h
  split at h
  · rename_i e' he
    simp only [Option.some.injEq, Except.error.injEq] at h
    subst h
    exact ⟨shapeOf_error a _ he, he⟩
  · rename_i s _
    cases hs : s.ints? <;> simp [hs] at h

/-- `GCPGeoBox(shape, mapping)` is `GCPGeoBox(shape, mapping, Affine.identity())`; its CRS is
the mapping's (there is no CRS argument) -/
theorem GCPBox.ctor_default (a : Arg) (m : GCPMap) (g : GCPBox) (aff : Option (List PyNum))
    (h : GCPBox.ctor a m aff = some (.ok g)) :
    GCPBox.ctor a m none = GCPBox.ctor a m (some affIdentity) ∧ g.mapping = m ∧ g.aff = aff.getD affIdentity := by
  refine ⟨rfl, ?_⟩
  unfold GCPBox.ctor at h
  split at h
  · cases h
  · rename_i s _
    cases hs : s.ints? with
    | none => simp [hs] at h
    | some p => simp [hs] at h; subst h; exact ⟨rfl, rfl⟩

/-- `GCPMapping(pix, wld, crs)`: an explicit CRS wins, `None` falls back to the CRS of the
world points — and an `Unset()` marker is NOT `None`: it silently discards the CRS the points
carry (observation, replayed on the code) -/
theorem gcpCrsArg_spec (w : CrsArg) (s : Spec) (b : Bool) :
    gcpCrsArg .none w = w ∧ gcpCrsArg (.spec s) w = .spec s ∧ normPlan (gcpCrsArg .unset w) b = .none :=
  ⟨rfl, rfl, rfl⟩

/-- `Tiles((by, bx), (ty, tx))` in any of the shape spellings is the modelled `Tiles.mk'` -/
theorem Tiles.ctor_spellings (by_ bx ty tx : Int) (t1 t2 : Bool) (c1 c2 : XYCls) :
    Tiles.ctor (.seq t1 [⟨.int, by_, false⟩, ⟨.int, bx, false⟩]) (.seq t2 [⟨.int, ty, false⟩, ⟨.int, tx, false⟩])
      = some (Tiles.mk' by_ bx ty tx) ∧
    Tiles.ctor (.xy ⟨c1, ⟨.int, bx, false⟩, ⟨.int, by_, false⟩⟩) (.xy ⟨c2, ⟨.int, tx, false⟩, ⟨.int, ty, false⟩⟩)
      = some (Tiles.mk' by_ bx ty tx) := by
  constructor
  · obtain ⟨v, _, h1, _, _, _, _, h6⟩ :=
      shapeOf_spellings ⟨.int, by_, false⟩ ⟨.int, bx, false⟩ by_ bx rfl rfl t1 .xy (by decide)
    obtain ⟨v', _, h1', _, _, _, _, h6'⟩ :=
      shapeOf_spellings ⟨.int, ty, false⟩ ⟨.int, tx, false⟩ ty tx rfl rfl t2 .xy (by decide)
    simp [Tiles.ctor, h1, h1', h6, h6']
  · have key : ∀ (c : XYCls) (y x : Int), ∃ v, shapeOf (.xy ⟨c, ⟨.int, x, false⟩, ⟨.int, y, false⟩⟩) = .ok v ∧
        v.ints? = some (y, x) := by
      intro c y x
      by_cases hc : c = .shape2d
      · subst hc
        exact ⟨⟨.shape2d, ⟨.int, x, false⟩, ⟨.int, y, false⟩⟩, by simp [shapeOf, shapeNorm], by simp [XYv.ints?, PyNum.isInt]⟩
      · obtain ⟨v, w, _, h2, h3, _, _, h6⟩ :=
          shapeOf_spellings ⟨.int, y, false⟩ ⟨.int, x, false⟩ y x rfl rfl true c hc
        subst h3; exact ⟨_, h2, h6⟩
    obtain ⟨v, h1, h2⟩ := key c1 by_ bx
    obtain ⟨v', h1', h2'⟩ := key c2 ty tx
    simp [Tiles.ctor, h1, h1', h2, h2']

/-- `roi_tiles(shape, how)`: nested `how` ignores `shape` altogether (and needs exactly two
parts); an empty `how` is an `IndexError`; a flat `how` is `Tiles(shape, how)` -/
theorem roiTilesArg_spec (s s' : Arg) (y x : List Int) (p : List (List Int)) (t : Bool) (a : Arg)
    (ha : ∀ u, a ≠ .seq u []) :
    roiTilesArg s (.nested [y, x]) = some (.ok (.var (VTiles.mk' y x))) ∧
    roiTilesArg s (.nested p) = roiTilesArg s' (.nested p) ∧
    (p.length ≠ 2 → roiTilesArg s (.nested p) = some (.error .valueError)) ∧
    roiTilesArg s (.flat (.seq t [])) = some (.error .indexError) ∧
    roiTilesArg s (.flat a) = (Tiles.ctor s a).map (·.map .reg) := by
  refine ⟨rfl, ?_, ?_, rfl, ?_⟩
  · match p with
    | [] | [_] | [_, _] | _ :: _ :: _ :: _ => rfl
  · intro hp
    match p, hp with
    | [], _ | [_], _ | _ :: _ :: _ :: _, _ => rfl
    | [_, _], hp => simp at hp
  · cases a <;> first | rfl | (rename_i u xs; cases xs <;> first | exact absurd rfl (ha u) | rfl)

/-- the public constructor reaches the modelled core: `GeoboxTiles(box, (ty, tx))` is
`GBTiles.mk' box (.shape ty tx)` and `GeoboxTiles(box, (chunks_y, chunks_x))` is
`GBTiles.mk' box (.chunks …)` — every theorem about `mk'` (regular base, tokens) therefore
speaks about the entry point -/
theorem GBTiles.ctorArg_eq_mk' (g : AnyBox) (ty tx : Int) (t : Bool) (y x : List Int) :
    GBTiles.ctorArg g (some (.flat (.seq t [⟨.int, ty, false⟩, ⟨.int, tx, false⟩]))) none
      = some (GBTiles.mk' g (.shape ty tx)) ∧
    GBTiles.ctorArg g (some (.nested [y, x])) none = some (GBTiles.mk' g (.chunks y x)) ∧
    GBTiles.ctorArg g none none = some (.error .assertion) := by
  refine ⟨?_, rfl, rfl⟩
  have h2 : Tiles.ctor g.shapeArg (.seq t [⟨.int, ty, false⟩, ⟨.int, tx, false⟩]) = some (Tiles.mk' g.ny g.nx ty tx) := by
    obtain ⟨v', _, h1', _, _, _, _, h6'⟩ :=
      shapeOf_spellings ⟨.int, ty, false⟩ ⟨.int, tx, false⟩ ty tx rfl rfl t .xy (by decide)
    have hs : shapeOf g.shapeArg = .ok ⟨.shape2d, ⟨.int, g.nx, false⟩, ⟨.int, g.ny, false⟩⟩ := by
      simp [AnyBox.shapeArg, Shape2d.mk', shapeOf, shapeNorm]
    have hi : (⟨.shape2d, ⟨.int, g.nx, false⟩, ⟨.int, g.ny, false⟩⟩ : XYv).ints? = some (g.ny, g.nx) := by
      simp [XYv.ints?, PyNum.isInt]
    simp only [Tiles.ctor, h1', hs, hi, h6']
  simp only [GBTiles.ctorArg, roiTilesArg, h2, Option.map_some, GBTiles.mk', roiTiles]
  rfl

/-- `GeoboxTiles(box, None, _tiles=T)` stores `T` unchecked — the check the fix added looks at
`how` only: the tiling need not be a tiling of the box (witness: a 3x3 tiling over a 10x10 box) -/
theorem GBTiles.ctorArg_tiles_unchecked_cex :
    ∃ (g : GBox) (t : Tiles) (r : GBTiles), GBTiles.ctorArg (.lin g) none (some (.reg t)) = some (.ok r) ∧
      r.tiles = .reg t ∧ (t.baseY ≠ g.ny ∨ t.baseX ≠ g.nx) :=
  ⟨⟨none, 10, 10, []⟩, ⟨3, 3, 2, 2, 2, 2⟩, _, rfl, rfl, by decide⟩

/-! ## GridSpec.__init__ -/

/-- the checks come in the code's order: tile shape, resolution, origin, and only then the
CRS — so a bad origin hides a missing CRS, and a bad shape hides everything -/
theorem GridSpec.ctor_order (crs : Res (Option CrsObj)) (s r o : Arg) (fx fy : Bool) (e : ErrKind) :
    (shapeOf s = .error e → GridSpec.ctor crs s r o fx fy = some (.error e)) ∧
    (∀ v, shapeOf s = .ok v → resOf r = .error e → GridSpec.ctor crs s r o fx fy = some (.error e)) ∧
    (∀ v w, shapeOf s = .ok v → resOf r = .ok w → o ≠ .none → (∀ u, o ≠ .xy u) →
      GridSpec.ctor crs s r o fx fy = some (.error .assertion)) ∧
    (∀ v w, shapeOf s = .ok v → resOf r = .ok w → (o = .none ∨ ∃ u, o = .xy u) → orError crs = .error e →
      GridSpec.ctor crs s r o fx fy = some (.error e)) := by
  refine ⟨?_, ?_, ?_, ?_⟩
  · intro h; simp [GridSpec.ctor, h]
  · intro v h1 h2; simp [GridSpec.ctor, h1, h2]
  · intro v w h1 h2 h3 h4
    cases o <;> first | exact absurd rfl h3 | (rename_i u; exact absurd rfl (h4 u)) | simp [GridSpec.ctor, h1, h2]
  · intro v w h1 h2 h3 h4
    rcases h3 with h3 | ⟨u, h3⟩ <;> subst h3 <;> simp [GridSpec.ctor, h1, h2, h4]

/-- with well-formed arguments the constructor is the modelled `GridSpec.mk'`: default origin
`(0.0, 0.0)`, square pixels with inverted Y from a number -/
theorem GridSpec.ctor_eq_mk' (c : CrsObj) (ty tx : Int) (t : Bool) (x : PyNum) (fx fy : Bool) :
    GridSpec.ctor (.ok (some c)) (.seq t [⟨.int, ty, false⟩, ⟨.int, tx, false⟩]) (.num x) .none fx fy =
      some (GridSpec.mk' c ty tx (resNorm (.num x)).x (resNorm (.num x)).y ⟨.float, 0, false⟩ ⟨.float, 0, false⟩ fx fy) := by
  obtain ⟨v, _, h1, _, _, _, _, h6⟩ :=
    shapeOf_spellings ⟨.int, ty, false⟩ ⟨.int, tx, false⟩ ty tx rfl rfl t .xy (by decide)
  simp [GridSpec.ctor, h1, h6, resOf, orError, XY.mk']

/-- equivalent spellings of the resolution and of the origin give the same GridSpec:
`8` / `Resolution(8.0, -8.0)`; no origin / `xy_(0.0, 0.0)` -/
theorem GridSpec.ctor_spellings (crs : Res (Option CrsObj)) (s : Arg) (x : PyNum) (fx fy : Bool) :
    GridSpec.ctor crs s (.num x) .none fx fy = GridSpec.ctor crs s (.xy (resNorm (.num x))) .none fx fy ∧
    GridSpec.ctor crs s (.num x) .none fx fy =
      GridSpec.ctor crs s (.num x) (.xy (XY.mk' ⟨.float, 0, false⟩ ⟨.float, 0, false⟩)) fx fy := by
  constructor
  · have : resOf (.xy (resNorm (.num x))) = resOf (.num x) := by
      simp [resOf, resNorm, Resolution.mk']
    simp only [GridSpec.ctor, this]
  · rfl



/-- the public constructor reaches the C14 grid model with nothing in between:
`GridSpec(crs, (ty, tx), r)` is the C14 grid `new ty tx r (−r) 0 0 flipx flipy` (exact mode) and
is refused exactly when C14's `new` refuses — so `GridSpec.token_sound_C14` (equal tokens ⇒
same tiles, same point look-ups) speaks about values built through the entry point -/
theorem GridSpec.ctor_to_C14 (c : CrsObj) (ty tx : Int) (t : Bool) (x : PyNum) (fx fy : Bool) :
    (GridSpec.ctor (.ok (some c)) (.seq t [⟨.int, ty, false⟩, ⟨.int, tx, false⟩]) (.num x) .none fx fy).map
        (·.map GridSpec.toC14) =
      some (C14.GridSpec.new id ty tx x.val (-x.val) 0 0 fx fy) := by
  rw [GridSpec.ctor_eq_mk', Option.map_some, GridSpec.mk'_eq_C14_new]
  have hx : (resNorm (.num x)).x.val = x.val := rfl
  have hy : (resNorm (.num x)).y.val = -x.val := by
    simp only [resNorm, Resolution.mk', PyNum.toFloat, PyNum.neg]
  rw [hx, hy]

/-! ## End to end: from the arguments of the public constructors to `==`

No named hypothesis between the entry point and the result: the argument normalisers
(`shape_`, `norm_crs`), the construction cache after ANY real history (`construct_sys_correct`)
and the field-wise equality compose.  What remains assumed is stated in the statement: pyproj's
coherence on cache keys (`KeySysCoherent`, `KeyAcceptCoherent`, tabulated from pyproj on every
run) and EPSG coherence of the CRS records involved (`Coherent`; finding K4 is its negation). -/

/-- `GeoBox(shape₁, A, spec₁) == GeoBox(shape₂, A, spec₂)` whenever the two shape arguments
normalise to the same integers and the two CRS specifications denote the same system for
pyproj — whatever spelling each argument has (tuple / list / XY / Shape2d; text in any letter
case / int / pyproj object / dict / CRS instance) and whatever was constructed, dropped or
collected before either call. -/
theorem GBox.ctor_equal_of_equivalent_args {D : CrsObj → Prop} (hD : Coherent D)
    (W : World) (hW : KeySysCoherent W) (hA : KeyAcceptCoherent W)
    (h1 h2 : List Op) (hr1 : ∀ op ∈ h1, op.real = true) (hr2 : ∀ op ∈ h2, op.real = true)
    (a1 a2 : CrsArg) (s1 s2 : Spec) (p1 p2 : Nat) (c1 c2 : CrsObj)
    (hp1 : normPlan a1 false = .build s1) (hp2 : normPlan a2 false = .build s2)
    (hn1 : (normRun W (run W h1).1 (normPlan a1 false) p1).2 = .ok (some c1))
    (hn2 : (normRun W (run W h2).1 (normPlan a2 false) p2).2 = .ok (some c2))
    (hsame : specSys W (run W h1).1 s1 = specSys W (run W h2).1 s2)
    (hd1 : D c1) (hd2 : D c2)
    (sh1 sh2 : Arg) (aff : List PyNum) (g1 g2 : GBox) (v w : XYv)
    (hs1 : shapeOf sh1 = .ok v) (hs2 : shapeOf sh2 = .ok w) (hvw : v.ints? = w.ints?)
    (hg1 : GBox.ctor sh1 aff (some c1) = some (.ok g1)) (hg2 : GBox.ctor sh2 aff (some c2) = some (.ok g2)) :
    g1.eq g2 = true := by
  have e1 := norm_crs_sys_correct W hW hA h1 hr1 a1 s1 p1 c1 hp1 hn1
  have e2 := norm_crs_sys_correct W hW hA h2 hr2 a2 s2 p2 c2 hp2 hn2
  have hsys : c1.info.sys = c2.info.sys := by
    rw [e1, e2] at hsame; exact Option.some.inj hsame
  simp only [GBox.ctor, hs1, hs2] at hg1 hg2
  cases hv : v.ints? with
  | none => simp [hv] at hg1
  | some pr =>
    have hw : w.ints? = some pr := by rw [← hvw, hv]
    simp only [hv, hw, Option.map_some, Option.some.injEq, Except.ok.injEq] at hg1 hg2
    subst hg1; subst hg2
    rw [GBox.eq_iff hD _ _ (show OptD D (some c1) from hd1) (show OptD D (some c2) from hd2)]
    exact ⟨rfl, rfl, rfl, by simp [hsys]⟩

/-- the same for `BoundingBox(l, b, r, t, spec)` (the numbers may differ in kind: `0` / `0.0` / `False`) -/
theorem BBox.ctor_equal_of_equivalent_args {D : CrsObj → Prop} (hD : Coherent D)
    (W : World) (hW : KeySysCoherent W) (hA : KeyAcceptCoherent W)
    (h1 h2 : List Op) (hr1 : ∀ op ∈ h1, op.real = true) (hr2 : ∀ op ∈ h2, op.real = true)
    (a1 a2 : CrsArg) (s1 s2 : Spec) (p1 p2 : Nat) (c1 c2 : CrsObj)
    (hp1 : normPlan a1 false = .build s1) (hp2 : normPlan a2 false = .build s2)
    (hn1 : (normRun W (run W h1).1 (normPlan a1 false) p1).2 = .ok (some c1))
    (hn2 : (normRun W (run W h2).1 (normPlan a2 false) p2).2 = .ok (some c2))
    (hsame : specSys W (run W h1).1 s1 = specSys W (run W h2).1 s2)
    (hd1 : D c1) (hd2 : D c2)
    (l b r t l' b' r' t' : PyNum) (hl : l.val = l'.val) (hb : b.val = b'.val) (hr : r.val = r'.val)
    (ht : t.val = t'.val) :
    (BBox.ctor l b r t (some c1)).eq (BBox.ctor l' b' r' t' (some c2)) = true := by
  have e1 := norm_crs_sys_correct W hW hA h1 hr1 a1 s1 p1 c1 hp1 hn1
  have e2 := norm_crs_sys_correct W hW hA h2 hr2 a2 s2 p2 c2 hp2 hn2
  have hsys : c1.info.sys = c2.info.sys := by
    rw [e1, e2] at hsame; exact Option.some.inj hsame
  have hc : crsEq c1 c2 = true := (crs_eq_iff_sys hD c1 c2 hd1 hd2).2 hsys
  simp [BBox.eq, BBox.ctor, optCrsEq, hc, PyNum.eq, hl, hb, hr, ht]

/-- … and a value whose CRS argument is an existing instance holds THAT instance
(`norm_crs` passes it through): it is `==` to itself whatever the instance's lazy state is,
with no coherence hypothesis at all -/
theorem GBox.ctor_same_instance (W : World) (σ : State) (v pick : Nat) (c : CrsObj)
    (hv : assoc v σ.vars = some c) (sh : Arg) (aff : List PyNum) (g g' : GBox)
    (hg : GBox.ctor sh aff (some c) = some (.ok g)) (hg' : GBox.ctor sh aff (some c) = some (.ok g')) :
    (normRun W σ (normPlan (.spec (.crs v)) false) pick).2 = .ok (some c) ∧ g.eq g' = true := by
  refine ⟨by rw [normRun_same W σ v pick c hv], ?_⟩
  rw [hg] at hg'
  simp only [Option.some.injEq, Except.ok.injEq] at hg'
  subst hg'
  simp [GBox.eq, optCrsEq_refl, numsEq_iff]

/-! ## Non-vacuity of the hypotheses used above -/

example : shapeOf (.seq true [⟨.int, 3, false⟩, ⟨.int, 4, false⟩]) = .ok ⟨.shape2d, ⟨.int, 4, false⟩, ⟨.int, 3, false⟩⟩ := by
  decide +kernel
example : ixyOf (.two ⟨.int, 1, false⟩ ⟨.int, 2, false⟩) = .ok (Index2d.mk' ⟨.int, 1, false⟩ ⟨.int, 2, false⟩) := by
  decide +kernel
example : resOf (.num ⟨.int, 8, false⟩) = .ok (resNorm (.num ⟨.int, 8, false⟩)) := rfl
example : utmMode? "utm-n" = some .north ∧ utmMode? "EPSG:4326" = none := by decide +kernel
example : normPlan (.spec (.str "EPSG:4326")) false = .build (.str "EPSG:4326") := by decide +kernel
example : (⟨.shape2d, ⟨.int, 4, false⟩, ⟨.int, 3, false⟩⟩ : XYv).shapeT = .ok [⟨.int, 3, false⟩, ⟨.int, 4, false⟩] := by
  decide +kernel
example : GBox.ctor (.seq true [⟨.int, 3, false⟩]) [] none = some (.error .valueError) := by decide +kernel
example : GCPBox.ctor (.seq true [⟨.int, 3, false⟩, ⟨.int, 4, false⟩]) ⟨0, none, [], []⟩ none =
    some (.ok ⟨3, 4, affIdentity, ⟨0, none, [], []⟩⟩) := by decide +kernel
example : orError (.ok none) = .error .valueError := rfl
example : utmAdjust .north ⟨none, true, true, false⟩ = .error .assertion := by decide +kernel
example : utmAdjust .north (utmFactsOf 55 true) = .ok (some 32655) := by decide +kernel

/-- the data hypotheses of `GBox.ctor_equal_of_equivalent_args` are jointly satisfiable: in the
demo world, `GeoBox((3, 4), A, "A")` in a fresh interpreter and `GeoBox(XY(4, 3), A, "WA")` after
`CRS("A")` was built (two spellings of system 0) -/
example :
    let W := demoWorld
    let h2 : List Op := [.mk 0 (.str "A") 0]
    let c1 : CrsObj := ⟨0, ⟨0, "A", "WA", none⟩, "A", some 0⟩
    let c2 : CrsObj := ⟨1, ⟨0, "WA", "WA", none⟩, "WA", some 0⟩
    normPlan (.spec (.str "A")) false = .build (.str "A") ∧ normPlan (.spec (.str "WA")) false = .build (.str "WA") ∧
    (normRun W (run W []).1 (normPlan (.spec (.str "A")) false) 0).2 = .ok (some c1) ∧
    (normRun W (run W h2).1 (normPlan (.spec (.str "WA")) false) 0).2 = .ok (some c2) ∧
    specSys W (run W []).1 (.str "A") = specSys W (run W h2).1 (.str "WA") ∧
    (∀ op ∈ h2, op.real = true) ∧
    GBox.ctor (.seq true [⟨.int, 3, false⟩, ⟨.int, 4, false⟩]) [] (some c1) = some (.ok ⟨some c1, 3, 4, []⟩) ∧
    GBox.ctor (.xy ⟨.xy, ⟨.int, 4, false⟩, ⟨.int, 3, false⟩⟩) [] (some c2) = some (.ok ⟨some c2, 3, 4, []⟩) := by
  decide +kernel

end OdcGeo.C19
