/- C01 — explicit corollaries of `mismatch_raises` with the POSITION and the LENGTH of the operand list
quantified: a CRS mismatch at any index of a stream of any length (in particular beyond any
"fast-path" threshold such as 64) makes `bbox_union` / `bbox_intersection` and every n-ary table
operation raise, and what is raised is a `ValueError` (never a `TypeError`) — also for CRSs that carry
no EPSG code, where `CRS.__eq__` falls through to the string / pyproj comparison. -/
import OdcGeo.Props.C01

namespace OdcGeo.C01

variable {S R : Type}

/-- **bbox_union / bbox_intersection, any length, any position**: the odd box at index `i` of the
stream after the first box — `pre.length = i`, any number of boxes before and after it — raises
`CRSMismatchError`; nothing is returned however long the stream is. -/
theorem bbox_stream_mismatch_at (x0 x : Obj BBox) (pre post : List (Obj BBox))
    (hmis : tagNe x0.crs x.crs = true) :
    bboxUnion (x0 :: (pre ++ x :: post)) = .error .crsMismatch ∧
    bboxIntersection (x0 :: (pre ++ x :: post)) = .error .crsMismatch ∧
    Err.crsMismatch.isValueError = true :=
  ⟨bboxUnion_mismatch x0 _ ⟨x, by simp, hmis⟩, bboxIntersection_mismatch x0 _ ⟨x, by simp, hmis⟩, rfl⟩

/-- the same with the index explicit: whatever `i < rest.length` the odd operand sits at -/
theorem bbox_stream_mismatch_index (x0 : Obj BBox) (rest : List (Obj BBox)) (i : Nat) (hi : i < rest.length)
    (hmis : tagNe x0.crs (rest[i]).crs = true) :
    bboxUnion (x0 :: rest) = .error .crsMismatch ∧ bboxIntersection (x0 :: rest) = .error .crsMismatch :=
  ⟨bboxUnion_mismatch x0 rest ⟨rest[i], List.getElem_mem hi, hmis⟩,
   bboxIntersection_mismatch x0 rest ⟨rest[i], List.getElem_mem hi, hmis⟩⟩

/-- **every n-ary operation of the table** (`common_crs`, `multigeom`, `unary_union`,
`unary_intersection`, `bbox_union`, `bbox_intersection`, `geobox_*_conservative`): a mismatch at any
position of an operand list of any length raises a `ValueError` — and not a `TypeError` -/
theorem nary_mismatch_at (op : OpSpec) (hop : op ∈ opTable) (hn : op.arity = .many) (D : Delegate S R)
    (hD : StepsTotal D op) (x0 x : Obj S) (pre post : List (Obj S)) (hmis : tagNe x0.crs x.crs = true) :
    ∃ e, run op D (x0 :: (pre ++ x :: post)) = .error e ∧ e.isValueError = true ∧ e ≠ .typeError := by
  obtain ⟨e, he, hv⟩ := table_mismatch_raises op hop D x0 (pre ++ x :: post)
    (by intro h; rw [hn] at h; cases h) hD ⟨x, by simp, hmis⟩
  exact ⟨e, he, hv, by intro h; rw [h] at hv; cases hv⟩

/-- **CRSs without an EPSG code are compared, not rejected**: two CRS records neither of which carries
an EPSG code (`_epsg` falsy) and that differ in object, text and pyproj class are unequal for
`CRS.__eq__`, so they are a *mismatch* like any other: the operation raises its CRS `ValueError`. -/
theorem no_epsg_mismatch_is_valueError (a b : CrsRec) (ha : a.epsg = 0) (hb : b.epsg = 0)
    (ho : a.objId ≠ b.objId) (hs : a.str ≠ b.str) (hc : a.cls ≠ b.cls) (ba bb : BBox)
    (pre post : List (Obj BBox)) :
    tagNe (some a) (some b) = true ∧
    bboxUnion (⟨some a, ba⟩ :: (pre ++ ⟨some b, bb⟩ :: post)) = .error .crsMismatch ∧
    Err.crsMismatch.isValueError = true ∧ Err.crsMismatch ≠ Err.typeError := by
  have hne : tagNe (some a) (some b) = true := by
    simp [tagNe, tagEq, crsEq, ha, ho, hs, hc]
  exact ⟨hne, (bbox_stream_mismatch_at ⟨some a, ba⟩ ⟨some b, bb⟩ pre post hne).1, rfl, by decide⟩

/-- … and when only ONE side has a code, or the codes differ, likewise (the EPSG short-cut needs both) -/
theorem one_sided_epsg_mismatch (a b : CrsRec) (hb : b.epsg = 0)
    (ho : a.objId ≠ b.objId) (hs : a.str ≠ b.str) (hc : a.cls ≠ b.cls) :
    tagNe (some a) (some b) = true ∧ tagNe (some b) (some a) = true := by
  constructor <;> simp [tagNe, tagEq, crsEq, hb, ho, hs, hc, Ne.symm ho, Ne.symm hs, Ne.symm hc]

/-- non-vacuity: 100 boxes, the odd one (a CRS without EPSG code) at index 50 -/
example :
    let good : Obj BBox := ⟨some ⟨1, 0, 1, 1⟩, ⟨0, 0, 1, 1⟩⟩
    let odd : Obj BBox := ⟨some ⟨2, 0, 2, 2⟩, ⟨5, 5, 6, 6⟩⟩
    bboxUnion (good :: (List.replicate 50 good ++ odd :: List.replicate 48 good)) = .error .crsMismatch ∧
    (good :: (List.replicate 50 good ++ odd :: List.replicate 48 good)).length = 100 := by
  intro good odd
  exact ⟨(bbox_stream_mismatch_at good odd _ _ (by decide)).1, by simp⟩

example : ∃ op ∈ opTable, op.name = "geom.bbox_union" ∧ op.arity = .many := by decide

end OdcGeo.C01
