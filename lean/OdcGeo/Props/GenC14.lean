/-
C14 — source tie.  `OdcGeo/Gen/C14.lean` is regenerated from `/repo/odc/geo/{math.py,gridspec.py}` by `tools/py2lean.py` on
every run of `check.py C14`; the theorems `tie_*` prove each regenerated definition equal to the hand model of
`OdcGeo/Model/C14.lean` at exact arithmetic (`fl := id`) for ALL inputs.  `GridSpec` is the model's flat record; the python
attributes (`resolution`, `origin`, `_shape`: XY / Shape2d pairs; `_xbin`, `_ybin`: `Bin1D`) are declared views of it; the
CRS is outside this model (`self.crs == bounds.crs` is abstracted to true, property C01 covers CRS mixing).

The theorems live in OdcGeo/Props/GenC14/*.lean; this file only imports them all.
-/
import OdcGeo.Props.GenC14.Bin1d
import OdcGeo.Props.GenC14.Pt2idx
import OdcGeo.Props.GenC14.TileTxy
import OdcGeo.Props.GenC14.Partition
