/-
C05, part 2 — theorems about the option normalisation of the dask COG writer (`Model/C05Opts.lean`).
-/
import OdcGeo.Model.C05Opts
import Mathlib.Tactic.Linarith

set_option linter.unusedVariables false
set_option linter.unusedSimpArgs false

namespace OdcGeo.C05

/-! ## predictor -/

/-- `norm_predictor_table`: `None` / `False` → 1 (none); `True` → 3 for floats, 2 for integers of at most 32 bits, else 1;
a number is taken as is -/
theorem norm_predictor_table (dt : DType) :
    normPredictor .none dt = 1 ∧ normPredictor (.bool false) dt = 1 ∧ (∀ n, normPredictor (.int n) dt = n) ∧
    (dt.kind = 'f' → normPredictor (.bool true) dt = 3) ∧
    ((dt.kind = 'u' ∨ dt.kind = 'i') → dt.size ≤ 4 → normPredictor (.bool true) dt = 2) ∧
    ((dt.kind = 'u' ∨ dt.kind = 'i') → 4 < dt.size → normPredictor (.bool true) dt = 1) ∧
    (dt.kind ≠ 'f' → dt.kind ≠ 'u' → dt.kind ≠ 'i' → normPredictor (.bool true) dt = 1) := by
  refine ⟨rfl, rfl, fun _ => rfl, ?_, ?_, ?_, ?_⟩
  · intro h; simp [normPredictor, h]
  · intro h hs
    have hf : dt.kind ≠ 'f' := by rcases h with h | h <;> rw [h] <;> decide
    simp [normPredictor, hf, h, hs]
  · intro h hs
    have hf : dt.kind ≠ 'f' := by rcases h with h | h <;> rw [h] <;> decide
    have : ¬ dt.size ≤ 4 := by omega
    simp [normPredictor, hf, this]
  · intro h1 h2 h3; simp [normPredictor, h1, h2, h3]

/-- the predictor is always one of the TIFF predictor numbers 1, 2, 3 unless the caller passed a number of their own -/
theorem norm_predictor_range (p : PredArg) (dt : DType) (hp : ∀ n, p ≠ .int n) :
    normPredictor p dt = 1 ∨ normPredictor p dt = 2 ∨ normPredictor p dt = 3 := by
  cases p with
  | none => exact Or.inl rfl
  | bool b =>
    cases b
    · exact Or.inl rfl
    · simp only [normPredictor]; split
      · exact Or.inr (Or.inr rfl)
      · split
        · exact Or.inr (Or.inl rfl)
        · exact Or.inl rfl
  | int n => exact absurd rfl (hp n)

/-! ## compression arguments -/

theorem CArgs.get_cons (p : String × CVal) (c : CArgs) (k : String) :
    CArgs.get (p :: c) k = if p.1 = k then some p.2 else CArgs.get c k := by
  unfold CArgs.get
  by_cases h : p.1 = k <;> simp [h]

theorem CArgs.get_set (c : CArgs) (k : String) (v : CVal) (k' : String) :
    CArgs.get (c.set k v) k' = if k' = k then some v else CArgs.get c k' := by
  unfold CArgs.set
  induction c with
  | nil =>
    by_cases h : k' = k
    · subst h; simp [CArgs.get]
    · have : ¬ k = k' := fun e => h e.symm
      simp [CArgs.get, h, this]
  | cons p c ih =>
    by_cases hp : p.1 = k
    · subst hp
      have hany : ((p :: c).any fun x => x.1 == p.1) = true := by simp
      rw [if_pos hany]
      simp only [List.map_cons, beq_self_eq_true, if_true, CArgs.get_cons]
      by_cases h : k' = p.1
      · subst h; simp
      · have h' : ¬ p.1 = k' := fun e => h e.symm
        simp only [h, h', if_false]
        -- the tail: either it still contains the key (mapped) or not (unchanged); `get` at another key is the same
        clear hany ih
        induction c with
        | nil => rfl
        | cons q c ih2 =>
          simp only [List.map_cons, CArgs.get_cons]
          by_cases hq : q.1 = p.1
          · have hq' : (q.1 == p.1) = true := by simpa using hq
            have : ¬ p.1 = k' := h'
            simp only [hq', if_true, this, if_false]
            have hqk : ¬ q.1 = k' := by rw [hq]; exact h'
            simp only [hqk, if_false]; exact ih2
          · have hq' : (q.1 == p.1) = false := by simpa using hq
            simp only [hq', Bool.false_eq_true, if_false]
            by_cases hqk : q.1 = k' <;> simp only [hqk, if_true, if_false]; exact ih2
    · have hpb : (p.1 == k) = false := by simpa using hp
      by_cases hany : (c.any fun x => x.1 == k) = true
      · have hany' : ((p :: c).any fun x => x.1 == k) = true := by simp [hpb, hany]
        rw [if_pos hany'] ; rw [if_pos hany] at ih
        simp only [List.map_cons, hpb, Bool.false_eq_true, if_false, CArgs.get_cons, ih]
        by_cases h : k' = k
        · subst h; simp [hp]
        · simp [h]
      · have hany' : ¬ ((p :: c).any fun x => x.1 == k) = true := by simp [hpb, hany]
        rw [if_neg hany']; rw [if_neg hany] at ih
        simp only [List.cons_append, CArgs.get_cons, ih]
        by_cases h : k' = k
        · subst h; simp [hp]
        · simp [h]

theorem lercSplit_level (c : String) (ca : CArgs) (kw0 kw : Kw) :
    CArgs.get (lercSplit c ca kw0 kw).2.1 "level" = CArgs.get ca "level" := by
  unfold lercSplit
  split
  · split <;> simp [CArgs.get_set]
  · split
    · split <;> simp [CArgs.get_set]
    · rfl

theorem lercSplit_name (c : String) (ca : CArgs) (kw0 kw : Kw) :
    (lercSplit c ca kw0 kw).1 ≠ "LERC_DEFLATE" ∧ (lercSplit c ca kw0 kw).1 ≠ "LERC_ZSTD" ∧
    (c ≠ "LERC_DEFLATE" → c ≠ "LERC_ZSTD" → (lercSplit c ca kw0 kw).1 = c) ∧
    (c = "LERC_DEFLATE" ∨ c = "LERC_ZSTD" → (lercSplit c ca kw0 kw).1 = "LERC") := by
  unfold lercSplit
  split
  · rename_i h; subst h
    split <;> simp
  · rename_i h1
    split
    · rename_i h2; subst h2
      split <;> simp
    · rename_i h2
      exact ⟨h1, h2, fun _ _ => rfl, fun h => by rcases h with h | h <;> contradiction⟩

/-- `explicit_level_wins`: a `level=` argument always ends up as `compressionargs["level"]` — whatever the codec, whatever
`compressionargs` and GDAL-style keywords say (also a level of 0: values are never tested for truth) -/
theorem explicit_level_wins (dt : DType) (pred : PredOpt) (comp : Option String) (cargs : Option CArgs) (l : String) (kw : Kw) :
    CArgs.get (normCompressionTifffile dt pred comp cargs (some l) kw).cargs "level" = some (.tok l) := by
  unfold normCompressionTifffile
  simp only [lercSplit_level, pickLevel, Option.isNone_some, Bool.false_and, Bool.false_eq_true, if_false, putLevel, CArgs.get_set, if_true]

/-- a level inside `compressionargs` is kept when no `level=` is given — and then the GDAL-style keyword is not even looked at -/
theorem cargs_level_kept (dt : DType) (pred : PredOpt) (comp : Option String) (ca : CArgs) (v : CVal) (kw : Kw)
    (h : CArgs.get ca "level" = some v) :
    CArgs.get (normCompressionTifffile dt pred comp (some ca) none kw).cargs "level" = some v := by
  have hh : ca.has "level" = true := by
    unfold CArgs.get at h
    unfold CArgs.has
    rw [List.any_eq_true]
    cases hf : List.find? (fun x => x.1 == "level") ca with
    | none => simp [hf] at h
    | some p => exact ⟨p, List.mem_of_find?_eq_some hf, by simpa using List.find?_some hf⟩
  unfold normCompressionTifffile
  simp only [lercSplit_level, pickLevel, Option.getD_some, hh, Bool.not_true, Bool.and_false, Bool.false_eq_true, if_false, putLevel, h]

/-- `gdal_level_used`: without `level=` and without a level in `compressionargs`, the codec's own GDAL-style keyword (any letter
case) supplies the level -/
theorem gdal_level_used (dt : DType) (pred : PredOpt) (comp : Option String) (kw : Kw) (l : String)
    (h : (gdalLevel (pickCodec comp kw).2 (pickCodec comp kw).2 (upper (pickCodec comp kw).1)).1 = some l) :
    CArgs.get (normCompressionTifffile dt pred comp none none kw).cargs "level" = some (.tok l) := by
  unfold normCompressionTifffile
  simp only [lercSplit_level, pickLevel, Option.isNone_none, Option.getD_none, CArgs.has, List.any_nil, Bool.not_false, Bool.and_self,
    if_true, h, putLevel, CArgs.get_set]

example : (gdalLevel [("ZLEVEL", "0")] [("ZLEVEL", "0")] (upper "deflate")).1 = some "0" := by decide

/-- the codec name handed to tifffile is never the GDAL spelling `DEFLATE`, `LERC_DEFLATE` or `LERC_ZSTD` -/
theorem codec_names_normalised (dt : DType) (pred : PredOpt) (comp : Option String) (cargs : Option CArgs) (level : Option String) (kw : Kw) :
    let c := (normCompressionTifffile dt pred comp cargs level kw).compression
    c ≠ "DEFLATE" ∧ c ≠ "LERC_DEFLATE" ∧ c ≠ "LERC_ZSTD" := by
  intro c
  have hcdef : c = (normCompressionTifffile dt pred comp cargs level kw).compression := rfl
  clear_value c
  subst hcdef
  unfold normCompressionTifffile
  simp only
  generalize hc : (if upper (pickCodec comp kw).1 = "DEFLATE" then "ADOBE_DEFLATE" else upper (pickCodec comp kw).1) = c1
  have hc1 : c1 ≠ "DEFLATE" := by
    rw [← hc]; split
    · decide
    · assumption
  obtain ⟨n1, n2, n3, n4⟩ := lercSplit_name c1 (putLevel (cargs.getD []) (pickLevel level (cargs.getD []) (pickCodec comp kw).2 (pickCodec comp kw).2 (upper (pickCodec comp kw).1)).1)
    (pickCodec comp kw).2 (pickLevel level (cargs.getD []) (pickCodec comp kw).2 (pickCodec comp kw).2 (upper (pickCodec comp kw).1)).2
  refine ⟨?_, n1, n2⟩
  by_cases h1 : c1 = "LERC_DEFLATE"
  · rw [n4 (Or.inl h1)]; decide
  · by_cases h2 : c1 = "LERC_ZSTD"
    · rw [n4 (Or.inr h2)]; decide
    · rw [n3 h1 h2]; exact hc1

/-! ## `save_cog_with_dask` option glue -/

/-- `stats_tag_iff_computed`: the GDAL_METADATA placeholder is reserved in the header exactly when statistics will be computed
and written into it — for `stats=True`, `stats=False` and every level NUMBER including the falsy `stats=0` (so the
`assert md_tag is not None` of `_patch_hdr` cannot fire, and no empty tag is left behind) -/
theorem stats_tag_iff_computed (s : StatsArg) (n : Nat) (l : Option Nat) (h : statsLayer s n = .ok l) :
    (statsTag s = true ↔ l.isSome = true) := by
  cases s with
  | bool b => cases b <;> simp [statsLayer] at h <;> subst h <;> simp [statsTag]
  | int k =>
    simp only [statsLayer] at h
    split at h
    · cases h; simp [statsTag]
    · cases h

/-- the level the statistics come from exists: `True` → the middle level `⌊n/2⌋`, a number → that level (else `IndexError`) -/
theorem stats_layer_exists (s : StatsArg) (n k : Nat) (hn : 0 < n) (h : statsLayer s n = .ok (some k)) : k < n := by
  cases s with
  | bool b =>
    cases b <;> simp [statsLayer] at h
    subst h; omega
  | int m =>
    simp only [statsLayer] at h
    split at h
    · cases h; assumption
    · cases h

example : statsLayer (.int 0) 3 = .ok (some 0) ∧ statsTag (.int 0) = true ∧ statsLayer (.bool false) 3 = .ok none := by decide

/-- `repartition_bounds`: re-partitioning never produces an empty bag and only ever shrinks: above 20 partitions a quarter
(at least 5), otherwise unchanged -/
theorem repartition_bounds (n : Nat) :
    repartition n ≤ n ∧ (1 ≤ n → 1 ≤ repartition n) ∧ (20 < n → repartition n = n / 4 ∧ 5 ≤ repartition n) ∧ (n ≤ 20 → repartition n = n) := by
  unfold repartition
  refine ⟨?_, ?_, ?_, ?_⟩
  · split <;> omega
  · intro h; split <;> omega
  · intro h; rw [if_pos h]; omega
  · intro h; rw [if_neg (by omega)]

/-- RGB photometric interpretation only for band-last images with 3 or 4 samples; samples are interleaved (CONTIG) exactly for
band-last images -/
theorem photo_planar_table (ax : Axis) (ns : Nat) :
    ((photoPlanar ax ns).1 = "RGB" ↔ ax = .YXS ∧ (ns = 3 ∨ ns = 4)) ∧ ((photoPlanar ax ns).2 = "CONTIG" ↔ ax = .YXS) := by
  cases ax <;> simp [photoPlanar]
  omega

/-- `upload_params_precedence`: `spill_sz` / `writes_per_chunk` are taken from `aws=` when given there, else from the keywords,
and are removed from both (they are not passed on to tifffile / the S3 client) -/
theorem upload_params_removed (kw aws : Kw) (k : String) (hk : k = "writes_per_chunk" ∨ k = "spill_sz") :
    (uploadParams kw aws).2.1.get k = none ∧ (uploadParams kw aws).2.2.get k = none := by
  have key : ∀ (d : Kw), (["writes_per_chunk", "spill_sz"].foldl Kw.erase d).get k = none := by
    intro d
    simp only [List.foldl_cons, List.foldl_nil, Kw.erase, Kw.get, List.filter_filter]
    rw [Option.map_eq_none_iff, List.find?_eq_none]
    intro x hx
    simp only [List.mem_filter, Bool.and_eq_true, bne_iff_ne, ne_eq] at hx
    rcases hk with rfl | rfl <;> simp [hx.2.1, hx.2.2]
  exact ⟨key kw, key aws⟩

end OdcGeo.C05
