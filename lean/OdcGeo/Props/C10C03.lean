/-
C10 ∘ C03 — every plan that `compute_reproject_roi` (model: `C03.reprojectLinear`, imported read-only) returns with
`paste_ok` satisfies the hypotheses of C10's paste contract, and the contract follows end to end:

* the planned regions come from `box_overlap` of a *unit* transform (scale ±1 with the signs of the true transform,
  whole-pixel offsets in overview pixels), for every read-shrink `k ≥ 1`;
* shape law: `shape(roi_src) = k · shape(roi_dst)`;
* `paste_equals_nearest`: under an explicit half-pixel budget on the tolerances the pasted image equals the
  nearest-neighbour warp under the TRUE transform, pixel for pixel (read-shrink 1: of the source; read-shrink `k`: of the
  `k`-fold overview under the true overview transform);
* without the budget (`ttol > ½`) the contract can fail at an exact half-pixel tie: `paste_tie_cex`.
-/
import OdcGeo.Model.C10
import OdcGeo.Lemmas.C10
import OdcGeo.Props.C03
import OdcGeo.Props.C10
namespace OdcGeo.C10
open OdcGeo.C17 OdcGeo.C03

/-- **Link: a pasteable plan is `box_overlap` of a unit transform, for every read-shrink.**  If the plan reports
`paste_ok` (and `stol ≤ ½`), then with `k = read_shrink` and `B = scale(1/k)·A` the transform into the `k`-fold overview:
`S = snap_affine B` is a unit scale + whole-pixel shift with the signs of `B`, its offsets are within `ttol` of those of
`B`, padding / align were not requested, and the regions are `box_overlap` of `S` — of the source itself for `k = 1`, of
the `k`-fold overview scaled back up by `k` otherwise.  These are exactly the hypotheses of `paste_eq_warp`,
`paste_roi_shapes_equal`, `paste_dst_exact`. -/
theorem plan_satisfies_paste_contract (src dst : Shape) (fwd A : Aff) (n ttol stol : Rat) (padding align : Option Int)
    (p : Plan) (h : reprojectLinear src dst fwd A n ttol stol padding align = .ok p) (hp : p.pasteOk = true)
    (hstol : stol ≤ 1 / 2) :
    ∃ tx ty : Int, IsUnitST (snapAffine (overviewTr A p.readShrink) ttol stol) tx ty ∧ 1 ≤ p.readShrink ∧
      ((snapAffine (overviewTr A p.readShrink) ttol stol).a = if (overviewTr A p.readShrink).a < 0 then -1 else 1) ∧
      ((snapAffine (overviewTr A p.readShrink) ttol stol).e = if (overviewTr A p.readShrink).e < 0 then -1 else 1) ∧
      rabs ((overviewTr A p.readShrink).c - tx) < ttol ∧ rabs ((overviewTr A p.readShrink).f - ty) < ttol ∧
      rabs (overviewTr A p.readShrink).b < tol1em10 ∧ rabs (overviewTr A p.readShrink).d < tol1em10 ∧
      (align = none ∨ align = some 0) ∧ (padding = none ∨ padding = some 0) ∧
      ((p.readShrink = 1 ∧ boxOverlap src dst (snapAffine (overviewTr A 1) ttol stol) = .ok (p.roiSrc, p.roiDst)) ∨
       (p.readShrink ≠ 1 ∧ ∃ r' : ROI,
          boxOverlap (zoomOutDim src.1 p.readShrink, zoomOutDim src.2 p.readShrink) dst
            (snapAffine (overviewTr A p.readShrink) ttol stol) = .ok (r', p.roiDst) ∧
          p.roiSrc = scaledUpROI r' p.readShrink)) := by
  obtain ⟨hcp, hal, hpad, hbox⟩ := plan_paste_is_box src dst fwd A n ttol stol padding align p h hp
  obtain ⟨h1, _, _, _⟩ := reprojectLinear_cases h
  obtain ⟨rs, hc⟩ := (canPaste_true_iff A n stol ttol).mp hcp
  have hrs : rs = p.readShrink := by
    have := hc.hrs; rw [h1] at this
    simp only [Except.ok.injEq] at this; exact this.symm
  subst hrs
  obtain ⟨tx, ty, hS, sa, se, hcx, hcy, hb, hd⟩ := snapAffine_overview_unit A n stol ttol _ hc hstol
  have hov : overviewTr A 1 = A := by
    obtain ⟨a, b, c, d, e, f⟩ := A
    simp [overviewTr, Aff.scale, Aff.mul_def, Aff.mul]
  refine ⟨tx, ty, hS, read_shrink_pos_int _ _ _ hc.hrs, sa, se, hcx, hcy, hb, hd, hal, hpad, ?_⟩
  rcases hbox with ⟨r1, hb1⟩ | ⟨hne, r', hb', hsrc⟩
  · left; exact ⟨r1, by rw [hov]; exact hb1⟩
  · right; exact ⟨hne, r', hb', hsrc⟩

/-- **Shape law of every pasteable plan**: `shape(roi_src) = read_shrink · shape(roi_dst)`, on both axes, for every
read-shrink (the two-sided oracle `paste-src-shape-not-shrink-times-dst` of the harness, as a theorem). -/
theorem paste_shape_law (src dst : Shape) (fwd A : Aff) (n ttol stol : Rat) (padding align : Option Int)
    (p : Plan) (h : reprojectLinear src dst fwd A n ttol stol padding align = .ok p) (hp : p.pasteOk = true)
    (hstol : stol ≤ 1 / 2) (hs : 0 ≤ src.1 ∧ 0 ≤ src.2) (hd : 0 ≤ dst.1 ∧ 0 ≤ dst.2) :
    p.roiSrc.1.stop - p.roiSrc.1.start = p.readShrink * (p.roiDst.1.stop - p.roiDst.1.start) ∧
    p.roiSrc.2.stop - p.roiSrc.2.start = p.readShrink * (p.roiDst.2.stop - p.roiDst.2.start) := by
  obtain ⟨tx, ty, hS, hrs, _, _, _, _, _, _, _, _, hbox⟩ :=
    plan_satisfies_paste_contract src dst fwd A n ttol stol padding align p h hp hstol
  rcases hbox with ⟨h1, hb⟩ | ⟨_, r', hb, hsrc⟩
  · rw [h1] at hS
    have := paste_roi_shapes_equal src dst _ tx ty hS hs hd _ hb
    simp only at this
    rw [h1]; omega
  · have := paste_roi_shapes_equal (zoomOutDim src.1 p.readShrink, zoomOutDim src.2 p.readShrink) dst _ tx ty hS
      ⟨by simp only [zoomOutDim]; omega, by simp only [zoomOutDim]; omega⟩ hd _ hb
    simp only at this
    rw [hsrc]
    simp only [scaledUpROI, scaledUpSlice]
    constructor
    · rw [← this.1]; ring
    · rw [← this.2]; ring

/-- **`paste_equals_nearest`, read-shrink 1.**  Plan with `paste_ok`, read-shrink 1, `stol ≤ ½`, and the explicit
half-pixel budget `||A.a|−1|·nx + |A.b|·ny + ttol ≤ ½`, `|A.d|·nx + ||A.e|−1|·ny + ttol ≤ ½` (`ny × nx` the destination
shape: scale residue and rotation residue accumulated over the destination, plus the shift tolerance).  Then for EVERY
destination pixel and every pixel type the pasted image — `roi_src` copied into `roi_dst`, reversed along mirrored axes,
nodata elsewhere — is the nearest-neighbour warp of the whole source under the TRUE transform `A`. -/
theorem paste_equals_nearest {α : Type} (img : Int → Int → α) (nodata : α) (src dst : Shape) (fwd A : Aff)
    (n ttol stol : Rat) (padding align : Option Int) (p : Plan)
    (h : reprojectLinear src dst fwd A n ttol stol padding align = .ok p) (hp : p.pasteOk = true)
    (hrs : p.readShrink = 1) (hstol : stol ≤ 1 / 2)
    (hs : 0 ≤ src.1 ∧ 0 ≤ src.2) (hd : 0 ≤ dst.1 ∧ 0 ≤ dst.2)
    (hbx : rabs (rabs A.a - 1) * dst.2 + rabs A.b * dst.1 + ttol ≤ 1 / 2)
    (hby : rabs (rabs A.e - 1) * dst.1 + rabs A.d * dst.2 + ttol ≤ 1 / 2)
    (dy dx : Int) (hdy : 0 ≤ dy ∧ dy < dst.1) (hdx : 0 ≤ dx ∧ dx < dst.2) :
    pasted img (decide (A.e < 0)) (decide (A.a < 0)) p.roiSrc p.roiDst nodata dy dx =
      Warp.nnWarp img src A nodata dy dx := by
  obtain ⟨tx, ty, hS, _, sa, se, hcx, hcy, _, _, _, _, hbox⟩ :=
    plan_satisfies_paste_contract src dst fwd A n ttol stol padding align p h hp hstol
  have hov : overviewTr A 1 = A := by
    obtain ⟨a, b, c, d, e, f⟩ := A
    simp [overviewTr, Aff.scale, Aff.mul_def, Aff.mul]
  rw [hrs, hov] at hS sa se hcx hcy
  have hb : boxOverlap src dst (snapAffine A ttol stol) = .ok (p.roiSrc, p.roiDst) := by
    rcases hbox with ⟨_, hb⟩ | ⟨hne, _⟩
    · rw [hov] at hb; exact hb
    · exact absurd hrs hne
  have hu : (0 : Rat) < (dx : Rat) + 1 / 2 ∧ (dx : Rat) + 1 / 2 < dst.2 := by
    have a1 : (0 : Rat) ≤ dx := by exact_mod_cast hdx.1
    have a2 : (dx : Rat) + 1 ≤ dst.2 := by exact_mod_cast hdx.2
    constructor <;> linarith
  have hv : (0 : Rat) < (dy : Rat) + 1 / 2 ∧ (dy : Rat) + 1 / 2 < dst.1 := by
    have a1 : (0 : Rat) ≤ dy := by exact_mod_cast hdy.1
    have a2 : (dy : Rat) + 1 ≤ dst.1 := by exact_mod_cast hdy.2
    constructor <;> linarith
  have key := paste_eq_warp img nodata src dst (snapAffine A ttol stol) A tx ty hS hs hd _ hb dy dx hdy hdx
    (by
      have c := close_of_budget A.a A.b A.c tx ttol dst.2 dst.1 _ _ hu hv hcx hbx
      simp only [Aff.apply, hS.b0, hS.c, sa]
      have e : A.a * ((dx : Rat) + 1 / 2) + A.b * ((dy : Rat) + 1 / 2) + A.c -
          ((if A.a < 0 then -1 else 1) * ((dx : Rat) + 1 / 2) + 0 * ((dy : Rat) + 1 / 2) + (tx : Rat)) =
          A.a * ((dx : Rat) + 1 / 2) + A.b * ((dy : Rat) + 1 / 2) + A.c -
          ((if A.a < 0 then -1 else 1) * ((dx : Rat) + 1 / 2) + (tx : Rat)) := by ring
      rw [e]; exact c)
    (by
      have c := close_of_budget A.e A.d A.f ty ttol dst.1 dst.2 _ _ hv hu hcy hby
      simp only [Aff.apply, hS.d0, hS.f, se]
      have e : A.d * ((dx : Rat) + 1 / 2) + A.e * ((dy : Rat) + 1 / 2) + A.f -
          (0 * ((dx : Rat) + 1 / 2) + (if A.e < 0 then -1 else 1) * ((dy : Rat) + 1 / 2) + (ty : Rat)) =
          A.e * ((dy : Rat) + 1 / 2) + A.d * ((dx : Rat) + 1 / 2) + A.f -
          ((if A.e < 0 then -1 else 1) * ((dy : Rat) + 1 / 2) + (ty : Rat)) := by ring
      rw [e]; exact c)
  have fa : decide ((snapAffine A ttol stol).a < 0) = decide (A.a < 0) := by
    rw [sa]; by_cases c : A.a < 0 <;> simp [c]
  have fe : decide ((snapAffine A ttol stol).e < 0) = decide (A.e < 0) := by
    rw [se]; by_cases c : A.e < 0 <;> simp [c]
  rw [fa, fe] at key
  exact key

/-- **`paste_equals_nearest`, read-shrink `k > 1`.**  The same contract one level up: with `B = scale(1/k)·A` the TRUE
transform into the `k`-fold overview and the half-pixel budget stated for `B` (in overview pixels), the destination
region filled from the overview block `r'` (`roi_src = k · r'`), reversed along mirrored axes, equals the
nearest-neighbour warp of the whole overview image under `B` — for every destination pixel and pixel type. -/
theorem paste_equals_nearest_overview {α : Type} (ov : Int → Int → α) (nodata : α) (src dst : Shape) (fwd A : Aff)
    (n ttol stol : Rat) (padding align : Option Int) (p : Plan)
    (h : reprojectLinear src dst fwd A n ttol stol padding align = .ok p) (hp : p.pasteOk = true)
    (hrs : p.readShrink ≠ 1) (hstol : stol ≤ 1 / 2) (hd : 0 ≤ dst.1 ∧ 0 ≤ dst.2)
    (hbx : rabs (rabs (overviewTr A p.readShrink).a - 1) * dst.2 + rabs (overviewTr A p.readShrink).b * dst.1 + ttol ≤ 1 / 2)
    (hby : rabs (rabs (overviewTr A p.readShrink).e - 1) * dst.1 + rabs (overviewTr A p.readShrink).d * dst.2 + ttol ≤ 1 / 2) :
    ∃ r' : ROI, p.roiSrc = scaledUpROI r' p.readShrink ∧
      ∀ dy dx : Int, 0 ≤ dy ∧ dy < dst.1 → 0 ≤ dx ∧ dx < dst.2 →
        pasted ov (decide ((overviewTr A p.readShrink).e < 0)) (decide ((overviewTr A p.readShrink).a < 0)) r' p.roiDst
            nodata dy dx =
          Warp.nnWarp ov (zoomOutDim src.1 p.readShrink, zoomOutDim src.2 p.readShrink) (overviewTr A p.readShrink)
            nodata dy dx := by
  obtain ⟨tx, ty, hS, _, sa, se, hcx, hcy, _, _, _, _, hbox⟩ :=
    plan_satisfies_paste_contract src dst fwd A n ttol stol padding align p h hp hstol
  rcases hbox with ⟨h1, _⟩ | ⟨_, r', hb, hsrc⟩
  · exact absurd h1 hrs
  · refine ⟨r', hsrc, fun dy dx hdy hdx => ?_⟩
    generalize hB : overviewTr A p.readShrink = B at *
    have hu : (0 : Rat) < (dx : Rat) + 1 / 2 ∧ (dx : Rat) + 1 / 2 < dst.2 := by
      have a1 : (0 : Rat) ≤ dx := by exact_mod_cast hdx.1
      have a2 : (dx : Rat) + 1 ≤ dst.2 := by exact_mod_cast hdx.2
      constructor <;> linarith
    have hv : (0 : Rat) < (dy : Rat) + 1 / 2 ∧ (dy : Rat) + 1 / 2 < dst.1 := by
      have a1 : (0 : Rat) ≤ dy := by exact_mod_cast hdy.1
      have a2 : (dy : Rat) + 1 ≤ dst.1 := by exact_mod_cast hdy.2
      constructor <;> linarith
    have key := paste_eq_warp ov nodata (zoomOutDim src.1 p.readShrink, zoomOutDim src.2 p.readShrink) dst
      (snapAffine B ttol stol) B tx ty hS
      ⟨by simp only [zoomOutDim]; omega, by simp only [zoomOutDim]; omega⟩ hd _ hb dy dx hdy hdx
      (by
        have c := close_of_budget B.a B.b B.c tx ttol dst.2 dst.1 _ _ hu hv hcx hbx
        simp only [Aff.apply, hS.b0, hS.c, sa]
        have e : B.a * ((dx : Rat) + 1 / 2) + B.b * ((dy : Rat) + 1 / 2) + B.c -
            ((if B.a < 0 then -1 else 1) * ((dx : Rat) + 1 / 2) + 0 * ((dy : Rat) + 1 / 2) + (tx : Rat)) =
            B.a * ((dx : Rat) + 1 / 2) + B.b * ((dy : Rat) + 1 / 2) + B.c -
            ((if B.a < 0 then -1 else 1) * ((dx : Rat) + 1 / 2) + (tx : Rat)) := by ring
        rw [e]; exact c)
      (by
        have c := close_of_budget B.e B.d B.f ty ttol dst.1 dst.2 _ _ hv hu hcy hby
        simp only [Aff.apply, hS.d0, hS.f, se]
        have e : B.d * ((dx : Rat) + 1 / 2) + B.e * ((dy : Rat) + 1 / 2) + B.f -
            (0 * ((dx : Rat) + 1 / 2) + (if B.e < 0 then -1 else 1) * ((dy : Rat) + 1 / 2) + (ty : Rat)) =
            B.e * ((dy : Rat) + 1 / 2) + B.d * ((dx : Rat) + 1 / 2) + B.f -
            ((if B.e < 0 then -1 else 1) * ((dy : Rat) + 1 / 2) + (ty : Rat)) := by ring
        rw [e]; exact c)
    have fa : decide ((snapAffine B ttol stol).a < 0) = decide (B.a < 0) := by
      rw [sa]; by_cases c : B.a < 0 <;> simp [c]
    have fe : decide ((snapAffine B ttol stol).e < 0) = decide (B.e < 0) := by
      rw [se]; by_cases c : B.e < 0 <;> simp [c]
    rw [fa, fe] at key
    exact key

/-- **Counterexample without the budget (`ttol > ½`), model side.**  HEAD admits tolerances above one half (loaders pass
`ttol = 0.9` for nearest resampling).  With the true shift exactly half a pixel, `A = x + ½`, `ttol = 9/10`: the plan
reports `paste_ok`, snaps the shift to 0 (`maybe_int(½) = 0`) and pastes column `d ↦ d`; the centre of destination pixel
`d` maps to `d + 1` exactly, so the nearest-neighbour warp reads column `d + 1`.  (Replayed on the real code: GDAL reads
`src[d+1]`; an exact tie, so it is excluded from the harness' pixel comparison by its 1e-6 px edge band.) -/
theorem paste_tie_cex :
    (reprojectLinear (1, 4) (1, 4) ⟨1, 0, -1 / 2, 0, 1, 0⟩ ⟨1, 0, 1 / 2, 0, 1, 0⟩ 1 (9 / 10) tol1em3 none none).toOption.map
        (fun p => (p.pasteOk, p.readShrink, p.roiSrc, p.roiDst)) =
      some (true, 1, (⟨0, 1⟩, ⟨0, 4⟩), (⟨0, 1⟩, ⟨0, 4⟩)) ∧
    pasted (fun _ c => c) false false (⟨0, 1⟩, ⟨0, 4⟩) (⟨0, 1⟩, ⟨0, 4⟩) (-1) 0 1 = 1 ∧
    Warp.nnWarp (fun _ c => c) (1, 4) ⟨1, 0, 1 / 2, 0, 1, 0⟩ (-1) 0 1 = 2 := by
  refine ⟨by decide +kernel, by decide +kernel, by decide +kernel⟩

end OdcGeo.C10
