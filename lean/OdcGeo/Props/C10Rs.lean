/- C10 — theorems about the dispatch tables of warp.py (`OdcGeo.Model.C10Rs`). -/
import OdcGeo.Model.C10Rs
namespace OdcGeo.C10

theorem mem_of_lookup {t : String} {v : Nat} : ∀ l : List (String × Nat), List.lookup t l = some v → (t, v) ∈ l
  | [], h => by simp [List.lookup] at h
  | (k, w) :: l, h => by
    simp only [List.lookup] at h
    split at h
    · rename_i heq
      simp only [Option.some.injEq] at h
      have : t = k := by simpa using heq
      subst this; subst h
      exact List.mem_cons_self
    · exact List.mem_cons_of_mem _ (mem_of_lookup l h)

/-- `resampling_s2rio` succeeds exactly on the 15 member names (case-insensitively) and returns the member's value. -/
theorem s2rio_ok_iff (name : String) (c : Nat) :
    resamplingS2Rio name = .ok c ↔ (name.toLower, c) ∈ resamplingTable := by
  unfold resamplingS2Rio
  generalize name.toLower = t
  constructor
  · intro h
    cases hl : resamplingTable.lookup t with
    | none => rw [hl] at h; simp at h
    | some v =>
      rw [hl] at h
      simp only [Except.ok.injEq] at h
      subst h
      exact mem_of_lookup _ hl
  · intro h
    simp only [resamplingTable, List.mem_cons, Prod.mk.injEq, List.mem_nil_iff, or_false] at h
    rcases h with ⟨rfl, rfl⟩ | ⟨rfl, rfl⟩ | ⟨rfl, rfl⟩ | ⟨rfl, rfl⟩ | ⟨rfl, rfl⟩ | ⟨rfl, rfl⟩ | ⟨rfl, rfl⟩ | ⟨rfl, rfl⟩ |
      ⟨rfl, rfl⟩ | ⟨rfl, rfl⟩ | ⟨rfl, rfl⟩ | ⟨rfl, rfl⟩ | ⟨rfl, rfl⟩ | ⟨rfl, rfl⟩ | ⟨rfl, rfl⟩ <;> rfl

/-- **The two routes to "is this nearest?" agree**: for a string, `is_resampling_nn` says yes exactly when
`resampling_s2rio` yields the member with value 0; for an enum member / integer, exactly for the value 0. -/
theorem nn_iff_code_zero (a : RsArg) : isResamplingNN a = true ↔ rioResampling a = .ok 0 := by
  cases a with
  | code n => simp [isResamplingNN, rioResampling]
  | str s =>
    simp only [isResamplingNN, rioResampling, beq_iff_eq]
    constructor
    · intro h
      have : resamplingS2Rio s = .ok 0 := (s2rio_ok_iff s 0).mpr (by rw [h]; decide)
      rw [this]; rfl
    · intro h
      cases hr : resamplingS2Rio s with
      | error e => rw [hr] at h; simp at h
      | ok c =>
        rw [hr] at h
        simp only [Except.ok.injEq] at h
        have hc : c = 0 := by exact_mod_cast h
        subst hc
        have hm := (s2rio_ok_iff s 0).mp hr
        simp only [resamplingTable, List.mem_cons, Prod.mk.injEq, List.mem_nil_iff, or_false] at hm
        rcases hm with ⟨h1, _⟩ | ⟨_, h2⟩ | ⟨_, h2⟩ | ⟨_, h2⟩ | ⟨_, h2⟩ | ⟨_, h2⟩ | ⟨_, h2⟩ | ⟨_, h2⟩ | ⟨_, h2⟩ | ⟨_, h2⟩ |
          ⟨_, h2⟩ | ⟨_, h2⟩ | ⟨_, h2⟩ | ⟨_, h2⟩ | ⟨_, h2⟩
        · exact h1
        all_goals exact absurd h2 (by decide)

/-- The backend call: exactly one of `src_transform` / `gcps` is given (by the class of the source GeoBox); the
`XSCALE = YSCALE = 1` work-around is added exactly when the caller passed neither; a raster that needs the conversion
detour is handed over in its working type with its nodata stretched alike; and the call fails (`ValueError`) exactly for
a string that is not a resampling name. -/
theorem rio_call_contract (srcT dstT : PixT) (f : Bool) (nan : Int) (gcp : Bool) (rs : RsArg) (hasX hasY : Bool)
    (sn dn : Option Int) :
    ((∃ e, rioCall srcT dstT f nan gcp rs hasX hasY sn dn = .error e) ↔ (∃ e, rioResampling rs = .error e)) ∧
    (∀ c, rioCall srcT dstT f nan gcp rs hasX hasY sn dn = .ok c →
      (c.srcTransform = !c.gcps) ∧ c.gcps = gcp ∧ (c.scaleInjected = true ↔ (hasX = false ∧ hasY = false)) ∧
      rioResampling rs = .ok c.resampling ∧ (isResamplingNN rs = true ↔ c.resampling = 0) ∧
      c.srcWork = workType srcT ∧ c.dstWork = workType dstT ∧
      c.srcNodata = stretchNodata srcT sn ∧ c.dstNodata = stretchNodata dstT (rioDstNodata f nan dn)) := by
  unfold rioCall
  cases hr : rioResampling rs with
  | error e => simp
  | ok r =>
    simp only [reduceCtorEq, exists_false, Except.ok.injEq, true_and]
    intro c hc
    subst hc
    refine ⟨by simp, rfl, by simp, rfl, ?_, rfl, rfl, rfl, rfl⟩
    rw [nn_iff_code_zero, hr]
    simp

example (s : String) (h : s.toLower = "cubic_spline") : resamplingS2Rio s = .ok 3 :=
  (s2rio_ok_iff s 3).mpr (by rw [h]; decide)
example : isResamplingNN (.code 0) = true ∧ isResamplingNN (.code 2) = false := by decide
example : (rioCall .bool .int8 false 0 true (.code 0) false true (some 1) none).toOption =
    some ⟨0, false, true, false, some 255, none, .uint8, .int16⟩ := by decide +kernel

end OdcGeo.C10
