/-
C14 — `Bin1D` / `GridSpec` on the whole float domain (`Model/C14Ext.lean`): what the code does with non-finite and
overflowing tile sizes / resolutions / origins / coordinates, float-valued tile indices and integer indices beyond 2^53,
pinned by theorems; on finite inputs without overflow the extended model IS the model of `Model/C14.lean`.
-/
import OdcGeo.Model.C14Ext
import OdcGeo.Lemmas.C14Ext
import OdcGeo.Props.C14

namespace OdcGeo.C14

/-! ## the extended model restricted to finite inputs is the finite model -/

/-- `Bin1D` on finite values with rounding `fl` and no overflow: index→interval (for an int index that `float()` keeps),
    point→index and the constructor coincide with `Model/C14.lean` -/
theorem ext_bin1d_finite (fl : Rnd) (b : Bin1D) (k : Int) (x : Rat) (hk : fl (k : Rat) = (k : Rat)) :
    b.toX.lo ⟨fl, none⟩ (.int k) = .ok (.fin (b.lo fl k)) ∧
    b.toX.hi ⟨fl, none⟩ (.int k) = .ok (.fin (b.hi fl k)) ∧
    b.toX.bin ⟨fl, none⟩ (.fin x) = .ok (b.bin fl x) ∧
    Bin1DX.new (.fin b.sz) (.fin b.origin) b.dir = liftK ((Bin1D.new b.sz b.origin b.dir).map Bin1D.toX) := by
  refine ⟨?_, ?_, ?_, ?_⟩
  · simp [Bin1DX.lo, Num.toXF, FEnv.ofInt, FEnv.ofRat, hk, Bin1D.toX, XF.mul, XF.addX, Bin1D.lo, bind, Except.bind, pure,
      Except.pure]
  · simp [Bin1DX.hi, Bin1DX.lo, Num.toXF, FEnv.ofInt, FEnv.ofRat, hk, Bin1D.toX, XF.mul, XF.addX, Bin1D.hi, Bin1D.lo, bind,
      Except.bind, pure, Except.pure]
  · simp [Bin1DX.bin, XF.subX, XF.neg, XF.addX, XF.divPos, XF.floor, FEnv.ofRat, Bin1D.toX, Bin1D.bin, bind, Except.bind,
      pure, Except.pure, sub_eq_add_neg]
  · unfold Bin1DX.new Bin1D.new
    by_cases hd : b.dir = -1 ∨ b.dir = 1
    · by_cases hs : 0 < b.sz
      · simp [hd, hs, XF.isPos, liftK, Except.map, Bin1D.toX]
      · simp [hd, hs, XF.isPos, liftK, Except.map]
    · simp [hd, liftK, Except.map]

/-- a float-valued tile index is accepted and interpolates linearly: "tile 2.5" starts half a tile after tile 2 -/
theorem ext_float_index (b : Bin1D) (k : Rat) :
    b.toX.lo FEnv.exact (.flt k) = .ok (.fin (k * b.sz * (b.dir : Rat) + b.origin)) := rfl

/-- an integer index is converted to a float BEFORE the multiplication: beyond 2^53 that is one extra rounding, beyond the
    float range an `OverflowError` -/
theorem ext_int_index_converted_first (fl : Rnd) (M : Rat) (b : Bin1D) (k : Int) :
    (¬ M ≤ fl (k : Rat) → ¬ fl (k : Rat) ≤ -M →
      b.toX.lo ⟨fl, some M⟩ (.int k) = .ok
        ((((XF.fin (fl (k : Rat))).mul ⟨fl, some M⟩ (.fin b.sz)).mul ⟨fl, some M⟩ (.fin (b.dir : Rat))).addX ⟨fl, some M⟩
          (.fin b.origin))) ∧
    (M ≤ fl (k : Rat) → b.toX.lo ⟨fl, some M⟩ (.int k) = .error .overflow) := by
  constructor
  · intro h1 h2
    simp [Bin1DX.lo, Num.toXF, FEnv.ofInt, FEnv.ofRat, h1, h2, Bin1D.toX, bind, Except.bind, pure, Except.pure]
  · intro h
    simp [Bin1DX.lo, Num.toXF, FEnv.ofInt, FEnv.ofRat, h, bind, Except.bind]

/-! ## non-finite sizes, resolutions and origins -/

/-- `Bin1D(sz, origin, direction)` accepts exactly positive sizes, `+inf` included; `nan`, `-inf`, zero and negative sizes
    trip `assert sz > 0`; the origin is not looked at; the only error is `AssertionError` -/
theorem ext_bin1d_accepts_iff (sz o : XF) (d : Int) :
    ((∃ b, Bin1DX.new sz o d = .ok b) ↔ (d = -1 ∨ d = 1) ∧ sz.isPos = true) ∧
    (∀ e, Bin1DX.new sz o d = .error e → e = .k .assertion) := by
  unfold Bin1DX.new
  by_cases hd : d = -1 ∨ d = 1 <;> cases hs : sz.isPos <;> simp [hd]

/-- a `nan` resolution never yields a grid (tile size `n·|nan| = nan` fails `assert sz > 0`): `AssertionError` -/
theorem ext_nan_resolution_rejected (fl : Rnd) (ny nx : Int) (ox oy r : XF) (fx fy : Bool) :
    GridSpecX.new ⟨fl, none⟩ ny nx .nan r ox oy fx fy = .error (.k .assertion) ∧
    GridSpecX.new ⟨fl, none⟩ ny nx r .nan ox oy fx fy = .error (.k .assertion) := by
  have hd : ∀ f : Bool, dirOf f = -1 ∨ dirOf f = 1 := fun f => by cases f <;> simp [dirOf]
  constructor
  · unfold GridSpecX.new
    have hn : XF.abs .nan = .nan := rfl
    simp only [FEnv.ofInt, FEnv.ofRat, bind, Except.bind, hn, XF.mul_nan_right]
    cases h : Bin1DX.new ((XF.fin (fl (ny : Rat))).mul ⟨fl, none⟩ r.abs) oy (dirOf fy) with
    | error e => rw [(ext_bin1d_accepts_iff _ _ _).2 e h]
    | ok b => simp [Bin1DX.new, hd, XF.isPos]
  · unfold GridSpecX.new
    simp [FEnv.ofInt, FEnv.ofRat, bind, Except.bind, XF.abs, XF.mul_nan_right, Bin1DX.new, hd, XF.isPos]

/-- an infinite tile size (resolution `±inf`) IS accepted; such a binning has a single bin for point lookup — every finite
    point is in "tile 0" — but no usable footprint: tile 0 starts at `nan` (`0·inf`), every other tile at `±inf`. -/
theorem ext_infinite_tile (fl : Rnd) (o x : Rat) (d k : Int) (hd : d = -1 ∨ d = 1) (h0 : fl 0 = 0)
    (hk : fl (k : Rat) ≠ 0) :
    (∃ b, Bin1DX.new .pinf (.fin o) d = .ok b) ∧
    (⟨.pinf, .fin o, d⟩ : Bin1DX).bin ⟨fl, none⟩ (.fin x) = .ok 0 ∧
    (⟨.pinf, .fin o, d⟩ : Bin1DX).lo ⟨fl, none⟩ (.int 0) = .ok .nan ∧
    ((⟨.pinf, .fin o, d⟩ : Bin1DX).lo ⟨fl, none⟩ (.int k) = .ok .pinf ∨
     (⟨.pinf, .fin o, d⟩ : Bin1DX).lo ⟨fl, none⟩ (.int k) = .ok .ninf) := by
  refine ⟨((ext_bin1d_accepts_iff _ _ _).1).mpr ⟨hd, rfl⟩, ?_, ?_, ?_⟩
  · simp only [Bin1DX.bin, XF.subX, XF.addX, XF.neg, XF.divPos, XF.floor, FEnv.ofRat, bind, Except.bind, pure, Except.pure]
    have : Rat.floor 0 = 0 := rfl
    rw [this, mul_zero]
  · simp [Bin1DX.lo, Num.toXF, FEnv.ofInt, FEnv.ofRat, h0, XF.mul, XF.sign?, XF.addX, bind, Except.bind, pure, Except.pure]
  · have e : (⟨.pinf, .fin o, d⟩ : Bin1DX).lo ⟨fl, none⟩ (.int k) =
        .ok ((((XF.fin (fl (k : Rat))).mul ⟨fl, none⟩ .pinf).mul ⟨fl, none⟩ (.fin (d : Rat))).addX ⟨fl, none⟩ (.fin o)) := rfl
    rw [e, XF.fin_mul_pinf]
    obtain ⟨u1, u2, u3, u4⟩ := XF.inf_mul_unit ⟨fl, none⟩
    obtain ⟨v1, v2⟩ := XF.inf_add_fin ⟨fl, none⟩ o
    rcases lt_trichotomy (fl (k : Rat)) 0 with h | h | h
    · rw [if_neg (not_lt.mpr h.le), if_pos h]
      rcases hd with rfl | rfl
      · left; push_cast; rw [u4, v1]
      · right; push_cast; rw [u2, v2]
    · exact absurd h hk
    · rw [if_pos h]
      rcases hd with rfl | rfl
      · right; push_cast; rw [u3, v2]
      · left; push_cast; rw [u1, v1]

/-- an infinite or `nan` origin with a finite tile size: every point lookup raises (`OverflowError` for `±inf`, `ValueError`
    for `nan`), every tile starts at that origin -/
theorem ext_nonfinite_origin (fl : Rnd) (sz x : Rat) (d : Int) :
    (⟨.fin sz, .pinf, d⟩ : Bin1DX).bin ⟨fl, none⟩ (.fin x) = .error .overflow ∧
    (⟨.fin sz, .ninf, d⟩ : Bin1DX).bin ⟨fl, none⟩ (.fin x) = .error .overflow ∧
    (⟨.fin sz, .nan, d⟩ : Bin1DX).bin ⟨fl, none⟩ (.fin x) = .error (.k .valueError) ∧
    (∀ k : Int, (⟨.fin sz, .nan, d⟩ : Bin1DX).lo ⟨fl, none⟩ (.int k) = .ok .nan) := by
  refine ⟨rfl, rfl, rfl, fun k => ?_⟩
  simp [Bin1DX.lo, Num.toXF, FEnv.ofInt, FEnv.ofRat, XF.mul, XF.addX, bind, Except.bind, pure, Except.pure]

/-- `GridSpec.tile_shape` is the shape the constructor was given; `dimensions` follows the CRS class -/
theorem tile_shape_and_dimensions {ny nx : Int} {rx ry ox oy : Rat} {fx fy : Bool} {g : GridSpec}
    (hg : GridSpec.new id ny nx rx ry ox oy fx fy = .ok g) :
    g.tileShape = (ny, nx) ∧ dimensions .geographic = .ok ("latitude", "longitude") ∧
    dimensions .projected = .ok ("y", "x") ∧ dimensions .otherKind = .error .valueError := by
  obtain ⟨h1, h2, _⟩ := gridspec_new_fields hg
  exact ⟨by unfold GridSpec.tileShape; rw [h1, h2], rfl, rfl, rfl⟩

end OdcGeo.C14
