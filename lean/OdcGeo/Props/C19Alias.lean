/-
C19, second growth increment — theorems about SHARED CRS instances, `CRS.authority` and the NaN
clean-up of the transformer wrapper (`Model/C19Alias.lean`), and the discharge of the key-coherence
hypotheses for plain (non-EPSG) texts.

What is guaranteed for values that hold one and the same CRS instance, and how this meets the
known finding K4, is stated in the section "Sharing".
-/
import OdcGeo.Model.C19Alias
import OdcGeo.Props.C19
import OdcGeo.Props.C19Glue
import Mathlib.Tactic.Linarith

namespace OdcGeo.C19

/-! ## Sharing -/

/-- a `.epsg` read changes nothing but the lazy field: pyproj object, string form (hence hash,
token and pickle) stay -/
theorem fillEpsg_keeps (c : CrsObj) :
    (fillEpsg c).obj = c.obj ∧ (fillEpsg c).info = c.info ∧ (fillEpsg c).str = c.str := by
  unfold fillEpsg; split <;> exact ⟨rfl, rfl, rfl⟩

/-- reading twice is reading once (pyproj's `to_epsg()` never answers the "unset" marker 0) -/
theorem fillEpsg_idem (c : CrsObj) (h : c.info.epsg ≠ some 0) : fillEpsg (fillEpsg c) = fillEpsg c := by
  unfold fillEpsg
  by_cases h0 : c.epsg = some 0
  · have : (c.info.epsg == some 0) = false := by simpa using h
    simp [h0, this]
  · simp [h0]

/-- the `.epsg` step of the history model is this very update of the instance -/
theorem step_epsg_is_fillEpsg (W : World) (σ : State) (v : Nat) (c : CrsObj) (h : assoc v σ.vars = some c) :
    (step W σ (.epsg v)).2 = .epsg (fillEpsg c).epsg ∧
    ((step W σ (.epsg v)).1.vars = σ.vars ∨ assoc v (step W σ (.epsg v)).1.vars = some (fillEpsg c)) := by
  simp only [step, h, fillEpsg]
  split
  · exact ⟨rfl, Or.inr (assoc_setVar _ _ _)⟩
  · exact ⟨rfl, Or.inl rfl⟩

theorem assoc_filter_ne {β : Type} (k k' : Nat) (h : k ≠ k') :
    ∀ l : List (Nat × β), assoc k (l.filter (fun e => e.1 != k')) = assoc k l
  | [] => rfl
  | e :: t => by
    have ih := assoc_filter_ne k k' h t
    rw [List.filter_cons]
    by_cases he : e.1 = k'
    · have hk : ¬ e.1 = k := fun e' => h (e'.symm.trans he)
      have hb : (e.1 != k') = false := by simp [he]
      simp [hb, assoc, hk, ih]
    · have hb : (e.1 != k') = true := by simp [he]
      by_cases hk : e.1 = k
      · subst hk
        simp [hb, assoc]
      · simp [hb, assoc, hk, ih]

theorem assoc_setVar_ne {β : Type} (k k' : Nat) (v : β) (l : List (Nat × β)) (h : k ≠ k') :
    assoc k (setVar k' v l) = assoc k l := by
  have h' : ¬ k' = k := fun e => h e.symm
  simp only [setVar, assoc, h', if_false]
  exact assoc_filter_ne k k' h l

/-- **Values that share an instance are always `==` in their CRS field**, whatever was read,
copied or constructed before — with NO coherence hypothesis: `self._crs is other._crs` answers
before anything that K4 can spoil is looked at. -/
theorem shared_holders_equal (σ : AState) (h1 h2 i : Nat) (c : CrsObj)
    (e1 : assoc h1 σ.hold = some (some i)) (e2 : assoc h2 σ.hold = some (some i))
    (ei : assoc i σ.inst = some c) :
    astep σ (.eq h1 h2) = (σ, .bool true) := by
  simp [astep, AState.crsOf, e1, e2, ei, optCrsEq, crs_eq_refl]

/-- one read is seen by every holder of the instance at once … -/
theorem read_seen_by_all_holders (σ : AState) (h i : Nat) (c : CrsObj)
    (eh : assoc h σ.hold = some (some i)) (ei : assoc i σ.inst = some c) :
    (astep σ (.read i)).1.crsOf h = some (some (fillEpsg c)) := by
  simp [astep, ei, AState.crsOf, eh, assoc_setVar]

/-- … and by nobody else: holders of other instances, and COPIES of the instance taken before
the read (`CRS(x)`, an unpickled clone), keep what they had -/
theorem read_leaves_other_instances (σ : AState) (h i j : Nat) (c : CrsObj) (hij : j ≠ i)
    (eh : assoc h σ.hold = some (some j)) (ei : assoc i σ.inst = some c) :
    (astep σ (.read i)).1.crsOf h = σ.crsOf h := by
  simp [astep, ei, AState.crsOf, eh, assoc_setVar_ne j i _ _ hij]

theorem copy_is_snapshot (σ : AState) (i j : Nat) (c : CrsObj) (hij : j ≠ i) (ei : assoc i σ.inst = some c) :
    assoc j (astep (astep σ (.copy j i)).1 (.read i)).1.inst = some c := by
  have e1 : assoc i (setVar j c σ.inst) = some c := by rw [assoc_setVar_ne i j _ _ (Ne.symm hij)]; exact ei
  simp only [astep, ei, e1]
  rw [assoc_setVar_ne j i _ _ hij, assoc_setVar]

/-- what a holder is hashed / tokenized / pickled from does not move under reads: hash, dask
token and pickle of BoundingBox and GeoBox are the same before and after any `.epsg` read of
the instance they hold -/
theorem holder_hash_token_stable (c : CrsObj) (a : BBox) (g : GBox) :
    optCrsHash (some (fillEpsg c)) = optCrsHash (some c) ∧ optCrsStr (some (fillEpsg c)) = optCrsStr (some c) ∧
    BBox.hashKey { a with crs := some (fillEpsg c) } = BBox.hashKey { a with crs := some c } ∧
    BBox.token { a with crs := some (fillEpsg c) } = BBox.token { a with crs := some c } ∧
    GBox.hashKey { g with crs := some (fillEpsg c) } = GBox.hashKey { g with crs := some c } ∧
    GBox.token { g with crs := some (fillEpsg c) } = GBox.token { g with crs := some c } := by
  have hs := (fillEpsg_keeps c).2.2
  simp [optCrsHash, optCrsStr, BBox.hashKey, BBox.token, GBox.hashKey, GBox.token, GBox.tokenTail, optCrsPkl, hs]

/-- **Under EPSG coherence a read changes no comparison**: if the records before and after the
read are coherent with the other operand (the negation of K4 on these three records), `==` of a
holder with anything else is what it was.  Coherence is exactly what K4 violates, so this is the
whole guarantee: equality of values holding DIFFERENT instances is stable under read-only use
iff no fuzzy EPSG match is involved. -/
theorem crsEq_read_invariant {D : CrsObj → Prop} (hD : Coherent D) (a b : CrsObj)
    (ha : D a) (ha' : D (fillEpsg a)) (hb : D b) :
    crsEq (fillEpsg a) b = crsEq a b ∧ crsEq b (fillEpsg a) = crsEq b a := by
  have hi := (fillEpsg_keeps a).2.1
  constructor
  · rw [Bool.eq_iff_iff, crs_eq_iff_sys hD _ _ ha' hb, crs_eq_iff_sys hD _ _ ha hb, hi]
  · rw [Bool.eq_iff_iff, crs_eq_iff_sys hD _ _ hb ha', crs_eq_iff_sys hD _ _ hb ha, hi]

/-- **K4 reaches containers through sharing (witness, replayed on the real code).**
`x = CRS(lossy text of 4326)`, `b1 = BoundingBox(…, x)`, `x2 = CRS(x)` taken BEFORE the read,
`b2 = BoundingBox(…, x2)`, `b3 = BoundingBox(…, CRS("EPSG:4326"))`.  Nobody touches a box, one
`x.epsg` is read: `b1 == b3` flips from False to True, `b2 == b3` stays False, `b1 == b2` is
True throughout (same pyproj object) — `==` of the three boxes is no longer transitive. -/
theorem shared_read_changes_equality_cex :
    let x : CrsObj := ⟨0, ⟨0, "X", "WX", some 4326⟩, "X", some 0⟩
    let e : CrsObj := ⟨1, ⟨1, "EPSG:4326", "W", some 4326⟩, "EPSG:4326", some 4326⟩
    (arun {} [.new 0 x, .copy 2 0, .new 1 e, .hold 1 0, .hold 2 2, .hold 3 1,
              .eq 1 3, .eq 2 3, .eq 1 2, .read 0, .eq 1 3, .eq 2 3, .eq 1 2]).2.drop 6 =
      [.bool false, .bool false, .bool true, .epsg (some 4326), .bool true, .bool false, .bool true] := by
  decide +kernel

/-! ## `CRS.authority` -/

/-- `authority` looks at the lazy field first: it is unaffected by a read unless the field was
unset AND pyproj's `to_epsg()` finds a code — then it becomes `("EPSG", code)` whatever
`to_authority()` said before -/
theorem authority_read_spec (c : CrsObj) (ta : Option (String × String)) :
    ((c.epsg ≠ some 0 ∨ truthy c.info.epsg = false) → authorityOf (fillEpsg c) ta = authorityOf c ta) ∧
    (∀ n, c.epsg = some 0 → c.info.epsg = some n → n ≠ 0 →
      authorityOf (fillEpsg c) ta = ("EPSG", toString n)) := by
  constructor
  · rintro (h | h)
    · have : (c.epsg == some 0) = false := by simpa using h
      simp [fillEpsg, this]
    · by_cases h0 : c.epsg = some 0
      · rcases hi : c.info.epsg with _ | n
        · simp [fillEpsg, h0, authorityOf, hi]
        · have hn : n = 0 := by simpa [truthy, hi] using h
          subst hn
          simp [fillEpsg, h0, authorityOf, hi]
      · have : (c.epsg == some 0) = false := by simpa using h0
        simp [fillEpsg, this]
  · intro n h0 hi hn
    have : (n != 0) = true := by simpa using hn
    simp [fillEpsg, h0, authorityOf, hi, this]

/-- stable when pyproj's two answers agree -/
theorem authority_stable_if_pyproj_agrees (c : CrsObj) (n : Nat) (hn : n ≠ 0) (hi : c.info.epsg = some n) :
    authorityOf (fillEpsg c) (some ("EPSG", toString n)) = authorityOf c (some ("EPSG", toString n)) := by
  have hb : (n != 0) = true := by simpa using hn
  by_cases h0 : c.epsg = some 0
  · simp [fillEpsg, h0, authorityOf, hi, hb]
  · have : (c.epsg == some 0) = false := by simpa using h0
    simp [fillEpsg, this]

/-- **witness (same root as K4, reported under its key)**: `CRS("+proj=longlat +datum=WGS84
+no_defs").authority` is `("OGC", "CRS84")` until `.epsg` is read and `("EPSG", "4326")` after -/
theorem authority_history_dependent_cex :
    let x : CrsObj := ⟨0, ⟨0, "X", "WX", some 4326⟩, "X", some 0⟩
    authorityOf x (some ("OGC", "CRS84")) = ("OGC", "CRS84") ∧
    authorityOf (fillEpsg x) (some ("OGC", "CRS84")) = ("EPSG", "4326") := by
  decide +kernel

/-! ## The NaN clean-up of the transformer wrapper -/

/-- NaN in either coordinate ⇒ NaN in both; otherwise the pair is handed through -/
theorem cleanPair_spec : ∀ (xs ys : List (Option Rat)),
    (cleanPair xs ys).length = min xs.length ys.length ∧
    (∀ p ∈ cleanPair xs ys, isNan p.1 = isNan p.2) ∧
    (∀ (k : Nat) (x y : Option Rat), xs[k]? = some x → ys[k]? = some y →
      (cleanPair xs ys)[k]? = some (if isNan x || isNan y then (none, none) else (x, y)))
  | [], ys => by simp [cleanPair]
  | x :: xs, [] => by simp [cleanPair]
  | x :: xs, y :: ys => by
    obtain ⟨h1, h2, h3⟩ := cleanPair_spec xs ys
    refine ⟨by simp [cleanPair, h1], ?_, ?_⟩
    · intro p hp
      simp only [cleanPair, List.mem_cons] at hp
      rcases hp with hp | hp
      · subst hp
        cases x <;> cases y <;> simp [isNan]
      · exact h2 p hp
    · intro k a b ha hb
      cases k with
      | zero =>
        simp only [List.getElem?_cons_zero, Option.some.injEq] at ha hb
        subst ha; subst hb
        simp [cleanPair]
      | succ k =>
        simp only [List.getElem?_cons_succ] at ha hb
        simpa [cleanPair] using h3 k a b ha hb

/-- finite input is not affected -/
theorem nanClean_finite_unaffected : ∀ (xs ys : List Rat), xs.length = ys.length →
    nanClean (.arrays (xs.map some) (ys.map some)) = .arrays (xs.map some) (ys.map some)
  | [], [], _ => rfl
  | x :: xs, y :: ys, h => by
    have ih := nanClean_finite_unaffected xs ys (by simpa using h)
    simp only [nanClean, TrRes.arrays.injEq] at ih ⊢
    simp [cleanPair, isNan, ih.1, ih.2]
  | [], _ :: _, h => by simp at h
  | _ :: _, [], h => by simp at h

/-- on arrays the result has NaN at a position of `x` exactly when it has NaN there in `y` -/
theorem nanClean_both_or_neither (xs ys : List (Option Rat)) (k : Nat) (a b : Option Rat)
    (ha : ((cleanPair xs ys).map (·.1))[k]? = some a) (hb : ((cleanPair xs ys).map (·.2))[k]? = some b) :
    isNan a = isNan b := by
  simp only [List.getElem?_map, Option.map_eq_some_iff] at ha hb
  obtain ⟨p, hp, rfl⟩ := ha
  obtain ⟨q, hq, rfl⟩ := hb
  rw [hp] at hq
  cases hq
  exact (cleanPair_spec xs ys).2.1 p (List.mem_of_getElem? hp)

/-- the wrapper does NOT act on scalars (a pair of Python floats is handed through as pyproj
returned it) -/
theorem nanClean_scalars_untouched (x y : Option Rat) : nanClean (.scalars x y) = .scalars x y := rfl

/-! ## Key coherence: discharged where `_make_crs_key` is injective

`KeySysCoherent` / `KeyAcceptCoherent` (hypotheses of `construct_sys_correct`) say that pyproj
treats all texts that share a cache key alike.  `_make_crs_key` maps a text that is not an
`EPSG:` spelling to ITSELF (crs.py:44-48), so for those the key is injective and the statement
is a theorem about the key function; what remains to be assumed concerns only the letter-case
variants of `EPSG:<code>` and the integer `<code>` (one key, several spellings: a fact about
pyproj, tabulated on every run). -/

theorem keyOfStr_injective_on_plain (s s' : String) (hs : isEpsgLike s = false) (hs' : isEpsgLike s' = false)
    (h : keyOfStr s = keyOfStr s') : s = s' := by
  simpa [keyOfStr, hs, hs'] using h

/-- the residual hypotheses: only pairs in which an `EPSG:` spelling (or an int) takes part -/
def EpsgKeySysCoherent (W : World) : Prop :=
  (∀ s s' p p', (isEpsgLike s = true ∨ isEpsgLike s' = true) → keyOfStr s = keyOfStr s' →
    W.fromText s = some p → W.fromText s' = some p' → p.sys = p'.sys) ∧
  (∀ s n p p', keyOfStr s = keyOfInt n → W.fromText s = some p → W.fromEpsg n = some p' → p.sys = p'.sys)

def EpsgKeyAcceptCoherent (W : World) : Prop :=
  (∀ s s', (isEpsgLike s = true ∨ isEpsgLike s' = true) → keyOfStr s = keyOfStr s' →
    (W.fromText s).isSome = (W.fromText s').isSome) ∧
  (∀ s n, keyOfStr s = keyOfInt n → (W.fromText s).isSome = (W.fromEpsg n).isSome)

theorem keySysCoherent_iff_epsg (W : World) : KeySysCoherent W ↔ EpsgKeySysCoherent W := by
  constructor
  · intro h
    exact ⟨fun s s' p p' _ hk h1 h2 => h.1 s s' p p' hk h1 h2, h.2⟩
  · intro h
    refine ⟨?_, h.2⟩
    intro s s' p p' hk h1 h2
    by_cases hs : isEpsgLike s = true
    · exact h.1 s s' p p' (Or.inl hs) hk h1 h2
    · by_cases hs' : isEpsgLike s' = true
      · exact h.1 s s' p p' (Or.inr hs') hk h1 h2
      · have e := keyOfStr_injective_on_plain s s' (by simpa using hs) (by simpa using hs') hk
        subst e
        rw [h1] at h2
        cases h2; rfl

theorem keyAcceptCoherent_iff_epsg (W : World) : KeyAcceptCoherent W ↔ EpsgKeyAcceptCoherent W := by
  constructor
  · intro h
    exact ⟨fun s s' _ hk => h.1 s s' hk, h.2⟩
  · intro h
    refine ⟨?_, h.2⟩
    intro s s' hk
    by_cases hs : isEpsgLike s = true
    · exact h.1 s s' (Or.inl hs) hk
    · by_cases hs' : isEpsgLike s' = true
      · exact h.1 s s' (Or.inr hs') hk
      · rw [keyOfStr_injective_on_plain s s' (by simpa using hs) (by simpa using hs') hk]

/-- `construct_sys_correct` with the hypothesis reduced to the EPSG spellings -/
theorem construct_sys_correct_epsg (W : World) (hW : EpsgKeySysCoherent W) (hA : EpsgKeyAcceptCoherent W)
    (h : List Op) (hreal : ∀ op ∈ h, op.real = true) (spec : Spec) (pick : Nat) (c : CrsObj) :
    (construct W (run W h).1 spec pick).2 = .ok c → specSys W (run W h).1 spec = some c.info.sys :=
  construct_sys_correct W ((keySysCoherent_iff_epsg W).2 hW) ((keyAcceptCoherent_iff_epsg W).2 hA) h hreal spec pick c

/-- `norm_crs_sys_correct` likewise: a value type given a text / int / pyproj / dict CRS argument -/
theorem norm_crs_sys_correct_epsg (W : World) (hW : EpsgKeySysCoherent W) (hA : EpsgKeyAcceptCoherent W)
    (h : List Op) (hreal : ∀ op ∈ h, op.real = true) (a : CrsArg) (s : Spec) (pick : Nat) (c : CrsObj)
    (hp : normPlan a false = .build s)
    (hr : (normRun W (run W h).1 (normPlan a false) pick).2 = .ok (some c)) :
    specSys W (run W h).1 s = some c.info.sys :=
  norm_crs_sys_correct W ((keySysCoherent_iff_epsg W).2 hW) ((keyAcceptCoherent_iff_epsg W).2 hA) h hreal a s pick c hp hr

/-- a world whose texts are all plain (WKT, PROJ strings, PROJJSON, other authorities) and that
knows no integer codes needs NO hypothesis about pyproj at all -/
theorem keyCoherent_of_plain_world (W : World) (hT : ∀ s, isEpsgLike s = true → W.fromText s = none)
    (hE : ∀ n, W.fromEpsg n = none) : KeySysCoherent W ∧ EpsgKeySysCoherent W := by
  have h : EpsgKeySysCoherent W := by
    refine ⟨?_, ?_⟩
    · intro s s' p p' hor _ h1 h2
      rcases hor with hs | hs
      · rw [hT s hs] at h1; cases h1
      · rw [hT s' hs] at h2; cases h2
    · intro s n p p' _ _ h2
      rw [hE n] at h2; cases h2
  exact ⟨(keySysCoherent_iff_epsg W).2 h, h⟩

/-- the demo world of the witnesses is such a world: its coherence is now PROVED, not assumed -/
example : KeySysCoherent demoWorld := by
  refine (keyCoherent_of_plain_world demoWorld ?_ (fun _ => rfl)).1
  intro s hs
  simp only [demoWorld]
  have ne : ∀ t : String, isEpsgLike t = false → s ≠ t := fun t ht e => by rw [e, ht] at hs; cases hs
  simp [ne "A" (by decide +kernel), ne "B" (by decide +kernel), ne "C" (by decide +kernel), ne "WA" (by decide +kernel)]

end OdcGeo.C19
