/-
C11 — the glue around `compute_output_geobox` (Model/C11Glue.lean): argument forms of `resolution=`,
GCP sources, the centre-pixel estimate computed from the projected centre-pixel box, keyword defaults of
`GeoBox.to_crs` / `.odc.output_geobox`, argument dispatch of `CRS.utm` and `norm_crs`.
-/
import OdcGeo.Model.C11Glue
import OdcGeo.Props.C11
import Mathlib.Tactic.Linarith
import Mathlib.Tactic.Ring
import Mathlib.Tactic.FieldSimp

namespace OdcGeo.C11
open OdcGeo

/-! ### `resolution=` forms -/

/-- **resolution_number_is_square_inverted** — a plain number `r` (int or float) as `resolution=` means pixels
`(r, -r)`; a `Resolution` object is used as given. -/
theorem resolution_number_is_square_inverted (r rx ry : Rat) :
    resModeOf (.num r) = .explicit r (-r) ∧ resModeOf (.res rx ry) = .explicit rx ry := ⟨rfl, rfl⟩

/-- **resolution_words_exact** — only the exact lower-case words select a mode: every other string, and every
value that is neither a number nor a `Resolution`, ends in the `ValueError` branch. -/
theorem resolution_words_exact (s : String) :
    (resModeOf (.str s) = .auto ↔ s = "auto") ∧ (resModeOf (.str s) = .same ↔ s = "same") ∧
    (resModeOf (.str s) = .fit ↔ s = "fit") ∧
    (s ≠ "auto" → s ≠ "same" → s ≠ "fit" → resModeOf (.str s) = .badString) ∧ resModeOf .other = .badString := by
  refine ⟨?_, ?_, ?_, ?_, rfl⟩
  · constructor
    · intro h
      unfold resModeOf at h
      split at h <;> simp_all
    · rintro rfl; rfl
  · constructor
    · intro h
      unfold resModeOf at h
      split at h <;> simp_all
    · rintro rfl; rfl
  · constructor
    · intro h
      unfold resModeOf at h
      split at h <;> simp_all
    · rintro rfl; rfl
  · intro h1 h2 h3
    unfold resModeOf
    split <;> simp_all

/-- a bad `resolution=` raises `ValueError` exactly when the resolution is needed: never with a shape request,
never on the identity fast path (which it cannot take), always otherwise. -/
theorem bad_resolution_raises (g : Bool) (c : Captured) (shape : ShapeReq) (tight : Bool) (anchor : Anchor) (tol : Rat)
    (rnd : Rounding) :
    (shape = .none → computeOutputAny g c .badString shape tight anchor tol rnd = .error .valueError) ∧
    (shape ≠ .none → computeOutputAny g c .badString shape tight anchor tol rnd
        = (fromBbox c.bbox shape none anchor tight tol).map Out.grid) := by
  constructor
  · rintro rfl
    cases g <;> simp [computeOutputAny, computeOutput, chooseRes]
  · intro hs
    cases g <;> simp [computeOutputAny, computeOutput, chooseRes, hs]

/-! ### GCP sources -/

/-- **gcp_source_as_other_crs** — for a `GCPGeoBox` source `compute_output_geobox` behaves exactly like for a
`GeoBox` source whose CRS differs from the destination: the identity fast path is never taken, everything
else is the same computation.  All C11 theorems about `computeOutput` therefore hold for GCP sources. -/
theorem gcp_source_as_other_crs (c : Captured) (mode : ResMode) (shape : ShapeReq) (tight : Bool) (anchor : Anchor)
    (tol : Rat) (rnd : Rounding) :
    computeOutputAny false c mode shape tight anchor tol rnd
      = computeOutput { c with sameCrs := false } mode shape tight anchor tol rnd ∧
    computeOutputAny false c mode shape tight anchor tol rnd ≠ .ok .source ∧
    computeOutputAny true c mode shape tight anchor tol rnd = computeOutput c mode shape tight anchor tol rnd := by
  have h1 : computeOutputAny false c mode shape tight anchor tol rnd
      = computeOutput { c with sameCrs := false } mode shape tight anchor tol rnd := by
    simp only [computeOutputAny, computeOutput, Bool.false_eq_true, if_false, false_and]
    have : chooseRes { c with sameCrs := false } mode shape rnd = chooseRes c mode shape rnd := by
      cases mode <;> simp [chooseRes, chooseRes.fit]
    rw [this]
    rfl
  refine ⟨h1, ?_, by simp [computeOutputAny]⟩
  rw [h1]
  unfold computeOutput
  split
  · rename_i h
    simp at h
  · split
    · simp
    · cases fromBbox _ shape _ anchor tight tol <;> simp [Except.map]

/-! ### the centre-pixel estimate -/

/-- **cp_res_is_span** — `GeoBox.from_bbox(cp_bbox, shape=(1, 1), tight=True).resolution` never fails and is the
span of the projected centre-pixel box, y inverted. -/
theorem cp_res_is_span (cp : BBox) :
    cpResOf cp = .ok (cp.right - cp.left, -(cp.top - cp.bottom)) := by
  simp [cpResOf, fromBbox, snapOf, Except.map, Aff.mul_def, Aff.mul, Aff.translation, Aff.scale]

/-- the centre-pixel resolution is read on the fit path only -/
theorem computeOutput_cpRes_irrelevant (g : Bool) (c : Captured) (cp' : Rat × Rat) (mode : ResMode) (shape : ShapeReq)
    (tight : Bool) (anchor : Anchor) (tol : Rat) (rnd : Rounding)
    (hnf : ¬ (shape = .none ∧ (mode = .fit ∨ (mode = .auto ∧ c.sameUnits = false)))) :
    computeOutputAny g { c with cpRes := cp' } mode shape tight anchor tol rnd
      = computeOutputAny g c mode shape tight anchor tol rnd := by
  have hch : chooseRes { c with cpRes := cp' } mode shape rnd = chooseRes c mode shape rnd := by
    unfold chooseRes
    by_cases hs : shape = .none
    · subst hs
      cases mode with
      | auto =>
        cases hu : c.sameUnits with
        | true => simp
        | false => exact absurd ⟨rfl, Or.inr ⟨rfl, hu⟩⟩ hnf
      | fit => exact absurd ⟨rfl, Or.inl rfl⟩ hnf
      | same => simp
      | explicit rx ry => simp
      | badString => simp
    · simp [hs]
  cases g <;> simp only [computeOutputAny, computeOutput, hch, Bool.false_eq_true, if_false, if_true]

/-- **fit_from_centre_pixel_box** — `resolution="fit"` (and `"auto"` across different units) for either kind of
source, without custom rounding, **from the projected centre-pixel box**: whenever that box has a positive span
on at least one axis the output pixels are square, positive in x, inverted in y, and their size is the average
of `span_x / sx` and `span_y / sy`.  (The hypothesis `cpRes ≠ 0` of `out_resolution_positive_square` is
discharged by `from_bbox`.) -/
theorem fit_from_centre_pixel_box (g : Bool) (c : CapturedCp) (mode : ResMode) (tight : Bool) (anchor : Anchor)
    (tol : Rat) (gr : Grid) (hm : mode = .fit ∨ (mode = .auto ∧ c.sameUnits = false))
    (hspan : c.cpBBox.left < c.cpBBox.right ∨ c.cpBBox.bottom < c.cpBBox.top)
    (h : computeOutputCp g c mode .none tight anchor tol .none = .ok (.grid gr)) :
    0 < gr.A.a ∧ gr.A.e = -gr.A.a ∧
      gr.A.a = (rabs ((c.cpBBox.right - c.cpBBox.left) / c.fitScale.1)
                + rabs ((c.cpBBox.top - c.cpBBox.bottom) / c.fitScale.2)) / 2 := by
  have hnf : needsFit c mode .none = true := by
    rcases hm with rfl | ⟨rfl, hu⟩ <;> simp [needsFit, *]
  unfold computeOutputCp at h
  split at h
  · cases h
  · simp only [cp_res_is_span] at h
    have hfast : ¬ (mode = .fit ∧ False) := by simp
    -- both kinds of source reduce to `computeOutput` (the fast path is excluded: fit, or different units)
    have key : ∀ cc : Captured, cc.cpRes = (c.cpBBox.right - c.cpBBox.left, -(c.cpBBox.top - c.cpBBox.bottom)) →
        cc.fitScale = c.fitScale → cc.sameUnits = c.sameUnits →
        computeOutput cc mode .none tight anchor tol .none = .ok (.grid gr) →
        0 < gr.A.a ∧ gr.A.e = -gr.A.a ∧
          gr.A.a = (rabs ((c.cpBBox.right - c.cpBBox.left) / c.fitScale.1)
                    + rabs ((c.cpBBox.top - c.cpBBox.bottom) / c.fitScale.2)) / 2 := by
      intro cc hcp hfs hsu hco
      have hm' : mode = .fit ∨ (mode = .auto ∧ cc.sameUnits = false) := by
        rcases hm with h1 | ⟨h1, h2⟩
        · exact Or.inl h1
        · exact Or.inr ⟨h1, by rw [hsu]; exact h2⟩
      have hne : cc.cpRes.1 ≠ 0 ∨ cc.cpRes.2 ≠ 0 := by
        rw [hcp]
        rcases hspan with hx | hy
        · left; simp only; linarith
        · right; simp only; linarith
      obtain ⟨p1, p2, p3⟩ := out_resolution_positive_square cc mode tight anchor tol gr hm' hne hco
      refine ⟨p1, p2, ?_⟩
      rw [p3, hcp, hfs]
      simp only
      have : rabs (-(c.cpBBox.top - c.cpBBox.bottom) / c.fitScale.2)
          = rabs ((c.cpBBox.top - c.cpBBox.bottom) / c.fitScale.2) := by
        rw [neg_div]
        unfold rabs
        split <;> split <;> linarith
      rw [this]
    cases g with
    | true =>
      simp only [computeOutputAny, if_true] at h
      exact key _ rfl rfl rfl h
    | false =>
      rw [(gcp_source_as_other_crs _ mode .none tight anchor tol .none).1] at h
      exact key _ rfl rfl rfl h

/-- non-vacuity: a fit request with the centre-pixel box `[0, 32] × [0, 16]` and scales `(2, 1)` gives 16-unit pixels -/
example :
    computeOutputCp true ⟨false, false, (1 / 4, -1 / 4), ⟨100, 200, 1000, 900⟩, ⟨0, 0, 32, 16⟩, (2, 1)⟩ .fit .none false
      .dflt (1 / 100) .none = .ok (.grid ⟨45, 57, ⟨16, 0, 96, 0, -16, 912⟩⟩) := by
  decide +kernel

/-! ### keyword defaults -/

/-- **to_crs_defaults** — `GeoBox.to_crs(crs)` / `.odc.output_geobox(crs)` / `xr_reproject(src, crs)` without
options is `compute_output_geobox(gbox, crs, resolution="auto", shape=None, tight=False, anchor="default",
tol=0.01, round_resolution=None)`; every option that is passed replaces exactly its own default. -/
theorem to_crs_defaults (g : Bool) (c : Captured) :
    toCrs g c {} = computeOutputAny g c .auto .none false .dflt tolDefault .none ∧
    (∀ t, toCrs g c { tol := some t } = computeOutputAny g c .auto .none false .dflt t .none) ∧
    (∀ b, toCrs g c { tight := some b } = computeOutputAny g c .auto .none b .dflt tolDefault .none) ∧
    (∀ a, toCrs g c { anchor := some a } = computeOutputAny g c .auto .none false a tolDefault .none) ∧
    (∀ s, toCrs g c { shape := some s } = computeOutputAny g c .auto s false .dflt tolDefault .none) ∧
    (∀ r, toCrs g c { resolution := some r } = computeOutputAny g c (resModeOf r) .none false .dflt tolDefault .none) ∧
    (∀ r, toCrs g c { rnd := some r } = computeOutputAny g c .auto .none false .dflt tolDefault r) :=
  ⟨rfl, fun _ => rfl, fun _ => rfl, fun _ => rfl, fun _ => rfl, fun _ => rfl, fun _ => rfl⟩

/-- **own_crs_defaults_identity** — `gbox.to_crs(<own CRS>)` / `xx.odc.output_geobox(<own CRS>)` with no option
(or only `tight=` / `tol=` / `round_resolution=`, or `resolution="auto" | "same"`) returns the source GeoBox itself;
a `GCPGeoBox` never does. -/
theorem own_crs_defaults_identity (c : Captured) (hc : c.sameCrs = true) (t : Option Bool) (tol : Option Rat)
    (r : Option Rounding) :
    toCrs true c { tight := t, tol := tol, rnd := r } = .ok .source ∧
    toCrs true c { resolution := some (.str "same"), tight := t, tol := tol, rnd := r } = .ok .source ∧
    toCrs false c { tight := t, tol := tol, rnd := r } ≠ .ok .source := by
  refine ⟨?_, ?_, ?_⟩
  · simp [toCrs, computeOutputAny, computeOutput, hc, resModeOf]
  · simp [toCrs, computeOutputAny, computeOutput, hc, resModeOf]
  · exact (gcp_source_as_other_crs c _ _ _ _ _ _).2.1

/-- `.odc.output_geobox` on an object without geobox raises `ValueError`, whatever the options -/
theorem output_geobox_needs_geobox (g : Bool) (c : Captured) (a : GridArgs) :
    outputGeobox false g c a = .error .valueError ∧ outputGeobox true g c a = toCrs g c a := ⟨rfl, rfl⟩

/-- **number_resolution_used_as_given** — `to_crs(crs, resolution=r)` with a plain number: the grid (never the
source object) has pixel size exactly `(r, -r)`. -/
theorem number_resolution_used_as_given (c : Captured) (r : Rat) (a : GridArgs) (o : Out)
    (ha : a.resolution = some (.num r)) (hs : a.shape = none ∨ a.shape = some .none)
    (h : toCrs true c a = .ok o) :
    ∃ gr, o = .grid gr ∧ gr.A.a = r ∧ gr.A.e = -r ∧ gr.A.b = 0 ∧ gr.A.d = 0 := by
  have hshape : a.shape.getD .none = .none := by rcases hs with h' | h' <;> simp [h']
  simp only [toCrs, ha, Option.getD_some, resModeOf, hshape, computeOutputAny, if_true] at h
  cases o with
  | source =>
    exfalso
    unfold computeOutput at h
    split at h
    · rename_i hh; simp at hh
    · split at h
      · cases h
      · rename_i x res heq
        cases hf : fromBbox c.bbox .none res (a.anchor.getD .dflt) (a.tight.getD false) (a.tol.getD tolDefault) <;>
          simp [hf, Except.map] at h
  | grid gr =>
    obtain ⟨h1, h2⟩ := out_explicit_resolution c r (-r) _ _ _ _ gr h
    obtain ⟨h3, h4, _⟩ := out_axis_aligned c _ _ _ _ _ gr h
    exact ⟨gr, rfl, h1, h2, h3, h4⟩

/-! ### `CRS.utm` / `norm_crs` argument dispatch -/

/-- **utm_point_forms** — `CRS.utm(x)`, `CRS.utm(x, y)` and `CRS.utm(xy_(x, y))` query a degenerate box at that
point (`y` defaulting to 0); a `BoundingBox` is used as is; a `Geometry` with a CRS through its lon/lat box. -/
theorem utm_point_forms (x y : Rat) (b ll : BBox) :
    utmBBox (.num x none) = ⟨x, 0, x, 0⟩ ∧ utmBBox (.num x (some y)) = ⟨x, y, x, y⟩ ∧
    utmBBox (.xy x y) = utmBBox (.num x (some y)) ∧ utmBBox (.bbox b) = b ∧
    utmBBox (.geom true b ll) = ll ∧ utmBBox (.geom false b ll) = b := ⟨rfl, rfl, rfl, rfl, rfl, rfl⟩

/-- **norm_crs_dispatch** — a `CRS` object is returned as is; `None` / `Unset` give `None` (`ValueError` from
`norm_crs_or_error`); a string is a UTM request exactly when its lower-cased text starts with `utm` (then a
context is required: `AssertionError` without), otherwise — like any other value — it is what `CRS(...)` makes
of it (`CRSError`, a `RuntimeError`, when that fails). -/
theorem norm_crs_dispatch (i : Nat) (raw : String) (parsed : Option Nat) (ctx : Bool) :
    normCrsArg (.obj i) ctx = .ok (.crs i) ∧
    normCrsArg .none ctx = .ok .none ∧ normCrsArg .unset ctx = .ok .none ∧
    normCrsOrError .none ctx = .error .valueError ∧ normCrsOrError .unset ctx = .error .valueError ∧
    (∀ req, parseUtm raw = some req → normCrsArg (.str raw parsed) true = .ok (.utm req) ∧
        normCrsArg (.str raw parsed) false = .error .assertion) ∧
    (parseUtm raw = none → normCrsArg (.str raw parsed) ctx = normCrsArg (.other parsed) ctx) ∧
    normCrsArg (.other none) ctx = .error .runtimeError := by
  refine ⟨rfl, rfl, rfl, rfl, rfl, ?_, ?_, rfl⟩
  · intro req hr
    simp [normCrsArg, hr]
  · intro hr
    simp [normCrsArg, hr]

/-- `norm_crs_or_error` never returns `None` -/
theorem norm_crs_or_error_some (a : CrsArg) (ctx : Bool) (r : NormCrs) (h : normCrsOrError a ctx = .ok r) :
    r ≠ .none := by
  unfold normCrsOrError at h
  split at h
  · cases h
  · rename_i hne
    intro hr
    subst hr
    exact hne h

end OdcGeo.C11
