/- C04 — property theorems only. -/
import OdcGeo.Model.C04
import Mathlib.Tactic.Linarith
namespace OdcGeo.C04
open OdcGeo.C17

/-- `count` is the ceiling of `N / n`: the least `T` with `N ≤ T * n`. -/
theorem count_is_ceil (N n : Int) (hn : 0 < n) : (count N n - 1) * n < N ∧ N ≤ count N n * n := by
  unfold count ceilDiv
  rw [if_pos hn]
  have h1 := Int.emod_add_mul_ediv (N + n - 1) n
  have h2 := Int.emod_nonneg (N + n - 1) (by omega : n ≠ 0)
  have h3 := Int.emod_lt_of_pos (N + n - 1) hn
  constructor <;> nlinarith

end OdcGeo.C04
