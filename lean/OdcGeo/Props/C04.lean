/- C04 — property theorems only. -/
import OdcGeo.Model.C04
namespace OdcGeo.C04

end OdcGeo.C04
